(* C11, letter case of keywords, grouping layer: the relations and the syntactic checks.

   [crelG Rl Rg]: two trees of the same structure and classes whose corresponding leaves have the
   same token type; the values of corresponding leaves are EQUAL, except for leaves whose type lies
   in T.Keyword (the leaves for which sql.Token.__init__ sets `is_keyword` and upper-cases
   `normalized`), whose values are related by [Rl]; the cached values of corresponding groups are
   related by [Rg].
     crel      : Rl = Rg = Forall2 Rcase        (ASCII re-casing)
     as_guard  : the guard against the one case-sensitive test of grouping.py
                 (group_functions: `token.value == 'AS'`)
     crel_as   : both
   [case_safe]: the syntactic check on the callback IR of Group/PassIR.v under which a callback
   cannot tell related tokens apart.
   Definitions only; the proofs are in Group/CaseRelFacts.v. *)
From SqlModel Require Import Base PyStr Node Passes PassIR CaseDefs SplitDefs Skeleton.
From SqlModel.Gen Require Import CaseTabs.

(* ---- relations between results ------------------------------------------------------------------ *)
Definition orel {A B} (P : A -> B -> Prop) (a : option A) (b : option B) : Prop :=
  match a, b with
  | Some x, Some y => P x y
  | None, None => True
  | _, _ => False
  end.

(* both succeed with related values, or both raise the same exception *)
Definition rres {A B} (P : A -> B -> Prop) (a : res A) (b : res B) : Prop :=
  match a, b with
  | Ok x, Ok y => P x y
  | Err e, Err e' => e = e'
  | _, _ => False
  end.

(* ---- the tree relation -------------------------------------------------------------------------- *)
Section Rel.
Variables Rl Rg : text -> text -> Prop.

Inductive crelG : node -> node -> Prop :=
| CR_leaf ty v v' :
    (if tin ty T_Keyword then Rl v v' else v = v') -> crelG (Leaf ty v) (Leaf ty v')
| CR_grp c v v' k k' :
    Rg v v' -> Forall2 crelG k k' -> crelG (Grp c v k) (Grp c v' k').
End Rel.

(* executable version, for examples *)
Section RelB.
Variables rl rg : text -> text -> bool.

Fixpoint crelGb (n n' : node) : bool :=
  match n, n' with
  | Leaf ty v, Leaf ty' v' =>
      ttype_eqb ty ty' && (if tin ty T_Keyword then rl v v' else text_eqb v v')
  | Grp c v k, Grp c' v' k' =>
      cls_eqb c c' && rg v v' &&
      (fix go (l l' : list node) : bool :=
         match l, l' with
         | [], [] => true
         | x :: l1, y :: l1' => crelGb x y && go l1 l1'
         | _, _ => false
         end) k k'
  | _, _ => false
  end.
End RelB.

Fixpoint crelGb_list (rl rg : text -> text -> bool) (l l' : list node) : bool :=
  match l, l' with
  | [], [] => true
  | x :: l1, y :: l1' => crelGb rl rg x y && crelGb_list rl rg l1 l1'
  | _, _ => false
  end.

(* ---- the instances ------------------------------------------------------------------------------ *)
(* ASCII re-casing of a text *)
Definition CR (v v' : text) : Prop := Forall2 Rcase v v'.

Definition crel : node -> node -> Prop := crelG CR CR.
Definition crelb : node -> node -> bool := crelGb text_Rcase_b text_Rcase_b.

(* the spellings the test `value == 'AS'` of group_functions can see in a concatenation *)
Definition s_A : text := [65]%N.
Definition s_S : text := [83]%N.
Definition asishb (v : text) : bool := text_eqb v s_AS || text_eqb v s_A || text_eqb v s_S.

(* a keyword leaf spelled exactly AS (or A, or S: no such keyword token comes out of the lexer) is
   not re-cased, and nothing is re-cased into such a spelling *)
Definition Rl_as (v v' : text) : Prop := asishb v || asishb v' = true -> v = v'.
Definition rl_asb (v v' : text) : bool := negb (asishb v || asishb v') || text_eqb v v'.
(* cached values of groups agree on the test *)
Definition Rg_as (v v' : text) : Prop := text_eqb v s_AS = text_eqb v' s_AS.
Definition rg_asb (v v' : text) : bool := Bool.eqb (text_eqb v s_AS) (text_eqb v' s_AS).

Definition as_guard : node -> node -> Prop := crelG Rl_as Rg_as.
Definition as_guardb : node -> node -> bool := crelGb rl_asb rg_asb.

Definition RlA (v v' : text) : Prop := CR v v' /\ Rl_as v v'.
Definition RgA (v v' : text) : Prop := CR v v' /\ Rg_as v v'.
Definition crel_as : node -> node -> Prop := crelG RlA RgA.
Definition crel_asb : node -> node -> bool :=
  crelGb (fun v v' => text_Rcase_b v v' && rl_asb v v') (fun v v' => text_Rcase_b v v' && rg_asb v v').

(* ---- tokens (before statement_of) ---------------------------------------------------------------- *)
Definition tok_relG (Rl : text -> text -> Prop) (a b : tok) : Prop :=
  fst a = fst b /\ (if tin (fst a) T_Keyword then Rl (snd a) (snd b) else snd a = snd b).
Definition tok_crel : tok -> tok -> Prop := tok_relG CR.
Definition tok_crel_as : tok -> tok -> Prop := tok_relG RlA.

Definition tok_crelb (a b : tok) : bool :=
  ttype_eqb (fst a) (fst b) &&
  (if tin (fst a) T_Keyword then text_Rcase_b (snd a) (snd b) else text_eqb (snd a) (snd b)).
Definition tok_crel_asb (a b : tok) : bool :=
  ttype_eqb (fst a) (fst b) &&
  (if tin (fst a) T_Keyword then text_Rcase_b (snd a) (snd b) && rl_asb (snd a) (snd b)
   else text_eqb (snd a) (snd b)).

(* the splitter reads `GO` case-sensitively (C11_go_case_refuted) *)
Definition go_guard (a b : tok) : Prop :=
  ttype_eqb (fst a) T_Keyword = true -> go_word a = go_word b.
Definition go_guardb (a b : tok) : bool :=
  negb (ttype_eqb (fst a) T_Keyword) || Bool.eqb (go_word a) (go_word b).

(* what a re-casing of the TEXT has to respect: only keyword tokens change, AS and GO keep the spelling
   that is read literally *)
Definition parse_guard (a b : tok) : Prop :=
  (tin (fst a) T_Keyword = false -> snd a = snd b) /\ Rl_as (snd a) (snd b) /\ go_guard a b.
Definition parse_guardb (a b : tok) : bool :=
  (tin (fst a) T_Keyword || text_eqb (snd a) (snd b)) && rl_asb (snd a) (snd b) && go_guardb a b.

(* the relation between token streams the parse theorem is stated with *)
Definition tok_prel (a b : tok) : Prop := tok_crel_as a b /\ go_guard a b.
Definition tok_prelb (a b : tok) : bool := tok_crel_asb a b && go_guardb a b.

(* ---- the syntactic check on callbacks ------------------------------------------------------------ *)
Definition all_cls : list cls :=
  [CStatement; CIdentifier; CIdentifierList; CTypedLiteral; CParenthesis; CSquareBrackets;
   CAssignment; CIf; CFor; CComparison; CComment; CWhere; COver; CHaving; CCase;
   CFunction; CBegin; COperation; CValues; CCommand; CTokenList].

(* a text without str.isspace() characters *)
Definition nospace (s : text) : bool := negb (existsb (fun c => cmem c space_set) s).

(* on a keyword leaf every atom reads the value through Token.normalized (upper-cased, inner white space
   collapsed) or compares value.upper() with a word that contains no white space, except `value == s` *)
Fixpoint leaf_safe (e : pexpr) : bool :=
  match e with
  | ValueEq _ => false
  | ValueUpperEq s => nospace s
  | Not a => leaf_safe a
  | And a b | Or a b => leaf_safe a && leaf_safe b
  | _ => true
  end.

(* the value of the expression on a group of class [c], if it does not depend on the cached value
   (`normalized` and `value` of a TokenList are str(self), compared as they are) *)
Fixpoint geval (e : pexpr) (c : cls) : option bool :=
  match e with
  | NormalizedEq _ | ValueEq _ | ValueUpperEq _ => None
  | Not a => match geval a c with Some b => Some (negb b) | None => None end
  | And a b =>
      match geval a c with
      | Some false => Some false
      | Some true => geval b c
      | None => match geval b c with Some false => Some false | _ => None end
      end
  | Or a b =>
      match geval a c with
      | Some true => Some true
      | Some false => geval b c
      | None => match geval b c with Some true => Some true | _ => None end
      end
  | other => Some (eval_tot other (Grp c [] []))
  end.

Definition is_some {A} (o : option A) : bool := match o with Some _ => true | None => false end.

Definition case_safe (e : pexpr) : bool :=
  leaf_safe e && forallb (fun c => is_some (geval e c)) all_cls.

(* `tlist[tidx].ttype = T.X` turns a keyword leaf into a leaf whose value is compared as it is: not
   safe by itself (group_operator is treated separately) *)
Definition post_case_safe (po : ppost) : bool :=
  match po with
  | PostPair _ _ => true
  | PostIfNext c _ _ _ _ => case_safe c
  | PostSeekNext _ _ _ => true
  | PostRetype _ _ _ => false
  end.

(* ---- the states of the _group loop ----------------------------------------------------------------- *)
Definition srelG (R : node -> node -> Prop) (s s' : gstate) : Prop :=
  Forall2 R (g_live s) (g_live s') /\ g_off s = g_off s' /\ g_pidx s = g_pidx s' /\
  orel R (g_prev s) (g_prev s') /\ g_rec s = g_rec s'.

(* what the generic driver needs of a parameter record *)
Definition pinvG (R : node -> node -> Prop) (p : gparams) : Prop :=
  (forall n n', R n n' -> g_match p n = g_match p n') /\
  (forall n n', R n n' -> g_vprev p n = g_vprev p n') /\
  (forall o o', orel R o o' -> g_vnext p o = g_vnext p o') /\
  (forall l l' pi ti ni, Forall2 R l l' ->
     rres (fun x y => Forall2 R (fst (fst x)) (fst (fst y)) /\ snd (fst x) = snd (fst y) /\ snd x = snd y)
          (g_post p l pi ti ni) (g_post p l' pi ti ni)).

(* group_operator with the re-typing guarded by the test the token has passed (equal to p_operator
   inside the loop, CaseRelFacts.operator_loop_eq) *)
Definition p_operator_safe : gparams :=
  {| g_cls := g_cls p_operator; g_match := g_match p_operator; g_vprev := g_vprev p_operator;
     g_vnext := g_vnext p_operator;
     g_post := fun l pidx tidx nidx =>
                 match nth_error l tidx, nidx with
                 | Some tk, Some ni =>
                     if is_group tk then Err Stuck else
                     if g_match p_operator tk then Ok (set_nth tidx (retype_operator tk) l, pidx, ni)
                     else Err Stuck
                 | None, _ => Err IndexError
                 | _, None => Err TypeError
                 end;
     g_extend := g_extend p_operator |}.
