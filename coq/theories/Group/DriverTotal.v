(* Totality of _group (Passes.group_loop / group_driver / group_driver_flat) and (NE) for it.

   The loop walks a SNAPSHOT of the children while it edits the live list; `tidx = idx - offset`
   is the live position of the snapshot token only as long as the tokens the last group_tokens call
   swallowed beyond tidx are skipped.  The invariant [linv] says exactly what is true:
       live = A ++ R      snapshot rest = W ++ R      idx + |W| = offset + |A|
   where W are the snapshot tokens already swallowed by the last group (they are whitespace,
   except the last one, which passed valid_next), and pidx < |A|.
   Under [post_ok] (post returns from in {pidx, tidx} and to in {tidx, nidx}) every call
   group_tokens(from, to) has from <= to, from < len: no IndexError, no empty group.
   group_assignment's post returns the index of a far-away `;` and is handled separately
   ([far_ok]): there from_idx > to_idx is possible (the offset decreases). *)
From SqlModel Require Import Base PyStr Node Inv Passes GroupFacts TotalDefs TotalBase.
From Coq Require Import ZArith.

Section Loop.
Variable p : gparams.

Definition nidx_of (nx : option (nat * node)) : option nat :=
  match nx with Some (i, _) => Some i | None => None end.
Definition next_of (nx : option (nat * node)) : option node :=
  match nx with Some (_, n) => Some n | None => None end.

(* what the pass's post function has to satisfy *)
Definition post_ok : Prop := forall l pidx tidx token,
  pidx <= tidx -> tidx < length l -> g_match p token = true ->
  (nth_error l tidx = Some token \/ g_vnext p (Some token) = true) ->
  g_vnext p (next_of (token_next true false tidx l)) = true ->
  exists l1 from to,
    g_post p l pidx tidx (nidx_of (token_next true false tidx l)) = Ok (l1, from, to) /\
    length l1 = length l /\ skipn (S tidx) l1 = skipn (S tidx) l /\ (NEL l -> NEL l1) /\
    (from = pidx \/ from = tidx) /\
    (to = tidx \/ exists n, token_next true false tidx l = Some (to, n)).

(* the swallowed snapshot tokens: whitespace, then the token that was `next_` *)
Definition wbl (W : list node) : Prop :=
  W = [] \/ exists ws x, W = ws ++ [x] /\ Forall (fun y => is_ws y = true) ws /\
                         g_vnext p (Some x) = true.

Definition linv (snap : list node) (idx : nat) (s : gstate) : Prop :=
  exists A R W,
    g_live s = A ++ R /\ snap = W ++ R /\
    (Z.of_nat idx + Z.of_nat (length W) = g_off s + Z.of_nat (length A))%Z /\
    wbl W /\
    (forall pi, g_pidx s = Some pi -> pi < length A).

Lemma linv_init l : linv l 0 (ginit l).
Proof.
  exists [], l, []. cbn [ginit g_live g_off g_pidx app length]. repeat apply conj; auto.
  - left; reflexivity.
  - intros pi H; discriminate.
Qed.

Lemma wbl_tail w W : wbl (w :: W) -> wbl W.
Proof.
  intros [H | (ws & x & E & Hws & Hx)]; [discriminate|].
  destruct ws as [|w' ws]; cbn [app] in E.
  - injection E as _ ->. left; reflexivity.
  - injection E as _ ->. right. exists ws, x. inversion Hws; subst. auto.
Qed.

Lemma linv_skip token snap idx s s2 :
  linv (token :: snap) idx s ->
  ((Z.of_nat idx - g_off s < 0)%Z \/ is_ws token = true) ->
  g_live s2 = g_live s -> g_off s2 = g_off s -> g_pidx s2 = g_pidx s ->
  linv snap (S idx) s2.
Proof.
  intros (A & R & W & HL & HS & HZ & HW & HP) Hc E1 E2 E3.
  unfold linv. rewrite E1, E2, E3.
  destruct W as [|w W]; cbn [app length] in *.
  - destruct Hc as [Hc | Hc]; [lia|].
    subst R. exists (A ++ [token]), snap, []. rewrite <- app_assoc. cbn [app length].
    split; [exact HL|]. split; [reflexivity|].
    split; [rewrite app_length; cbn [length]; lia|].
    split; [left; reflexivity|].
    intros pi Hpi. apply HP in Hpi. rewrite app_length. cbn [length]. lia.
  - injection HS as <- ->. exists A, R, W.
    split; [exact HL|]. split; [reflexivity|]. split; [lia|].
    split; [eapply wbl_tail; eauto | exact HP].
Qed.

Lemma linv_nonws token snap idx s :
  linv (token :: snap) idx s -> is_ws token = false ->
  exists A, g_live s = A ++ snap /\
            (Z.of_nat idx + 1 = g_off s + Z.of_nat (length A))%Z /\
            (forall pi, g_pidx s = Some pi -> pi < length A) /\
            (nth_error (g_live s) (length A - 1) = Some token \/ g_vnext p (Some token) = true).
Proof.
  intros (A & R & W & HL & HS & HZ & HW & HP) Hws.
  destruct W as [|w W]; cbn [app length] in *.
  - subst R. exists (A ++ [token]). rewrite <- app_assoc. cbn [app]. rewrite app_length. cbn [length].
    split; [exact HL|]. split; [lia|]. split.
    + intros pi Hpi. apply HP in Hpi. lia.
    + left. rewrite HL. replace (length A + 1 - 1) with (length A) by lia. apply nth_error_app_mid.
  - injection HS as <- ->.
    destruct HW as [HW | (ws & x & E & Hw & Hx)]; [discriminate|].
    destruct ws as [|w' ws]; cbn [app] in E.
    + injection E as Ex EW. subst x W. exists A. cbn [app length] in *.
      split; [exact HL|]. split; [lia|]. split; [exact HP | right; exact Hx].
    + injection E as <- _. inversion Hw as [|? ? Hw1 Hw2]; subst. congruence.
Qed.

Lemma linv_grouped A snap idx off live l1 from to live2 grp c ext s2 :
  live = A ++ snap -> (Z.of_nat idx + 1 = off + Z.of_nat (length A))%Z -> 1 <= length A ->
  length l1 = length live -> skipn (length A) l1 = snap ->
  from <= length A - 1 ->
  (to = length A - 1 \/
   exists n, token_next true false (length A - 1) live = Some (to, n) /\ g_vnext p (Some n) = true) ->
  group_tokens c from (S to) ext l1 = Ok (live2, grp) ->
  g_live s2 = live2 -> g_off s2 = (off + (Z.of_nat to - Z.of_nat from))%Z -> g_pidx s2 = Some from ->
  from <= to /\ linv snap (S idx) s2.
Proof.
  intros HL HZ HA Hlen Hskip Hfrom Hto Eg E1 E2 E3.
  assert (Hft : from <= to).
  { destruct Hto as [-> | (n & Hn & _)]; [exact Hfrom|]. apply token_next_range in Hn. lia. }
  split; [exact Hft|].
  pose proof (group_tokens_start _ _ _ _ _ _ _ Eg) as Hs.
  apply group_tokens_form in Eg; [|lia]. destruct Eg as (Hl2 & _).
  assert (HlenA : length (firstn from l1 ++ [grp]) = from + 1).
  { rewrite app_length, firstn_length. cbn [length]. lia. }
  unfold linv. rewrite E1, E2, E3.
  destruct Hto as [-> | (n & Hn & Vn)].
  - exists (firstn from l1 ++ [grp]), snap, [].
    split. { rewrite Hl2, <- app_assoc. cbn [app]. replace (S (length A - 1)) with (length A) by lia.
             rewrite Hskip. reflexivity. }
    split; [reflexivity|]. split; [rewrite HlenA; cbn [length]; lia|].
    split; [left; reflexivity|]. intros pi Hpi. injection Hpi as <-. lia.
  - apply token_next_spec in Hn. destruct Hn as (pre & post & Esk & Eto & Hpre & _).
    replace (S (length A - 1)) with (length A) in * by lia.
    assert (Esnap : snap = pre ++ n :: post).
    { rewrite <- Esk, HL. symmetry. apply skipn_app_length. }
    exists (firstn from l1 ++ [grp]), post, (pre ++ [n]).
    split.
    { rewrite Hl2, <- app_assoc. cbn [app]. do 2 f_equal.
      replace (S to) with (S (length pre) + length A) by lia.
      rewrite <- skipn_skipn, Hskip, Esnap.
      replace (pre ++ n :: post) with ((pre ++ [n]) ++ post) by (rewrite <- app_assoc; reflexivity).
      replace (S (length pre)) with (length (pre ++ [n])) by (rewrite app_length; cbn [length]; lia).
      apply skipn_app_length. }
    split; [rewrite Esnap, <- app_assoc; reflexivity|].
    split; [rewrite HlenA, app_length; cbn [length]; lia|].
    split; [right; exists pre, n; auto|].
    intros pi Hpi. injection Hpi as <-. lia.
Qed.

(* MAIN (generic): under post_ok the loop never fails, creates no empty group, and the list does
   not become empty *)
Lemma group_loop_sync : post_ok -> forall snap idx s, linv snap idx s ->
  exists s', group_loop p snap idx s = Ok s' /\ (NEL (g_live s) -> NEL (g_live s')) /\
             (g_live s' = [] -> g_live s = []).
Proof.
  intros Hpost. induction snap as [|token snap IH]; intros idx s HI; cbn [group_loop].
  - exists s. auto.
  - destruct (Z.ltb (Z.of_nat idx - g_off s) 0) eqn:Hneg.
    { apply Z.ltb_lt in Hneg.
      match goal with |- exists s', group_loop _ _ _ ?st = _ /\ _ =>
        destruct (IH (S idx) st) as (s' & E & N1 & N2) end.
      { eapply linv_skip; [exact HI | left; exact Hneg | reflexivity | reflexivity | reflexivity]. }
      exists s'. auto. }
    apply Z.ltb_ge in Hneg.
    destruct (is_ws token) eqn:Hws.
    { match goal with |- exists s', group_loop _ _ _ ?st = _ /\ _ =>
        destruct (IH (S idx) st) as (s' & E & N1 & N2) end.
      { eapply linv_skip; [exact HI | right; exact Hws | reflexivity | reflexivity | reflexivity]. }
      exists s'. auto. }
    destruct (linv_nonws _ _ _ _ HI Hws) as (A & HL & HZ & HP & Hsy).
    assert (HA : 1 <= length A) by lia.
    assert (Ht : Z.to_nat (Z.of_nat idx - g_off s) = length A - 1) by lia.
    rewrite Ht.
    (* the state after a token that is not grouped *)
    assert (Hplain : forall prev recs,
              exists s', group_loop p snap (S idx)
                           {| g_live := g_live s; g_off := g_off s; g_pidx := Some (length A - 1);
                              g_prev := prev; g_rec := recs |} = Ok s' /\
                         (NEL (g_live s) -> NEL (g_live s')) /\ (g_live s' = [] -> g_live s = [])).
    { intros prev recs.
      match goal with |- exists s', group_loop _ _ _ ?st = _ /\ _ =>
        destruct (IH (S idx) st) as (s' & E & N1 & N2) end.
      { exists A, snap, []. cbn [g_live g_off g_pidx app length].
        split; [exact HL|]. split; [reflexivity|]. split; [lia|]. split; [left; reflexivity|].
        intros pi Hpi. injection Hpi as <-. lia. }
      exists s'. auto. }
    destruct (g_match p token) eqn:M; [|apply Hplain].
    destruct (g_prev s) as [pv|]; [|apply Hplain].
    destruct (g_pidx s) as [pidx|] eqn:Epi; [|apply Hplain].
    destruct (g_vprev p pv && g_vnext p _) eqn:V; [|apply Hplain].
    apply andb_true_iff in V. destruct V as [_ V].
    specialize (HP pidx eq_refl).
    assert (Hlt : length A - 1 < length (g_live s)).
    { rewrite HL, app_length. lia. }
    destruct (Hpost (g_live s) pidx (length A - 1) token) as
        (l1 & from & to & Ep & Hlen & Hskip & Hne & Hfrom & Hto); try assumption; try lia.
    unfold nidx_of in Ep. rewrite Ep. cbn [bind].
    assert (Hfl : from <= length A - 1) by (destruct Hfrom; lia).
    destruct (group_tokens_ok (g_cls p) from (S to) (g_extend p) l1) as (live2 & grp & Eg); [lia|].
    rewrite Eg. cbn [bind].
    match goal with |- exists s', group_loop _ _ _ ?st = _ /\ _ =>
      destruct (linv_grouped A snap idx (g_off s) (g_live s) l1 from to live2 grp
                             (g_cls p) (g_extend p) st) as (Hft & HI2) end;
      try assumption; try reflexivity.
    { replace (S (length A - 1)) with (length A) in Hskip by lia.
      rewrite Hskip, HL. apply skipn_app_length. }
    { destruct Hto as [Hto | (n & Hn)]; [left; exact Hto|]. right. exists n. split; [exact Hn|].
      unfold next_of in V. rewrite Hn in V. exact V. }
    destruct (IH _ _ HI2) as (s' & E & N1 & N2). cbn [g_live] in N1, N2.
    exists s'. split; [exact E|]. split.
    + intros Hn. apply N1. eapply group_tokens_ne; [exact Eg | auto | left; lia].
    + intros Hn. apply N2 in Hn. apply group_tokens_at in Eg. tauto.
Qed.

Definition loop_total : Prop := forall l,
  exists s, group_loop p l 0 (ginit l) = Ok s /\ (NEL l -> NEL (g_live s)) /\ (g_live s = [] -> l = []).

Lemma post_ok_loop_total : post_ok -> loop_total.
Proof. intros H l. apply (group_loop_sync H l 0 (ginit l)). apply linv_init. Qed.

(* ---- post functions that return a far-away to_idx (group_assignment) ---------------------------
   from_idx = pidx may exceed to_idx here; then live[pidx] is the group made by the previous
   call, group_tokens runs in extend mode and appends an empty slice: nothing fails, no empty group
   is created, the offset decreases. *)
Definition far_ok : Prop :=
  g_extend p = true /\ g_vnext p None = false /\
  forall l pidx tidx ni, exists to, g_post p l pidx tidx (Some ni) = Ok (l, pidx, to) /\ ni <= to.

Definition jinv (idx : nat) (s : gstate) : Prop :=
  forall pi, g_pidx s = Some pi ->
    (Z.of_nat pi < Z.of_nat idx - g_off s)%Z \/
    (exists g, nth_error (g_live s) pi = Some g /\ inst g (g_cls p) = true).

Lemma jinv_skip idx s s2 :
  jinv idx s -> g_live s2 = g_live s -> g_off s2 = g_off s -> g_pidx s2 = g_pidx s -> jinv (S idx) s2.
Proof.
  intros HJ E1 E2 E3 pi Hpi. rewrite E1, E2. rewrite E3 in Hpi.
  destruct (HJ pi Hpi) as [H | H]; [left; lia | right; exact H].
Qed.

Lemma group_loop_far : far_ok -> forall snap idx s, jinv idx s ->
  exists s', group_loop p snap idx s = Ok s' /\ (NEL (g_live s) -> NEL (g_live s')) /\
             (g_live s' = [] -> g_live s = []).
Proof.
  intros (Hext & Hnone & Hpost). induction snap as [|token snap IH]; intros idx s HJ; cbn [group_loop].
  - exists s. auto.
  - destruct (Z.ltb (Z.of_nat idx - g_off s) 0) eqn:Hneg.
    { match goal with |- exists s', group_loop _ _ _ ?st = _ /\ _ =>
        destruct (IH (S idx) st) as (s' & E & N1 & N2) end.
      { eapply jinv_skip; [exact HJ | reflexivity | reflexivity | reflexivity]. }
      exists s'. auto. }
    apply Z.ltb_ge in Hneg.
    destruct (is_ws token) eqn:Hws.
    { match goal with |- exists s', group_loop _ _ _ ?st = _ /\ _ =>
        destruct (IH (S idx) st) as (s' & E & N1 & N2) end.
      { eapply jinv_skip; [exact HJ | reflexivity | reflexivity | reflexivity]. }
      exists s'. auto. }
    set (tidx := Z.to_nat (Z.of_nat idx - g_off s)).
    assert (Hplain : forall prev recs,
              exists s', group_loop p snap (S idx)
                           {| g_live := g_live s; g_off := g_off s; g_pidx := Some tidx;
                              g_prev := prev; g_rec := recs |} = Ok s' /\
                         (NEL (g_live s) -> NEL (g_live s')) /\ (g_live s' = [] -> g_live s = [])).
    { intros prev recs.
      match goal with |- exists s', group_loop _ _ _ ?st = _ /\ _ =>
        destruct (IH (S idx) st) as (s' & E & N1 & N2) end.
      { intros pi Hpi. cbn [g_pidx g_off g_live] in *. injection Hpi as <-. left. unfold tidx. lia. }
      exists s'. auto. }
    destruct (g_match p token) eqn:M; [|apply Hplain].
    destruct (g_prev s) as [pv|]; [|apply Hplain].
    destruct (g_pidx s) as [pidx|] eqn:Epi; [|apply Hplain].
    destruct (token_next true false tidx (g_live s)) as [[ni nn]|] eqn:Enx.
    2:{ rewrite Hnone, andb_false_r. apply Hplain. }
    destruct (g_vprev p pv && g_vnext p (Some nn)) eqn:V; [|apply Hplain].
    destruct (Hpost (g_live s) pidx tidx ni) as (to & Ep & Hto). rewrite Ep. cbn [bind].
    apply token_next_range in Enx. destruct Enx as (Hn1 & Hn2 & _).
    specialize (HJ pidx Epi).
    assert (Hpl : pidx < length (g_live s)).
    { destruct HJ as [HJ | (g & Hg & _)]; [unfold tidx in Hn1; lia|].
      apply nth_error_Some. congruence. }
    destruct (group_tokens_ok (g_cls p) pidx (S to) (g_extend p) (g_live s)) as (live2 & grp & Eg);
      [exact Hpl|].
    rewrite Eg. cbn [bind].
    pose proof (group_tokens_at _ _ _ _ _ _ _ Eg) as (Hat & Hinst & Hnn).
    match goal with |- exists s', group_loop _ _ _ ?st = _ /\ _ =>
      destruct (IH (S idx) st) as (s' & E & N1 & N2) end.
    { intros pi Hpi. cbn [g_pidx g_off g_live] in *. injection Hpi as <-. right. exists grp. auto. }
    cbn [g_live] in N1, N2. exists s'. split; [exact E|]. split.
    + intros Hne. apply N1. eapply group_tokens_ne; [exact Eg | exact Hne |].
      destruct HJ as [HJ | (g & Hg & Hi)]; [left; unfold tidx in Hn1; lia|].
      right. exists g. split; [exact Hg|]. rewrite Hext, Hi. reflexivity.
    + intros Hn. apply N2 in Hn. contradiction.
Qed.

Lemma far_ok_loop_total : far_ok -> loop_total.
Proof.
  intros H l. apply (group_loop_far H l 0 (ginit l)). intros pi Hpi. discriminate.
Qed.

(* ---- the drivers ------------------------------------------------------------------------------- *)
Lemma loop_total_grp c0 v kids kids1 fin :
  Forall2 kid_rel kids kids1 ->
  (NEL kids1 -> NEL (g_live fin)) -> (g_live fin = [] -> kids1 = []) ->
  kid_rel (Grp c0 v kids) (Grp c0 v (g_live fin)).
Proof.
  intros HR N1 N2. split; [discriminate|]. split; [|split].
  - intros c v' k E. injection E as <- <- <-. eauto.
  - intros Hne. apply ne_grp in Hne. destruct Hne as [Hk1 Hk2]. apply ne_grp. split.
    + intros Hn. apply N2 in Hn. apply (kid_rel_nil _ _ HR) in Hn. contradiction.
    + apply N1. eapply kid_rel_NEL; eauto.
  - cbn [nkids]. intros Hk. apply N1. eapply kid_rel_NEL; eauto.
Qed.

Theorem group_driver_total : loop_total ->
  forall n, exists n', group_driver p n = Ok n' /\ kid_rel n n'.
Proof.
  intros HT. induction n as [ty v | c0 v kids IH] using node_ind'; cbn [group_driver].
  - eexists. split; [reflexivity | apply kid_rel_refl].
  - destruct (HT kids) as (dry & Ed & _). rewrite Ed. cbn [bind].
    destruct (mapM2_total
                (fun k (f : bool) => if f && is_group k && negb (inst k (g_cls p))
                                     then group_driver p k else Ok k)
                false kid_rel kids) with (m := rev (g_rec dry)) as (kids1 & E1 & HR).
    { eapply Forall_impl; [|exact IH]. intros k (k' & Ek & Rk) f. cbv beta.
      destruct (f && is_group k && negb (inst k (g_cls p))); [eauto|].
      exists k. split; [reflexivity | apply kid_rel_refl]. }
    rewrite E1. cbn [bind].
    destruct (HT kids1) as (fin & Ef & N1 & N2). rewrite Ef. cbn [bind].
    eexists. split; [reflexivity|]. eapply loop_total_grp; eauto.
Qed.

Theorem group_driver_flat_total : loop_total ->
  forall n, exists n', group_driver_flat p n = Ok n' /\ kid_rel n n'.
Proof.
  intros HT [ty v | c0 v kids]; cbn [group_driver_flat].
  - eexists. split; [reflexivity | apply kid_rel_refl].
  - destruct (HT kids) as (fin & Ef & N1 & N2). rewrite Ef. cbn [bind].
    eexists. split; [reflexivity|]. eapply loop_total_grp; eauto.
    clear. induction kids; constructor; [apply kid_rel_refl | assumption].
Qed.

End Loop.

(* ---- the eleven parameter records --------------------------------------------------------------- *)
Lemma post_ok_pn p : g_post p = post_pn -> g_vnext p None = false -> post_ok p.
Proof.
  intros Hp Hn l pidx tidx token H1 H2 M Hsy V. rewrite Hp.
  destruct (token_next true false tidx l) as [[ni nn]|] eqn:Enx; cbn [next_of nidx_of] in *.
  - exists l, pidx, ni. cbn [post_pn]. repeat apply conj; auto. right. eauto.
  - rewrite Hn in V. discriminate.
Qed.

Lemma post_ok_tn p : g_post p = post_tn -> g_vnext p None = false -> post_ok p.
Proof.
  intros Hp Hn l pidx tidx token H1 H2 M Hsy V. rewrite Hp.
  destruct (token_next true false tidx l) as [[ni nn]|] eqn:Enx; cbn [next_of nidx_of] in *.
  - exists l, tidx, ni. cbn [post_tn]. repeat apply conj; auto. right. eauto.
  - rewrite Hn in V. discriminate.
Qed.

Lemma po_typecasts : post_ok p_typecasts. Proof. apply post_ok_pn; reflexivity. Qed.
Lemma po_tzcasts : post_ok p_tzcasts. Proof. apply post_ok_pn; reflexivity. Qed.
Lemma po_typed1 : post_ok p_typed_literal1. Proof. apply post_ok_tn; reflexivity. Qed.
Lemma po_typed2 : post_ok p_typed_literal2. Proof. apply post_ok_tn; reflexivity. Qed.
Lemma po_comparison : post_ok p_comparison. Proof. apply post_ok_pn; reflexivity. Qed.
Lemma po_as : post_ok p_as. Proof. apply post_ok_pn; reflexivity. Qed.
Lemma po_idlist : post_ok p_identifier_list. Proof. apply post_ok_pn; reflexivity. Qed.

Lemma po_period : post_ok p_period.
Proof.
  intros l pidx tidx token H1 H2 M Hsy V. cbn [g_post p_period].
  destruct (token_next true false tidx l) as [[ni nn]|] eqn:Enx; cbn [next_of nidx_of] in *.
  - destruct (imt (nth_error l ni) _ _ _).
    + exists l, pidx, ni. repeat apply conj; auto. right. eauto.
    + exists l, pidx, tidx. repeat apply conj; auto.
  - cbn [imt]. exists l, pidx, tidx. repeat apply conj; auto.
Qed.

Lemma po_arrays : post_ok p_arrays.
Proof.
  intros l pidx tidx token H1 H2 M Hsy V. cbn [g_post p_arrays].
  exists l, pidx, tidx. repeat apply conj; auto.
Qed.

(* group_operator: the token that is re-typed is the snapshot token itself (a leaf), because a
   swallowed token passed valid_next = valid_operand and an operand is never an operator *)
Lemma operator_not_operand t :
  imt (Some t) [] [] (TMany [T_Operator; T_Wildcard]) = true -> valid_operand (Some t) = false.
Proof.
  destruct t as [ty v | c v kids]; [|discriminate].
  cbn [imt inst_any existsb orb tmatch tt_among].
  rewrite orb_false_r. intros H. apply orb_true_iff in H.
  destruct H as [H | H]; apply ttype_eqb_eq in H; subst ty; reflexivity.
Qed.

Lemma set_nth_length i x l : length (set_nth i x l) = length l.
Proof. revert i; induction l as [|y l IH]; intros [|i]; cbn [set_nth length]; auto. Qed.

Lemma set_nth_skipn i x l : skipn (S i) (set_nth i x l) = skipn (S i) l.
Proof.
  revert i; induction l as [|y l IH]; intros [|i]; cbn [set_nth skipn]; auto.
  apply (IH i).
Qed.

Lemma set_nth_NEL i x l : NEL l -> ne x -> NEL (set_nth i x l).
Proof.
  intros Hl Hx. revert i; induction Hl as [|y l Hy Hl IH]; intros [|i]; cbn [set_nth];
    constructor; auto. apply IH.
Qed.

Lemma po_operator : post_ok p_operator.
Proof.
  intros l pidx tidx token H1 H2 M Hsy V. cbn [g_post p_operator g_match g_vnext] in *.
  destruct Hsy as [Hsy | Hsy].
  2:{ rewrite (operator_not_operand _ M) in Hsy. discriminate. }
  rewrite Hsy.
  destruct (token_next true false tidx l) as [[ni nn]|] eqn:Enx; cbn [next_of nidx_of] in *.
  2:{ discriminate. }
  assert (G : is_group token = false) by (destruct token; [reflexivity | discriminate]).
  rewrite G. exists (set_nth tidx (retype_operator token) l), pidx, ni.
  repeat apply conj; auto.
  - apply set_nth_length.
  - apply set_nth_skipn.
  - intros Hl. apply set_nth_NEL; [exact Hl|]. destruct token; [reflexivity | discriminate].
  - right. eauto.
Qed.

Lemma fo_assignment : far_ok p_assignment.
Proof.
  split; [reflexivity|]. split; [reflexivity|].
  intros l pidx tidx ni. cbn [g_post p_assignment].
  destruct (next_by_from _ _ _ (S ni) l) as [[si x]|] eqn:E.
  - exists si. split; [reflexivity|]. apply next_by_from_range in E. lia.
  - exists ni. auto.
Qed.

(* every parameter record makes the loop total *)
Lemma lt_typecasts : loop_total p_typecasts. Proof. apply post_ok_loop_total, po_typecasts. Qed.
Lemma lt_tzcasts : loop_total p_tzcasts. Proof. apply post_ok_loop_total, po_tzcasts. Qed.
Lemma lt_typed1 : loop_total p_typed_literal1. Proof. apply post_ok_loop_total, po_typed1. Qed.
Lemma lt_typed2 : loop_total p_typed_literal2. Proof. apply post_ok_loop_total, po_typed2. Qed.
Lemma lt_period : loop_total p_period. Proof. apply post_ok_loop_total, po_period. Qed.
Lemma lt_arrays : loop_total p_arrays. Proof. apply post_ok_loop_total, po_arrays. Qed.
Lemma lt_operator : loop_total p_operator. Proof. apply post_ok_loop_total, po_operator. Qed.
Lemma lt_comparison : loop_total p_comparison. Proof. apply post_ok_loop_total, po_comparison. Qed.
Lemma lt_as : loop_total p_as. Proof. apply post_ok_loop_total, po_as. Qed.
Lemma lt_idlist : loop_total p_identifier_list. Proof. apply post_ok_loop_total, po_idlist. Qed.
Lemma lt_assignment : loop_total p_assignment. Proof. apply far_ok_loop_total, fo_assignment. Qed.

Print Assumptions group_driver_total.
Print Assumptions group_driver_flat_total.
Print Assumptions lt_operator.
Print Assumptions lt_assignment.

(* the hypotheses are satisfiable / the interesting branches are taken:
   a::b::c  (the second `::` is processed while b is already swallowed), and the assignment
   example where the offset decreases *)
Example group_loop_swallowed_example :
  let l := [Leaf T_Name [97%N]; Leaf T_Punctuation s_dcolon; Leaf T_Name [98%N];
            Leaf T_Punctuation s_dcolon; Leaf T_Name [99%N]] in
  match group_loop p_typecasts l 0 (ginit l) with
  | Ok s => length (g_live s) = 1 /\ g_off s = 4%Z
  | Err _ => False
  end.
Proof. vm_compute. split; reflexivity. Qed.
