(* C11 at the grouping level: SHAPES.  The shape of a tree is the tree with its whitespace leaves
   erased, every group reduced to its class and every leaf reduced to an ANNOTATION computed from its
   type and value by a parameter [kap] (for C11: the type and the value, keyword values upper-cased
   with inner whitespace collapsed).  Also the bracket matcher of MatchSpec.v transcribed to shapes.
   Definitions only; proofs in SkelFacts.v. *)
From SqlModel Require Import Base PyStr Node Passes MatchSpec SplitDefs Skeleton.
From SqlModel.Gen Require Import CaseTabs.

Section AShape.
Context {A : Type}.

Inductive ashp := ALeaf (a : A) | AGrp (c : cls) (kids : list ashp).

Variable kap : ttype -> text -> A.

Fixpoint ashape (n : node) : ashp :=
  match n with
  | Leaf ty v => ALeaf (kap ty v)
  | Grp c _ kids => AGrp c (concat (map (fun k => if is_ws k then [] else [ashape k]) kids))
  end.

(* shapes of a sibling list: whitespace leaves vanish *)
Definition ashapes (l : list node) : list ashp :=
  concat (map (fun k => if is_ws k then [] else [ashape k]) l).

(* ---- the stack matcher on shapes ---------------------------------------------------------- *)
Variable c : cls.
Variable kd : A -> kind.           (* how the pass classifies a leaf, from its annotation *)

Definition akind (x : ashp) : kind := match x with ALeaf a => kd a | AGrp _ _ => KPlain end.
Definition astate := (list (list ashp) * list ashp)%type.

Definition apush (x : ashp) (st : astate) : astate :=
  match st with
  | ([], out) => ([], x :: out)
  | (f :: s, out) => ((x :: f) :: s, out)
  end.

Definition astep (st : astate) (x : ashp) : astate :=
  match akind x with
  | KPlain => apush x st
  | KOpen => ([x] :: fst st, snd st)
  | KClose =>
      match st with
      | ([], _) => apush x st
      | (f :: s, out) => apush (AGrp c (rev (x :: f))) (s, out)
      end
  end.

Definition aflat (st : astate) : list ashp := rev (concat (fst st) ++ snd st).
Definition amatch (l : list ashp) : list ashp := aflat (fold_left astep l ([], [])).

(* is_group k && negb (inst k c), on shapes *)
Definition a_enter (x : ashp) : bool :=
  match x with
  | AGrp c' _ => negb (cls_eqb c' c || cls_eqb c CTokenList)
  | ALeaf _ => false
  end.

Fixpoint amatch_rec (x : ashp) : ashp :=
  match x with
  | ALeaf _ => x
  | AGrp c0 kids => AGrp c0 (amatch (map (fun k => if a_enter k then amatch_rec k else k) kids))
  end.

End AShape.
Arguments ashp A : clear implicits.

(* ---- the annotations of C11 ----------------------------------------------------------------- *)
(* type and value; keyword values up to letter case and inner whitespace *)
Definition kap0 (ty : ttype) (v : text) : tok := skey (ty, v).
Definition shape : node -> ashp tok := ashape kap0.
Definition shapes : list node -> list (ashp tok) := ashapes kap0.

(* ... plus the way the matcher of class c classifies the leaf (the guard) *)
Definition kap1 (c : cls) (ty : ttype) (v : text) : tok * kind := (skey (ty, v), kind_of c (Leaf ty v)).
Definition gshape (c : cls) : node -> ashp (tok * kind) := ashape (kap1 c).

(* classification of a leaf from its C11 annotation alone: Token.match against M_OPEN / M_CLOSE computed
   from the KEY (Token.normalized = ' '.join(value.upper().split()) depends on the value only through it) *)
Definition key_match (k : tok) (p : pat) : bool :=
  ttype_eqb (fst k) (fst p) &&
  match snd p with
  | None => true
  | Some vals =>
      if tin (fst k) T_Keyword
      then existsb (text_eqb (join_split space_set (snd k))) (map upper vals)
      else existsb (text_eqb (snd k)) vals
  end.
Definition kd0 (c : cls) (k : tok) : kind :=
  if existsb (key_match k) (m_open c) then KOpen
  else if existsb (key_match k) (m_close c) then KClose else KPlain.

(* the values M_OPEN / M_CLOSE of class c are compared with contain no whitespace *)
Definition pat_nospace (p : pat) : bool :=
  match snd p with None => true | Some vals => forallb (fun w => negb (has_space (upper w))) vals end.
Definition nospace_cls (c : cls) : bool := forallb pat_nospace (m_open c ++ m_close c).
