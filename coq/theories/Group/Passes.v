(* Model of sqlparse/engine/grouping.py: the two generic drivers and the 25 passes of group().
   No proofs in this file. *)
From SqlModel Require Import Base PyStr Node.
From SqlModel.Gen Require Import CaseTabs.
From Coq Require Import ZArith.

Definition txt (s : list N) : text := s.

(* string constants compared against token values *)
Definition s_lparen := [40]%N.   Definition s_rparen := [41]%N.
Definition s_lbrack := [91]%N.   Definition s_rbrack := [93]%N.
Definition s_dot := [46]%N.      Definition s_comma := [44]%N.
Definition s_semi := [59]%N.     Definition s_dcolon := [58; 58]%N.
Definition s_assign := [58; 61]%N.
Definition s_arrow := [45; 62]%N.          (* -> *)
Definition s_arrow2 := [45; 62; 62]%N.     (* ->> *)
Definition s_AS := [65; 83]%N.
Definition s_NULL := [78; 85; 76; 76]%N.
Definition s_null := [110; 117; 108; 108]%N.
Definition s_role := [114; 111; 108; 101]%N.
Definition s_CASE := [67; 65; 83; 69]%N.
Definition s_END := [69; 78; 68]%N.
Definition s_IF := [73; 70]%N.
Definition s_END_IF := [69; 78; 68; 32; 73; 70]%N.
Definition s_FOR := [70; 79; 82]%N.
Definition s_FOREACH := [70; 79; 82; 69; 65; 67; 72]%N.
Definition s_END_LOOP := [69; 78; 68; 32; 76; 79; 79; 80]%N.
Definition s_BEGIN := [66; 69; 71; 73; 78]%N.
Definition s_WHERE := [87; 72; 69; 82; 69]%N.
Definition s_OVER := [79; 86; 69; 82]%N.
Definition s_VALUES := [86; 65; 76; 85; 69; 83]%N.
Definition s_CREATE := [67; 82; 69; 65; 84; 69]%N.
Definition s_TABLE := [84; 65; 66; 76; 69]%N.
Definition s_TIMESTAMP := [84; 73; 77; 69; 83; 84; 65; 77; 80]%N.
Definition s_ORDER_BY := [79; 82; 68; 69; 82; 32; 66; 89]%N.
Definition s_GROUP_BY := [71; 82; 79; 85; 80; 32; 66; 89]%N.
Definition s_LIMIT := [76; 73; 77; 73; 84]%N.
Definition s_UNION := [85; 78; 73; 79; 78]%N.
Definition s_UNION_ALL := [85; 78; 73; 79; 78; 32; 65; 76; 76]%N.
Definition s_EXCEPT := [69; 88; 67; 69; 80; 84]%N.
Definition s_HAVING := [72; 65; 86; 73; 78; 71]%N.
Definition s_RETURNING := [82; 69; 84; 85; 82; 78; 73; 78; 71]%N.
Definition s_INTO := [73; 78; 84; 79]%N.
Definition s_DAY := [68; 65; 89]%N.
Definition s_HOUR := [72; 79; 85; 82]%N.
Definition s_MINUTE := [77; 73; 78; 85; 84; 69]%N.
Definition s_MONTH := [77; 79; 78; 84; 72]%N.
Definition s_SECOND := [83; 69; 67; 79; 78; 68]%N.
Definition s_YEAR := [89; 69; 65; 82]%N.
Definition s_CURRENT_DATE := [67; 85; 82; 82; 69; 78; 84; 95; 68; 65; 84; 69]%N.
Definition s_CURRENT_TIME := [67; 85; 82; 82; 69; 78; 84; 95; 84; 73; 77; 69]%N.
Definition s_CURRENT_TIMESTAMP :=
  [67; 85; 82; 82; 69; 78; 84; 95; 84; 73; 77; 69; 83; 84; 65; 77; 80]%N.

(* ---- M_OPEN / M_CLOSE of the bracket and block classes (sql.py) --------------------------- *)
Definition m_open (c : cls) : list pat :=
  match c with
  | CParenthesis => [(T_Punctuation, Some [s_lparen])]
  | CSquareBrackets => [(T_Punctuation, Some [s_lbrack])]
  | CIf => [(T_Keyword, Some [s_IF])]
  | CFor => [(T_Keyword, Some [s_FOR; s_FOREACH])]
  | CCase => [(T_Keyword, Some [s_CASE])]
  | CBegin => [(T_Keyword, Some [s_BEGIN])]
  | CWhere => [(T_Keyword, Some [s_WHERE])]
  | COver => [(T_Keyword, Some [s_OVER])]
  | CTypedLiteral => [(T_Builtin, None); (T_Keyword, Some [s_TIMESTAMP])]
  | _ => []
  end.

Definition m_close (c : cls) : list pat :=
  match c with
  | CParenthesis => [(T_Punctuation, Some [s_rparen])]
  | CSquareBrackets => [(T_Punctuation, Some [s_rbrack])]
  | CIf => [(T_Keyword, Some [s_END_IF])]
  | CFor => [(T_Keyword, Some [s_END_LOOP])]
  | CCase => [(T_Keyword, Some [s_END])]
  | CBegin => [(T_Keyword, Some [s_END])]
  | CWhere => [(T_Keyword, Some [s_ORDER_BY; s_GROUP_BY; s_LIMIT; s_UNION; s_UNION_ALL; s_EXCEPT;
                                 s_HAVING; s_RETURNING; s_INTO])]
  | CTypedLiteral => [(T_Single, None)]
  | _ => []
  end.

Definition m_extend_typed : list pat :=
  [(T_Keyword, Some [s_DAY; s_HOUR; s_MINUTE; s_MONTH; s_SECOND; s_YEAR])].

Definition matches (n : node) (ps : list pat) : bool := existsb (match_pat n) ps.

(* ================================================================================================
   _group_matching
   ================================================================================================ *)
(* the loop over the snapshot; [live] is tlist.tokens, [opens] the stack, [off] tidx_offset *)
Fixpoint matching_loop (c : cls) (snap : list node) (idx : nat) (live : list node)
         (opens : list nat) (off : nat) : res (list node) :=
  match snap with
  | [] => Ok live
  | token :: snap' =>
      let tidx := idx - off in
      if Nat.ltb idx off then Err Stuck else
      if is_ws token then matching_loop c snap' (S idx) live opens off else
      if is_group token && negb (inst token c) then matching_loop c snap' (S idx) live opens off else
      if matches token (m_open c) then matching_loop c snap' (S idx) live (tidx :: opens) off else
      if matches token (m_close c) then
        match opens with
        | [] => matching_loop c snap' (S idx) live opens off
        | open_idx :: opens' =>
            '(live', _) <- group_tokens c open_idx (S tidx) false live ;;
            matching_loop c snap' (S idx) live' opens' (off + (tidx - open_idx))
        end
      else matching_loop c snap' (S idx) live opens off
  end.

(* recursion into groups of other classes happens while the snapshot is scanned; it only changes
   the inside of those children, so it is performed first *)
Fixpoint group_matching (c : cls) (n : node) : res node :=
  match n with
  | Leaf _ _ => Ok n
  | Grp c0 v kids =>
      kids1 <- mapM (fun k => if is_group k && negb (inst k c) then group_matching c k else Ok k) kids ;;
      kids2 <- matching_loop c kids1 0 kids1 [] 0 ;;
      Ok (Grp c0 v kids2)
  end.

(* ================================================================================================
   _group
   ================================================================================================ *)
Record gparams := {
  g_cls : cls;
  g_match : node -> bool;
  g_vprev : node -> bool;
  g_vnext : option node -> bool;
  (* post(tlist, pidx, tidx, nidx) -> (tokens possibly edited, from_idx, to_idx) *)
  g_post : list node -> nat -> nat -> option nat -> res (list node * nat * nat);
  g_extend : bool
}.

Record gstate := { g_live : list node;
                   g_off : Z  (* tidx_offset: a Python int; `tidx_offset += to_idx - from_idx` can be
                                 negative (group_assignment), so it is an integer, not a natural *);
                   g_pidx : option nat; g_prev : option node;
                   g_rec : list bool (* reversed: was the snapshot token eligible for recursion *) }.

(* One pass of the loop over the snapshot.  Recursion into child groups is not performed here;
   the loop records for which snapshot positions the Python code reaches the recursive call
   (tidx >= 0 and not whitespace).
   tidx = idx - tidx_offset is computed in Z; `if tidx < 0: continue`. *)
Fixpoint group_loop (p : gparams) (snap : list node) (idx : nat) (s : gstate) : res gstate :=
  match snap with
  | [] => Ok s
  | token :: snap' =>
      if Z.ltb (Z.of_nat idx - g_off s) 0
      then group_loop p snap' (S idx) {| g_live := g_live s; g_off := g_off s; g_pidx := g_pidx s;
                                         g_prev := g_prev s; g_rec := false :: g_rec s |}
      else
      let tidx := Z.to_nat (Z.of_nat idx - g_off s) in
      if is_ws token
      then group_loop p snap' (S idx) {| g_live := g_live s; g_off := g_off s; g_pidx := g_pidx s;
                                         g_prev := g_prev s; g_rec := false :: g_rec s |}
      else
      let recs := true :: g_rec s in
      let plain := {| g_live := g_live s; g_off := g_off s; g_pidx := Some tidx;
                      g_prev := Some token; g_rec := recs |} in
      if g_match p token then
        let nx := token_next true false tidx (g_live s) in
        let nidx := match nx with Some (i, _) => Some i | None => None end in
        let next_ := match nx with Some (_, n) => Some n | None => None end in
        match g_prev s, g_pidx s with
        | Some pv, Some pidx =>
            if g_vprev p pv && g_vnext p next_ then
              '(live1, from_idx, to_idx) <- g_post p (g_live s) pidx tidx nidx ;;
              '(live2, grp) <- group_tokens (g_cls p) from_idx (S to_idx) (g_extend p) live1 ;;
              group_loop p snap' (S idx)
                         {| g_live := live2;
                            g_off := (g_off s + (Z.of_nat to_idx - Z.of_nat from_idx))%Z;
                            g_pidx := Some from_idx; g_prev := Some grp; g_rec := recs |}
            else group_loop p snap' (S idx) plain
        | _, _ => group_loop p snap' (S idx) plain
        end
      else group_loop p snap' (S idx) plain
  end.

Definition ginit (l : list node) : gstate :=
  {| g_live := l; g_off := 0%Z; g_pidx := None; g_prev := None; g_rec := [] |}.

(* _group(tlist, cls, ...) with recurse=True: the children the loop reaches are processed
   recursively (same parameters), then the loop runs on the result. *)
Fixpoint group_driver (p : gparams) (n : node) : res node :=
  match n with
  | Leaf _ _ => Ok n
  | Grp c0 v kids =>
      dry <- group_loop p kids 0 (ginit kids) ;;
      kids1 <- mapM2 (fun k (f : bool) => if f && is_group k && negb (inst k (g_cls p))
                                       then group_driver p k else Ok k)
                     false kids (rev (g_rec dry)) ;;
      fin <- group_loop p kids1 0 (ginit kids1) ;;
      Ok (Grp c0 v (g_live fin))
  end.

(* recurse=False (group_arrays): only the top-level list *)
Definition group_driver_flat (p : gparams) (n : node) : res node :=
  match n with
  | Leaf _ _ => Ok n
  | Grp c0 v kids => fin <- group_loop p kids 0 (ginit kids) ;; Ok (Grp c0 v (g_live fin))
  end.

Definition post_pn (l : list node) (pidx tidx : nat) (nidx : option nat)
  : res (list node * nat * nat) :=
  match nidx with Some n => Ok (l, pidx, n) | None => Err TypeError end.
Definition post_tn (l : list node) (pidx tidx : nat) (nidx : option nat)
  : res (list node * nat * nat) :=
  match nidx with Some n => Ok (l, tidx, n) | None => Err TypeError end.
Definition some_node (f : node -> bool) (o : option node) : bool :=
  match o with Some n => f n | None => false end.

Definition T_NUMERICAL := [T_Number; T_Integer; T_Float].
Definition T_STRING := [T_String; T_Single; T_Symbol].
Definition T_NAME := [T_Name; T_Placeholder].

(* ---- the passes built on _group ----------------------------------------------------------- *)
Definition p_typecasts : gparams :=
  {| g_cls := CIdentifier;
     g_match := fun n => match_pat n (T_Punctuation, Some [s_dcolon]);
     g_vprev := fun _ => true;
     g_vnext := some_node (fun _ => true);
     g_post := post_pn; g_extend := true |}.

Definition p_tzcasts : gparams :=
  {| g_cls := CIdentifier;
     g_match := fun n => tt_is n T_TZCast;
     g_vprev := fun _ => true;
     g_vnext := some_node (fun n => is_ws n || match_pat n (T_Keyword, Some [s_AS])
                                     || matches n (m_close CTypedLiteral));
     g_post := post_pn; g_extend := true |}.

Definition p_typed_literal1 : gparams :=
  {| g_cls := CTypedLiteral;
     g_match := fun n => imt (Some n) [] (m_open CTypedLiteral) TNone;
     g_vprev := fun _ => true;
     g_vnext := some_node (fun n => matches n (m_close CTypedLiteral));
     g_post := post_tn; g_extend := false |}.

Definition p_typed_literal2 : gparams :=
  {| g_cls := CTypedLiteral;
     g_match := fun n => inst n CTypedLiteral;
     g_vprev := fun _ => true;
     g_vnext := some_node (fun n => matches n m_extend_typed);
     g_post := post_tn; g_extend := true |}.

Definition p_period : gparams :=
  {| g_cls := CIdentifier;
     g_match := fun n => match_pat n (T_Punctuation, Some [s_dot])
                         || match_pat n (T_Operator, Some [s_arrow])
                         || match_pat n (T_Operator, Some [s_arrow2]);
     g_vprev := fun n => imt (Some n) [CSquareBrackets; CIdentifier] [] (TMany [T_Name; T_Symbol]);
     g_vnext := fun _ => true;
     g_post := fun l pidx tidx nidx =>
                 let next_ := match nidx with Some i => nth_error l i | None => None end in
                 if imt next_ [CSquareBrackets; CFunction] []
                        (TMany [T_Name; T_Symbol; T_Wildcard; T_Single])
                 then match nidx with Some i => Ok (l, pidx, i) | None => Err Stuck end
                 else Ok (l, pidx, tidx);
     g_extend := true |}.

Definition p_arrays : gparams :=
  {| g_cls := CIdentifier;
     g_match := fun n => inst n CSquareBrackets;
     g_vprev := fun n => imt (Some n) [CSquareBrackets; CIdentifier; CFunction] []
                             (TMany [T_Name; T_Symbol]);
     g_vnext := fun _ => true;
     g_post := fun l pidx tidx _ => Ok (l, pidx, tidx);
     g_extend := true |}.

Definition retype_operator (n : node) : node :=
  match n with Leaf _ v => Leaf T_Operator v | Grp _ _ _ => n end.

Definition valid_operand (o : option node) : bool :=
  imt o [CSquareBrackets; CParenthesis; CFunction; CIdentifier; COperation; CTypedLiteral] []
      (TMany (T_NUMERICAL ++ T_STRING ++ T_NAME))
  || some_node (fun n => match_pat n (T_Keyword, Some [s_CURRENT_DATE; s_CURRENT_TIME;
                                                        s_CURRENT_TIMESTAMP])) o.

Definition p_operator : gparams :=
  {| g_cls := COperation;
     g_match := fun n => imt (Some n) [] [] (TMany [T_Operator; T_Wildcard]);
     g_vprev := fun n => valid_operand (Some n);
     g_vnext := valid_operand;
     g_post := fun l pidx tidx nidx =>
                 match nth_error l tidx, nidx with
                 | Some tk, Some ni =>
                     (* tlist[tidx].ttype = T.Operator: a group cannot be re-typed this way in the
                        model (it has no ttype field); the match token is always a leaf *)
                     if is_group tk then Err Stuck else Ok (set_nth tidx (retype_operator tk) l, pidx, ni)
                 | None, _ => Err IndexError
                 | _, None => Err TypeError
                 end;
     g_extend := false |}.

Definition valid_cmp_operand (o : option node) : bool :=
  imt o [CParenthesis; CFunction; CIdentifier; COperation; CTypedLiteral] []
      (TMany (T_NUMERICAL ++ T_STRING ++ T_NAME))
  || some_node (fun n => is_kw n && text_eqb (normalized n) s_NULL) o.

Definition p_comparison : gparams :=
  {| g_cls := CComparison;
     g_match := fun n => tt_is n T_Comparison;
     g_vprev := fun n => valid_cmp_operand (Some n);
     g_vnext := valid_cmp_operand;
     g_post := post_pn; g_extend := false |}.

Definition p_as : gparams :=
  {| g_cls := CIdentifier;
     g_match := fun n => is_kw n && text_eqb (normalized n) s_AS;
     g_vprev := fun n => text_eqb (normalized n) s_NULL || negb (is_kw n);
     g_vnext := fun o => negb (imt o [] [] (TMany [T_DML; T_DDL; T_CTE]))
                         && match o with Some _ => true | None => false end;
     g_post := post_pn; g_extend := true |}.

Definition valid_assign_operand (o : option node) : bool :=
  some_node (fun n => negb (tt_among n [T_Keyword])) o.

Definition p_assignment : gparams :=
  {| g_cls := CAssignment;
     g_match := fun n => match_pat n (T_Assignment, Some [s_assign]);
     g_vprev := fun n => valid_assign_operand (Some n);
     g_vnext := valid_assign_operand;
     g_post := fun l pidx tidx nidx =>
                 match nidx with
                 | None => Err TypeError
                 | Some ni =>
                     match next_by_from [] [(T_Punctuation, Some [s_semi])] TNone (S ni) l with
                     | Some (si, _) => Ok (l, pidx, si)
                     | None => Ok (l, pidx, ni)
                     end
                 end;
     g_extend := true |}.

Definition valid_list_item (o : option node) : bool :=
  imt o [CFunction; CCase; CIdentifier; CComparison; CIdentifierList; COperation]
      [(T_Keyword, Some [s_null; s_role])]
      (TMany (T_NUMERICAL ++ T_STRING ++ T_NAME ++ [T_Keyword; T_Comment; T_Wildcard])).

Definition p_identifier_list : gparams :=
  {| g_cls := CIdentifierList;
     g_match := fun n => match_pat n (T_Punctuation, Some [s_comma]);
     g_vprev := fun n => valid_list_item (Some n);
     g_vnext := valid_list_item;
     g_post := post_pn; g_extend := true |}.

(* ================================================================================================
   the @recurse decorator and the ad-hoc passes (while-loops over the live list)
   ================================================================================================ *)
(* wrapped_f: children first (except instances of the excluded classes), then f on the list *)
Fixpoint recurse_pass (skip : list cls) (f : cls -> list node -> res (list node)) (n : node)
  : res node :=
  match n with
  | Leaf _ _ => Ok n
  | Grp c v kids =>
      kids1 <- mapM (fun k => if is_group k && negb (inst_any k skip)
                              then recurse_pass skip f k else Ok k) kids ;;
      kids2 <- f c kids1 ;;
      Ok (Grp c v kids2)
  end.

(* generic shape of the `tidx, token = next(...); while token: ...; tidx, token = next(idx=tidx)`
   loops: [body] handles the token at tidx and returns the new list and the index to continue
   after; fuel bounds the number of iterations by the list length. *)
Fixpoint scan_loop (find : nat -> list node -> option (nat * node))
         (body : nat -> node -> list node -> res (list node * nat))
         (fuel : nat) (start : nat) (l : list node) : res (list node) :=
  match fuel with
  | O => Err Stuck
  | S fuel' =>
      match find start l with
      | None => Ok l
      | Some (tidx, token) =>
          '(l', cont) <- body tidx token l ;;
          scan_loop find body fuel' (S cont) l'
      end
  end.

Definition scan (find : nat -> list node -> option (nat * node))
           (body : nat -> node -> list node -> res (list node * nat)) (l : list node)
  : res (list node) :=
  scan_loop find body (S (length l)) 0 l.

(* ---- group_comments ----------------------------------------------------------------------- *)
Definition f_comments (_ : cls) (l : list node) : res (list node) :=
  scan (next_by_from [] [] (TOne T_Comment))
       (fun tidx _ l =>
          match find_from (fun tk => negb (imt (Some tk) [] [] (TOne T_Comment) || is_newline tk)) tidx l with
          | Some (eidx, _) =>
              (* token_prev(eidx, skip_ws=False): the token just before eidx *)
              match eidx with
              | O => Err TypeError
              | S e1 => '(l', _) <- group_tokens CComment tidx (S e1) false l ;; Ok (l', tidx)
              end
          | None => Ok (l, tidx)
          end) l.

(* ---- group_over --------------------------------------------------------------------------- *)
Definition f_over (_ : cls) (l : list node) : res (list node) :=
  scan (next_by_from [] (m_open COver) TNone)
       (fun tidx _ l =>
          match token_next true false tidx l with
          | Some (nidx, next_) =>
              if imt (Some next_) [CParenthesis] [] (TOne T_Name)
              then '(l', _) <- group_tokens COver tidx (S nidx) false l ;; Ok (l', tidx)
              else Ok (l, tidx)
          | None => Ok (l, tidx)
          end) l.

(* ---- group_functions ---------------------------------------------------------------------- *)
Definition f_functions (_ : cls) (l : list node) : res (list node) :=
  let has_create := existsb (fun tk => text_eqb (upper (nvalue tk)) s_CREATE) l in
  let has_table := existsb (fun tk => text_eqb (upper (nvalue tk)) s_TABLE) l in
  let has_as := existsb (fun tk => text_eqb (upper (nvalue tk)) s_AS) l in
  if has_create && has_table && negb has_as then Ok l else
  scan (next_by_from [] [] (TOne T_Name))
       (fun tidx _ l =>
          match token_next true false tidx l with
          | Some (nidx, next_) =>
              if inst next_ CParenthesis then
                let eidx := match token_next true false nidx l with
                            | Some (oidx, over) => if inst over COver then oidx else nidx
                            | None => nidx
                            end in
                '(l', _) <- group_tokens CFunction tidx (S eidx) false l ;; Ok (l', tidx)
              else Ok (l, tidx)
          | None => Ok (l, tidx)
          end) l.

(* ---- group_where -------------------------------------------------------------------------- *)
Definition groupable_last_index (c : cls) (l : list node) : res nat :=
  match c with
  | CParenthesis | CSquareBrackets =>
      (* tokens[1:-1][-1] *)
      if Nat.leb (length l) 2 then Err IndexError else Ok (length l - 2)
  | _ => match l with [] => Err IndexError | _ => Ok (length l - 1) end
  end.

Definition f_where (c : cls) (l : list node) : res (list node) :=
  scan (next_by_from [] (m_open CWhere) TNone)
       (fun tidx _ l =>
          eidx <- match next_by_from [] (m_close CWhere) TNone (S tidx) l with
                  | Some (ci, _) => match ci with O => Err Stuck | S e => Ok e end
                  | None => groupable_last_index c l
                  end ;;
          '(l', _) <- group_tokens CWhere tidx (S eidx) false l ;; Ok (l', tidx)) l.

(* ---- group_identifier --------------------------------------------------------------------- *)
Definition f_identifier (_ : cls) (l : list node) : res (list node) :=
  scan (next_by_from [] [] (TMany [T_Symbol; T_Name]))
       (fun tidx _ l => '(l', _) <- group_tokens CIdentifier tidx (S tidx) false l ;; Ok (l', tidx)) l.

(* ---- group_order -------------------------------------------------------------------------- *)
Definition f_order (_ : cls) (l : list node) : res (list node) :=
  scan (next_by_from [] [] (TOne T_Order))
       (fun tidx _ l =>
          match token_prev true false tidx l with
          | Some (pidx, prev_) =>
              if imt (Some prev_) [CIdentifier] [] (TOne T_Number)
              then '(l', _) <- group_tokens CIdentifier pidx (S tidx) false l ;; Ok (l', pidx)
              else Ok (l, tidx)
          | None => Ok (l, tidx)
          end) l.

(* ---- group_aliased ------------------------------------------------------------------------ *)
Definition f_aliased (_ : cls) (l : list node) : res (list node) :=
  scan (next_by_from [CParenthesis; CFunction; CCase; CIdentifier; COperation; CComparison] []
                     (TOne T_Number))
       (fun tidx _ l =>
          match token_next true false tidx l with
          | Some (nidx, next_) =>
              if inst next_ CIdentifier
              then '(l', _) <- group_tokens CIdentifier tidx (S nidx) true l ;; Ok (l', tidx)
              else Ok (l, tidx)
          | None => Ok (l, tidx)
          end) l.

(* ---- align_comments ----------------------------------------------------------------------- *)
Definition f_align_comments (_ : cls) (l : list node) : res (list node) :=
  scan (next_by_from [CComment] [] TNone)
       (fun tidx _ l =>
          match token_prev true false tidx l with
          | Some (pidx, prev_) =>
              if inst prev_ CTokenList
              then '(l', _) <- group_tokens CTokenList pidx (S tidx) true l ;; Ok (l', pidx)
              else Ok (l, tidx)
          | None => Ok (l, tidx)
          end) l.

(* ---- group_values (top level only) -------------------------------------------------------- *)
Fixpoint values_scan (fuel : nat) (tidx : nat) (token : node) (end_idx : option nat)
         (l : list node) : res (option nat) :=
  match fuel with
  | O => Err Stuck
  | S fuel' =>
      let end_idx' := if inst token CParenthesis then Some tidx else end_idx in
      match token_next true false tidx l with
      | Some (nidx, next_) => values_scan fuel' nidx next_ end_idx' l
      | None => Ok end_idx'
      end
  end.

Definition group_values (n : node) : res node :=
  match n with
  | Leaf _ _ => Ok n
  | Grp c v l =>
      match next_by_from [] [(T_Keyword, Some [s_VALUES])] TNone 0 l with
      | None => Ok n
      | Some (start_idx, token) =>
          e <- values_scan (S (length l)) start_idx token None l ;;
          match e with
          | None => Ok n
          | Some end_idx =>
              '(l', _) <- group_tokens CValues start_idx (S end_idx) true l ;; Ok (Grp c v l')
          end
      end
  end.

(* ================================================================================================
   grouping.group: the passes in order
   ================================================================================================ *)
Definition passes : list (node -> res node) := [
  recurse_pass [CComment] f_comments;
  group_matching CSquareBrackets;
  group_matching CParenthesis;
  group_matching CCase;
  group_matching CIf;
  group_matching CFor;
  group_matching CBegin;
  recurse_pass [COver] f_over;
  recurse_pass [CFunction] f_functions;
  recurse_pass [CWhere] f_where;
  group_driver p_period;
  group_driver_flat p_arrays;
  recurse_pass [CIdentifier] f_identifier;
  recurse_pass [CIdentifier] f_order;
  group_driver p_typecasts;
  group_driver p_tzcasts;
  (fun n => n1 <- group_driver p_typed_literal1 n ;; group_driver p_typed_literal2 n1);
  group_driver p_operator;
  group_driver p_comparison;
  group_driver p_as;
  recurse_pass [] f_aliased;
  group_driver p_assignment;
  recurse_pass [] f_align_comments;
  group_driver p_identifier_list;
  group_values
].

Fixpoint run_passes (ps : list (node -> res node)) (n : node) : res node :=
  match ps with
  | [] => Ok n
  | p :: ps' => n' <- p n ;; run_passes ps' n'
  end.

Definition group_upto (k : nat) (n : node) : res node := run_passes (firstn k passes) n.
Definition group (n : node) : res node := run_passes passes n.

Definition statement_of (toks : list tok) : node :=
  mk_grp CStatement (map (fun tk => Leaf (fst tk) (snd tk)) toks).
