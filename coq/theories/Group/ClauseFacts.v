(* The passes that build the clause nodes of C13 ARE their specifications (ClauseSpec.v):
     f_where_spec / group_where_spec            group_where       = where_spec / where_rec
     f_functions_spec / group_functions_spec    group_functions   = functions_spec / functions_rec
     group_loop_join / group_driver_join        _group (post = (pidx|tidx, nidx)) = join_spec / join_rec
   instantiated for group_typed_literal (both runs), group_comparison, group_identifier_list,
   and the unbounded corollaries on the clean specification:
     identifier_list_one_group   a , b , c ... (any number of items) is ONE IdentifierList
     comparison_chain            a = b = c ... nests to the left
     typed1_literal / typed2_extend / where_extent / function_call. *)
From SqlModel Require Import Base PyStr Node Inv Passes GroupFacts TotalDefs TotalBase ScanTotal MatchFacts
     ClauseSpec.
From SqlModel.Gen Require Import CaseTabs.
From Coq Require Import ZArith Lia.

(* ================================================================================================
   list surgery
   ================================================================================================ *)
Lemma break_spec f : forall l a b, break f l = (a, b) ->
  l = a ++ b /\ Forall (fun y => f y = false) a /\
  (b = [] \/ exists x b', b = x :: b' /\ f x = true).
Proof.
  induction l as [|x r IH]; intros a b H; cbn [break] in H.
  - injection H as <- <-. auto.
  - destruct (f x) eqn:Fx.
    + injection H as <- <-. cbn [app]. split; [reflexivity|]. split; [constructor|]. right. eauto.
    + destruct (break f r) as [a' b'] eqn:E. injection H as <- <-.
      destruct (IH a' b' eq_refl) as (-> & Ha & Hb). cbn [app]. auto.
Qed.

Lemma break_none f l : Forall (fun y => f y = false) l -> break f l = (l, []).
Proof.
  induction 1 as [|x r Hx _ IH]; cbn [break]; [reflexivity|]. rewrite Hx, IH. reflexivity.
Qed.

Lemma break_first f P w X : Forall (fun y => f y = false) P -> f w = true ->
  break f (P ++ w :: X) = (P, w :: X).
Proof.
  induction 1 as [|x r Hx _ IH]; intros Hw; cbn [break app].
  - rewrite Hw. reflexivity.
  - rewrite Hx, (IH Hw). reflexivity.
Qed.

Lemma find_from_aux_none f X base : Forall (fun y => f y = false) X -> find_from_aux f X base = None.
Proof.
  intros H. revert base. induction H as [|x r Hx _ IH]; intros base; cbn [find_from_aux];
    [reflexivity|]. rewrite Hx. apply IH.
Qed.

Lemma find_from_aux_first f P w X base : Forall (fun y => f y = false) P -> f w = true ->
  find_from_aux f (P ++ w :: X) base = Some (base + length P, w).
Proof.
  intros H Hw. revert base. induction H as [|x r Hx _ IH]; intros base; cbn [find_from_aux app length].
  - rewrite Hw. f_equal. f_equal. lia.
  - rewrite Hx, IH. f_equal. f_equal. lia.
Qed.

Lemma find_from_none f A X : Forall (fun y => f y = false) X -> find_from f (length A) (A ++ X) = None.
Proof. intros H. unfold find_from. rewrite skipn_app_length. apply find_from_aux_none, H. Qed.

Lemma find_from_first f A P w X : Forall (fun y => f y = false) P -> f w = true ->
  find_from f (length A) (A ++ P ++ w :: X) = Some (length A + length P, w).
Proof. intros H Hw. unfold find_from. rewrite skipn_app_length. apply find_from_aux_first; auto. Qed.

Lemma span_ws_spec l a b : span_ws l = (a, b) ->
  l = a ++ b /\ Forall (fun y => is_ws y = true) a /\
  (b = [] \/ exists x b', b = x :: b' /\ is_ws x = false).
Proof.
  intros H. apply break_spec in H. destruct H as (-> & Ha & Hb). split; [reflexivity|]. split.
  - eapply Forall_impl; [|exact Ha]. intros y Hy. cbv beta in Hy. destruct (is_ws y); [reflexivity|discriminate].
  - destruct Hb as [-> | (x & b' & -> & Hx)]; [left; reflexivity|]. right. exists x, b'.
    split; [reflexivity|]. destruct (is_ws x); [discriminate|reflexivity].
Qed.

Lemma span_ws_first ws x X : Forall (fun y => is_ws y = true) ws -> is_ws x = false ->
  span_ws (ws ++ x :: X) = (ws, x :: X).
Proof.
  intros H Hx. apply break_first.
  - eapply Forall_impl; [|exact H]. intros y Hy. cbv beta in *. rewrite Hy. reflexivity.
  - rewrite Hx. reflexivity.
Qed.

Lemma span_ws_all ws : Forall (fun y => is_ws y = true) ws -> span_ws ws = (ws, []).
Proof.
  intros H. apply break_none. eapply Forall_impl; [|exact H]. intros y Hy. cbv beta in *.
  rewrite Hy. reflexivity.
Qed.

(* token_next(idx) seen from the element at idx *)
Lemma token_next_at A x X :
  token_next true false (length A) (A ++ x :: X) =
  match span_ws X with
  | (ws, nx :: _) => Some (S (length A + length ws), nx)
  | (_, []) => None
  end.
Proof.
  unfold token_next. replace (S (length A)) with (length (A ++ [x])) by (rewrite app_length; cbn [length]; lia).
  replace (A ++ x :: X) with ((A ++ [x]) ++ X) by (rewrite <- app_assoc; reflexivity).
  destruct (span_ws X) as [ws b] eqn:E. apply span_ws_spec in E. destruct E as (-> & Hws & Hb).
  assert (Hws' : Forall (fun y => skip_matcher true false y = false) ws).
  { eapply Forall_impl; [|exact Hws]. intros y Hy. cbv beta in *. rewrite skip_matcher_ws, Hy. reflexivity. }
  destruct Hb as [-> | (nx & b' & -> & Hnx)].
  - rewrite app_nil_r. apply find_from_none, Hws'.
  - rewrite find_from_first; [|exact Hws'|rewrite skip_matcher_ws, Hnx; reflexivity].
    rewrite app_length. cbn [length]. f_equal. f_equal. lia.
Qed.

(* the slice A | G | R of a list becomes A | Grp G | R *)
Lemma group_tokens_slice c A x G R :
  group_tokens c (length A) (S (length A + length G)) false (A ++ x :: G ++ R)
  = Ok (A ++ mk_grp c (x :: G) :: R, mk_grp c (x :: G)).
Proof.
  unfold group_tokens. rewrite nth_error_app_mid. cbn [andb].
  rewrite firstn_app_length, skipn_app_length.
  replace (S (length A + length G) - length A) with (length (x :: G)) by (cbn [length]; lia).
  replace (x :: G ++ R) with ((x :: G) ++ R) by reflexivity. rewrite firstn_app_length.
  replace (Nat.max (length A) (S (length A + length G))) with (length (A ++ x :: G))
    by (rewrite app_length; cbn [length]; lia).
  replace (A ++ (x :: G) ++ R) with ((A ++ x :: G) ++ R) by (rewrite <- app_assoc; reflexivity).
  rewrite skipn_app_length. reflexivity.
Qed.

Lemma group_tokens_join p A first sub R :
  group_tokens (g_cls p) (length A) (S (length A + length sub)) (g_extend p) (A ++ first :: sub ++ R)
  = Ok (A ++ join_group p first sub :: R, join_group p first sub).
Proof.
  unfold join_group. destruct (g_extend p && inst first (g_cls p)) eqn:E.
  - unfold group_tokens. rewrite nth_error_app_mid, E.
    rewrite firstn_app_length.
    replace (S (length A)) with (length (A ++ [first])) by (rewrite app_length; cbn [length]; lia).
    replace (A ++ first :: sub ++ R) with ((A ++ [first]) ++ sub ++ R) by (rewrite <- app_assoc; reflexivity).
    rewrite skipn_app_length.
    replace (S (length A + length sub) - length (A ++ [first])) with (length sub)
      by (rewrite app_length; cbn [length]; lia).
    rewrite firstn_app_length.
    replace (Nat.max (length (A ++ [first])) (S (length A + length sub)))
      with (length ((A ++ [first]) ++ sub)) by (rewrite !app_length; cbn [length]; lia).
    rewrite app_assoc, skipn_app_length. reflexivity.
  - pose proof (group_tokens_slice (g_cls p) A first sub R) as H.
    unfold group_tokens in *. rewrite nth_error_app_mid in *. rewrite E. cbn [andb] in H. exact H.
Qed.

Lemma join_group_not_ws p first sub : is_ws (join_group p first sub) = false.
Proof.
  unfold join_group. destruct first as [ty v | c v kids].
  - cbn [inst]. rewrite andb_false_r. reflexivity.
  - destruct (g_extend p && _); reflexivity.
Qed.

Lemma imt_m n m : imt (Some n) [] m TNone = matches n m.
Proof. unfold imt, matches. cbn [inst_any existsb tmatch orb]. apply orb_false_r. Qed.

Lemma imt_t n ty : imt (Some n) [] [] (TOne ty) = tt_in n ty.
Proof. reflexivity. Qed.

(* one scan_loop step that does not find its start token interesting *)
Lemma scan_loop_skip_head f body fuel o X :
  f o = false ->
  scan_loop (find_from f) body fuel 0 (o :: X) = scan_loop (find_from f) body fuel 1 (o :: X).
Proof.
  intros Ho. destruct fuel as [|fuel]; [reflexivity|]. cbn [scan_loop].
  unfold find_from at 1 3. cbn [skipn find_from_aux]. rewrite Ho. reflexivity.
Qed.

(* ================================================================================================
   group_where
   ================================================================================================ *)
Definition where_find := next_by_from [] (m_open CWhere) TNone.
Definition where_body (c : cls) (tidx : nat) (_ : node) (l : list node) : res (list node * nat) :=
  eidx <- match next_by_from [] (m_close CWhere) TNone (S tidx) l with
          | Some (ci, _) => match ci with O => Err Stuck | S e => Ok e end
          | None => groupable_last_index c l
          end ;;
  '(l', _) <- group_tokens CWhere tidx (S eidx) false l ;; Ok (l', tidx).

Lemma f_where_unfold c l : f_where c l = scan where_find (where_body c) l.
Proof. reflexivity. Qed.

Lemma where_run_plain P X : Forall (fun y => is_where_open y = false) P ->
  where_run 0 (P ++ X) = P ++ where_run 0 X.
Proof.
  induction 1 as [|x r Hx _ IH]; cbn [app]; [reflexivity|]. cbn [where_run]. rewrite Hx, IH. reflexivity.
Qed.

Lemma where_run_skip P X : where_run (length P) (P ++ X) = where_run 0 X.
Proof. induction P as [|x r IH]; [reflexivity|]. cbn [length app where_run]. exact IH. Qed.

Lemma where_run_open w R2 : is_where_open w = true ->
  where_run 0 (w :: R2) =
  mk_grp CWhere (w :: fst (break is_where_close R2)) :: where_run 0 (snd (break is_where_close R2)).
Proof.
  intros Hw. cbn [where_run]. rewrite Hw. cbv zeta. f_equal.
  destruct (break is_where_close R2) as [M rest] eqn:E. cbn [fst snd].
  apply break_spec in E. destruct E as (-> & _ & _). apply where_run_skip.
Qed.

Lemma Forall_open_imt l : Forall (fun y => is_where_open y = false) l ->
  Forall (fun y => imt (Some y) [] (m_open CWhere) TNone = false) l.
Proof. apply Forall_impl. intros y Hy. rewrite imt_m. exact Hy. Qed.

Lemma Forall_close_imt l : Forall (fun y => is_where_close y = false) l ->
  Forall (fun y => imt (Some y) [] (m_close CWhere) TNone = false) l.
Proof. apply Forall_impl. intros y Hy. rewrite imt_m. exact Hy. Qed.

Lemma where_find_none A X : Forall (fun y => is_where_open y = false) X ->
  where_find (length A) (A ++ X) = None.
Proof. intros H. apply find_from_none, Forall_open_imt, H. Qed.

Lemma where_find_first A P w X : Forall (fun y => is_where_open y = false) P -> is_where_open w = true ->
  where_find (length A) (A ++ P ++ w :: X) = Some (length A + length P, w).
Proof. intros H Hw. apply find_from_first; [apply Forall_open_imt, H | rewrite imt_m; exact Hw]. Qed.

(* the loop body when a closing keyword follows: the group ends just before it *)
Lemma where_body_close c A w M k X :
  Forall (fun y => is_where_close y = false) M -> is_where_close k = true ->
  where_body c (length A) w (A ++ w :: M ++ k :: X)
  = Ok (A ++ mk_grp CWhere (w :: M) :: k :: X, length A).
Proof.
  intros HM Hk. unfold where_body, next_by_from.
  replace (S (length A)) with (length (A ++ [w])) by (rewrite app_length; cbn [length]; lia).
  replace (A ++ w :: M ++ k :: X) with ((A ++ [w]) ++ M ++ k :: X) at 1
    by (rewrite <- app_assoc; reflexivity).
  rewrite find_from_first; [|apply Forall_close_imt, HM|rewrite imt_m; exact Hk].
  rewrite app_length. cbn [length].
  replace (length A + 1 + length M) with (S (length A + length M)) by lia. cbn [bind].
  rewrite (group_tokens_slice CWhere A w M (k :: X)). reflexivity.
Qed.

(* ... and when none follows: the group extends to the last groupable token *)
Lemma where_body_end c A w M T :
  Forall (fun y => is_where_close y = false) (M ++ T) ->
  (if is_brk c then A <> [] /\ exists cl, T = [cl] else T = []) ->
  where_body c (length A) w (A ++ w :: M ++ T) = Ok (A ++ mk_grp CWhere (w :: M) :: T, length A).
Proof.
  intros HM HT. unfold where_body, next_by_from.
  replace (S (length A)) with (length (A ++ [w])) by (rewrite app_length; cbn [length]; lia).
  replace (A ++ w :: M ++ T) with ((A ++ [w]) ++ M ++ T) at 1 by (rewrite <- app_assoc; reflexivity).
  rewrite find_from_none by (apply Forall_close_imt, HM).
  assert (Hidx : groupable_last_index c (A ++ w :: M ++ T) = Ok (length A + length M)).
  { destruct (is_brk c) eqn:Hc.
    - destruct HT as (HA & cl & ->). rewrite groupable_last_index_brk; [|exact Hc|].
      + f_equal. rewrite !app_length. cbn [length]. rewrite app_length. cbn [length]. lia.
      + assert (1 <= length A) by (destruct A; [contradiction|cbn [length]; lia]).
        rewrite !app_length. cbn [length]. rewrite app_length. cbn [length]. lia.
    - subst T. rewrite groupable_last_index_other; [|exact Hc|].
      + f_equal. rewrite !app_length. cbn [length]. rewrite app_length. cbn [length]. lia.
      + destruct A; discriminate. }
  rewrite Hidx. cbn [bind]. rewrite (group_tokens_slice CWhere A w M T). reflexivity.
Qed.

(* the loop, from any position: A is what lies before the scan position, R what is still to be
   scanned, T the part of the list that is not groupable (the closing bracket) *)
Lemma where_loop c : forall fuel A R T, length R < fuel ->
  Forall (fun y => is_where_open y = false) T -> Forall (fun y => is_where_close y = false) T ->
  (if is_brk c then A <> [] /\ exists cl, T = [cl] else T = []) ->
  scan_loop where_find (where_body c) fuel (length A) (A ++ R ++ T) = Ok (A ++ where_run 0 R ++ T).
Proof.
  induction fuel as [|fuel IH]; intros A R T Hf HTo HTc HT; [lia|]. cbn [scan_loop].
  destruct (break is_where_open R) as [P rest] eqn:EB. apply break_spec in EB.
  destruct EB as (-> & HP & [-> | (w & R2 & -> & Hw)]).
  - (* no WHERE left *)
    rewrite app_nil_r. rewrite where_find_none by (apply Forall_app; auto).
    rewrite <- (app_nil_r P) at 2. rewrite where_run_plain by exact HP. cbn [where_run].
    rewrite app_nil_r. reflexivity.
  - rewrite <- app_assoc. cbn [app].
    rewrite where_find_first by assumption.
    rewrite where_run_plain by exact HP. rewrite (where_run_open _ _ Hw).
    destruct (break is_where_close R2) as [M rest] eqn:EC. cbn [fst snd].
    apply break_spec in EC. destruct EC as (-> & HM & Hrest).
    set (A' := A ++ P).
    assert (EA' : length A + length P = length A') by (unfold A'; rewrite app_length; reflexivity).
    rewrite EA'.
    replace (A ++ P ++ w :: (M ++ rest) ++ T) with (A' ++ w :: M ++ rest ++ T)
      by (unfold A'; rewrite <- !app_assoc; reflexivity).
    assert (HT' : forall g, if is_brk c then A' ++ [g] <> [] /\ (exists cl, T = [cl]) else T = []).
    { intros g. destruct (is_brk c); [|exact HT]. destruct HT as (_ & HT). split; [|exact HT].
      intros E. apply (f_equal (@length node)) in E. rewrite app_length in E. cbn [length] in E. lia. }
    destruct Hrest as [-> | (k & R3 & -> & Hk)].
    + (* no closing keyword: up to the last groupable token *)
      cbn [app]. rewrite where_body_end.
      2:{ apply Forall_app; auto. }
      2:{ destruct (is_brk c); [|exact HT]. destruct HT as (HA & HT). split; [|exact HT].
          unfold A'. intros E. apply app_eq_nil in E. tauto. }
      cbn [bind].
      replace (S (length A')) with (length (A' ++ [mk_grp CWhere (w :: M)]))
        by (rewrite app_length; cbn [length]; lia).
      replace (A' ++ mk_grp CWhere (w :: M) :: T) with ((A' ++ [mk_grp CWhere (w :: M)]) ++ [] ++ T)
        by (rewrite <- app_assoc; reflexivity).
      rewrite IH; [| rewrite !app_length in Hf; cbn [length] in *; lia | exact HTo | exact HTc | apply HT'].
      cbn [where_run app]. unfold A'. rewrite <- !app_assoc. reflexivity.
    + (* a closing keyword ends the group just before it *)
      cbn [app]. rewrite where_body_close by assumption. cbn [bind].
      replace (S (length A')) with (length (A' ++ [mk_grp CWhere (w :: M)]))
        by (rewrite app_length; cbn [length]; lia).
      replace (A' ++ mk_grp CWhere (w :: M) :: k :: R3 ++ T)
        with ((A' ++ [mk_grp CWhere (w :: M)]) ++ (k :: R3) ++ T)
        by (rewrite <- app_assoc; reflexivity).
      rewrite IH; [| rewrite !app_length in Hf; cbn [length] in *; rewrite app_length in Hf;
                     cbn [length] in Hf; lia | exact HTo | exact HTc | apply HT'].
      unfold A'. rewrite <- !app_assoc. reflexivity.
Qed.

Lemma split_last_app (m : list node) cl : split_last (m ++ [cl]) = Some (m, cl).
Proof. unfold split_last. rewrite rev_app_distr. cbn [rev app]. rewrite rev_involutive. reflexivity. Qed.

Lemma punct_not_where v : is_where_open (Leaf T_Punctuation v) = false /\
                           is_where_close (Leaf T_Punctuation v) = false.
Proof. split; reflexivity. Qed.

(* MAIN (group_where, one sibling list): on every list that has the bracket shape when its owner
   is a Parenthesis / SquareBrackets, the while-loop computes exactly where_spec; in particular no
   IndexError / Stuck is reachable there. *)
Theorem f_where_spec : forall c l, shape_if c l = true -> f_where c l = Ok (where_spec c l).
Proof.
  intros c l Hs. rewrite f_where_unfold. unfold scan, where_spec, shape_if in *.
  destruct (is_brk c) eqn:Hc.
  - destruct (shape_ends _ _ Hc Hs) as (vo & mid & vc & ->).
    replace (Leaf T_Punctuation vo :: mid ++ [Leaf T_Punctuation vc])
      with ((Leaf T_Punctuation vo :: mid) ++ [Leaf T_Punctuation vc]) by reflexivity.
    rewrite split_last_app. cbn [app].
    unfold where_find, next_by_from. rewrite scan_loop_skip_head by reflexivity.
    change (where_run 0 (Leaf T_Punctuation vo :: mid)) with (where_run 0 ([Leaf T_Punctuation vo] ++ mid)).
    rewrite (where_run_plain [Leaf T_Punctuation vo] mid) by (constructor; [reflexivity|constructor]).
    apply (where_loop c _ [Leaf T_Punctuation vo] mid [Leaf T_Punctuation vc]).
    + cbn [length]. rewrite app_length. cbn [length]. lia.
    + constructor; [reflexivity|constructor].
    + constructor; [reflexivity|constructor].
    + rewrite Hc. split; [discriminate|eauto].
  - pose proof (where_loop c (S (length l)) [] l []) as H. rewrite Hc in H.
    cbn [app length] in H. rewrite !app_nil_r in H. apply H; auto.
Qed.
Print Assumptions f_where_spec.

(* ---- the whole pass ------------------------------------------------------------------------------ *)
(* a per-child rewriting that keeps leaves (and keeps groups groups) keeps the bracket shape *)
Lemma matches_map_g (g : node -> node) x ps :
  (is_group x = false -> g x = x) -> (is_group x = true -> is_group (g x) = true) ->
  matches (g x) ps = matches x ps.
Proof.
  intros H1 H2. destruct x as [ty v | c v kids].
  - rewrite H1 by reflexivity. reflexivity.
  - specialize (H2 eq_refl). destruct (g (Grp c v kids)) as [|c' v' kids']; [discriminate|].
    rewrite !matches_grp. reflexivity.
Qed.

Lemma shape_if_map (g : node -> node) c l :
  (forall x, is_group x = false -> g x = x) -> (forall x, is_group x = true -> is_group (g x) = true) ->
  shape_if c l = true -> shape_if c (map g l) = true.
Proof.
  intros H1 H2. unfold shape_if. destruct (is_brk c); [|auto]. intros H.
  apply shape_iff in H. destruct H as (o & mid & cl & -> & Ho & Hc). apply shape_iff.
  exists (g o), (map g mid), (g cl). cbn [map]. rewrite map_app. cbn [map].
  split; [reflexivity|]. rewrite !matches_map_g by auto. auto.
Qed.

Lemma where_rec_group x : is_group x = true -> is_group (where_rec x) = true.
Proof. destruct x; [discriminate | reflexivity]. Qed.

(* MAIN (group_where, whole pass): on every tree with the bracket-shape invariant (what passes
   1-9 deliver: TotalFacts.group_upto_total_inv) the pass equals where_rec. *)
Theorem group_where_spec : forall n, brk_ok n = true ->
  recurse_pass [CWhere] f_where n = Ok (where_rec n).
Proof.
  induction n as [ty v | c v kids IH] using node_ind'; intros Hb; cbn [recurse_pass where_rec].
  - reflexivity.
  - apply brk_ok_grp in Hb. destruct Hb as [Hk Hs].
    set (g := fun k => if is_group k && negb (inst_any k [CWhere]) then where_rec k else k).
    rewrite (mapM_map _ g).
    + cbn [bind]. rewrite f_where_spec; [reflexivity|].
      apply shape_if_map; [| |exact Hs]; intros x Hx; unfold g; rewrite Hx; cbn [andb]; [reflexivity|].
      destruct (negb _); [apply where_rec_group|]; exact Hx.
    + rewrite Forall_forall in IH, Hk. apply Forall_forall. intros k Hin. unfold g.
      destruct (is_group k && negb (inst_any k [CWhere])); [|reflexivity]. apply IH; auto. apply Hk, Hin.
Qed.
Print Assumptions group_where_spec.

(* without the bracket shape the statement is false: IndexError (TotalDefs.bad_paren1) *)
Theorem f_where_spec_needs_shape_refuted :
  exists c l, f_where c l <> Ok (where_spec c l).
Proof. exists CParenthesis, [kw_where]. vm_compute. discriminate. Qed.

(* ---- consequences on the specification ---------------------------------------------------------- *)
(* the extent of a Where: WHERE, then everything up to (not including) the first closing keyword *)
Theorem where_extent : forall P w M k X,
  Forall (fun y => is_where_open y = false) P -> is_where_open w = true ->
  Forall (fun y => is_where_close y = false) M -> is_where_close k = true ->
  where_run 0 (P ++ w :: M ++ k :: X) = P ++ mk_grp CWhere (w :: M) :: where_run 0 (k :: X).
Proof.
  intros P w M k X HP Hw HM Hk. rewrite where_run_plain by exact HP. rewrite where_run_open by exact Hw.
  rewrite break_first by assumption. reflexivity.
Qed.

Theorem where_extent_end : forall P w M,
  Forall (fun y => is_where_open y = false) P -> is_where_open w = true ->
  Forall (fun y => is_where_close y = false) M ->
  where_run 0 (P ++ w :: M) = P ++ [mk_grp CWhere (w :: M)].
Proof.
  intros P w M HP Hw HM. rewrite where_run_plain by exact HP. rewrite where_run_open by exact Hw.
  rewrite break_none by assumption. reflexivity.
Qed.

(* a second WHERE inside the extent of the first is swallowed: no nested / second Where node *)
Theorem where_swallows_where : forall w M,
  is_where_open w = true -> Forall (fun y => is_where_close y = false) M ->
  where_run 0 (w :: M) = [mk_grp CWhere (w :: M)].
Proof. intros w M Hw HM. apply (where_extent_end [] w M); auto. Qed.

(* where a intersect select b where c *)
Example where_swallows_where_ex :
  let l := [c_where; c_ws; c_name 97; c_ws; c_kw [105;110;116;101;114;115;101;99;116]%N; c_ws; c_select;
            c_ws; c_name 98; c_ws; c_where; c_ws; c_name 99] in
  f_where CStatement l = Ok [mk_grp CWhere l].
Proof. vm_compute. reflexivity. Qed.

Example f_where_spec_ex :
  let l := [c_lp; c_select; c_ws; c_where; c_ws; c_name 97; c_ws; c_kw s_LIMIT; c_ws; c_int 49; c_rp] in
  shape_if CParenthesis l = true /\
  f_where CParenthesis l
  = Ok [c_lp; c_select; c_ws; mk_grp CWhere [c_where; c_ws; c_name 97; c_ws]; c_kw s_LIMIT; c_ws; c_int 49; c_rp].
Proof. split; vm_compute; reflexivity. Qed.

(* ================================================================================================
   group_functions
   ================================================================================================ *)
Definition fn_find := next_by_from [] [] (TOne T_Name).
Definition fn_body (tidx : nat) (_ : node) (l : list node) : res (list node * nat) :=
  match token_next true false tidx l with
  | Some (nidx, next_) =>
      if inst next_ CParenthesis then
        let eidx := match token_next true false nidx l with
                    | Some (oidx, over) => if inst over COver then oidx else nidx
                    | None => nidx
                    end in
        '(l', _) <- group_tokens CFunction tidx (S eidx) false l ;; Ok (l', tidx)
      else Ok (l, tidx)
  | None => Ok (l, tidx)
  end.

Lemma f_functions_unfold c l :
  f_functions c l = if fn_early_exit l then Ok l else scan fn_find fn_body l.
Proof. reflexivity. Qed.

Lemma fn_run_plain P X : Forall (fun y => is_name y = false) P -> fn_run 0 (P ++ X) = P ++ fn_run 0 X.
Proof.
  induction 1 as [|x r Hx _ IH]; cbn [app]; [reflexivity|]. cbn [fn_run]. rewrite Hx, IH. reflexivity.
Qed.

Lemma fn_run_skip P X : fn_run (length P) (P ++ X) = fn_run 0 X.
Proof. induction P as [|x r IH]; [reflexivity|]. cbn [length app fn_run]. exact IH. Qed.

Lemma fn_find_none A X : Forall (fun y => is_name y = false) X -> fn_find (length A) (A ++ X) = None.
Proof. intros H. apply find_from_none. exact H. Qed.

Lemma fn_find_first A P w X : Forall (fun y => is_name y = false) P -> is_name w = true ->
  fn_find (length A) (A ++ P ++ w :: X) = Some (length A + length P, w).
Proof. intros H Hw. apply find_from_first; [exact H | exact Hw]. Qed.

(* the loop body at a name followed (after whitespace) by a Parenthesis *)
Lemma fn_body_call A x ws1 par r1 :
  Forall (fun y => is_ws y = true) ws1 -> is_ws par = false -> inst par CParenthesis = true ->
  fn_body (length A) x (A ++ x :: ws1 ++ par :: r1) =
  match span_ws r1 with
  | (ws2, ov :: r2) =>
      if inst ov COver
      then Ok (A ++ mk_grp CFunction (x :: ws1 ++ par :: ws2 ++ [ov]) :: r2, length A)
      else Ok (A ++ mk_grp CFunction (x :: ws1 ++ [par]) :: r1, length A)
  | (_, []) => Ok (A ++ mk_grp CFunction (x :: ws1 ++ [par]) :: r1, length A)
  end.
Proof.
  intros Hws Hp Hi. unfold fn_body. rewrite token_next_at, (span_ws_first _ _ _ Hws Hp), Hi.
  assert (Eshort : group_tokens CFunction (length A) (S (S (length A + length ws1))) false
                                (A ++ x :: ws1 ++ par :: r1)
                   = Ok (A ++ mk_grp CFunction (x :: ws1 ++ [par]) :: r1, mk_grp CFunction (x :: ws1 ++ [par]))).
  { pose proof (group_tokens_slice CFunction A x (ws1 ++ [par]) r1) as H.
    rewrite app_length in H. cbn [length] in H. rewrite <- app_assoc in H. cbn [app] in H.
    replace (S (length A + (length ws1 + 1))) with (S (S (length A + length ws1))) in H by lia. exact H. }
  replace (S (length A + length ws1)) with (length (A ++ x :: ws1)) at 1
    by (rewrite app_length; cbn [length]; lia).
  replace (A ++ x :: ws1 ++ par :: r1) with ((A ++ x :: ws1) ++ par :: r1) at 1
    by (rewrite <- app_assoc; reflexivity).
  rewrite token_next_at.
  destruct (span_ws r1) as [ws2 b] eqn:E2. apply span_ws_spec in E2. destruct E2 as (-> & Hws2 & Hb).
  destruct Hb as [-> | (ov & r2 & -> & Hov)].
  - cbv zeta. rewrite Eshort. reflexivity.
  - destruct (inst ov COver) eqn:Ho; cbv zeta; [|rewrite Eshort; reflexivity].
    pose proof (group_tokens_slice CFunction A x (ws1 ++ par :: ws2 ++ [ov]) r2) as H.
    rewrite !app_length in H. cbn [length] in H. rewrite app_length in H. cbn [length] in H.
    rewrite <- !app_assoc in H. cbn [app] in H. rewrite <- !app_assoc in H. cbn [app] in H.
    replace (S (length (A ++ x :: ws1) + length ws2))
      with (length A + (length ws1 + S (length ws2 + 1)))
      by (rewrite app_length; cbn [length]; lia).
    rewrite H. reflexivity.
Qed.

Lemma fn_body_other A x r :
  (match span_ws r with (_, par :: _) => inst par CParenthesis = false | (_, []) => True end) ->
  fn_body (length A) x (A ++ x :: r) = Ok (A ++ x :: r, length A).
Proof.
  intros H. unfold fn_body. rewrite token_next_at. destruct (span_ws r) as [ws1 [|par r1]]; [reflexivity|].
  rewrite H. reflexivity.
Qed.

Lemma fn_loop : forall fuel A R, length R < fuel ->
  scan_loop fn_find fn_body fuel (length A) (A ++ R) = Ok (A ++ fn_run 0 R).
Proof.
  induction fuel as [|fuel IH]; intros A R Hf; [lia|]. cbn [scan_loop].
  destruct (break is_name R) as [P rest] eqn:EB. apply break_spec in EB.
  destruct EB as (-> & HP & [-> | (x & r & -> & Hx)]).
  - rewrite app_nil_r. rewrite fn_find_none by exact HP.
    rewrite <- (app_nil_r P) at 2. rewrite fn_run_plain by exact HP. cbn [fn_run].
    rewrite app_nil_r. reflexivity.
  - rewrite fn_find_first by assumption. rewrite fn_run_plain by exact HP.
    set (A' := A ++ P).
    assert (EA' : length A + length P = length A') by (unfold A'; rewrite app_length; reflexivity).
    rewrite EA'. replace (A ++ P ++ x :: r) with (A' ++ x :: r) by (unfold A'; rewrite <- app_assoc; reflexivity).
    replace (A ++ P ++ fn_run 0 (x :: r)) with (A' ++ fn_run 0 (x :: r))
      by (unfold A'; rewrite <- app_assoc; reflexivity).
    rewrite app_length in Hf. cbn [length] in Hf.
    (* the continuation when nothing is grouped *)
    assert (Hplain : (match span_ws r with (_, par :: _) => inst par CParenthesis = false | (_, []) => True end) ->
              (' (l', cont) <- fn_body (length A') x (A' ++ x :: r);; scan_loop fn_find fn_body fuel (S cont) l')
              = Ok (A' ++ x :: fn_run 0 r)).
    { intros H. rewrite fn_body_other by exact H. cbn [bind].
      replace (S (length A')) with (length (A' ++ [x])) by (rewrite app_length; cbn [length]; lia).
      replace (A' ++ x :: r) with ((A' ++ [x]) ++ r) by (rewrite <- app_assoc; reflexivity).
      rewrite IH by lia. rewrite <- app_assoc. reflexivity. }
    cbn [fn_run]. rewrite Hx.
    destruct (span_ws r) as [ws1 b] eqn:E1. pose proof (span_ws_spec _ _ _ E1) as (Er & Hws1 & Hb).
    destruct Hb as [-> | (par & r1 & -> & Hpar)]; [apply Hplain; exact I|].
    destruct (inst par CParenthesis) eqn:Hi; [|apply Hplain; reflexivity]. clear Hplain.
    subst r. rewrite fn_body_call by assumption.
    assert (Hstep : forall (G : list node) g r2 (rest : list node),
              ws1 ++ par :: r1 = G ++ r2 -> G <> [] ->
              (' (l', cont) <- Ok (A' ++ g :: r2, length A');; scan_loop fn_find fn_body fuel (S cont) l')
              = Ok (A' ++ g :: fn_run (length G) (ws1 ++ par :: r1))).
    { intros G g r2 _ EG HG. cbn [bind].
      replace (S (length A')) with (length (A' ++ [g])) by (rewrite app_length; cbn [length]; lia).
      replace (A' ++ g :: r2) with ((A' ++ [g]) ++ r2) by (rewrite <- app_assoc; reflexivity).
      rewrite IH.
      - rewrite EG, fn_run_skip, <- app_assoc. reflexivity.
      - apply (f_equal (@length node)) in EG. rewrite !app_length in EG. rewrite app_length in Hf.
        destruct G; [contradiction|]. cbn [length] in EG, Hf. lia. }
    destruct (span_ws r1) as [ws2 b2] eqn:E2. pose proof (span_ws_spec _ _ _ E2) as (Er1 & Hws2 & Hb2).
    destruct Hb2 as [-> | (ov & r2 & -> & Hov)].
    + replace (S (length ws1)) with (length (ws1 ++ [par])) by (rewrite app_length; cbn [length]; lia).
      apply (Hstep (ws1 ++ [par]) _ r1 []); [rewrite <- app_assoc; reflexivity|].
      intros E. apply app_eq_nil in E. destruct E; discriminate.
    + destruct (inst ov COver).
      * replace (S (length ws1) + S (length ws2)) with (length (ws1 ++ par :: ws2 ++ [ov]))
          by (rewrite app_length; cbn [length]; rewrite app_length; cbn [length]; lia).
        apply (Hstep (ws1 ++ par :: ws2 ++ [ov]) _ r2 []).
        -- subst r1. rewrite <- !app_assoc. cbn [app]. rewrite <- app_assoc. reflexivity.
        -- intros E. apply app_eq_nil in E. destruct E; discriminate.
      * replace (S (length ws1)) with (length (ws1 ++ [par])) by (rewrite app_length; cbn [length]; lia).
        apply (Hstep (ws1 ++ [par]) _ r1 []); [rewrite <- app_assoc; reflexivity|].
        intros E. apply app_eq_nil in E. destruct E; discriminate.
Qed.

(* MAIN (group_functions, one sibling list) *)
Theorem f_functions_spec : forall c l, f_functions c l = Ok (functions_spec l).
Proof.
  intros c l. rewrite f_functions_unfold. unfold functions_spec.
  destruct (fn_early_exit l); [reflexivity|]. unfold scan.
  exact (fn_loop (S (length l)) [] l (Nat.lt_succ_diag_r _)).
Qed.
Print Assumptions f_functions_spec.

(* MAIN (group_functions, whole pass: @recurse(sql.Function)) *)
Theorem group_functions_spec : forall n, recurse_pass [CFunction] f_functions n = Ok (functions_rec n).
Proof.
  induction n as [ty v | c v kids IH] using node_ind'; cbn [recurse_pass functions_rec].
  - reflexivity.
  - set (g := fun k => if is_group k && negb (inst_any k [CFunction]) then functions_rec k else k).
    rewrite (mapM_map _ g).
    + cbn [bind]. rewrite f_functions_spec. reflexivity.
    + eapply Forall_impl; [|exact IH]. intros k Hk. unfold g.
      destruct (is_group k && negb (inst_any k [CFunction])); [exact Hk | reflexivity].
Qed.
Print Assumptions group_functions_spec.

(* a call as written: name ws* ( ... ) *)
Theorem function_call : forall P x ws1 par X,
  Forall (fun y => is_name y = false) P -> is_name x = true ->
  Forall (fun y => is_ws y = true) ws1 -> is_ws par = false -> inst par CParenthesis = true ->
  (match span_ws X with (_, ov :: _) => inst ov COver = false | (_, []) => True end) ->
  fn_run 0 (P ++ x :: ws1 ++ par :: X) = P ++ mk_grp CFunction (x :: ws1 ++ [par]) :: fn_run 0 X.
Proof.
  intros P x ws1 par X HP Hx Hws Hpar Hi Hov. rewrite fn_run_plain by exact HP. f_equal.
  cbn [fn_run]. rewrite Hx, (span_ws_first _ _ _ Hws Hpar), Hi.
  assert (E : fn_run (S (length ws1)) (ws1 ++ par :: X) = fn_run 0 X).
  { replace (S (length ws1)) with (length (ws1 ++ [par])) by (rewrite app_length; cbn [length]; lia).
    replace (ws1 ++ par :: X) with ((ws1 ++ [par]) ++ X) by (rewrite <- app_assoc; reflexivity).
    apply fn_run_skip. }
  destruct (span_ws X) as [ws2 [|ov r2]]; [rewrite E; reflexivity|]. rewrite Hov, E. reflexivity.
Qed.

(* the early exit: a list with CREATE and TABLE and no AS keeps its names ungrouped; AS in any letter
   case counts (the test was case-sensitive until the fix of finding C11-as-case) *)
Example functions_early_exit_ex :
  let l := [Leaf T_DDL s_CREATE; c_ws; c_kw s_TABLE; c_ws; c_name 102; c_paren [c_name 97]] in
  let g := [Leaf T_DDL s_CREATE; c_ws; c_kw s_TABLE; c_ws; mk_grp CFunction [c_name 102; c_paren [c_name 97]]] in
  f_functions CStatement l = Ok l /\
  f_functions CStatement (l ++ [c_ws; c_kw s_AS]) = Ok (g ++ [c_ws; c_kw s_AS]) /\
  f_functions CStatement (l ++ [c_ws; c_kw [97; 115]%N]) = Ok (g ++ [c_ws; c_kw [97; 115]%N]).
Proof. repeat split; vm_compute; reflexivity. Qed.

(* ================================================================================================
   _group  (post = (pidx, nidx) or (tidx, nidx))
   ================================================================================================ *)
Definition nonws (t : node) : bool := negb (is_ws t).

(* the live index of the item the previous-token index points at: the first non-whitespace
   element of the reversed output *)
Definition pidx_of (out : list node) : option nat :=
  match span_ws out with (_, _ :: out') => Some (length out') | (_, []) => None end.

Lemma pidx_of_ws y out : is_ws y = true -> pidx_of (y :: out) = pidx_of out.
Proof.
  intros H. unfold pidx_of, span_ws. cbn [break]. rewrite H. cbn [negb].
  destruct (break (fun x => negb (is_ws x)) out) as [a b]. reflexivity.
Qed.

Lemma pidx_of_nonws y out : is_ws y = false -> pidx_of (y :: out) = Some (length out).
Proof. intros H. unfold pidx_of, span_ws. cbn [break]. rewrite H. reflexivity. Qed.

Section Join.
Variable p : gparams.
Variable m : jmode.
Hypothesis Hpost : post_mode p m.
Hypothesis Hnm : forall nx, g_vnext p (Some nx) = true -> g_match p nx = false.
Hypothesis Hnone : g_vnext p None = false.

(* the simulation relation between the state of the loop (snapshot position idx, gstate s) and the
   state of the specification (out, prev, skip) *)
Definition sim (snap : list node) (idx : nat) (s : gstate) (out : list node) (prev : option node)
           (skip : nat) : Prop :=
  g_live s = rev out ++ skipn skip snap /\
  (Z.of_nat idx - g_off s = Z.of_nat (length out) - Z.of_nat skip)%Z /\
  match skip with
  | O => g_prev s = prev /\
         (forall pv, prev = Some pv -> exists pi, g_pidx s = Some pi /\ pidx_of out = Some pi)
  | S k => exists ws nx rest grp out',
             snap = ws ++ nx :: rest /\ length ws = k /\ Forall (fun y => is_ws y = true) ws /\
             is_ws nx = false /\ g_match p nx = false /\ prev = Some nx /\
             out = grp :: out' /\ is_ws grp = false
  end.

Lemma group_loop_sim : forall snap idx s out prev skip, sim snap idx s out prev skip ->
  exists s', group_loop p snap idx s = Ok s' /\ g_live s' = join_run p m out prev skip snap /\
             g_rec s' = rev (map nonws snap) ++ g_rec s.
Proof.
  induction snap as [|y snap IH]; intros idx s out prev skip HS.
  - destruct HS as (HL & _ & _). exists s. cbn [group_loop join_run map rev app].
    rewrite HL. destruct skip; cbn [skipn]; rewrite app_nil_r; auto.
  - destruct skip as [|k].
    + (* ---- the token is not inside a group ---- *)
      destruct HS as (HL & HZ & HP & HPI). cbn [skipn] in HL.
      assert (Hneg : (Z.of_nat idx - g_off s <? 0)%Z = false) by (apply Z.ltb_ge; lia).
      assert (Ht : Z.to_nat (Z.of_nat idx - g_off s) = length out) by lia.
      cbn [group_loop]. rewrite Hneg, Ht. cbn [join_run].
      destruct (is_ws y) eqn:Hws.
      { match goal with |- exists s', group_loop _ _ _ ?st = _ /\ _ =>
          destruct (IH (S idx) st (y :: out) prev 0) as (s' & E & EL & ER) end.
        { unfold sim. cbn [g_live g_off g_pidx g_prev rev skipn length]. split; [rewrite <- app_assoc; exact HL|].
          split; [lia|]. split; [exact HP|]. intros pv Hpv. rewrite pidx_of_ws by exact Hws. exact (HPI pv Hpv). }
        exists s'. split; [exact E|]. split; [exact EL|]. rewrite ER. cbn [g_rec map rev].
        change (nonws y) with (negb (is_ws y)). rewrite Hws. cbn [negb]. rewrite <- app_assoc. reflexivity. }
      (* the state after a token that is not grouped *)
      assert (Hplain :
                exists s', group_loop p snap (S idx)
                             {| g_live := g_live s; g_off := g_off s; g_pidx := Some (length out);
                                g_prev := Some y; g_rec := true :: g_rec s |} = Ok s' /\
                           g_live s' = join_run p m (y :: out) (Some y) 0 snap /\
                           g_rec s' = rev (map nonws (y :: snap)) ++ g_rec s).
      {
        match goal with |- exists s', group_loop _ _ _ ?st = _ /\ _ =>
          destruct (IH (S idx) st (y :: out) (Some y) 0) as (s' & E & EL & ER) end.
        { unfold sim. cbn [g_live g_off g_pidx g_prev rev skipn length]. split; [rewrite <- app_assoc; exact HL|].
          split; [lia|]. split; [reflexivity|]. intros pv _. exists (length out).
          split; [reflexivity | apply pidx_of_nonws, Hws]. }
        exists s'. split; [exact E|]. split; [exact EL|]. rewrite ER. cbn [g_rec map rev].
        change (nonws y) with (negb (is_ws y)). rewrite Hws. cbn [negb]. rewrite <- app_assoc. reflexivity. }
      destruct (g_match p y) eqn:M; [|exact Hplain].
      (* the next token: whitespace is skipped *)
      assert (EA : length (rev out) = length out) by apply rev_length.
      assert (ETN : token_next true false (length out) (g_live s) =
                    match span_ws snap with
                    | (ws, nx :: _) => Some (S (length out + length ws), nx)
                    | (_, []) => None
                    end).
      { rewrite HL. rewrite <- EA. apply token_next_at. }
      rewrite ETN. clear ETN.
      destruct (span_ws snap) as [ws2 b] eqn:E2. pose proof (span_ws_spec _ _ _ E2) as (Esnap & Hws2 & Hb).
      destruct Hb as [-> | (nx & rest & -> & Hnx)].
      { (* no next token: valid_next(None) is false *)
        rewrite HP. destruct prev as [pv|]; [|exact Hplain].
        destruct (g_pidx s); [|exact Hplain].
        rewrite Hnone, andb_false_r. exact Hplain. }
      rewrite HP. destruct prev as [pv|]; [|exact Hplain].
      destruct (HPI pv eq_refl) as (pi & Epi & Hpi). rewrite Epi.
      destruct (g_vprev p pv && g_vnext p (Some nx)) eqn:V; [|exact Hplain].
      apply andb_true_iff in V. destruct V as [_ V]. clear Hplain.
      destruct m.
      * (* ---- from the previous token to the next one ---- *)
        cbn [post_mode] in Hpost. rewrite Hpost. unfold post_pn. cbn [bind].
        unfold pidx_of in Hpi. destruct (span_ws out) as [ws1 bo] eqn:E1.
        pose proof (span_ws_spec _ _ _ E1) as (Eout & Hws1 & _).
        destruct bo as [|item out']; [discriminate|]. injection Hpi as <-.
        set (sub := rev ws1 ++ y :: ws2 ++ [nx]).
        assert (EG : group_tokens (g_cls p) (length out') (S (S (length out + length ws2))) (g_extend p)
                                  (g_live s)
                     = Ok (rev out' ++ join_group p item sub :: rest, join_group p item sub)).
        { assert (Elive : rev out ++ y :: snap = rev out' ++ item :: sub ++ rest).
          { rewrite Eout, Esnap, rev_app_distr. cbn [rev]. unfold sub.
            rewrite <- !app_assoc. cbn [app]. rewrite <- !app_assoc. reflexivity. }
          assert (Estop : S (S (length out + length ws2)) = S (length (rev out') + length sub)).
          { unfold sub. rewrite Eout, !rev_length, !app_length. cbn [length].
            rewrite app_length, rev_length. cbn [length]. lia. }
          rewrite HL, Elive, Estop, <- (rev_length out'). apply group_tokens_join. }
        rewrite EG. cbn [bind].
        match goal with |- exists s', group_loop _ _ _ ?st = _ /\ _ =>
          destruct (IH (S idx) st (join_group p item sub :: out') (Some nx) (S (length ws2)))
            as (s' & E & EL & ER) end.
        { unfold sim. cbn [g_live g_off g_pidx g_prev rev length]. split.
          - rewrite Esnap. replace (S (length ws2)) with (length (ws2 ++ [nx]))
              by (rewrite app_length; cbn [length]; lia).
            replace (ws2 ++ nx :: rest) with ((ws2 ++ [nx]) ++ rest) by (rewrite <- app_assoc; reflexivity).
            rewrite skipn_app_length, <- app_assoc. reflexivity.
          - split.
            + assert (length out = length ws1 + S (length out'))
                by (rewrite Eout, app_length; reflexivity). lia.
            + exists ws2, nx, rest, (join_group p item sub), out'.
              repeat (split; [solve [auto using join_group_not_ws]|]). apply join_group_not_ws. }
        exists s'. split; [exact E|]. split; [exact EL|]. rewrite ER. cbn [g_rec map rev].
        change (nonws y) with (negb (is_ws y)). rewrite Hws. cbn [negb]. rewrite <- app_assoc. reflexivity.
      * (* ---- from the matched token to the next one ---- *)
        cbn [post_mode] in Hpost. rewrite Hpost. unfold post_tn. cbn [bind].
        assert (EG : group_tokens (g_cls p) (length out) (S (S (length out + length ws2))) (g_extend p)
                                  (g_live s)
                     = Ok (rev out ++ join_group p y (ws2 ++ [nx]) :: rest, join_group p y (ws2 ++ [nx]))).
        { assert (Elive : rev out ++ y :: snap = rev out ++ y :: (ws2 ++ [nx]) ++ rest).
          { rewrite Esnap, <- app_assoc. reflexivity. }
          assert (Estop : S (S (length out + length ws2)) = S (length out + length (ws2 ++ [nx]))).
          { rewrite app_length. cbn [length]. lia. }
          rewrite HL, Elive, Estop, <- EA. apply group_tokens_join. }
        rewrite EG. cbn [bind].
        match goal with |- exists s', group_loop _ _ _ ?st = _ /\ _ =>
          destruct (IH (S idx) st (join_group p y (ws2 ++ [nx]) :: out) (Some nx) (S (length ws2)))
            as (s' & E & EL & ER) end.
        { unfold sim. cbn [g_live g_off g_pidx g_prev rev length]. split.
          - rewrite Esnap. replace (S (length ws2)) with (length (ws2 ++ [nx]))
              by (rewrite app_length; cbn [length]; lia).
            replace (ws2 ++ nx :: rest) with ((ws2 ++ [nx]) ++ rest) by (rewrite <- app_assoc; reflexivity).
            rewrite skipn_app_length, <- app_assoc. reflexivity.
          - split; [lia|].
            exists ws2, nx, rest, (join_group p y (ws2 ++ [nx])), out.
            repeat (split; [solve [auto using join_group_not_ws]|]). apply join_group_not_ws. }
        exists s'. split; [exact E|]. split; [exact EL|]. rewrite ER. cbn [g_rec map rev].
        change (nonws y) with (negb (is_ws y)). rewrite Hws. cbn [negb]. rewrite <- app_assoc. reflexivity.
    + (* ---- the token has been swallowed by the last group ---- *)
      destruct HS as (HL & HZ & ws & nx & rest & grp & out' & Esnap & Hlen & Hws & Hnx & Hm & Hprev & Hout & Hg).
      cbn [join_run].
      destruct ws as [|w ws']; cbn [app length] in Esnap, Hlen.
      * (* the token that was next_: it only becomes prev_ *)
        injection Esnap as -> ->. subst k.
        assert (Hlo : length out = S (length out')) by (rewrite Hout; reflexivity).
        assert (Hneg : (Z.of_nat idx - g_off s <? 0)%Z = false) by (apply Z.ltb_ge; lia).
        assert (Ht : Z.to_nat (Z.of_nat idx - g_off s) = length out') by lia.
        cbn [group_loop]. rewrite Hneg, Ht, Hnx, Hm.
        match goal with |- exists s', group_loop _ _ _ ?st = _ /\ _ =>
          destruct (IH (S idx) st out prev 0) as (s' & E & EL & ER) end.
        { unfold sim. cbn [g_live g_off g_pidx g_prev]. split; [exact HL|]. split; [lia|]. split; [auto|].
          intros pv _. exists (length out'). split; [reflexivity|]. rewrite Hout. apply pidx_of_nonws, Hg. }
        exists s'. split; [exact E|]. split; [exact EL|]. rewrite ER. cbn [g_rec map rev].
        change (nonws nx) with (negb (is_ws nx)). rewrite Hnx. cbn [negb]. rewrite <- app_assoc. reflexivity.
      * (* whitespace inside the group *)
        injection Esnap as -> ->. subst k. inversion Hws as [|? ? Hw Hws']; subst.
        assert (Hsame : exists s', group_loop p (ws' ++ nx :: rest) (S idx)
                          {| g_live := g_live s; g_off := g_off s; g_pidx := g_pidx s;
                             g_prev := g_prev s; g_rec := false :: g_rec s |} = Ok s' /\
                        g_live s' = join_run p m (grp :: out') (Some nx) (S (length ws')) (ws' ++ nx :: rest) /\
                        g_rec s' = rev (map nonws (w :: ws' ++ nx :: rest)) ++ g_rec s).
        { match goal with |- exists s', group_loop _ _ _ ?st = _ /\ _ =>
            destruct (IH (S idx) st (grp :: out') (Some nx) (S (length ws'))) as (s' & E & EL & ER) end.
          { unfold sim. cbn [g_live g_off g_pidx g_prev]. cbn [skipn] in HL. split; [exact HL|]. split.
            - cbn [length] in *. lia.
            - exists ws', nx, rest, grp, out'. repeat split; auto. }
          exists s'. split; [exact E|]. split; [exact EL|]. rewrite ER. cbn [g_rec map rev].
          change (nonws w) with (negb (is_ws w)). rewrite Hw. cbn [negb]. rewrite <- app_assoc. reflexivity. }
        cbn [group_loop]. destruct (Z.ltb _ 0); [exact Hsame|]. rewrite Hw. exact Hsame.
Qed.
End Join.

(* MAIN (generic, one sibling list): the snapshot/offset loop of _group computes join_spec, and
   it reaches (flags for recursion) exactly the non-whitespace siblings. *)
Theorem group_loop_join : forall p m, post_mode p m ->
  (forall nx, g_vnext p (Some nx) = true -> g_match p nx = false) -> g_vnext p None = false ->
  forall l, exists s, group_loop p l 0 (ginit l) = Ok s /\ g_live s = join_spec p m l /\
                      rev (g_rec s) = map nonws l.
Proof.
  intros p m H1 H2 H3 l.
  destruct (group_loop_sim p m H1 H2 H3 l 0 (ginit l) [] None 0) as (s & E & EL & ER).
  - unfold sim. cbn [ginit g_live g_off g_prev g_pidx rev app skipn length]. split; [reflexivity|].
    split; [reflexivity|]. split; [reflexivity|]. intros pv Hpv; discriminate.
  - exists s. split; [exact E|]. split; [exact EL|]. rewrite ER. cbn [ginit g_rec].
    rewrite app_nil_r. apply rev_involutive.
Qed.
Print Assumptions group_loop_join.

Lemma mapM2_map_flags {A B C} (g : A -> C -> res B) (d : C) (h : A -> C) (l : list A) :
  mapM2 g d l (map h l) = mapM (fun x => g x (h x)) l.
Proof.
  induction l as [|x l IH]; cbn [mapM2 mapM map tl]; [reflexivity|]. rewrite IH. reflexivity.
Qed.

(* MAIN (generic, whole pass with recursion) *)
Theorem group_driver_join : forall p m, post_mode p m ->
  (forall nx, g_vnext p (Some nx) = true -> g_match p nx = false) -> g_vnext p None = false ->
  forall n, group_driver p n = Ok (join_rec p m n).
Proof.
  intros p m H1 H2 H3.
  induction n as [ty v | c v kids IH] using node_ind'; cbn [group_driver join_rec]; [reflexivity|].
  destruct (group_loop_join p m H1 H2 H3 kids) as (dry & Ed & _ & Er). rewrite Ed. cbn [bind].
  rewrite Er, mapM2_map_flags.
  set (g := fun k => if is_group k && negb (inst k (g_cls p)) then join_rec p m k else k).
  rewrite (mapM_map _ g).
  - cbn [bind]. destruct (group_loop_join p m H1 H2 H3 (map g kids)) as (fin & Ef & EL & _).
    rewrite Ef. cbn [bind]. rewrite EL. reflexivity.
  - eapply Forall_impl; [|exact IH]. intros k Hk. cbv beta. unfold g.
    destruct k as [ty' v' | c' v' kids']; [cbn [is_group andb]; rewrite andb_false_r; reflexivity|].
    change (nonws (Grp c' v' kids')) with true. cbn [andb is_group].
    destruct (negb (inst (Grp c' v' kids') (g_cls p))); [exact Hk | reflexivity].
Qed.
Print Assumptions group_driver_join.

(* ---- the hypotheses hold for the four passes --------------------------------------------------- *)
Lemma nm_typed1 nx : g_vnext p_typed_literal1 (Some nx) = true -> g_match p_typed_literal1 nx = false.
Proof.
  destruct nx as [ty v | c v kids]; [|reflexivity]. cbn [p_typed_literal1 g_vnext g_match some_node].
  unfold matches. cbn [m_close existsb match_pat fst snd]. rewrite andb_true_r, orb_false_r.
  intros H. apply ttype_eqb_eq in H. subst ty. reflexivity.
Qed.

Lemma nm_typed2 nx : g_vnext p_typed_literal2 (Some nx) = true -> g_match p_typed_literal2 nx = false.
Proof.
  destruct nx as [ty v | c v kids]; [reflexivity|]. cbn [p_typed_literal2 g_vnext some_node].
  rewrite matches_grp. discriminate.
Qed.

Lemma nm_comparison nx : g_vnext p_comparison (Some nx) = true -> g_match p_comparison nx = false.
Proof.
  destruct nx as [ty v | c v kids]; [|reflexivity]. cbn [p_comparison g_vnext g_match tt_is].
  destruct (ttype_eqb ty T_Comparison) eqn:E; [|reflexivity]. apply ttype_eqb_eq in E. subst ty.
  intros H. lazy in H. discriminate H.
Qed.

Lemma nm_idlist nx : g_vnext p_identifier_list (Some nx) = true -> g_match p_identifier_list nx = false.
Proof.
  destruct nx as [ty v | c v kids]; [|reflexivity]. cbn [p_identifier_list g_vnext g_match match_pat fst snd].
  destruct (ttype_eqb ty T_Punctuation) eqn:E; [|reflexivity]. apply ttype_eqb_eq in E. subst ty.
  intros H. lazy in H. discriminate H.
Qed.

(* MAIN (instances, flat): what the task calls
     group_loop p_typed_literal1 l 0 (ginit l) = Ok s -> g_live s = typed1_spec l *)
Theorem typed1_loop_spec : forall l s,
  group_loop p_typed_literal1 l 0 (ginit l) = Ok s -> g_live s = typed1_spec l.
Proof.
  intros l s H. destruct (group_loop_join p_typed_literal1 FromMatch eq_refl nm_typed1 eq_refl l)
    as (s' & E & EL & _). rewrite H in E. injection E as <-. exact EL.
Qed.
Theorem typed2_loop_spec : forall l s,
  group_loop p_typed_literal2 l 0 (ginit l) = Ok s -> g_live s = typed2_spec l.
Proof.
  intros l s H. destruct (group_loop_join p_typed_literal2 FromMatch eq_refl nm_typed2 eq_refl l)
    as (s' & E & EL & _). rewrite H in E. injection E as <-. exact EL.
Qed.
Theorem comparison_loop_spec : forall l s,
  group_loop p_comparison l 0 (ginit l) = Ok s -> g_live s = comparison_spec l.
Proof.
  intros l s H. destruct (group_loop_join p_comparison FromPrev eq_refl nm_comparison eq_refl l)
    as (s' & E & EL & _). rewrite H in E. injection E as <-. exact EL.
Qed.
Theorem identifier_list_loop_spec : forall l s,
  group_loop p_identifier_list l 0 (ginit l) = Ok s -> g_live s = identifier_list_spec l.
Proof.
  intros l s H. destruct (group_loop_join p_identifier_list FromPrev eq_refl nm_idlist eq_refl l)
    as (s' & E & EL & _). rewrite H in E. injection E as <-. exact EL.
Qed.
Print Assumptions typed1_loop_spec.
Print Assumptions identifier_list_loop_spec.

(* MAIN (instances, whole passes as they stand in Passes.passes) *)
Theorem group_typed_literal_spec : forall n,
  (n1 <- group_driver p_typed_literal1 n ;; group_driver p_typed_literal2 n1) = Ok (typed_literal_rec n).
Proof.
  intros n. rewrite (group_driver_join p_typed_literal1 FromMatch eq_refl nm_typed1 eq_refl). cbn [bind].
  apply (group_driver_join p_typed_literal2 FromMatch eq_refl nm_typed2 eq_refl).
Qed.
Theorem group_comparison_spec : forall n,
  group_driver p_comparison n = Ok (join_rec p_comparison FromPrev n).
Proof. exact (group_driver_join p_comparison FromPrev eq_refl nm_comparison eq_refl). Qed.
Theorem group_identifier_list_spec : forall n,
  group_driver p_identifier_list n = Ok (join_rec p_identifier_list FromPrev n).
Proof. exact (group_driver_join p_identifier_list FromPrev eq_refl nm_idlist eq_refl). Qed.
Print Assumptions group_typed_literal_spec.
Print Assumptions group_comparison_spec.
Print Assumptions group_identifier_list_spec.

(* ================================================================================================
   consequences on the specification: written lists of ANY length
   ================================================================================================ *)
Lemma Forall_ws_rev ws : Forall (fun y => is_ws y = true) ws -> Forall (fun y => is_ws y = true) (rev ws).
Proof. intros H. apply Forall_forall. intros x Hx. rewrite Forall_forall in H. apply H, in_rev, Hx. Qed.

Section Written.
Variable p : gparams.
Variable m : jmode.

Lemma join_run_ws W : forall out prev X, Forall (fun y => is_ws y = true) W ->
  join_run p m out prev 0 (W ++ X) = join_run p m (rev W ++ out) prev 0 X.
Proof.
  induction W as [|w W IH]; intros out prev X H; [reflexivity|]. inversion H as [|? ? Hw HW]; subst.
  cbn [app join_run rev]. rewrite Hw, IH by exact HW. rewrite <- app_assoc. reflexivity.
Qed.

Lemma join_run_skip Q : forall out prev X,
  join_run p m out prev (length Q) (Q ++ X) = join_run p m out prev 0 X.
Proof. induction Q as [|q Q IH]; intros out prev X; [reflexivity|]. cbn [length app join_run]. apply IH. Qed.

Lemma join_run_plain y out prev X : is_ws y = false -> g_match p y = false ->
  join_run p m out prev 0 (y :: X) = join_run p m (y :: out) (Some y) 0 X.
Proof. intros H1 H2. cbn [join_run]. rewrite H1, H2. reflexivity. Qed.

(* a separator with its two operands, as written *)
Definition sep_ok (s : sep_item) : Prop :=
  let '(ws1, y, ws2, it) := s in
  Forall (fun y => is_ws y = true) ws1 /\ is_ws y = false /\ g_match p y = true /\
  Forall (fun y => is_ws y = true) ws2 /\ is_ws it = false /\
  g_vprev p it = true /\ g_vnext p (Some it) = true.

Definition fold_join (item : node) (l : list sep_item) : node :=
  fold_left (fun acc '(ws1, y, ws2, it) => join_group p acc (ws1 ++ y :: ws2 ++ [it])) l item.

Definition last_prev (pv : node) (l : list sep_item) : node :=
  match rev l with (_, _, _, it) :: _ => it | [] => pv end.

Lemma last_prev_cons pv s l : last_prev pv (s :: l) = last_prev (snd s) l.
Proof.
  unfold last_prev. cbn [rev]. destruct (rev l) as [|[[[a b] c] d] r]; [|reflexivity].
  destruct s as [[[a b] c] d]. reflexivity.
Qed.
End Written.

Section WrittenPrev.
Variable p : gparams.

(* one `item ws* SEP ws* next` step in any context *)
Lemma join_step_prev item out pv ws1 y ws2 nx R :
  is_ws item = false -> sep_ok p (ws1, y, ws2, nx) -> g_vprev p pv = true ->
  join_run p FromPrev (item :: out) (Some pv) 0 (ws1 ++ y :: ws2 ++ nx :: R)
  = join_run p FromPrev (join_group p item (ws1 ++ y :: ws2 ++ [nx]) :: out) (Some nx) 0 R.
Proof.
  intros Hi (Hws1 & Hy & My & Hws2 & Hnx & _ & Vnx) Vpv.
  rewrite join_run_ws by exact Hws1. cbn [join_run]. rewrite Hy, My.
  rewrite (span_ws_first _ _ _ Hws2 Hnx), Vpv, Vnx. cbn [andb].
  rewrite (span_ws_first _ _ _ (Forall_ws_rev _ Hws1) Hi), rev_involutive.
  replace (S (length ws2)) with (length (ws2 ++ [nx])) by (rewrite app_length; cbn [length]; lia).
  replace (ws2 ++ nx :: R) with ((ws2 ++ [nx]) ++ R) by (rewrite <- app_assoc; reflexivity).
  apply join_run_skip.
Qed.

(* ... and a whole written chain *)
Lemma join_chain : forall l item out pv R,
  Forall (sep_ok p) l -> is_ws item = false -> g_vprev p pv = true ->
  join_run p FromPrev (item :: out) (Some pv) 0 (render_seps l ++ R)
  = join_run p FromPrev (fold_join p item l :: out) (Some (last_prev pv l)) 0 R.
Proof.
  induction l as [|[[[ws1 y] ws2] nx] l IH]; intros item out pv R Hl Hi Vpv; [reflexivity|].
  inversion Hl as [|? ? Hs Hl']; subst.
  cbn [render_seps flat_map]. rewrite <- !app_assoc. cbn [app]. rewrite <- !app_assoc. cbn [app].
  rewrite join_step_prev by assumption.
  change (flat_map _ l) with (render_seps l).
  rewrite IH; [| exact Hl' | apply join_group_not_ws | apply Hs].
  rewrite last_prev_cons. reflexivity.
Qed.
End WrittenPrev.

(* ---- IdentifierList: ONE group for any number of items ------------------------------------------ *)
Lemma fold_join_idlist l : forall kids,
  fold_join p_identifier_list (mk_grp CIdentifierList kids) l
  = mk_grp CIdentifierList (kids ++ render_seps l).
Proof.
  induction l as [|[[[ws1 y] ws2] nx] l IH]; intros kids; cbn [fold_join fold_left render_seps flat_map].
  - rewrite app_nil_r. reflexivity.
  - unfold join_group at 2. cbn [p_identifier_list g_extend g_cls mk_grp inst cls_eqb andb orb].
    change (Grp CIdentifierList (text_of_list (kids ++ ws1 ++ y :: ws2 ++ [nx])) (kids ++ ws1 ++ y :: ws2 ++ [nx]))
      with (mk_grp CIdentifierList (kids ++ ws1 ++ y :: ws2 ++ [nx])).
    change (fold_left _ l ?x) with (fold_join p_identifier_list x l).
    rewrite IH. rewrite <- !app_assoc. cbn [app]. rewrite <- !app_assoc. reflexivity.
Qed.

(* `a0 ws* , ws* a1 ws* , ws* a2 ...` with n >= 1 commas, wherever the scan stands: ONE
   IdentifierList whose children are exactly the written items, commas and whitespace, in order;
   the unbounded form of "a comma-separated list is one IdentifierList". *)
Theorem identifier_list_one_group : forall a0 s1 l out prev R,
  is_ws a0 = false -> valid_list_item (Some a0) = true -> inst a0 CIdentifierList = false ->
  Forall (sep_ok p_identifier_list) (s1 :: l) ->
  join_run p_identifier_list FromPrev out prev 0 (a0 :: render_seps (s1 :: l) ++ R)
  = join_run p_identifier_list FromPrev
             (mk_grp CIdentifierList (a0 :: render_seps (s1 :: l)) :: out)
             (Some (last_item a0 (s1 :: l))) 0 R.
Proof.
  intros a0 [[[ws1 y] ws2] nx] l out prev R Ha Va Ia Hl.
  rewrite join_run_plain; [|exact Ha|apply nm_idlist; exact Va].
  rewrite join_chain; [|exact Hl|exact Ha|exact Va].
  match goal with |- join_run _ _ (?F :: _) _ _ _ = _ =>
    assert (E : F = mk_grp CIdentifierList (a0 :: render_seps ((ws1, y, ws2, nx) :: l))) end.
  { cbn [fold_join fold_left]. unfold join_group at 2.
    cbn [p_identifier_list g_extend g_cls andb]. rewrite Ia.
    change (fold_left _ l ?x) with (fold_join p_identifier_list x l).
    rewrite fold_join_idlist. cbn [render_seps flat_map app]. rewrite <- !app_assoc. reflexivity. }
  rewrite E. reflexivity.
Qed.
Print Assumptions identifier_list_one_group.

Corollary identifier_list_spec_items : forall a0 s1 l,
  is_ws a0 = false -> valid_list_item (Some a0) = true -> inst a0 CIdentifierList = false ->
  Forall (sep_ok p_identifier_list) (s1 :: l) ->
  identifier_list_spec (a0 :: render_seps (s1 :: l))
  = [mk_grp CIdentifierList (a0 :: render_seps (s1 :: l))].
Proof.
  intros a0 s1 l H1 H2 H3 H4. unfold identifier_list_spec, join_spec.
  rewrite <- (app_nil_r (render_seps (s1 :: l))) at 1.
  rewrite identifier_list_one_group by assumption. reflexivity.
Qed.

(* ---- Comparison: a chain nests to the left ------------------------------------------------------ *)
Lemma fold_join_comparison l : forall a0, fold_join p_comparison a0 l = nest_left CComparison a0 l.
Proof.
  induction l as [|[[[ws1 y] ws2] nx] l IH]; intros a0; [reflexivity|].
  cbn [fold_join nest_left fold_left]. apply IH.
Qed.

(* a0 op a1 op a2 ... : the first comparison is Comparison[a0 op a1]; every further operator wraps
   the Comparison built so far: ((a0 op a1) op a2) ...  (valid_prev is evaluated on the STALE
   operand token, which is why a Comparison - not itself a valid operand - can be extended) *)
Theorem comparison_chain : forall a0 l out prev R,
  is_ws a0 = false -> valid_cmp_operand (Some a0) = true -> Forall (sep_ok p_comparison) l ->
  join_run p_comparison FromPrev out prev 0 (a0 :: render_seps l ++ R)
  = join_run p_comparison FromPrev (nest_left CComparison a0 l :: out)
             (Some (last_item a0 l)) 0 R.
Proof.
  intros a0 l out prev R Ha Va Hl.
  rewrite join_run_plain; [|exact Ha|apply nm_comparison; exact Va].
  rewrite join_chain; [|exact Hl|exact Ha|exact Va].
  rewrite fold_join_comparison. reflexivity.
Qed.
Print Assumptions comparison_chain.

Corollary comparison_spec_single : forall a ws1 op ws2 b,
  is_ws a = false -> valid_cmp_operand (Some a) = true -> sep_ok p_comparison (ws1, op, ws2, b) ->
  comparison_spec (a :: ws1 ++ op :: ws2 ++ [b]) = [mk_grp CComparison (a :: ws1 ++ op :: ws2 ++ [b])].
Proof.
  intros a ws1 op ws2 b Ha Va Hs. unfold comparison_spec, join_spec.
  pose proof (comparison_chain a [(ws1, op, ws2, b)] [] None [] Ha Va (Forall_cons _ Hs (Forall_nil _))) as H.
  cbn [render_seps flat_map app] in H. rewrite !app_nil_r in H. rewrite H. reflexivity.
Qed.

(* ---- TypedLiteral ------------------------------------------------------------------------------- *)
Section WrittenMatch.
Variable p : gparams.
Lemma join_step_match y out pv ws2 nx R :
  is_ws y = false -> g_match p y = true -> g_vprev p pv = true ->
  Forall (fun t => is_ws t = true) ws2 -> is_ws nx = false -> g_vnext p (Some nx) = true ->
  join_run p FromMatch out (Some pv) 0 (y :: ws2 ++ nx :: R)
  = join_run p FromMatch (join_group p y (ws2 ++ [nx]) :: out) (Some nx) 0 R.
Proof.
  intros Hy My Vpv Hws2 Hnx Vnx. cbn [join_run]. rewrite Hy, My.
  rewrite (span_ws_first _ _ _ Hws2 Hnx), Vpv, Vnx. cbn [andb].
  replace (S (length ws2)) with (length (ws2 ++ [nx])) by (rewrite app_length; cbn [length]; lia).
  replace (ws2 ++ nx :: R) with ((ws2 ++ [nx]) ++ R) by (rewrite <- app_assoc; reflexivity).
  apply join_run_skip.
Qed.
End WrittenMatch.

Definition is_typed_open (n : node) : bool := matches n (m_open CTypedLiteral).
Definition is_typed_close (n : node) : bool := matches n (m_close CTypedLiteral).
Definition is_typed_unit (n : node) : bool := matches n m_extend_typed.

(* TYPE ws* 'string', anywhere but at the very beginning of the sibling list (the code requires a
   previous token: `if prev_ and ...`), becomes one TypedLiteral *)
Theorem typed1_literal : forall out pv ty ws s R,
  is_typed_open ty = true -> Forall (fun t => is_ws t = true) ws -> is_typed_close s = true ->
  join_run p_typed_literal1 FromMatch out (Some pv) 0 (ty :: ws ++ s :: R)
  = join_run p_typed_literal1 FromMatch (mk_grp CTypedLiteral (ty :: ws ++ [s]) :: out) (Some s) 0 R.
Proof.
  intros out pv ty ws s R Ho Hws Hc.
  assert (Lty : is_group ty = false) by (apply (matches_leaf _ _ Ho)).
  assert (Ls : is_group s = false) by (apply (matches_leaf _ _ Hc)).
  destruct ty as [t1 v1|]; [|discriminate]. destruct s as [t2 v2|]; [|discriminate].
  assert (Hty : is_ws (Leaf t1 v1) = false).
  { unfold is_typed_open, matches in Ho. cbn [m_open existsb match_pat fst snd] in Ho.
    rewrite orb_false_r, andb_true_r in Ho. apply orb_true_iff in Ho.
    destruct Ho as [Ho | Ho]; [|apply andb_true_iff in Ho; destruct Ho as [Ho _]];
      apply ttype_eqb_eq in Ho; subst t1; reflexivity. }
  assert (Hs : is_ws (Leaf t2 v2) = false).
  { unfold is_typed_close, matches in Hc. cbn [m_close existsb match_pat fst snd] in Hc.
    rewrite orb_false_r, andb_true_r in Hc. apply ttype_eqb_eq in Hc; subst t2; reflexivity. }
  rewrite join_step_match; auto.
  cbn [p_typed_literal1 g_match]. rewrite imt_m. exact Ho.
Qed.

(* the first non-whitespace token of a sibling list is never grouped by _group: prev_ is None *)
Theorem join_first_not_grouped : forall p m ws y R,
  Forall (fun t => is_ws t = true) ws -> is_ws y = false ->
  join_spec p m (ws ++ y :: R) = join_run p m (y :: rev ws) (Some y) 0 R.
Proof.
  intros p m ws y R Hws Hy. unfold join_spec. rewrite join_run_ws by exact Hws. rewrite app_nil_r.
  cbn [join_run]. rewrite Hy. destruct (g_match p y); reflexivity.
Qed.

(* the second run: a TypedLiteral followed by an interval unit keyword absorbs it *)
Theorem typed2_extend : forall out pv v kids ws u R,
  Forall (fun t => is_ws t = true) ws -> is_typed_unit u = true ->
  join_run p_typed_literal2 FromMatch out (Some pv) 0 (Grp CTypedLiteral v kids :: ws ++ u :: R)
  = join_run p_typed_literal2 FromMatch (mk_grp CTypedLiteral (kids ++ ws ++ [u]) :: out) (Some u) 0 R.
Proof.
  intros out pv v kids ws u R Hws Hu.
  assert (Lu : is_group u = false) by (apply (matches_leaf _ _ Hu)).
  destruct u as [t v'|]; [|discriminate].
  assert (Hnu : is_ws (Leaf t v') = false).
  { unfold is_typed_unit, matches in Hu. cbn [m_extend_typed existsb match_pat fst snd] in Hu.
    rewrite orb_false_r in Hu. apply andb_true_iff in Hu. destruct Hu as [Hu _].
    apply ttype_eqb_eq in Hu; subst t; reflexivity. }
  rewrite join_step_match; auto.
Qed.
Print Assumptions typed1_literal.
Print Assumptions typed2_extend.

(* ---- examples: hypotheses are satisfiable, and the closed pipeline agrees ------------------------ *)
Example idlist_ex :
  let l := [c_select; c_ws; c_name 97; c_comma; c_ws; c_name 98; c_ws; c_comma; c_name 99] in
  identifier_list_spec l
  = [c_select; c_ws; mk_grp CIdentifierList [c_name 97; c_comma; c_ws; c_name 98; c_ws; c_comma; c_name 99]]
  /\ exists s, group_loop p_identifier_list l 0 (ginit l) = Ok s /\ g_live s = identifier_list_spec l.
Proof. split; [vm_compute; reflexivity|]. eexists. split; vm_compute; reflexivity. Qed.

Example idlist_hyp_ex :
  Forall (sep_ok p_identifier_list) [([], c_comma, [c_ws], c_name 98); ([c_ws], c_comma, [], c_name 99)]
  /\ valid_list_item (Some (c_name 97)) = true.
Proof.
  split; [|reflexivity].
  repeat constructor.
Qed.

Example comparison_chain_ex :
  comparison_spec [c_name 97; c_ws; c_eq; c_ws; c_name 98; c_eq; c_name 99]
  = [mk_grp CComparison [mk_grp CComparison [c_name 97; c_ws; c_eq; c_ws; c_name 98]; c_eq; c_name 99]].
Proof. vm_compute. reflexivity. Qed.

Example typed_ex :
  typed_literal_spec [c_select; c_ws; c_kw [73;78;84;69;82;86;65;76]%N; c_ws; c_str; c_ws; c_kw s_DAY]
  = [c_select; c_ws; c_kw [73;78;84;69;82;86;65;76]%N; c_ws; c_str; c_ws; c_kw s_DAY]
  /\ typed_literal_spec [c_select; c_ws; c_date; c_ws; c_str; c_ws; c_kw s_DAY]
  = [c_select; c_ws; mk_grp CTypedLiteral [c_date; c_ws; c_str; c_ws; c_kw s_DAY]]
  /\ typed_literal_spec [c_date; c_ws; c_str] = [c_date; c_ws; c_str].
Proof. repeat split; vm_compute; reflexivity. Qed.
