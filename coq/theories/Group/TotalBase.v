(* Facts about the TokenList primitives used by the totality proofs: what the searches return
   (ranges, the skipped prefix), when group_tokens succeeds and what it builds, totality of mapM. *)
From SqlModel Require Import Base PyStr Node Inv Passes GroupFacts TotalDefs.

(* ---- lists --------------------------------------------------------------------------------- *)
Lemma nth_error_skipn' {A} (l : list A) n i : nth_error (skipn n l) i = nth_error l (n + i).
Proof.
  revert l; induction n as [|n IH]; intros l; [reflexivity|].
  destruct l as [|x l]; [destruct i; reflexivity|]. cbn [skipn plus nth_error]. apply IH.
Qed.

Lemma skipn_app_length {A} (a b : list A) : skipn (length a) (a ++ b) = b.
Proof. induction a as [|x a IH]; [reflexivity | exact IH]. Qed.

Lemma firstn_app_length {A} (a b : list A) : firstn (length a) (a ++ b) = a.
Proof. induction a as [|x a IH]; cbn [length app firstn]; [reflexivity | rewrite IH; reflexivity]. Qed.

Lemma skipn_skipn {A} (l : list A) a b : skipn a (skipn b l) = skipn (a + b) l.
Proof. symmetry. apply skipn_add. Qed.

Lemma firstn_length_le' {A} (l : list A) n : n <= length l -> length (firstn n l) = n.
Proof. apply firstn_length_le. Qed.

Lemma nth_error_app_mid {A} (a : list A) x b : nth_error (a ++ x :: b) (length a) = Some x.
Proof. induction a as [|y a IH]; [reflexivity | exact IH]. Qed.

Lemma nth_error_firstn_mid {A} (l : list A) start g r :
  start <= length l -> nth_error (firstn start l ++ g :: r) start = Some g.
Proof.
  intros H. rewrite <- (firstn_length_le l H) at 2. apply nth_error_app_mid.
Qed.

Lemma rev_cons_case {A} (r : list A) : r = [] \/ exists m z, r = m ++ [z].
Proof.
  destruct (rev r) as [|z m'] eqn:E.
  - left. rewrite <- (rev_involutive r), E. reflexivity.
  - right. exists (rev m'), z. rewrite <- (rev_involutive r), E. reflexivity.
Qed.

(* ---- (NE) ------------------------------------------------------------------------------------ *)
Definition ne (n : node) : Prop := nonempty_groups n = true.
Definition NEL (l : list node) : Prop := Forall ne l.

Lemma forallb_Forall {A} (f : A -> bool) l : forallb f l = true <-> Forall (fun x => f x = true) l.
Proof. rewrite forallb_forall, Forall_forall. reflexivity. Qed.

Lemma ne_grp c v kids : ne (Grp c v kids) <-> kids <> [] /\ NEL kids.
Proof.
  unfold ne, NEL. cbn [nonempty_groups]. rewrite andb_true_iff, forallb_Forall.
  destruct kids as [|k kids]; cbn [is_nil negb]; split; intros [H1 H2]; split; auto; congruence.
Qed.

Lemma ne_leaf ty v : ne (Leaf ty v). Proof. reflexivity. Qed.

Lemma ne_mk_grp c kids : kids <> [] -> NEL kids -> ne (mk_grp c kids).
Proof. intros H1 H2. apply ne_grp. auto. Qed.

Lemma NEL_firstn n l : NEL l -> NEL (firstn n l). Proof. apply Forall_firstn. Qed.
Lemma NEL_skipn n l : NEL l -> NEL (skipn n l). Proof. apply Forall_skipn. Qed.

(* ---- searches -------------------------------------------------------------------------------- *)
Lemma find_from_aux_spec f : forall l base i x,
  find_from_aux f l base = Some (i, x) ->
  exists pre post, l = pre ++ x :: post /\ i = base + length pre /\
                   Forall (fun y => f y = false) pre /\ f x = true.
Proof.
  induction l as [|y l IH]; intros base i x H; cbn [find_from_aux] in H; [discriminate|].
  destruct (f y) eqn:Fy.
  - injection H as <- <-. exists [], l. cbn [app length]. repeat split; auto; try lia.
  - apply IH in H. destruct H as (pre & post & -> & -> & Hpre & Hx).
    exists (y :: pre), post. cbn [app length]. repeat split; auto; try lia.
Qed.

Lemma find_from_spec f start l i x : find_from f start l = Some (i, x) ->
  exists pre post, skipn start l = pre ++ x :: post /\ i = start + length pre /\
                   Forall (fun y => f y = false) pre /\ f x = true.
Proof. apply find_from_aux_spec. Qed.

Lemma find_from_range f start l i x : find_from f start l = Some (i, x) ->
  start <= i /\ i < length l /\ nth_error l i = Some x /\ f x = true.
Proof.
  intros H. apply find_from_spec in H. destruct H as (pre & post & E & -> & _ & Hx).
  assert (Hn : nth_error l (start + length pre) = Some x).
  { rewrite <- nth_error_skipn', E. apply nth_error_app_mid. }
  repeat split; auto; [lia|]. apply nth_error_Some. congruence.
Qed.

Lemma find_between_range f start stop l i x : find_between f start stop l = Some (i, x) ->
  start <= i /\ i < stop /\ i < length l /\ nth_error l i = Some x /\ f x = true.
Proof.
  unfold find_between. intros H.
  change (find_from f start (firstn stop l) = Some (i, x)) in H.
  apply find_from_range in H. destruct H as (H1 & H2 & H3 & H4).
  rewrite firstn_length in H2.
  repeat split; auto; try lia.
  rewrite <- (firstn_skipn stop l). rewrite nth_error_app1; [exact H3|]. rewrite firstn_length. lia.
Qed.

Lemma next_by_from_range i m t start l j x : next_by_from i m t start l = Some (j, x) ->
  start <= j /\ j < length l /\ nth_error l j = Some x /\ imt (Some x) i m t = true.
Proof. apply find_from_range. Qed.

Lemma skip_matcher_ws n : skip_matcher true false n = negb (is_ws n).
Proof. unfold skip_matcher. cbn [andb]. rewrite orb_false_r. reflexivity. Qed.

Lemma token_next_spec i l j n : token_next true false i l = Some (j, n) ->
  exists pre post, skipn (S i) l = pre ++ n :: post /\ j = S i + length pre /\
                   Forall (fun y => is_ws y = true) pre /\ is_ws n = false.
Proof.
  intros H. apply find_from_spec in H. destruct H as (pre & post & E & -> & Hpre & Hx).
  exists pre, post. repeat split; auto.
  - eapply Forall_impl; [|exact Hpre]. intros y Hy. cbv beta in Hy. rewrite skip_matcher_ws in Hy.
    destruct (is_ws y); [reflexivity | discriminate].
  - rewrite skip_matcher_ws in Hx. destruct (is_ws n); [discriminate | reflexivity].
Qed.

Lemma token_next_range i l j n : token_next true false i l = Some (j, n) ->
  i < j /\ j < length l /\ nth_error l j = Some n.
Proof. intros H. apply find_from_range in H. destruct H as (H1 & H2 & H3 & _). auto. Qed.

Lemma find_last_aux_spec f : forall l base best i x,
  find_last_aux f l base best = Some (i, x) ->
  best = Some (i, x) \/ (base <= i /\ i < base + length l /\ nth_error l (i - base) = Some x /\ f x = true).
Proof.
  induction l as [|y l IH]; intros base best i x H; cbn [find_last_aux] in H; [left; exact H|].
  apply IH in H. destruct H as [H | (H1 & H2 & H3 & H4)].
  - destruct (f y) eqn:Fy; [|left; exact H]. injection H as <- <-. right.
    cbn [length]. replace (base - base) with 0 by lia. repeat split; auto; lia.
  - right. cbn [length]. repeat split; auto; try lia.
    replace (i - base) with (S (i - S base)) by lia. exact H3.
Qed.

Lemma token_prev_range sw sc i l j n : token_prev sw sc i l = Some (j, n) ->
  j < i /\ j < length l /\ nth_error l j = Some n.
Proof.
  unfold token_prev, find_before. intros H. apply find_last_aux_spec in H.
  destruct H as [H | (H1 & H2 & H3 & H4)]; [discriminate|].
  rewrite firstn_length in H2. rewrite Nat.sub_0_r in H3.
  repeat split; try lia.
  rewrite <- (firstn_skipn i l). rewrite nth_error_app1; [exact H3|]. rewrite firstn_length. lia.
Qed.

(* ---- group_tokens ------------------------------------------------------------------------------ *)
Lemma group_tokens_ok c start stop ext l : start < length l ->
  exists l' g, group_tokens c start stop ext l = Ok (l', g).
Proof.
  intros H. unfold group_tokens. destruct (nth_error l start) as [first|] eqn:E.
  - destruct (ext && inst first c); eauto.
  - apply nth_error_None in E. lia.
Qed.

Lemma group_tokens_inv c start stop ext l l' g : group_tokens c start stop ext l = Ok (l', g) ->
  exists first, nth_error l start = Some first /\
    ((ext && inst first c = true /\
      exists c' v kids, first = Grp c' v kids /\
        g = mk_grp c' (kids ++ firstn (stop - S start) (skipn (S start) l)) /\
        l' = firstn start l ++ g :: skipn (Nat.max (S start) stop) l)
     \/
     (ext && inst first c = false /\
      g = mk_grp c (firstn (stop - start) (skipn start l)) /\
      l' = firstn start l ++ g :: skipn (Nat.max start stop) l)).
Proof.
  unfold group_tokens. destruct (nth_error l start) as [first|] eqn:E; [|discriminate].
  intros H. exists first. split; [reflexivity|].
  destruct (ext && inst first c) eqn:X.
  - left. split; [reflexivity|]. destruct first as [ty v | c' v kids].
    + apply andb_true_iff in X. destruct X as [_ X]. discriminate.
    + injection H as <- <-. exists c', v, kids. auto.
  - right. injection H as <- <-. auto.
Qed.

Lemma group_tokens_start c start stop ext l l' g :
  group_tokens c start stop ext l = Ok (l', g) -> start < length l.
Proof.
  intros H. apply group_tokens_inv in H. destruct H as (first & E & _).
  apply nth_error_Some. congruence.
Qed.

Lemma inst_grp_same c' v kids v' kids' c : inst (Grp c' v kids) c = inst (Grp c' v' kids') c.
Proof. reflexivity. Qed.

Lemma inst_mk_grp c kids : inst (mk_grp c kids) c = true.
Proof.
  unfold mk_grp. cbn [inst]. replace (cls_eqb c c) with true; [reflexivity|].
  symmetry. apply cls_eqb_eq. reflexivity.
Qed.

(* the shape of the result when the slice is not empty *)
Lemma group_tokens_form c start stop ext l l' g :
  group_tokens c start stop ext l = Ok (l', g) -> start < stop ->
  l' = firstn start l ++ g :: skipn stop l /\ inst g c = true /\ is_group g = true /\
  nth_error l' start = Some g.
Proof.
  intros H Hlt. pose proof (group_tokens_start _ _ _ _ _ _ _ H) as Hs.
  apply group_tokens_inv in H. destruct H as (first & E & [(X & c' & v & kids & -> & Hg & Hl) | (X & Hg & Hl)]).
  - rewrite Nat.max_r in Hl by lia. subst l'. split; [reflexivity|].
    apply andb_true_iff in X. destruct X as [_ X]. subst g.
    split; [exact X|]. split; [reflexivity|].
    apply nth_error_firstn_mid. lia.
  - rewrite Nat.max_r in Hl by lia. subst l'. split; [reflexivity|]. subst g.
    split; [apply inst_mk_grp|]. split; [reflexivity|].
    apply nth_error_firstn_mid. lia.
Qed.

(* in every case the new/extended group sits at [start], is an instance of c, and the list is
   not empty *)
Lemma group_tokens_at c start stop ext l l' g :
  group_tokens c start stop ext l = Ok (l', g) ->
  nth_error l' start = Some g /\ inst g c = true /\ l' <> [].
Proof.
  intros H. pose proof (group_tokens_start _ _ _ _ _ _ _ H) as Hs.
  apply group_tokens_inv in H.
  destruct H as (first & E & [(X & c' & v & kids & -> & Hg & ->) | (X & Hg & ->)]).
  - apply andb_true_iff in X. destruct X as [_ X]. subst g. repeat split.
    + apply nth_error_firstn_mid. lia.
    + exact X.
    + intros Hn. apply app_eq_nil in Hn. destruct Hn as [_ Hn]. discriminate.
  - subst g. repeat split.
    + apply nth_error_firstn_mid. lia.
    + apply inst_mk_grp.
    + intros Hn. apply app_eq_nil in Hn. destruct Hn as [_ Hn]. discriminate.
Qed.

Lemma group_tokens_length c start stop ext l l' g :
  group_tokens c start stop ext l = Ok (l', g) -> start < stop ->
  length l' = S start + (length l - stop).
Proof.
  intros H Hlt. pose proof (group_tokens_start _ _ _ _ _ _ _ H) as Hs.
  apply group_tokens_form in H; [|exact Hlt]. destruct H as (-> & _).
  rewrite app_length. cbn [length]. rewrite firstn_length_le' by lia. rewrite skipn_length. lia.
Qed.

(* (NE): the call creates no empty group when the slice is not empty, or when it extends an
   existing group *)
Lemma group_tokens_ne c start stop ext l l' g :
  group_tokens c start stop ext l = Ok (l', g) -> NEL l ->
  (start < stop \/ exists first, nth_error l start = Some first /\ ext && inst first c = true) ->
  NEL l' /\ ne g.
Proof.
  intros H Hl Hc. pose proof (group_tokens_start _ _ _ _ _ _ _ H) as Hs.
  apply group_tokens_inv in H.
  destruct H as (first & E & [(X & c' & v & kids & -> & Hg & ->) | (X & Hg & ->)]).
  - assert (Hf : ne (Grp c' v kids)).
    { eapply Forall_forall; [exact Hl|]. eapply nth_error_In; eauto. }
    apply ne_grp in Hf. destruct Hf as [Hk1 Hk2].
    assert (G : ne g).
    { subst g. apply ne_mk_grp.
      - intros Hn. apply app_eq_nil in Hn. tauto.
      - apply Forall_app. split; [exact Hk2|]. apply NEL_firstn, NEL_skipn, Hl. }
    split; [|exact G]. apply Forall_app. split; [apply NEL_firstn, Hl|].
    constructor; [exact G | apply NEL_skipn, Hl].
  - assert (Hlt : start < stop).
    { destruct Hc as [Hc | (first' & E' & X')]; [exact Hc|]. congruence. }
    assert (G : ne g).
    { subst g. apply ne_mk_grp.
      - intros Hn. apply (f_equal (@length node)) in Hn. rewrite firstn_length, skipn_length in Hn.
        cbn [length] in Hn. lia.
      - apply NEL_firstn, NEL_skipn, Hl. }
    split; [|exact G]. apply Forall_app. split; [apply NEL_firstn, Hl|].
    constructor; [exact G | apply NEL_skipn, Hl].
Qed.

(* ---- mapM / mapM2 ------------------------------------------------------------------------------ *)
Lemma mapM_total {A B} (f : A -> res B) (R : A -> B -> Prop) (l : list A) :
  Forall (fun k => exists k', f k = Ok k' /\ R k k') l ->
  exists l', mapM f l = Ok l' /\ Forall2 R l l'.
Proof.
  induction 1 as [|k l (k' & Hk & Rk) _ (l' & IH & Rl)]; cbn [mapM].
  - exists []. split; [reflexivity | constructor].
  - rewrite Hk. cbn [bind]. rewrite IH. cbn [bind]. exists (k' :: l'). split; [reflexivity|].
    constructor; assumption.
Qed.

Lemma mapM2_total {A B C} (f : A -> C -> res B) (d : C) (R : A -> B -> Prop) (l : list A) :
  Forall (fun k => forall c, exists k', f k c = Ok k' /\ R k k') l ->
  forall m, exists l', mapM2 f d l m = Ok l' /\ Forall2 R l l'.
Proof.
  induction 1 as [|k l Hk _ IH]; intros m; cbn [mapM2].
  - exists []. split; [reflexivity | constructor].
  - destruct (Hk (match m with c :: _ => c | [] => d end)) as (k' & Ek & Rk).
    rewrite Ek. cbn [bind]. destruct (IH (tl m)) as (l' & El & Rl). rewrite El. cbn [bind].
    exists (k' :: l'). split; [reflexivity|]. constructor; assumption.
Qed.

(* what the per-child recursion of every pass guarantees: leaves are returned unchanged, groups
   stay groups of the same class, (NE) is kept *)
Definition kid_rel (k k' : node) : Prop :=
  (is_group k = false -> k' = k) /\
  (forall c v kids, k = Grp c v kids -> exists kids', k' = Grp c v kids') /\
  (ne k -> ne k') /\
  (NEL (nkids k) -> NEL (nkids k')).

Lemma kid_rel_refl k : kid_rel k k.
Proof.
  split; [auto|]. split; [|auto]. intros c v kids ->. eauto.
Qed.

Lemma kid_rel_NEL l l' : Forall2 kid_rel l l' -> NEL l -> NEL l'.
Proof.
  induction 1 as [|k k' l l' (_ & _ & Hk & _) _ IH]; intros Hl; [constructor|].
  inversion Hl as [|? ? Hk0 Hl0]; subst. constructor; [apply Hk, Hk0 | apply IH, Hl0].
Qed.

Lemma kid_rel_nil l l' : Forall2 kid_rel l l' -> l' = [] -> l = [].
Proof. intros H ->. inversion H. reflexivity. Qed.

Lemma Forall2_length' {A B} (R : A -> B -> Prop) l l' : Forall2 R l l' -> length l = length l'.
Proof. induction 1; cbn [length]; congruence. Qed.

(* ---- the bracket shape --------------------------------------------------------------------------- *)
Definition bok (n : node) : Prop := brk_ok n = true.
(* the invariant of a children list of a node of class c *)
Definition LInv (c : cls) (l : list node) : Prop := Forall bok l /\ shape_if c l = true.

Lemma brk_ok_grp c v kids : bok (Grp c v kids) <-> LInv c kids.
Proof.
  unfold bok, LInv. cbn [brk_ok]. rewrite andb_true_iff, forallb_Forall. tauto.
Qed.

Lemma shape_iff c l : shape c l = true <->
  exists o mid cl, l = o :: mid ++ [cl] /\ matches o (m_open c) = true /\ matches cl (m_close c) = true.
Proof.
  unfold shape. split.
  - destruct l as [|o r]; [discriminate|]. destruct (rev r) as [|cl m'] eqn:E; [discriminate|].
    intros H. apply andb_true_iff in H. exists o, (rev m'), cl.
    split; [|exact H]. f_equal. rewrite <- (rev_involutive r), E. reflexivity.
  - intros (o & mid & cl & -> & H1 & H2). rewrite rev_app_distr. cbn [rev app].
    rewrite H1, H2. reflexivity.
Qed.

Lemma matches_grp' c0 v kids ps : matches (Grp c0 v kids) ps = false.
Proof. unfold matches. induction ps as [|q ps IH]; [reflexivity | exact IH]. Qed.

Lemma matches_leaf n ps : matches n ps = true -> is_group n = false.
Proof. destruct n; [reflexivity | rewrite matches_grp'; discriminate]. Qed.

Lemma brk_open_punct c o : is_brk c = true -> matches o (m_open c) = true ->
  exists v, o = Leaf T_Punctuation v.
Proof.
  intros Hc H. destruct o as [ty v | c0 v kids]; [|rewrite matches_grp' in H; discriminate].
  exists v. destruct c; try discriminate Hc; cbn [m_open matches existsb match_pat fst] in H;
    rewrite orb_false_r in H; apply andb_true_iff in H; destruct H as [H _];
    apply ttype_eqb_eq in H; subst ty; reflexivity.
Qed.

Lemma brk_close_punct c o : is_brk c = true -> matches o (m_close c) = true ->
  exists v, o = Leaf T_Punctuation v.
Proof.
  intros Hc H. destruct o as [ty v | c0 v kids]; [|rewrite matches_grp' in H; discriminate].
  exists v. destruct c; try discriminate Hc; cbn [m_close matches existsb match_pat fst] in H;
    rewrite orb_false_r in H; apply andb_true_iff in H; destruct H as [H _];
    apply ttype_eqb_eq in H; subst ty; reflexivity.
Qed.

(* a bracket list: first and last element are Punctuation leaves, at least two elements *)
Lemma shape_ends c l : is_brk c = true -> shape c l = true ->
  exists vo mid vc, l = Leaf T_Punctuation vo :: mid ++ [Leaf T_Punctuation vc].
Proof.
  intros Hc H. apply shape_iff in H. destruct H as (o & mid & cl & -> & H1 & H2).
  destruct (brk_open_punct _ _ Hc H1) as (vo & ->).
  destruct (brk_close_punct _ _ Hc H2) as (vc & ->). eauto.
Qed.

Lemma nth_error_last_app {A} (o : A) mid cl :
  nth_error (o :: mid ++ [cl]) (length (o :: mid ++ [cl]) - 1) = Some cl.
Proof.
  cbn [length]. rewrite Nat.sub_succ, Nat.sub_0_r. cbn [nth_error].
  destruct mid as [|m mid]; [reflexivity|].
  cbn [app length]. rewrite app_length. cbn [length].
  replace (S (length mid + 1)) with (S (S (length mid))) by lia. cbn [nth_error].
  change (nth_error ((m :: mid) ++ [cl]) (length (m :: mid)) = Some cl). apply nth_error_app_mid.
Qed.

(* replacing an inner slice keeps both ends *)
Lemma splice_ends {A} (o cl : A) mid start stop g :
  1 <= start -> stop < length (o :: mid ++ [cl]) ->
  exists mid', firstn start (o :: mid ++ [cl]) ++ g :: skipn stop (o :: mid ++ [cl])
               = o :: mid' ++ [cl].
Proof.
  intros H1 H2. destruct start as [|s]; [lia|]. cbn [firstn app].
  cbn [length] in H2. rewrite app_length in H2. cbn [length] in H2.
  destruct stop as [|t].
  - cbn [skipn]. exists (firstn s (mid ++ [cl]) ++ g :: o :: mid).
    rewrite <- app_assoc. reflexivity.
  - cbn [skipn]. rewrite skipn_app. replace (t - length mid) with 0 by lia. cbn [skipn].
    exists (firstn s (mid ++ [cl]) ++ g :: skipn t mid). rewrite <- app_assoc. reflexivity.
Qed.

Lemma shape_splice c l start stop g : shape c l = true -> 1 <= start -> stop < length l ->
  shape c (firstn start l ++ g :: skipn stop l) = true.
Proof.
  intros H H1 H2. apply shape_iff in H. destruct H as (o & mid & cl & -> & Ho & Hc).
  destruct (splice_ends o cl mid start stop g H1 H2) as (mid' & ->).
  apply shape_iff. eauto 7.
Qed.

Lemma bok_mk_grp c sub : is_brk c = false -> Forall bok sub -> bok (mk_grp c sub).
Proof.
  intros Hc Hs. apply brk_ok_grp. split; [exact Hs|]. unfold shape_if. rewrite Hc. reflexivity.
Qed.

(* a non-extending group_tokens call of a non-bracket class that stays strictly inside a
   bracket list keeps the invariant *)
Lemma group_tokens_LInv c c' start stop l l' g :
  group_tokens c' start stop false l = Ok (l', g) -> start < stop -> is_brk c' = false ->
  LInv c l -> (is_brk c = true -> 1 <= start /\ stop < length l) -> LInv c l'.
Proof.
  intros H Hlt Hc' [Hb Hs] Hin.
  apply group_tokens_inv in H. destruct H as (first & E & [(X & _) | (_ & Hg & Hl)]); [discriminate|].
  rewrite Nat.max_r in Hl by lia.
  assert (G : bok g). { subst g. apply bok_mk_grp; [exact Hc'|]. apply Forall_firstn, Forall_skipn, Hb. }
  subst l'. split.
  - apply Forall_app. split; [apply Forall_firstn, Hb|]. constructor; [exact G | apply Forall_skipn, Hb].
  - unfold shape_if in *. destruct (is_brk c) eqn:Bc; [|reflexivity].
    destruct (Hin eq_refl) as [Hi1 Hi2]. apply shape_splice; assumption.
Qed.

(* the per-child recursion keeps the ends of a bracket list (they are leaves) *)
Lemma shape_kid_rel c l l' : Forall2 kid_rel l l' -> shape c l = true -> shape c l' = true.
Proof.
  intros HR H. apply shape_iff in H. destruct H as (o & mid & cl & -> & Ho & Hc).
  inversion HR as [|? o' ? r' Ro Rr]; subst.
  apply Forall2_app_inv_l in Rr. destruct Rr as (mid' & r2 & Rm & Rc & ->).
  inversion Rc as [|? cl' ? r3 Rcl Rn]; subst. inversion Rn; subst.
  destruct Ro as (Ro & _). destruct Rcl as (Rcl & _).
  rewrite (Ro (matches_leaf _ _ Ho)), (Rcl (matches_leaf _ _ Hc)).
  apply shape_iff. eauto 7.
Qed.

Lemma shape_if_kid_rel c l l' : Forall2 kid_rel l l' -> shape_if c l = true -> shape_if c l' = true.
Proof. unfold shape_if. destruct (is_brk c); [apply shape_kid_rel | auto]. Qed.
