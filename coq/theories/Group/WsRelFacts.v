(* C11, letter case of keywords, grouping layer: every pass of grouping.group maps trees related by
   [wrelG Rl Rw Rg] to related trees (or fails with the same exception on both).
   Generic part: for any [Rl] that implies equal upper-casings and any [Rg] that relates the texts of
   related child lists.  The callbacks of the `_group` passes are treated once, by induction on the
   callback IR (PassIR.pexpr).  Proofs for CaseRelDefs.v. *)
From SqlModel Require Import Base PyStr Node Inv Passes PassIR CaseDefs CaseRelDefs WsRelDefs Skeleton SkeletonFacts.
From SqlModel Require Import GroupFacts TotalDefs TotalBase DriverTotal Accessors.
From SqlModel.Gen Require Import CaseTabs.
From Coq Require Import ZArith Bool Lia.

(* ================================================================================================ *)
(* 0. result relations                                                                              *)
Lemma rres_bind {A A' B B'} (P : A -> A' -> Prop) (Q : B -> B' -> Prop)
      (a : res A) (a' : res A') (f : A -> res B) (f' : A' -> res B') :
  rres P a a' -> (forall x x', P x x' -> rres Q (f x) (f' x')) -> rres Q (bind a f) (bind a' f').
Proof.
  destruct a as [x|e], a' as [x'|e']; cbn [rres bind]; intros H Hf; try contradiction; auto.
Qed.

Lemma rres_mono {A B} (P Q : A -> B -> Prop) a b :
  (forall x y, P x y -> Q x y) -> rres P a b -> rres Q a b.
Proof. intros HPQ. destruct a, b; cbn [rres]; auto. Qed.

Lemma rres_ok_l {A B} (P : A -> B -> Prop) a b x :
  rres P a b -> a = Ok x -> exists y, b = Ok y /\ P x y.
Proof. intros H ->. destruct b as [y|e]; cbn [rres] in H; [eauto | contradiction]. Qed.

Lemma rres_err_l {A B} (P : A -> B -> Prop) a b e :
  rres P a b -> a = Err e -> b = Err e.
Proof. intros H ->. destruct b as [y|e']; cbn [rres] in H; [contradiction | congruence]. Qed.

Lemma orel_mono {A B} (P Q : A -> B -> Prop) a b :
  (forall x y, P x y -> Q x y) -> orel P a b -> orel Q a b.
Proof. intros HPQ. destruct a, b; cbn [orel]; auto. Qed.

(* ================================================================================================ *)
(* 1. monotonicity, conjunction, the executable version                                             *)
Section NodeInd2.
Variables Rl Rw Rg : text -> text -> Prop.
Variable P : node -> node -> Prop.
Hypothesis HL : forall ty v v', lrel Rl Rw ty v v' -> P (Leaf ty v) (Leaf ty v').
Hypothesis HG : forall c v v' k k', Rg v v' -> Forall2 (wrelG Rl Rw Rg) k k' -> Forall2 P k k' ->
                                    P (Grp c v k) (Grp c v' k').
Fixpoint wrelG_ind' (n n' : node) (H : wrelG Rl Rw Rg n n') {struct H} : P n n' :=
  match H in wrelG _ _ _ a b return P a b with
  | WR_leaf _ _ _ ty v v' Hv => HL ty v v' Hv
  | WR_grp _ _ _ c v v' k k' Hv Hk =>
      HG c v v' k k' Hv Hk
         ((fix go (l l' : list node) (Hl : Forall2 (wrelG Rl Rw Rg) l l') {struct Hl} : Forall2 P l l' :=
             match Hl in Forall2 _ a b return Forall2 P a b with
             | Forall2_nil _ => Forall2_nil P
             | Forall2_cons x y Hxy Hr => Forall2_cons x y (wrelG_ind' x y Hxy) (go _ _ Hr)
             end) k k' Hk)
  end.
End NodeInd2.

(* ================================================================================================ *)
(* 2. the generic development                                                                       *)
Section Generic.
Variables Rl Rw Rg : text -> text -> Prop.
(* what the passes may read of a keyword leaf's value: Token.normalized, and value.upper() compared with a word
   that contains no white space.  Instances: ASCII re-casing (CR: equal upper-casings), and re-casing + any
   spelling of the white space inside a compound keyword (WR: equal after collapsing) *)
Hypothesis HRl : forall v v', Rl v v' ->
  knorm v = knorm v' /\ (forall s, nospace s = true -> text_eqb (upper v) s = text_eqb (upper v') s).
Let HRl_kn : forall v v', Rl v v' -> knorm v = knorm v' := fun v v' H => proj1 (HRl v v' H).
Let HRl_ue : forall v v' s, Rl v v' -> nospace s = true -> text_eqb (upper v) s = text_eqb (upper v') s :=
  fun v v' s H => proj2 (HRl v v' H) s.
(* what the passes may read of a white-space leaf's value: nothing that tells two white-space values apart *)
Hypothesis HRw : forall v v', Rw v v' -> v = v' \/ (wsv v = true /\ wsv v' = true).
Notation R := (wrelG Rl Rw Rg).
Notation LR := (Forall2 (wrelG Rl Rw Rg)).
Hypothesis Hmk : forall k k', LR k k' -> Rg (text_of_list k) (text_of_list k').

Definition cinv (f : node -> bool) : Prop := forall n n', R n n' -> f n = f n'.

(* ---- observations ------------------------------------------------------------------------------- *)
(* a white-space value is none of the words a pattern that passes pat_ws_ok lists *)
Lemma wsv_not_word v s : wsv v = true -> s_not_ws s = true -> text_eqb v s = false.
Proof.
  intros Hv Hs. destruct (text_eqb v s) eqn:E; [|reflexivity]. apply text_eqb_eq in E. subst s. exfalso.
  destruct v as [|c v]; [discriminate|]. cbn [wsv s_not_ws] in *.
  apply existsb_exists in Hs. destruct Hs as (d & Hd & Hn).
  rewrite (proj1 (forallb_forall _ _) Hv d Hd) in Hn. discriminate.
Qed.

Lemma wsv_words v vals : wsv v = true -> forallb s_not_ws vals = true -> existsb (text_eqb v) vals = false.
Proof.
  intros Hv. induction vals as [|s vals IH]; cbn [forallb existsb]; intros H; [reflexivity|].
  apply andb_true_iff in H. destruct H as [Hs H]. rewrite (wsv_not_word v s Hv Hs), (IH H). reflexivity.
Qed.

Lemma match_pat_wsv p ty v v' : pat_ws_ok p = true -> tin ty T_Keyword = false -> tin ty T_Whitespace = true ->
  wsv v = true -> wsv v' = true -> match_pat (Leaf ty v) p = match_pat (Leaf ty v') p.
Proof.
  intros Hp K W H1 H2. cbn [match_pat]. rewrite K.
  destruct (ttype_eqb ty (fst p)) eqn:E; [|reflexivity]. apply ttype_eqb_eq in E. subst ty.
  unfold pat_ws_ok in Hp. rewrite W in Hp. cbn [negb orb] in Hp.
  destruct (snd p) as [vals|]; [|reflexivity]. rewrite (wsv_words v vals H1 Hp), (wsv_words v' vals H2 Hp). reflexivity.
Qed.

Lemma wsv_upper v : wsv v = true -> upper v = v.
Proof.
  intros H. assert (F : forallb (fun c => cmem c space_set) v = true) by (destruct v; [discriminate | exact H]).
  clear H. induction v as [|c v IH]; [reflexivity|]. cbn [forallb] in F. apply andb_true_iff in F. destruct F as [Hc F].
  rewrite upper_cons, (upper_img_space c Hc), (IH F). reflexivity.
Qed.

Lemma nospace_not_ws s : nospace s = true -> s_not_ws s = true.
Proof.
  unfold nospace. destruct s as [|c s]; [reflexivity|]. cbn [s_not_ws existsb]. intros H.
  apply negb_true_iff in H. apply orb_false_iff in H. destruct H as [Hc _]. rewrite Hc. reflexivity.
Qed.

Lemma cinv_match_pat p : pat_ws_ok p = true -> cinv (fun n => match_pat n p).
Proof.
  intros Hp n n' [ty v v' Hv | c v v' k k' Hv Hk]; cbn [match_pat]; [|reflexivity].
  unfold lrel in Hv. destruct (tin ty T_Keyword).
  - rewrite (HRl_kn _ _ Hv). reflexivity.
  - destruct (tin ty T_Whitespace) eqn:W; [|subst v'; reflexivity].
    destruct (HRw _ _ Hv) as [-> | [H1 H2]]; [reflexivity|].
    destruct (ttype_eqb ty (fst p)) eqn:E; [|reflexivity]. apply ttype_eqb_eq in E. subst ty.
    unfold pat_ws_ok in Hp. rewrite W in Hp. cbn [negb orb] in Hp.
    destruct (snd p) as [vals|]; [|reflexivity]. rewrite (wsv_words v vals H1 Hp), (wsv_words v' vals H2 Hp). reflexivity.
Qed.


Lemma cinv_matches ps : forallb pat_ws_ok ps = true -> cinv (fun n => matches n ps).
Proof.
  intros Hps n n' H. unfold matches. induction ps as [|p ps IH]; cbn [existsb]; [reflexivity|].
  cbn [forallb] in Hps. apply andb_true_iff in Hps. destruct Hps as [Hp Hps].
  rewrite (cinv_match_pat p Hp n n' H), (IH Hps). reflexivity.
Qed.

Lemma cinv_tt_in ty : cinv (fun n => tt_in n ty).
Proof. intros n n' [? ? ? ?|? ? ? ? ? ? ?]; reflexivity. Qed.
Lemma cinv_tt_among tys : cinv (fun n => tt_among n tys).
Proof. intros n n' [? ? ? ?|? ? ? ? ? ? ?]; reflexivity. Qed.
Lemma cinv_tt_is ty : cinv (fun n => tt_is n ty).
Proof. intros n n' [? ? ? ?|? ? ? ? ? ? ?]; reflexivity. Qed.
Lemma cinv_is_group : cinv is_group.
Proof. intros n n' [? ? ? ?|? ? ? ? ? ? ?]; reflexivity. Qed.
Lemma cinv_is_ws : cinv is_ws.
Proof. exact (cinv_tt_in T_Whitespace). Qed.
Lemma cinv_is_newline : cinv is_newline.
Proof. exact (cinv_tt_in T_Newline). Qed.
Lemma cinv_is_kw : cinv is_kw.
Proof. exact (cinv_tt_in T_Keyword). Qed.
Lemma cinv_inst c : cinv (fun n => inst n c).
Proof. intros n n' [? ? ? ?|? ? ? ? ? ? ?]; reflexivity. Qed.
Lemma cinv_inst_any cs : cinv (fun n => inst_any n cs).
Proof.
  intros n n' H. unfold inst_any. induction cs as [|c cs IH]; cbn [existsb]; [reflexivity|].
  rewrite (cinv_inst c n n' H), IH. reflexivity.
Qed.
Lemma cinv_tmatch t : cinv (fun n => tmatch n t).
Proof.
  intros n n' H. destruct t as [|ty|tys|tys]; cbn [tmatch].
  - reflexivity.
  - apply (cinv_tt_in ty _ _ H).
  - apply (cinv_tt_among tys _ _ H).
  - induction tys as [|ty tys IH]; cbn [existsb]; [reflexivity|].
    rewrite (cinv_tt_in ty n n' H), IH. reflexivity.
Qed.

Lemma imt_rel o o' i m t : forallb pat_ws_ok m = true -> orel R o o' -> imt o i m t = imt o' i m t.
Proof.
  intros Hm. destruct o as [n|], o' as [n'|]; cbn [orel imt]; intros H; try contradiction; [|reflexivity].
  rewrite (cinv_inst_any i n n' H), (cinv_tmatch t n n' H). f_equal. f_equal.
  exact (cinv_matches m Hm n n' H).
Qed.

Lemma cinv_imt i m t : forallb pat_ws_ok m = true -> cinv (fun n => imt (Some n) i m t).
Proof. intros Hm n n' H. apply imt_rel; [exact Hm | exact H]. Qed.

Lemma cinv_skip_matcher a b : cinv (skip_matcher a b).
Proof.
  intros n n' H. unfold skip_matcher.
  rewrite (cinv_is_ws n n' H), (cinv_imt [CComment] [] (TOne T_Comment) eq_refl n n' H). reflexivity.
Qed.

Lemma m_open_ws_ok c : forallb pat_ws_ok (m_open c) = true.
Proof. destruct c; vm_compute; reflexivity. Qed.
Lemma m_close_ws_ok c : forallb pat_ws_ok (m_close c) = true.
Proof. destruct c; vm_compute; reflexivity. Qed.

(* the only reads of a value: upper-cased on keyword leaves *)
Lemma normalized_kw_rel n n' : R n n' -> is_kw n = true -> normalized n = normalized n'.
Proof.
  intros [ty v v' Hv | c v v' k k' Hv Hk]; cbn [is_kw tt_in normalized]; [|discriminate].
  intros K. unfold lrel in Hv. rewrite K in *. apply HRl_kn, Hv.
Qed.

Lemma leaf_nonkw_eq ty v n' : R (Leaf ty v) n' -> tin ty T_Keyword = false -> tin ty T_Whitespace = false ->
  n' = Leaf ty v.
Proof. intros H K W. inversion H as [ty0 v0 v0' Hv|]; subst. unfold lrel in Hv. rewrite K, W in Hv. subst. reflexivity. Qed.

(* ---- lists --------------------------------------------------------------------------------------- *)
Lemma LR_length l l' : LR l l' -> length l = length l'.
Proof. induction 1; cbn [length]; congruence. Qed.

Lemma LR_firstn k l l' : LR l l' -> LR (firstn k l) (firstn k l').
Proof. intros H; revert k. induction H; intros [|k]; cbn [firstn]; constructor; auto. Qed.

Lemma LR_skipn k l l' : LR l l' -> LR (skipn k l) (skipn k l').
Proof. intros H; revert k. induction H; intros [|k]; cbn [skipn]; auto. Qed.

Lemma LR_app a a' b b' : LR a a' -> LR b b' -> LR (a ++ b) (a' ++ b').
Proof. apply Forall2_app. Qed.

Lemma LR_nth i l l' : LR l l' -> orel R (nth_error l i) (nth_error l' i).
Proof. intros H; revert i. induction H; intros [|i]; cbn [nth_error orel]; auto. Qed.

Lemma LR_set_nth i x x' l l' : R x x' -> LR l l' -> LR (set_nth i x l) (set_nth i x' l').
Proof. intros Hx H; revert i. induction H; intros [|i]; cbn [set_nth]; constructor; auto. Qed.

(* ---- searches ------------------------------------------------------------------------------------ *)
Definition ires : option (nat * node) -> option (nat * node) -> Prop :=
  orel (fun a b => fst a = fst b /\ R (snd a) (snd b)).

Lemma find_from_aux_rel f : cinv f -> forall l l', LR l l' -> forall b,
  ires (find_from_aux f l b) (find_from_aux f l' b).
Proof.
  intros Hf l l' H. induction H as [|x y l l' Hxy _ IH]; intros b; cbn [find_from_aux].
  - exact I.
  - rewrite <- (Hf x y Hxy). destruct (f x); [cbn; auto | apply IH].
Qed.

Lemma find_from_rel f s l l' : cinv f -> LR l l' -> ires (find_from f s l) (find_from f s l').
Proof. intros Hf H. apply find_from_aux_rel; [exact Hf | apply LR_skipn, H]. Qed.

Lemma find_last_aux_rel f : cinv f -> forall l l', LR l l' -> forall b best best',
  ires best best' -> ires (find_last_aux f l b best) (find_last_aux f l' b best').
Proof.
  intros Hf l l' H. induction H as [|x y l l' Hxy _ IH]; intros b best best' Hb; cbn [find_last_aux].
  - exact Hb.
  - apply IH. rewrite <- (Hf x y Hxy). destruct (f x); [cbn; auto | exact Hb].
Qed.

Lemma find_before_rel f s l l' : cinv f -> LR l l' -> ires (find_before f s l) (find_before f s l').
Proof. intros Hf H. apply find_last_aux_rel; [exact Hf | apply LR_firstn, H | exact I]. Qed.

Lemma token_next_rel a b i l l' : LR l l' -> ires (token_next a b i l) (token_next a b i l').
Proof. intros H. apply find_from_rel; [apply cinv_skip_matcher | exact H]. Qed.

Lemma token_prev_rel a b i l l' : LR l l' -> ires (token_prev a b i l) (token_prev a b i l').
Proof. intros H. apply find_before_rel; [apply cinv_skip_matcher | exact H]. Qed.

Lemma next_by_from_rel i m t s l l' : forallb pat_ws_ok m = true ->
  LR l l' -> ires (next_by_from i m t s l) (next_by_from i m t s l').
Proof. intros Hm H. apply find_from_rel; [apply cinv_imt, Hm | exact H]. Qed.

(* destruct a pair of related search results *)
Ltac ires_destruct H :=
  match type of H with
  | ires ?a ?b =>
      let i := fresh "i" in let x := fresh "x" in let j := fresh "j" in let y := fresh "y" in
      let Hi := fresh "Hi" in let Hx := fresh "Hx" in
      destruct a as [[i x]|], b as [[j y]|]; cbn [ires orel fst snd] in H;
      [destruct H as [Hi Hx]; subst j | contradiction | contradiction | clear H]
  end.

(* ---- group_tokens -------------------------------------------------------------------------------- *)
Lemma mk_grp_rel c k k' : LR k k' -> R (mk_grp c k) (mk_grp c k').
Proof. intros H. constructor; [apply Hmk, H | exact H]. Qed.

Definition gtrel (x y : list node * node) : Prop := LR (fst x) (fst y) /\ R (snd x) (snd y).

Lemma group_tokens_rel c start stop ext l l' : LR l l' ->
  rres gtrel (group_tokens c start stop ext l) (group_tokens c start stop ext l').
Proof.
  intros H. unfold group_tokens. pose proof (LR_nth start l l' H) as Hn.
  destruct (nth_error l start) as [first|], (nth_error l' start) as [first'|]; cbn [orel] in Hn;
    try contradiction; [|reflexivity].
  rewrite <- (cinv_inst c first first' Hn).
  destruct (ext && inst first c).
  - cbn [rres]. assert (Hg : R (match first with Grp c' _ kids => mk_grp c' (kids ++ firstn (stop - S start) (skipn (S start) l)) | Leaf _ _ => first end)
                             (match first' with Grp c' _ kids => mk_grp c' (kids ++ firstn (stop - S start) (skipn (S start) l')) | Leaf _ _ => first' end)).
    { destruct Hn as [ty v v' Hv | c0 v v' k k' Hv Hk]; [constructor; exact Hv|].
      apply mk_grp_rel, LR_app; [exact Hk | apply LR_firstn, LR_skipn, H]. }
    split; cbn [fst snd]; [|exact Hg].
    apply LR_app; [apply LR_firstn, H|]. constructor; [exact Hg | apply LR_skipn, H].
  - cbn [rres]. assert (Hg : R (mk_grp c (firstn (stop - start) (skipn start l)))
                             (mk_grp c (firstn (stop - start) (skipn start l')))).
    { apply mk_grp_rel, LR_firstn, LR_skipn, H. }
    split; cbn [fst snd]; [|exact Hg].
    apply LR_app; [apply LR_firstn, H|]. constructor; [exact Hg | apply LR_skipn, H].
Qed.

(* ---- mapM ---------------------------------------------------------------------------------------- *)
Lemma mapM_rel (f : node -> res node) l :
  Forall (fun k => forall k', R k k' -> rres R (f k) (f k')) l ->
  forall l', LR l l' -> rres LR (mapM f l) (mapM f l').
Proof.
  induction 1 as [|x l Hx _ IH]; intros l' H; inversion H as [|x0 y l0 l0' Hxy Hl]; subst; cbn [mapM].
  - constructor.
  - eapply rres_bind; [apply Hx, Hxy|]. intros z z' Hz.
    eapply rres_bind; [apply IH, Hl|]. intros r r' Hr. cbn [rres]. constructor; assumption.
Qed.

Lemma mapM2_rel {C} (g : node -> C -> res node) (d : C) l :
  Forall (fun k => forall k' c, R k k' -> rres R (g k c) (g k' c)) l ->
  forall l', LR l l' -> forall m, rres LR (mapM2 g d l m) (mapM2 g d l' m).
Proof.
  induction 1 as [|x l Hx _ IH]; intros l' H m; inversion H as [|x0 y l0 l0' Hxy Hl]; subst; cbn [mapM2].
  - constructor.
  - eapply rres_bind; [apply Hx, Hxy|]. intros z z' Hz.
    eapply rres_bind; [apply IH, Hl|]. intros r r' Hr. cbn [rres]. constructor; assumption.
Qed.

(* ================================================================================================ *)
(* 3. _group_matching                                                                               *)
Lemma matching_loop_rel c : forall snap snap', LR snap snap' ->
  forall idx live live' opens off, LR live live' ->
  rres (fun a b => LR a b) (matching_loop c snap idx live opens off) (matching_loop c snap' idx live' opens off).
Proof.
  intros snap snap' H. induction H as [|x y snap snap' Hxy _ IH]; intros idx live live' opens off HL;
    cbn [matching_loop].
  - exact HL.
  - destruct (Nat.ltb idx off); [reflexivity|].
    rewrite <- (cinv_is_ws x y Hxy). destruct (is_ws x); [apply IH, HL|].
    rewrite <- (cinv_is_group x y Hxy), <- (cinv_inst c x y Hxy).
    destruct (is_group x && negb (inst x c)); [apply IH, HL|].
    rewrite <- (cinv_matches (m_open c) (m_open_ws_ok c) x y Hxy). destruct (matches x (m_open c)); [apply IH, HL|].
    rewrite <- (cinv_matches (m_close c) (m_close_ws_ok c) x y Hxy). destruct (matches x (m_close c)); [|apply IH, HL].
    destruct opens as [|open_idx opens']; [apply IH, HL|].
    eapply rres_bind; [apply group_tokens_rel, HL|].
    intros [l1 g1] [l1' g1'] [H1 H2]. cbn [fst snd] in *. apply IH, H1.
Qed.

Lemma group_matching_rel c : forall n n', R n n' -> rres R (group_matching c n) (group_matching c n').
Proof.
  induction n as [ty v | c0 v kids IH] using node_ind'; intros n' H.
  - inversion H; subst. cbn [group_matching rres]. exact H.
  - inversion H as [|c1 v1 v' k1 kids' Hv Hk]; subst. cbn [group_matching].
    eapply rres_bind.
    + apply mapM_rel; [|exact Hk]. eapply Forall_impl; [|exact IH]. intros k IHk k' Hkk. cbv beta.
      rewrite <- (cinv_is_group k k' Hkk), <- (cinv_inst c k k' Hkk).
      destruct (is_group k && negb (inst k c)); [apply IHk, Hkk | exact Hkk].
    + intros k1 k1' Hk1. eapply rres_bind; [apply matching_loop_rel; assumption|].
      intros k2 k2' Hk2. cbn [rres]. constructor; assumption.
Qed.

(* ================================================================================================ *)
(* 4. _group                                                                                        *)
Notation srel := (srelG (wrelG Rl Rw Rg)).
Notation pinv := (pinvG (wrelG Rl Rw Rg)).

Lemma group_loop_rel p : pinv p -> forall snap snap', LR snap snap' ->
  forall idx s s', srel s s' -> rres (fun a b => srel a b) (group_loop p snap idx s) (group_loop p snap' idx s').
Proof.
  intros (Hm & Hvp & Hvn & Hpost) snap snap' H.
  induction H as [|x y snap snap' Hxy _ IH]; intros idx s s' Hs; cbn [group_loop].
  - exact Hs.
  - destruct Hs as (HL & Ho & Hp & Hv & Hr). rewrite <- Ho, <- Hp, <- Hr.
    destruct (Z.ltb (Z.of_nat idx - g_off s) 0).
    { apply IH. repeat split; assumption. }
    rewrite <- (cinv_is_ws x y Hxy). destruct (is_ws x).
    { apply IH. repeat split; assumption. }
    set (tidx := Z.to_nat (Z.of_nat idx - g_off s)).
    assert (Hplain : srel {| g_live := g_live s; g_off := g_off s; g_pidx := Some tidx;
                             g_prev := Some x; g_rec := true :: g_rec s |}
                          {| g_live := g_live s'; g_off := g_off s; g_pidx := Some tidx;
                             g_prev := Some y; g_rec := true :: g_rec s |}).
    { repeat split; cbn [g_live g_off g_pidx g_prev g_rec orel]; auto. }
    rewrite <- (Hm x y Hxy). destruct (g_match p x); [|apply IH, Hplain].
    pose proof (token_next_rel true false tidx _ _ HL) as Hnx.
    destruct (g_prev s) as [pv|], (g_prev s') as [pv'|]; cbn [orel] in Hv; try contradiction;
      [|apply IH, Hplain].
    destruct (g_pidx s) as [pidx|]; [|apply IH, Hplain].
    rewrite <- (Hvp pv pv' Hv).
    assert (Hvn' : g_vnext p (match token_next true false tidx (g_live s) with Some (_, n) => Some n | None => None end)
                   = g_vnext p (match token_next true false tidx (g_live s') with Some (_, n) => Some n | None => None end)).
    { apply Hvn. destruct (token_next true false tidx (g_live s)) as [[i a]|],
        (token_next true false tidx (g_live s')) as [[j b]|]; cbn [ires orel fst snd] in *; tauto. }
    rewrite <- Hvn'.
    destruct (g_vprev p pv && g_vnext p _); [|apply IH, Hplain].
    assert (Hni : match token_next true false tidx (g_live s) with Some (i, _) => Some i | None => None end
                  = match token_next true false tidx (g_live s') with Some (i, _) => Some i | None => None end).
    { destruct (token_next true false tidx (g_live s)) as [[i a]|],
        (token_next true false tidx (g_live s')) as [[j b]|]; cbn [ires orel fst snd] in Hnx;
        try contradiction; [destruct Hnx as [-> _]|]; reflexivity. }
    rewrite <- Hni.
    eapply rres_bind; [apply Hpost, HL|].
    intros [[l1 fi] ti] [[l1' fi'] ti'] (H1 & H2 & H3). cbn [fst snd] in *. subst fi' ti'.
    eapply rres_bind; [apply group_tokens_rel, H1|].
    intros [l2 g] [l2' g'] [H4 H5]. cbn [fst snd] in *.
    apply IH. repeat split; cbn [g_live g_off g_pidx g_prev g_rec orel]; auto.
Qed.

Lemma ginit_rel l l' : LR l l' -> srel (ginit l) (ginit l').
Proof. intros H. repeat split; cbn [ginit g_live g_off g_pidx g_prev g_rec orel]; auto. Qed.

Lemma group_driver_rel p : pinv p -> forall n n', R n n' -> rres R (group_driver p n) (group_driver p n').
Proof.
  intros Hp. induction n as [ty v | c0 v kids IH] using node_ind'; intros n' H.
  - inversion H; subst. cbn [group_driver rres]. exact H.
  - inversion H as [|c1 v1 v' k1 kids' Hv Hk]; subst. cbn [group_driver].
    eapply rres_bind; [apply (group_loop_rel p Hp _ _ Hk 0 _ _ (ginit_rel _ _ Hk))|].
    intros dry dry' (_ & _ & _ & _ & Hrec). rewrite <- Hrec.
    eapply rres_bind.
    + apply mapM2_rel; [|exact Hk]. eapply Forall_impl; [|exact IH]. intros k IHk k' f Hkk. cbv beta.
      rewrite <- (cinv_is_group k k' Hkk), <- (cinv_inst (g_cls p) k k' Hkk).
      destruct (f && is_group k && negb (inst k (g_cls p))); [apply IHk, Hkk | exact Hkk].
    + intros k1 k1' Hk1.
      eapply rres_bind; [apply (group_loop_rel p Hp _ _ Hk1 0 _ _ (ginit_rel _ _ Hk1))|].
      intros fin fin' (Hl & _). cbn [rres]. constructor; assumption.
Qed.

Lemma group_driver_flat_rel p : pinv p ->
  forall n n', R n n' -> rres R (group_driver_flat p n) (group_driver_flat p n').
Proof.
  intros Hp n n' H. destruct H as [ty v v' Hv | c v v' k k' Hv Hk]; cbn [group_driver_flat].
  - cbn [rres]. constructor; exact Hv.
  - eapply rres_bind; [apply (group_loop_rel p Hp _ _ Hk 0 _ _ (ginit_rel _ _ Hk))|].
    intros fin fin' (Hl & _). cbn [rres]. constructor; assumption.
Qed.

(* ================================================================================================ *)
(* 5. callbacks, generically on the IR                                                              *)
Lemma geval_sound e c : forall b, geval e c = Some b -> forall v k, eval_tot e (Grp c v k) = b.
Proof.
  induction e as [| | | | |p|ty|tys|ty|cs|i m t| | | | |s|s|s|a IHa|a IHa b0 IHb|a IHa b0 IHb];
    intros b H v k; cbn [geval] in H; try discriminate;
    try (injection H as <-; reflexivity).
  - destruct (geval a c) as [ba|]; [|discriminate]. injection H as <-.
    cbn [eval_tot]. rewrite (IHa ba eq_refl). reflexivity.
  - cbn [eval_tot]. destruct (geval a c) as [[|]|].
    + rewrite (IHa true eq_refl). cbn [andb]. apply IHb, H.
    + injection H as <-. rewrite (IHa false eq_refl). reflexivity.
    + destruct (geval b0 c) as [[|]|]; try discriminate. injection H as <-.
      rewrite (IHb false eq_refl). apply andb_false_r.
  - cbn [eval_tot]. destruct (geval a c) as [[|]|].
    + injection H as <-. rewrite (IHa true eq_refl). reflexivity.
    + rewrite (IHa false eq_refl). cbn [orb]. apply IHb, H.
    + destruct (geval b0 c) as [[|]|]; try discriminate. injection H as <-.
      rewrite (IHb true eq_refl). apply orb_true_r.
Qed.

Lemma In_all_cls c : In c all_cls.
Proof. destruct c; cbn; tauto. Qed.

Lemma leaf_safe_kw e ty v v' : leaf_safe e = true -> tin ty T_Keyword = true -> Rl v v' ->
  eval_tot e (Leaf ty v) = eval_tot e (Leaf ty v').
Proof.
  intros Hs K Hv. pose proof (HRl_kn _ _ Hv) as Hkn.
  induction e as [| | | | |p|ty0|tys|ty0|cs|i m t| | | | |s|s|s|a IHa|a IHa b0 IHb|a IHa b0 IHb];
    cbn [leaf_safe] in Hs; try discriminate; cbn [eval_tot eval_attr_atom]; try reflexivity.
  - (* TokenMatch *) cbn [match_pat]. rewrite K, Hkn. reflexivity.
  - (* Imt *) cbn [imt]. f_equal. f_equal. induction m as [|p m IHm]; cbn [existsb]; [reflexivity|].
    rewrite IHm. f_equal. cbn [match_pat]. rewrite K, Hkn. reflexivity.
  - (* NormalizedEq *) cbn [normalized]. rewrite K, Hkn. reflexivity.
  - (* ValueUpperEq *) cbn [nvalue]. apply HRl_ue; assumption.
  - rewrite IHa by exact Hs. reflexivity.
  - apply andb_true_iff in Hs. destruct Hs as [Ha Hb]. rewrite IHa, IHb by assumption. reflexivity.
  - apply andb_true_iff in Hs. destruct Hs as [Ha Hb]. rewrite IHa, IHb by assumption. reflexivity.
Qed.

Lemma leaf_safe_wsl e ty v v' : leaf_safe_ws e = true -> tin ty T_Keyword = false -> tin ty T_Whitespace = true ->
  wsv v = true -> wsv v' = true -> eval_tot e (Leaf ty v) = eval_tot e (Leaf ty v').
Proof.
  intros Hs K W H1 H2.
  induction e as [| | | | |p|ty0|tys|ty0|cs|i m t| | | | |s|s|s|a IHa|a IHa b0 IHb|a IHa b0 IHb];
    cbn [leaf_safe_ws] in Hs; cbn [eval_tot eval_attr_atom]; try reflexivity.
  - (* TokenMatch *) apply match_pat_wsv; assumption.
  - (* Imt *) cbn [imt]. f_equal. f_equal. induction m as [|p m IHm]; cbn [existsb]; [reflexivity|].
    cbn [forallb] in Hs. apply andb_true_iff in Hs. destruct Hs as [Hp Hs].
    rewrite (IHm Hs). f_equal. apply match_pat_wsv; assumption.
  - (* NormalizedEq *) cbn [normalized]. rewrite K, (wsv_not_word v s H1 Hs), (wsv_not_word v' s H2 Hs). reflexivity.
  - (* ValueEq *) cbn [nvalue]. rewrite (wsv_not_word v s H1 Hs), (wsv_not_word v' s H2 Hs). reflexivity.
  - (* ValueUpperEq *) cbn [nvalue]. rewrite (wsv_upper v H1), (wsv_upper v' H2).
    rewrite (wsv_not_word v s H1 (nospace_not_ws s Hs)), (wsv_not_word v' s H2 (nospace_not_ws s Hs)). reflexivity.
  - rewrite IHa by exact Hs. reflexivity.
  - apply andb_true_iff in Hs. destruct Hs as [Ha Hb]. rewrite IHa, IHb by assumption. reflexivity.
  - apply andb_true_iff in Hs. destruct Hs as [Ha Hb]. rewrite IHa, IHb by assumption. reflexivity.
Qed.

Lemma case_safe_tot e : case_safe_w e = true -> cinv (eval_tot e).
Proof.
  unfold case_safe_w, case_safe. intros H. apply andb_true_iff in H. destruct H as [H Hw].
  apply andb_true_iff in H. destruct H as [Hl Hg].
  intros n n' [ty v v' Hv | c v v' k k' Hv Hk].
  - unfold lrel in Hv. destruct (tin ty T_Keyword) eqn:K; [apply leaf_safe_kw; assumption|].
    destruct (tin ty T_Whitespace) eqn:W; [|subst; reflexivity].
    destruct (HRw _ _ Hv) as [-> | [H1 H2]]; [reflexivity | apply leaf_safe_wsl; assumption].
  - pose proof (proj1 (forallb_forall _ _) Hg c (In_all_cls c)) as Hc. cbv beta in Hc.
    destruct (geval e c) as [b|] eqn:E; [|discriminate].
    rewrite (geval_sound e c b E v k), (geval_sound e c b E v' k'). reflexivity.
Qed.

Lemma eval_px_some' e n : eval_px e (Some n) = Some (eval_tot e n).
Proof.
  induction e; cbn [eval_px eval_tot]; try reflexivity.
  - rewrite IHe. reflexivity.
  - rewrite IHe1. destruct (eval_tot e1 n); [exact IHe2 | reflexivity].
  - rewrite IHe1. destruct (eval_tot e1 n); [reflexivity | exact IHe2].
Qed.

(* THE callback lemma: a case-safe expression has the same value (or raises alike) on related tokens *)
Theorem case_safe_px e : case_safe_w e = true ->
  forall t t', orel R t t' -> eval_px e t = eval_px e t'.
Proof.
  intros H [n|] [n'|] Ht; cbn [orel] in Ht; try contradiction; [|reflexivity].
  rewrite !eval_px_some', (case_safe_tot e H n n' Ht). reflexivity.
Qed.

Lemma case_safe_pexpr e : case_safe_w e = true ->
  forall t t', orel R t t' -> eval_pexpr e t = eval_pexpr e t'.
Proof. intros H t t' Ht. unfold eval_pexpr. rewrite (case_safe_px e H t t' Ht). reflexivity. Qed.

Notation postrel :=
  (fun x y : list node * nat * nat =>
     LR (fst (fst x)) (fst (fst y)) /\ snd (fst x) = snd (fst y) /\ snd x = snd y).

Lemma ret_pair_rel l l' a b pi ti ni : LR l l' ->
  rres postrel (ret_pair l a b pi ti ni) (ret_pair l' a b pi ti ni).
Proof.
  intros H. unfold ret_pair.
  destruct (get_ix a pi ti ni), (get_ix b pi ti ni); cbn [rres fst snd]; auto.
Qed.

Lemma post_case_safe_rel po : post_case_safe_w po = true -> forall l l' pi ti ni, LR l l' ->
  rres postrel (eval_ppost po l pi ti ni) (eval_ppost po l' pi ti ni).
Proof.
  intros Hs l l' pi ti ni H. destruct po as [a b | c a b a' b' | m a b | ty a b]; cbn [post_case_safe_w] in Hs;
    try discriminate; cbn [eval_ppost].
  - apply ret_pair_rel, H.
  - assert (E : eval_pexpr c (match ni with Some i => nth_error l i | None => None end)
              = eval_pexpr c (match ni with Some i => nth_error l' i | None => None end)).
    { apply case_safe_pexpr; [exact Hs|]. destruct ni as [i|]; [apply LR_nth, H | exact I]. }
    rewrite <- E. destruct (eval_pexpr c _); apply ret_pair_rel, H.
  - destruct ni as [n|]; [|reflexivity].
    pose proof (next_by_from_rel [] m TNone (S n) l l' Hs H) as Hn.
    destruct (next_by_from [] m TNone (S n) l) as [[i x]|], (next_by_from [] m TNone (S n) l') as [[j y]|];
      cbn [ires orel fst snd] in Hn; try contradiction; [destruct Hn as [-> _]|]; apply ret_pair_rel, H.
Qed.

(* a `_group` call whose four callbacks are case safe *)
Theorem pinv_gparams_of c m vp vn po ext :
  case_safe_w m = true -> case_safe_w vp = true -> case_safe_w vn = true -> post_case_safe_w po = true ->
  pinv (gparams_of c m vp vn po ext).
Proof.
  intros H1 H2 H3 H4. unfold pinvG, gparams_of. cbn [g_match g_vprev g_vnext g_post].
  split; [intros n n' H; apply case_safe_pexpr; [exact H1 | exact H]|].
  split; [intros n n' H; apply case_safe_pexpr; [exact H2 | exact H]|].
  split; [intros o o' H; apply case_safe_pexpr; [exact H3 | exact H]|].
  intros l l' pi ti ni H. apply post_case_safe_rel; assumption.
Qed.

(* ================================================================================================ *)
(* 6. the @recurse wrapper and the scanning loops                                                   *)
Definition frel (f : cls -> list node -> res (list node)) : Prop :=
  forall c l l', LR l l' -> rres (fun a b => LR a b) (f c l) (f c l').

Lemma recurse_pass_rel skip f : frel f ->
  forall n n', R n n' -> rres R (recurse_pass skip f n) (recurse_pass skip f n').
Proof.
  intros Hf. induction n as [ty v | c0 v kids IH] using node_ind'; intros n' H.
  - inversion H; subst. cbn [recurse_pass rres]. exact H.
  - inversion H as [|c1 v1 v' k1 kids' Hv Hk]; subst. cbn [recurse_pass].
    eapply rres_bind.
    + apply mapM_rel; [|exact Hk]. eapply Forall_impl; [|exact IH]. intros k IHk k' Hkk. cbv beta.
      rewrite <- (cinv_is_group k k' Hkk), <- (cinv_inst_any skip k k' Hkk).
      destruct (is_group k && negb (inst_any k skip)); [apply IHk, Hkk | exact Hkk].
    + intros k1 k1' Hk1. eapply rres_bind; [apply Hf, Hk1|].
      intros k2 k2' Hk2. cbn [rres]. constructor; assumption.
Qed.

Lemma top_only_rel f : frel f -> forall n n', R n n' -> rres R (top_only f n) (top_only f n').
Proof.
  intros Hf n n' [ty v v' Hv | c v v' k k' Hv Hk]; cbn [top_only].
  - cbn [rres]. constructor; exact Hv.
  - eapply rres_bind; [apply Hf, Hk|]. intros k2 k2' Hk2. cbn [rres]. constructor; assumption.
Qed.

Definition find_ok (find : nat -> list node -> option (nat * node)) : Prop :=
  forall s l l', LR l l' -> ires (find s l) (find s l').
Definition body_ok (body : nat -> node -> list node -> res (list node * nat)) : Prop :=
  forall i x x' l l', R x x' -> LR l l' ->
    rres (fun a b => LR (fst a) (fst b) /\ snd a = snd b) (body i x l) (body i x' l').

Lemma scan_loop_rel find body : find_ok find -> body_ok body ->
  forall fuel s l l', LR l l' ->
  rres (fun a b => LR a b) (scan_loop find body fuel s l) (scan_loop find body fuel s l').
Proof.
  intros Hf Hb. induction fuel as [|fuel IH]; intros s l l' H; cbn [scan_loop]; [reflexivity|].
  pose proof (Hf s l l' H) as Hn.
  destruct (find s l) as [[i x]|], (find s l') as [[j y]|]; cbn [ires orel fst snd] in Hn;
    try contradiction; [|exact H].
  destruct Hn as [<- Hxy].
  eapply rres_bind; [apply Hb; eassumption|].
  intros [l1 c1] [l1' c1'] [H1 H2]. cbn [fst snd] in *. subst c1'. apply IH, H1.
Qed.

Lemma scan_rel find body : find_ok find -> body_ok body ->
  forall l l', LR l l' -> rres (fun a b => LR a b) (scan find body l) (scan find body l').
Proof.
  intros Hf Hb l l' H. unfold scan. rewrite <- (LR_length l l' H). apply scan_loop_rel; assumption.
Qed.

Lemma find_ok_next_by i m t : forallb pat_ws_ok m = true -> find_ok (next_by_from i m t).
Proof. intros Hm s l l' H. apply next_by_from_rel; [exact Hm | exact H]. Qed.

(* the common tail of the bodies: group and continue at a given index *)
Lemma group_then c a b ext cont l l' : LR l l' ->
  rres (fun x y : list node * nat => LR (fst x) (fst y) /\ snd x = snd y)
       ('(l1, _) <- group_tokens c a b ext l ;; Ok (l1, cont))
       ('(l1, _) <- group_tokens c a b ext l' ;; Ok (l1, cont)).
Proof.
  intros H. eapply rres_bind; [apply group_tokens_rel, H|].
  intros [l1 g] [l1' g'] [H1 _]. cbn [rres fst snd] in *. auto.
Qed.

Lemma keep_rel (cont : nat) l l' : LR l l' ->
  rres (fun x y : list node * nat => LR (fst x) (fst y) /\ snd x = snd y) (Ok (l, cont)) (Ok (l', cont)).
Proof. intros H. cbn [rres fst snd]. auto. Qed.

(* ---- group_comments ------------------------------------------------------------------------------ *)
Lemma f_comments_rel t1 cls1 : frel (f_comments_of t1 cls1).
Proof.
  intros c l l' H. unfold f_comments_of. apply scan_rel; [apply find_ok_next_by; (reflexivity || assumption) | | exact H].
  intros i x x' m m' _ Hm.
  assert (Hq : cinv (fun tk => negb (imt (Some tk) [] [] t1 || is_newline tk))).
  { intros n n' Hn. rewrite (cinv_imt [] [] t1 eq_refl n n' Hn), (cinv_is_newline n n' Hn). reflexivity. }
  pose proof (find_from_rel _ i m m' Hq Hm) as Hn.
  destruct (find_from _ i m) as [[e a]|], (find_from _ i m') as [[e' a']|]; cbn [ires orel fst snd] in Hn;
    try contradiction; [|apply keep_rel, Hm].
  destruct Hn as [<- _]. destruct e as [|e1]; [reflexivity|]. apply group_then, Hm.
Qed.

(* ---- group_over ---------------------------------------------------------------------------------- *)
Lemma f_over_rel m1 i1 t1 cls1 : forallb pat_ws_ok m1 = true -> frel (f_over_of m1 i1 t1 cls1).
Proof.
  intros Hm1 c l l' H. unfold f_over_of. apply scan_rel; [apply find_ok_next_by; (reflexivity || assumption) | | exact H].
  intros i x x' m m' _ Hm.
  pose proof (token_next_rel true false i m m' Hm) as Hn.
  destruct (token_next true false i m) as [[e a]|], (token_next true false i m') as [[e' a']|];
    cbn [ires orel fst snd] in Hn; try contradiction; [|apply keep_rel, Hm].
  destruct Hn as [<- Ha]. rewrite <- (cinv_imt i1 [] t1 eq_refl a a' Ha).
  destruct (imt (Some a) i1 [] t1); [apply group_then, Hm | apply keep_rel, Hm].
Qed.

(* ---- group_functions -----------------------------------------------------------------------------------
   needs: related nodes agree on `value.upper() == s` (true when Rg implies equal upper-casings); the third
   test was `value == 'AS'` (case-sensitive, finding C11-as-case) until the fix in /repo made it
   `value.upper() == 'AS'` like the other two *)
Definition vinv (q : text -> bool) : Prop := forall n n', R n n' -> q (nvalue n) = q (nvalue n').

Lemma existsb_vinv q l l' : vinv q -> LR l l' ->
  existsb (fun tk => q (nvalue tk)) l = existsb (fun tk => q (nvalue tk)) l'.
Proof.
  intros Hq H. induction H as [|x y l l' Hxy _ IH]; cbn [existsb]; [reflexivity|].
  rewrite (Hq x y Hxy), IH. reflexivity.
Qed.

Lemma f_functions_rel s1 s2 s3 t1 isa1 isa2 cls1 :
  vinv (fun v => text_eqb (upper v) s1) -> vinv (fun v => text_eqb (upper v) s2) ->
  vinv (fun v => text_eqb (upper v) s3) ->
  frel (f_functions_of s1 s2 s3 t1 isa1 isa2 cls1).
Proof.
  intros V1 V2 V3 c l l' H. unfold f_functions_of.
  rewrite <- (existsb_vinv _ l l' V1 H), <- (existsb_vinv _ l l' V2 H), <- (existsb_vinv _ l l' V3 H).
  destruct (_ && _ && negb _); [exact H|].
  apply scan_rel; [apply find_ok_next_by; (reflexivity || assumption) | | exact H].
  intros i x x' m m' _ Hm.
  pose proof (token_next_rel true false i m m' Hm) as Hn.
  destruct (token_next true false i m) as [[e a]|], (token_next true false i m') as [[e' a']|];
    cbn [ires orel fst snd] in Hn; try contradiction; [|apply keep_rel, Hm].
  destruct Hn as [<- Ha]. rewrite <- (cinv_inst isa1 a a' Ha).
  destruct (inst a isa1); [|apply keep_rel, Hm].
  pose proof (token_next_rel true false e m m' Hm) as Hn2.
  assert (E : match token_next true false e m with
              | Some (oidx, over) => if inst over isa2 then oidx else e | None => e end
            = match token_next true false e m' with
              | Some (oidx, over) => if inst over isa2 then oidx else e | None => e end).
  { destruct (token_next true false e m) as [[o b]|], (token_next true false e m') as [[o' b']|];
      cbn [ires orel fst snd] in Hn2; try contradiction; [|reflexivity].
    destruct Hn2 as [<- Hb]. rewrite <- (cinv_inst isa2 b b' Hb). reflexivity. }
  rewrite <- E. apply group_then, Hm.
Qed.

(* ---- group_where --------------------------------------------------------------------------------- *)
Lemma f_where_rel m1 m2 cls1 : forallb pat_ws_ok m1 = true -> forallb pat_ws_ok m2 = true -> frel (f_where_of m1 m2 cls1).
Proof.
  intros Hm1 Hm2 c l l' H. unfold f_where_of. apply scan_rel; [apply find_ok_next_by; (reflexivity || assumption) | | exact H].
  intros i x x' m m' _ Hm.
  eapply rres_bind with (P := @eq nat).
  - pose proof (next_by_from_rel [] m2 TNone (S i) m m' Hm2 Hm) as Hn.
    destruct (next_by_from [] m2 TNone (S i) m) as [[e a]|], (next_by_from [] m2 TNone (S i) m') as [[e' a']|];
      cbn [ires orel fst snd] in Hn; try contradiction.
    + destruct Hn as [<- _]. destruct e; reflexivity.
    + unfold groupable_last_index. rewrite <- (LR_length m m' Hm).
      destruct c; try (destruct (Nat.leb (length m) 2); reflexivity);
        (destruct Hm; [reflexivity | cbn [rres length]; reflexivity]).
  - intros e e' <-. apply group_then, Hm.
Qed.

(* ---- group_identifier ---------------------------------------------------------------------------- *)
Lemma f_identifier_rel t1 cls1 : frel (f_identifier_of t1 cls1).
Proof.
  intros c l l' H. unfold f_identifier_of. apply scan_rel; [apply find_ok_next_by; (reflexivity || assumption) | | exact H].
  intros i x x' m m' _ Hm. apply group_then, Hm.
Qed.

(* ---- group_order --------------------------------------------------------------------------------- *)
Lemma f_order_rel t1 i1 t2 cls1 : frel (f_order_of t1 i1 t2 cls1).
Proof.
  intros c l l' H. unfold f_order_of. apply scan_rel; [apply find_ok_next_by; (reflexivity || assumption) | | exact H].
  intros i x x' m m' _ Hm.
  pose proof (token_prev_rel true false i m m' Hm) as Hn.
  destruct (token_prev true false i m) as [[e a]|], (token_prev true false i m') as [[e' a']|];
    cbn [ires orel fst snd] in Hn; try contradiction; [|apply keep_rel, Hm].
  destruct Hn as [<- Ha]. rewrite <- (cinv_imt i1 [] t2 eq_refl a a' Ha).
  destruct (imt (Some a) i1 [] t2); [apply group_then, Hm | apply keep_rel, Hm].
Qed.

(* ---- group_aliased ------------------------------------------------------------------------------- *)
Lemma f_aliased_rel i1 t1 isa1 cls1 ext1 : frel (f_aliased_of i1 t1 isa1 cls1 ext1).
Proof.
  intros c l l' H. unfold f_aliased_of. apply scan_rel; [apply find_ok_next_by; (reflexivity || assumption) | | exact H].
  intros i x x' m m' _ Hm.
  pose proof (token_next_rel true false i m m' Hm) as Hn.
  destruct (token_next true false i m) as [[e a]|], (token_next true false i m') as [[e' a']|];
    cbn [ires orel fst snd] in Hn; try contradiction; [|apply keep_rel, Hm].
  destruct Hn as [<- Ha]. rewrite <- (cinv_inst isa1 a a' Ha).
  destruct (inst a isa1); [apply group_then, Hm | apply keep_rel, Hm].
Qed.

(* ---- align_comments ------------------------------------------------------------------------------ *)
Lemma f_align_comments_rel i1 isa1 cls1 ext1 : frel (f_align_comments_of i1 isa1 cls1 ext1).
Proof.
  intros c l l' H. unfold f_align_comments_of. apply scan_rel; [apply find_ok_next_by; (reflexivity || assumption) | | exact H].
  intros i x x' m m' _ Hm.
  pose proof (token_prev_rel true false i m m' Hm) as Hn.
  destruct (token_prev true false i m) as [[e a]|], (token_prev true false i m') as [[e' a']|];
    cbn [ires orel fst snd] in Hn; try contradiction; [|apply keep_rel, Hm].
  destruct Hn as [<- Ha]. rewrite <- (cinv_inst isa1 a a' Ha).
  destruct (inst a isa1); [apply group_then, Hm | apply keep_rel, Hm].
Qed.

(* ---- group_values -------------------------------------------------------------------------------- *)
Lemma values_scan_rel isa1 l l' : LR l l' -> forall fuel tidx token token' e, R token token' ->
  values_scan_of isa1 fuel tidx token e l = values_scan_of isa1 fuel tidx token' e l'.
Proof.
  intros H. induction fuel as [|fuel IH]; intros tidx token token' e Ht; cbn [values_scan_of]; [reflexivity|].
  rewrite <- (cinv_inst isa1 token token' Ht).
  pose proof (token_next_rel true false tidx l l' H) as Hn.
  destruct (token_next true false tidx l) as [[i a]|], (token_next true false tidx l') as [[j b]|];
    cbn [ires orel fst snd] in Hn; try contradiction; [|reflexivity].
  destruct Hn as [<- Ha]. apply IH, Ha.
Qed.

Lemma group_values_rel m1 isa1 cls1 ext1 : forallb pat_ws_ok m1 = true -> forall n n', R n n' ->
  rres R (group_values_of m1 isa1 cls1 ext1 n) (group_values_of m1 isa1 cls1 ext1 n').
Proof.
  intros Hm1 n n' H. pose proof H as H0.
  destruct H as [ty v v' Hv | c v v' k k' Hv Hk]; cbn [group_values_of]; [exact H0|].
  pose proof (next_by_from_rel [] m1 TNone 0 k k' Hm1 Hk) as Hn.
  destruct (next_by_from [] m1 TNone 0 k) as [[i a]|], (next_by_from [] m1 TNone 0 k') as [[j b]|];
    cbn [ires orel fst snd] in Hn; try contradiction; [|exact H0].
  destruct Hn as [<- Ha].
  rewrite <- (LR_length k k' Hk), <- (values_scan_rel isa1 k k' Hk _ i a b None Ha).
  destruct (values_scan_of isa1 (S (length k)) i a None k) as [[e|]|er]; cbn [bind]; [|exact H0|reflexivity].
  eapply rres_bind; [apply group_tokens_rel, Hk|].
  intros [l1 g] [l1' g'] [H1 _]. cbn [rres fst snd] in *. constructor; assumption.
Qed.

(* ================================================================================================ *)
(* 7. sequences of passes                                                                           *)
Definition prel (f : node -> res node) : Prop := forall n n', R n n' -> rres R (f n) (f n').

Lemma run_passes_rel ps : Forall prel ps -> prel (run_passes ps).
Proof.
  induction 1 as [|p ps Hp _ IH]; intros n n' H; cbn [run_passes]; [exact H|].
  eapply rres_bind; [apply Hp, H|]. intros m m' Hm. apply IH, Hm.
Qed.

Lemma prel_ext f g : (forall n, f n = g n) -> prel f -> prel g.
Proof. intros E H n n' Hn. rewrite <- !E. apply H, Hn. Qed.

Lemma pinv_ext p q : (forall n, g_match p n = g_match q n) -> (forall n, g_vprev p n = g_vprev q n) ->
  (forall o, g_vnext p o = g_vnext q o) -> (forall l pi ti ni, g_post p l pi ti ni = g_post q l pi ti ni) ->
  pinv p -> pinv q.
Proof.
  intros E1 E2 E3 E4 (H1 & H2 & H3 & H4). unfold pinvG.
  split; [intros n n' H; rewrite <- !E1; auto|].
  split; [intros n n' H; rewrite <- !E2; auto|].
  split; [intros n n' H; rewrite <- !E3; auto|].
  intros l l' pi ti ni H. rewrite <- !E4. auto.
Qed.

(* ---- group_operator: the guarded record is invariant ----------------------------------------------- *)
Lemma retype_operator_rel tk tk' : R tk tk' ->
  imt (Some tk) [] [] (TMany [T_Operator; T_Wildcard]) = true ->
  R (retype_operator tk) (retype_operator tk').
Proof.
  intros [ty v v' Hv | c v v' k k' Hv Hk] M; [|discriminate].
  cbn [imt inst_any existsb orb tmatch tt_among] in M. rewrite orb_false_r in M.
  assert (K : tin ty T_Keyword = false /\ tin ty T_Whitespace = false).
  { apply orb_true_iff in M. destruct M as [M | M]; apply ttype_eqb_eq in M; subst ty; split; reflexivity. }
  destruct K as [K W]. unfold lrel in Hv. rewrite K, W in Hv. subst v'. cbn [retype_operator]. constructor. reflexivity.
Qed.

Lemma pinv_operator_safe : pinv p_operator_safe.
Proof.
  unfold pinvG, p_operator_safe. cbn [g_match g_vprev g_vnext g_post p_operator].
  assert (Hvo : forall o o', orel R o o' -> valid_operand o = valid_operand o').
  { intros o o' H. unfold valid_operand. rewrite (imt_rel o o' _ [] _ eq_refl H). f_equal.
    destruct o as [n|], o' as [n'|]; cbn [orel some_node] in *; try contradiction; [|reflexivity].
    apply (cinv_match_pat (T_Keyword, Some [s_CURRENT_DATE; s_CURRENT_TIME; s_CURRENT_TIMESTAMP]) eq_refl n n' H). }
  split; [intros n n' H; apply (cinv_imt _ [] _ eq_refl n n' H)|].
  split; [intros n n' H; apply Hvo; exact H|].
  split; [exact Hvo|].
  intros l l' pi ti ni H. pose proof (LR_nth ti l l' H) as Hn.
  destruct (nth_error l ti) as [tk|], (nth_error l' ti) as [tk'|]; cbn [orel] in Hn; try contradiction;
    [|reflexivity].
  destruct ni as [ni|]; [|reflexivity].
  rewrite <- (cinv_is_group tk tk' Hn). destruct (is_group tk); [reflexivity|].
  rewrite <- (cinv_imt [] [] (TMany [T_Operator; T_Wildcard]) eq_refl tk tk' Hn).
  destruct (imt (Some tk) [] [] (TMany [T_Operator; T_Wildcard])) eqn:M; [|reflexivity].
  cbn [rres fst snd]. split; [|auto]. apply LR_set_nth; [|exact H]. apply retype_operator_rel; assumption.
Qed.

(* ---- Statement.get_type: the same on related statements --------------------------------------------- *)
Lemma cte_loop_rel kids kids' : LR kids kids' -> forall fuel tidx,
  cte_loop fuel tidx kids = cte_loop fuel tidx kids'.
Proof.
  intros H. induction fuel as [|fuel IH]; intros tidx; cbn [cte_loop]; [reflexivity|].
  pose proof (token_next_rel true false tidx kids kids' H) as Hn.
  destruct (token_next true false tidx kids) as [[i a]|], (token_next true false tidx kids') as [[j b]|];
    cbn [ires orel fst snd] in Hn; try contradiction; [|reflexivity].
  destruct Hn as [<- Ha]. rewrite <- (cinv_inst_any [CIdentifier; CIdentifierList] a b Ha).
  destruct (inst_any a [CIdentifier; CIdentifierList]); [|apply IH].
  pose proof (token_next_rel true false i kids kids' H) as Hn2.
  destruct (token_next true false i kids) as [[i2 a2]|], (token_next true false i kids') as [[j2 b2]|];
    cbn [ires orel fst snd] in Hn2; try contradiction; [|reflexivity].
  destruct Hn2 as [<- Ha2]. rewrite <- (cinv_tt_is T_DML a2 b2 Ha2).
  destruct (tt_is a2 T_DML) eqn:D; [|apply IH].
  f_equal. apply normalized_kw_rel; [exact Ha2|].
  destruct a2 as [ty v|]; [|discriminate]. cbn [tt_is is_kw tt_in] in *. apply ttype_eqb_eq in D.
  subst ty. reflexivity.
Qed.

Lemma get_type_rel n n' : R n n' -> get_type n = get_type n'.
Proof.
  intros [ty v v' Hv | c v v' k k' Hv Hk]; cbn [get_type]; [reflexivity|].
  unfold get_type_kids.
  pose proof (find_from_rel (skip_matcher true true) 0 k k' (cinv_skip_matcher true true) Hk) as Hn.
  destruct (find_from (skip_matcher true true) 0 k) as [[i a]|],
    (find_from (skip_matcher true true) 0 k') as [[j b]|]; cbn [ires orel fst snd] in Hn;
    try contradiction; [|reflexivity].
  destruct Hn as [<- Ha]. rewrite <- (cinv_tt_among [T_DML; T_DDL] a b Ha).
  destruct (tt_among a [T_DML; T_DDL]) eqn:D.
  - f_equal. apply normalized_kw_rel; [exact Ha|].
    destruct a as [ty v0|]; [|discriminate]. cbn [tt_among existsb is_kw tt_in] in *.
    rewrite orb_false_r in D. apply orb_true_iff in D.
    destruct D as [D | D]; apply ttype_eqb_eq in D; subst ty; reflexivity.
  - rewrite <- (cinv_tt_is T_CTE a b Ha). destruct (tt_is a T_CTE); [|reflexivity].
    rewrite <- (LR_length k k' Hk). apply cte_loop_rel, Hk.
Qed.

(* ---- the fresh statement built from a token list --------------------------------------------------- *)
Lemma statement_of_rel l l' : Forall2 (tok_relW Rl Rw) l l' -> R (statement_of l) (statement_of l').
Proof.
  intros H. unfold statement_of. apply mk_grp_rel.
  induction H as [|a b l l' [Hty Hv] _ IH]; cbn [map]; constructor; [|exact IH].
  destruct a as [ty v], b as [ty' v']. cbn [fst snd] in *. subst ty'. constructor. exact Hv.
Qed.

End Generic.

(* ---- the leaves of related trees -------------------------------------------------------------------- *)
Lemma leaves_rel (Rl Rw Rg : text -> text -> Prop) : forall n n', wrelG Rl Rw Rg n n' ->
  Forall2 (tok_relW Rl Rw) (leaves n) (leaves n').
Proof.
  apply wrelG_ind'.
  - intros ty v v' Hv. cbn [leaves]. constructor; [|constructor]. split; [reflexivity | exact Hv].
  - intros c v v' k k' _ _ IH. cbn [leaves].
    induction IH as [|x y l l' Hxy _ IHl]; cbn [flat_map]; [constructor|]. apply Forall2_app; assumption.
Qed.

Lemma leaves_list_rel (Rl Rw Rg : text -> text -> Prop) l l' : Forall2 (wrelG Rl Rw Rg) l l' ->
  Forall2 (tok_relW Rl Rw) (leaves_list l) (leaves_list l').
Proof.
  unfold leaves_list. induction 1 as [|x y l l' Hxy _ IH]; cbn [flat_map]; [constructor|].
  apply Forall2_app; [eapply leaves_rel; eassumption | exact IH].
Qed.

(* ================================================================================================ *)
(* 8. group_operator re-types the token it has matched: inside the loop the guarded record computes  *)
(*    the same (invariant [linv] of Group/DriverTotal.v)                                              *)
Lemma operator_post_eq l pidx tidx nidx token :
  nth_error l tidx = Some token -> g_match p_operator token = true ->
  g_post p_operator l pidx tidx nidx = g_post p_operator_safe l pidx tidx nidx.
Proof.
  intros E M. cbn [g_post p_operator p_operator_safe]. rewrite E. destruct nidx as [ni|]; [|reflexivity].
  destruct (is_group token); [reflexivity|]. rewrite M. reflexivity.
Qed.

Lemma operator_loop_eq : forall snap idx s, linv p_operator snap idx s ->
  group_loop p_operator snap idx s = group_loop p_operator_safe snap idx s.
Proof.
  induction snap as [|token snap IH]; intros idx s HI; cbn [group_loop]; [reflexivity|].
  change (g_match p_operator_safe) with (g_match p_operator).
  change (g_vprev p_operator_safe) with (g_vprev p_operator).
  change (g_vnext p_operator_safe) with (g_vnext p_operator).
  change (g_cls p_operator_safe) with (g_cls p_operator).
  change (g_extend p_operator_safe) with (g_extend p_operator).
  destruct (Z.ltb (Z.of_nat idx - g_off s) 0) eqn:Hneg.
  { apply Z.ltb_lt in Hneg. apply IH.
    eapply linv_skip; [exact HI | left; exact Hneg | reflexivity | reflexivity | reflexivity]. }
  apply Z.ltb_ge in Hneg.
  destruct (is_ws token) eqn:Hws.
  { apply IH. eapply linv_skip; [exact HI | right; exact Hws | reflexivity | reflexivity | reflexivity]. }
  destruct (linv_nonws _ _ _ _ _ HI Hws) as (A & HL & HZ & HP & Hsy).
  assert (HA : 1 <= length A) by lia.
  assert (Ht : Z.to_nat (Z.of_nat idx - g_off s) = length A - 1) by lia.
  rewrite Ht.
  assert (Hplain : forall prev recs,
            group_loop p_operator snap (S idx)
                       {| g_live := g_live s; g_off := g_off s; g_pidx := Some (length A - 1);
                          g_prev := prev; g_rec := recs |}
            = group_loop p_operator_safe snap (S idx)
                       {| g_live := g_live s; g_off := g_off s; g_pidx := Some (length A - 1);
                          g_prev := prev; g_rec := recs |}).
  { intros prev recs. apply IH.
    exists A, snap, []. cbn [g_live g_off g_pidx app length].
    split; [exact HL|]. split; [reflexivity|]. split; [lia|]. split; [left; reflexivity|].
    intros pi Hpi. injection Hpi as <-. lia. }
  destruct (g_match p_operator token) eqn:M; [|apply Hplain].
  destruct (g_prev s) as [pv|]; [|apply Hplain].
  destruct (g_pidx s) as [pidx|] eqn:Epi; [|apply Hplain].
  destruct (g_vprev p_operator pv && g_vnext p_operator _) eqn:V; [|apply Hplain].
  apply andb_true_iff in V. destruct V as [_ V].
  specialize (HP pidx eq_refl).
  assert (Hlt : length A - 1 < length (g_live s)).
  { rewrite HL, app_length. lia. }
  assert (Hreal : nth_error (g_live s) (length A - 1) = Some token).
  { destruct Hsy as [Hsy | Hsy]; [exact Hsy|].
    cbn [g_match g_vnext p_operator] in M, Hsy. rewrite (operator_not_operand _ M) in Hsy. discriminate. }
  rewrite <- (operator_post_eq _ pidx _ _ token Hreal M).
  assert (Hsy' : nth_error (g_live s) (length A - 1) = Some token \/ g_vnext p_operator (Some token) = true)
    by (left; exact Hreal).
  destruct (po_operator (g_live s) pidx (length A - 1) token) as
      (l1 & from & to & Ep & Hlen & Hskip & Hne & Hfrom & Hto); try assumption; try lia.
  unfold nidx_of in Ep. rewrite Ep. cbn [bind].
  assert (Hfl : from <= length A - 1) by (destruct Hfrom; lia).
  destruct (group_tokens_ok (g_cls p_operator) from (S to) (g_extend p_operator) l1) as (live2 & grp & Eg); [lia|].
  rewrite Eg. cbn [bind].
  match goal with |- group_loop _ _ _ ?st = _ =>
    destruct (linv_grouped p_operator A snap idx (g_off s) (g_live s) l1 from to live2 grp
                           (g_cls p_operator) (g_extend p_operator) st) as (Hft & HI2) end;
    try assumption; try reflexivity.
  { replace (S (length A - 1)) with (length A) in Hskip by lia.
    rewrite Hskip, HL. apply skipn_app_length. }
  { destruct Hto as [Hto | (n & Hn)]; [left; exact Hto|]. right. exists n. split; [exact Hn|].
    unfold next_of in V. rewrite Hn in V. exact V. }
  apply IH, HI2.
Qed.

Lemma operator_driver_eq : forall n, group_driver p_operator n = group_driver p_operator_safe n.
Proof.
  induction n as [ty v | c0 v kids IH] using node_ind'; [reflexivity|].
  cbn [group_driver]. rewrite <- (operator_loop_eq kids 0 (ginit kids) (linv_init _ kids)).
  destruct (group_loop p_operator kids 0 (ginit kids)) as [dry|e]; [|reflexivity]. cbn [bind].
  change (g_cls p_operator_safe) with (g_cls p_operator).
  assert (E : mapM2 (fun k (f : bool) => if f && is_group k && negb (inst k (g_cls p_operator))
                                       then group_driver p_operator k else Ok k) false kids (rev (g_rec dry))
            = mapM2 (fun k (f : bool) => if f && is_group k && negb (inst k (g_cls p_operator))
                                       then group_driver p_operator_safe k else Ok k) false kids (rev (g_rec dry))).
  { generalize (rev (g_rec dry)). clear dry. induction IH as [|k kids Hk _ IHk]; intros m; [reflexivity|].
    cbn [mapM2]. rewrite Hk, IHk. reflexivity. }
  rewrite <- E. destruct (mapM2 _ false kids (rev (g_rec dry))) as [kids1|e]; [|reflexivity]. cbn [bind].
  rewrite <- (operator_loop_eq kids1 0 (ginit kids1) (linv_init _ kids1)). reflexivity.
Qed.
