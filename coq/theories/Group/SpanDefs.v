(* C09, pipeline part: the SPANS of the bracket/block groups of a tree.

   For every node of a bracket class (Parenthesis, SquareBrackets, Case, If, For, Begin) of a tree
   the triple  (class, first, stop)  where, in the flattened leaf sequence of the WHOLE tree,
     first = index of the first leaf of the node,
     stop  = 1 + index of the last leaf of the node IGNORING trailing leaves whose type is in
             T.Whitespace or T.Comment  (stop = first when the node has no other leaf);
   the triples are listed in pre-order.  Wrapping a run of siblings into a new group of a
   non-bracket class, or appending comment/whitespace material to a group, changes none of them.

   Definitions only; the proofs are in SpanFacts.v. *)
From SqlModel Require Import Base PyStr Node Inv Passes MatchSpec.

Definition is_bracket (c : cls) : bool :=
  match c with
  | CParenthesis | CSquareBrackets | CCase | CIf | CFor | CBegin => true
  | _ => false
  end.

(* a leaf the "last token" of a group is looked for behind: whitespace (incl. newlines) or a
   comment *)
Definition triv_ty (ty : ttype) : bool := tin ty T_Whitespace || tin ty T_Comment.
Definition triv_tok (t : tok) : bool := triv_ty (fst t).

(* number of leaves up to and including the last non-trivial one; the argument is the list of
   triviality flags of the leaves *)
Fixpoint sig_len (fl : list bool) : nat :=
  match fl with
  | [] => 0
  | b :: fl' => match sig_len fl' with
                | 0 => if b then 0 else 1
                | S k => S (S k)
                end
  end.

Definition flags (n : node) : list bool := map triv_tok (leaves n).
Definition flags_list (l : list node) : list bool := map triv_tok (leaves_list l).

(* all leaves of the node are whitespace / comments *)
Definition trivial_node (n : node) : bool := forallb triv_tok (leaves n).

Fixpoint spans_at (base : nat) (n : node) : list (cls * nat * nat) :=
  match n with
  | Leaf _ _ => []
  | Grp c _ kids =>
      (if is_bracket c then [(c, base, base + sig_len (flags n))] else []) ++
      (fix go (b : nat) (l : list node) : list (cls * nat * nat) :=
         match l with
         | [] => []
         | k :: l' => spans_at b k ++ go (b + length (leaves k)) l'
         end) base kids
  end.

Fixpoint spans_list (base : nat) (l : list node) : list (cls * nat * nat) :=
  match l with
  | [] => []
  | k :: l' => spans_at base k ++ spans_list (base + length (leaves k)) l'
  end.

Definition spans (n : node) : list (cls * nat * nat) := spans_at 0 n.

(* ---- the leaf sequence up to the re-typing of group_operator ------------------------------------- *)
(* `tlist[tidx].ttype = T.Operator`: an Operator or Wildcard leaf becomes an Operator leaf; nothing
   else ever changes in the leaf sequence *)
Definition otok_sim (a b : tok) : Prop :=
  a = b \/ (snd a = snd b /\ fst b = T_Operator /\ (fst a = T_Operator \/ fst a = T_Wildcard)).
Definition osim (a b : list tok) : Prop := Forall2 otok_sim a b.

(* ---- properties of every group node that depend on its class and its leaves only ---------------- *)
Fixpoint all_nodes (Q : cls -> list tok -> bool) (n : node) : bool :=
  match n with
  | Leaf _ _ => true
  | Grp c _ kids => Q c (leaves n) && forallb (all_nodes Q) kids
  end.

(* a Comment group consists of comment and whitespace leaves only (established by group_comments) *)
Definition q_pure (c : cls) (ls : list tok) : bool :=
  if cls_eqb c CComment then forallb triv_tok ls else true.
Definition comments_pure : node -> bool := all_nodes q_pure.

(* Token.match(ttype, values) on a (type, value) pair *)
Definition tok_matches (t : tok) (ps : list pat) : bool := matches (Leaf (fst t) (snd t)) ps.

(* a bracket node's first leaf is its opener and its last leaf - ignoring trailing comments and
   whitespace - is its closer *)
Definition first_last (c : cls) (ls : list tok) : bool :=
  match ls with
  | o :: _ => tok_matches o (m_open c)
  | [] => false
  end &&
  match sig_len (map triv_tok ls) with
  | 0 => false
  | S k => match nth_error ls k with
           | Some cl => tok_matches cl (m_close c)
           | None => false
           end
  end.
Definition q_fl (c : cls) (ls : list tok) : bool := if is_bracket c then first_last c ls else true.
Definition fl_ok : node -> bool := all_nodes q_fl.

(* ---- the six matchers in pipeline order (passes 2-7) ------------------------------------------- *)
Definition match_all (n1 : node) : node :=
  stack_match_rec CBegin
    (stack_match_rec CFor
       (stack_match_rec CIf
          (stack_match_rec CCase
             (stack_match_rec CParenthesis
                (stack_match_rec CSquareBrackets n1))))).

(* ---- example token streams --------------------------------------------------------------------- *)
Definition t_kw (s : text) : tok := (T_Keyword, s).
Definition t_sp : tok := (T_Whitespace, [32]%N).
Definition t_lp : tok := (T_Punctuation, s_lparen).
Definition t_rp : tok := (T_Punctuation, s_rparen).
Definition t_nm (ch : N) : tok := (T_Name, [ch]).
Definition t_cm : tok := (T_CSingle, [45; 45; 99; 10]%N).         (* "--c\n" *)
Definition s_case := [99; 97; 115; 101]%N.
Definition s_begin := [98; 101; 103; 105; 110]%N.
Definition s_end := [101; 110; 100]%N.
Definition s_if := [105; 102]%N.
Definition s_end_if := [101; 110; 100; 32; 105; 102]%N.
Definition s_as := [97; 115]%N.

(*  ( a ) --c\n b       : the comment is appended to the parenthesis by align_comments *)
Definition ex_paren_comment : list tok := [t_lp; t_sp; t_nm 97; t_sp; t_rp; t_sp; t_cm; t_nm 98].
(*  case begin end       : Begin is matched INSIDE the Case group, sharing the closer *)
Definition ex_case_begin : list tok := [t_kw s_case; t_sp; t_kw s_begin; t_sp; t_kw s_end].
(*  if , end if *)
Definition ex_if_comma : list tok := [t_kw s_if; t_sp; (T_Punctuation, s_comma); t_sp; t_kw s_end_if].
(*  (as) *)
Definition ex_paren_as : list tok := [t_lp; t_kw s_as; t_rp].
(*  ( :: int ) *)
Definition ex_paren_cast : list tok :=
  [t_lp; t_sp; (T_Punctuation, s_dcolon); t_sp; (T_Builtin, [105; 110; 116]%N); t_sp; t_rp].
(*  a * ( b . * ) --c\n + 1   : operators are re-typed *)
Definition ex_mixed : list tok :=
  [t_nm 97; t_sp; (T_Wildcard, [42]%N); t_sp; t_lp; t_nm 98; (T_Punctuation, s_dot); (T_Wildcard, [42]%N);
   t_rp; t_sp; t_cm; (T_Operator, [43]%N); t_sp; (T_Integer, [49]%N)].

(* a tree that is NOT comments_pure: a Comment group holding a name *)
Definition impure_tree : node :=
  mk_grp CStatement [mk_grp CParenthesis [Leaf T_Punctuation s_lparen; Leaf T_Punctuation s_rparen];
                     mk_grp CComment [Leaf T_Name [120]%N]].

Definition spans_res (r : res node) : option (list (cls * nat * nat)) :=
  match r with Ok n => Some (spans n) | Err _ => None end.

(* the classes of the bracket nodes of a tree, in pre-order (what `spans` has one triple for) *)
Fixpoint bracket_nodes (n : node) : list cls :=
  match n with
  | Leaf _ _ => []
  | Grp c _ kids => (if is_bracket c then [c] else []) ++ flat_map bracket_nodes kids
  end.
