(* C09 - bracketed and block groups are exactly the properly matched pairs. *)
(* source pins: the functions of /repo the hand-written models in this file's cone mirror have the normalised AST they
   were written from (tools/regen/gen_srcpins.py; a changed function breaks its Gen/Pin_*.v and this file with it) *)
From SqlModel.Gen Require LexPins.   (* the scan loop, is_keyword, consume and the class-level state of sqlparse/lexer.py have the pinned shape *)
From SqlModel.Gen Require Pin_sql_tree Pin_api_glue.
From SqlModel.Inst Require PassTabRun.   (* the grouping tables of Group/Passes.v equal the ones regenerated from the source *)
From SqlModel Require Import Base PyStr Node Inv Passes GroupFacts MatchSpec MatchFacts.

(* the index-juggling loop over a snapshot (tidx_offset, opens) equals the textbook stack matcher *)
Theorem C09_driver : forall c l, matching_loop c l 0 l [] 0 = Ok (stack_match c l).
Proof. exact matching_loop_spec. Qed.
Print Assumptions C09_driver.

(* recursion: inside, never across, groups of other classes; groups of the same class are atoms *)
Theorem C09_recursive : forall c n, group_matching c n = Ok (stack_match_rec c n).
Proof. exact group_matching_spec. Qed.
Print Assumptions C09_recursive.

(* every group the pass creates is  opener :: (fully matched middle) ++ [closer]  *)
Theorem C09_shape : forall c l g,
  In g (stack_match c l) -> ~ In g l ->
  exists o mid cl,
    g = mk_grp c (o :: mid ++ [cl]) /\ In o l /\ In cl l /\
    matches o (m_open c) = true /\ matches cl (m_close c) = true /\
    is_group o = false /\ is_group cl = false /\
    Forall (fun x => kind_of c x = KPlain) mid /\
    Forall (Built c (fun x => In x l)) mid.
Proof. exact stack_match_shape. Qed.
Print Assumptions C09_shape.

(* maximality: what stays ungrouped is  closers* openers*  (unmatched closers, then unmatched openers) *)
Theorem C09_residual : forall c l,
  exists a b, stack_match c l = a ++ b /\
              Forall (fun x => kind_of c x <> KOpen) a /\
              Forall (fun x => kind_of c x <> KClose) b.
Proof. exact stack_match_residual. Qed.
Print Assumptions C09_residual.

Theorem C09_idempotent : forall c n n1, group_matching c n = Ok n1 -> group_matching c n1 = Ok n1.
Proof. exact group_matching_idem. Qed.

Theorem C09_leaves : forall c n, leaves (stack_match_rec c n) = leaves n.
Proof. exact stack_match_rec_leaves. Qed.

(* passes 2-7 of the pipeline ARE these six matchers, in this order (later kinds inside earlier ones) *)
Theorem C09_passes :
  firstn 6 (skipn 1 passes) =
  [group_matching CSquareBrackets; group_matching CParenthesis; group_matching CCase;
   group_matching CIf; group_matching CFor; group_matching CBegin].
Proof. reflexivity. Qed.
