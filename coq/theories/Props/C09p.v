(* C09, pipeline part - the 18 passes that run after the six bracket/block matchers never create,
   destroy, split or merge a Parenthesis / SquareBrackets / Case / If / For / Begin group; each such
   node of the final tree starts with its opening token and, ignoring comments and whitespace
   attached after it, ends with its closing token.
   (Definitions: Group/SpanDefs.v; proofs: Group/SpanFacts.v; the matchers themselves: C09.v.) *)
From SqlModel.Inst Require PassTabRun.   (* the grouping tables of Group/Passes.v equal the ones regenerated from the source *)
From SqlModel Require Import Base PyStr Node Inv Passes GroupFacts MatchSpec MatchFacts
  SpanDefs SpanFacts.

(* `spans n`: for every bracket node of n, in pre-order, (class, index of its first leaf, 1 + index
   of its last leaf ignoring trailing whitespace/comment leaves), indices into `leaves n`. *)
Theorem C09_spans_nodes : forall n base,
  map (fun t => fst (fst t)) (spans_at base n) = bracket_nodes n.
Proof. exact spans_classes. Qed.
Print Assumptions C09_spans_nodes.

(* what `stop` means: the flag list is `map triv_tok (leaves g)` of the node *)
Theorem C09_sig_len_spec : forall fl,
  (forall k, sig_len fl = S k -> nth_error fl k = Some false) /\
  (forall i, sig_len fl <= i -> i < length fl -> nth_error fl i = Some true).
Proof. exact sig_len_spec. Qed.

(* passes 8-25, on ANY tree whose Comment groups hold comments and whitespace only *)
Theorem C09_pipeline_spans : forall n n',
  comments_pure n = true -> run_passes (skipn 7 passes) n = Ok n' ->
  spans n' = spans n /\ comments_pure n' = true /\ osim (leaves n) (leaves n').
Proof. exact pipeline_spans. Qed.
Print Assumptions C09_pipeline_spans.

Theorem C09_pipeline_bracket_nodes : forall n n',
  comments_pure n = true -> run_passes (skipn 7 passes) n = Ok n' ->
  bracket_nodes n' = bracket_nodes n.
Proof. exact pipeline_bracket_nodes. Qed.
Print Assumptions C09_pipeline_bracket_nodes.

(* without that hypothesis the statement is false (align_comments appends ANY Comment group) *)
Theorem C09_pipeline_spans_unconditional_refuted :
  exists n n', run_passes (skipn 7 passes) n = Ok n' /\ spans n' <> spans n.
Proof. exact pipeline_spans_unconditional_refuted. Qed.
Print Assumptions C09_pipeline_spans_unconditional_refuted.

(* the hypothesis holds after pass 7 of a statement (group_comments establishes it, the matchers
   keep it); fl_ok: every bracket node's first leaf matches M_OPEN, its last significant leaf
   M_CLOSE *)
Theorem C09_upto7_statement : forall toks n7,
  group_upto 7 (statement_of toks) = Ok n7 ->
  leaves n7 = toks /\ comments_pure n7 = true /\ fl_ok n7 = true.
Proof. exact group_upto7_statement. Qed.
Print Assumptions C09_upto7_statement.

(* the tree after pass 7 is the six textbook stack matchers, in pipeline order, applied to the
   tree after group_comments *)
Theorem C09_matchers : forall n n1,
  group_upto 1 n = Ok n1 ->
  group_upto 7 n =
  Ok (stack_match_rec CBegin (stack_match_rec CFor (stack_match_rec CIf (stack_match_rec CCase
        (stack_match_rec CParenthesis (stack_match_rec CSquareBrackets n1)))))).
Proof. exact group_upto7_matchers. Qed.
Print Assumptions C09_matchers.

(* the spans of the final tree are those the matchers produced *)
Theorem C09_pipeline : forall toks n7 n25,
  group_upto 7 (statement_of toks) = Ok n7 -> group (statement_of toks) = Ok n25 ->
  spans n25 = spans n7 /\ osim toks (leaves n25) /\ comments_pure n25 = true.
Proof. exact pipeline_statement. Qed.
Print Assumptions C09_pipeline.

(* first / last leaf of every bracket node of the final tree *)
Theorem C09_first_last_leaf : forall toks n25 c i j,
  group (statement_of toks) = Ok n25 -> In (c, i, j) (spans n25) ->
  is_bracket c = true /\ i < j /\
  exists o cl,
    nth_error toks i = Some o /\ tok_matches o (m_open c) = true /\
    nth_error toks (j - 1) = Some cl /\ tok_matches cl (m_close c) = true /\
    nth_error (leaves n25) i = Some o /\ nth_error (leaves n25) (j - 1) = Some cl.
Proof. exact pipeline_first_last. Qed.
Print Assumptions C09_first_last_leaf.
