(* C15 - deep nesting: the call succeeds (with the unbudgeted result, so every round-trip / tree
   guarantee transfers) or raises SQLParseError; RecursionError does not escape.

   What is proved is the LOGIC of the guard: where it is (Gen/CallGraph.v, regenerated from /repo:
   every call site through which an entry point reaches a recursive function is inside the try of
   FilterStack.run, or works on ungrouped statements / non-tree data) and that, in an exception-monad
   model in which every descent into a group spends one frame of a budget L, an exhausted budget
   inside the guard surfaces as SQLParseError, a budget only ADDS failures, success is monotone in L
   and a large enough L gives the unbudgeted result.
   NOT modelled (observed by the subprocess matrix of tools/props/C15.py): CPython's frame accounting
   and constants, the C stack, MemoryError, generator `yield from` chains, running time. *)
(* source pins: the functions of /repo the hand-written models in this file's cone mirror have the normalised AST they
   were written from (tools/regen/gen_srcpins.py; a changed function breaks its Gen/Pin_*.v and this file with it) *)
From SqlModel.Gen Require LexPins.   (* the scan loop, is_keyword, consume and the class-level state of sqlparse/lexer.py have the pinned shape *)
From SqlModel.Gen Require Pin_api_glue Pin_formatter_module Pin_sql_tree Pin_utils_helpers.
From SqlModel.Inst Require PassTabOk.   (* the grouping tables and driver pins of Group/Passes.v equal the ones regenerated from the source *)
From Coq Require Import List NArith Arith Bool Lia.
From SqlModel Require Import Base PyStr Lexer SplitDefs Splitter Node Inv Passes Budget BudgetFacts.
From SqlModel.Gen Require Import CallGraph.
From SqlModel.Inst Require Import Cur ParseFacts C15.
From SqlModel.Props Require Import C02 C03.
Import ListNotations.

(* ---- the guard: outcome classes ------------------------------------------------------------------ *)
(* L = frames the caller leaves to the library.  With at least the frames needed to ENTER the entry
   point, the outcome is: the unbudgeted result, or SQLParseError, or an error (never RecursionError)
   that the unbudgeted model has as well (totality is C07's concern). *)
Theorem C15_guard_parse : forall L t, entry_frames <= L ->
  (exists v, cur_parse_budget L t = Ok v /\ cur_parse t = Ok v)
  \/ cur_parse_budget L t = Err SQLParseError
  \/ (exists e, cur_parse_budget L t = Err e /\ cur_parse t = Err e /\ e <> RecursionError).
Proof.
  intros L t HL. unfold cur_parse_budget.
  pose proof (parse_budget_allowed cur_lex cur_process L t HL) as Ha.
  destruct (parse_budget cur_lex cur_process L t) as [v|e] eqn:E.
  - left. exists v. split; [reflexivity|]. rewrite <- cur_parse_model. apply (parse_budget_ok _ _ _ _ _ E).
  - right. destruct (parse_budget_err _ _ _ _ _ HL E) as [->|Hm]; [left; reflexivity|].
    right. exists e. rewrite <- cur_parse_model. auto.
Qed.
Print Assumptions C15_guard_parse.

Theorem C15_guard_split : forall L t, entry_frames <= L ->
  (exists v, cur_split_budget L t = Ok v /\ cur_split_model t = Ok v)
  \/ cur_split_budget L t = Err SQLParseError
  \/ (exists e, cur_split_budget L t = Err e /\ cur_split_model t = Err e /\ e <> RecursionError).
Proof.
  intros L t HL. unfold cur_split_budget, cur_split_model.
  pose proof (split_budget_allowed cur_lex cur_process L t HL) as Ha.
  destruct (split_budget cur_lex cur_process L t) as [v|e] eqn:E.
  - left. exists v. split; [reflexivity|]. apply (split_budget_ok _ _ _ _ _ E).
  - right. destruct (split_budget_err _ _ _ _ _ HL E) as [->|Hm]; [left; reflexivity|].
    right. exists e. auto.
Qed.
Print Assumptions C15_guard_split.

(* format: any option set = optional grouping, any list of statement filters (each charged
   max(depth in, depth out) + c frames), any serializer *)
Theorem C15_guard_format : forall grouping filters ser L t, entry_frames <= L ->
  (exists v, cur_format_budget grouping filters ser L t = Ok v /\ cur_format_model grouping filters ser t = Ok v)
  \/ cur_format_budget grouping filters ser L t = Err SQLParseError
  \/ (exists e, cur_format_budget grouping filters ser L t = Err e
                /\ cur_format_model grouping filters ser t = Err e /\ e <> RecursionError).
Proof.
  intros grouping filters ser L t HL. unfold cur_format_budget, cur_format_model.
  pose proof (format_budget_allowed cur_lex cur_process grouping filters ser L t HL) as Ha.
  destruct (format_budget cur_lex cur_process grouping filters ser L t) as [v|e] eqn:E.
  - left. exists v. split; [reflexivity|]. apply (format_budget_ok _ _ _ _ _ _ _ _ E).
  - right. destruct (format_budget_err _ _ _ _ _ _ _ _ HL E) as [->|Hm]; [left; reflexivity|].
    right. exists e. auto.
Qed.
Print Assumptions C15_guard_format.

(* RecursionError never escapes (the headline, for all three at once) *)
Theorem C15_guard : forall L t grouping filters ser, entry_frames <= L ->
  cur_parse_budget L t <> Err RecursionError
  /\ cur_split_budget L t <> Err RecursionError
  /\ cur_format_budget grouping filters ser L t <> Err RecursionError.
Proof.
  intros L t grouping filters ser HL.
  pose proof (parse_budget_allowed cur_lex cur_process L t HL) as H1.
  pose proof (split_budget_allowed cur_lex cur_process L t HL) as H2.
  pose proof (format_budget_allowed cur_lex cur_process grouping filters ser L t HL) as H3.
  unfold cur_parse_budget, cur_split_budget, cur_format_budget.
  repeat split; intros E; [rewrite E in H1 | rewrite E in H2 | rewrite E in H3]; cbn [allowed] in *; congruence.
Qed.
Print Assumptions C15_guard.

(* ---- a budget only adds failures ------------------------------------------------------------------ *)
Theorem C15_ok_is_unbudgeted : forall L t,
  (forall v, cur_parse_budget L t = Ok v -> cur_parse t = Ok v)
  /\ (forall v, cur_split_budget L t = Ok v -> cur_split_model t = Ok v)
  /\ (forall grouping filters ser v, cur_format_budget grouping filters ser L t = Ok v ->
                                      cur_format_model grouping filters ser t = Ok v).
Proof.
  intros L t. repeat split.
  - intros v H. rewrite <- cur_parse_model. apply (parse_budget_ok _ _ _ _ _ H).
  - intros v H. apply (split_budget_ok _ _ _ _ _ H).
  - intros grouping filters ser v H. apply (format_budget_ok _ _ _ _ _ _ _ _ H).
Qed.
Print Assumptions C15_ok_is_unbudgeted.

(* hence the guarantees proved for the unbudgeted model hold for every successful result under any
   limit: text preservation (C02) and the leaf / cached-value invariants (C03) *)
Theorem C15_success_keeps_guarantees : forall L t stmts, cur_parse_budget L t = Ok stmts ->
  (exists tail : list tok,
      t = flat_map text_of stmts ++ flat_map snd tail /\ Forall (fun tk => is_ws_tok tk = true) tail)
  /\ (exists toks, cur_lex t = Ok toks
        /\ lsim (concat (cur_process toks)) (flat_map leaves stmts) /\ Forall cached_ok stmts).
Proof.
  intros L t stmts H. apply (proj1 (C15_ok_is_unbudgeted L t)) in H.
  split; [apply C02_roundtrip | apply C03_leaves_and_cached]; exact H.
Qed.
Print Assumptions C15_success_keeps_guarantees.

(* ---- monotone in the limit; a large enough limit gives the unbudgeted result ------------------------ *)
Theorem C15_monotone : forall L L' t, L <= L' ->
  (forall v, cur_parse_budget L t = Ok v -> cur_parse_budget L' t = Ok v)
  /\ (forall v, cur_split_budget L t = Ok v -> cur_split_budget L' t = Ok v)
  /\ (forall grouping filters ser v, cur_format_budget grouping filters ser L t = Ok v ->
                                      cur_format_budget grouping filters ser L' t = Ok v).
Proof.
  intros L L' t HL. repeat split.
  - intros v H. apply (parse_budget_mono _ _ _ _ _ _ HL H).
  - intros v H. apply (split_budget_mono _ _ _ _ _ _ HL H).
  - intros grouping filters ser v H. apply (format_budget_mono _ _ _ _ _ _ _ _ _ HL H).
Qed.
Print Assumptions C15_monotone.

Theorem C15_enough_frames : forall t,
  (forall v, cur_parse t = Ok v -> exists L0, forall L, L0 <= L -> cur_parse_budget L t = Ok v)
  /\ (forall grouping filters ser v, cur_format_model grouping filters ser t = Ok v ->
        exists L0, forall L, L0 <= L -> cur_format_budget grouping filters ser L t = Ok v).
Proof.
  intros t. split.
  - intros v H. rewrite <- cur_parse_model in H. apply (parse_budget_complete _ _ _ _ H).
  - intros grouping filters ser v H. apply (format_budget_complete _ _ _ _ _ _ _ H).
Qed.
Print Assumptions C15_enough_frames.

(* ---- split(): what runs outside the guard ----------------------------------------------------------- *)
(* str(stmt) in split() is applied to statements that were never grouped: depth 1, two frames *)
Theorem C15_split_outside :
  (forall toks, depth (statement_of toks) = 1)
  /\ (forall n L, depth n <= 1 -> 2 <= L -> text_of_budget L n = Ok (text_of n))
  /\ (forall L t stmts, run_budget cur_lex cur_process L (fun _ n => Ok n) t = Ok stmts ->
        pipeline_frames <= L /\ Forall (fun n => depth n = 1) stmts).
Proof.
  repeat split.
  - apply depth_statement_of.
  - intros n L Hd HL. apply text_of_budget_flat; assumption.
  - apply (run_flat_stmts _ _ _ _ _ H).
  - apply (run_flat_stmts _ _ _ _ _ H).
Qed.
Print Assumptions C15_split_outside.

(* str() under a budget succeeds exactly when the depth fits *)
Theorem C15_str_budget : forall n L,
  text_of_budget L n = if str_frames n <=? L then Ok (text_of n) else Err RecursionError.
Proof. exact text_of_budget_spec. Qed.

Theorem C15_flatten_budget : forall n L,
  flatten_budget L n = if depth n <=? L then Ok (flatten n) else Err RecursionError.
Proof. exact flatten_budget_spec. Qed.
Print Assumptions C15_flatten_budget.

(* ---- the generated call graph ------------------------------------------------------------------------ *)
Theorem C15_callgraph_ok :
  forallb inside_guard_or_shallow reach = true
  /\ guard_shape_checked = true
  /\ lazy_generators_stored_by_grouping = []
  /\ forallb returns_deep_only_parse returned = true.
Proof.
  split; [exact C15_callgraph|]. split; [exact C15_guard_shape|].
  split; [exact C15_no_lazy_generators | exact C15_returned].
Qed.
Print Assumptions C15_callgraph_ok.

(* "a later call on ordinary input still works": the functions of the model are pure; the
   implementation's only state that outlives a call is the Lexer singleton
   (C15_persistent_state_known), and it is assigned only after its initialisation has completed
   (no statement that can raise follows the assignment in its block): a failed call leaves no trace.
   The head-room probes of tools/props/C15.py observe the same at run time. *)
Theorem C15_later_call_ok : later_call_unaffected = true.
Proof. unfold later_call_unaffected. rewrite C15_published_late. reflexivity. Qed.
Print Assumptions C15_later_call_ok.

(* ---- what the guard cannot do (limits of the property, with witnesses) --------------------------------- *)
(* a caller that leaves fewer frames than entering the entry point needs gets RecursionError from
   the interpreter before the guard exists: true of every Python function, not a library defect *)
Theorem C15_no_headroom_refuted : exists L t, cur_parse_budget L t = Err RecursionError.
Proof. exists 0, []%N. reflexivity. Qed.

(* str() / flatten() applied BY THE CALLER to a deep tree that parse() returned run outside the
   guard: with less headroom than the tree is deep they raise RecursionError *)
Theorem C15_caller_str_unguarded : forall d L, 0 < d -> L <= d ->
  depth (nest d) = d /\ text_of_budget L (nest d) = Err RecursionError.
Proof. intros d L Hd HL. split; [apply depth_nest | apply text_of_budget_deep; assumption]. Qed.
Print Assumptions C15_caller_str_unguarded.

(* non-vacuity: the three outcome classes occur on a concrete nested input *)
Example C15_nonvacuous :
  (exists v, cur_parse_budget 20 deep6 = Ok v /\ cur_parse deep6 = Ok v)
  /\ cur_parse_budget 12 deep6 = Err SQLParseError
  /\ cur_split_budget 12 deep6 = Ok [deep6]
  /\ entry_frames <= 12.
Proof.
  split; [exact deep6_parse_enough|]. split; [exact deep6_parse_few|]. split; [exact deep6_split_few|].
  unfold entry_frames. lia.
Qed.
