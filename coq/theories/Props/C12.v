(* C12 - identifier accessors return the written name, qualifier and alias. *)
From SqlModel Require Import Base PyStr Node.
From SqlModel.Acc Require Import Accessors AccFacts.

Definition C12_reference_thm := C12_reference.
Definition C12_get_alias_thm := C12_get_alias.
Definition C12_has_alias_thm := C12_has_alias.
Definition C12_get_real_name_thm := C12_get_real_name.
Definition C12_get_parent_name_thm := C12_get_parent_name.
Definition C12_get_name_thm := C12_get_name.
Definition C12_function_target_thm := C12_function_target.
Definition C12_insert_implicit_alias_refuted_thm := C12_insert_implicit_alias_refuted.
Print Assumptions C12_reference.
Print Assumptions C12_get_alias.
Print Assumptions C12_get_real_name.
Print Assumptions C12_get_parent_name.
Print Assumptions C12_get_name.
Print Assumptions C12_function_target.

(* pipeline level, finite family (bound in the statement): 11 contexts x 3 qualifiers x 4 quotings x 5 alias forms through
   lexer, splitter and all 25 grouping passes: the tree contains an Identifier with exactly the written text on which the
   accessors return the written parts *)
From SqlModel.Inst Require C12Fin.
Definition C12_pipeline_fin_thm := C12Fin.C12_pipeline_fin.
Definition C12_pipeline_fin_member_thm := C12Fin.C12_pipeline_fin_member.
Print Assumptions C12Fin.C12_pipeline_fin_member.
