(* C12 - identifier accessors return the written name, qualifier and alias. *)
From SqlModel Require Import Base PyStr Node.
From SqlModel.Acc Require Import Accessors AccFacts.

Definition C12_reference_thm := C12_reference.
Definition C12_get_alias_thm := C12_get_alias.
Definition C12_has_alias_thm := C12_has_alias.
Definition C12_get_real_name_thm := C12_get_real_name.
Definition C12_get_parent_name_thm := C12_get_parent_name.
Definition C12_get_name_thm := C12_get_name.
Definition C12_function_target_thm := C12_function_target.
Definition C12_insert_implicit_alias_refuted_thm := C12_insert_implicit_alias_refuted.
Print Assumptions C12_reference.
Print Assumptions C12_get_alias.
Print Assumptions C12_get_real_name.
Print Assumptions C12_get_parent_name.
Print Assumptions C12_get_name.
Print Assumptions C12_function_target.
