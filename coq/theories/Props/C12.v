(* C12 - identifier accessors return the written name, qualifier and alias. *)
(* source pins: the functions of /repo the hand-written models in this file's cone mirror have the normalised AST they
   were written from (tools/regen/gen_srcpins.py; a changed function breaks its Gen/Pin_*.v and this file with it) *)
From SqlModel.Gen Require LexPins.   (* the scan loop, is_keyword, consume and the class-level state of sqlparse/lexer.py have the pinned shape *)
From SqlModel.Gen Require Pin_sql_names Pin_sql_tree Pin_api_glue Pin_lexer_rules.
From SqlModel.Inst Require PassTabOk.   (* the grouping tables and driver pins of Group/Passes.v equal the ones regenerated from the source *)
From SqlModel Require Import Base PyStr Node.
From SqlModel.Acc Require Import Accessors AccFacts.

Definition C12_reference_thm := C12_reference.
Definition C12_get_alias_thm := C12_get_alias.
Definition C12_has_alias_thm := C12_has_alias.
Definition C12_get_real_name_thm := C12_get_real_name.
Definition C12_get_parent_name_thm := C12_get_parent_name.
Definition C12_get_name_thm := C12_get_name.
Definition C12_function_target_thm := C12_function_target.
Definition C12_insert_implicit_alias_refuted_thm := C12_insert_implicit_alias_refuted.
Print Assumptions C12_reference.
Print Assumptions C12_get_alias.
Print Assumptions C12_get_real_name.
Print Assumptions C12_get_parent_name.
Print Assumptions C12_get_name.
Print Assumptions C12_function_target.

(* pipeline level, finite family (bound in the statement): 11 contexts x 3 qualifiers x 4 quotings x 5 alias forms through
   lexer, splitter and all 25 grouping passes: the tree contains an Identifier with exactly the written text on which the
   accessors return the written parts *)
From SqlModel.Inst Require C12Fin.
Definition C12_pipeline_fin_thm := C12Fin.C12_pipeline_fin.
Definition C12_pipeline_fin_member_thm := C12Fin.C12_pipeline_fin_member.
Print Assumptions C12Fin.C12_pipeline_fin_member.

(* the family LIFTED over the VALUES of the white-space tokens (Inst/C12Lift.v): for every family text and every text whose
   token stream differs from it only in the values of its white-space tokens (a tab for a blank, CR LF for LF, ...) the parse
   tree has an Identifier node on which get_real_name / get_alias / has_alias / get_name return the same written parts.
   Generic ingredients: all 25 passes respect the relation (Group/WsRelFacts.v) and the accessors are invariant under it
   (get_real_name_rel, get_name_rel, get_alias_rel, has_alias_rel; get_parent_name_rel when the token in front of the period is
   no group -- a group's text contains the white space inside it) *)
From SqlModel.Inst Require C12Lift.
Definition C12_family_respelled_thm := C12Lift.C12_family_respelled.
Definition C12_get_real_name_rel := C12Lift.get_real_name_rel.
Definition C12_get_name_rel := C12Lift.get_name_rel.
Definition C12_get_alias_rel := C12Lift.get_alias_rel.
Definition C12_get_parent_name_rel := C12Lift.get_parent_name_rel.
Print Assumptions C12Lift.C12_family_respelled.
Print Assumptions C12Lift.get_parent_name_rel.
