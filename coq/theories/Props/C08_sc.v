(* C08 (strip_comments part) - what format(sql, strip_comments=True) does to the grouped statements,
   summarised from Filters/StripCommentsFacts.v.  The statements are those of cur_parse; the filter is the
   model strip_comments_all of StripCommentsFilter.process applied to each of them. *)
From SqlModel Require Import Base PyStr Node Inv StripComments StripCommentsFacts.
From SqlModel.Inst Require Import Cur.

(* per statement: n the grouped statement, n' the statement after the filter *)
Definition sc_statement_ok (n n' : node) : Prop :=
  (* a surviving non-hint comment child stands first in its token list or directly after "(" *)
  residue_ok n' = true
  (* nothing but whitespace is added; nothing else is altered or reordered *)
  /\ subseq (filter (fun x => negb (is_ws x)) (flatten n')) (filter (fun x => negb (is_ws x)) (flatten n))
  (* Comment groups hold only comments/whitespace => the significant leaves are exactly kept *)
  /\ (comments_pure n = true -> sig_leaves n' = sig_leaves n)
  (* every Comment group containing a hint starts with it => the hints are exactly kept *)
  /\ (hint_led n = true -> hint_leaves n' = hint_leaves n)
  (* no two adjacent comment children => no non-hint comment child is left, and a second run is the identity *)
  /\ (no_adjacent_comments n = true -> no_plain_comment n' = true /\ strip_comments n' = Ok n').

Theorem C08_strip_comments : forall stmts,
  exists out, strip_comments_all stmts = Ok out /\ Forall2 sc_statement_ok stmts out.
Proof.
  intros stmts. exists (map sc_pure stmts). split; [apply sc_all_total|].
  induction stmts as [|n stmts IH]; [constructor|]. cbn [map]. constructor; [|exact IH].
  pose proof (strip_comments_pure n) as E. unfold sc_statement_ok. repeat split.
  - apply (sc_residue n _ E).
  - apply (sc_leaves_subseq n _ E).
  - intros H. apply (sc_noncomment_leaves n _ H E).
  - intros H. apply (sc_hints_preserved n _ H E).
  - apply (sc_no_comments_partial n _ H E).
  - apply (sc_idem_no_adjacent n _ H E).
Qed.
Print Assumptions C08_strip_comments.

(* the filter is total on whatever parse() returns *)
Theorem C08_strip_comments_total : forall t stmts, cur_parse t = Ok stmts ->
  exists out, strip_comments_all stmts = Ok out.
Proof. intros t stmts _. exists (map sc_pure stmts). apply sc_all_total. Qed.

(* token lists: new neighbours involve an inserted whitespace/newline token or a preceding "(" *)
Theorem C08_strip_comments_separated : forall l l' u v,
  sc_process l = Ok l' -> adjacent u v l' ->
  adjacent u v l \/ inserted u \/ inserted v \/ match_pat u p_lparen = true.
Proof. exact sc_separated. Qed.

(* the unrestricted statements are false of the current source (concrete texts) *)
Definition C08_sc_no_comments_refuted := sc_no_comments_refuted.
Definition C08_sc_idem_refuted := sc_idem_refuted.
Definition C08_sc_hints_refuted := sc_hints_refuted.
Definition C08_sc_fuse_refuted := sc_fuse_refuted.
