(* C13 - clause nodes cover exactly the clause as written: the PASSES that build the clause nodes.
   (The accessors get_identifiers / get_parameters / get_cases / left / right are modelled in a separate
   slice; this file collects the pass-level obligations: every pass that builds a clause node EQUALS a
   clean left-to-right specification, unboundedly; the written-list corollaries; and the closed
   pipeline families.) *)
(* source pins: the functions of /repo the hand-written models in this file's cone mirror have the normalised AST they
   were written from (tools/regen/gen_srcpins.py; a changed function breaks its Gen/Pin_*.v and this file with it) *)
From SqlModel.Gen Require LexPins.   (* the scan loop, is_keyword, consume and the class-level state of sqlparse/lexer.py have the pinned shape *)
From SqlModel.Gen Require Pin_sql_clauses Pin_sql_names Pin_sql_tree Pin_api_glue Pin_lexer_rules.
From SqlModel.Inst Require PassTabRun.   (* the grouping tables of Group/Passes.v equal the ones regenerated from the source *)
From SqlModel Require Import Base PyStr Node Inv Passes TotalDefs TotalBase TotalFacts ClauseSpec ClauseFacts.
From SqlModel.Inst Require Import Cur C13Fin.

(* ---- pass = specification --------------------------------------------------------------------------- *)
Theorem C13_where_list : forall c l, shape_if c l = true -> f_where c l = Ok (where_spec c l).
Proof. exact f_where_spec. Qed.
Theorem C13_where_pass : forall n, brk_ok n = true -> recurse_pass [CWhere] f_where n = Ok (where_rec n).
Proof. exact group_where_spec. Qed.
Theorem C13_functions_list : forall c l, f_functions c l = Ok (functions_spec l).
Proof. exact f_functions_spec. Qed.
Theorem C13_functions_pass : forall n, recurse_pass [CFunction] f_functions n = Ok (functions_rec n).
Proof. exact group_functions_spec. Qed.
Theorem C13_typed_literal_pass : forall n,
  (n1 <- group_driver p_typed_literal1 n ;; group_driver p_typed_literal2 n1) = Ok (typed_literal_rec n).
Proof. exact group_typed_literal_spec. Qed.
Theorem C13_comparison_pass : forall n, group_driver p_comparison n = Ok (join_rec p_comparison FromPrev n).
Proof. exact group_comparison_spec. Qed.
Theorem C13_identifier_list_pass : forall n,
  group_driver p_identifier_list n = Ok (join_rec p_identifier_list FromPrev n).
Proof. exact group_identifier_list_spec. Qed.
Print Assumptions C13_where_pass.
Print Assumptions C13_identifier_list_pass.

(* these ARE the passes 9, 10, 17, 19, 24 of grouping.group *)
Theorem C13_passes :
  nth_error passes 8 = Some (recurse_pass [CFunction] f_functions) /\
  nth_error passes 9 = Some (recurse_pass [CWhere] f_where) /\
  nth_error passes 18 = Some (group_driver p_comparison) /\
  nth_error passes 23 = Some (group_driver p_identifier_list).
Proof. repeat split; reflexivity. Qed.

(* ---- what the specifications say about written clauses (any length) --------------------------------- *)
Theorem C13_where_extent : forall P w M k X,
  Forall (fun y => is_where_open y = false) P -> is_where_open w = true ->
  Forall (fun y => is_where_close y = false) M -> is_where_close k = true ->
  where_run 0 (P ++ w :: M ++ k :: X) = P ++ mk_grp CWhere (w :: M) :: where_run 0 (k :: X).
Proof. exact where_extent. Qed.
Theorem C13_where_extent_end : forall P w M,
  Forall (fun y => is_where_open y = false) P -> is_where_open w = true ->
  Forall (fun y => is_where_close y = false) M ->
  where_run 0 (P ++ w :: M) = P ++ [mk_grp CWhere (w :: M)].
Proof. exact where_extent_end. Qed.
Theorem C13_one_identifier_list : forall a0 s1 l out prev R,
  is_ws a0 = false -> valid_list_item (Some a0) = true -> inst a0 CIdentifierList = false ->
  Forall (sep_ok p_identifier_list) (s1 :: l) ->
  join_run p_identifier_list FromPrev out prev 0 (a0 :: render_seps (s1 :: l) ++ R)
  = join_run p_identifier_list FromPrev
             (mk_grp CIdentifierList (a0 :: render_seps (s1 :: l)) :: out)
             (Some (last_item a0 (s1 :: l))) 0 R.
Proof. exact identifier_list_one_group. Qed.
Theorem C13_comparison_chain : forall a0 l out prev R,
  is_ws a0 = false -> valid_cmp_operand (Some a0) = true -> Forall (sep_ok p_comparison) l ->
  join_run p_comparison FromPrev out prev 0 (a0 :: render_seps l ++ R)
  = join_run p_comparison FromPrev (nest_left CComparison a0 l :: out) (Some (last_item a0 l)) 0 R.
Proof. exact comparison_chain. Qed.
Print Assumptions C13_one_identifier_list.

(* ---- the closed pipeline families -------------------------------------------------------------------- *)
Theorem C13_pipeline_fin :
  (forall nst c f, In c conditions -> In f followers -> check where_texts texts_eqb (where_case nst c f) = true) /\
  forallb (fun sep => forallb (check idlist_items lists_eqb) (idlist_family sep)) seps = true /\
  forallb (check function_parts lists_eqb) function_family = true /\
  forallb (check typed_texts texts_eqb) typed_family = true /\
  forallb (fun op => forallb (check cmp_ends (list_eqb pair_eqb)) (cmp_family op)) operators = true.
Proof.
  split; [exact C13_where_fin|]. split; [exact C13_idlist_fin|]. split; [exact C13_function_fin|].
  split; [exact C13_typed_fin | exact C13_comparison_fin].
Qed.
Print Assumptions C13_pipeline_fin.

(* ---- the families, LIFTED by the relational invariance of C11 (Inst/C13Lift.v): for every text of a family and EVERY text
   whose token stream is related to it token by token (keyword tokens re-cased or their inner white space re-spelled,
   white-space tokens carrying any white-space value, all other tokens equal) the clause nodes of the two parse trees
   correspond one to one with the same structure: the finite families stand for unboundedly many spellings *)
From SqlModel.Inst Require C13Lift C11WsVal.
Theorem C13_family_respelled : forall {A} (obs : node -> A) (eq : A -> A -> bool) (case : text * A),
  C13Fin.check obs eq case = true ->
  forall t l0 l, cur_lex (fst case) = Ok l0 -> cur_lex t = Ok l -> Forall2 C11WsVal.tok_wsrel l0 l ->
  exists n0 n, C13Fin.parse1 (fst case) = Some n0 /\ C13Fin.parse1 t = Some n /\ eq (obs n0) (snd case) = true
               /\ C11WsVal.wsrel n0 n /\ forall c, Forall2 C11WsVal.wsrel (C13Fin.nodes_of c n0) (C13Fin.nodes_of c n).
Proof. exact @C13Lift.C13_family_respelled. Qed.
Print Assumptions C13_family_respelled.
Definition C13_where_respelled := C13Lift.C13_where_respelled.
Definition C13_typed_respelled := C13Lift.C13_typed_respelled.
Definition C13_function_respelled := C13Lift.C13_function_respelled.
Definition C13_idlist_respelled := C13Lift.C13_idlist_respelled.
Definition C13_comparison_respelled := C13Lift.C13_comparison_respelled.
Print Assumptions C13Lift.C13_where_respelled.

(* ---- refuted readings (the specification says what the code does) ------------------------------------ *)
(* a second WHERE after a set operator that is not in Where.M_CLOSE gets no Where node of its own *)
From Coq Require Import String.
Theorem C13_second_where_refuted :
  check where_texts texts_eqb
        (Str.tx "select a from t where a intersect select b from u where c"%string,
         [Str.tx "where a intersect select b from u where c"%string]) = true.
Proof. exact where_intersect_swallows. Qed.

(* ---- the accessors on the clause nodes (exact models, Acc/Accessors.v; tied by the acc correspondence) ------ *)
From SqlModel.Acc Require Import Accessors AccFacts.
Definition C13_get_identifiers := get_identifiers_spec.
Definition C13_get_identifiers_items := get_identifiers_items.
Definition C13_comparison_operands := comparison_operands.
Definition C13_get_parameters_spec := get_parameters_spec.
Definition C13_get_parameters_partial := get_parameters_partial.
Definition C13_get_parameters_list := get_parameters_list.
Definition C13_get_parameters_refuted := get_parameters_refuted.
Definition C13_get_cases_wellformed := get_cases_wellformed.
Definition C13_get_cases_leading_entry := get_cases_leading_entry.
Print Assumptions get_identifiers_spec.
Print Assumptions get_parameters_spec.
Print Assumptions get_cases_wellformed.
Print Assumptions comparison_operands.

(* ---- every alphabetic word of the keyword dictionaries is a function name in front of "(" (finite family over the
        regenerated dictionaries and rules, through the whole pipeline), except the six the lexer keeps keywords ------ *)
From SqlModel.Inst Require C13FnWords.
Theorem C13_fnwords_fin :
  forallb C13FnWords.fn_word_ok (filter C13FnWords.is_alpha_word (WordsDefs.all_words KwTabs.kws)) = true.
Proof. exact C13FnWords.C13_fnwords_fin. Qed.
Definition C13_fnword_member := C13FnWords.fn_word_member.
Print Assumptions C13_fnwords_fin.
