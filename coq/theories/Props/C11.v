(* C11 - parsing is insensitive to inter-token whitespace and keyword letter case.
   The property is FALSE of the library at full strength (the *_refuted theorems that remain); what holds is
   stated layer by layer.  Three `fix:` commits in /repo (group_functions reads value.upper() == 'AS'; the
   splitter reads value.split()[0].upper() == 'GO'; Token.normalized and the splitter's `unified` collapse the
   white space inside compound keywords) removed the guards on the spelling of AS / GO / END IF / ORDER BY /...:
   the former refutation witnesses are now positive examples (Inst/C11Wit.v, Inst/C11Group.v).  Definitions: Split/Skeleton.v, Group/Skel.v, Lexer/WsRun.v. *)
(* source pins: the functions of /repo the hand-written models in this file's cone mirror have the normalised AST they
   were written from (tools/regen/gen_srcpins.py; a changed function breaks its Gen/Pin_*.v and this file with it) *)
From SqlModel.Gen Require Pin_sql_tree Pin_sql_clauses Pin_api_glue.
From SqlModel.Inst Require PassTabOk.   (* the grouping tables and driver pins of Group/Passes.v equal the ones regenerated from the source *)
From SqlModel.Gen Require LexPins.   (* the scan loop, is_keyword, consume and the class-level state of sqlparse/lexer.py have the pinned shape *)
From SqlModel.Props Require C11g.   (* letter case: all 25 grouping passes and parse, unbounded *)
From SqlModel.Props Require C11w.   (* white-space tokens re-spelled one for one: all 25 passes, splitter, get_type, unbounded *)
From SqlModel Require Import Base PyStr Re Lexer SplitDefs Splitter Node Passes MatchSpec.
From SqlModel Require Import Skeleton SkeletonFacts Skel SkelFacts WsRun.
From SqlModel.Gen Require Import CaseTabs SplitTab Rules.
From SqlModel.Inst Require Import Cur CaseInv WsRunInst C11Wit C11Case C11Multi C11Run.
From SqlModel Require Import RunInvDefs RunInv RunLex RunLexAll LexFacts.
From SqlModel.Inst Require C11RunAll C11RunSplit.

(* ---- lexer ---------------------------------------------------------------------------------- *)
(* letter case of ASCII letters: same token types and boundaries (keywords, and everything else) *)
Theorem C11_lex_case : forall t t', Forall2 CaseDefs.Rcase t t' ->
  match cur_lex t, cur_lex t' with
  | Ok ts, Ok ts' => Forall2 (fun a b => fst a = fst b /\ Forall2 CaseDefs.Rcase (snd a) (snd b)) ts ts'
  | Err e, Err e' => e = e'
  | _, _ => False
  end.
Proof. exact C_lex_case. Qed.
Print Assumptions C11_lex_case.

(* a whitespace run (blank-class characters, LF, CR LF) at a token boundary: one token per unit,
   and the rest of the text is lexed independently of the run *)
Theorem C11_lex_ws_run : forall us p b,
  us <> [] -> Forall unit_wf us ->
  cur_lex_go p (utext us ++ b)
  = match cur_lex_go (Some 32%N) b with
    | Ok ts => Ok (utoks T_Whitespace T_Newline us ++ ts)
    | Err e => Err e
    end.
Proof. exact WsRunInst.C11_lex_ws_run. Qed.
Print Assumptions C11_lex_ws_run.

(* finite family: the 39 multi-word keywords x all inner-whitespace spellings by runs of length <= 2
   over {blank, tab, LF, CR LF} x {upper, lower case}: always ONE token of the rule's type *)
Theorem C11_multiword_fin : forallb mw_check mw_keywords = true.
Proof. exact C11Multi.C11_multiword_fin. Qed.
Print Assumptions C11_multiword_fin.

(* UNBOUNDED (every run, every context): at a position whose next character is an ASCII letter the rule of the table
   that matches and the place where its match ends do not depend on the LENGTH or the SPELLING of the white-space
   runs of the text.  RS relates two texts that are equal outside their white-space runs and have non-empty runs at
   the same places; first_rel: both attempts fail, or the same rule (the same action) matches and the two remainders
   are again related.  The TZCast rule (its quoted part may contain white space) is left to a hypothesis, which holds
   outright when the letter is not A or W (tz_quiet_letter, tz_letters). *)
Theorem C11_first_match_run : forall ch p p' t t',
  In ch all_letters -> prel RSp p p' -> RS RSp (ch :: t) (ch :: t') ->
  tz_quiet (mkSt p (ch :: t)) -> tz_quiet (mkSt p' (ch :: t')) ->
  first_rel RSp (mkSt p (ch :: t)) (mkSt p' (ch :: t'))
            (cur_first_match (mkSt p (ch :: t))) (cur_first_match (mkSt p' (ch :: t'))).
Proof. exact C11Run.C11_first_match_run. Qed.
Print Assumptions C11_first_match_run.

(* ... and the first TOKEN has the same type (for a token whose type is looked up in the keyword dictionaries the
   matched text is the same: those rules cannot consume a white-space character, C11_askw_free) *)
Theorem C11_first_token_run : forall ch p p' t t',
  In ch all_letters -> prel RSp p p' -> RS RSp (ch :: t) (ch :: t') ->
  tz_quiet (mkSt p (ch :: t)) -> tz_quiet (mkSt p' (ch :: t')) ->
  match first_tok (mkSt p (ch :: t)), first_tok (mkSt p' (ch :: t')) with
  | Some tk, Some tk' => fst tk = fst tk'
  | None, None => True
  | _, _ => False
  end.
Proof. exact C11Run.C11_first_token_run. Qed.
Print Assumptions C11_first_token_run.

(* one run re-spelled (ORDER<R>BY... and ORDER<R'>BY...), the rest of the text kept *)
Theorem C11_first_match_respell : forall ch w R R' u p,
  In ch all_letters -> forallb (fun c => negb (inS RSp c)) w = true ->
  R <> [] -> R' <> [] -> forallb (inS RSp) R = true -> forallb (inS RSp) R' = true -> snext_t RSp u = false ->
  tz_quiet (mkSt p (ch :: w ++ R ++ u)) -> tz_quiet (mkSt p (ch :: w ++ R' ++ u)) ->
  first_rel RSp (mkSt p (ch :: w ++ R ++ u)) (mkSt p (ch :: w ++ R' ++ u))
            (cur_first_match (mkSt p (ch :: w ++ R ++ u))) (cur_first_match (mkSt p (ch :: w ++ R' ++ u))).
Proof. exact C11Run.C11_first_match_respell. Qed.
Print Assumptions C11_first_match_respell.

(* the general statement it instantiates: ANY regular expression of the syntactic class (good kd), any two related
   states: the lists of results (after the filter of a dead continuation) are related position by position *)
Theorem C11_run_sim : forall lower S r kd, good S kd r = true -> forall x x' c c', srel S x x' ->
  Forall2 (rrel S) (surv S kd (ends lower r x c)) (surv S kd (ends lower r x' c')).
Proof. exact RunInv.good_sim. Qed.
Print Assumptions C11_run_sim.

(* the class check of the CURRENT table (regenerated from keywords.py on every run) *)
Theorem C11_run_table :
  forallb (fun ch => negb (inS RSp ch) && forallb (rule_ok ch) sql_regex) all_letters = true.
Proof. exact C11Run.C11_run_table. Qed.

(* WHOLE TEXTS.  For texts over white space and the characters at which every rule of the table is in the class, cannot
   start, or must consume a quote (C11RunAll.okc_ascii: every ASCII character except the two quotes, the backtick,
   hash, dollar, minus, slash and the opening bracket): two texts that are equal after collapsing every white-space
   run to one marker (sq) are lexed into the same significant tokens -- same types, values equal up to white space
   (Lrel) -- separated by white-space tokens at the same places. *)
Theorem C11_lex_run_all : forall t t' l l',
  sq RSp false t = sq RSp false t' -> C11RunAll.oktextb t = true -> C11RunAll.oktextb t' = true ->
  cur_lex t = Ok l -> cur_lex t' = Ok l' -> C11RunAll.Lrel l l'.
Proof. exact C11RunAll.C11_lex_run_all. Qed.
Print Assumptions C11_lex_run_all.

Theorem C11_lex_run_types : forall t t' l l',
  sq RSp false t = sq RSp false t' -> C11RunAll.oktextb t = true -> C11RunAll.oktextb t' = true ->
  cur_lex t = Ok l -> cur_lex t' = Ok l' -> C11RunAll.sigtypes l = C11RunAll.sigtypes l'.
Proof. exact C11RunAll.C11_lex_run_types. Qed.
Print Assumptions C11_lex_run_types.

(* FROM THE TEXT TO THE STATEMENTS: composed with C11_split below.  Two texts over the covered characters that are equal
   after collapsing every white-space run to one marker are split into the same statements, with the same significant
   tokens in each.  Two side conditions on the token lists, both decidable: no significant non-keyword token has white
   space inside its value (the two-word builtin DOUBLE PRECISION has: the skeleton relation compares such values as they
   are), and the guard of C11_split about single-line comments (none can occur here: `-` and `#` are not covered). *)
Theorem C11_text_split_run : forall t t' l l',
  sq RSp false t = sq RSp false t' -> C11RunAll.oktextb t = true -> C11RunAll.oktextb t' = true ->
  cur_lex t = Ok l -> cur_lex t' = Ok l' ->
  C11RunSplit.nonkw_nospace l = true -> brk_agreeb l l' = true ->
  stmt_sigs (cur_process l) = stmt_sigs (cur_process l').
Proof. exact C11RunSplit.C11_text_split_run. Qed.
Print Assumptions C11_text_split_run.

(* ... and the first statement has the same TYPE (get_type), composed with the barrier theorem of C18: the leading DML/DDL
   keyword, preceded by white space only, may be a compound keyword spelled with any runs (CREATE<run>OR<run>REPLACE) *)
Theorem C11_text_get_type_run : forall t t' pre ty kw rest,
  sq RSp false t = sq RSp false t' -> C11RunAll.oktextb t = true -> C11RunAll.oktextb t' = true ->
  cur_lex t = Ok (pre ++ (ty, kw) :: rest) -> forallb ws_tok pre = true -> ws_tok (ty, kw) = false ->
  BarrierDefs.barrier_guard pre ty kw rest = true ->
  forall l', cur_lex t' = Ok l' ->
  (forall pre' kw' rest', l' = pre' ++ (ty, kw') :: rest' -> BarrierDefs.barrier_guard pre' ty kw' rest' = true) ->
  exists s ss s' ss', cur_parse t = Ok (s :: ss) /\ cur_parse t' = Ok (s' :: ss')
                      /\ Accessors.get_type s = Accessors.get_type s'.
Proof. exact C11RunSplit.C11_text_get_type_run. Qed.
Print Assumptions C11_text_get_type_run.

(* the generic statement: any rule table that meets table_ok *)
Theorem C11_lex_all_generic : forall lower upper rules kws S oktext, table_ok lower rules kws S oktext ->
  forall n t t' p p' l l', length t <= n ->
  LexSpec lower upper rules kws p t l -> LexSpec lower upper rules kws p' t' l' ->
  srel S (mkSt p t) (mkSt p' t') -> oktext t -> oktext t' ->
  if snext_t S t then RunLexAll.Lrel S l l' else RunLexAll.Lrel0 S l l'.
Proof. exact RunLexAll.lex_all. Qed.

Theorem C11_RS_refl : forall S t, RS S t t.
Proof. exact RunLex.RS_refl. Qed.

(* ---- splitter ---------------------------------------------------------------------------------- *)
(* THE skeleton relation (same significant tokens up to keyword case / inner whitespace, whitespace runs
   non-empty at the same places) with NO guard on the spelling of any keyword; the one remaining guard is about
   single-line comments after a terminator (finding C11-comment-after-terminator, refuted below): the runs in
   front of such a comment agree on containing a line break *)
Theorem C11_split : forall l l', skel0b l l' = true -> brk_agreeb l l' = true ->
  stmt_sigs (cur_process l) = stmt_sigs (cur_process l').
Proof. exact split_skel0_invariant. Qed.
Print Assumptions C11_split.

(* the spelling guard of the earlier versions of this file follows from the relation *)
Theorem C11_split_guard_free : forall a b, tok_skelb false a b = true -> tok_skelb true a b = true.
Proof. exact (tok_skelb_any true). Qed.
Print Assumptions C11_split_guard_free.

(* ... even when whitespace runs appear or vanish *)
Theorem C11_split_any_support : forall l l', skel_splitb l l' = true ->
  stmt_sigs (cur_process l) = stmt_sigs (cur_process l').
Proof. exact (split_skel_invariant false). Qed.
Print Assumptions C11_split_any_support.

(* letter case, from text to statements: re-casing inside keyword tokens (any of them, GO included) *)
Theorem C11_case_split : forall t t' l l',
  Forall2 CaseDefs.Rcase t t' -> cur_lex t = Ok l -> cur_lex t' = Ok l' -> Forall2 C11Case.kw_only l l' ->
  map fst l = map fst l' /\ stmt_sigs (cur_process l) = stmt_sigs (cur_process l').
Proof. exact C11Case.C11_case_split_full. Qed.
Print Assumptions C11_case_split.

(* ---- grouping: _group_matching (Parenthesis, SquareBrackets, Case, If, For, Begin) --------------- *)
(* every class, If ('END IF') and For ('END LOOP') included: Token.match compares Token.normalized, which
   depends on a keyword's value only through its key (upper-cased, inner whitespace collapsed) *)
Theorem C11_group_matching : forall c n n',
  shape n = shape n' -> shape (stack_match_rec c n) = shape (stack_match_rec c n').
Proof. exact SkelFacts.C11_group_matching. Qed.
Print Assumptions C11_group_matching.

Theorem C11_group_matching_pass : forall c n n' m m',
  shape n = shape n' -> group_matching c n = Ok m -> group_matching c n' = Ok m' -> shape m = shape m'.
Proof.
  intros c n n' m m'. apply (group_matching_shape_inv' kap0 c (kd0 c)).
  intros ty v W. apply kd0_spec; assumption.
Qed.
Print Assumptions C11_group_matching_pass.

(* lexed streams related by the skeleton: same statements, and trees of the same shape after
   a bracket-matching pass on each freshly built statement *)
Theorem C11_split_then_match : forall c l l', skelb l l' = true ->
  map (fun s => shape (stack_match_rec c (statement_of s))) (cur_process l)
  = map (fun s => shape (stack_match_rec c (statement_of s))) (cur_process l').
Proof. exact SkelFacts.C11_split_then_match. Qed.
Print Assumptions C11_split_then_match.

(* ---- the full property is false: the witnesses that remain ---------------------------------------- *)
Theorem C11_comment_after_semi_refuted :
  respelling w_comment_nl_a w_comment_nl_b
  /\ map (@length _) (split_sigs w_comment_nl_a) = [4; 2]
  /\ map (@length _) (split_sigs w_comment_nl_b) = [3; 3].
Proof. exact C11Wit.C11_comment_after_semi_refuted. Qed.
Print Assumptions C11_comment_after_semi_refuted.

(* a white-space run of a different LENGTH changes the tree when the statement has two `:=` (stale indices of the generic
   _group driver after group_assignment grouped up to the far `;`): finding C11-assignment-stale-index *)
Theorem C11_assignment_run_refuted :
  respelling w_assign2_a w_assign2_b /\ parse_shapes w_assign2_a <> parse_shapes w_assign2_b.
Proof. exact C11Wit.C11_assignment_run_refuted. Qed.
Print Assumptions C11_assignment_run_refuted.

(* ---- the witnesses of the repaired defects: now the same shapes / the same statements ---------------- *)
Theorem C11_order_by_ws_same :
  respelling w_order_by_a w_order_by_b /\ parse_shapes w_order_by_a = parse_shapes w_order_by_b.
Proof. exact C11Wit.C11_order_by_ws_same. Qed.
Theorem C11_union_all_ws_same :
  respelling w_union_all_a w_union_all_b /\ parse_shapes w_union_all_a = parse_shapes w_union_all_b.
Proof. exact C11Wit.C11_union_all_ws_same. Qed.
Theorem C11_end_if_ws_same :
  respelling w_end_if_a w_end_if_b /\ parse_shapes w_end_if_a = parse_shapes w_end_if_b.
Proof. exact C11Wit.C11_end_if_ws_same. Qed.
Theorem C11_end_loop_ws_same :
  respelling w_end_loop_a w_end_loop_b /\ parse_shapes w_end_loop_a = parse_shapes w_end_loop_b.
Proof. exact C11Wit.C11_end_loop_ws_same. Qed.
Theorem C11_as_case_same :
  respelling w_as_case_a w_as_case_b /\ parse_shapes w_as_case_a = parse_shapes w_as_case_b.
Proof. exact C11Wit.C11_as_case_same. Qed.
Theorem C11_go_case_same :
  respelling w_go_case_a w_go_case_b
  /\ length (split_sigs w_go_case_a) = 2 /\ split_sigs w_go_case_a = split_sigs w_go_case_b.
Proof. exact C11Wit.C11_go_case_same. Qed.
Theorem C11_split_end_if_ws_same :
  respelling w_split_end_if_a w_split_end_if_b
  /\ length (split_sigs w_split_end_if_a) = 2 /\ split_sigs w_split_end_if_a = split_sigs w_split_end_if_b.
Proof. exact C11Wit.C11_split_end_if_ws_same. Qed.
Theorem C11_go_n_lex_same :
  lex_ok w_go_n_a = true /\ lex_ok w_go_n_b = true
  /\ skel0b (lexed w_go_n_a) (lexed w_go_n_b) = true
  /\ length (sig (lexed w_go_n_a)) = 5 /\ length (sig (lexed w_go_n_b)) = 5
  /\ split_sigs w_go_n_a = split_sigs w_go_n_b.
Proof. exact C11Wit.C11_go_n_lex_same. Qed.
