(* C19, the command line clause: "the `sqlformat` command given a file or stdin with an encoding and option flags
   writes exactly what `format()` returns for the decoded text and the corresponding options", quantified over
   every documented CLI option flag x {file, stdin} x {stdout, -o file}.

   Model: Sys/CliDefs.v (argparse subset + main) over the regenerated tables Gen/CliTab.v (create_parser(), the
   open modes of main()) and Gen/OptTab.v (validate_options / build_filter_stack).  `format` is a parameter of
   the model: the theorems hold for every format function.  Statements only; proofs in Sys/CliFacts.v. *)
From Coq Require Import ZArith String.
From SqlModel Require Import Base PyStr Utf8.
From SqlModel.Filters Require Import OptDefs OptFacts.
From SqlModel.Sys Require Import CliTypes CliDefs CliFacts.
From SqlModel.Gen Require OptTab CliTab.

(* ---- the flags: argv -> options -------------------------------------------------------------------- *)
(* every command line made of documented uses of flags (every spelling, `flag value` or `flag=value`, repeats)
   around one file name parses, and the namespace is: defaults, then option := documented value per use *)
Theorem C19cli_options_spec : forall us1 us2 f,
  forallb valid_use us1 = true -> forallb valid_use us2 = true -> is_filename f = true ->
  cli_parse (render us1 ++ f :: render us2)
  = COk (apply_uses us2 (oset (apply_uses us1 (ns_default CliTab.cli_args)) k_filename (PStr f))).
Proof. exact cli_options_spec. Qed.

Theorem C19cli_options_lookup : forall us1 us2 f k,
  forallb valid_use us1 = true -> forallb valid_use us2 = true -> is_filename f = true ->
  exists ns, cli_parse (render us1 ++ f :: render us2) = COk ns /\
    ofind ns k = meant us2 k (if text_eqb k_filename k then Some (PStr f)
                              else meant us1 k (ofind (ns_default CliTab.cli_args) k)).
Proof. exact cli_options_lookup. Qed.

Theorem C19cli_flag_lookup : forall u o val f k,
  use_value u = Some (o, val) -> is_filename f = true ->
  exists ns, cli_parse (render_use u ++ [f]) = COk ns /\
    ofind ns k = if text_eqb k_filename k then Some (PStr f)
                 else if text_eqb o k then Some val else ofind (ns_default CliTab.cli_args) k.
Proof. exact cli_flag_lookup. Qed.

(* the documented table is realised by the parser: every documented spelling is an option string whose dest is
   the documented option and whose action/type/choices have the documented kind (recomputed on every run) *)
Theorem C19cli_doc_table : doc_table_ok CliTab.cli_args = true.
Proof. exact doc_table_ok_now. Qed.

(* options not given mean "off" *)
Theorem C19cli_defaults_off : forall f,
  (match OptTab.validate_options (oset (ns_default CliTab.cli_args) k_filename (PStr f)) with
   | OOk vo => stack_of (format_kwargs vo)
   | OErr e => OErr e
   end) = stack_of [].
Proof. exact cli_defaults_off. Qed.

Theorem C19cli_defaults_keys : forall f,
  match OptTab.validate_options (oset (ns_default CliTab.cli_args) k_filename (PStr f)), OptTab.validate_options [] with
  | OOk a, OOk b => forallb (fun k => match ofind a k, ofind b k with
                                      | Some x, Some y => py_eq x y
                                      | Some x, None => negb (py_truthy x)
                                      | None, None => true
                                      | None, Some _ => false
                                      end) OptTab.option_keys = true
  | _, _ => False
  end.
Proof. exact cli_defaults_keys. Qed.

(* 2^8 x 6 command lines: same filter stack as format(sql, **meant keywords) *)
Theorem C19cli_semantics_family : forall us, In us family ->
  cli_stack (render us ++ [fam_file]) = COk (stack_of (meant_dict us)).
Proof. exact cli_semantics_family. Qed.

(* ---- main(): what is written ------------------------------------------------------------------------- *)
Theorem C19cli_writes_format_stdout : forall lookup format fs_read fs_can_write stdin argv ns vo f e c bytes s out,
  cli_parse argv = COk ns ->
  oget ns k_filename PNone = PStr f -> oget ns k_encoding PNone = PStr e -> resolve lookup e = Some c ->
  codec_law c -> input_bytes fs_read stdin f = Some bytes -> cc_encode c s = Some bytes -> no_cr s = true ->
  py_truthy (oget ns k_outfile PNone) = false ->
  OptTab.validate_options ns = OOk vo -> format s vo = Ok out ->
  cli_main lookup format fs_read fs_can_write stdin argv
  = {| cr_status := SReturn 0; cr_err := ENone; cr_stdout := out; cr_outfile := None |}.
Proof. exact cli_writes_format_stdout. Qed.

Theorem C19cli_writes_format_outfile : forall lookup format fs_read fs_can_write stdin argv ns vo f e c bytes s out p ob,
  cli_parse argv = COk ns ->
  oget ns k_filename PNone = PStr f -> oget ns k_encoding PNone = PStr e -> resolve lookup e = Some c ->
  codec_law c -> input_bytes fs_read stdin f = Some bytes -> cc_encode c s = Some bytes -> no_cr s = true ->
  oget ns k_outfile PNone = PStr p -> p <> [] -> fs_can_write p = true ->
  OptTab.validate_options ns = OOk vo -> format s vo = Ok out ->
  cc_encode c out = Some ob ->
  cli_main lookup format fs_read fs_can_write stdin argv
  = {| cr_status := SReturn 0; cr_err := ENone; cr_stdout := []; cr_outfile := Some (p, ob) |}.
Proof. exact cli_writes_format_outfile. Qed.

Theorem C19cli_writes_file_stdout : forall lookup format fs_read fs_can_write stdin argv ns vo f e c bytes s out,
  cli_parse argv = COk ns -> oget ns k_filename PNone = PStr f -> text_eqb f CliTab.cli_stdin_marker = false ->
  oget ns k_encoding PNone = PStr e -> resolve lookup e = Some c -> codec_law c ->
  fs_read f = Some bytes -> cc_encode c s = Some bytes -> no_cr s = true ->
  py_truthy (oget ns k_outfile PNone) = false ->
  OptTab.validate_options ns = OOk vo -> format s vo = Ok out ->
  cli_main lookup format fs_read fs_can_write stdin argv
  = {| cr_status := SReturn 0; cr_err := ENone; cr_stdout := out; cr_outfile := None |}.
Proof. exact cli_writes_file_stdout. Qed.

Theorem C19cli_writes_stdin_stdout : forall lookup format fs_read fs_can_write stdin argv ns vo e c s out,
  cli_parse argv = COk ns -> oget ns k_filename PNone = PStr CliTab.cli_stdin_marker ->
  oget ns k_encoding PNone = PStr e -> resolve lookup e = Some c -> codec_law c ->
  cc_encode c s = Some stdin -> no_cr s = true ->
  py_truthy (oget ns k_outfile PNone) = false ->
  OptTab.validate_options ns = OOk vo -> format s vo = Ok out ->
  cli_main lookup format fs_read fs_can_write stdin argv
  = {| cr_status := SReturn 0; cr_err := ENone; cr_stdout := out; cr_outfile := None |}.
Proof. exact cli_writes_stdin_stdout. Qed.

Theorem C19cli_writes_file_outfile : forall lookup format fs_read fs_can_write stdin argv ns vo f e c bytes s out p ob,
  cli_parse argv = COk ns -> oget ns k_filename PNone = PStr f -> text_eqb f CliTab.cli_stdin_marker = false ->
  oget ns k_encoding PNone = PStr e -> resolve lookup e = Some c -> codec_law c ->
  fs_read f = Some bytes -> cc_encode c s = Some bytes -> no_cr s = true ->
  oget ns k_outfile PNone = PStr p -> p <> [] -> fs_can_write p = true ->
  OptTab.validate_options ns = OOk vo -> format s vo = Ok out -> cc_encode c out = Some ob ->
  cli_main lookup format fs_read fs_can_write stdin argv
  = {| cr_status := SReturn 0; cr_err := ENone; cr_stdout := []; cr_outfile := Some (p, ob) |}.
Proof. exact cli_writes_file_outfile. Qed.

Theorem C19cli_writes_stdin_outfile : forall lookup format fs_read fs_can_write stdin argv ns vo e c s out p ob,
  cli_parse argv = COk ns -> oget ns k_filename PNone = PStr CliTab.cli_stdin_marker ->
  oget ns k_encoding PNone = PStr e -> resolve lookup e = Some c -> codec_law c ->
  cc_encode c s = Some stdin -> no_cr s = true ->
  oget ns k_outfile PNone = PStr p -> p <> [] -> fs_can_write p = true ->
  OptTab.validate_options ns = OOk vo -> format s vo = Ok out -> cc_encode c out = Some ob ->
  cli_main lookup format fs_read fs_can_write stdin argv
  = {| cr_status := SReturn 0; cr_err := ENone; cr_stdout := []; cr_outfile := Some (p, ob) |}.
Proof. exact cli_writes_stdin_outfile. Qed.

(* both halves: a command line of documented flags around FILE or "-" *)
Theorem C19cli_documented_writes : forall lookup format fs_read fs_can_write stdin us1 us2 f vo e c bytes s out,
  forallb valid_use us1 = true -> forallb valid_use us2 = true -> is_filename f = true ->
  let ns := apply_uses us2 (oset (apply_uses us1 (ns_default CliTab.cli_args)) k_filename (PStr f)) in
  oget ns k_encoding PNone = PStr e -> resolve lookup e = Some c -> codec_law c ->
  input_bytes fs_read stdin f = Some bytes -> cc_encode c s = Some bytes -> no_cr s = true ->
  OptTab.validate_options ns = OOk vo -> format s vo = Ok out ->
  match oget ns k_outfile PNone with
  | PStr (ch :: p) =>
      fs_can_write (ch :: p) = true -> forall ob, cc_encode c out = Some ob ->
      cli_main lookup format fs_read fs_can_write stdin (render us1 ++ f :: render us2)
      = {| cr_status := SReturn 0; cr_err := ENone; cr_stdout := []; cr_outfile := Some (ch :: p, ob) |}
  | v =>
      py_truthy v = false ->
      cli_main lookup format fs_read fs_can_write stdin (render us1 ++ f :: render us2)
      = {| cr_status := SReturn 0; cr_err := ENone; cr_stdout := out; cr_outfile := None |}
  end.
Proof. exact cli_documented_writes. Qed.

(* without the guard on CR: the text handed to format is the decoded text after the newline translation of the
   open mode found in the source *)
Theorem C19cli_main_stdout_general : forall lookup format fs_read fs_can_write stdin argv ns vo f e c bytes s out,
  cli_parse argv = COk ns ->
  oget ns k_filename PNone = PStr f -> oget ns k_encoding PNone = PStr e -> resolve lookup e = Some c ->
  input_bytes fs_read stdin f = Some bytes -> cc_decode c bytes = Ok s ->
  py_truthy (oget ns k_outfile PNone) = false ->
  OptTab.validate_options ns = OOk vo ->
  format (translate_nl (input_nl f) s) vo = Ok out ->
  cli_main lookup format fs_read fs_can_write stdin argv
  = {| cr_status := SReturn 0; cr_err := ENone; cr_stdout := out; cr_outfile := None |}.
Proof. exact cli_main_stdout_general. Qed.

(* ---- the guards are needed: refutations with witnesses ----------------------------------------------- *)
Theorem C19cli_newlines_refuted :
  utf8_encode nl_text = Some nl_text /\ fmt_id nl_text [] = Ok nl_text /\ nl_out <> nl_text /\
  cli_main no_lookup fmt_id (fs_one (tx "f.sql") nl_text) fs_any [] [tx "f.sql"]
  = {| cr_status := SReturn 0; cr_err := ENone; cr_stdout := nl_out; cr_outfile := None |} /\
  cli_main no_lookup fmt_id (fun _ => None) fs_any nl_text [tx "-"]
  = {| cr_status := SReturn 0; cr_err := ENone; cr_stdout := nl_out; cr_outfile := None |}.
Proof. exact cli_newlines_refuted. Qed.

Theorem C19cli_newlines_current :
  nl_is_universal (os_nl CliTab.cli_file_open) = true /\ nl_is_universal (os_nl CliTab.cli_stdin_open) = true.
Proof. exact cli_newlines_current. Qed.

Theorem C19cli_bool_flag_refuted :
  (exists ns, cli_parse [tx "f.sql"; tx "--comma_first"; tx "False"] = COk ns
              /\ ofind ns o_comma_first = Some (PBool true))
  /\ (exists ns, cli_parse [tx "f.sql"; tx "--compact"; tx "0"] = COk ns /\ ofind ns o_compact = Some (PBool true))
  /\ cli_stack [tx "f.sql"; tx "-r"; tx "--comma_first"; tx "False"] = COk (OOk bf_stack_on)
  /\ stack_of [(o_reindent, PBool true); (o_comma_first, PBool false)] = OOk bf_stack_off
  /\ stack_of [(o_reindent, PBool true); (o_comma_first, PBool true)] = OOk bf_stack_on
  /\ bf_stack_on <> bf_stack_off.
Proof. exact cli_bool_flag_refuted. Qed.

Theorem C19cli_bool_flag_exact : forall v, is_arg v = true ->
  exists ns, cli_parse [tx "--comma_first"; v; tx "f.sql"] = COk ns
             /\ ofind ns o_comma_first = Some (PBool (match v with [] => false | _ => true end)).
Proof. exact cli_bool_flag_exact. Qed.

Theorem C19cli_unencodable_refuted :
  cc_encode KLatin1 ue_text = Some ue_text /\ no_cr ue_text = true /\ fmt_upper ue_text [] = Ok ue_out /\
  cc_encode KLatin1 ue_out = None /\
  cli_main no_lookup fmt_upper (fs_one (tx "f.sql") ue_text) fs_any [] ue_argv
  = {| cr_status := SRaise XUnicodeEncodeError; cr_err := ENone; cr_stdout := [];
       cr_outfile := Some (tx "out.sql", []) |} /\
  cli_main no_lookup fmt_upper (fs_one (tx "f.sql") ue_text) fs_any [] [tx "f.sql"; tx "--encoding"; tx "latin-1"]
  = {| cr_status := SReturn 0; cr_err := ENone; cr_stdout := ue_out; cr_outfile := None |}.
Proof. exact cli_unencodable_refuted. Qed.

Theorem C19cli_output_encoding_current : enc_src_is_args (os_enc CliTab.cli_out_open) = true.
Proof. exact cli_output_encoding_current. Qed.

(* ---- the default encoding ------------------------------------------------------------------------------ *)
Theorem C19cli_default_encoding_utf8 :
  CliTab.cli_default_encoding = tx "utf-8"
  /\ ofind (ns_default CliTab.cli_args) k_encoding = Some (PStr CliTab.cli_default_encoding)
  /\ os_enc CliTab.cli_stdin_open = EncArgs /\ os_enc CliTab.cli_file_open = EncArgs
  /\ os_enc CliTab.cli_out_open = EncArgs
  /\ (forall lookup, resolve lookup CliTab.cli_default_encoding = Some KUtf8)
  /\ (forall us1 us2 f,
        forallb valid_use us1 = true -> forallb valid_use us2 = true -> is_filename f = true ->
        existsb (sets k_encoding) us1 = false -> existsb (sets k_encoding) us2 = false ->
        exists ns, cli_parse (render us1 ++ f :: render us2) = COk ns
                   /\ oget ns k_encoding PNone = PStr (tx "utf-8")).
Proof. exact cli_default_encoding_utf8. Qed.

Theorem C19cli_stdin_marker_dash : CliTab.cli_stdin_marker = tx "-".
Proof. exact cli_stdin_marker_dash. Qed.

Print Assumptions C19cli_options_spec.
Print Assumptions C19cli_options_lookup.
Print Assumptions C19cli_flag_lookup.
Print Assumptions C19cli_doc_table.
Print Assumptions C19cli_defaults_off.
Print Assumptions C19cli_defaults_keys.
Print Assumptions C19cli_semantics_family.
Print Assumptions C19cli_writes_format_stdout.
Print Assumptions C19cli_writes_format_outfile.
Print Assumptions C19cli_writes_file_stdout.
Print Assumptions C19cli_writes_stdin_stdout.
Print Assumptions C19cli_writes_file_outfile.
Print Assumptions C19cli_writes_stdin_outfile.
Print Assumptions C19cli_documented_writes.
Print Assumptions C19cli_main_stdout_general.
Print Assumptions C19cli_newlines_refuted.
Print Assumptions C19cli_newlines_current.
Print Assumptions C19cli_bool_flag_refuted.
Print Assumptions C19cli_bool_flag_exact.
Print Assumptions C19cli_unencodable_refuted.
Print Assumptions C19cli_output_encoding_current.
Print Assumptions C19cli_default_encoding_utf8.
Print Assumptions C19cli_stdin_marker_dash.
