(* C14 - Quoted strings, quoted names, comments and dollar-quoted bodies are each ONE token whatever
   they contain; every word of the keyword dictionaries, in any letter case and delimited context,
   is ONE token of the type given by the first dictionary that lists it (or by an earlier dedicated
   lexical rule); a word in no dictionary is a Name. *)
From SqlModel.Gen Require LexPins.
From SqlModel Require Import Base PyStr Re MinWidth Lexer CaseDefs WordsDefs RegionDefs Regions
     RegionExamples NameWordsDefs.
From SqlModel.Gen Require Import Atoms CaseTabs KwTabs Rules.
From SqlModel.Inst Require Import Cur WordsCur WordsFin Words NameWordsInst.
From SqlModel Require SwallowDefs SwallowFacts.
From SqlModel.Inst Require C14Swallow.

Local Open Scope N_scope.

(* ================================================================================================
   regions: in the scan loop, at any position (any look-behind character p, any continuation rest)
   ================================================================================================ *)
Theorem C14_single_quoted : forall p body rest,
  quoted_body_ok 39 true body = true -> quoted_right_ok 39 rest = true ->
  cur_lex_go p 0%nat (([39] ++ body ++ [39]) ++ rest) =
  match cur_lex_go (Some 39) 0%nat rest with
  | Ok ts => Ok ((T_Single, [39] ++ body ++ [39]) :: ts)
  | Err e => Err e
  end.
Proof. exact single_quoted_lexed. Qed.
Print Assumptions C14_single_quoted.

Theorem C14_double_quoted : forall p body rest,
  quoted_body_ok 34 true body = true -> quoted_right_ok 34 rest = true ->
  cur_lex_go p 0%nat (([34] ++ body ++ [34]) ++ rest) =
  match cur_lex_go (Some 34) 0%nat rest with
  | Ok ts => Ok ((T_Symbol, [34] ++ body ++ [34]) :: ts)
  | Err e => Err e
  end.
Proof. exact double_quoted_lexed. Qed.
Print Assumptions C14_double_quoted.

Theorem C14_backtick : forall p body rest,
  quoted_body_ok 96 false body = true -> quoted_right_ok 96 rest = true ->
  cur_lex_go p 0%nat (([96] ++ body ++ [96]) ++ rest) =
  match cur_lex_go (Some 96) 0%nat rest with
  | Ok ts => Ok ((T_Name, [96] ++ body ++ [96]) :: ts)
  | Err e => Err e
  end.
Proof. exact backtick_lexed. Qed.
Print Assumptions C14_backtick.

Theorem C14_block_comment : forall p body rest,
  bc_body_ok body = true ->
  cur_lex_go p 0%nat (([47; 42] ++ body ++ [42; 47]) ++ rest) =
  match cur_lex_go (Some 47) 0%nat rest with
  | Ok ts => Ok ((bc_type body, [47; 42] ++ body ++ [42; 47]) :: ts)
  | Err e => Err e
  end.
Proof. exact block_comment_lexed. Qed.
Print Assumptions C14_block_comment.

Theorem C14_line_comment : forall p o body closer rest,
  lc_opener_ok o = true -> lc_body_ok body = true -> lc_close_ok closer rest = true ->
  cur_lex_go p 0%nat ((o ++ body ++ closer) ++ rest) =
  match cur_lex_go (push_prev p (o ++ body ++ closer)) 0%nat rest with
  | Ok ts => Ok ((lc_type body, o ++ body ++ closer) :: ts)
  | Err e => Err e
  end.
Proof. exact line_comment_lexed. Qed.
Print Assumptions C14_line_comment.

Theorem C14_dollar_quoted : forall p tag closer body rest,
  dq_left_ok a_17 p = true -> dq_tag_ok a_19 word_set tag = true ->
  ci_eqb lower (dq_delim tag) closer = true ->
  dq_body_ok lower (dq_delim tag) closer body = true ->
  cur_lex_go p 0%nat ((dq_delim tag ++ body ++ closer) ++ rest) =
  match cur_lex_go (push_prev p (dq_delim tag ++ body ++ closer)) 0%nat rest with
  | Ok ts => Ok ((T_Literal, dq_delim tag ++ body ++ closer) :: ts)
  | Err e => Err e
  end.
Proof. exact dollar_quoted_lexed. Qed.
Print Assumptions C14_dollar_quoted.

(* the hint variants are sub-types of the plain comment types *)
Theorem C14_comment_types : forall body,
  tin (bc_type body) T_CMultiline = true /\ tin (lc_type body) T_CSingle = true.
Proof. exact (fun body => conj (bc_type_in body) (lc_type_in body)). Qed.

(* ---- the side conditions are needed ---------------------------------------------------------- *)
Theorem C14_single_quoted_backslash_refuted :
  exists body rest,
    forallb (fun c => negb (N.eqb c 39)) body = true /\ text_ok body = true
    /\ quoted_right_ok 39 rest = true
    /\ cur_first_match (mkSt None ([39] ++ body ++ [39] ++ rest))
       <> Some (Emit [Literal; String; Single], (1 + length body + 1)%nat).
Proof. exact single_quoted_backslash_refuted. Qed.

Theorem C14_single_quoted_adjacent_refuted :
  exists body rest,
    quoted_body_simple 39 body = true
    /\ cur_first_match (mkSt None ([39] ++ body ++ [39] ++ rest))
       <> Some (Emit [Literal; String; Single], (1 + length body + 1)%nat).
Proof. exact single_quoted_adjacent_refuted. Qed.

Theorem C14_line_comment_cr_refuted :
  exists body,
    forallb (fun c => negb (N.eqb c 10)) body = true /\ text_ok body = true
    /\ cur_first_match (mkSt None ([45; 45] ++ body ++ [10]))
       <> Some (Emit [Comment; Single], (2 + length body + 1)%nat).
Proof. exact line_comment_cr_refuted. Qed.

Theorem C14_dollar_left_refuted :
  exists p, cur_first_match (mkSt p (dq_delim [] ++ [97] ++ [36; 36])) = None.
Proof. exact dollar_left_refuted. Qed.

Theorem C14_dollar_case_refuted :
  exists body,
    dq_body_ok (fun c => c) (dq_delim [97]) (dq_delim [97]) body = true
    /\ cur_first_match (mkSt None (dq_delim [97] ++ body ++ dq_delim [97]))
       <> Some (Emit [Literal], (3 + length body + 3)%nat).
Proof. exact dollar_case_refuted. Qed.
Print Assumptions C14_dollar_case_refuted.

(* ---- from the text, not from the opener: which rules can run OVER an opener -------------------------- *)
(* the rules of the regenerated table whose match can contain a quote character, with the characters such a match
   can start with: the region rules (starting at their own opener) and the TZCast rule; the latter is pinned *)
Theorem C14_swallowers_pinned :
  SwallowDefs.swallow_tab 0 Rules.sql_regex
  = [(0, [35; 45]%N); (1, [47]%N); (2, [35; 45]%N); (3, [47]%N); (9, [96]%N); (10, [180]%N); (11, [36]%N);
     (25, [39]%N); (26, [34]%N); (27, [34]%N); (28, [91]%N); (44, [65; 87; 97; 119]%N)]%nat.
Proof. exact C14Swallow.swallowers_pinned. Qed.
Definition C14_pin_tzcast := C14Swallow.pin_tzcast.
(* x at time zone 'a;b' : the literal is part of the Keyword.TZCast token (finding C14-tzcast-literal) *)
Theorem C14_single_quoted_after_tzcast_refuted :
  match cur_lex C14Swallow.w_tzcast with
  | Ok toks => existsb (fun tk => ttype_eqb (fst tk) [Literal; String; Single]) toks = false
               /\ existsb (fun tk => ttype_eqb (fst tk) [Keyword; TZCast]
                                     && text_eqb (snd tk) (skipn 2 C14Swallow.w_tzcast)) toks = true
  | Err _ => False
  end.
Proof. exact C14Swallow.single_quoted_after_tzcast_refuted. Qed.
(* 1+/*c*/2 : the operator rule runs over the comment opener (finding C14-operator-glued-comment) *)
Theorem C14_comment_after_operator_refuted :
  match cur_lex C14Swallow.w_op_comment with
  | Ok toks => existsb (fun tk => tin (fst tk) [Comment]) toks = false
               /\ existsb (fun tk => ttype_eqb (fst tk) [Operator] && text_eqb (snd tk) [43; 47]%N) toks = true
  | Err _ => False
  end.
Proof. exact C14Swallow.comment_after_operator_refuted. Qed.
(* EVERY text: a token whose value contains a single quote is an Error character, a comment, a quoted name, a dollar-quoted
   or quoted literal, or the Keyword.TZCast token -- never another keyword, an operator, a number, punctuation, whitespace
   or an unquoted name.  (Soundness of the `consumes` analysis: Lexer/SwallowFacts.ends_clean, LexSpec_consumers.) *)
Theorem C14_quote_token_types : forall t toks tk,
  cur_lex t = Ok toks -> In tk toks -> In 39 (snd tk) ->
  existsb (ttype_eqb (fst tk)) C14Swallow.quote_types = true.
Proof. exact C14Swallow.quote_token_types. Qed.
Theorem C14_consumes_sound : forall c r, SwallowDefs.consumes c r = false ->
  forall x k, rmatch lower r x = Some k -> ~ In c (firstn k (rest x)).
Proof. intros c r H x k. exact (SwallowFacts.rmatch_clean lower c r x k H). Qed.
Print Assumptions C14_quote_token_types.
Print Assumptions C14_consumes_sound.
Print Assumptions C14_swallowers_pinned.
Print Assumptions C14_single_quoted_after_tzcast_refuted.

(* ================================================================================================
   dictionary words
   ================================================================================================ *)
(* the finite family: every dictionary word (upper-case, as listed) x the 35 contexts *)
Theorem C14_words_ctx_ok :
  forallb (fun w => negb (is_word lower sql_regex w)
                    || forallb (fun c => word_in_ctx_ok lower upper sql_regex kws w c) Ctx)
          cur_all_words = true.
Proof. exact words_ctx_ok_forallb. Qed.
Print Assumptions C14_words_ctx_ok.

(* every letter casing *)
Theorem C14_words : forall w, In w cur_all_words -> cur_is_word w = true ->
  forall w', Forall2 Rcase w w' ->
  forall c, In c Ctx ->
  exists ts, cur_lex (fst c ++ w' ++ snd c) = Ok ts
             /\ nth_error ts (cur_ntoks_left c) = Some (cur_expected_type w, w').
Proof. exact Words.C14_words. Qed.
Print Assumptions C14_words.

Theorem C14_words_alone : forall w, In w cur_all_words -> cur_is_word w = true ->
  forall w', Forall2 Rcase w w' -> cur_lex w' = Ok [(cur_expected_type w, w')].
Proof. exact Words.C14_words_alone. Qed.
Print Assumptions C14_words_alone.

(* the dictionary entries that are not words *)
Theorem C14_unreachable_entries :
  cur_unreachable_entries =
  [[66; 73; 84; 32; 86; 65; 82; 89; 73; 78; 71];
   [67; 72; 65; 82; 65; 67; 84; 69; 82; 32; 86; 65; 82; 89; 73; 78; 71];
   [68; 79; 85; 66; 76; 69; 32; 80; 82; 69; 67; 73; 83; 73; 79; 78];
   [69; 78; 68; 45; 69; 88; 69; 67]].
Proof. exact cur_unreachable. Qed.

(* contexts outside the family *)
Theorem C14_words_before_paren_refuted :
  exists w r, In w cur_all_words /\ cur_is_word w = true
    /\ cur_expected_type w = T_DML
    /\ (exists ts, cur_lex (w ++ r) = Ok ts /\ nth_error ts 0 = Some (T_Name, w)).
Proof. exact Words.C14_words_before_paren_refuted. Qed.

Theorem C14_words_after_dot_refuted :
  exists l w, In w cur_all_words /\ cur_is_word w = true
    /\ cur_expected_type w = T_DML
    /\ (exists ts, cur_lex (l ++ w) = Ok ts /\ nth_error ts 1 = Some (T_Name, w)).
Proof. exact Words.C14_words_after_dot_refuted. Qed.

Theorem C14_words_multiword_refuted :
  exists w r, In w cur_all_words /\ cur_is_word w = true
    /\ (exists ts, cur_lex (w ++ r) = Ok ts /\ nth_error ts 0 = Some (T_Keyword, w ++ r)).
Proof. exact Words.C14_words_multiword_refuted. Qed.
Print Assumptions C14_words_multiword_refuted.

(* ================================================================================================
   a word in no dictionary is a Name
   ================================================================================================ *)
Theorem C14_nonwords_are_names : forall s,
  plain_ident s = true -> kw_lookup (upper s) kws = T_Name -> cur_dedicated_type s = None ->
  forall c, In c Ctx ->
  exists ts, cur_lex (fst c ++ s ++ snd c) = Ok ts
             /\ nth_error ts (cur_ntoks_left c) = Some (T_Name, s).
Proof. exact NameWordsInst.C14_nonwords_are_names. Qed.
Print Assumptions C14_nonwords_are_names.

Theorem C14_nonword_alone : forall s,
  plain_ident s = true -> kw_lookup (upper s) kws = T_Name -> cur_dedicated_type s = None ->
  cur_lex s = Ok [(T_Name, s)].
Proof. exact NameWordsInst.C14_nonword_alone. Qed.
Print Assumptions C14_nonword_alone.

Theorem C14_nonwords_dedicated_refuted :
  exists s, plain_ident s = true /\ kw_lookup (upper s) kws = T_Name
            /\ cur_lex s = Ok [(T_Order, s)].
Proof. exact NameWordsInst.C14_nonwords_dedicated_refuted. Qed.
Print Assumptions C14_nonwords_dedicated_refuted.

(* the hand-modelled scan loop / keyword lookup / class-level state of sqlparse/lexer.py still have the pinned shape
   (tools/regen/gen_lexpins.py fails closed otherwise and this file no longer compiles) *)
Example C14_lexer_shape : SqlModel.Gen.LexPins.lexer_shape_checked = true.
Proof. reflexivity. Qed.

