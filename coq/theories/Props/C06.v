(* C06 - layout formatting never changes the significant tokens of the SQL.
   L1 (all four layout filters, all options): regenerated mutation-site inventory + abstract run theorem.
   L2/L3 (exact models): strip_whitespace, use_space_around_operators, reindent preserve the
   non-whitespace leaves; the serializer is characterised exactly. *)
(* source pins: the functions of /repo the hand-written models in this file's cone mirror have the normalised AST they
   were written from (tools/regen/gen_srcpins.py; a changed function breaks its Gen/Pin_*.v and this file with it) *)
From SqlModel.Gen Require LexPins.   (* the scan loop, is_keyword, consume and the class-level state of sqlparse/lexer.py have the pinned shape *)
From SqlModel.Gen Require Pin_filters_stripws Pin_filters_spaces Pin_filters_serializer Pin_filters_reindent Pin_filters_aligned Pin_filters_others_module Pin_api_glue Pin_formatter_module Pin_sql_tree.
From SqlModel.Inst Require PassTabOk.   (* the grouping tables and driver pins of Group/Passes.v equal the ones regenerated from the source *)
From SqlModel Require Import Base PyStr Node Inv.
From SqlModel.Filters Require Import Sites SitesFacts StripWs Spaces Serializer StripWsFacts SpacesFacts
     SerializerFacts SerializerSpec SerializerSpecFacts Reindent ReindentSpec ReindentFacts.
From SqlModel.Gen Require Import SiteInv.
From SqlModel.Inst Require Import C06.
From SqlModel.Props Require C10_ws.

Definition C06_L1 := C06_layer1.
Print Assumptions C06_layer1.

Definition C06_stripws_leaves := C10_ws.C06_stripws_leaves.
Definition C06_spaces_leaves := C10_ws.C06_spaces_leaves.
Definition C06_serialize_total := C10_ws.C06_serialize_total.
Definition C06_serialize_keeps_quoted := C10_ws.C06_serialize_keeps_quoted.

(* reindent (exact model, every sub-option): the non-whitespace leaves of every statement are those of
   the grouped statement *)
Theorem C06_reindent_leaves : forall (grp : node -> res node) o stmts s outs,
  run_stmts grp o s stmts = Ok outs ->
  exists gs, mapM grp stmts = Ok gs /\ Forall2 (fun g r => sig r = sig g) gs outs.
Proof. exact reindent_sigleaves. Qed.
Print Assumptions C06_reindent_leaves.

(* reindent_aligned (exact model): the non-whitespace leaves of every statement are those of the grouped statement *)
From SqlModel.Filters Require Import Aligned AlignedSpec AlignedFacts.
Theorem C06_aligned_leaves : forall (grp : node -> res node) stmts outs,
  arun_stmts grp stmts = Ok outs ->
  exists gs, mapM grp stmts = Ok gs /\ Forall2 (fun g r => sig r = sig g) gs outs.
Proof. exact aligned_sigleaves. Qed.
Print Assumptions C06_aligned_leaves.
