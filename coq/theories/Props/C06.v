(* C06 - layout formatting never changes the significant tokens of the SQL.
   L1 (all four layout filters, all options): regenerated mutation-site inventory + abstract run theorem.
   L2/L3 (exact models): strip_whitespace, use_space_around_operators, reindent preserve the
   non-whitespace leaves; the serializer is characterised exactly. *)
From SqlModel Require Import Base PyStr Node Inv.
From SqlModel.Filters Require Import Sites SitesFacts StripWs Spaces Serializer StripWsFacts SpacesFacts
     SerializerFacts SerializerSpec SerializerSpecFacts Reindent ReindentSpec ReindentFacts.
From SqlModel.Gen Require Import SiteInv.
From SqlModel.Inst Require Import C06.
From SqlModel.Props Require C10_ws.

Definition C06_L1 := C06_layer1.
Print Assumptions C06_layer1.

Definition C06_stripws_leaves := C10_ws.C06_stripws_leaves.
Definition C06_spaces_leaves := C10_ws.C06_spaces_leaves.
Definition C06_serialize_total := C10_ws.C06_serialize_total.
Definition C06_serialize_keeps_quoted := C10_ws.C06_serialize_keeps_quoted.

(* reindent (exact model, every sub-option): the non-whitespace leaves of every statement are those of
   the grouped statement *)
Theorem C06_reindent_leaves : forall (grp : node -> res node) o stmts s outs,
  run_stmts grp o s stmts = Ok outs ->
  exists gs, mapM grp stmts = Ok gs /\ Forall2 (fun g r => sig r = sig g) gs outs.
Proof. exact reindent_sigleaves. Qed.
Print Assumptions C06_reindent_leaves.

(* reindent_aligned (exact model): the non-whitespace leaves of every statement are those of the grouped statement *)
From SqlModel.Filters Require Import Aligned AlignedSpec AlignedFacts.
Theorem C06_aligned_leaves : forall (grp : node -> res node) stmts outs,
  arun_stmts grp stmts = Ok outs ->
  exists gs, mapM grp stmts = Ok gs /\ Forall2 (fun g r => sig r = sig g) gs outs.
Proof. exact aligned_sigleaves. Qed.
Print Assumptions C06_aligned_leaves.
