(* C11, the white-space half at the grouping layer, for re-spellings that keep the NUMBER of white-space tokens:
   every white-space token (type in T.Whitespace, Newline included) may carry any white-space value -- a tab for a blank,
   CR LF for LF, a no-break space -- together with the keyword spellings of Props/C11g.v (letter case, white space
   inside compound keywords).  The splitter, all 25 grouping passes and get_type() do not notice.  UNBOUNDED.
   (A run of a different LENGTH is a different number of tokens; the tree can then differ: C11.C11_assignment_run_refuted.) *)
From SqlModel.Gen Require Pin_sql_tree Pin_sql_clauses Pin_api_glue.
From SqlModel.Inst Require PassTabOk.
From SqlModel Require Import Base PyStr Re Lexer SplitDefs Splitter Node Passes PassIR Accessors.
From SqlModel Require Import CaseRelDefs WsRelDefs WsRelFacts.
From SqlModel.Gen Require Import CaseTabs PassTab.
From SqlModel.Inst Require Import Cur C11GroupDefs C11WsVal.

(* the syntactic obligation on the callbacks of the `_group` passes regenerated from grouping.py: none can tell two
   white-space values apart (Token.match patterns with a white-space type carry no values; every word a value is
   compared with has a character that is no white space) *)
Theorem C11w_callbacks_ws_safe : forallb (fun x => case_safe_w (snd x)) pt_callbacks = true.
Proof. exact callbacks_ws_safe. Qed.

(* the generic statement: ANY relation on keyword values that keeps Token.normalized and the comparisons with words
   without white space, ANY relation on white-space values that relates equal values or two white-space values *)
Theorem C11w_group_generic : forall (Rl Rw Rg : text -> text -> Prop),
  (forall v v', Rl v v' ->
     knorm v = knorm v' /\ (forall s, nospace s = true -> text_eqb (upper v) s = text_eqb (upper v') s)) ->
  (forall v v', Rw v v' -> v = v' \/ (wsv v = true /\ wsv v' = true)) ->
  (forall k k', Forall2 (wrelG Rl Rw Rg) k k' -> Rg (text_of_list k) (text_of_list k')) ->
  fn_guard Rl Rw Rg ->
  forall n n', wrelG Rl Rw Rg n n' -> rres (wrelG Rl Rw Rg) (group n) (group n').
Proof. exact group_prel. Qed.
Print Assumptions C11w_group_generic.

(* the instance: keyword tokens up to case and inner white space, white-space tokens up to any white-space value *)
Theorem C11w_group : forall n n', wsrel n n' -> rres wsrel (group n) (group n').
Proof. exact group_wsrel. Qed.
Print Assumptions C11w_group.

Theorem C11w_get_type : forall n n', wsrel n n' -> get_type n = get_type n'.
Proof. exact get_type_wsrel. Qed.

Theorem C11w_split_pointwise : forall l l',
  Forall2 tok_wsrel l l' -> Forall2 (Forall2 tok_wsrel) (cur_process l) (cur_process l').
Proof. exact split_pointwise_wsrel. Qed.
Print Assumptions C11w_split_pointwise.

(* from related token streams through splitter, grouping and get_type *)
Theorem C11w_parse_wsval : forall t t' l l',
  cur_lex t = Ok l -> cur_lex t' = Ok l' -> Forall2 tok_wsrel l l' ->
  forall ss, cur_parse t = Ok ss ->
  exists ss', cur_parse t' = Ok ss' /\ Forall2 wsrel ss ss' /\
              Forall2 (fun s s' => get_type s = get_type s') ss ss'.
Proof. exact C11_parse_wsval. Qed.
Print Assumptions C11w_parse_wsval.

Theorem C11w_parse_wsval_err : forall t t' l l',
  cur_lex t = Ok l -> cur_lex t' = Ok l' -> Forall2 tok_wsrel l l' ->
  forall e, cur_parse t = Err e -> cur_parse t' = Err e.
Proof. exact C11_parse_wsval_err. Qed.

(* the premise is decidable, and holds on a text with tabs, CR LF, a form feed, re-cased keywords and ORDER<2 blanks>BY *)
Theorem C11w_tok_wsrelb_sound : forall a b, tok_wsrelb a b = true -> tok_wsrel a b.
Proof. exact tok_wsrelb_sound. Qed.
