(* C18 - Statement.get_type() names the statement's leading DML/DDL keyword. *)
(* source pins: the functions of /repo the hand-written models in this file's cone mirror have the normalised AST they
   were written from (tools/regen/gen_srcpins.py; a changed function breaks its Gen/Pin_*.v and this file with it) *)
From SqlModel.Gen Require LexPins.   (* the scan loop, is_keyword, consume and the class-level state of sqlparse/lexer.py have the pinned shape *)
From SqlModel.Gen Require Pin_sql_clauses Pin_sql_tree Pin_api_glue Pin_lexer_rules.
From SqlModel.Inst Require PassTabOk.   (* the grouping tables and driver pins of Group/Passes.v equal the ones regenerated from the source *)
From SqlModel.Props Require C18b.   (* the unbounded pipeline-level barrier theorem *)
From SqlModel Require Import Base PyStr Node.
From SqlModel.Acc Require Import Accessors AccFacts.
From SqlModel.Inst Require Import CaseInv C18Fin.

Definition C18_direct := get_type_keyword.
Definition C18_cte := get_type_cte.
Definition C18_unknown_blank := get_type_unknown_blank.
Definition C18_unknown_other := get_type_unknown_other.
Definition C18_total := get_type_total.
Definition C18_rest_ignored_refuted_thm := C18_rest_ignored_refuted.
(* CREATE OR REPLACE with single blanks whatever whitespace separates the words (token level, every blank run;
   before the fix of Token.normalized in /repo this was refuted by `create  or\n replace view ...`) *)
Definition C18_create_or_replace_token_thm := C18_create_or_replace_token.
Definition C18_create_or_replace_ws_ex_thm := C18_create_or_replace_ws_ex.
Definition C18_lex_case := C_lex_case.
Print Assumptions get_type_keyword.
Print Assumptions get_type_cte.
Print Assumptions get_type_total.
Print Assumptions C18_rest_ignored_refuted.
Print Assumptions C18_create_or_replace_token.

(* pipeline level, finite family (bound in the statement): every DML/DDL word of the regenerated dictionaries x
   {as listed, lower case} x 6 prefixes (whitespace/comments) x 3 separators x 18 continuations, through lexer, splitter and
   all 25 grouping passes: get_type() of the first statement is the upper-cased keyword *)
Definition C18_pipeline_fin_thm := C18Fin.C18_pipeline_fin.
Definition C18_pipeline_fin_member_thm := C18Fin.C18_pipeline_fin_member.
Definition C18_create_or_replace_fin_thm := C18Fin.C18_create_or_replace_fin.
Print Assumptions C18Fin.C18_pipeline_fin_member.
Print Assumptions C18Fin.C18_create_or_replace_fin.
