(* C02 - parse() is text-preserving. *)
(* source pins: the functions of /repo the hand-written models in this file's cone mirror have the normalised AST they
   were written from (tools/regen/gen_srcpins.py; a changed function breaks its Gen/Pin_*.v and this file with it) *)
From SqlModel.Gen Require Pin_sql_tree Pin_api_glue.
From SqlModel.Gen Require LexPins.   (* the scan loop, is_keyword, consume and the class-level state of sqlparse/lexer.py have the pinned shape *)
From SqlModel.Inst Require PassTabRun.   (* the grouping tables of Group/Passes.v equal the ones regenerated from the source *)
From SqlModel Require Import Base PyStr Lexer SplitDefs Splitter SplitFacts Node Inv Passes GroupFacts.
From SqlModel.Gen Require Import SplitTab.
From SqlModel.Inst Require Import Cur ParseFacts.

(* joining str() of the statements reproduces the input, except for a trailing run of
   whitespace-typed tokens (the all-whitespace final statement the splitter drops) *)
Theorem C02_roundtrip : forall t stmts, cur_parse t = Ok stmts ->
  exists tail : list tok,
    t = flat_map text_of stmts ++ flat_map snd tail
    /\ Forall (fun tk => is_ws_tok tk = true) tail.
Proof.
  intros t stmts H. apply cur_parse_inv in H. destruct H as (toks & El & Hg).
  destruct (cur_lex_lossless t) as (toks' & El' & Hc & _). rewrite El in El'. injection El' as <-.
  exists (dropped reset_sstate change_splitlevel eos_ttypes is_terminator toks). split.
  - apply grouped_leaves in Hg. destruct Hg as [Hs _].
    assert (Ht : flat_map text_of stmts = flat_map snd (concat (cur_process toks))).
    { apply lsim_text in Hs. rewrite Hs. clear.
      induction stmts as [|n stmts IH]; [reflexivity|].
      cbn [flat_map]. rewrite flat_map_app, <- IH, text_of_leaves. reflexivity. }
    rewrite Ht, <- flat_map_app. unfold cur_process.
    rewrite process_partition, <- concat_map_flat_map. symmetry. exact Hc.
  - apply dropped_ws.
Qed.
Print Assumptions C02_roundtrip.

(* str() of any node is the concatenation of the values of its leaf tokens *)
Theorem C02_node_text : forall n : node, text_of n = flat_map snd (leaves n).
Proof. exact text_of_leaves. Qed.

(* the splitter puts every token into exactly one statement, in order; what it drops is a final
   all-whitespace statement -- for ANY level function / terminator test / EOS types *)
Theorem C02_splitter_partition : forall reset change eos term (stream : list tok),
  concat (process reset change eos term stream) ++ dropped reset change eos term stream = stream
  /\ Forall (fun tk => is_ws_tok tk = true) (dropped reset change eos term stream).
Proof. intros. split; [apply process_partition | apply dropped_ws]. Qed.

(* every grouping pass, and group() as a whole, preserves the text of the statement *)
Theorem C02_group_text : forall n n', group n = Ok n' -> text_of n' = text_of n.
Proof. intros n n' H. symmetry. apply nsim_text. apply group_good in H. apply H. Qed.
Print Assumptions C02_group_text.

Example C02_nonvacuous :
  exists stmts, cur_parse [115; 101; 108; 101; 99; 116; 32; 102; 40; 49; 41; 59; 32; 10]%N = Ok stmts
                /\ length stmts = 1.
Proof. eexists. split; [vm_compute; reflexivity | reflexivity]. Qed.
