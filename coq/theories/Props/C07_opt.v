(* C07, option part: only the statements, proved in Filters/OptFacts.v *)
From SqlModel Require Import Base OptDefs OptFacts.
From SqlModel.Gen Require Import OptTab.

Theorem C07_opt_partial : forall o, tame_opts icfg o = true ->
  (exists o', validate_options o = OOk o') \/ validate_options o = SQLErr.
Proof. exact C07_options_partial. Qed.
Theorem C07_opt_exn : forall o,
  (exists o', validate_options o = OOk o') \/ validate_options o = SQLErr \/
  validate_options o = OErr OverflowError \/ validate_options o = OErr (Exn ValueError).
Proof. exact C07_options_exn. Qed.
Theorem C07_opt_well_typed : forall o o', validate_options o = OOk o' -> Valid o'.
Proof. exact validated_well_typed. Qed.
Theorem C07_opt_first : forall A (run : fstack -> A -> ores (list N)) o (sql : A) e,
  validate_options o = OErr e -> format_model run o sql = OErr e.
Proof. exact C07_options_first. Qed.
Print Assumptions C07_opt_partial.
Print Assumptions C07_opt_exn.
Print Assumptions C07_opt_well_typed.
Print Assumptions C07_opt_first.
