(* C19 - all input forms and front ends give the same result.
   The part about the library entry points (parse / parsestream / split / format x str / bytes /
   stream); the command line is covered by the direct oracle in tools/props/C19.py. *)
(* source pins: the functions of /repo the hand-written models in this file's cone mirror have the normalised AST they
   were written from (tools/regen/gen_srcpins.py; a changed function breaks its Gen/Pin_*.v and this file with it) *)
From SqlModel.Gen Require Pin_api_glue Pin_formatter_module.
From SqlModel.Props Require C19cli.   (* the command line front end *)
From SqlModel.Gen Require LexPins.   (* the scan loop, is_keyword, consume and the class-level state of sqlparse/lexer.py have the pinned shape *)
From SqlModel Require Import Base PyStr Utf8 Utf8Facts Lexer.
From SqlModel.Sys Require Import FrontDefs Frontends FrontendsFacts.
From SqlModel.Gen Require Frontends.
From SqlModel.Inst Require Import Cur.

(* ---- what Lexer.get_tokens lexes ------------------------------------------------------------- *)
Theorem C19_str : forall s, decode_input (IStr s) = Ok s.
Proof. exact (decode_str Frontends.fe_fallback). Qed.

Theorem C19_stream : forall s, decode_input (IStream s) = Ok s.
Proof. exact (decode_stream Frontends.fe_fallback). Qed.

Theorem C19_utf8_noenc : forall s bs, utf8_encode s = Some bs -> decode_input (IBytes bs None) = Ok s.
Proof. exact (decode_utf8_noenc Frontends.fe_fallback). Qed.

Theorem C19_utf8_enc : forall s bs, utf8_encode s = Some bs -> decode_input (IBytes bs (Some CUtf8)) = Ok s.
Proof. exact (decode_utf8_enc Frontends.fe_fallback). Qed.

(* bytes + matching encoding; for a codec other than UTF-8/Latin-1 the hypothesis `other_law` is
   that codec's own round-trip law (decode (encode s) = s) *)
Theorem C19_bytes_enc : forall codec oenc s bs,
  other_law codec oenc -> roundtrips codec oenc s bs ->
  decode_input (IBytes bs (Some codec)) = Ok s.
Proof. exact (decode_bytes_enc Frontends.fe_fallback). Qed.

(* ---- hence the entry points agree on every form that denotes the text s ---------------------- *)
Theorem C19_parse_forms : forall oenc s i, denotes oenc s i -> api_parse i = api_parse (IStr s).
Proof. exact (api_forms_agree cur_parse). Qed.

Theorem C19_parsestream_forms : forall oenc s i, denotes oenc s i -> api_parsestream i = api_parse (IStr s).
Proof. exact (api_forms_agree cur_parse). Qed.

Theorem C19_split_forms : forall oenc s i, denotes oenc s i -> api_split i = api_split (IStr s).
Proof. exact (api_forms_agree split_text). Qed.

(* format with ANY option set: fmt is the text function the option-built filter stack computes *)
Theorem C19_format_forms : forall fmt oenc s i, denotes oenc s i -> api_format fmt i = api_format fmt (IStr s).
Proof. exact (fun fmt => api_forms_agree fmt). Qed.

Theorem C19_format_plain_forms : forall oenc s i, denotes oenc s i -> api_format_plain i = api_format_plain (IStr s).
Proof. exact (api_forms_agree cur_split_stream). Qed.

(* and they equal the text function applied to s *)
Theorem C19_api_of_text : forall (A : Type) (f : list N -> res A) oenc s i, denotes oenc s i -> api f i = f s.
Proof. exact (fun A f oenc s i H => api_of_text f i s (denotes_decode oenc s i H)). Qed.

(* ---- parse = tuple(parsestream) -------------------------------------------------------------- *)
Theorem C19_parse_is_stream : forall i, api_parse i = api_parsestream i.
Proof. exact (fun i => eq_refl). Qed.

Theorem C19_parse_is_stream_src : fe_parse_is_tuple_parsestream = true.
Proof. exact parse_is_tuple_parsestream_now. Qed.

(* every entry point hands (sql, encoding) unchanged, exactly once, to FilterStack.run, run to
   lexer.tokenize, tokenize to Lexer.get_tokens; nothing else reads them (AST facts, regenerated) *)
Theorem C19_single_decode : fe_single_decode = true.
Proof. exact single_decode_now. Qed.

(* ---- non-UTF-8 bytes without encoding: "read as Latin-1, as documented" ---------------------- *)
(* holds when no backslash occurs ... *)
Theorem C19_latin1_partial : forall bs e,
  utf8_decode bs = Err e -> no_backslash bs = true -> decode_input (IBytes bs None) = latin1_decode bs.
Proof. exact (decode_latin1_no_backslash Frontends.fe_fallback). Qed.

(* ... more generally when every backslash is followed by a byte that starts no escape ... *)
Theorem C19_latin1_partial_benign : forall bs e,
  utf8_decode bs = Err e -> benign false bs = true -> decode_input (IBytes bs None) = latin1_decode bs.
Proof. exact (decode_latin1_benign Frontends.fe_fallback). Qed.

(* ... and with the unicode-escape fallback ONLY then *)
Theorem C19_latin1_exact : forall bs e,
  forallb is_byte bs = true -> utf8_decode bs = Err e ->
  (decode_input_with FbUnicodeEscape (IBytes bs None) = latin1_decode bs <-> benign false bs = true).
Proof. exact decode_latin1_exact. Qed.

(* the full statement is false for the unicode-escape fallback: an escape is interpreted
   (b"select '\xe9\\n'"), or decoding raises (b"'\xe9\\x'") *)
Theorem C19_latin1_refuted_escape :
  (exists bs s, utf8_decode bs = Err UnicodeDecodeError
                /\ decode_input_with FbUnicodeEscape (IBytes bs None) = Ok s
                /\ latin1_decode bs <> Ok s)
  /\ (exists bs s, utf8_decode bs = Err UnicodeDecodeError
                   /\ latin1_decode bs = Ok s
                   /\ decode_input_with FbUnicodeEscape (IBytes bs None) = Err UnicodeDecodeError).
Proof. exact decode_latin1_refuted_escape. Qed.

Theorem C19_latin1_refuted : Frontends.fe_fallback = FbUnicodeEscape ->
  exists bs, utf8_decode bs = Err UnicodeDecodeError /\ decode_input (IBytes bs None) <> latin1_decode bs.
Proof. exact decode_latin1_refuted_if_escape. Qed.

(* and it is true for a Latin-1 fallback; which of the two the current source has *)
Theorem C19_latin1_if_fixed : forall bs e,
  utf8_decode bs = Err e -> decode_input_with FbLatin1 (IBytes bs None) = latin1_decode bs.
Proof. exact decode_latin1_if_fb_latin1. Qed.

Theorem C19_latin1_current :
  (Frontends.fe_fallback = FbLatin1
   /\ forall bs e, utf8_decode bs = Err e -> decode_input (IBytes bs None) = latin1_decode bs)
  \/ (Frontends.fe_fallback = FbUnicodeEscape
      /\ exists bs, utf8_decode bs = Err UnicodeDecodeError
                    /\ decode_input (IBytes bs None) <> latin1_decode bs).
Proof. exact decode_latin1_current. Qed.

(* The documented clause at full strength on the current tree: bytes that are not UTF-8 decode as Latin-1.  The proof
   computes the fallback codec named in the source (regenerated Gen/Frontends.v): it fails to check as soon as the source
   names another codec. *)
Theorem C19_latin1 : forall bs e,
  utf8_decode bs = Err e -> decode_input (IBytes bs None) = latin1_decode bs.
Proof. exact (decode_latin1_if_fb_latin1 : forall bs e, utf8_decode bs = Err e ->
                decode_input_with Frontends.fe_fallback (IBytes bs None) = latin1_decode bs). Qed.

Print Assumptions C19_str.
Print Assumptions C19_stream.
Print Assumptions C19_utf8_noenc.
Print Assumptions C19_utf8_enc.
Print Assumptions C19_bytes_enc.
Print Assumptions C19_parse_forms.
Print Assumptions C19_parsestream_forms.
Print Assumptions C19_split_forms.
Print Assumptions C19_format_forms.
Print Assumptions C19_format_plain_forms.
Print Assumptions C19_api_of_text.
Print Assumptions C19_parse_is_stream.
Print Assumptions C19_parse_is_stream_src.
Print Assumptions C19_single_decode.
Print Assumptions C19_latin1_partial.
Print Assumptions C19_latin1_partial_benign.
Print Assumptions C19_latin1_exact.
Print Assumptions C19_latin1_refuted_escape.
Print Assumptions C19_latin1_refuted.
Print Assumptions C19_latin1_if_fixed.
Print Assumptions C19_latin1_current.
Print Assumptions C19_latin1.
