(* C07 - totality: any text and any valid option set gives a result or SQLParseError. *)
(* source pins: the functions of /repo the hand-written models in this file's cone mirror have the normalised AST they
   were written from (tools/regen/gen_srcpins.py; a changed function breaks its Gen/Pin_*.v and this file with it) *)
From SqlModel.Gen Require LexPins.   (* the scan loop, is_keyword, consume and the class-level state of sqlparse/lexer.py have the pinned shape *)
From SqlModel.Gen Require Pin_filters_tokens Pin_filters_stripcomments Pin_filters_stripws Pin_filters_spaces Pin_filters_serializer Pin_filters_reindent Pin_filters_aligned Pin_filters_output Pin_filters_others_module Pin_sql_names Pin_sql_clauses Pin_sql_tree Pin_utils_helpers Pin_api_glue Pin_formatter_module.
From SqlModel.Inst Require PassTabRun.   (* the grouping tables of Group/Passes.v equal the ones regenerated from the source *)
From SqlModel Require Import Base PyStr Re Lexer Node Passes TotalDefs TotalFacts.
From SqlModel.Filters Require Import OptDefs OptFacts StripComments StripCommentsFacts.
From SqlModel.Gen Require Import OptTab.
From SqlModel.Inst Require Import Cur TotalParse.
From SqlModel.Props Require Export C07_opt C07_out.

(* parse() and the statement splitter never fail, whatever the text *)
Theorem C07_parse_total : forall t, exists stmts, cur_parse t = Ok stmts.
Proof. exact cur_parse_total. Qed.
Print Assumptions C07_parse_total.

Theorem C07_split_stream_total : forall t, exists stmts, cur_split_stream t = Ok stmts.
Proof. exact cur_split_stream_total. Qed.

(* grouping: each Err branch of each of the 25 passes is unreachable on what the splitter yields *)
Theorem C07_group_total : forall toks, exists n', group (statement_of toks) = Ok n'.
Proof. exact group_total. Qed.
Print Assumptions C07_group_total.

(* ... and the bracket-shape invariant threaded through passes 1-9 is necessary: on hand-built trees that no
   text produces group_where raises IndexError / does not terminate (the model's fuel runs out) *)
Definition C07_group_total_needs_shape_refuted := group_total_needs_shape_refuted.
Definition C07_group_where_diverges_without_shape_refuted := group_where_diverges_without_shape_refuted.

(* strip_comments is total on every tree *)
Theorem C07_strip_comments_total : forall n, exists n', strip_comments n = Ok n'.
Proof. exact sc_total. Qed.

(* RecursionError is one of the exceptions the property excludes: every site from which a depth-recursive function is
   reachable lies inside the try/except RecursionError -> SQLParseError of FilterStack.run (obligations over the call graph
   regenerated from the source, Inst/C15.v; the budget theorems are Props/C15.v) *)
From SqlModel.Inst Require C15.
Definition C07_recursion_guarded := C15.C15_callgraph.
Definition C07_recursion_guard_shape := C15.C15_guard_shape.
Definition C07_entries_guarded := C15.C15_entries_guarded.
