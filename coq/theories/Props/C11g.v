(* C11, grouping layer, letter case of keywords -- UNBOUNDED and UNGUARDED: all 25 passes of grouping.group,
   hence parse(), are insensitive to the ASCII letter case of keyword tokens.  (Until the `fix:` commits in
   /repo the statements carried two guards: the one literal test of group_functions, `token.value == 'AS'`,
   and the splitter's literal `GO`; the guarded forms are kept below, the headline theorems are
   C11_group_case_full / C11_parse_case_full / C11_parse_case_text_full.)
   Relations: Group/CaseRelDefs.v (crel: same structure, classes and token types; values equal except
   on leaves whose type is in T.Keyword, where they are ASCII re-casings of each other; cached group
   values re-casings).  Proofs: Group/CaseRelFacts.v (generic), Inst/C11Group.v (instances). *)
From SqlModel Require Import Base PyStr Re Lexer SplitDefs Splitter Node Passes PassIR CaseDefs.
From SqlModel Require Import Skeleton CaseRelDefs CaseRelFacts Accessors.
From SqlModel.Gen Require Import CaseTabs PassTab.
From SqlModel.Inst Require Import Cur PassTabDefs C11GroupDefs C11Group.

(* ---- callbacks: generically on the IR of the `_group` callbacks ------------------------------------- *)
(* a case-safe callback expression cannot tell related tokens apart (nor raise on one only) *)
Theorem C11g_callback_case_safe : forall e, case_safe e = true ->
  forall t t', orel crel t t' -> eval_px e t = eval_px e t'.
Proof. exact (case_safe_px CR CR CR_rl). Qed.
Print Assumptions C11g_callback_case_safe.

(* all 33 boolean callbacks generated from grouping.py are case safe; of the 11 post callbacks only
   group_operator's re-typing is not syntactically safe (it is safe in the loop: operator_driver_eq) *)
Theorem C11g_callbacks_case_safe : forallb (fun x => case_safe (snd x)) pt_callbacks = true.
Proof. exact callbacks_case_safe. Qed.
Theorem C11g_unsafe_posts : unsafe_posts = [CbNames.operator_post_name].
Proof. exact unsafe_posts_operator. Qed.
Theorem C11g_operator_guarded : forall n, group_driver p_operator n = group_driver p_operator_safe n.
Proof. exact operator_driver_eq. Qed.
Print Assumptions C11g_callbacks_case_safe.
Print Assumptions C11g_operator_guarded.

(* ---- the drivers, once -------------------------------------------------------------------------------- *)
Theorem C11g_group_driver : forall p, pinvG crel p ->
  forall n n', crel n n' -> rres crel (group_driver p n) (group_driver p n').
Proof. exact (group_driver_rel CR CR CR_rl Hmk_crel). Qed.
Theorem C11g_group_driver_flat : forall p, pinvG crel p ->
  forall n n', crel n n' -> rres crel (group_driver_flat p n) (group_driver_flat p n').
Proof. exact (group_driver_flat_rel CR CR CR_rl Hmk_crel). Qed.
Theorem C11g_group_loop : forall p, pinvG crel p -> forall snap snap', Forall2 crel snap snap' ->
  forall idx s s', srelG crel s s' -> rres (srelG crel) (group_loop p snap idx s) (group_loop p snap' idx s').
Proof. exact (group_loop_rel CR CR CR_rl Hmk_crel). Qed.
Theorem C11g_group_matching : forall c n n', crel n n' -> rres crel (group_matching c n) (group_matching c n').
Proof. exact (group_matching_rel CR CR CR_rl Hmk_crel). Qed.
Theorem C11g_gparams_of : forall c m vp vn po ext,
  case_safe m = true -> case_safe vp = true -> case_safe vn = true -> post_case_safe po = true ->
  pinvG crel (gparams_of c m vp vn po ext).
Proof. exact (pinv_gparams_of CR CR CR_rl). Qed.
Print Assumptions C11g_group_driver.
Print Assumptions C11g_group_loop.
Print Assumptions C11g_group_matching.

(* ---- the passes ----------------------------------------------------------------------------------------- *)
(* every pass but group_functions, with NO guard *)
Theorem C11g_passes_but_functions :
  Forall (fun f => forall n n', crel n n' -> rres crel (f n) (f n')) (firstn 8 passes ++ skipn 9 passes).
Proof. exact passes_but_functions_case. Qed.
Theorem C11g_group_upto8 : forall k, k <= 8 ->
  forall n n', crel n n' -> rres crel (group_upto k n) (group_upto k n').
Proof. exact group_upto8_case_rel. Qed.
Print Assumptions C11g_passes_but_functions.

(* the whole of grouping.group under the AS guard: related results, or the same exception *)
Theorem C11g_group_rel : forall n n', crel_as n n' -> rres crel_as (group n) (group n').
Proof. exact group_case_rel. Qed.
Theorem C11g_crel_as : forall n n', crel_as n n' <-> crel n n' /\ as_guard n n'.
Proof. exact crel_as_iff. Qed.
Theorem C11_group_case : forall n n', crel n n' -> as_guard n n' ->
  forall m, group n = Ok m -> exists m', group n' = Ok m' /\ crel m m' /\ as_guard m m'.
Proof. exact C11Group.C11_group_case. Qed.
Theorem C11_group_case_err : forall n n', crel n n' -> as_guard n n' ->
  forall e, group n = Err e -> group n' = Err e.
Proof. exact C11Group.C11_group_case_err. Qed.
Theorem C11_group_upto_case : forall k n n', crel n n' -> as_guard n n' ->
  forall m, group_upto k n = Ok m -> exists m', group_upto k n' = Ok m' /\ crel m m' /\ as_guard m m'.
Proof. exact C11Group.C11_group_upto_case. Qed.
Print Assumptions C11g_group_rel.
Print Assumptions C11_group_case.
Print Assumptions C11_group_upto_case.

(* statement types *)
Theorem C11_get_type_case : forall n n', crel n n' -> get_type n = get_type n'.
Proof. exact C11Group.C11_get_type_case. Qed.
Print Assumptions C11_get_type_case.

(* ---- parse() ---------------------------------------------------------------------------------------------- *)
(* statement boundaries, token by token (whitespace included) *)
Theorem C11_case_split_pointwise : forall l l',
  Forall2 (fun a b => tok_crel a b /\ go_guard a b) l l' ->
  Forall2 (Forall2 (fun a b => tok_crel a b /\ go_guard a b)) (cur_process l) (cur_process l').
Proof. exact C11Group.C11_case_split_pointwise. Qed.
Print Assumptions C11_case_split_pointwise.

Theorem C11_parse_case : forall t t' l l',
  cur_lex t = Ok l -> cur_lex t' = Ok l' -> Forall2 tok_prel l l' ->
  forall ss, cur_parse t = Ok ss ->
  exists ss', cur_parse t' = Ok ss' /\ Forall2 crel ss ss' /\ Forall2 as_guard ss ss' /\
              Forall2 (fun s s' => get_type s = get_type s') ss ss'.
Proof. exact C11Group.C11_parse_case. Qed.
Theorem C11_parse_case_err : forall t t' l l',
  cur_lex t = Ok l -> cur_lex t' = Ok l' -> Forall2 tok_prel l l' ->
  forall e, cur_parse t = Err e -> cur_parse t' = Err e.
Proof. exact C11Group.C11_parse_case_err. Qed.
Theorem C11_parse_upto_case_rel : forall k t t' l l',
  cur_lex t = Ok l -> cur_lex t' = Ok l' -> Forall2 tok_prel l l' ->
  rres (Forall2 crel_as) (cur_parse_upto k t) (cur_parse_upto k t').
Proof. exact parse_case_rel. Qed.
(* from the text: any ASCII re-casing that touches keyword tokens only and leaves the spellings AS / GO *)
Theorem C11_parse_case_text : forall t t' l l',
  Forall2 Rcase t t' -> cur_lex t = Ok l -> cur_lex t' = Ok l' -> Forall2 parse_guard l l' ->
  forall ss, cur_parse t = Ok ss ->
  exists ss', cur_parse t' = Ok ss' /\ Forall2 crel ss ss' /\
              Forall2 (fun s s' => get_type s = get_type s') ss ss'.
Proof. exact C11Group.C11_parse_case_text. Qed.
Print Assumptions C11_parse_case.
Print Assumptions C11_parse_case_err.
Print Assumptions C11_parse_upto_case_rel.
Print Assumptions C11_parse_case_text.

(* ---- NO GUARD: the headline theorems ---------------------------------------------------------------------- *)
(* all 25 passes *)
Theorem C11_group_case_full : forall n n', crel n n' -> rres crel (group n) (group n').
Proof. exact C11Group.group_rel. Qed.
Theorem C11_group_upto_case_full : forall k n n', crel n n' -> rres crel (group_upto k n) (group_upto k n').
Proof. exact C11Group.group_upto_rel. Qed.
(* the splitter, token by token (whitespace included) *)
Theorem C11_case_split_pointwise_full : forall l l',
  Forall2 tok_crel l l' -> Forall2 (Forall2 tok_crel) (cur_process l) (cur_process l').
Proof. exact C11Group.C11_case_split_pointwise_full. Qed.
(* parse(): related token streams give related trees (or the same exception) after every pass *)
Theorem C11_parse_upto_case_full : forall k t t' l l',
  cur_lex t = Ok l -> cur_lex t' = Ok l' -> Forall2 tok_crel l l' ->
  rres (Forall2 crel) (cur_parse_upto k t) (cur_parse_upto k t').
Proof. exact C11Group.parse_rel. Qed.
Theorem C11_parse_case_full : forall t t' l l',
  cur_lex t = Ok l -> cur_lex t' = Ok l' -> Forall2 tok_crel l l' ->
  forall ss, cur_parse t = Ok ss ->
  exists ss', cur_parse t' = Ok ss' /\ Forall2 crel ss ss' /\
              Forall2 (fun s s' => get_type s = get_type s') ss ss'.
Proof. exact C11Group.C11_parse_case_full. Qed.
Theorem C11_parse_case_err_full : forall t t' l l',
  cur_lex t = Ok l -> cur_lex t' = Ok l' -> Forall2 tok_crel l l' ->
  forall e, cur_parse t = Err e -> cur_parse t' = Err e.
Proof. exact C11Group.C11_parse_case_err_full. Qed.
(* from the TEXT: ANY ASCII re-casing that touches keyword tokens only *)
Theorem C11_parse_case_text_full : forall t t' l l',
  Forall2 Rcase t t' -> cur_lex t = Ok l -> cur_lex t' = Ok l' -> Forall2 C11Group.kw_only l l' ->
  forall ss, cur_parse t = Ok ss ->
  exists ss', cur_parse t' = Ok ss' /\ Forall2 crel ss ss' /\
              Forall2 (fun s s' => get_type s = get_type s') ss ss'.
Proof. exact C11Group.C11_parse_case_text_full. Qed.
Print Assumptions C11_group_case_full.
Print Assumptions C11_case_split_pointwise_full.
Print Assumptions C11_parse_upto_case_full.
Print Assumptions C11_parse_case_full.
Print Assumptions C11_parse_case_err_full.
Print Assumptions C11_parse_case_text_full.

(* the former witnesses of the two guards ('create table foo AS select f(x)' / '... as ...';
   'select 1 GO select 2' / '... go ...') now parse to related trees *)
Definition C11_as_case_witness_fixed := C11Group.C11_as_case_witness_fixed.
Definition C11_go_case_witness_fixed := C11Group.C11_go_case_witness_fixed.

(* ==== the SPELLING of keyword tokens: letter case AND the white space inside compound keywords =============
   (ORDER BY, GROUP BY, UNION ALL, END IF, END LOOP, LEFT OUTER JOIN, CREATE OR REPLACE, ...): UNBOUNDED, no guard.
   wrel: same structure, classes and token types; all leaves EQUAL except keyword leaves, whose values agree after
   upper-casing and collapsing every run of white space (Inst/C11KwSpell.v). *)
From SqlModel.Inst Require C11KwSpell.
Theorem C11_group_kwspell : forall n n', C11KwSpell.wrel n n' -> rres C11KwSpell.wrel (group n) (group n').
Proof. exact C11KwSpell.group_wrel. Qed.
Theorem C11_group_upto_kwspell : forall k n n',
  C11KwSpell.wrel n n' -> rres C11KwSpell.wrel (group_upto k n) (group_upto k n').
Proof. exact C11KwSpell.group_upto_wrel. Qed.
Theorem C11_get_type_kwspell : forall n n', C11KwSpell.wrel n n' -> get_type n = get_type n'.
Proof. exact C11KwSpell.get_type_wrel. Qed.
Theorem C11_split_pointwise_kwspell : forall l l',
  Forall2 C11KwSpell.tok_wrel l l' -> Forall2 (Forall2 C11KwSpell.tok_wrel) (cur_process l) (cur_process l').
Proof. exact C11KwSpell.split_pointwise_wrel. Qed.
Theorem C11_parse_upto_kwspell : forall k t t' l l',
  cur_lex t = Ok l -> cur_lex t' = Ok l' -> Forall2 C11KwSpell.tok_wrel l l' ->
  rres (Forall2 C11KwSpell.wrel) (cur_parse_upto k t) (cur_parse_upto k t').
Proof. exact C11KwSpell.parse_wrel. Qed.
Theorem C11_parse_kwspell : forall t t' l l',
  cur_lex t = Ok l -> cur_lex t' = Ok l' -> Forall2 C11KwSpell.tok_wrel l l' ->
  forall ss, cur_parse t = Ok ss ->
  exists ss', cur_parse t' = Ok ss' /\ Forall2 C11KwSpell.wrel ss ss' /\
              Forall2 (fun s s' => get_type s = get_type s') ss ss'.
Proof. exact C11KwSpell.C11_parse_kwspell. Qed.
Theorem C11_parse_kwspell_err : forall t t' l l',
  cur_lex t = Ok l -> cur_lex t' = Ok l' -> Forall2 C11KwSpell.tok_wrel l l' ->
  forall e, cur_parse t = Err e -> cur_parse t' = Err e.
Proof. exact C11KwSpell.C11_parse_kwspell_err. Qed.
(* non-vacuity: create<2 blanks>or<LF>replace / ORDER<blank,TAB>BY / union<LF>ALL / END<LF>If against the single-blank
   spellings: related token streams that are not equal, and what the theorem predicts is what the model computes *)
Definition C11_kwspell_ex_lex := C11KwSpell.ex_ws_lex.
Definition C11_kwspell_ex_parse := C11KwSpell.ex_ws_parse.
Print Assumptions C11_group_kwspell.
Print Assumptions C11_split_pointwise_kwspell.
Print Assumptions C11_parse_upto_kwspell.
Print Assumptions C11_parse_kwspell.
