(* C18, pipeline level, unbounded ("barrier lemma"): the DML/DDL keyword token that leads a statement is still the
   first significant DIRECT child of the Statement after the splitter and all 25 grouping passes, so that
   Statement.get_type() returns it upper-cased - for every token list satisfying the decidable guard
   BarrierDefs.barrier_guard.  Definitions: Group/BarrierDefs.v; proofs: Group/BarrierFacts.v, Inst/C18Barrier.v. *)
From SqlModel Require Import Base PyStr Str Re Lexer Node Passes BarrierDefs BarrierFacts CaseDefs WsRun.
From SqlModel.Gen Require Import CaseTabs KwTabs Rules.
From SqlModel.Inst Require Import Cur WsRunInst C18Fin C18BarrierDefs C18Barrier.
From SqlModel.Acc Require Import Accessors.

(* token level (MAIN): any token list  pre ++ (ty, kw) :: rest  under the guard *)
Theorem C18b_barrier : forall pre ty kw rest s,
  barrier_guard pre ty kw rest = true ->
  group (statement_of (pre ++ (ty, kw) :: rest)) = Ok s ->
  get_type s = Ok (knorm kw).
Proof. exact C18_barrier. Qed.
Print Assumptions C18b_barrier.

Theorem C18b_barrier_total : forall pre ty kw rest,
  barrier_guard pre ty kw rest = true ->
  exists s, group (statement_of (pre ++ (ty, kw) :: rest)) = Ok s /\ get_type s = Ok (knorm kw).
Proof. exact C18_barrier_total. Qed.
Print Assumptions C18b_barrier_total.

(* after every prefix of the 25 passes *)
Theorem C18b_barrier_upto : forall k pre ty kw rest s,
  barrier_guard pre ty kw rest = true ->
  group_upto k (statement_of (pre ++ (ty, kw) :: rest)) = Ok s ->
  exists v l, s = Grp CStatement v l /\ leadsb kw l = true /\ get_type s = Ok (knorm kw).
Proof. exact C18_barrier_upto. Qed.
Print Assumptions C18b_barrier_upto.

(* every single pass keeps the invariant (keyword leaf leads the children, guard on what follows it, at most one `:=`
   among the leaves) *)
Theorem C18b_barrier_passes : forall K, isK K -> Forall (pass_sinv K) passes.
Proof. exact passes_sinv. Qed.
Print Assumptions C18b_barrier_passes.

(* through lexer output, splitter, grouping, accessor *)
Theorem C18b_barrier_lexed : forall t pre ty kw rest,
  cur_lex t = Ok (pre ++ (ty, kw) :: rest) ->
  barrier_guard pre ty kw rest = true ->
  exists s ss, cur_parse t = Ok (s :: ss) /\ get_type s = Ok (knorm kw).
Proof. exact C18_barrier_lexed. Qed.
Print Assumptions C18b_barrier_lexed.

(* text level, the keyword's token boundary being a hypothesis *)
Theorem C18b_barrier_text_cut : forall items w' a ty us rest_text rest_toks,
  Forall pitem_ok items -> w' <> [] ->
  cur_first_match (mkSt (plast None items) (w' ++ utext us ++ rest_text)) = Some (a, List.length w') ->
  mk_tok upper kws a w' = (ty, w') -> ty = T_DML \/ ty = T_DDL -> kw_ok w' = true ->
  us <> [] -> Forall unit_wf us ->
  cur_lex_go (Some 32%N) rest_text = Ok rest_toks ->
  tok_next_ok rest_toks = true -> cntA rest_toks <= 1 ->
  typed_through_parse (flat_map ptext items ++ w' ++ utext us ++ rest_text) (knorm w').
Proof. exact C18_barrier_text_cut. Qed.
Print Assumptions C18b_barrier_text_cut.

(* text level, one-unit separator: PARTIAL (see Inst/C18Barrier.v for what is left out) *)
Theorem C18b_barrier_text_partial : forall items W w' u c T rest_toks,
  Forall pitem_ok items -> In W dml_ddl_words -> Forall2 Rcase W w' ->
  In u sep_units -> In c next_chars -> cut_excluded W c = false ->
  cur_lex_go (Some 32%N) (c :: T) = Ok rest_toks ->
  tok_next_ok rest_toks = true -> cntA rest_toks <= 1 ->
  typed_through_parse (flat_map ptext items ++ w' ++ utext1 u ++ c :: T) (upper W).
Proof. exact C18_barrier_text_partial. Qed.
Print Assumptions C18b_barrier_text_partial.

(* each conjunct of the guard is needed *)
Theorem C18b_needs_no_dcolon_refuted : unknown_through_parse (tx "select::int").
Proof. exact C18_barrier_needs_no_dcolon_refuted. Qed.
Theorem C18b_needs_no_assign_refuted : unknown_through_parse (tx "select := 1").
Proof. exact C18_barrier_needs_no_assign_refuted. Qed.
Theorem C18b_needs_no_tzcast_refuted : unknown_through_parse (tx "select at time zone 'utc' as x").
Proof. exact C18_barrier_needs_no_tzcast_refuted. Qed.
Theorem C18b_needs_one_assign_refuted : unknown_through_parse (tx "select x:=a b:=;").
Proof. exact C18_barrier_needs_one_assign_refuted. Qed.
Theorem C18b_needs_keyword_token_refuted :
  unknown_through_parse (tx "select(1)") /\ unknown_through_parse (tx "select.x") /\
  unknown_through_parse (tx "select .x").
Proof. exact C18_barrier_needs_keyword_token_refuted. Qed.
Print Assumptions C18b_needs_no_tzcast_refuted.
Print Assumptions C18b_needs_one_assign_refuted.
Print Assumptions C18b_needs_keyword_token_refuted.
