(* C10 - requested layout normal forms are actually achieved. *)
(* source pins: the functions of /repo the hand-written models in this file's cone mirror have the normalised AST they
   were written from (tools/regen/gen_srcpins.py; a changed function breaks its Gen/Pin_*.v and this file with it) *)
From SqlModel.Gen Require LexPins.   (* the scan loop, is_keyword, consume and the class-level state of sqlparse/lexer.py have the pinned shape *)
From SqlModel.Gen Require Pin_filters_stripws Pin_filters_spaces Pin_filters_serializer Pin_filters_reindent Pin_filters_aligned Pin_filters_others_module Pin_api_glue Pin_formatter_module Pin_sql_tree.
From SqlModel.Inst Require PassTabOk.   (* the grouping tables and driver pins of Group/Passes.v equal the ones regenerated from the source *)
From Coq Require Import ZArith.
From SqlModel Require Import Base PyStr Node Inv.
From SqlModel.Filters Require Import Reindent ReindentSafe ReindentSpec ReindentFacts ReindentOwnLine ReindentFuel
     ReindentInst ReindentInstFacts.
From SqlModel.Props Require Export C10_ws.

(* reindent: after _split_kwds every keyword selected by the split-word test (outside BETWEEN..AND) is preceded by
   the inserted line break or by a token ending in a line break -- when no whitespace token ending in a line break
   stands directly before a keyword (that case is the refutation below) *)
Theorem C10_reindent_own_line_partial : forall o e l r,
  no_nl_ws_before_kw l -> split_kwds o e l = Ok r ->
  forall i, nth i (sel 0%nat r) false = true -> prev_ok (nl o e 0%Z) r i.
Proof. exact reindent_own_line_partial. Qed.
Print Assumptions C10_reindent_own_line_partial.

Definition C10_reindent_own_line_refuted := own_line_refuted.

(* reindent is total on the trees satisfying the decidable predicate rx_safe, for every option set *)
Theorem C10_reindent_total : forall o s n,
  is_group n = true -> rx_safe false false n = true -> exists r, reindent_stmt o s n = Ok r.
Proof. exact reindent_stmt_total. Qed.
Print Assumptions C10_reindent_total.

(* reindent_aligned (exact model): every keyword selected by the split-word test is preceded by the inserted line break,
   unconditionally; the filter returns exactly on the decidable class al_safe and otherwise raises ValueError/IndexError *)
From SqlModel.Filters Require Import Aligned AlignedSpec AlignedSplit AlignedFacts AlignedInst AlignedInstFacts.
Definition C10_aligned_own_line := aligned_own_line.
Definition C10_aligned_own_line_text := aligned_own_line_text.
Definition C10_aligned_rspec := aligned_stmt_rspec.
Definition C10_aligned_case_end_fixed := aligned_case_end_fixed.   (* was C10_aligned_total_refuted until the fixes of C07-AL-1 / C07-RX-1 *)
Print Assumptions aligned_own_line.
Print Assumptions aligned_stmt_rspec.
