(* C05 - statements end exactly at top-level semicolons; opaque regions never split.
   Only statements of theorems proved elsewhere + Print Assumptions. *)
(* source pins: the functions of /repo the hand-written models in this file's cone mirror have the normalised AST they
   were written from (tools/regen/gen_srcpins.py; a changed function breaks its Gen/Pin_*.v and this file with it) *)
From SqlModel.Gen Require Pin_api_glue.
From SqlModel.Gen Require LexPins.   (* the scan loop, is_keyword, consume and the class-level state of sqlparse/lexer.py have the pinned shape *)
From SqlModel Require Import Base Str PyStr Re Lexer SplitDefs Splitter SplitFacts Level Level2.
From SqlModel.Gen Require Import CaseTabs SplitTab.
From SqlModel.Inst Require Import Cur.
From Coq Require Import ZArith.
Local Open Scope Z_scope.

(* a plain statement body: plain tokens (no `;`, no GO, none of DECLARE/BEGIN/END IF/END FOR/
   END WHILE), parentheses balanced; then `;`; then whitespace / one-line comments *)
Definition plain_stmt (pe : list tok * list tok) : Prop :=
  forallb plain_tok (fst pe) = true /\ net (fst pe) = 0
  /\ forallb (fun tk => in_eos eos_ttypes (fst tk)) (snd pe) = true.
Definition unit_of (pe : list tok * list tok) : list tok := plain_unit (fst pe) (snd pe).

(* k plain statements joined by semicolons are returned as exactly those k statements, whatever
   whitespace/comments separate them (a statement after the first must not START with a
   Whitespace or one-line-comment token: such tokens after a `;` belong to the previous one) *)
Theorem C05_k_statements : forall pe pes,
  Forall plain_stmt (pe :: pes) -> Forall starts_non_eos (map unit_of pes) ->
  cur_process (List.concat (map unit_of (pe :: pes))) = map unit_of (pe :: pes).
Proof.
  intros pe pes H Hs. unfold cur_process. cbn [map]. apply units_split; [|exact Hs].
  change (unit_of pe :: map unit_of pes) with (map unit_of (pe :: pes)).
  apply Forall_forall. intros u Hu. apply in_map_iff in Hu. destruct Hu as (x & <- & Hx).
  rewrite Forall_forall in H. destruct (H x Hx) as (H1 & H2 & H3).
  apply plain_is_unit; assumption.
Qed.
Print Assumptions C05_k_statements.

(* a `;` nested in parentheses does not end the statement (no END keyword before it) *)
Theorem C05_paren_no_split_partial : forall a sm rest,
  forallb strict_tok a = true -> 1 <= net a -> is_semi sm = true ->
  exists st', process_go reset_sstate change_splitlevel eos_ttypes is_terminator (pinit reset_sstate) (a ++ sm :: rest)
              = process_go reset_sstate change_splitlevel eos_ttypes is_terminator st' rest
              /\ consume_ws st' = false /\ acc st' = sm :: rev a.
Proof. exact paren_semi_no_split. Qed.
Print Assumptions C05_paren_no_split_partial.

(* ... but at full strength the claim is FALSE of the faithful model (and of the code): after
   CASE ... END outside CREATE the level is -1, so `(` brings it to 0 and the `;` inside splits *)
Definition F1_text := tx "select case when 1 then 2 end, (a;b) from t; select 2".
Theorem C05_paren_refuted :
  exists stmts s, cur_split_stream F1_text = Ok stmts /\ List.length stmts = 3%nat
                  /\ nth_error stmts 0 = Some s /\ net s = 1.
Proof. vm_compute. eexists. eexists. repeat split. Qed.

(* replacing the VALUES of tokens that are neither keywords nor punctuation (string literals,
   quoted names, dollar-quoted bodies, comments, ...) leaves number and extent of the statements
   unchanged *)
Theorem C05_opaque_values : forall l l', stream_shape l l' -> Forall2 stream_shape (cur_process l) (cur_process l').
Proof. exact opaque_values_irrelevant. Qed.
Print Assumptions C05_opaque_values.

(* non-vacuity: a concrete script is of the k-statement form *)
Definition ex_toks : list tok :=
  match cur_lex (tx "select (1); -- c
select 'a;b' from t;") with Ok l => l | Err _ => [] end.
Definition ex_pe1 : list tok * list tok := (firstn 5 ex_toks, firstn 2 (skipn 6 ex_toks)).
Definition ex_pe2 : list tok * list tok := (firstn 7 (skipn 8 ex_toks), []).
Example C05_nonvacuous :
  ex_toks = List.concat (map unit_of [ex_pe1; ex_pe2]) /\ List.length ex_toks = 16%nat
  /\ Forall plain_stmt [ex_pe1; ex_pe2] /\ Forall starts_non_eos (map unit_of [ex_pe2]).
Proof.
  split; [vm_compute; reflexivity|]. split; [vm_compute; reflexivity|].
  split.
  - constructor; [|constructor; [|constructor]]; (split; [|split]); vm_compute; reflexivity.
  - constructor; [vm_compute; reflexivity|constructor].
Qed.

(* F18: a comment after the last terminator that is not on the terminator's own line becomes an
   extra, comment-only statement (Newline is not an end-of-statement type) *)
Theorem C05_trailing_comment_refuted :
  exists stmts, cur_split_stream (tx "select 1;
-- c
") = Ok stmts /\ List.length stmts = 2%nat.
Proof. eexists. split; [vm_compute; reflexivity|reflexivity]. Qed.

(* each opaque region is exactly ONE token of a type that is neither Keyword.* nor Punctuation (so, by
   C05_opaque_values, a `;` inside it never ends a statement and its contents are irrelevant to the splitter).
   These theorems start from pins of the CURRENT rules: an edited region rule breaks them. *)
From SqlModel.Lexer Require Import RegionDefs Regions.
Definition C05_single_quoted_lexed := single_quoted_lexed.
Definition C05_double_quoted_lexed := double_quoted_lexed.
Definition C05_backtick_lexed := backtick_lexed.
Definition C05_block_comment_lexed := block_comment_lexed.
Definition C05_line_comment_lexed := line_comment_lexed.
Definition C05_dollar_quoted_lexed := dollar_quoted_lexed.
Print Assumptions single_quoted_lexed.
Print Assumptions dollar_quoted_lexed.
Lemma C05_region_types_opaque :
  opaque_ty [Literal; Base.String; Single] = true /\ opaque_ty [Literal; Base.String; Symbol] = true /\ opaque_ty [Name] = true
  /\ opaque_ty [Literal] = true /\ opaque_ty [Comment; Multiline] = true /\ opaque_ty [Comment; Multiline; Hint] = true
  /\ opaque_ty [Comment; Single] = true /\ opaque_ty [Comment; Single; Hint] = true.
Proof. repeat split; reflexivity. Qed.
