(* C20 - no call-history and no thread effects.
   Schedules: small-step machine (Sys/Singleton.v) over the GENERATED instruction list of
   Lexer.get_default_instance (Gen/SingletonProg.v): all thread counts, all schedules.
   History: the API as a state machine over the persistent state (Sys/History.v), whose shape is
   justified by the GENERATED inventory of persistent mutable state (Gen/StateInv.v).

   The generated program has one of two shapes (publish-then-initialise / initialise-then-publish);
   every theorem of this file holds for both, so the file compiles unchanged before and after the repair
   of finding KF-C20-1.  What differs is decided by the generated flag [publishes_before_init]:
     flag = true   the history statement is REFUTED for histories with an interrupted first
                   initialisation (C20_hist_interrupted_init_refuted_if_publishes);
     flag = false  it holds unconditionally (C20_hist_history_if_publishes_last).
   Which case holds now is the single obligation of Inst/C20Finding.v (resp. Inst/C20Fixed.v). *)
(* source pins: the functions of /repo the hand-written models in this file's cone mirror have the normalised AST they
   were written from (tools/regen/gen_srcpins.py; a changed function breaks its Gen/Pin_*.v and this file with it) *)
From SqlModel.Gen Require Pin_api_glue Pin_formatter_module.
From Coq Require Import String.
From SqlModel.Gen Require LexPins.
From SqlModel Require Import Base.
From SqlModel.Sys Require Import Singleton SchedObs History HistoryX.
From SqlModel.Gen Require Import SingletonProg StateInv.
From SqlModel.Sys Require Import SingletonFacts SchedObsFacts HistoryFacts HistoryXFacts.

(* ---------------- schedules: every interleaving of any number of first calls ------------------- *)
Theorem C20_sched_init_safe : forall n sched t o,
  returned (run get_default_instance_prog n sched) t = Some o ->
  fully_initialised expected_kws (run get_default_instance_prog n sched) o.
Proof. exact C20_init_safe. Qed.
Print Assumptions C20_sched_init_safe.

Theorem C20_sched_init_safe_later : forall n sched sched' t o,
  returned (run get_default_instance_prog n sched) t = Some o ->
  fully_initialised expected_kws (run get_default_instance_prog n (sched ++ sched')) o.
Proof. exact C20_init_safe_later. Qed.

Theorem C20_sched_same_instance : forall n sched t1 t2 o1 o2,
  returned (run get_default_instance_prog n sched) t1 = Some o1 ->
  returned (run get_default_instance_prog n sched) t2 = Some o2 -> o1 = o2.
Proof. exact C20_same_instance. Qed.
Print Assumptions C20_sched_same_instance.

Theorem C20_sched_single_init : forall n sched,
  length (heap (run get_default_instance_prog n sched)) <= 1.
Proof. exact C20_single_init. Qed.

Theorem C20_sched_never_replaced : forall n sched sched' o,
  inst (run get_default_instance_prog n sched) = Some o ->
  inst (run get_default_instance_prog n (sched ++ sched')) = Some o.
Proof. exact C20_never_replaced. Qed.

Theorem C20_sched_no_violation : forall n sched,
  violation expected_kws (run get_default_instance_prog n sched) = 0.
Proof. exact C20_no_violation. Qed.
Print Assumptions C20_sched_no_violation.

Theorem C20_sched_no_deadlock_fair_partial : forall n blks t,
  Forall (fair_block n) blks -> n * length get_default_instance_prog <= length blks -> t < n ->
  returned (run get_default_instance_prog n (concat blks)) t = Some 0.
Proof. exact C20_no_deadlock_fair. Qed.

(* the same for ANY program accepted by the structural check, i.e. for both shapes *)
Theorem C20_sched_any_well_locked : forall p, well_locked expected_kws p = true ->
  (forall n sched t o, returned (run p n sched) t = Some o ->
                       fully_initialised expected_kws (run p n sched) o)
  /\ (forall n sched t1 t2 o1 o2, returned (run p n sched) t1 = Some o1 ->
                                  returned (run p n sched) t2 = Some o2 -> o1 = o2)
  /\ (forall n sched, length (heap (run p n sched)) <= 1)
  /\ (forall n sched sched' o, inst (run p n sched) = Some o ->
                               inst (run p n (sched ++ sched')) = Some o)
  /\ (forall n sched, violation expected_kws (run p n sched) = 0).
Proof.
  intros p Hwl. repeat split.
  - exact (wl_init_safe _ _ Hwl).
  - exact (wl_same_instance _ _ Hwl).
  - exact (wl_single_init _ _ Hwl).
  - exact (wl_never_replaced _ _ Hwl).
  - exact (wl_no_violation _ _ Hwl).
Qed.
Print Assumptions C20_sched_any_well_locked.

(* the generated program is one of the two reference programs over its own body *)
Theorem C20_sched_prog_shape :
  get_default_instance_prog = old_prog \/ get_default_instance_prog = new_prog.
Proof. exact prog_is_old_or_new. Qed.

(* what the lock is needed for in the publish-last shape: NOT for keeping half-built objects away from
   the callers (holds without the lock, all thread counts, all schedules) ... *)
Theorem C20_sched_unlocked_new_init_safe : forall n sched t o,
  returned (run unlocked_new_prog n sched) t = Some o ->
  fully_initialised expected_kws (run unlocked_new_prog n sched) o.
Proof. exact C20_unlocked_new_init_safe. Qed.
Print Assumptions C20_sched_unlocked_new_init_safe.

(* ... but for single initialisation *)
Theorem C20_sched_unlocked_new_two_instances_refuted :
  exists sched o1 o2,
    returned (run unlocked_new_prog 2 sched) 0 = Some o1 /\
    returned (run unlocked_new_prog 2 sched) 1 = Some o2 /\ o1 <> o2 /\
    length (heap (run unlocked_new_prog 2 sched)) = 2.
Proof. exact C20_unlocked_new_two_instances_refuted. Qed.

(* in the publish-first shape the lock is needed for both *)
Theorem C20_sched_unlocked_old_refuted :
  exists sched t o,
    returned (run unlocked_prog 2 sched) t = Some o /\
    ~ fully_initialised expected_kws (run unlocked_prog 2 sched) o.
Proof. exact C20_unlocked_refuted. Qed.

(* the lexer handed to racing first calls carries exactly the configuration of a fresh process *)
Theorem C20_sched_default_cfg : forall n sched t o,
  returned (run get_default_instance_prog n sched) t = Some o ->
  exists ob, nth_error (heap (run get_default_instance_prog n sched)) o = Some ob
             /\ cfg_of_obj ob = eff fresh.
Proof. exact C20_first_calls_default_cfg. Qed.
Print Assumptions C20_sched_default_cfg.

(* ---------------- history ---------------------------------------------------------------------- *)
Theorem C20_hist_calls_pure : forall st o,
  is_reconf o = false -> lexer st <> None -> apply st o = st.
Proof. exact C20_calls_pure. Qed.
Print Assumptions C20_hist_calls_pure.

Theorem C20_hist_calls_pure_eff : forall st o, is_reconf o = false -> eff (apply st o) = eff st.
Proof. exact C20_calls_pure_eff. Qed.

Theorem C20_hist_history : forall (R : Type) (sem : cfg -> op -> R) h call,
  ends_defaultb h = true -> result_after R sem h call = result_fresh R sem call.
Proof. exact C20_history. Qed.
Print Assumptions C20_hist_history.

Theorem C20_hist_any_state : forall h st,
  ends_defaultb h = true -> existsb is_reconf h = true -> eff (run_hist h st) = default_cfg.
Proof. exact C20_history_any_state. Qed.

Theorem C20_hist_reinit : forall st, lexer (apply st ODefaultInit) = Some default_cfg.
Proof. exact C20_reinit. Qed.
Print Assumptions C20_hist_reinit.

Theorem C20_hist_concurrent_calls : forall (R : Type) (sem : cfg -> op -> R) st others call,
  forallb (fun o => negb (is_reconf o)) others = true ->
  result R sem (run_hist others st) call = result R sem st call.
Proof. exact C20_concurrent_calls. Qed.
Print Assumptions C20_hist_concurrent_calls.

Theorem C20_hist_reads_stable : forall others st st',
  forallb (fun o => negb (is_reconf o)) others = true ->
  In st' (hist_states st others) -> eff st' = eff st.
Proof. exact C20_reads_stable. Qed.

Theorem C20_hist_needs_default :
  exists h call, ends_defaultb h = false /\
    result_after cfg (fun c _ => c) h call <> result_fresh cfg (fun c _ => c) call.
Proof. exact C20_history_needs_default. Qed.

(* ---------------- an exception interrupting the first initialisation (finding KF-C20-1) --------- *)
(* While the instance is published before it is initialised, the statement "whatever calls preceded it,
   including calls that raised" is FALSE of the faithful model (and of the implementation: the witness is
   replayed by tools/props/C20.py stage D) *)
Theorem C20_hist_interrupted_init_refuted_if_publishes :
  publishes_before_init = true ->
  exists h call,
    existsb is_reconf (strip h) = false /\
    xresult_after (option cfg) (fun c _ => c) h call <> xresult_fresh (option cfg) (fun c _ => c) call.
Proof. exact C20_xhistory_refuted_if_publishes. Qed.
Print Assumptions C20_hist_interrupted_init_refuted_if_publishes.

(* Once the instance is published last, the history theorem holds unconditionally: interrupted first
   initialisations included *)
Theorem C20_hist_history_if_publishes_last :
  publishes_before_init = false ->
  forall (R : Type) (sem : option cfg -> op -> R) h call,
    ends_defaultb (strip h) = true ->
    xresult_after R sem h call = xresult_fresh R sem call.
Proof. exact C20_xhistory_if_publishes_last. Qed.
Print Assumptions C20_hist_history_if_publishes_last.

(* exactly one of the two is the case, decided by the generated flag *)
Theorem C20_hist_interrupted_init_dichotomy :
  (publishes_before_init = false /\
   forall (R : Type) (sem : option cfg -> op -> R) h call,
     ends_defaultb (strip h) = true -> xresult_after R sem h call = xresult_fresh R sem call)
  \/ (publishes_before_init = true /\
      exists h call,
        existsb is_reconf (strip h) = false /\
        xresult_after (option cfg) (fun c _ => c) h call <> xresult_fresh (option cfg) (fun c _ => c) call).
Proof. exact C20_xhistory_dichotomy. Qed.
Print Assumptions C20_hist_interrupted_init_dichotomy.

(* everything outside the class of the finding is covered in both cases; the guard is vacuous once the
   flag is false *)
Theorem C20_hist_history_partial : forall (R : Type) (sem : option cfg -> op -> R) h call,
  kf_interrupted_init h = false -> ends_defaultb (strip h) = true ->
  xresult_after R sem h call = xresult_fresh R sem call.
Proof. exact C20_xhistory_partial. Qed.
Print Assumptions C20_hist_history_partial.

Theorem C20_hist_history_guarded : forall (R : Type) (sem : option cfg -> op -> R) h call,
  publishes_before_init = false \/ kf_interrupted_init h = false ->
  ends_defaultb (strip h) = true ->
  xresult_after R sem h call = xresult_fresh R sem call.
Proof. exact C20_xhistory_guarded. Qed.

(* the flag is what the instruction list does, for every program of either shape *)
Theorem C20_hist_flag_is_semantic :
  publishes_before_init = publishes_before_initb get_default_instance_prog.
Proof. exact publishes_flag_ok. Qed.

Theorem C20_hist_new_shape_publishes_last : forall e p body,
  shape e true p body -> starts_with_clear (init_body p) = true -> publishes_before_initb p = false.
Proof. exact new_shape_publishes_last. Qed.

Theorem C20_hist_old_shape_publishes_first : forall e p body,
  shape e false p body -> publishes_before_initb p = true.
Proof. exact old_shape_publishes_first. Qed.

(* ---------------- obligations over generated data ---------------------------------------------- *)
Theorem C20_state_inventory : forallb state_ok bindings = true.
Proof. exact C20_inventory. Qed.
Print Assumptions C20_state_inventory.

Theorem C20_state_inventory_full :
  inventory_ok bindings tokentype_uses tokentypes_created_by_workload
               attributes_created_by_workload defaults_changed_by_workload = true.
Proof. exact inventory_checked. Qed.

Theorem C20_prog_well_locked : well_locked expected_kws get_default_instance_prog = true.
Proof. exact prog_well_locked. Qed.

(* the hand-modelled scan loop / keyword lookup / class-level state of sqlparse/lexer.py still have the pinned shape
   (tools/regen/gen_lexpins.py fails closed otherwise and this file no longer compiles) *)
Example C20_lexer_shape : SqlModel.Gen.LexPins.lexer_shape_checked = true.
Proof. reflexivity. Qed.

