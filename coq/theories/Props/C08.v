(* C08 - targeted filters change exactly their target tokens and nothing else.
   The token-stream filters (keyword_case, identifier_case, truncate_strings): Filters/TokFiltersFacts.v;
   strip_comments: Props/C08_sc.v (re-exported).  Re-lexing ("no two tokens are fused or split"):
   ASCII letter case never changes token boundaries or types (Inst/CaseInv.v). *)
(* source pins: the functions of /repo the hand-written models in this file's cone mirror have the normalised AST they
   were written from (tools/regen/gen_srcpins.py; a changed function breaks its Gen/Pin_*.v and this file with it) *)
From SqlModel.Gen Require Pin_filters_tokens Pin_filters_stripcomments Pin_filters_serializer Pin_filters_others_module Pin_api_glue Pin_formatter_module Pin_sql_tree.
From SqlModel.Inst Require PassTabOk.   (* the grouping tables and driver pins of Group/Passes.v equal the ones regenerated from the source *)
From SqlModel.Filters Require SerializerSpecFacts.   (* every format() result goes through SerializerUnicode: its specification over the regenerated SPLIT_REGEX (quoted pieces are kept) must still hold *)
From SqlModel.Gen Require LexPins.   (* the scan loop, is_keyword, consume and the class-level state of sqlparse/lexer.py have the pinned shape *)
From SqlModel Require Import Base PyStr Re Lexer TokFilters TokFiltersCur TokFiltersFacts CaseDefs.
From SqlModel.Gen Require Import CaseTabs.
From SqlModel.Inst Require Import Cur CaseInv.
From SqlModel.Props Require Export C08_sc.

Definition C08_kwcase_spec := kwcase_spec.
Definition C08_idcase_spec := idcase_spec.
Definition C08_truncate_spec := truncate_spec.
Definition C08_kwcase_types := kwcase_types.
Definition C08_idcase_types := idcase_types.
Definition C08_truncate_types := truncate_types.
Definition C08_kwcase_untouched := kwcase_untouched.
Definition C08_idcase_untouched := idcase_untouched.
Definition C08_truncate_untouched := truncate_untouched.
Definition C08_preprocess_untouched := preprocess_untouched.
Definition C08_kwcase_idem := kwcase_idem.
Definition C08_idcase_idem := idcase_idem.
Definition C08_truncate_idem := truncate_idem.
Definition C08_capitalize_idem_iff := capitalize_idem_iff.
Definition C08_kwcase_capitalize_idem_refuted := kwcase_capitalize_idem_refuted.
Definition C08_truncate_idem_refuted := truncate_idem_refuted.
Definition C08_conv_ascii := conv_ascii.
Print Assumptions kwcase_spec.
Print Assumptions idcase_spec.
Print Assumptions truncate_spec.
Print Assumptions kwcase_idem.
Print Assumptions idcase_idem.
Print Assumptions truncate_idem.
Print Assumptions preprocess_untouched.

(* re-casing ASCII letters of a text never fuses or splits tokens and never changes a token type:
   the re-cased text lexes into the same number of tokens, of the same types and lengths *)
Theorem C08_case_relex : forall f : N -> N, (forall a, Rcase a (f a)) -> forall t, exists ts ts',
  cur_lex t = Ok ts /\ cur_lex (map f t) = Ok ts' /\ map fst ts = map fst ts'
  /\ map (fun tk => length (snd tk)) ts = map (fun tk => length (snd tk)) ts'.
Proof. exact C_lex_case_map. Qed.
Print Assumptions C08_case_relex.
