(* C03 - grouping is purely structural and yields a well-formed token tree. *)
(* source pins: the functions of /repo the hand-written models in this file's cone mirror have the normalised AST they
   were written from (tools/regen/gen_srcpins.py; a changed function breaks its Gen/Pin_*.v and this file with it) *)
From SqlModel.Gen Require Pin_sql_tree Pin_api_glue.
From SqlModel.Gen Require LexPins.   (* the scan loop, is_keyword, consume and the class-level state of sqlparse/lexer.py have the pinned shape *)
From SqlModel.Inst Require PassTabRun.   (* the grouping tables of Group/Passes.v equal the ones regenerated from the source *)
From SqlModel.Props Require C03h.   (* object-heap half: parent pointers, identities, navigation helpers *)
From SqlModel Require Import Base PyStr Lexer SplitDefs Splitter SplitFacts Node Inv Passes GroupFacts.
From SqlModel Require Import TotalDefs.
From SqlModel.Inst Require Import Cur ParseFacts TotalParse.

(* the leaves of the parsed statements, read left to right, are the lexer's tokens of those
   statements: same values, same types except that a token may have been re-typed to Operator;
   and every group's cached value equals its current text *)
Theorem C03_leaves_and_cached : forall t stmts, cur_parse t = Ok stmts ->
  exists toks, cur_lex t = Ok toks
    /\ lsim (concat (cur_process toks)) (flat_map leaves stmts)
    /\ Forall cached_ok stmts.
Proof.
  intros t stmts H. apply cur_parse_inv in H. destruct H as (toks & El & Hg).
  exists toks. split; [exact El|]. apply grouped_leaves, Hg.
Qed.
Print Assumptions C03_leaves_and_cached.

(* the same after any prefix of the pass list (what the stage-wise correspondence observes) *)
Theorem C03_every_pass : forall k n n', group_upto k n = Ok n' ->
  lsim (leaves n) (leaves n') /\ (cached_ok n -> cached_ok n').
Proof. intros k n n' H. apply group_upto_good in H. exact H. Qed.

(* get_token_at_offset: walks the flattened leaves accumulating lengths *)
Fixpoint at_offset (ls : list tok) (idx off : nat) : option tok :=
  match ls with
  | [] => None
  | tk :: r =>
      let e := idx + length (snd tk) in
      if Nat.leb idx off && Nat.ltb off e then Some tk else at_offset r e off
  end.

Theorem C03_at_offset : forall ls idx off,
  idx <= off < idx + length (flat_map snd ls) ->
  exists pre tk post,
    ls = pre ++ tk :: post /\ at_offset ls idx off = Some tk
    /\ idx + length (flat_map snd pre) <= off < idx + length (flat_map snd pre) + length (snd tk).
Proof.
  induction ls as [|tk r IH]; intros idx off H; cbn [flat_map length] in H; [lia|].
  cbn [at_offset]. rewrite app_length in H.
  destruct (Nat.ltb_spec off (idx + length (snd tk))) as [Hlt|Hge].
  - exists [], tk, r. cbn [flat_map length app].
    replace (Nat.leb idx off) with true by (symmetry; apply Nat.leb_le; lia).
    split; [reflexivity|]. split; [reflexivity|]. lia.
  - destruct (IH (idx + length (snd tk)) off) as (pre & tk' & post & E & A & B); [lia|].
    exists (tk :: pre), tk', post. split; [rewrite E; reflexivity|].
    replace (Nat.ltb off (idx + length (snd tk))) with false by (symmetry; apply Nat.ltb_ge; lia).
    rewrite andb_false_r. split; [exact A|]. cbn [flat_map]. rewrite app_length. lia.
Qed.

(* every group of every parsed statement is non-empty (no pass ever creates an empty group) *)
Theorem C03_nonempty : forall t stmts, cur_parse t = Ok stmts ->
  Forall (fun n => nonempty_groups n = true) stmts.
Proof. exact cur_parse_nonempty. Qed.
Print Assumptions C03_nonempty.
