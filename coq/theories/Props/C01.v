(* C01 - the lexer is total and lossless: tokens partition the input text. *)
From SqlModel.Gen Require LexPins.
From SqlModel Require Import Base Re MinWidth Lexer LexFacts.
From SqlModel.Gen Require Import CaseTabs KwTabs Rules.
From SqlModel.Inst Require Import Cur C01.

Theorem C01_lossless : forall t : text,
  exists toks,
    cur_lex t = Ok toks
    /\ concat (map snd toks) = t
    /\ Forall (fun tk => snd tk <> []) toks
    /\ LexSpec lower upper sql_regex kws None t toks.
Proof. exact (lex_total_lossless lower upper sql_regex kws cur_rules_wide). Qed.
Print Assumptions C01_lossless.

(* non-vacuity / sanity: an unrecognised character becomes a one-character Error token,
   an unterminated quote is an Error token followed by ordinary tokens *)
Example C01_error_token :
  cur_lex [0; 233; 180]%N
  = Ok [(T_Error, [0]%N); (T_Name, [233]%N); (T_Error, [180]%N)].
Proof. vm_compute. reflexivity. Qed.

Example C01_unterminated_quote :
  cur_lex [39; 97; 32; 55357]%N
  = Ok [(T_Error, [39]%N); (T_Name, [97]%N); (T_Whitespace, [32]%N); (T_Error, [55357]%N)].
Proof. vm_compute. reflexivity. Qed.

(* the hand-modelled scan loop / keyword lookup / class-level state of sqlparse/lexer.py still have the pinned shape
   (tools/regen/gen_lexpins.py fails closed otherwise and this file no longer compiles) *)
Example C01_lexer_shape : SqlModel.Gen.LexPins.lexer_shape_checked = true.
Proof. reflexivity. Qed.

