(* C07 (output_format part) - OutputPythonFilter / OutputPHPFilter never raise and add no exception to
   any option set; what the emitted source denotes.  Summarised from Filters/OutputFacts.v. *)
From Coq Require Import ZArith.
From SqlModel Require Import Base PyStr Node Passes.
From SqlModel.Gen Require Import CaseTabs.
From SqlModel.Inst Require Import Cur.
From SqlModel.Filters Require Import Reindent Output OutputFacts.

(* format(text, output_format='python'|'php') returns normally on every text *)
Theorem C07_output_total : forall f t, exists s, cur_format_out f t = Ok s.
Proof. exact cur_format_out_total. Qed.
Print Assumptions C07_output_total.

(* for every modelled option set: adding output_format changes neither whether format() raises nor the
   exception class it raises (status r = None when r = Ok _, Some e when r = Err e) *)
Theorem C07_output_adds_no_exception : forall o f t,
  status (cur_format (set_out o (Some f)) t) = status (cur_format (set_out o None) t).
Proof. exact output_adds_no_exception. Qed.
Print Assumptions C07_output_adds_no_exception.

(* the pipeline with output_format alone is an instance of the general one *)
Theorem C07_output_instance : forall f t, cur_format (out_only f) t = cur_format_out f t.
Proof. exact cur_format_out_is_cur_format. Qed.

(* what the emitted tokens denote (python): header `[\n]name = ` then literals denoting the payload *)
Theorem C07_output_python_denotes : forall count stmt,
  py_clean (nkids stmt) = true ->
  (has_nl stmt = false -> no_break (nkids stmt) = true) ->
  exists rhs,
    text_of_list (output_tokens OPython count stmt)
      = (if Nat.ltb 1 count then [LF] else []) ++ varname OPython count ++ [SP; 61%N; SP] ++ rhs
    /\ pydec false 0 rhs [] = Some (payload (nkids stmt)).
Proof. exact output_tokens_python. Qed.
Print Assumptions C07_output_python_denotes.

Theorem C07_output_php_denotes : forall count stmt,
  php_clean (nkids stmt) = true ->
  exists rhs,
    text_of_list (output_tokens OPhp count stmt)
      = (if Nat.ltb 1 count then [LF] else []) ++ varname OPhp count
        ++ (if has_nl stmt then [SP; SP; 61%N; SP] else [SP; 61%N; SP]) ++ rhs
    /\ phpdec false rhs [] = Some (payload (nkids stmt)).
Proof. exact output_tokens_php. Qed.
Print Assumptions C07_output_php_denotes.

(* without grouping, up to white space, the payload is the statement text *)
Theorem C07_output_payload_text : forall toks,
  Forall (fun tk => tin (fst tk) T_Whitespace = true -> all_space space_set (snd tk) = true) toks ->
  squash (payload (nkids (statement_of toks))) = squash (text_of (statement_of toks)).
Proof. exact payload_statement_text. Qed.
Print Assumptions C07_output_payload_text.

(* the counter *)
Theorem C07_output_counter : forall f stmts done i,
  nth_error (output_all f done stmts) i = option_map (output_stmt f (S (done + i))) (nth_error stmts i).
Proof. exact output_all_nth. Qed.

(* has_nl *)
Theorem C07_output_has_nl : forall t, has_nl_text t = existsb is_linebreak (strip space_set t).
Proof. exact has_nl_text_spec. Qed.
Print Assumptions C07_output_has_nl.

(* what does not hold *)
Definition C07_out_backslash_refuted := python_backslash_refuted.
Definition C07_out_raw_newline_refuted := python_raw_newline_refuted.
Definition C07_out_paren_refuted := python_paren_refuted.
Definition C07_out_has_nl_break_refuted := has_nl_break_refuted.
Definition C07_out_stale_group_value_refuted := stale_group_value_refuted.
