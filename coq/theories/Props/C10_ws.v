(* C10 (strip_whitespace / use_space_around_operators normal forms) and the serializer part of C06:
   what is proved of the model, and the refutations of the full statements. *)
From SqlModel Require Import Base PyStr Node Inv SplitDefs.
From SqlModel.Filters Require Import StripWs Spaces Serializer Format StripWsFacts SpacesFacts SerializerFacts
     SerializerSpec SerializerSpecFacts WsExamples.

(* ---- StripWhitespaceFilter ------------------------------------------------------------------- *)
Theorem C10_stripws_total : forall n, is_group n = true -> sw_wf n = true ->
  exists n', stripws n = Ok n' /\ sw_nf n' = true.
Proof. exact stripws_total. Qed.
Print Assumptions C10_stripws_total.

Theorem C06_stripws_leaves : forall n n', stripws n = Ok n' ->
  ws_edit (leaves n) (leaves n') /\ nw_leaves (leaves n') = nw_leaves (leaves n).
Proof. intros n n' H. split; [apply stripws_leaves | apply stripws_nonws_leaves]; exact H. Qed.
Print Assumptions C06_stripws_leaves.

(* flattened: under edge_ok every run of whitespace tokens renders as at most one blank *)
Theorem C10_stripws_flat_nf : forall n n', is_group n = true -> sw_wf n = true -> edge_ok n = true ->
  stripws n = Ok n' -> flat_nf_go true (leaves n') = true /\ edge_ok n' = true.
Proof. exact stripws_flat_nf. Qed.
Print Assumptions C10_stripws_flat_nf.

(* ---- SpacesAroundOperatorsFilter --------------------------------------------------------------- *)
Theorem C10_spaces_total_nf : forall n, is_group n = true ->
  exists n', spaces n = Ok n' /\ sp_nf n' = true.
Proof.
  intros n H. destruct (spaces_total n H) as (n' & E). exists n'. split; [exact E | eapply spaces_nf, E].
Qed.
Print Assumptions C10_spaces_total_nf.

(* running the filter on its own result changes nothing, for every tree (tree-level fixed point; holds since the
   filter counts a Newline next to an operator as white space -- `fix:` commit in /repo) *)
Theorem C10_spaces_idem_tree : forall n n', spaces n = Ok n' -> spaces n' = Ok n'.
Proof. exact spaces_idem. Qed.
Print Assumptions C10_spaces_idem_tree.

Theorem C06_spaces_leaves : forall n n', spaces n = Ok n' ->
  sp_ins (leaves n) (leaves n') /\ nw_leaves (leaves n') = nw_leaves (leaves n).
Proof. intros n n' H. split; [apply spaces_leaves | apply spaces_nonws_leaves]; exact H. Qed.
Print Assumptions C06_spaces_leaves.

(* ---- SerializerUnicode ------------------------------------------------------------------------- *)
Theorem C06_serialize_total : forall t, exists out, serialize t = Ok out.
Proof. exact serialize_total. Qed.
Print Assumptions C06_serialize_total.

Theorem C06_serialize_keeps_quoted : forall t ps1 q ps2,
  re_split CaseTabs.lower SplitRx.split_regex t = Ok (ps1 ++ Some q :: ps2) -> quoted_piece q ->
  exists init1 last1 first2 tail2,
    sun_loop CaseTabs.lower ps1 [] [] = init1 ++ [last1] /\
    sun_loop CaseTabs.lower ps2 [] [] = first2 :: tail2 /\
    serialize t = Ok (join s_lf (map (rstrip CaseTabs.space_set) init1
                                 ++ [last1 ++ q ++ rstrip CaseTabs.space_set first2]
                                 ++ map (rstrip CaseTabs.space_set) tail2)).
Proof. exact serialize_keeps_quoted. Qed.
Print Assumptions C06_serialize_keeps_quoted.

Theorem C06_serialize_spec : forall t, serialize t = Ok (cur_spec_serialize t).
Proof. exact serialize_spec. Qed.
Print Assumptions C06_serialize_spec.

(* ---- the full statements are false of the model (and of the implementation: WsExamples.v) ---- *)
Theorem C10_sw_fixed_point_refuted :
  exists t o1 o2, format_sw t = Ok o1 /\ format_sw o1 = Ok o2 /\ o2 <> o1.
Proof. exact format_sw_fixed_point_refuted. Qed.
Theorem C10_sp_fixed_point_refuted :
  exists t o1 o2, format_sp t = Ok o1 /\ format_sp o1 = Ok o2 /\ o2 <> o1.
Proof. exact format_sp_fixed_point_refuted. Qed.
Theorem C06_sw_token_sequence_refuted : exists t o, format_sw t = Ok o /\ lex_values o <> lex_values t.
Proof. exact c06_sw_go_fused_refuted. Qed.
Theorem C06_sp_token_sequence_refuted : exists t o, format_sp t = Ok o /\ lex_values o <> lex_values t.
Proof. exact c06_sp_hash_comment_refuted. Qed.
Theorem C06_plain_token_sequence_refuted : exists t o, format_plain t = Ok o /\ lex_values o <> lex_values t.
Proof. exact c06_plain_quote_in_comment_refuted. Qed.
Print Assumptions C06_plain_token_sequence_refuted.
