(* C16 - no lexical rule can backtrack exponentially. *)
From SqlModel.Gen Require LexPins.   (* the scan loop, is_keyword, consume and the class-level state of sqlparse/lexer.py have the pinned shape *)
From SqlModel Require Import Base Re Lexer Ambig AmbigFacts.
From SqlModel.Gen Require Import Atoms CaseTabs Rules.
From SqlModel.Inst Require Import Cur C16.

(* every unbounded repeat of every CURRENT rule has a body that is a prefix-free or suffix-free code
   of fixed-length character-class words (checked on the regenerated rules, classes compared on the
   enumerated code-point sets) *)
Theorem C16_criterion : forallb (fun ra => ok (fst ra)) sql_regex = true.
Proof. exact C16_rules_ok. Qed.
Print Assumptions C16_criterion.

(* hence no repeat of any rule can match the same substring in two ways: all results of a repeat
   end at pairwise different positions, for every text *)
Theorem C16_no_double_match : forall i r a s x c, nth_error sql_regex i = Some (r, a) ->
  In s (subreps r) -> NoDup (map (fun xc : st * caps => length (rest (fst xc))) (ends lower s x c)).
Proof. exact C16.C16_no_double_match. Qed.
Print Assumptions C16_no_double_match.

(* number of backtracking paths and total backtracking work of one match attempt: polynomial *)
Theorem C16_paths_poly : forall r a x c, In (r, a) sql_regex ->
  length (ends lower r x c) <= max_over coef sql_regex * S (length (rest x)) ^ max_over deg sql_regex.
Proof. intros r a x c H. exact (rules_paths lower sql_regex C16_rules_ok r a x c H). Qed.
Print Assumptions C16_paths_poly.

Theorem C16_work_poly : forall r a x c, In (r, a) sql_regex ->
  work lower r x c <= max_over wcoef sql_regex * S (length (rest x)) ^ max_over wdeg sql_regex.
Proof. intros r a x c H. exact (rules_work lower sql_regex C16_rules_ok r a x c H). Qed.
Print Assumptions C16_work_poly.

(* the whole scan: polynomial in the length of the text *)
Theorem C16_lexer : forall t,
  lex_work lower sql_regex None 0 t
  <= 1 + length t * S (fm_coef sql_regex * S (length t) ^ max_over wdeg sql_regex).
Proof. intros t. exact (lex_work_poly lower sql_regex C16_rules_ok t). Qed.
Print Assumptions C16_lexer.
