(* C17 - procedural bodies (CREATE ... BEGIN ... END;) stay one statement.
   Full statement refuted (three witnesses); the grammar without the three refuted productions
   is proved. *)
(* source pins: the functions of /repo the hand-written models in this file's cone mirror have the normalised AST they
   were written from (tools/regen/gen_srcpins.py; a changed function breaks its Gen/Pin_*.v and this file with it) *)
From SqlModel.Gen Require Pin_api_glue Pin_lexer_rules.
From SqlModel.Gen Require LexPins.   (* the scan loop, is_keyword, consume and the class-level state of sqlparse/lexer.py have the pinned shape *)
From SqlModel Require Import Base Str PyStr Re Lexer SplitDefs Splitter SplitFacts Level Level2.
From SqlModel.Gen Require Import CaseTabs SplitTab.
From SqlModel.Inst Require Import Cur.
From Coq Require Import ZArith.
Local Open Scope Z_scope.

(* CREATE[ OR REPLACE] <header: strict tokens, balanced parentheses> BEGIN <Blk> END ; <eos>
   Blk (Split/Level.v): the bracket language over ( ), BEGIN..END, IF/WHILE/FOR .. END IF/END WHILE/
   END FOR, CASE..END (NESTED to any depth since the fix of finding F39), semicolons and neutral tokens (incl. DECLARE inside a
   block, LOOP/END LOOP without FOR/WHILE, ...). *)
Theorem C17_create_unit : forall cr hdr bg body en e,
  is_create_ddl cr = true ->
  forallb strict_tok hdr = true -> net hdr = 0 ->
  kwtok bg [w_BEGIN] = true -> Blk true body -> kwtok en [w_END] = true ->
  forallb (fun tk => in_eos eos_ttypes (fst tk)) e = true ->
  Unit (create_unit cr hdr bg body en e).
Proof. exact create_is_unit. Qed.
Print Assumptions C17_create_unit.

(* the surrounding script: any sequence of units (plain statements by C05, CREATE units by the
   theorem above) is returned unit by unit, unchanged and in order *)
Theorem C17_script : forall u us,
  Forall Unit (u :: us) -> Forall starts_non_eos us ->
  cur_process (List.concat (u :: us)) = u :: us.
Proof. intros u us H1 H2. unfold cur_process. apply units_split; assumption. Qed.
Print Assumptions C17_script.

Theorem C17_partial : forall pre c post,
  Forall Unit pre -> Unit c -> Forall Unit post ->
  Forall starts_non_eos (tl (pre ++ c :: post)) ->
  cur_process (List.concat (pre ++ c :: post)) = pre ++ c :: post.
Proof.
  intros pre c post Hpre Hc Hpost Hs. unfold cur_process.
  destruct pre as [|u pre'].
  - cbn [app] in *. apply units_split; [constructor; assumption|exact Hs].
  - cbn [app tl] in *. apply units_split; [|exact Hs].
    inversion Hpre; subst. constructor; [assumption|].
    apply Forall_app. split; [assumption|constructor; assumption].
Qed.
Print Assumptions C17_partial.

(* ---- the full property is false of the faithful model (and of the code) -------------------- *)
Definition nstmts (t : text) : res nat :=
  match cur_split_stream t with Ok l => Ok (List.length l) | Err e => Err e end.

(* F2: FOR ... LOOP ... END LOOP  (FOR raises the level, `END LOOP` does not lower it) *)
Theorem C17_refuted_endloop :
  nstmts (tx "CREATE FUNCTION f() BEGIN FOR i IN 1..10 LOOP x := x+1; END LOOP; RETURN x; END; select 2; select 3") = Ok 1%nat.
Proof. vm_compute. reflexivity. Qed.
(* F3: CASE ... END CASE statement (`END CASE` lexes as END, CASE: the second CASE re-opens) *)
Theorem C17_refuted_endcase :
  nstmts (tx "CREATE PROCEDURE p() BEGIN CASE WHEN a THEN select 1; END CASE; END; select 2; select 3") = Ok 1%nat.
Proof. vm_compute. reflexivity. Qed.
(* F12: DECLARE section before BEGIN (+1 that nothing removes) *)
Theorem C17_refuted_declare :
  nstmts (tx "CREATE PROCEDURE p() DECLARE x int; BEGIN select 1; END; select 2; select 3") = Ok 1%nat.
Proof. vm_compute. reflexivity. Qed.
(* the same script with the supported constructs IS split into 3 *)
Example C17_supported :
  nstmts (tx "CREATE PROCEDURE p() BEGIN IF a THEN select 1; END IF; DECLARE y int; BEGIN x := (1;2); END; END; select 2; select 3") = Ok 3%nat.
Proof. vm_compute. reflexivity. Qed.

(* non-vacuity of C17_create_unit: a concrete text lexes into a create_unit whose parts satisfy
   every hypothesis *)
Definition ex17 : list tok :=
  match cur_lex (tx "CREATE FUNCTION f(a int) BEGIN IF a THEN x; END IF; END; ") with Ok l => l | Err _ => [] end.
Definition ex_cr := nth 0 ex17 semi.
Definition ex_hdr := firstn 10 (skipn 1 ex17).
Definition ex_bg := nth 11 ex17 semi.
Definition ex_body := firstn 13 (skipn 12 ex17).
Definition ex_en := nth 25 ex17 semi.
Definition ex_e := skipn 27 ex17.
Lemma blk_flat f l : forallb (fun tk => neutral_tok tk || is_semi tk) l = true -> Blk f l.
Proof.
  induction l as [|tk l IH]; intros H; [apply B_nil|].
  cbn [forallb] in H. apply andb_true_iff in H. destruct H as [H1 H2].
  apply orb_true_iff in H1. destruct H1 as [H1|H1]; [apply B_tok|apply B_semi]; auto.
Qed.
Example C17_nonvacuous :
    ex17 = create_unit ex_cr ex_hdr ex_bg ex_body ex_en ex_e /\ List.length ex17 = 28%nat
    /\ is_create_ddl ex_cr = true /\ forallb strict_tok ex_hdr = true /\ net ex_hdr = 0
    /\ kwtok ex_bg [w_BEGIN] = true /\ Blk true ex_body /\ kwtok ex_en [w_END] = true
    /\ forallb (fun tk => in_eos eos_ttypes (fst tk)) ex_e = true.
Proof.
  repeat (split; [vm_compute; reflexivity|]). split; [|split; vm_compute; reflexivity].
  (* the block: ws IF <ws a ws THEN ws x ; ws> END IF <; ws> *)
  assert (E : ex_body = nth 0 ex_body semi :: (nth 1 ex_body semi :: firstn 8 (skipn 2 ex_body) ++ nth 10 ex_body semi :: skipn 11 ex_body))
    by (vm_compute; reflexivity).
  rewrite E. apply B_tok; [vm_compute; reflexivity|].
  apply B_loop; [vm_compute; reflexivity|vm_compute; reflexivity| |];
    apply blk_flat; vm_compute; reflexivity.
Qed.

(* F19: a block keyword directly followed by `(` or by `.` (float literal) is lexed as a Name *)
Theorem C17_refuted_kw_before_dot :
  nstmts (tx "CREATE PROCEDURE p() BEGIN IF .5 > x THEN select 1; END IF; END; select 2") = Ok 3%nat.
Proof. vm_compute. reflexivity. Qed.

(* F38: a qualified name whose last part is spelled CASE (NEW.case): the rule (CASE|IN|VALUES|USING|FROM|AS)\b stands before
   the rule that makes a word after a period a Name, so the part is a Keyword CASE token that raises the split level and is
   never closed; NEW.end (a Name) is harmless *)
Theorem C17_refuted_dot_case :
  nstmts (tx "CREATE PROCEDURE p() BEGIN c := NEW.case; END; select 2; select 3") = Ok 1%nat
  /\ nstmts (tx "CREATE PROCEDURE p() BEGIN c := NEW.end; END; select 2; select 3") = Ok 3%nat.
Proof. split; vm_compute; reflexivity. Qed.
Print Assumptions C17_refuted_dot_case.

(* F39 (FIXED in /repo: _in_case was a flag, so the END of an inner CASE expression closed the flag and the END of the outer
   one was booked as a block END; it is a counter now and C17_create_unit covers CASE expressions nested to any depth):
   the former witness splits correctly *)
Theorem C17_nested_case_fixed :
  nstmts (tx "CREATE PROCEDURE p() BEGIN SET x = CASE WHEN b THEN CASE WHEN c THEN 1 END END; WHILE r DO y := 1; END WHILE; END; select 2") = Ok 2%nat.
Proof. vm_compute. reflexivity. Qed.
