(* C03 (object-heap part) - parent references, object identity and the navigation helpers.
   Model: Tree/HeapDefs.v; proofs: Tree/HeapFacts.v. *)
From SqlModel Require Import Base PyStr Node Inv HeapDefs HeapFacts.
From Coq Require Import ZArith.

(* a freshly allocated tree is well-formed, abstracts to the pure tree, cached values agree *)
Theorem C03_parent_of_node_wf : forall n,
  wf_heap (fst (of_node n)) (snd (of_node n))
  /\ abs (fst (of_node n)) (snd (of_node n)) = Some n
  /\ (cached_ok n <-> cached_ok_heap (fst (of_node n))).
Proof. exact of_node_wf. Qed.
Print Assumptions C03_parent_of_node_wf.

(* the local invariants say exactly that the heap is one tree of distinct objects *)
Theorem C03_parent_wf_iff_tree : forall h root, wf_heap h root <-> exists t, wf_tree h root t.
Proof. exact wf_heap_iff_tree. Qed.
Print Assumptions C03_parent_wf_iff_tree.

(* group_tokens, both branches *)
Theorem C03_parent_group_tokens_wf : forall h root self c a b ext h' g,
  wf_heap h root -> h_group_tokens h self c a b ext = Ok (h', g) ->
  (a <> (-1)%Z \/ h_extend_taken h self c a ext = false) ->
  wf_heap h' root
  /\ (cached_ok_heap h -> cached_ok_heap h')
  /\ (exists ls, h_flatten h root = Some ls /\ h_flatten h' root = Some ls)
  /\ h_str h' root = h_str h root.
Proof. exact h_group_tokens_wf. Qed.
Print Assumptions C03_parent_group_tokens_wf.

Theorem C03_parent_group_tokens_result : forall h root self c a b ext h' g,
  wf_heap h root -> h_group_tokens h self c a b ext = Ok (h', g) ->
  (a <> (-1)%Z \/ h_extend_taken h self c a ext = false) ->
  exists toks toks' gc txt old moved,
    is_grp h self toks /\ is_grp h' self toks' /\ In g toks'
    /\ hget h' g = Some (mkobj (KGrp gc txt (old ++ moved)) (Some self))
    /\ h_str h' g = Some txt
    /\ (forall x, In x moved -> exists k, hget h' x = Some (mkobj k (Some g)))
    /\ ((h_extend_taken h self c a ext = false /\ old = [] /\ gc = c /\ hget h g = None /\ moved = py_slice toks a b)
        \/ (h_extend_taken h self c a ext = true /\ is_grp h g old /\ moved = py_slice toks (a + 1) b)).
Proof. exact h_group_tokens_result. Qed.
Print Assumptions C03_parent_group_tokens_result.

(* refinement to the pure model, for any group self (named by its position path) *)
Theorem C03_parent_group_tokens_refines : forall h root self c (start stop : nat) ext h' g n,
  wf_heap h root -> abs h root = Some n ->
  h_group_tokens h self c (Z.of_nat start) (Z.of_nat stop) ext = Ok (h', g) ->
  exists p sc scv kids kids' gn,
    h_at h root p = Some self
    /\ node_at p n = Some (Grp sc scv kids)
    /\ group_tokens c start stop ext kids = Ok (kids', gn)
    /\ abs h' root = Some (upd_at p (fun _ => kids') n)
    /\ abs h' g = Some gn.
Proof. exact h_group_tokens_refines. Qed.
Print Assumptions C03_parent_group_tokens_refines.

Theorem C03_parent_insert_before_wf : forall h root self wh ty v h',
  wf_heap h root ->
  h_insert_before (fst (h_new_leaf h ty v)) self wh (snd (h_new_leaf h ty v)) = Ok h' ->
  wf_heap h' root
  /\ hget h' (fresh h) = Some (mkobj (KLeaf ty v) (Some self))
  /\ exists toks', is_grp h' self toks' /\ In (fresh h) toks'.
Proof. exact h_insert_before_wf. Qed.
Print Assumptions C03_parent_insert_before_wf.

Theorem C03_parent_insert_after_wf : forall h root self wh ty v skip_ws h',
  wf_heap h root ->
  h_insert_after (fst (h_new_leaf h ty v)) self wh (snd (h_new_leaf h ty v)) skip_ws = Ok h' ->
  wf_heap h' root
  /\ hget h' (fresh h) = Some (mkobj (KLeaf ty v) (Some self))
  /\ exists toks', is_grp h' self toks' /\ In (fresh h) toks'.
Proof. exact h_insert_after_wf. Qed.
Print Assumptions C03_parent_insert_after_wf.

(* navigation helpers on well-formed heaps *)
Theorem C03_nav_token_index : forall h root g kids c (start : nat),
  wf_heap h root -> is_grp h g kids ->
  (forall i, h_token_index h g c (Z.of_nat start) = Ok (Z.of_nat i) <-> (nth_error kids i = Some c /\ start <= i))
  /\ (h_token_index h g c (Z.of_nat start) = Err ValueError <-> ~ In c (skipn start kids))
  /\ (forall r, h_token_index h g c (Z.of_nat start) = Ok r -> (Z.of_nat start <= r)%Z).
Proof. exact h_token_index_spec. Qed.
Print Assumptions C03_nav_token_index.

Theorem C03_nav_token_next : forall h root g kids idx sw scm,
  wf_heap h root -> is_grp h g kids -> (-1 <= idx)%Z ->
  exists r, h_token_next h g idx sw scm false = Ok r
            /\ next_spec h (skip_matcher sw scm) kids (Z.to_nat (idx + 1)) r.
Proof. exact h_token_next_spec. Qed.
Print Assumptions C03_nav_token_next.

Theorem C03_nav_token_prev : forall h root g kids idx sw scm,
  wf_heap h root -> is_grp h g kids -> (idx <= Z.of_nat (length kids))%Z ->
  exists r, h_token_prev h g idx sw scm = Ok r
            /\ prev_spec h (skip_matcher sw scm) kids (Z.to_nat idx) r.
Proof. exact h_token_prev_spec. Qed.
Print Assumptions C03_nav_token_prev.

Theorem C03_nav_token_prev_beyond : forall h g c cv kids p idx sw scm,
  hget h g = Some (mkobj (KGrp c cv kids) p) -> (Z.of_nat (length kids) < idx)%Z ->
  h_token_prev h g idx sw scm = Err IndexError.
Proof. exact h_token_prev_beyond. Qed.
Print Assumptions C03_nav_token_prev_beyond.

Theorem C03_nav_token_first : forall h root g kids sw scm,
  wf_heap h root -> is_grp h g kids ->
  exists r, h_token_first h g sw scm = Ok r /\
    match r with
    | Some t => exists jn, nth_error kids jn = Some t /\ skip_matcher sw scm (h_node h t) = true
                  /\ forall i t', i < jn -> nth_error kids i = Some t' -> skip_matcher sw scm (h_node h t') = false
    | None => forall i t', nth_error kids i = Some t' -> skip_matcher sw scm (h_node h t') = false
    end.
Proof. exact h_token_first_spec. Qed.
Print Assumptions C03_nav_token_first.

Theorem C03_nav_is_child_of : forall h root c other o,
  wf_heap h root -> hget h c = Some o ->
  exists b, h_is_child_of h c other = Ok b /\ (b = true <-> exists kids, is_grp h other kids /\ In c kids).
Proof. exact h_is_child_of_spec. Qed.
Print Assumptions C03_nav_is_child_of.

Theorem C03_nav_has_ancestor : forall h root c a o,
  wf_heap h root -> hget h c = Some o ->
  exists b, h_has_ancestor h c a = Ok b /\ (b = true <-> below h a c).
Proof. exact h_has_ancestor_spec. Qed.
Print Assumptions C03_nav_has_ancestor.

Theorem C03_nav_within : forall h root c cls o,
  wf_heap h root -> hget h c = Some o ->
  exists b, h_within h c cls = Ok b /\ (b = true <-> exists a, below h a c /\ h_isinstance h a cls = true).
Proof. exact h_within_spec. Qed.
Print Assumptions C03_nav_within.

Theorem C03_nav_get_token_at_offset : forall h root g kids off,
  wf_heap h root -> is_grp h g kids ->
  exists ls, h_flatten h g = Some ls /\ h_str h g = Some (flat_map (leaf_value h) ls)
    /\ h_get_token_at_offset h g off = Ok (offset_loop h ls 0 off)
    /\ ((0 <= off < leaves_len h ls)%Z ->
         exists pre t post, ls = pre ++ t :: post /\ offset_loop h ls 0 off = Some t
           /\ (leaves_len h pre <= off < leaves_len h pre + Z.of_nat (length (leaf_value h t)))%Z)
    /\ ((off < 0 \/ leaves_len h ls <= off)%Z -> offset_loop h ls 0 off = None).
Proof. exact h_get_token_at_offset_spec. Qed.
Print Assumptions C03_nav_get_token_at_offset.

(* the statements of group_tokens that maintain the parent references are needed *)
Theorem C03_parent_noreparent_refuted :
  exists h root self c a b ext,
    wf_heap h root /\
    exists h' g, h_group_tokens_noreparent h self c a b ext = Ok (h', g) /\ ~ wf_heap h' root.
Proof. exact noreparent_refuted. Qed.
Print Assumptions C03_parent_noreparent_refuted.

Theorem C03_parent_nogrpparent_refuted :
  exists h root self c a b ext,
    wf_heap h root /\
    exists h' g, h_group_tokens_nogrpparent h self c a b ext = Ok (h', g) /\ ~ wf_heap h' root.
Proof. exact nogrpparent_refuted. Qed.
Print Assumptions C03_parent_nogrpparent_refuted.

(* the hypothesis on start_idx = -1 cannot be dropped *)
Theorem C03_parent_extend_minus1_refuted :
  exists h root self c b,
    wf_heap h root /\ cached_ok_heap h /\
    (exists h' g, h_group_tokens h self c (-1) b true = Ok (h', g)
        /\ h_flatten h' root <> h_flatten h root /\ ~ cached_ok_heap h')
    /\ h_group_tokens h self c (-1) 3 true = Err RecursionError.
Proof. exact extend_minus1_refuted. Qed.
Print Assumptions C03_parent_extend_minus1_refuted.

(* insert_before keeps the parent references but leaves the cached values of self and its ancestors stale *)
Theorem C03_parent_insert_cached_refuted :
  exists h root self wh ty v,
    wf_heap h root /\ cached_ok_heap h /\
    exists h', h_insert_before (fst (h_new_leaf h ty v)) self wh (snd (h_new_leaf h ty v)) = Ok h'
               /\ wf_heap h' root /\ ~ cached_ok_heap h'.
Proof. exact insert_before_cached_refuted. Qed.
Print Assumptions C03_parent_insert_cached_refuted.
