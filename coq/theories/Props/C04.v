(* C04 - split() returns, in order, the stripped text of exactly the statements parse() returns:
   non-empty pieces at increasing, non-overlapping positions with whitespace-only gaps; re-splitting
   a piece (token level: always one statement; text level: refuted, with a conditional theorem). *)
(* source pins: the functions of /repo the hand-written models in this file's cone mirror have the normalised AST they
   were written from (tools/regen/gen_srcpins.py; a changed function breaks its Gen/Pin_*.v and this file with it) *)
From SqlModel.Gen Require Pin_api_glue Pin_formatter_module.
From SqlModel.Gen Require LexPins.   (* the scan loop, is_keyword, consume and the class-level state of sqlparse/lexer.py have the pinned shape *)
From SqlModel Require Import Base PyStr Lexer SplitDefs Splitter Node.
From SqlModel.Gen Require Import CaseTabs.
From SqlModel.Inst Require Import Cur.
From SqlModel.Split Require Import SplitApi SplitApiFacts.

Theorem C04_agree : forall t stmts, cur_parse t = Ok stmts ->
  cur_split false t = Ok (map (fun s => strip space_set (text_of s)) stmts).
Proof. exact split_agree. Qed.
Print Assumptions C04_agree.

Theorem C04_partition : forall t ps, cur_split false t = Ok ps ->
  Forall (fun p => p <> []) ps /\
  exists gaps, length gaps = S (length ps)
    /\ Forall (fun g => all_space space_set g = true) gaps
    /\ t = interleave gaps ps.
Proof. exact split_partition. Qed.
Print Assumptions C04_partition.

Theorem C04_resplit_tokens : forall toks s, In s (cur_process toks) -> cur_process s = [s].
Proof. exact split_resplit_tokens. Qed.
Print Assumptions C04_resplit_tokens.

(* unconditional: re-splitting a piece can only cut it further -- a non-empty list of pieces that
   partition the piece (empty outer gaps, whitespace-only inner gaps); of length one only as [piece] *)
Theorem C04_resplit_shape : forall t ps p, cur_split false t = Ok ps -> In p ps ->
  exists qs, cur_split false p = Ok qs /\ qs <> [] /\ (length qs = 1 -> qs = [p]) /\
    exists gaps, length gaps = S (length qs)
      /\ Forall (fun g => all_space space_set g = true) gaps
      /\ hd [] gaps = [] /\ last gaps [] = []
      /\ p = interleave gaps qs.
Proof. exact split_resplit_shape. Qed.
Print Assumptions C04_resplit_shape.

Theorem C04_idem_refuted :
  exists t p, cur_split false t = Ok [p] /\ cur_split false p <> Ok [p].
Proof. exact split_idem_refuted. Qed.
Print Assumptions C04_idem_refuted.

Theorem C04_idem_refuted_leftctx :
  exists t p q, cur_split false t = Ok [p; q] /\ cur_split false p = Ok [p] /\ cur_split false q <> Ok [q].
Proof. exact split_idem_refuted_leftctx. Qed.
Print Assumptions C04_idem_refuted_leftctx.

Theorem C04_idem_partial : forall t toks s l m r m',
  cur_lex t = Ok toks -> In s (cur_process toks) ->
  s = l ++ m ++ r ->
  Forall (fun tk => is_ws_tok tk = true) l -> Forall (fun tk => is_ws_tok tk = true) r ->
  cur_lex (piece_of false s) = Ok m' -> Forall2 tok_sim m m' ->
  cur_split false (piece_of false s) = Ok [piece_of false s].
Proof. exact split_idem_partial_sim. Qed.
Print Assumptions C04_idem_partial.
