(* Object-heap model of sqlparse.sql.Token / TokenList: objects have an identity, a mutable `parent`
   field and (for groups) a mutable ordered list of child identities.  The operations follow the
   Python statements of sql.py one by one (the order matters for aliasing); indices are Python ints
   (Z) with Python's list-index / slice / list.insert semantics.  Definitions only. *)
From SqlModel Require Import Base PyStr Node.
From Coq Require Import ZArith.

Definition id := nat.

Inductive okind :=
| KLeaf (ty : ttype) (v : text)                     (* sql.Token: ttype, value *)
| KGrp (c : cls) (cached : text) (kids : list id).  (* TokenList subclass: class, value, tokens *)

Record obj := mkobj { okind_of : okind; oparent : option id }.

Definition heap := list (id * obj).

Fixpoint hget (h : heap) (i : id) : option obj :=
  match h with
  | [] => None
  | (j, o) :: r => if Nat.eqb j i then Some o else hget r i
  end.

Fixpoint hset (h : heap) (i : id) (o : obj) : heap :=
  match h with
  | [] => [(i, o)]
  | (j, p) :: r => if Nat.eqb j i then (i, o) :: r else (j, p) :: hset r i o
  end.

Definition fresh (h : heap) : id := S (fold_right (fun p m => Nat.max (fst p) m) 0 h).

Definition set_parent (h : heap) (i : id) (p : option id) : heap :=
  match hget h i with
  | Some o => hset h i (mkobj (okind_of o) p)
  | None => h
  end.

Definition set_parents (h : heap) (l : list id) (p : option id) : heap :=
  fold_left (fun h i => set_parent h i p) l h.

(* replace the child list of a group object (no-op on leaves) *)
Definition upd_kids (h : heap) (g : id) (f : list id -> list id) : heap :=
  match hget h g with
  | Some (mkobj (KGrp c cv kids) p) => hset h g (mkobj (KGrp c cv (f kids)) p)
  | _ => h
  end.

Definition set_cached (h : heap) (g : id) (s : text) : heap :=
  match hget h g with
  | Some (mkobj (KGrp c _ kids) p) => hset h g (mkobj (KGrp c s kids) p)
  | _ => h
  end.

Definition set_ttype (h : heap) (i : id) (ty : ttype) : heap :=
  match hget h i with
  | Some (mkobj (KLeaf _ v) p) => hset h i (mkobj (KLeaf ty v) p)
  | _ => h
  end.

(* ---- Python list indexing ---------------------------------------------------------------- *)
(* l[i]: position, or None for IndexError *)
Definition py_index (len : nat) (i : Z) : option nat :=
  if (0 <=? i)%Z
  then (if (i <? Z.of_nat len)%Z then Some (Z.to_nat i) else None)
  else (if (- Z.of_nat len <=? i)%Z then Some (Z.to_nat (i + Z.of_nat len)) else None).

(* a slice bound / the index of list.insert: negative counts from the end, then clamped *)
Definition py_bound (len : nat) (b : Z) : nat :=
  if (b <? 0)%Z then Z.to_nat (Z.max 0 (b + Z.of_nat len)) else Nat.min (Z.to_nat b) len.

Definition slice_nat {A} (l : list A) (lo hi : nat) : list A := firstn (hi - lo) (skipn lo l).
Definition splice_nat {A} (l : list A) (lo hi : nat) (x : list A) : list A :=
  firstn lo l ++ x ++ skipn (Nat.max lo hi) l.

(* l[a:b] *)
Definition py_slice {A} (l : list A) (a b : Z) : list A :=
  slice_nat l (py_bound (length l) a) (py_bound (length l) b).
(* l[a:b] = x   (an empty or reversed range inserts at the lower bound) *)
Definition py_slice_assign {A} (l : list A) (a b : Z) (x : list A) : list A :=
  splice_nat l (py_bound (length l) a) (py_bound (length l) b) x.
(* del l[a:b] *)
Definition py_slice_del {A} (l : list A) (a b : Z) : list A := py_slice_assign l a b [].
(* l.insert(i, x) *)
Definition py_insert {A} (l : list A) (i : Z) (x : A) : list A :=
  let k := py_bound (length l) i in firstn k l ++ x :: skipn k l.

(* ---- option / res list helpers ------------------------------------------------------------ *)
Section MapO.
Context {A B : Type}.
Variable f : A -> option B.
Fixpoint mapO (l : list A) : option (list B) :=
  match l with
  | [] => Some []
  | x :: l' => match f x with
               | None => None
               | Some y => match mapO l' with None => None | Some r => Some (y :: r) end
               end
  end.
End MapO.

Definition concatO {A} (o : option (list (list A))) : option (list A) :=
  match o with Some l => Some (concat l) | None => None end.

(* ---- flatten / str ----------------------------------------------------------------------- *)
(* Token.flatten yields the token itself; TokenList.flatten recurses into group children.
   Fuel runs out only on a cyclic structure (Python: RecursionError). *)
Fixpoint h_flatten_f (fuel : nat) (h : heap) (i : id) : option (list id) :=
  match fuel with
  | O => None
  | S f =>
      match hget h i with
      | None => None
      | Some o =>
          match okind_of o with
          | KLeaf _ _ => Some [i]
          | KGrp _ _ kids => concatO (mapO (h_flatten_f f h) kids)
          end
      end
  end.
Definition h_flatten (h : heap) (i : id) : option (list id) := h_flatten_f (length h) h i.

Definition leaf_value (h : heap) (i : id) : text :=
  match hget h i with
  | Some (mkobj (KLeaf _ v) _) => v
  | _ => []
  end.

(* str(obj) *)
Definition h_str (h : heap) (i : id) : option text :=
  match h_flatten h i with
  | Some ls => Some (flat_map (leaf_value h) ls)
  | None => None
  end.

(* ---- abstraction to the pure tree of Tree/Node.v ------------------------------------------ *)
Fixpoint abs_f (fuel : nat) (h : heap) (i : id) : option node :=
  match fuel with
  | O => None
  | S f =>
      match hget h i with
      | None => None
      | Some o =>
          match okind_of o with
          | KLeaf ty v => Some (Leaf ty v)
          | KGrp c cv kids =>
              match mapO (abs_f f h) kids with
              | Some ks => Some (Grp c cv ks)
              | None => None
              end
          end
      end
  end.
Definition abs (h : heap) (i : id) : option node := abs_f (length h) h i.

(* ---- trees decorated with identities ------------------------------------------------------- *)
Inductive itree :=
| ILeaf (i : id) (ty : ttype) (v : text)
| IGrp (i : id) (c : cls) (cv : text) (kids : list itree).

Definition iid (t : itree) : id := match t with ILeaf i _ _ => i | IGrp i _ _ _ => i end.

Fixpoint ids (t : itree) : list id :=
  match t with
  | ILeaf i _ _ => [i]
  | IGrp i _ _ kids => i :: flat_map ids kids
  end.

Fixpoint ileaves (t : itree) : list id :=
  match t with
  | ILeaf i _ _ => [i]
  | IGrp _ _ _ kids => flat_map ileaves kids
  end.

Fixpoint erase (t : itree) : node :=
  match t with
  | ILeaf _ ty v => Leaf ty v
  | IGrp _ c cv kids => Grp c cv (map erase kids)
  end.

Fixpoint itext (t : itree) : text :=
  match t with
  | ILeaf _ _ v => v
  | IGrp _ _ _ kids => flat_map itext kids
  end.

(* number the nodes of a pure tree in pre-order starting at [next] *)
Fixpoint nsize (n : node) : nat :=
  match n with
  | Leaf _ _ => 1
  | Grp _ _ kids => S (list_sum (map nsize kids))
  end.

Section LabelList.
Variable lab : node -> id -> itree.
Fixpoint label_list (l : list node) (nx : id) : list itree :=
  match l with
  | [] => []
  | k :: l' => lab k nx :: label_list l' (nx + nsize k)
  end.
End LabelList.

Fixpoint label (n : node) (next : id) : itree :=
  match n with
  | Leaf ty v => ILeaf next ty v
  | Grp c cv kids => IGrp next c cv (label_list label kids (S next))
  end.

(* the objects of a decorated tree, parent fields filled in *)
Fixpoint heap_of (p : option id) (t : itree) : heap :=
  match t with
  | ILeaf i ty v => [(i, mkobj (KLeaf ty v) p)]
  | IGrp i c cv kids => (i, mkobj (KGrp c cv (map iid kids)) p) :: flat_map (heap_of (Some i)) kids
  end.

(* allocate a fresh heap from a pure tree; the root is object 0 *)
Definition of_node (n : node) : heap * id := (heap_of None (label n 0), 0).

(* ---- isinstance --------------------------------------------------------------------------- *)
Definition kind_inst (k : okind) (c : cls) : bool :=
  match k with
  | KGrp c' _ _ => cls_eqb c' c || cls_eqb c CTokenList
  | KLeaf _ _ => false
  end.
Definition h_isinstance (h : heap) (i : id) (c : cls) : bool :=
  match hget h i with Some o => kind_inst (okind_of o) c | None => false end.

(* ---- TokenList.__init__ : grp_cls(subtokens) ----------------------------------------------- *)
(*   self.tokens = tokens or []
     [setattr(token, 'parent', self) for token in self.tokens]
     super().__init__(None, str(self))          value = str(self); parent = None *)
Definition h_new_group (h : heap) (c : cls) (subs : list id) : res (heap * id) :=
  let g := fresh h in
  let h1 := hset h g (mkobj (KGrp c [] subs) None) in
  let h2 := set_parents h1 subs (Some g) in
  match h_str h2 g with
  | None => Err RecursionError
  | Some s => Ok (set_cached h2 g s, g)
  end.

(* ---- TokenList.group_tokens ---------------------------------------------------------------- *)
(* end_idx = end + include_end.  The two flags switch off `grp.parent = self` and the final
   `for token in subtokens: token.parent = grp` loop (used only to show that the invariants need
   them); the real method is h_group_tokens = both on. *)
Definition h_group_tokens_gen (set_grp_parent reparent : bool)
    (h : heap) (self : id) (c : cls) (start_idx end_idx : Z) (extend : bool) : res (heap * id) :=
  match hget h self with
  | None => Err Stuck
  | Some so =>
      match okind_of so with
      | KLeaf _ _ => Err AttributeError
      | KGrp _ _ toks =>
          match py_index (length toks) start_idx with
          | None => Err IndexError                                (* start = self.tokens[start_idx] *)
          | Some pos =>
              match nth_error toks pos with
              | None => Err Stuck
              | Some start =>
                  if extend && h_isinstance h start c
                  then
                    let sub := py_slice toks (start_idx + 1) end_idx in      (* subtokens = self.tokens[start_idx + 1:end_idx] *)
                    let h1 := upd_kids h start (fun k => k ++ sub) in        (* grp.tokens.extend(subtokens) *)
                    let h2 := upd_kids h1 self (fun k => py_slice_del k (start_idx + 1) end_idx) in
                    match h_str h2 start with                                (* grp.value = str(start) *)
                    | None => Err RecursionError
                    | Some s =>
                        let h3 := set_cached h2 start s in
                        let h4 := if reparent then set_parents h3 sub (Some start) else h3 in
                        Ok (h4, start)
                    end
                  else
                    let sub := py_slice toks start_idx end_idx in            (* subtokens = self.tokens[start_idx:end_idx] *)
                    match h_new_group h c sub with                            (* grp = grp_cls(subtokens) *)
                    | Err e => Err e
                    | Ok (h1, g) =>
                        let h2 := upd_kids h1 self (fun k => py_slice_assign k start_idx end_idx [g]) in
                        let h3 := if set_grp_parent then set_parent h2 g (Some self) else h2 in
                        let h4 := if reparent then set_parents h3 sub (Some g) else h3 in
                        Ok (h4, g)
                    end
              end
          end
      end
  end.

Definition h_group_tokens := h_group_tokens_gen true true.
Definition h_group_tokens_noreparent := h_group_tokens_gen true false.
Definition h_group_tokens_nogrpparent := h_group_tokens_gen false true.

Definition b2z (b : bool) : Z := if b then 1%Z else 0%Z.
(* the Python signature: group_tokens(grp_cls, start, end, include_end=True, extend=False) *)
Definition h_group_tokens_py (h : heap) (self : id) (c : cls) (start end_ : Z) (include_end extend : bool) :=
  h_group_tokens h self c start (end_ + b2z include_end) extend.

(* was the extend branch taken? (for the distribution report) *)
Definition h_extend_taken (h : heap) (self : id) (c : cls) (start_idx : Z) (extend : bool) : bool :=
  match hget h self with
  | Some (mkobj (KGrp _ _ toks) _) =>
      match py_index (length toks) start_idx with
      | Some pos => match nth_error toks pos with
                    | Some start => extend && h_isinstance h start c
                    | None => false
                    end
      | None => false
      end
  | _ => false
  end.

(* ---- navigation ---------------------------------------------------------------------------- *)
Definition h_kids (h : heap) (g : id) : res (list id) :=
  match hget h g with
  | None => Err Stuck
  | Some o => match okind_of o with
              | KGrp _ _ kids => Ok kids
              | KLeaf _ _ => Err AttributeError
              end
  end.

Fixpoint index_of (x : id) (l : list id) : option nat :=
  match l with
  | [] => None
  | y :: r => if Nat.eqb y x then Some 0 else
                match index_of x r with Some k => Some (S k) | None => None end
  end.

(* token_index(token, start):  start + self.tokens[start:].index(token)   (list.index compares with
   ==, Token defines no __eq__: identity) *)
Definition h_token_index (h : heap) (g : id) (tok : id) (start : Z) : res Z :=
  match h_kids h g with
  | Err e => Err e
  | Ok toks =>
      match index_of tok (skipn (py_bound (length toks) start) toks) with
      | Some k => Ok (start + Z.of_nat k)%Z
      | None => Err ValueError
      end
  end.

(* range(a, b) *)
Definition zrange (a b : Z) : list Z :=
  map (fun k => (a + Z.of_nat k)%Z) (seq 0 (Z.to_nat (b - a))).

(* the top constructor of an object as a childless pure node: what the matchers look at *)
Definition shallow (k : okind) : node :=
  match k with KLeaf ty v => Leaf ty v | KGrp c cv _ => Grp c cv [] end.

Fixpoint tm_loop (h : heap) (f : node -> bool) (toks : list id) (idxs : list Z) : res (option (Z * id)) :=
  match idxs with
  | [] => Ok None
  | i :: r =>
      match py_index (length toks) i with
      | None => Err IndexError                                   (* token = self.tokens[idx] *)
      | Some k =>
          match nth_error toks k with
          | None => Err Stuck
          | Some t =>
              match hget h t with
              | None => Err Stuck
              | Some o => if f (shallow (okind_of o)) then Ok (Some (i, t)) else tm_loop h f toks r
              end
          end
      end
  end.

(* _token_matching(funcs, start, end, reverse) with one function; None stands for (None, None) *)
Definition h_token_matching (h : heap) (g : id) (f : node -> bool) (start : Z) (end_ : option Z)
    (reverse : bool) : res (option (Z * id)) :=
  match h_kids h g with
  | Err e => Err e
  | Ok toks =>
      if reverse
      then match end_ with
           | Some _ => Err Stuck                                 (* assert end is None *)
           | None => tm_loop h f toks (rev (zrange 0 (start - 1)))   (* range(start - 2, -1, -1) *)
           end
      else tm_loop h f toks
             (zrange start (match end_ with None => Z.of_nat (length toks) | Some e => e end))
  end.

(* token_next(idx, skip_ws, skip_cm, _reverse):  idx += 1; _token_matching(matcher, idx, reverse=_reverse) *)
Definition h_token_next (h : heap) (g : id) (idx : Z) (skip_ws skip_cm reverse : bool) :=
  h_token_matching h g (skip_matcher skip_ws skip_cm) (idx + 1) None reverse.
Definition h_token_prev (h : heap) (g : id) (idx : Z) (skip_ws skip_cm : bool) :=
  h_token_next h g idx skip_ws skip_cm true.
Definition h_token_first (h : heap) (g : id) (skip_ws skip_cm : bool) : res (option id) :=
  match h_token_matching h g (skip_matcher skip_ws skip_cm) 0 None false with
  | Err e => Err e
  | Ok None => Ok None
  | Ok (Some (_, t)) => Ok (Some t)
  end.

(* is_child_of(other): self.parent == other *)
Definition h_is_child_of (h : heap) (c other : id) : res bool :=
  match hget h c with
  | None => Err Stuck
  | Some o => Ok (match oparent o with Some p => Nat.eqb p other | None => false end)
  end.

(* parent = self.parent; while parent: if test(parent): return True; parent = parent.parent
   (objects are always truthy).  Fuel runs out only on a parent cycle (Python: no termination). *)
Fixpoint anc_loop (fuel : nat) (h : heap) (p : option id) (test : id -> bool) : res bool :=
  match p with
  | None => Ok false
  | Some q =>
      match fuel with
      | O => Err Stuck
      | S f =>
          if test q then Ok true
          else match hget h q with
               | None => Err Stuck
               | Some o => anc_loop f h (oparent o) test
               end
      end
  end.

Definition h_has_ancestor (h : heap) (c other : id) : res bool :=
  match hget h c with
  | None => Err Stuck
  | Some o => anc_loop (S (length h)) h (oparent o) (fun q => Nat.eqb q other)
  end.

Definition h_within (h : heap) (c : id) (k : cls) : res bool :=
  match hget h c with
  | None => Err Stuck
  | Some o => anc_loop (S (length h)) h (oparent o) (fun q => h_isinstance h q k)
  end.

(* get_token_at_offset(offset) *)
Fixpoint offset_loop (h : heap) (ls : list id) (idx off : Z) : option id :=
  match ls with
  | [] => None
  | t :: r =>
      let e := (idx + Z.of_nat (length (leaf_value h t)))%Z in
      if (idx <=? off)%Z && (off <? e)%Z then Some t else offset_loop h r e off
  end.

Definition h_get_token_at_offset (h : heap) (g : id) (off : Z) : res (option id) :=
  match h_kids h g with
  | Err e => Err e
  | Ok _ => match h_flatten h g with
            | None => Err RecursionError
            | Some ls => Ok (offset_loop h ls 0 off)
            end
  end.

(* ---- insert_before / insert_after ---------------------------------------------------------- *)
(* `where` is an int or a token *)
Definition h_where (h : heap) (self : id) (where_ : Z + id) : res Z :=
  match where_ with
  | inl z => match h_kids h self with Ok _ => Ok z | Err e => Err e end
  | inr t => h_token_index h self t 0
  end.

(*  token.parent = self; self.tokens.insert(where, token) *)
Definition h_insert_before (h : heap) (self : id) (where_ : Z + id) (tok : id) : res heap :=
  match h_where h self where_ with
  | Err e => Err e
  | Ok w =>
      let h1 := set_parent h tok (Some self) in
      Ok (upd_kids h1 self (fun k => py_insert k w tok))
  end.

(*  nidx, next_ = self.token_next(where, skip_ws=skip_ws); token.parent = self
    if next_ is None: self.tokens.append(token) else: self.tokens.insert(nidx, token) *)
Definition h_insert_after (h : heap) (self : id) (where_ : Z + id) (tok : id) (skip_ws : bool) : res heap :=
  match h_where h self where_ with
  | Err e => Err e
  | Ok w =>
      match h_token_next h self w skip_ws false false with
      | Err e => Err e
      | Ok nx =>
          let h1 := set_parent h tok (Some self) in
          Ok (upd_kids h1 self (fun k => match nx with
                                         | None => k ++ [tok]
                                         | Some (nidx, _) => py_insert k nidx tok
                                         end))
      end
  end.

(* sql.Token(ttype, value): a new parentless leaf *)
Definition h_new_leaf (h : heap) (ty : ttype) (v : text) : heap * id :=
  let i := fresh h in (hset h i (mkobj (KLeaf ty v) None), i).

(* ---- operations on decorated trees (the specification side of the heap operations) ---------- *)
Section FindFirst.
Context {A B : Type}.
Variable f : A -> option B.
Fixpoint find_first (l : list A) : option B :=
  match l with
  | [] => None
  | x :: l' => match f x with Some r => Some r | None => find_first l' end
  end.
(* with the position of the element that answered *)
Fixpoint find_first_idx (l : list A) (k : nat) : option (nat * B) :=
  match l with
  | [] => None
  | x :: l' => match f x with Some r => Some (k, r) | None => find_first_idx l' (S k) end
  end.
End FindFirst.

Fixpoint it_find (s : id) (t : itree) : option itree :=
  if Nat.eqb (iid t) s then Some t else
  match t with
  | ILeaf _ _ _ => None
  | IGrp _ _ _ kids => find_first (it_find s) kids
  end.

(* replace the children of the group with identity s *)
Fixpoint it_upd (s : id) (f : list itree -> list itree) (t : itree) : itree :=
  match t with
  | ILeaf _ _ _ => t
  | IGrp i c cv kids => if Nat.eqb i s then IGrp i c cv (f kids) else IGrp i c cv (map (it_upd s f) kids)
  end.

(* position path of the object with identity s *)
Fixpoint it_path (s : id) (t : itree) : option (list nat) :=
  if Nat.eqb (iid t) s then Some [] else
  match t with
  | ILeaf _ _ _ => None
  | IGrp _ _ _ kids =>
      match find_first_idx (it_path s) kids 0 with
      | Some (k, p) => Some (k :: p)
      | None => None
      end
  end.

Definition it_inst (t : itree) (c : cls) : bool := inst (erase t) c.

(* the effect of group_tokens on the (decorated) children of self; g is the fresh identity used
   when a new group is created *)
Definition it_group_kids (g : id) (c : cls) (start_idx end_idx : Z) (extend : bool) (kids : list itree)
  : list itree :=
  match py_index (length kids) start_idx with
  | None => kids
  | Some pos =>
      match nth_error kids pos with
      | None => kids
      | Some st =>
          if extend && it_inst st c
          then
            match st with
            | IGrp s c' _ ks =>
                let sub := py_slice kids (start_idx + 1) end_idx in
                py_slice_assign (firstn pos kids ++ IGrp s c' (flat_map itext (ks ++ sub)) (ks ++ sub)
                                   :: skipn (S pos) kids) (start_idx + 1) end_idx []
            | ILeaf _ _ _ => kids
            end
          else
            let sub := py_slice kids start_idx end_idx in
            py_slice_assign kids start_idx end_idx [IGrp g c (flat_map itext sub) sub]
      end
  end.

(* pure trees: replace the children of the group at a position path *)
Fixpoint upd_at (p : list nat) (f : list node -> list node) (n : node) : node :=
  match n with
  | Leaf _ _ => n
  | Grp c cv kids =>
      match p with
      | [] => Grp c cv (f kids)
      | k :: p' => Grp c cv (match nth_error kids k with
                             | Some x => firstn k kids ++ upd_at p' f x :: skipn (S k) kids
                             | None => kids
                             end)
      end
  end.

Fixpoint node_at (p : list nat) (n : node) : option node :=
  match p with
  | [] => Some n
  | k :: p' => match nth_error (nkids n) k with Some x => node_at p' x | None => None end
  end.

(* first index after idx / last index before idx whose token is kept by the matcher *)
Fixpoint first_from (f : node -> bool) (l : list node) (base : nat) : option nat :=
  match l with
  | [] => None
  | x :: r => if f x then Some base else first_from f r (S base)
  end.
Fixpoint last_upto (f : node -> bool) (l : list node) (base : nat) (best : option nat) : option nat :=
  match l with
  | [] => best
  | x :: r => last_upto f r (S base) (if f x then Some base else best)
  end.
