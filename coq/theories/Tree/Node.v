(* The token tree of sqlparse.sql and the TokenList primitives the grouping engine, the
   accessors and the filters are written with.  Children are addressed by position: a Python
   token object occurs at most once in a tree, so `list.index(token)` is its position.
   No proofs in this file. *)
From SqlModel Require Import Base PyStr.
From SqlModel.Gen Require Import CaseTabs.

Inductive cls :=
| CStatement | CIdentifier | CIdentifierList | CTypedLiteral | CParenthesis | CSquareBrackets
| CAssignment | CIf | CFor | CComparison | CComment | CWhere | COver | CHaving | CCase
| CFunction | CBegin | COperation | CValues | CCommand | CTokenList.

Definition cls_eqb (a b : cls) : bool :=
  match a, b with
  | CStatement, CStatement | CIdentifier, CIdentifier | CIdentifierList, CIdentifierList
  | CTypedLiteral, CTypedLiteral | CParenthesis, CParenthesis
  | CSquareBrackets, CSquareBrackets | CAssignment, CAssignment | CIf, CIf | CFor, CFor
  | CComparison, CComparison | CComment, CComment | CWhere, CWhere | COver, COver
  | CHaving, CHaving | CCase, CCase | CFunction, CFunction | CBegin, CBegin
  | COperation, COperation | CValues, CValues | CCommand, CCommand
  | CTokenList, CTokenList => true
  | _, _ => false
  end.

Lemma cls_eqb_eq a b : cls_eqb a b = true <-> a = b.
Proof. split; [destruct a, b; simpl; congruence | intros ->; destruct b; reflexivity]. Qed.

(* Leaf: sql.Token (ttype, value).  Grp: a TokenList subclass instance with its cached `value`
   (str(self) when created or last extended) and its children. *)
Inductive node :=
| Leaf (ty : ttype) (v : text)
| Grp (c : cls) (cached : text) (kids : list node).

Definition is_group (n : node) : bool := match n with Grp _ _ _ => true | Leaf _ _ => false end.
Definition nttype (n : node) : option ttype := match n with Leaf ty _ => Some ty | Grp _ _ _ => None end.
Definition nvalue (n : node) : text := match n with Leaf _ v => v | Grp _ v _ => v end.
Definition nkids (n : node) : list node := match n with Leaf _ _ => [] | Grp _ _ k => k end.

(* ttype in T.X  (prefix test; a group's ttype None is in nothing) *)
Definition tt_in (n : node) (ty : ttype) : bool :=
  match n with Leaf t _ => tin t ty | Grp _ _ _ => false end.
(* ttype in (T.A, T.B) / ttype == T.A  (plain tuple membership: equality) *)
Definition tt_among (n : node) (tys : list ttype) : bool :=
  match n with Leaf t _ => existsb (ttype_eqb t) tys | Grp _ _ _ => false end.
Definition tt_is (n : node) (ty : ttype) : bool :=
  match n with Leaf t _ => ttype_eqb t ty | Grp _ _ _ => false end.

Definition is_ws (n : node) : bool := tt_in n T_Whitespace.
Definition is_newline (n : node) : bool := tt_in n T_Newline.
Definition is_kw (n : node) : bool := tt_in n T_Keyword.

(* Token.normalized of a keyword token: ' '.join(value.upper().split()) -- upper-cased, the white space
   between the words of a compound keyword collapsed to one blank *)
Definition knorm (v : text) : text := join_split space_set (upper v).
(* Token.normalized: knorm for keyword leaves, the value otherwise *)
Definition normalized (n : node) : text :=
  match n with
  | Leaf ty v => if tin ty T_Keyword then knorm v else v
  | Grp _ v _ => v
  end.

(* isinstance(token, C): all group classes derive directly from TokenList *)
Definition inst (n : node) (c : cls) : bool :=
  match n with
  | Grp c' _ _ => cls_eqb c' c || cls_eqb c CTokenList
  | Leaf _ _ => false
  end.
Definition inst_any (n : node) (cs : list cls) : bool := existsb (inst n) cs.

(* str(node): join of the flattened leaves *)
Fixpoint text_of (n : node) : text :=
  match n with
  | Leaf _ v => v
  | Grp _ _ kids => flat_map text_of kids
  end.
Definition text_of_list (l : list node) : text := flat_map text_of l.

Fixpoint flatten (n : node) : list node :=
  match n with
  | Leaf _ _ => [n]
  | Grp _ _ kids => flat_map flatten kids
  end.
Definition flatten_list (l : list node) : list node := flat_map flatten l.

(* a freshly constructed group: cached value = current text *)
Definition mk_grp (c : cls) (kids : list node) : node := Grp c (text_of_list kids) kids.

(* ---- Token.match(ttype, values) without regex ------------------------------------------- *)
Definition pat := (ttype * option (list text))%type.

Definition match_pat (n : node) (p : pat) : bool :=
  match n with
  | Grp _ _ _ => false                       (* ttype None is no token type *)
  | Leaf ty v =>
      ttype_eqb ty (fst p) &&
      match snd p with
      | None => true
      | Some vals =>
          if tin ty T_Keyword
          then existsb (text_eqb (knorm v)) (map upper vals)
          else existsb (text_eqb v) vals
      end
  end.

(* ---- utils.imt ---------------------------------------------------------------------------- *)
Inductive tspec :=
| TNone
| TOne (ty : ttype)              (* t=T.X        : token.ttype in T.X (prefix) *)
| TMany (tys : list ttype)       (* t=(T.A, T.B) : tuple membership (equality) *)
| TList (tys : list ttype).      (* t=[T.A, T.B] : any(token.ttype in ty) *)

Definition tmatch (n : node) (t : tspec) : bool :=
  match t with
  | TNone => false
  | TOne ty => tt_in n ty
  | TMany tys => tt_among n tys
  | TList tys => existsb (tt_in n) tys
  end.

Definition imt (n : option node) (i : list cls) (m : list pat) (t : tspec) : bool :=
  match n with
  | None => false
  | Some n => inst_any n i || existsb (match_pat n) m || tmatch n t
  end.

(* ---- searching the children ------------------------------------------------------------- *)
(* first index >= start (counting from [base]) whose token satisfies f *)
Fixpoint find_from_aux (f : node -> bool) (l : list node) (base : nat) : option (nat * node) :=
  match l with
  | [] => None
  | x :: l' => if f x then Some (base, x) else find_from_aux f l' (S base)
  end.
Definition find_from (f : node -> bool) (start : nat) (l : list node) : option (nat * node) :=
  find_from_aux f (skipn start l) start.

(* _token_matching(f, start, end) *)
Definition find_between (f : node -> bool) (start stop : nat) (l : list node) : option (nat * node) :=
  find_from_aux f (skipn start (firstn stop l)) start.

(* last index < stop whose token satisfies f  (reverse scan: range(stop-1, -1, -1)) *)
Fixpoint find_last_aux (f : node -> bool) (l : list node) (base : nat) (best : option (nat * node))
  : option (nat * node) :=
  match l with
  | [] => best
  | x :: l' => find_last_aux f l' (S base) (if f x then Some (base, x) else best)
  end.
Definition find_before (f : node -> bool) (stop : nat) (l : list node) : option (nat * node) :=
  find_last_aux f (firstn stop l) 0 None.

(* the matcher of token_first / token_next / token_prev *)
Definition skip_matcher (skip_ws skip_cm : bool) (n : node) : bool :=
  negb ((skip_ws && is_ws n) || (skip_cm && imt (Some n) [CComment] [] (TOne T_Comment))).

(* token_next(idx, skip_ws, skip_cm): search from idx+1 *)
Definition token_next (skip_ws skip_cm : bool) (idx : nat) (l : list node) : option (nat * node) :=
  find_from (skip_matcher skip_ws skip_cm) (S idx) l.
(* token_prev(idx, ...): reverse scan over range(idx-1, -1, -1) *)
Definition token_prev (skip_ws skip_cm : bool) (idx : nat) (l : list node) : option (nat * node) :=
  find_before (skip_matcher skip_ws skip_cm) idx l.
Definition token_first (skip_ws skip_cm : bool) (l : list node) : option node :=
  match find_from (skip_matcher skip_ws skip_cm) 0 l with Some (_, n) => Some n | None => None end.

(* token_next_by(i, m, t, idx): search from idx+1 (idx = -1 by default: use next_by_from 0) *)
Definition next_by_from (i : list cls) (m : list pat) (t : tspec) (start : nat) (l : list node)
  : option (nat * node) :=
  find_from (fun n => imt (Some n) i m t) start l.

(* ---- TokenList.group_tokens -------------------------------------------------------------- *)
(* start: index of the first token; stop: index one past the last (end + include_end).
   Python slices clamp; an empty slice still creates (and inserts) an empty group. *)
Definition group_tokens (c : cls) (start stop : nat) (extend : bool) (l : list node)
  : res (list node * node) :=
  match nth_error l start with
  | None => Err IndexError                       (* self.tokens[start_idx] *)
  | Some first =>
      if extend && inst first c
      then
        let sub := firstn (stop - S start) (skipn (S start) l) in
        let grp := match first with
                   | Grp c' _ kids => mk_grp c' (kids ++ sub)
                   | Leaf _ _ => first
                   end in
        Ok (firstn start l ++ grp :: skipn (Nat.max (S start) stop) l, grp)
      else
        let sub := firstn (stop - start) (skipn start l) in
        let grp := mk_grp c sub in
        Ok (firstn start l ++ grp :: skipn (Nat.max start stop) l, grp)
  end.

(* replace the element at index i *)
Fixpoint set_nth (i : nat) (x : node) (l : list node) : list node :=
  match l, i with
  | [], _ => []
  | _ :: l', O => x :: l'
  | y :: l', S i' => y :: set_nth i' x l'
  end.

Definition insert_at (i : nat) (x : node) (l : list node) : list node :=
  firstn i l ++ x :: skipn i l.

Fixpoint remove_at (i : nat) (l : list node) : list node :=
  match l, i with
  | [], _ => []
  | _ :: l', O => l'
  | y :: l', S i' => y :: remove_at i' l'
  end.

(* map a res-valued function over a list (f is a section variable so that nested recursive
   calls through mapM are accepted by the guard checker, as with List.map) *)
Section MapM.
Context {A B C : Type}.
Variable f : A -> res B.
Fixpoint mapM (l : list A) : res (list B) :=
  match l with
  | [] => Ok []
  | x :: l' => y <- f x ;; r <- mapM l' ;; Ok (y :: r)
  end.

Variable g : A -> C -> res B.
Variable dflt : C.
(* second list padded with [dflt] *)
Fixpoint mapM2 (l : list A) (m : list C) : res (list B) :=
  match l with
  | [] => Ok []
  | x :: l' =>
      y <- g x (match m with c :: _ => c | [] => dflt end) ;;
      r <- mapM2 l' (tl m) ;; Ok (y :: r)
  end.
End MapM.
Arguments mapM {A B} f l.
Arguments mapM2 {A B C} g dflt l m.
