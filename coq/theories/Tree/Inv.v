(* (OP) what every tree operation of the grouping engine preserves: the sequence of leaves (values
   exactly; types exactly except a re-typing to Operator), hence the text; and the cached value of
   every group equals its text. *)
From SqlModel Require Import Base PyStr Node.

(* ---- induction principle for the nested type --------------------------------------------- *)
Section NodeInd.
Variable P : node -> Prop.
Hypothesis HL : forall ty v, P (Leaf ty v).
Hypothesis HG : forall c v kids, Forall P kids -> P (Grp c v kids).
Fixpoint node_ind' (n : node) : P n :=
  match n with
  | Leaf ty v => HL ty v
  | Grp c v kids =>
      HG c v kids ((fix go (l : list node) : Forall P l :=
                      match l with
                      | [] => Forall_nil P
                      | k :: l' => Forall_cons k (node_ind' k) (go l')
                      end) kids)
  end.
End NodeInd.

(* ---- leaves ------------------------------------------------------------------------------ *)
(* a leaf as (type, value) *)
Fixpoint leaves (n : node) : list tok :=
  match n with
  | Leaf ty v => [(ty, v)]
  | Grp _ _ kids => flat_map leaves kids
  end.
Definition leaves_list (l : list node) : list tok := flat_map leaves l.

Lemma leaves_list_app a b : leaves_list (a ++ b) = leaves_list a ++ leaves_list b.
Proof. apply flat_map_app. Qed.

Lemma leaves_mk_grp c sub : leaves (mk_grp c sub) = leaves_list sub.
Proof. reflexivity. Qed.

Lemma text_of_leaves n : text_of n = flat_map snd (leaves n).
Proof.
  induction n as [ty v | c v kids IH] using node_ind'.
  - simpl. rewrite app_nil_r. reflexivity.
  - change (flat_map text_of kids = flat_map snd (flat_map leaves kids)).
    induction IH as [|k kids Hk _ IHk]; [reflexivity|].
    cbn [flat_map]. rewrite flat_map_app, Hk, IHk. reflexivity.
Qed.

Lemma text_of_list_leaves l : text_of_list l = flat_map snd (leaves_list l).
Proof.
  unfold text_of_list, leaves_list.
  induction l as [|k l IH]; [reflexivity|].
  cbn [flat_map]. rewrite flat_map_app, IH, text_of_leaves. reflexivity.
Qed.

(* ---- the similarity relation on leaf sequences ------------------------------------------- *)
Definition tok_sim (a b : tok) : Prop :=
  snd a = snd b /\ (fst a = fst b \/ fst b = T_Operator).

Definition lsim (a b : list tok) : Prop := Forall2 tok_sim a b.

Lemma tok_sim_refl a : tok_sim a a.
Proof. split; auto. Qed.

Lemma lsim_refl a : lsim a a.
Proof. induction a; constructor; auto using tok_sim_refl. Qed.

Lemma tok_sim_trans a b c : tok_sim a b -> tok_sim b c -> tok_sim a c.
Proof.
  intros [V1 T1] [V2 T2]. split; [congruence|].
  destruct T2 as [T2|T2]; [|auto]. destruct T1 as [T1|T1]; [left; congruence|right; congruence].
Qed.

Lemma lsim_trans a b c : lsim a b -> lsim b c -> lsim a c.
Proof.
  intros H; revert c. induction H as [|x y a b Hxy Hab IH]; intros c Hc.
  - inversion Hc; subst. constructor.
  - inversion Hc as [|y' z b' c' Hyz Hbc]; subst.
    constructor; [eapply tok_sim_trans; eauto | apply IH; assumption].
Qed.

Lemma lsim_app a a' b b' : lsim a a' -> lsim b b' -> lsim (a ++ b) (a' ++ b').
Proof. apply Forall2_app. Qed.

Lemma lsim_text a b : lsim a b -> flat_map snd a = flat_map snd b.
Proof.
  induction 1 as [|x y a b [V _] _ IH]; cbn [flat_map]; [reflexivity|]. rewrite V, IH. reflexivity.
Qed.

Lemma lsim_values a b : lsim a b -> map snd a = map snd b.
Proof. induction 1 as [|x y a b [V _] _ IH]; cbn [map]; congruence. Qed.

Definition nsim (n n' : node) : Prop := lsim (leaves n) (leaves n').
Definition llsim (l l' : list node) : Prop := lsim (leaves_list l) (leaves_list l').

Lemma llsim_refl l : llsim l l. Proof. apply lsim_refl. Qed.
Lemma llsim_trans a b c : llsim a b -> llsim b c -> llsim a c. Proof. apply lsim_trans. Qed.

Lemma nsim_text n n' : nsim n n' -> text_of n = text_of n'.
Proof. intros H. rewrite !text_of_leaves. apply lsim_text, H. Qed.

Lemma llsim_text l l' : llsim l l' -> text_of_list l = text_of_list l'.
Proof. intros H. rewrite !text_of_list_leaves. apply lsim_text, H. Qed.

Lemma llsim_grp c v c' v' kids kids' : llsim kids kids' -> nsim (Grp c v kids) (Grp c' v' kids').
Proof. intros H. exact H. Qed.

Lemma llsim_Forall2 l l' : Forall2 nsim l l' -> llsim l l'.
Proof.
  induction 1 as [|x y l l' Hxy _ IH]; [constructor|].
  unfold llsim, leaves_list in *. simpl. apply lsim_app; assumption.
Qed.

(* ---- list surgery used by group_tokens ---------------------------------------------------- *)
Lemma skipn_add {A} (l : list A) a b : skipn (a + b) l = skipn a (skipn b l).
Proof.
  revert l; induction b as [|b IH]; intros l.
  - rewrite Nat.add_0_r. reflexivity.
  - destruct l as [|x l]; [rewrite !skipn_nil; reflexivity|].
    rewrite Nat.add_succ_r. simpl. apply IH.
Qed.

Lemma slice_rest {A} (l : list A) a b :
  firstn (b - a) (skipn a l) ++ skipn (Nat.max a b) l = skipn a l.
Proof.
  destruct (Nat.le_gt_cases b a) as [H|H].
  - replace (b - a) with 0 by lia. rewrite Nat.max_l by lia. reflexivity.
  - rewrite Nat.max_r by lia. replace b with ((b - a) + a) at 2 by lia.
    rewrite skipn_add. apply firstn_skipn.
Qed.

Lemma nth_error_split_skipn {A} (l : list A) i x :
  nth_error l i = Some x -> skipn i l = x :: skipn (S i) l.
Proof.
  revert l; induction i as [|i IH]; intros [|y l] H; simpl in *; try discriminate.
  - injection H as ->. reflexivity.
  - apply IH, H.
Qed.

Lemma leaves_list_cons x l : leaves_list (x :: l) = leaves x ++ leaves_list l.
Proof. reflexivity. Qed.

Lemma leaves_grp c v kids : leaves (Grp c v kids) = leaves_list kids.
Proof. reflexivity. Qed.

Lemma group_tokens_leaves c start stop ext l l' g :
  group_tokens c start stop ext l = Ok (l', g) -> leaves_list l' = leaves_list l.
Proof.
  unfold group_tokens. destruct (nth_error l start) as [first|] eqn:E; [|discriminate].
  destruct (ext && inst first c) eqn:X; intros H; injection H as <- <-.
  - destruct first as [ty v | c' v kids].
    { apply andb_true_iff in X. destruct X as [_ X]. discriminate. }
    set (sub := firstn (stop - S start) (skipn (S start) l)).
    set (rest := skipn (Nat.max (S start) stop) l).
    assert (Hs : skipn (S start) l = sub ++ rest) by (symmetry; apply slice_rest).
    assert (Hl : l = firstn start l ++ Grp c' v kids :: sub ++ rest).
    { rewrite <- Hs, <- (nth_error_split_skipn _ _ _ E), firstn_skipn. reflexivity. }
    transitivity (leaves_list (firstn start l ++ Grp c' v kids :: sub ++ rest));
      [|rewrite <- Hl; reflexivity].
    rewrite !leaves_list_app, !leaves_list_cons. unfold mk_grp. rewrite !leaves_grp.
    rewrite !leaves_list_app, <- !app_assoc. reflexivity.
  - set (sub := firstn (stop - start) (skipn start l)).
    set (rest := skipn (Nat.max start stop) l).
    assert (Hs : skipn start l = sub ++ rest) by (symmetry; apply slice_rest).
    assert (Hl : l = firstn start l ++ sub ++ rest).
    { rewrite <- Hs, firstn_skipn. reflexivity. }
    transitivity (leaves_list (firstn start l ++ sub ++ rest)); [|rewrite <- Hl; reflexivity].
    rewrite !leaves_list_app, !leaves_list_cons. unfold mk_grp. rewrite !leaves_grp.
    reflexivity.
Qed.

Lemma group_tokens_llsim c start stop ext l l' g :
  group_tokens c start stop ext l = Ok (l', g) -> llsim l l'.
Proof. intros H. unfold llsim. rewrite (group_tokens_leaves _ _ _ _ _ _ _ H). apply lsim_refl. Qed.

Lemma set_nth_split (l : list node) i x y :
  nth_error l i = Some y -> set_nth i x l = firstn i l ++ x :: skipn (S i) l.
Proof.
  revert l; induction i as [|i IH]; intros [|z l] H; simpl in *; try discriminate.
  - reflexivity.
  - f_equal. apply IH, H.
Qed.

Lemma set_nth_retype_llsim (l : list node) i tk :
  nth_error l i = Some tk -> is_group tk = false ->
  llsim l (set_nth i (match tk with Leaf _ v => Leaf T_Operator v | Grp _ _ _ => tk end) l).
Proof.
  intros E G. rewrite (set_nth_split _ _ _ _ E).
  rewrite <- (firstn_skipn i l) at 1. rewrite (nth_error_split_skipn _ _ _ E).
  unfold llsim. rewrite !leaves_list_app. apply lsim_app; [apply lsim_refl|].
  destruct tk as [ty v|]; [|discriminate].
  unfold leaves_list. simpl. constructor; [|apply lsim_refl].
  split; simpl; auto.
Qed.

(* ---- cached values ----------------------------------------------------------------------- *)
(* every group's cached value is its current text *)
Fixpoint cached_ok (n : node) : Prop :=
  match n with
  | Leaf _ _ => True
  | Grp _ v kids => v = text_of_list kids /\ (fix go (l : list node) : Prop :=
                                                match l with
                                                | [] => True
                                                | k :: l' => cached_ok k /\ go l'
                                                end) kids
  end.

Definition cached_ok_list (l : list node) : Prop := Forall cached_ok l.

Lemma cached_ok_grp c v kids :
  cached_ok (Grp c v kids) <-> v = text_of_list kids /\ cached_ok_list kids.
Proof.
  cbn [cached_ok]. unfold cached_ok_list.
  split; intros [H1 H2]; (split; [exact H1|]); clear H1.
  - induction kids as [|k kids IH]; [constructor|].
    destruct H2 as [Hk Hr]. constructor; [exact Hk | apply IH, Hr].
  - induction kids as [|k kids IH]; [exact I|].
    inversion H2 as [|? ? Hk Hr]; subst. split; [exact Hk | apply IH, Hr].
Qed.

Lemma cached_ok_mk_grp c kids : cached_ok_list kids -> cached_ok (mk_grp c kids).
Proof. intros H. apply cached_ok_grp. split; [reflexivity|assumption]. Qed.

Lemma Forall_firstn {A} (P : A -> Prop) n l : Forall P l -> Forall P (firstn n l).
Proof. revert l; induction n; intros [|x l] H; simpl; auto. inversion H; subst. constructor; auto. Qed.
Lemma Forall_skipn {A} (P : A -> Prop) n l : Forall P l -> Forall P (skipn n l).
Proof. revert l; induction n; intros [|x l] H; simpl; auto. inversion H; subst. auto. Qed.

Lemma group_tokens_cached c start stop ext l l' g :
  cached_ok_list l -> group_tokens c start stop ext l = Ok (l', g) ->
  cached_ok_list l' /\ cached_ok g.
Proof.
  intros Hl. unfold group_tokens. destruct (nth_error l start) as [first|] eqn:E; [|discriminate].
  assert (Hfirst : cached_ok first).
  { eapply Forall_forall; [exact Hl|]. eapply nth_error_In; eauto. }
  destruct (ext && inst first c) eqn:X; intros H; injection H as <- <-.
  - destruct first as [ty v | c' v kids].
    { apply andb_true_iff in X. destruct X as [_ X]. discriminate. }
    apply cached_ok_grp in Hfirst. destruct Hfirst as [_ Hk].
    assert (Hg : cached_ok (mk_grp c' (kids ++ firstn (stop - S start) (skipn (S start) l)))).
    { apply cached_ok_mk_grp. apply Forall_app. split; [assumption|].
      apply Forall_firstn, Forall_skipn, Hl. }
    split; [|exact Hg].
    apply Forall_app. split; [apply Forall_firstn, Hl|].
    constructor; [exact Hg | apply Forall_skipn, Hl].
  - assert (Hg : cached_ok (mk_grp c (firstn (stop - start) (skipn start l)))).
    { apply cached_ok_mk_grp. apply Forall_firstn, Forall_skipn, Hl. }
    split; [|exact Hg].
    apply Forall_app. split; [apply Forall_firstn, Hl|].
    constructor; [exact Hg | apply Forall_skipn, Hl].
Qed.

Lemma set_nth_cached (l : list node) i x :
  cached_ok_list l -> cached_ok x -> cached_ok_list (set_nth i x l).
Proof.
  unfold cached_ok_list. revert i; induction l as [|y l IH]; intros i Hl Hx.
  - destruct i; constructor.
  - inversion Hl as [|? ? Hy Hr]; subst. destruct i as [|i]; simpl.
    + constructor; assumption.
    + constructor; [assumption | apply IH; assumption].
Qed.
