(* Facts about the object-heap model (Tree/HeapDefs.v): well-formedness of the parent references,
   preservation by group_tokens / insert_before / insert_after, refinement to the pure tree model,
   specifications of the navigation helpers. *)
From SqlModel Require Import Base PyStr Node Inv HeapDefs.
From Coq Require Import ZArith Permutation.

(* ---- heap laws ---------------------------------------------------------------------------- *)
Lemma hget_hset h i o j : hget (hset h i o) j = if Nat.eqb i j then Some o else hget h j.
Proof.
  induction h as [|[k p] r IH]; cbn [hset hget].
  - reflexivity.
  - destruct (Nat.eqb k i) eqn:E; cbn [hget].
    + apply Nat.eqb_eq in E. subst k. destruct (Nat.eqb i j) eqn:F; reflexivity.
    + destruct (Nat.eqb k j) eqn:F.
      * apply Nat.eqb_eq in F. subst k. rewrite Nat.eqb_sym, E. reflexivity.
      * exact IH.
Qed.

Lemma hget_dom h i : hget h i <> None <-> In i (map fst h).
Proof.
  induction h as [|[k p] r IH]; cbn [hget map fst In].
  - split; [congruence|tauto].
  - destruct (Nat.eqb k i) eqn:E.
    + apply Nat.eqb_eq in E. split; [auto|congruence].
    + apply Nat.eqb_neq in E. rewrite IH. split; [auto|intros [H|H]; [contradiction|exact H]].
Qed.

Lemma hset_length h i o : hget h i <> None -> length (hset h i o) = length h.
Proof.
  induction h as [|[k p] r IH]; cbn [hset hget length]; [congruence|].
  destruct (Nat.eqb k i) eqn:E; cbn [length]; [reflexivity|].
  intros H. rewrite IH by exact H. reflexivity.
Qed.

Lemma hset_length_new h i o : hget h i = None -> length (hset h i o) = S (length h).
Proof.
  induction h as [|[k p] r IH]; cbn [hset hget length]; [reflexivity|].
  destruct (Nat.eqb k i) eqn:E; [congruence|]. cbn [length]. intros H. rewrite IH by exact H. reflexivity.
Qed.

Lemma fresh_gt h i : In i (map fst h) -> i < fresh h.
Proof.
  unfold fresh. induction h as [|[k p] r IH]; cbn [map fst In fold_right]; [tauto|].
  intros [H|H]; [subst; lia|]. specialize (IH H). lia.
Qed.

Lemma fresh_none h : hget h (fresh h) = None.
Proof.
  destruct (hget h (fresh h)) eqn:E; [|reflexivity].
  assert (H : hget h (fresh h) <> None) by congruence.
  apply hget_dom, fresh_gt in H. lia.
Qed.

Definition reparent (p : option id) (oo : option obj) : option obj :=
  match oo with Some o => Some (mkobj (okind_of o) p) | None => None end.

Definition memb (x : id) (l : list id) : bool := existsb (Nat.eqb x) l.

Lemma memb_In x l : memb x l = true <-> In x l.
Proof.
  unfold memb. rewrite existsb_exists. split.
  - intros (y & Hy & E). apply Nat.eqb_eq in E. subst. exact Hy.
  - intros H. exists x. split; [exact H|apply Nat.eqb_refl].
Qed.

Lemma memb_false x l : memb x l = false <-> ~ In x l.
Proof. rewrite <- memb_In. destruct (memb x l); split; congruence. Qed.

Lemma set_parent_get h i p x :
  hget (set_parent h i p) x = if Nat.eqb i x then reparent p (hget h x) else hget h x.
Proof.
  unfold set_parent. destruct (hget h i) as [o|] eqn:E.
  - rewrite hget_hset. destruct (Nat.eqb i x) eqn:F; [|reflexivity].
    apply Nat.eqb_eq in F. subst. rewrite E. reflexivity.
  - destruct (Nat.eqb i x) eqn:F; [|reflexivity].
    apply Nat.eqb_eq in F. subst. rewrite E. reflexivity.
Qed.

Lemma reparent_idem p oo : reparent p (reparent p oo) = reparent p oo.
Proof. destruct oo; reflexivity. Qed.

Lemma set_parents_get l : forall h p x,
  hget (set_parents h l p) x = if memb x l then reparent p (hget h x) else hget h x.
Proof.
  induction l as [|i l IH]; intros h p x; [reflexivity|].
  change (set_parents h (i :: l) p) with (set_parents (set_parent h i p) l p).
  rewrite IH, set_parent_get. unfold memb. cbn [existsb]. fold (memb x l).
  rewrite (Nat.eqb_sym x i).
  destruct (Nat.eqb i x), (memb x l); cbn [orb]; try reflexivity. apply reparent_idem.
Qed.

Lemma set_parent_length h i p : length (set_parent h i p) = length h.
Proof.
  unfold set_parent. destruct (hget h i) eqn:E; [|reflexivity]. apply hset_length. congruence.
Qed.

Lemma set_parents_length l : forall h p, length (set_parents h l p) = length h.
Proof.
  induction l as [|i l IH]; intros h p; [reflexivity|].
  change (set_parents h (i :: l) p) with (set_parents (set_parent h i p) l p).
  rewrite IH. apply set_parent_length.
Qed.

Definition map_kids (f : list id -> list id) (oo : option obj) : option obj :=
  match oo with
  | Some (mkobj (KGrp c cv kids) p) => Some (mkobj (KGrp c cv (f kids)) p)
  | o => o
  end.

Lemma upd_kids_get h g f x :
  hget (upd_kids h g f) x = if Nat.eqb g x then map_kids f (hget h x) else hget h x.
Proof.
  unfold upd_kids. destruct (Nat.eqb g x) eqn:F.
  - apply Nat.eqb_eq in F. subst x.
    destruct (hget h g) as [[[ty v|c cv kids] p]|] eqn:E; cbn [map_kids]; try exact E.
    rewrite hget_hset, Nat.eqb_refl. reflexivity.
  - destruct (hget h g) as [[[ty v|c cv kids] p]|] eqn:E; try reflexivity.
    rewrite hget_hset, F. reflexivity.
Qed.

Definition map_cached (s : text) (oo : option obj) : option obj :=
  match oo with
  | Some (mkobj (KGrp c _ kids) p) => Some (mkobj (KGrp c s kids) p)
  | o => o
  end.

Lemma set_cached_get h g s x :
  hget (set_cached h g s) x = if Nat.eqb g x then map_cached s (hget h x) else hget h x.
Proof.
  unfold set_cached. destruct (Nat.eqb g x) eqn:F.
  - apply Nat.eqb_eq in F. subst x.
    destruct (hget h g) as [[[ty v|c cv kids] p]|] eqn:E; cbn [map_cached]; try exact E.
    rewrite hget_hset, Nat.eqb_refl. reflexivity.
  - destruct (hget h g) as [[[ty v|c cv kids] p]|] eqn:E; try reflexivity.
    rewrite hget_hset, F. reflexivity.
Qed.

Lemma upd_kids_length h g f : length (upd_kids h g f) = length h.
Proof.
  unfold upd_kids. destruct (hget h g) as [[[ty v|c cv kids] p]|] eqn:E; try reflexivity.
  apply hset_length. congruence.
Qed.

Lemma set_cached_length h g s : length (set_cached h g s) = length h.
Proof.
  unfold set_cached. destruct (hget h g) as [[[ty v|c cv kids] p]|] eqn:E; try reflexivity.
  apply hset_length. congruence.
Qed.

(* ---- induction on decorated trees ---------------------------------------------------------- *)
Section ItreeInd.
Variable P : itree -> Prop.
Hypothesis HL : forall i ty v, P (ILeaf i ty v).
Hypothesis HG : forall i c cv kids, Forall P kids -> P (IGrp i c cv kids).
Fixpoint itree_ind' (t : itree) : P t :=
  match t with
  | ILeaf i ty v => HL i ty v
  | IGrp i c cv kids =>
      HG i c cv kids ((fix go (l : list itree) : Forall P l :=
                         match l with
                         | [] => Forall_nil P
                         | k :: l' => Forall_cons k (itree_ind' k) (go l')
                         end) kids)
  end.
End ItreeInd.

(* ---- representation of a decorated tree in a heap ------------------------------------------ *)
(* shape: kinds and child lists only;  repr: also the parent fields *)
Fixpoint shape (h : heap) (t : itree) : Prop :=
  match t with
  | ILeaf i ty v => exists p, hget h i = Some (mkobj (KLeaf ty v) p)
  | IGrp i c cv kids =>
      (exists p, hget h i = Some (mkobj (KGrp c cv (map iid kids)) p)) /\
      (fix all (l : list itree) : Prop :=
         match l with [] => True | k :: l' => shape h k /\ all l' end) kids
  end.

Fixpoint repr (h : heap) (p : option id) (t : itree) : Prop :=
  match t with
  | ILeaf i ty v => hget h i = Some (mkobj (KLeaf ty v) p)
  | IGrp i c cv kids =>
      hget h i = Some (mkobj (KGrp c cv (map iid kids)) p) /\
      (fix all (l : list itree) : Prop :=
         match l with [] => True | k :: l' => repr h (Some i) k /\ all l' end) kids
  end.

Lemma shape_grp h i c cv kids :
  shape h (IGrp i c cv kids) <->
  (exists p, hget h i = Some (mkobj (KGrp c cv (map iid kids)) p)) /\ Forall (shape h) kids.
Proof.
  cbn [shape]. split; intros [H1 H2]; (split; [exact H1|]); clear H1.
  - induction kids as [|k kids IH]; [constructor|]. destruct H2 as [Hk Hr]. constructor; [exact Hk|apply IH, Hr].
  - induction kids as [|k kids IH]; [exact I|]. inversion H2 as [|? ? Hk Hr]; subst. split; [exact Hk|apply IH, Hr].
Qed.

Lemma repr_grp h p i c cv kids :
  repr h p (IGrp i c cv kids) <->
  hget h i = Some (mkobj (KGrp c cv (map iid kids)) p) /\ Forall (repr h (Some i)) kids.
Proof.
  cbn [repr]. split; intros [H1 H2]; (split; [exact H1|]); clear H1.
  - induction kids as [|k kids IH]; [constructor|]. destruct H2 as [Hk Hr]. constructor; [exact Hk|apply IH, Hr].
  - induction kids as [|k kids IH]; [exact I|]. inversion H2 as [|? ? Hk Hr]; subst. split; [exact Hk|apply IH, Hr].
Qed.

Lemma repr_shape h t : forall p, repr h p t -> shape h t.
Proof.
  induction t as [i ty v|i c cv kids IH] using itree_ind'; intros p H.
  - exists p. exact H.
  - apply repr_grp in H. destruct H as [H1 H2]. apply shape_grp. split; [exists p; exact H1|].
    rewrite Forall_forall in *. intros k Hk. eapply IH; [exact Hk|apply H2, Hk].
Qed.

Lemma repr_root h p t : repr h p t -> exists k, hget h (iid t) = Some (mkobj k p).
Proof.
  destruct t as [i ty v|i c cv kids]; intros H.
  - eexists. exact H.
  - apply repr_grp in H. destruct H as [H _]. eexists. exact H.
Qed.

Lemma iid_in_ids t : In (iid t) (ids t).
Proof. destruct t; cbn [iid ids]; left; reflexivity. Qed.

Lemma ids_grp i c cv kids : ids (IGrp i c cv kids) = i :: flat_map ids kids.
Proof. reflexivity. Qed.

(* frame: a heap that agrees on the identities of a tree represents the same tree *)
Lemma shape_frame h h' t : (forall i, In i (ids t) -> hget h' i = hget h i) -> shape h t -> shape h' t.
Proof.
  induction t as [i ty v|i c cv kids IH] using itree_ind'; intros Hf H.
  - destruct H as [p H]. exists p. rewrite Hf; [exact H|left; reflexivity].
  - apply shape_grp in H. destruct H as [[p H1] H2]. apply shape_grp. split.
    + exists p. rewrite Hf; [exact H1|left; reflexivity].
    + rewrite Forall_forall in *. intros k Hk. apply IH; [exact Hk| |apply H2, Hk].
      intros j Hj. apply Hf. rewrite ids_grp. right. apply in_flat_map. exists k. split; assumption.
Qed.

Lemma repr_frame h h' t : forall p, (forall i, In i (ids t) -> hget h' i = hget h i) -> repr h p t -> repr h' p t.
Proof.
  induction t as [i ty v|i c cv kids IH] using itree_ind'; intros p Hf H.
  - cbn [repr] in *. rewrite Hf; [exact H|left; reflexivity].
  - apply repr_grp in H. destruct H as [H1 H2]. apply repr_grp. split.
    + rewrite Hf; [exact H1|left; reflexivity].
    + rewrite Forall_forall in *. intros k Hk. apply IH; [exact Hk| |apply H2, Hk].
      intros j Hj. apply Hf. rewrite ids_grp. right. apply in_flat_map. exists k. split; assumption.
Qed.

(* the root of the tree gets another parent field, everything below is untouched *)
Lemma repr_reparent h h' t p p' :
  hget h' (iid t) = reparent p' (hget h (iid t)) ->
  (forall i, In i (ids t) -> i <> iid t -> hget h' i = hget h i) ->
  NoDup (ids t) ->
  repr h p t -> repr h' p' t.
Proof.
  destruct t as [i ty v|i c cv kids]; cbn [iid]; intros Hr Hf Hn H.
  - cbn [repr] in *. rewrite Hr, H. reflexivity.
  - apply repr_grp in H. destruct H as [H1 H2]. apply repr_grp. split.
    + rewrite Hr, H1. reflexivity.
    + rewrite ids_grp in Hn. inversion Hn as [|? ? Hni Hnk]; subst.
      rewrite Forall_forall in *. intros k Hk. apply (repr_frame h); [|apply H2, Hk].
      intros j Hj. assert (Hin : In j (flat_map ids kids)) by (apply in_flat_map; exists k; split; assumption).
      apply Hf; [rewrite ids_grp; right; exact Hin|]. intros ->. contradiction.
Qed.

Lemma shape_dom h t : shape h t -> incl (ids t) (map fst h).
Proof.
  induction t as [i ty v|i c cv kids IH] using itree_ind'; intros H j Hj.
  - destruct H as [p H]. destruct Hj as [<-|[]]. apply hget_dom. congruence.
  - apply shape_grp in H. destruct H as [[p H1] H2]. rewrite ids_grp in Hj. destruct Hj as [<-|Hj].
    + apply hget_dom. congruence.
    + apply in_flat_map in Hj. destruct Hj as (k & Hk & Hjk). rewrite Forall_forall in *.
      exact (IH k Hk (H2 k Hk) j Hjk).
Qed.

(* ---- enough fuel ---------------------------------------------------------------------------- *)
Fixpoint height (t : itree) : nat :=
  match t with
  | ILeaf _ _ _ => 1
  | IGrp _ _ _ kids => S (list_max (map height kids))
  end.

Lemma mapO_map {A B C} (f : A -> option B) (g : C -> A) (e : C -> B) l :
  Forall (fun k => f (g k) = Some (e k)) l -> mapO f (map g l) = Some (map e l).
Proof.
  induction 1 as [|k l Hk _ IH]; [reflexivity|]. cbn [map mapO]. rewrite Hk, IH. reflexivity.
Qed.

Lemma list_max_map_le {A} (f : A -> nat) l n : list_max (map f l) <= n -> Forall (fun k => f k <= n) l.
Proof.
  intros H. apply list_max_le in H. rewrite Forall_forall in *. intros k Hk. apply H, in_map, Hk.
Qed.

Lemma abs_f_shape h t : forall n, shape h t -> height t <= n -> abs_f n h (iid t) = Some (erase t).
Proof.
  induction t as [i ty v|i c cv kids IH] using itree_ind'; intros n Hs Hn.
  - destruct n as [|n]; [cbn [height] in Hn; lia|]. destruct Hs as [p Hp]. cbn [abs_f iid]. rewrite Hp. reflexivity.
  - destruct n as [|n]; [cbn [height] in Hn; lia|]. cbn [height] in Hn.
    apply shape_grp in Hs. destruct Hs as [[p Hp] Hk]. cbn [abs_f iid]. rewrite Hp. cbn [okind_of].
    rewrite (mapO_map (abs_f n h) iid erase); [reflexivity|].
    assert (Hh : Forall (fun k => height k <= n) kids) by (apply list_max_map_le; lia).
    rewrite Forall_forall in *. intros k Hin. apply IH; [exact Hin|apply Hk, Hin|apply Hh, Hin].
Qed.

Lemma flatten_f_shape h t : forall n, shape h t -> height t <= n -> h_flatten_f n h (iid t) = Some (ileaves t).
Proof.
  induction t as [i ty v|i c cv kids IH] using itree_ind'; intros n Hs Hn.
  - destruct n as [|n]; [cbn [height] in Hn; lia|]. destruct Hs as [p Hp]. cbn [h_flatten_f iid]. rewrite Hp. reflexivity.
  - destruct n as [|n]; [cbn [height] in Hn; lia|]. cbn [height] in Hn.
    apply shape_grp in Hs. destruct Hs as [[p Hp] Hk]. cbn [h_flatten_f iid]. rewrite Hp. cbn [okind_of].
    rewrite (mapO_map (h_flatten_f n h) iid ileaves).
    + cbn [concatO ileaves]. rewrite flat_map_concat_map. reflexivity.
    + assert (Hh : Forall (fun k => height k <= n) kids) by (apply list_max_map_le; lia).
      rewrite Forall_forall in *. intros k Hin. apply IH; [exact Hin|apply Hk, Hin|apply Hh, Hin].
Qed.

Lemma height_le_ids t : height t <= length (ids t).
Proof.
  induction t as [i ty v|i c cv kids IH] using itree_ind'; [cbn; lia|].
  cbn [height ids length]. apply le_n_S.
  induction IH as [|k kids Hk _ IHk]; [cbn; lia|].
  cbn [map flat_map]. rewrite app_length. unfold list_max in *. cbn [fold_right]. lia.
Qed.

Lemma shape_height h t : shape h t -> NoDup (ids t) -> height t <= length h.
Proof.
  intros Hs Hn. etransitivity; [apply height_le_ids|].
  rewrite <- (map_length fst h). apply NoDup_incl_length; [exact Hn|apply shape_dom, Hs].
Qed.

Lemma shape_abs h t : shape h t -> NoDup (ids t) -> abs h (iid t) = Some (erase t).
Proof. intros Hs Hn. apply abs_f_shape; [exact Hs|apply shape_height; assumption]. Qed.

Lemma shape_flatten h t : shape h t -> NoDup (ids t) -> h_flatten h (iid t) = Some (ileaves t).
Proof. intros Hs Hn. apply flatten_f_shape; [exact Hs|apply shape_height; assumption]. Qed.

Lemma shape_leaf_values h t : shape h t -> flat_map (leaf_value h) (ileaves t) = itext t.
Proof.
  induction t as [i ty v|i c cv kids IH] using itree_ind'; intros Hs.
  - destruct Hs as [p Hp]. cbn [ileaves flat_map itext]. unfold leaf_value. rewrite Hp. apply app_nil_r.
  - apply shape_grp in Hs. destruct Hs as [_ Hk]. cbn [ileaves itext].
    induction IH as [|k kids Hk1 _ IHk]; [reflexivity|].
    inversion Hk as [|? ? Hs1 Hs2]; subst. cbn [flat_map]. rewrite flat_map_app, Hk1 by exact Hs1.
    rewrite IHk by exact Hs2. reflexivity.
Qed.

Lemma shape_str h t : shape h t -> NoDup (ids t) -> h_str h (iid t) = Some (itext t).
Proof.
  intros Hs Hn. unfold h_str. rewrite (shape_flatten h t Hs Hn), (shape_leaf_values h t Hs). reflexivity.
Qed.

Lemma itext_erase t : itext t = text_of (erase t).
Proof.
  induction t as [i ty v|i c cv kids IH] using itree_ind'; [reflexivity|].
  cbn [itext erase text_of]. induction IH as [|k kids Hk _ IHk]; [reflexivity|].
  cbn [flat_map map]. rewrite Hk, IHk. reflexivity.
Qed.

(* ---- lists without duplicates --------------------------------------------------------------- *)
Lemma NoDup_app_inv {A} (l1 l2 : list A) :
  NoDup (l1 ++ l2) -> NoDup l1 /\ NoDup l2 /\ (forall x, In x l1 -> In x l2 -> False).
Proof.
  induction l1 as [|a l1 IH]; cbn [app]; intros H.
  - split; [constructor|]. split; [exact H|]. intros x [].
  - inversion H as [|? ? Ha Hr]; subst. destruct (IH Hr) as (H1 & H2 & H3).
    split; [constructor; [intros Hin; apply Ha, in_or_app; left; exact Hin|exact H1]|].
    split; [exact H2|]. intros x [<-|Hx] Hx2; [apply Ha, in_or_app; right; exact Hx2|exact (H3 x Hx Hx2)].
Qed.

Lemma NoDup_app_intro {A} (l1 l2 : list A) :
  NoDup l1 -> NoDup l2 -> (forall x, In x l1 -> In x l2 -> False) -> NoDup (l1 ++ l2).
Proof.
  induction l1 as [|a l1 IH]; cbn [app]; intros H1 H2 H3; [exact H2|].
  inversion H1 as [|? ? Ha Hr]; subst. constructor.
  - intros Hin. apply in_app_or in Hin. destruct Hin as [Hin|Hin]; [contradiction|].
    apply (H3 a); [left; reflexivity|exact Hin].
  - apply IH; [exact Hr|exact H2|]. intros x Hx. apply H3. right. exact Hx.
Qed.

Lemma NoDup_flat_map_in {A B} (f : A -> list B) l k : NoDup (flat_map f l) -> In k l -> NoDup (f k).
Proof.
  induction l as [|a l IH]; cbn [flat_map]; intros H []; apply NoDup_app_inv in H; destruct H as (H1 & H2 & _).
  - subst. exact H1.
  - apply IH; assumption.
Qed.

Lemma NoDup_flat_map_iid kids : NoDup (flat_map ids kids) -> NoDup (map iid kids).
Proof.
  induction kids as [|k kids IH]; cbn [flat_map map]; intros H; [constructor|].
  apply NoDup_app_inv in H. destruct H as (H1 & H2 & H3). constructor; [|apply IH, H2].
  intros Hin. apply in_map_iff in Hin. destruct Hin as (k' & E & Hk').
  apply (H3 (iid k)); [apply iid_in_ids|]. apply in_flat_map. exists k'. split; [exact Hk'|].
  rewrite <- E. apply iid_in_ids.
Qed.

(* two children whose subtrees share an identity are the same child *)
Lemma NoDup_flat_map_split {A B} (f : A -> list B) pre k post :
  NoDup (flat_map f (pre ++ k :: post)) ->
  forall x, In x (f k) -> ~ In x (flat_map f pre) /\ ~ In x (flat_map f post).
Proof.
  rewrite flat_map_app. cbn [flat_map]. intros H x Hx.
  apply NoDup_app_inv in H. destruct H as (_ & H2 & H3).
  apply NoDup_app_inv in H2. destruct H2 as (_ & _ & H4).
  split; intros Hin.
  - apply (H3 x Hin). apply in_or_app. left. exact Hx.
  - exact (H4 x Hx Hin).
Qed.

(* ---- searching a decorated tree -------------------------------------------------------------- *)
Lemma find_first_some {A B} (f : A -> option B) l r :
  find_first f l = Some r -> exists pre k post, l = pre ++ k :: post /\ f k = Some r /\ Forall (fun x => f x = None) pre.
Proof.
  induction l as [|a l IH]; cbn [find_first]; [discriminate|].
  destruct (f a) as [r'|] eqn:E.
  - intros H. injection H as <-. exists [], a, l. split; [reflexivity|]. split; [exact E|constructor].
  - intros H. destruct (IH H) as (pre & k & post & -> & Hk & Hp).
    exists (a :: pre), k, post. split; [reflexivity|]. split; [exact Hk|constructor; assumption].
Qed.

Lemma find_first_none {A B} (f : A -> option B) l : find_first f l = None -> Forall (fun x => f x = None) l.
Proof.
  induction l as [|a l IH]; cbn [find_first]; [constructor|].
  destruct (f a) eqn:E; [discriminate|]. intros H. constructor; [exact E|apply IH, H].
Qed.

Lemma it_find_grp s i c cv kids :
  it_find s (IGrp i c cv kids) = if Nat.eqb i s then Some (IGrp i c cv kids) else find_first (it_find s) kids.
Proof. reflexivity. Qed.

Lemma it_find_leaf s i ty v : it_find s (ILeaf i ty v) = if Nat.eqb i s then Some (ILeaf i ty v) else None.
Proof. reflexivity. Qed.

Lemma it_find_some x t : forall st, it_find x t = Some st -> iid st = x /\ incl (ids st) (ids t).
Proof.
  induction t as [i ty v|i c cv kids IH] using itree_ind'; intros st.
  - rewrite it_find_leaf. destruct (Nat.eqb i x) eqn:E; [|discriminate].
    intros H. injection H as <-. apply Nat.eqb_eq in E. split; [exact E|apply incl_refl].
  - rewrite it_find_grp. destruct (Nat.eqb i x) eqn:E.
    + intros H. injection H as <-. apply Nat.eqb_eq in E. split; [exact E|apply incl_refl].
    + intros H. apply find_first_some in H. destruct H as (pre & k & post & -> & Hk & _).
      rewrite Forall_forall in IH. destruct (IH k (in_elt k pre post) st Hk) as [H1 H2].
      split; [exact H1|]. intros j Hj. rewrite ids_grp. right. apply in_flat_map. exists k.
      split; [apply in_elt|apply H2, Hj].
Qed.

Lemma it_find_none x t : it_find x t = None -> ~ In x (ids t).
Proof.
  induction t as [i ty v|i c cv kids IH] using itree_ind'.
  - rewrite it_find_leaf. destruct (Nat.eqb i x) eqn:E; [discriminate|]. apply Nat.eqb_neq in E.
    intros _ [H|[]]. contradiction.
  - rewrite it_find_grp. destruct (Nat.eqb i x) eqn:E; [discriminate|]. apply Nat.eqb_neq in E.
    intros H. apply find_first_none in H. rewrite ids_grp. intros [Hx|Hx]; [contradiction|].
    apply in_flat_map in Hx. destruct Hx as (k & Hk & Hxk). rewrite Forall_forall in *.
    exact (IH k Hk (H k Hk) Hxk).
Qed.

Lemma it_find_in x t : In x (ids t) -> exists st, it_find x t = Some st.
Proof.
  intros H. destruct (it_find x t) eqn:E; [eexists; reflexivity|]. apply it_find_none in E. contradiction.
Qed.

Lemma it_find_repr h x t : forall p st, repr h p t -> it_find x t = Some st -> exists ps, repr h ps st.
Proof.
  induction t as [i ty v|i c cv kids IH] using itree_ind'; intros p st Hr.
  - rewrite it_find_leaf. destruct (Nat.eqb i x); [|discriminate]. intros H. injection H as <-. exists p. exact Hr.
  - rewrite it_find_grp. destruct (Nat.eqb i x).
    + intros H. injection H as <-. exists p. exact Hr.
    + intros H. apply find_first_some in H. destruct H as (pre & k & post & -> & Hk & _).
      apply repr_grp in Hr. destruct Hr as [_ Hr]. rewrite Forall_forall in *.
      exact (IH k (in_elt k pre post) (Some i) st (Hr k (in_elt k pre post)) Hk).
Qed.

Lemma it_find_nodup x t : forall st, NoDup (ids t) -> it_find x t = Some st -> NoDup (ids st).
Proof.
  induction t as [i ty v|i c cv kids IH] using itree_ind'; intros st Hn.
  - rewrite it_find_leaf. destruct (Nat.eqb i x); [|discriminate]. intros H. injection H as <-. exact Hn.
  - rewrite it_find_grp. destruct (Nat.eqb i x).
    + intros H. injection H as <-. exact Hn.
    + intros H. apply find_first_some in H. destruct H as (pre & k & post & -> & Hk & _).
      rewrite ids_grp in Hn. inversion Hn as [|? ? _ Hn']; subst. rewrite Forall_forall in IH.
      apply (IH k (in_elt k pre post) st); [|exact Hk].
      eapply NoDup_flat_map_in; [exact Hn'|apply in_elt].
Qed.

(* ---- well-formed heaps ------------------------------------------------------------------------ *)
Definition is_grp (h : heap) (g : id) (kids : list id) : Prop :=
  exists c cv p, hget h g = Some (mkobj (KGrp c cv kids) p).

(* the n-th object up the parent references *)
Fixpoint chain (n : nat) (h : heap) (i : id) : option id :=
  match n with
  | O => Some i
  | S n' => match hget h i with
            | Some o => match oparent o with Some p => chain n' h p | None => None end
            | None => None
            end
  end.

Record wf_heap (h : heap) (root : id) : Prop := {
  (* (b) the root exists and has no parent *)
  wf_root : exists k, hget h root = Some (mkobj k None);
  (* (a) every child of every group exists and its parent field names that group *)
  wf_child : forall g kids c, is_grp h g kids -> In c kids -> exists k, hget h c = Some (mkobj k (Some g));
  (* (c) no identity twice in one child list (with (a): nor in two child lists, see wf_unique_parent) *)
  wf_nodup : forall g kids, is_grp h g kids -> NoDup kids;
  (* the parent field names a group that actually contains the object *)
  wf_parent : forall i k p, hget h i = Some (mkobj k (Some p)) -> exists kids, is_grp h p kids /\ In i kids;
  (* (d) every object reaches the root along the parent references (so: no cycle, nothing detached) *)
  wf_reach : forall i o, hget h i = Some o -> exists n, chain n h i = Some root
}.

(* (e) every group's cached value is the concatenation of its leaves' values *)
Definition cached_ok_heap (h : heap) : Prop :=
  forall g c cv kids p, hget h g = Some (mkobj (KGrp c cv kids) p) -> h_str h g = Some cv.

(* the same, structurally: the heap is exactly one decorated tree *)
Definition wf_tree (h : heap) (root : id) (t : itree) : Prop :=
  iid t = root /\ repr h None t /\ NoDup (ids t) /\ (forall i, hget h i <> None -> In i (ids t)).

Lemma wf_unique_parent h root g1 g2 k1 k2 c :
  wf_heap h root -> is_grp h g1 k1 -> is_grp h g2 k2 -> In c k1 -> In c k2 -> g1 = g2.
Proof.
  intros W H1 H2 I1 I2. destruct (wf_child _ _ W _ _ _ H1 I1) as [k E1].
  destruct (wf_child _ _ W _ _ _ H2 I2) as [k' E2]. congruence.
Qed.

Lemma chain_add n m h x y z : chain n h x = Some y -> chain m h y = Some z -> chain (n + m) h x = Some z.
Proof.
  revert x. induction n as [|n IH]; intros x; cbn [chain plus].
  - intros H. injection H as <-. auto.
  - destruct (hget h x) as [o|]; [|discriminate]. destruct (oparent o) as [p|]; [|discriminate]. apply IH.
Qed.

(* the subtree of a group object *)
Lemma tree_grp h root t g c cv kids p :
  wf_tree h root t -> hget h g = Some (mkobj (KGrp c cv kids) p) ->
  exists ks, it_find g t = Some (IGrp g c cv ks) /\ kids = map iid ks /\ repr h p (IGrp g c cv ks)
             /\ incl (ids (IGrp g c cv ks)) (ids t) /\ NoDup (ids (IGrp g c cv ks)).
Proof.
  intros (Hroot & Hr & Hn & Hdom) Hg.
  assert (Hin : In g (ids t)) by (apply Hdom; congruence).
  destruct (it_find_in _ _ Hin) as [st Hf].
  destruct (it_find_some _ _ _ Hf) as [Hid Hincl].
  destruct (it_find_repr _ _ _ _ _ Hr Hf) as [ps Hs].
  pose proof (it_find_nodup _ _ _ Hn Hf) as Hnd.
  destruct st as [i ty v|i c' cv' ks]; cbn [iid] in Hid; subst i.
  - cbn [repr] in Hs. congruence.
  - pose proof Hs as Hs'. apply repr_grp in Hs'. destruct Hs' as [Hs1 _]. rewrite Hg in Hs1.
    injection Hs1 as -> -> -> ->. exists ks. split; [exact Hf|]. split; [reflexivity|]. split; [exact Hs|]. split; assumption.
Qed.

Lemma repr_parent_field h t : forall p0 x, repr h p0 t -> In x (ids t) ->
  exists k q, hget h x = Some (mkobj k q) /\
    ((x = iid t /\ q = p0) \/ (exists g gk, q = Some g /\ is_grp h g gk /\ In x gk)).
Proof.
  induction t as [i ty v|i c cv kids IH] using itree_ind'; intros p0 x Hr Hx.
  - destruct Hx as [<-|[]]. exists (KLeaf ty v), p0. split; [exact Hr|left; split; reflexivity].
  - pose proof Hr as Hr'. apply repr_grp in Hr'. destruct Hr' as [H1 H2]. rewrite ids_grp in Hx. destruct Hx as [<-|Hx].
    + eexists _, p0. split; [exact H1|left; split; reflexivity].
    + apply in_flat_map in Hx. destruct Hx as (k & Hk & Hxk). rewrite Forall_forall in *.
      destruct (IH k Hk (Some i) x (H2 k Hk) Hxk) as (kk & q & Hq & [[-> ->]|Hd]).
      * exists kk, (Some i). split; [exact Hq|]. right. exists i, (map iid kids).
        split; [reflexivity|]. split; [exists c, cv, p0; exact H1|apply in_map, Hk].
      * exists kk, q. split; [exact Hq|right; exact Hd].
Qed.

Lemma repr_chain h t : forall p0 x, repr h p0 t -> In x (ids t) -> exists n, chain n h x = Some (iid t).
Proof.
  induction t as [i ty v|i c cv kids IH] using itree_ind'; intros p0 x Hr Hx.
  - destruct Hx as [<-|[]]. exists 0. reflexivity.
  - apply repr_grp in Hr. destruct Hr as [H1 H2]. rewrite ids_grp in Hx. destruct Hx as [<-|Hx]; [exists 0; reflexivity|].
    apply in_flat_map in Hx. destruct Hx as (k & Hk & Hxk). rewrite Forall_forall in *.
    destruct (IH k Hk (Some i) x (H2 k Hk) Hxk) as [n Hn].
    destruct (repr_root _ _ _ (H2 k Hk)) as [kk Hkk].
    exists (n + 1). eapply chain_add; [exact Hn|]. cbn [chain]. rewrite Hkk. reflexivity.
Qed.

Theorem wf_tree_heap h root t : wf_tree h root t -> wf_heap h root.
Proof.
  intros W. pose proof W as (Hroot & Hr & Hn & Hdom). constructor.
  - subst root. apply (repr_root _ _ _ Hr).
  - intros g kids c (gc & cv & p & Hg) Hc.
    destruct (tree_grp _ _ _ _ _ _ _ _ W Hg) as (ks & _ & -> & Hrs & _).
    apply repr_grp in Hrs. destruct Hrs as [_ Hrs]. apply in_map_iff in Hc. destruct Hc as (k & <- & Hk).
    rewrite Forall_forall in Hrs. apply (repr_root _ _ _ (Hrs k Hk)).
  - intros g kids (gc & cv & p & Hg).
    destruct (tree_grp _ _ _ _ _ _ _ _ W Hg) as (ks & _ & -> & _ & _ & Hnd).
    rewrite ids_grp in Hnd. inversion Hnd; subst. apply NoDup_flat_map_iid. assumption.
  - intros i k p Hi. assert (Hin : In i (ids t)) by (apply Hdom; congruence).
    destruct (repr_parent_field _ _ _ _ Hr Hin) as (kk & q & Hq & [[_ ->]|(g & gk & -> & Hg & Hig)]).
    + congruence.
    + rewrite Hi in Hq. injection Hq as _ ->. exists gk. split; assumption.
  - intros i o Hi. assert (Hin : In i (ids t)) by (apply Hdom; congruence).
    subst root. apply (repr_chain _ _ _ _ Hr Hin).
Qed.

(* ---- cached values, structurally --------------------------------------------------------------- *)
Fixpoint it_cached_ok (t : itree) : Prop :=
  match t with
  | ILeaf _ _ _ => True
  | IGrp _ _ cv kids =>
      cv = flat_map itext kids /\
      (fix all (l : list itree) : Prop := match l with [] => True | k :: l' => it_cached_ok k /\ all l' end) kids
  end.

Lemma it_cached_ok_grp i c cv kids :
  it_cached_ok (IGrp i c cv kids) <-> cv = flat_map itext kids /\ Forall it_cached_ok kids.
Proof.
  cbn [it_cached_ok]. split; intros [H1 H2]; (split; [exact H1|]); clear H1.
  - induction kids as [|k kids IH]; [constructor|]. destruct H2 as [Hk Hr]. constructor; [exact Hk|apply IH, Hr].
  - induction kids as [|k kids IH]; [exact I|]. inversion H2 as [|? ? Hk Hr]; subst. split; [exact Hk|apply IH, Hr].
Qed.

Lemma flat_map_itext_erase kids : flat_map itext kids = text_of_list (map erase kids).
Proof.
  unfold text_of_list. induction kids as [|k kids IH]; [reflexivity|].
  cbn [flat_map map]. rewrite IH, itext_erase. reflexivity.
Qed.

Lemma it_cached_erase t : it_cached_ok t <-> cached_ok (erase t).
Proof.
  induction t as [i ty v|i c cv kids IH] using itree_ind'; [cbn; tauto|].
  cbn [erase]. rewrite it_cached_ok_grp, cached_ok_grp, flat_map_itext_erase. unfold cached_ok_list.
  rewrite Forall_map. split; intros [H1 H2]; (split; [exact H1|]); rewrite Forall_forall in *; intros k Hk; apply (IH k Hk), H2, Hk.
Qed.

Lemma it_find_cached x t : forall st, it_cached_ok t -> it_find x t = Some st -> it_cached_ok st.
Proof.
  induction t as [i ty v|i c cv kids IH] using itree_ind'; intros st Hc.
  - rewrite it_find_leaf. destruct (Nat.eqb i x); [|discriminate]. intros H. injection H as <-. exact Hc.
  - rewrite it_find_grp. destruct (Nat.eqb i x).
    + intros H. injection H as <-. exact Hc.
    + intros H. apply find_first_some in H. destruct H as (pre & k & post & -> & Hk & _).
      apply it_cached_ok_grp in Hc. destruct Hc as [_ Hc]. rewrite Forall_forall in *.
      exact (IH k (in_elt k pre post) st (Hc k (in_elt k pre post)) Hk).
Qed.

Lemma repr_cached h t : forall p, repr h p t -> NoDup (ids t) -> cached_ok_heap h -> it_cached_ok t.
Proof.
  induction t as [i ty v|i c cv kids IH] using itree_ind'; intros p Hr Hn Hc; [exact I|].
  apply it_cached_ok_grp. split.
  - pose proof (shape_str h _ (repr_shape _ _ _ Hr) Hn) as Hs. cbn [iid itext] in Hs.
    apply repr_grp in Hr. destruct Hr as [H1 _]. rewrite (Hc _ _ _ _ _ H1) in Hs. congruence.
  - apply repr_grp in Hr. destruct Hr as [_ H2]. rewrite ids_grp in Hn. inversion Hn as [|? ? _ Hn']; subst.
    rewrite Forall_forall in *. intros k Hk. apply (IH k Hk (Some i)); [apply H2, Hk| |exact Hc].
    eapply NoDup_flat_map_in; [exact Hn'|exact Hk].
Qed.

Lemma tree_cached h root t : wf_tree h root t -> (it_cached_ok t <-> cached_ok_heap h).
Proof.
  intros W. split.
  - intros Hc g c cv kids p Hg.
    destruct (tree_grp _ _ _ _ _ _ _ _ W Hg) as (ks & Hf & -> & Hrs & _ & Hnd).
    pose proof (it_find_cached _ _ _ Hc Hf) as Hcs. apply it_cached_ok_grp in Hcs. destruct Hcs as [-> _].
    apply (shape_str h (IGrp g c (flat_map itext ks) ks)); [eapply repr_shape; exact Hrs|exact Hnd].
  - destruct W as (_ & Hr & Hn & _). intros Hc. eapply repr_cached; eassumption.
Qed.

(* ---- of_node: allocating a pure tree --------------------------------------------------------------- *)
Lemma hget_in (l : heap) i o : NoDup (map fst l) -> In (i, o) l -> hget l i = Some o.
Proof.
  induction l as [|[j q] l IH]; cbn [map fst hget]; intros Hn []; inversion Hn as [|? ? Hj Hr]; subst.
  - injection H as -> ->. rewrite Nat.eqb_refl. reflexivity.
  - destruct (Nat.eqb j i) eqn:E; [|apply IH; assumption].
    apply Nat.eqb_eq in E. subst. exfalso. apply Hj. change i with (fst (i, o)). apply in_map, H.
Qed.

Lemma heap_of_fst t : forall p, map fst (heap_of p t) = ids t.
Proof.
  induction t as [i ty v|i c cv kids IH] using itree_ind'; intros p; [reflexivity|].
  cbn [heap_of map fst ids]. f_equal.
  induction IH as [|k kids Hk _ IHk]; [reflexivity|]. cbn [flat_map]. rewrite map_app, Hk, IHk. reflexivity.
Qed.

Lemma heap_of_repr h t : forall p, incl (heap_of p t) h -> NoDup (map fst h) -> repr h p t.
Proof.
  induction t as [i ty v|i c cv kids IH] using itree_ind'; intros p Hi Hn.
  - cbn [repr]. apply hget_in; [exact Hn|]. apply Hi. left. reflexivity.
  - apply repr_grp. split.
    + apply hget_in; [exact Hn|]. apply Hi. left. reflexivity.
    + rewrite Forall_forall in *. intros k Hk. apply IH; [exact Hk| |exact Hn].
      intros x Hx. apply Hi. cbn [heap_of]. right. apply in_flat_map. exists k. split; assumption.
Qed.

Lemma label_iid n k : iid (label n k) = k.
Proof. destruct n; reflexivity. Qed.

Lemma label_ids n : forall k, ids (label n k) = seq k (nsize n).
Proof.
  induction n as [ty v|c v kids IH] using node_ind'; intros k; [reflexivity|].
  cbn [label ids nsize seq]. f_equal. generalize (S k) as nx.
  induction IH as [|x kids Hx _ IHk]; intros nx; [reflexivity|].
  change (list_sum (map nsize (x :: kids))) with (nsize x + list_sum (map nsize kids)).
  cbn [label_list flat_map]. rewrite seq_app, Hx, IHk. reflexivity.
Qed.

Lemma label_erase n : forall k, erase (label n k) = n.
Proof.
  induction n as [ty v|c v kids IH] using node_ind'; intros k; [reflexivity|].
  cbn [label erase]. f_equal. generalize (S k) as nx.
  induction IH as [|x kids Hx _ IHk]; intros nx; [reflexivity|].
  cbn [label_list map]. rewrite Hx, IHk. reflexivity.
Qed.

Lemma of_node_tree n : wf_tree (fst (of_node n)) (snd (of_node n)) (label n 0).
Proof.
  unfold of_node. cbn [fst snd].
  assert (Hn : NoDup (ids (label n 0))) by (rewrite label_ids; apply seq_NoDup).
  split; [apply label_iid|]. split; [|split; [exact Hn|]].
  - apply heap_of_repr; [apply incl_refl|]. rewrite heap_of_fst. exact Hn.
  - intros i Hi. apply hget_dom in Hi. rewrite heap_of_fst in Hi. exact Hi.
Qed.

(* a freshly allocated tree is well-formed, abstracts to the tree it was allocated from, and its
   cached values are right exactly when those of the pure tree are *)
Theorem of_node_wf n :
  wf_heap (fst (of_node n)) (snd (of_node n))
  /\ abs (fst (of_node n)) (snd (of_node n)) = Some n
  /\ (cached_ok n <-> cached_ok_heap (fst (of_node n))).
Proof.
  pose proof (of_node_tree n) as W. split; [eapply wf_tree_heap; exact W|]. split.
  - destruct W as (Hid & Hr & Hn & _).
    pose proof (shape_abs _ _ (repr_shape _ _ _ Hr) Hn) as Ha. rewrite Hid, label_erase in Ha. exact Ha.
  - rewrite <- (tree_cached _ _ _ W), it_cached_erase, label_erase. tauto.
Qed.

(* ---- updating the children of one group inside a decorated tree ------------------------------- *)
Lemma it_upd_iid s f t : iid (it_upd s f t) = iid t.
Proof. destruct t as [i ty v|i c cv kids]; cbn [it_upd iid]; [reflexivity|]. destruct (Nat.eqb i s); reflexivity. Qed.

Lemma it_upd_notin s f t : ~ In s (ids t) -> it_upd s f t = t.
Proof.
  induction t as [i ty v|i c cv kids IH] using itree_ind'; intros Hs; [reflexivity|].
  cbn [it_upd]. rewrite ids_grp in Hs. destruct (Nat.eqb i s) eqn:E.
  - apply Nat.eqb_eq in E. exfalso. apply Hs. left. exact E.
  - f_equal. rewrite <- (map_id kids) at 2. apply map_ext_in. intros k Hk.
    rewrite Forall_forall in IH. apply IH; [exact Hk|]. intros Hin. apply Hs. right.
    apply in_flat_map. exists k. split; assumption.
Qed.

Lemma it_upd_grp s f i c cv kids :
  it_upd s f (IGrp i c cv kids) = if Nat.eqb i s then IGrp i c cv (f kids) else IGrp i c cv (map (it_upd s f) kids).
Proof. reflexivity. Qed.

(* the child that contains s, and what the NoDup hypothesis says about its siblings *)
Lemma find_split s i c0 cv0 kids st :
  NoDup (ids (IGrp i c0 cv0 kids)) -> Nat.eqb i s = false -> it_find s (IGrp i c0 cv0 kids) = Some st ->
  exists pre k post,
    kids = pre ++ k :: post /\ it_find s k = Some st /\ NoDup (ids k)
    /\ (forall f, map (it_upd s f) kids = pre ++ it_upd s f k :: post)
    /\ (forall j, In j (ids k) -> j <> i /\ ~ In j (flat_map ids pre) /\ ~ In j (flat_map ids post))
    /\ Forall (fun x => it_find s x = None) pre.
Proof.
  intros Hn E Hf. rewrite it_find_grp, E in Hf. apply find_first_some in Hf.
  destruct Hf as (pre & k & post & -> & Hk & Hpre). exists pre, k, post.
  rewrite ids_grp in Hn. inversion Hn as [|? ? Hi Hn']; subst.
  destruct (it_find_some _ _ _ Hk) as [Hid Hincl].
  assert (Hsk : In s (ids k)) by (apply Hincl; rewrite <- Hid; apply iid_in_ids).
  split; [reflexivity|]. split; [exact Hk|]. split; [eapply NoDup_flat_map_in; [exact Hn'|apply in_elt]|].
  split; [|split; [|exact Hpre]].
  - intros f. rewrite map_app. cbn [map]. f_equal; [|f_equal].
    + rewrite <- (map_id pre) at 2. apply map_ext_in. intros x Hx. apply it_upd_notin. intros Hin.
      apply (proj1 (NoDup_flat_map_split ids pre k post Hn' s Hsk)). apply in_flat_map. exists x. split; assumption.
    + rewrite <- (map_id post) at 2. apply map_ext_in. intros x Hx. apply it_upd_notin. intros Hin.
      apply (proj2 (NoDup_flat_map_split ids pre k post Hn' s Hsk)). apply in_flat_map. exists x. split; assumption.
  - intros j Hj. split; [|exact (NoDup_flat_map_split ids pre k post Hn' j Hj)].
    intros ->. apply Hi. apply in_flat_map. exists k. split; [apply in_elt|exact Hj].
Qed.

Lemma upd_repr h h' s f c cv ks t : forall p,
  repr h p t -> NoDup (ids t) -> it_find s t = Some (IGrp s c cv ks) ->
  (forall ps, repr h ps (IGrp s c cv ks) -> repr h' ps (IGrp s c cv (f ks))) ->
  (forall i, In i (ids t) -> ~ In i (ids (IGrp s c cv ks)) -> hget h' i = hget h i) ->
  repr h' p (it_upd s f t).
Proof.
  induction t as [i ty v|i c0 cv0 kids IH] using itree_ind'; intros p Hr Hn Hf Hloc Hfr.
  - rewrite it_find_leaf in Hf. destruct (Nat.eqb i s); discriminate.
  - rewrite it_upd_grp. destruct (Nat.eqb i s) eqn:E.
    + rewrite it_find_grp, E in Hf. injection Hf as -> -> -> ->. apply Hloc, Hr.
    + destruct (find_split _ _ _ _ _ _ Hn E Hf) as (pre & k & post & Hkids & Hk & Hnk & Hmap & Hdis & _).
      destruct (it_find_some _ _ _ Hk) as [_ Hincl].
      pose proof Hr as Hr'. apply repr_grp in Hr'. destruct Hr' as [H1 H2]. apply repr_grp. split.
      * rewrite map_map. rewrite (map_ext _ iid (it_upd_iid s f)). rewrite Hfr; [exact H1|left; reflexivity|].
        intros Hin. apply Hincl in Hin. destruct (Hdis _ Hin) as [Hne _]. apply Hne. reflexivity.
      * rewrite Hmap. subst kids. apply Forall_app in H2. destruct H2 as [Hpre Hkp].
        inversion Hkp as [|? ? Hrk Hpost]; subst. rewrite Forall_forall in IH.
        assert (Hsub : forall x, In x (pre ++ k :: post) -> incl (ids x) (ids (IGrp i c0 cv0 (pre ++ k :: post)))).
        { intros x Hx j Hj. rewrite ids_grp. right. apply in_flat_map. exists x. split; assumption. }
        apply Forall_app. split; [|constructor].
        -- rewrite Forall_forall in *. intros x Hx. apply (repr_frame h); [|apply Hpre, Hx].
           intros j Hj. apply Hfr; [apply (Hsub x); [apply in_or_app; left; exact Hx|exact Hj]|].
           intros Hin. apply Hincl in Hin. destruct (Hdis _ Hin) as (_ & Hp & _). apply Hp.
           apply in_flat_map. exists x. split; assumption.
        -- apply (IH k (in_elt k pre post)); [exact Hrk|exact Hnk|exact Hk|exact Hloc|].
           intros j Hj Hnj. apply Hfr; [apply (Hsub k (in_elt k pre post)), Hj|exact Hnj].
        -- rewrite Forall_forall in *. intros x Hx. apply (repr_frame h); [|apply Hpost, Hx].
           intros j Hj. apply Hfr; [apply (Hsub x); [apply in_or_app; right; right; exact Hx|exact Hj]|].
           intros Hin. apply Hincl in Hin. destruct (Hdis _ Hin) as (_ & _ & Hp). apply Hp.
           apply in_flat_map. exists x. split; assumption.
Qed.

Lemma upd_ids_perm s f c cv ks extra t :
  NoDup (ids t) -> it_find s t = Some (IGrp s c cv ks) ->
  Permutation (flat_map ids (f ks)) (extra ++ flat_map ids ks) ->
  Permutation (ids (it_upd s f t)) (extra ++ ids t).
Proof.
  induction t as [i ty v|i c0 cv0 kids IH] using itree_ind'; intros Hn Hf Hp.
  - rewrite it_find_leaf in Hf. destruct (Nat.eqb i s); discriminate.
  - rewrite it_upd_grp. destruct (Nat.eqb i s) eqn:E.
    + rewrite it_find_grp, E in Hf. injection Hf as -> -> -> ->. rewrite !ids_grp.
      etransitivity; [apply perm_skip, Hp|]. apply Permutation_middle.
    + destruct (find_split _ _ _ _ _ _ Hn E Hf) as (pre & k & post & Hkids & Hk & Hnk & Hmap & _).
      rewrite !ids_grp, Hmap. subst kids. rewrite Forall_forall in IH.
      specialize (IH k (in_elt k pre post) Hnk Hk Hp).
      rewrite !flat_map_app. cbn [flat_map].
      etransitivity; [|apply Permutation_middle]. apply perm_skip.
      etransitivity; [apply Permutation_app_head, Permutation_app_tail, IH|].
      rewrite <- app_assoc. apply Permutation_app_swap_app.
Qed.

(* any list-valued reading of the tree that f preserves on the children of s is preserved *)
Lemma upd_flat (B : Type) (g : itree -> list B) s f c cv ks t :
  (forall i c cv kids, g (IGrp i c cv kids) = flat_map g kids) ->
  NoDup (ids t) -> it_find s t = Some (IGrp s c cv ks) ->
  flat_map g (f ks) = flat_map g ks ->
  g (it_upd s f t) = g t.
Proof.
  intros Hg. induction t as [i ty v|i c0 cv0 kids IH] using itree_ind'; intros Hn Hf Hp.
  - rewrite it_find_leaf in Hf. destruct (Nat.eqb i s); discriminate.
  - rewrite it_upd_grp. destruct (Nat.eqb i s) eqn:E.
    + rewrite it_find_grp, E in Hf. injection Hf as -> -> -> ->. rewrite !Hg. exact Hp.
    + destruct (find_split _ _ _ _ _ _ Hn E Hf) as (pre & k & post & Hkids & Hk & Hnk & Hmap & _).
      rewrite !Hg, Hmap. subst kids. rewrite Forall_forall in IH.
      rewrite !flat_map_app. cbn [flat_map]. rewrite (IH k (in_elt k pre post) Hnk Hk Hp). reflexivity.
Qed.

Lemma upd_cached s f c cv ks t :
  NoDup (ids t) -> it_find s t = Some (IGrp s c cv ks) ->
  flat_map itext (f ks) = flat_map itext ks -> Forall it_cached_ok (f ks) ->
  it_cached_ok t -> it_cached_ok (it_upd s f t).
Proof.
  induction t as [i ty v|i c0 cv0 kids IH] using itree_ind'; intros Hn Hf Hp Hck Hc.
  - rewrite it_find_leaf in Hf. destruct (Nat.eqb i s); discriminate.
  - rewrite it_upd_grp. destruct (Nat.eqb i s) eqn:E.
    + rewrite it_find_grp, E in Hf. injection Hf as -> -> -> ->.
      apply it_cached_ok_grp in Hc. destruct Hc as [Hc _]. apply it_cached_ok_grp. split; [congruence|exact Hck].
    + destruct (find_split _ _ _ _ _ _ Hn E Hf) as (pre & k & post & Hkids & Hk & Hnk & Hmap & _).
      apply it_cached_ok_grp in Hc. destruct Hc as [Hc1 Hc2]. apply it_cached_ok_grp.
      rewrite Hmap. subst kids. rewrite Forall_forall in IH.
      apply Forall_app in Hc2. destruct Hc2 as [Hcp Hck2]. inversion Hck2 as [|? ? Hc3 Hc4]; subst.
      split.
      * rewrite !flat_map_app. cbn [flat_map]. f_equal. f_equal.
        symmetry. apply (upd_flat _ itext s f c cv ks k); [reflexivity|exact Hnk|exact Hk|exact Hp].
      * apply Forall_app. split; [exact Hcp|]. constructor; [|exact Hc4].
        apply (IH k (in_elt k pre post) Hnk Hk Hp Hck Hc3).
Qed.

Lemma upd_wf_tree h h' root t s c cv ks f extra :
  wf_tree h root t -> it_find s t = Some (IGrp s c cv ks) ->
  (forall ps, repr h ps (IGrp s c cv ks) -> repr h' ps (IGrp s c cv (f ks))) ->
  (forall i, In i (ids t) -> ~ In i (ids (IGrp s c cv ks)) -> hget h' i = hget h i) ->
  Permutation (flat_map ids (f ks)) (extra ++ flat_map ids ks) ->
  (forall i, In i extra -> hget h i = None) -> NoDup extra ->
  (forall i, hget h' i <> None -> hget h i <> None \/ In i extra) ->
  wf_tree h' root (it_upd s f t).
Proof.
  intros (Hid & Hr & Hn & Hdom) Hf Hloc Hfr Hp Hex Hnex Hd.
  pose proof (upd_ids_perm s f c cv ks extra t Hn Hf Hp) as Hperm.
  split; [rewrite it_upd_iid; exact Hid|]. split; [eapply upd_repr; eassumption|]. split.
  - apply (Permutation_NoDup (Permutation_sym Hperm)). apply NoDup_app_intro; [exact Hnex|exact Hn|].
    intros x Hx1 Hx2. apply (shape_dom h t (repr_shape _ _ _ Hr)) in Hx2. apply hget_dom in Hx2.
    apply Hx2, Hex, Hx1.
  - intros i Hi. apply (Permutation_in _ (Permutation_sym Hperm)). apply in_or_app.
    destruct (Hd i Hi) as [H|H]; [right; apply Hdom, H|left; exact H].
Qed.

(* ---- Python indices ----------------------------------------------------------------------------- *)
Lemma py_index_lt len z pos : py_index len z = Some pos -> pos < len.
Proof.
  unfold py_index. destruct (Z.leb_spec 0 z).
  - destruct (Z.ltb_spec z (Z.of_nat len)); [|discriminate]. intros E. injection E as <-. lia.
  - destruct (Z.leb_spec (- Z.of_nat len) z); [|discriminate]. intros E. injection E as <-. lia.
Qed.

Lemma py_bound_le len z : py_bound len z <= len.
Proof. unfold py_bound. destruct (Z.ltb_spec z 0); lia. Qed.

Lemma py_bound_index len z pos : py_index len z = Some pos -> py_bound len z = pos.
Proof.
  unfold py_index, py_bound. destruct (Z.leb_spec 0 z).
  - destruct (Z.ltb_spec z (Z.of_nat len)); [|discriminate]. intros E. injection E as <-.
    destruct (Z.ltb_spec z 0); lia.
  - destruct (Z.leb_spec (- Z.of_nat len) z); [|discriminate]. intros E. injection E as <-.
    destruct (Z.ltb_spec z 0); lia.
Qed.

Lemma py_bound_succ len z pos : py_index len z = Some pos -> z <> (-1)%Z -> py_bound len (z + 1) = S pos.
Proof.
  unfold py_index, py_bound. destruct (Z.leb_spec 0 z).
  - destruct (Z.ltb_spec z (Z.of_nat len)); [|discriminate]. intros E _. injection E as <-.
    destruct (Z.ltb_spec (z + 1) 0); lia.
  - destruct (Z.leb_spec (- Z.of_nat len) z); [|discriminate]. intros E Hne. injection E as <-.
    destruct (Z.ltb_spec (z + 1) 0); lia.
Qed.

Lemma map_slice_nat {A B} (f : A -> B) l lo hi : map f (slice_nat l lo hi) = slice_nat (map f l) lo hi.
Proof. unfold slice_nat. rewrite <- firstn_map, <- skipn_map. reflexivity. Qed.

Lemma map_splice_nat {A B} (f : A -> B) l lo hi x :
  map f (splice_nat l lo hi x) = splice_nat (map f l) lo hi (map f x).
Proof. unfold splice_nat. rewrite !map_app, <- firstn_map, <- skipn_map. reflexivity. Qed.

Lemma slice_split {A} (l : list A) lo hi :
  l = firstn lo l ++ slice_nat l lo hi ++ skipn (Nat.max lo hi) l.
Proof. unfold slice_nat. rewrite slice_rest, firstn_skipn. reflexivity. Qed.

Lemma nth_error_app_len {A} (a b : list A) x : nth_error (a ++ x :: b) (length a) = Some x.
Proof. rewrite nth_error_app2 by lia. rewrite Nat.sub_diag. reflexivity. Qed.

Lemma firstn_app_len {A} (a b : list A) : firstn (length a) (a ++ b) = a.
Proof. rewrite firstn_app, Nat.sub_diag, firstn_all. cbn [firstn]. apply app_nil_r. Qed.

Lemma skipn_app_len {A} (a b : list A) : skipn (length a) (a ++ b) = b.
Proof. rewrite skipn_app, Nat.sub_diag, skipn_all. reflexivity. Qed.

Lemma nth_error_split' {A} (l : list A) n x :
  nth_error l n = Some x -> l = firstn n l ++ x :: skipn (S n) l /\ length (firstn n l) = n.
Proof.
  intros H. split.
  - rewrite <- (firstn_skipn n l) at 1. f_equal. apply nth_error_split_skipn, H.
  - apply firstn_length_le. apply Nat.lt_le_incl. apply nth_error_Some. congruence.
Qed.

(* ---- the common shape of both branches of group_tokens ------------------------------------------ *)
Lemma iid_in_flat l x : In x (map iid l) -> In x (flat_map ids l).
Proof.
  intros H. apply in_map_iff in H. destruct H as (k & <- & Hk). apply in_flat_map. exists k.
  split; [exact Hk|apply iid_in_ids].
Qed.

Lemma iid_unique l k i : NoDup (flat_map ids l) -> In k l -> In i (ids k) -> In i (map iid l) -> i = iid k.
Proof.
  induction l as [|a l IH]; cbn [flat_map map]; intros Hn [] Hi Hm.
  - subst a. apply NoDup_app_inv in Hn. destruct Hn as (_ & _ & Hd). destruct Hm as [Hm|Hm]; [auto|].
    exfalso. exact (Hd i Hi (iid_in_flat _ _ Hm)).
  - apply NoDup_app_inv in Hn. destruct Hn as (_ & Hn2 & Hd). destruct Hm as [Hm|Hm].
    + exfalso. apply (Hd i); [rewrite <- Hm; apply iid_in_ids|]. apply in_flat_map. exists k. split; assumption.
    + apply IH; assumption.
Qed.

Lemma regroup_repr h h' self sp sc scv A sub R g gc gtxt gks :
  Forall (repr h (Some self)) A -> Forall (repr h (Some self)) sub -> Forall (repr h (Some self)) R ->
  Forall (repr h (Some g)) gks ->
  NoDup (flat_map ids sub) ->
  (forall i, In i (flat_map ids sub) -> i <> g /\ i <> self) ->
  (forall i, In i (flat_map ids A ++ flat_map ids gks ++ flat_map ids R) ->
             i <> g /\ i <> self /\ ~ In i (flat_map ids sub)) ->
  hget h' g = Some (mkobj (KGrp gc gtxt (map iid (gks ++ sub))) (Some self)) ->
  hget h' self = Some (mkobj (KGrp sc scv (map iid (A ++ IGrp g gc gtxt (gks ++ sub) :: R))) sp) ->
  (forall x, In x (map iid sub) -> hget h' x = reparent (Some g) (hget h x)) ->
  (forall x, x <> g -> x <> self -> ~ In x (map iid sub) -> hget h' x = hget h x) ->
  repr h' sp (IGrp self sc scv (A ++ IGrp g gc gtxt (gks ++ sub) :: R)).
Proof.
  intros HA Hsub HR Hgks Hns Hsd Hout Hg Hself Hre Hfr.
  assert (Hframe : forall l q, Forall (repr h q) l ->
            (forall i, In i (flat_map ids l) -> In i (flat_map ids A ++ flat_map ids gks ++ flat_map ids R)) ->
            Forall (repr h' q) l).
  { intros l q Hl Hin. rewrite Forall_forall in *. intros k Hk. apply (repr_frame h); [|apply Hl, Hk].
    intros i Hi. assert (Hio : In i (flat_map ids l)) by (apply in_flat_map; exists k; split; assumption).
    destruct (Hout i (Hin i Hio)) as (H1 & H2 & H3). apply Hfr; [exact H1|exact H2|].
    intros Hm. apply H3, iid_in_flat, Hm. }
  apply repr_grp. split; [exact Hself|].
  apply Forall_app. split; [|constructor].
  - apply Hframe; [exact HA|]. intros i Hi. apply in_or_app. left. exact Hi.
  - apply repr_grp. split; [exact Hg|]. apply Forall_app. split.
    + apply Hframe; [exact Hgks|]. intros i Hi. apply in_or_app. right. apply in_or_app. left. exact Hi.
    + rewrite Forall_forall in *. intros k Hk.
      assert (Hkin : forall i, In i (ids k) -> In i (flat_map ids sub))
        by (intros i Hi; apply in_flat_map; exists k; split; assumption).
      apply (repr_reparent h h' k (Some self) (Some g)).
      * apply Hre, in_map, Hk.
      * intros i Hi Hne. destruct (Hsd i (Hkin i Hi)) as [H1 H2]. apply Hfr; [exact H1|exact H2|].
        intros Hm. apply Hne. eapply iid_unique; eassumption.
      * eapply NoDup_flat_map_in; eassumption.
      * apply Hsub, Hk.
  - apply Hframe; [exact HR|]. intros i Hi. apply in_or_app. right. apply in_or_app. right. exact Hi.
Qed.

(* what NoDup (a :: l1 ++ l2 ++ l3 ++ l4) says about l3 against the rest *)
Lemma nodup_parts {A} (a : A) l1 l2 l3 l4 :
  NoDup (a :: l1 ++ l2 ++ l3 ++ l4) ->
  NoDup l2 /\ NoDup l3 /\ (forall i, In i l3 -> i <> a /\ ~ In i l2)
  /\ (forall i, In i (l1 ++ l4) -> i <> a /\ ~ In i l3 /\ ~ In i l2).
Proof.
  intros H. inversion H as [|? ? Ha H']; subst.
  apply NoDup_app_inv in H'. destruct H' as (_ & H2 & D1).
  apply NoDup_app_inv in H2. destruct H2 as (N2 & H3 & D2).
  apply NoDup_app_inv in H3. destruct H3 as (N3 & _ & D3).
  split; [exact N2|]. split; [exact N3|]. split.
  - intros i Hi. split.
    + intros ->. apply Ha. apply in_or_app. right. apply in_or_app. right. apply in_or_app. left. exact Hi.
    + intros Hi2. apply (D2 i Hi2). apply in_or_app. left. exact Hi.
  - intros i Hi. apply in_app_or in Hi. destruct Hi as [Hi|Hi].
    + split; [intros ->; apply Ha; apply in_or_app; left; exact Hi|]. split; intros Hx; apply (D1 i Hi).
      * apply in_or_app. right. apply in_or_app. left. exact Hx.
      * apply in_or_app. left. exact Hx.
    + split; [intros ->; apply Ha; apply in_or_app; right; apply in_or_app; right; apply in_or_app; right; exact Hi|].
      split; intros Hx.
      * exact (D3 i Hx Hi).
      * apply (D2 i Hx). apply in_or_app. right. exact Hi.
Qed.

Lemma shape_kinds h h' t :
  (forall i, In i (ids t) -> option_map okind_of (hget h' i) = option_map okind_of (hget h i)) ->
  shape h t -> shape h' t.
Proof.
  induction t as [i ty v|i c cv kids IH] using itree_ind'; intros Hf H.
  - destruct H as [p H]. specialize (Hf i (or_introl eq_refl)). rewrite H in Hf. cbn [shape].
    destruct (hget h' i) as [[k q]|]; cbn in Hf; [|discriminate]. injection Hf as ->. exists q. reflexivity.
  - apply shape_grp in H. destruct H as [[p H1] H2]. apply shape_grp. split.
    + specialize (Hf i (or_introl eq_refl)). rewrite H1 in Hf.
      destruct (hget h' i) as [[k q]|]; cbn in Hf; [|discriminate]. injection Hf as ->. exists q. reflexivity.
    + rewrite Forall_forall in *. intros k Hk. apply IH; [exact Hk| |apply H2, Hk].
      intros j Hj. apply Hf. rewrite ids_grp. right. apply in_flat_map. exists k. split; assumption.
Qed.

Lemma reparent_kind p oo : option_map okind_of (reparent p oo) = option_map okind_of oo.
Proof. destruct oo; reflexivity. Qed.

(* the heap after the statements of the new-group branch *)
Section NewBranch.
Variables (h : heap) (self : id) (sc : cls) (scv : text) (toks : list id) (sp : option id).
Variables (c : cls) (sub_ids : list id) (txt : text) (F : list id -> list id).
Hypothesis Hself : hget h self = Some (mkobj (KGrp sc scv toks) sp).
Hypothesis Hsub_in : forall x, In x sub_ids -> hget h x <> None.
Hypothesis Hself_sub : ~ In self sub_ids.

Let g := fresh h.
Let h1 := hset h g (mkobj (KGrp c [] sub_ids) None).
Let h2 := set_parents h1 sub_ids (Some g).
Let h3 := set_cached h2 g txt.
Let h4 := upd_kids h3 self F.
Let h5 := set_parent h4 g (Some self).
Let h6 := set_parents h5 sub_ids (Some g).

Lemma nb_g_none : hget h g = None. Proof. apply fresh_none. Qed.
Lemma nb_g_sub : memb g sub_ids = false.
Proof. apply memb_false. intros H. apply (Hsub_in g H). apply nb_g_none. Qed.
Lemma nb_self_g : Nat.eqb self g = false.
Proof. apply Nat.eqb_neq. intros E. pose proof nb_g_none as H. rewrite <- E, Hself in H. discriminate. Qed.

Lemma nb_h2_get x :
  hget h2 x = if Nat.eqb g x then Some (mkobj (KGrp c [] sub_ids) None)
              else if memb x sub_ids then reparent (Some g) (hget h x) else hget h x.
Proof.
  unfold h2, h1. rewrite set_parents_get, hget_hset. destruct (Nat.eqb g x) eqn:E.
  - apply Nat.eqb_eq in E. subst x. rewrite nb_g_sub. reflexivity.
  - reflexivity.
Qed.

Lemma nb_h6_get x :
  hget h6 x =
    if Nat.eqb g x then Some (mkobj (KGrp c txt sub_ids) (Some self))
    else if Nat.eqb self x then Some (mkobj (KGrp sc scv (F toks)) sp)
    else if memb x sub_ids then reparent (Some g) (hget h x) else hget h x.
Proof.
  unfold h6, h5, h4, h3. rewrite set_parents_get, set_parent_get, upd_kids_get, set_cached_get, nb_h2_get.
  destruct (Nat.eqb g x) eqn:E.
  - apply Nat.eqb_eq in E. subst x. rewrite nb_g_sub, nb_self_g. reflexivity.
  - destruct (Nat.eqb self x) eqn:E2.
    + apply Nat.eqb_eq in E2. subst x. rewrite (proj2 (memb_false self sub_ids) Hself_sub), Hself. reflexivity.
    + destruct (memb x sub_ids); [apply reparent_idem|reflexivity].
Qed.
End NewBranch.

Lemma repr_parent_unique h p q t : repr h p t -> repr h q t -> p = q.
Proof.
  intros H1 H2. destruct (repr_root _ _ _ H1) as [k1 E1]. destruct (repr_root _ _ _ H2) as [k2 E2]. congruence.
Qed.

Lemma tree_ids_in_heap h root t i : wf_tree h root t -> In i (ids t) -> hget h i <> None.
Proof.
  intros (_ & Hr & _ & _) Hi. apply hget_dom. apply (shape_dom h t (repr_shape _ _ _ Hr)), Hi.
Qed.

(* the new-group branch on a well-formed heap *)
Lemma group_new_tree h root t self sc scv toks sp c a b :
  wf_tree h root t -> hget h self = Some (mkobj (KGrp sc scv toks) sp) ->
  exists ks, it_find self t = Some (IGrp self sc scv ks) /\ toks = map iid ks /\
    exists h1, h_new_group h c (py_slice toks a b) = Ok (h1, fresh h) /\
      wf_tree (set_parents (set_parent (upd_kids h1 self (fun k => py_slice_assign k a b [fresh h]))
                              (fresh h) (Some self)) (py_slice toks a b) (Some (fresh h)))
              root
              (it_upd self (fun ks => py_slice_assign ks a b
                 [IGrp (fresh h) c (flat_map itext (py_slice ks a b)) (py_slice ks a b)]) t).
Proof.
  intros W Hself. destruct (tree_grp _ _ _ _ _ _ _ _ W Hself) as (ks & Hf & Htoks & Hrs & Hincl & Hnd).
  exists ks. split; [exact Hf|]. split; [exact Htoks|].
  set (g := fresh h).
  set (lo := py_bound (length ks) a). set (hi := py_bound (length ks) b).
  assert (Hsubids : py_slice toks a b = map iid (slice_nat ks lo hi)).
  { subst toks. unfold py_slice. rewrite map_length, map_slice_nat. reflexivity. }
  rewrite Hsubids.
  assert (Hsl : py_slice ks a b = slice_nat ks lo hi) by reflexivity.
  set (sub := slice_nat ks lo hi) in *. set (A := firstn lo ks). set (R := skipn (Nat.max lo hi) ks).
  assert (Hks : ks = A ++ sub ++ R) by apply slice_split.
  pose proof Hrs as Hrs'. apply repr_grp in Hrs'. destruct Hrs' as [_ Hkids]. rewrite Hks in Hkids.
  apply Forall_app in Hkids. destruct Hkids as [HA Hkids]. apply Forall_app in Hkids. destruct Hkids as [Hsub HR].
  pose proof Hnd as Hnd'. rewrite ids_grp, Hks, !flat_map_app in Hnd'.
  apply (nodup_parts self (flat_map ids A) [] (flat_map ids sub) (flat_map ids R)) in Hnd'.
  destruct Hnd' as (_ & Hnsub & Hd1 & Hd2).
  assert (Hgnone : hget h g = None) by apply fresh_none.
  assert (Hgt : forall i, In i (ids t) -> i <> g).
  { intros i Hi ->. apply (tree_ids_in_heap _ _ _ _ W Hi). exact Hgnone. }
  assert (Hsubt : forall i, In i (flat_map ids sub) -> In i (ids t)).
  { intros i Hi. apply Hincl. rewrite ids_grp, Hks, !flat_map_app. right. apply in_or_app. right. apply in_or_app. left. exact Hi. }
  assert (Hsubin : forall x, In x (map iid sub) -> hget h x <> None).
  { intros x Hx. apply (tree_ids_in_heap _ _ _ _ W). apply Hsubt, iid_in_flat, Hx. }
  assert (Hselfsub : ~ In self (map iid sub)).
  { intros Hx. apply iid_in_flat in Hx. destruct (Hd1 self Hx) as [Hne _]. apply Hne. reflexivity. }
  (* the constructor *)
  assert (Hstr : h_str (set_parents (hset h g (mkobj (KGrp c [] (map iid sub)) None)) (map iid sub) (Some g)) g
                 = Some (flat_map itext sub)).
  { apply (shape_str _ (IGrp g c [] sub)).
    - apply shape_grp. split.
      + exists None. rewrite (nb_h2_get h c (map iid sub) Hsubin). fold g. rewrite Nat.eqb_refl. reflexivity.
      + rewrite Forall_forall in *. intros k Hk. apply (shape_kinds h); [|eapply repr_shape; apply Hsub, Hk].
        intros i Hi. rewrite (nb_h2_get h c (map iid sub) Hsubin). fold g.
        assert (Hig : In i (flat_map ids sub)) by (apply in_flat_map; exists k; split; assumption).
        replace (Nat.eqb g i) with false by (symmetry; apply Nat.eqb_neq; intros E; apply (Hgt i (Hsubt i Hig)); congruence).
        destruct (memb i (map iid sub)); [apply reparent_kind|reflexivity].
    - rewrite ids_grp. constructor; [|exact Hnsub]. intros Hx. apply (Hgt g (Hsubt g Hx)). reflexivity. }
  unfold h_new_group. fold g. rewrite Hstr. eexists. split; [reflexivity|].
  set (F := fun k : list id => py_slice_assign k a b [g]).
  set (h' := set_parents _ _ _).
  assert (Hget : forall x, hget h' x =
            if Nat.eqb g x then Some (mkobj (KGrp c (flat_map itext sub) (map iid sub)) (Some self))
            else if Nat.eqb self x then Some (mkobj (KGrp sc scv (F toks)) sp)
            else if memb x (map iid sub) then reparent (Some g) (hget h x) else hget h x).
  { intros x. apply (nb_h6_get h self sc scv toks sp c (map iid sub) (flat_map itext sub) F Hself Hsubin Hselfsub). }
  assert (Hgs : Nat.eqb g self = false).
  { apply Nat.eqb_neq. intros E. rewrite <- E, Hgnone in Hself. discriminate. }
  assert (Hfks : py_slice_assign ks a b [IGrp g c (flat_map itext (py_slice ks a b)) (py_slice ks a b)]
                 = A ++ IGrp g c (flat_map itext sub) ([] ++ sub) :: R).
  { rewrite Hsl. reflexivity. }
  apply (upd_wf_tree h h' root t self sc scv ks _ [g] W Hf).
  - intros ps Hps. rewrite (repr_parent_unique _ _ _ _ Hps Hrs). cbv beta. rewrite Hfks.
    apply (regroup_repr h h' self sp sc scv A sub R g c (flat_map itext sub) []); try assumption.
    + constructor.
    + intros i Hi. split; [apply Hgt, Hsubt, Hi|apply (Hd1 i Hi)].
    + intros i Hi. cbn [flat_map app] in Hi. destruct (Hd2 i Hi) as (H1 & H2 & _).
      split; [|split; assumption]. apply Hgt, Hincl. rewrite ids_grp, Hks, !flat_map_app. right.
      apply in_app_or in Hi. destruct Hi as [Hi|Hi]; apply in_or_app; [left; exact Hi|right; apply in_or_app; right; exact Hi].
    + rewrite Hget, Nat.eqb_refl. reflexivity.
    + rewrite Hget, Hgs, Nat.eqb_refl. unfold F. rewrite Htoks. unfold py_slice_assign. rewrite map_length.
      apply f_equal. apply (f_equal (fun k => mkobj k sp)). apply f_equal.
      exact (eq_sym (map_splice_nat iid ks lo hi [IGrp g c (flat_map itext sub) ([] ++ sub)])).
    + intros x Hx. rewrite Hget.
      replace (Nat.eqb g x) with false by (symmetry; apply Nat.eqb_neq; intros E; apply (Hsubin x Hx); congruence).
      replace (Nat.eqb self x) with false by (symmetry; apply Nat.eqb_neq; intros E; apply Hselfsub; congruence).
      rewrite (proj2 (memb_In x (map iid sub)) Hx). reflexivity.
    + intros x H1 H2 H3. rewrite Hget.
      replace (Nat.eqb g x) with false by (symmetry; apply Nat.eqb_neq; congruence).
      replace (Nat.eqb self x) with false by (symmetry; apply Nat.eqb_neq; congruence).
      rewrite (proj2 (memb_false x (map iid sub)) H3). reflexivity.
  - intros i Hi Hni. rewrite Hget.
    replace (Nat.eqb g i) with false by (symmetry; apply Nat.eqb_neq; intros E; apply (Hgt i Hi); congruence).
    replace (Nat.eqb self i) with false by (symmetry; apply Nat.eqb_neq; intros E; apply Hni; rewrite ids_grp; left; exact E).
    replace (memb i (map iid sub)) with false; [reflexivity|]. symmetry. apply memb_false. intros Hm. apply Hni.
    rewrite ids_grp, Hks, !flat_map_app. right. apply in_or_app. right. apply in_or_app. left. apply iid_in_flat, Hm.
  - cbv beta. rewrite Hfks.
    replace (flat_map ids ks) with (flat_map ids (A ++ sub ++ R)) by (rewrite <- Hks; reflexivity).
    rewrite !flat_map_app. cbn [flat_map ids app].
    apply Permutation_sym. apply (Permutation_middle (flat_map ids A) (flat_map ids sub ++ flat_map ids R) g).
  - intros i [<-|[]]. exact Hgnone.
  - constructor; [intros []|constructor].
  - intros i Hi. rewrite Hget in Hi. destruct (Nat.eqb g i) eqn:E1; [right; left; apply Nat.eqb_eq, E1|]. left.
    destruct (Nat.eqb self i) eqn:E2; [apply Nat.eqb_eq in E2; subst i; congruence|].
    destruct (memb i (map iid sub)); [|exact Hi]. destruct (hget h i); [discriminate|exact Hi].
Qed.

(* the heap after the statements of the extend branch *)
Section ExtBranch.
Variables (h : heap) (self : id) (sc : cls) (scv : text) (toks : list id) (sp : option id).
Variables (start : id) (gc : cls) (gcv : text) (gk : list id) (gp : option id).
Variables (sub_ids : list id) (txt : text) (F : list id -> list id).
Hypothesis Hself : hget h self = Some (mkobj (KGrp sc scv toks) sp).
Hypothesis Hstart : hget h start = Some (mkobj (KGrp gc gcv gk) gp).
Hypothesis Hne : Nat.eqb start self = false.
Hypothesis Hstart_sub : ~ In start sub_ids.
Hypothesis Hself_sub : ~ In self sub_ids.

Lemma eb_h2_get x :
  hget (upd_kids (upd_kids h start (fun k => k ++ sub_ids)) self F) x =
    if Nat.eqb start x then Some (mkobj (KGrp gc gcv (gk ++ sub_ids)) gp)
    else if Nat.eqb self x then Some (mkobj (KGrp sc scv (F toks)) sp)
    else hget h x.
Proof.
  rewrite !upd_kids_get. destruct (Nat.eqb start x) eqn:E.
  - apply Nat.eqb_eq in E. subst x. rewrite Nat.eqb_sym, Hne, Hstart. reflexivity.
  - destruct (Nat.eqb self x) eqn:E2; [|reflexivity]. apply Nat.eqb_eq in E2. subst x. rewrite Hself. reflexivity.
Qed.

Lemma eb_h4_get x :
  hget (set_parents (set_cached (upd_kids (upd_kids h start (fun k => k ++ sub_ids)) self F) start txt)
          sub_ids (Some start)) x =
    if Nat.eqb start x then Some (mkobj (KGrp gc txt (gk ++ sub_ids)) gp)
    else if Nat.eqb self x then Some (mkobj (KGrp sc scv (F toks)) sp)
    else if memb x sub_ids then reparent (Some start) (hget h x) else hget h x.
Proof.
  rewrite set_parents_get, set_cached_get, eb_h2_get. destruct (Nat.eqb start x) eqn:E.
  - apply Nat.eqb_eq in E. subst x. rewrite (proj2 (memb_false start sub_ids) Hstart_sub). reflexivity.
  - destruct (Nat.eqb self x) eqn:E2.
    + apply Nat.eqb_eq in E2. subst x. rewrite (proj2 (memb_false self sub_ids) Hself_sub). reflexivity.
    + reflexivity.
Qed.
End ExtBranch.

Lemma NoDup_cons_neq {A} (a : A) l i : NoDup (a :: l) -> In i l -> i <> a.
Proof. intros H Hi ->. inversion H; subst. contradiction. Qed.

Lemma it_upd_ext s f f' c cv ks t :
  NoDup (ids t) -> it_find s t = Some (IGrp s c cv ks) -> f ks = f' ks -> it_upd s f t = it_upd s f' t.
Proof.
  induction t as [i ty v|i c0 cv0 kids IH] using itree_ind'; intros Hn Hf He; [reflexivity|].
  rewrite !it_upd_grp. destruct (Nat.eqb i s) eqn:E.
  - rewrite it_find_grp, E in Hf. injection Hf as -> -> -> ->. rewrite He. reflexivity.
  - destruct (find_split _ _ _ _ _ _ Hn E Hf) as (pre & k & post & Hkids & Hk & Hnk & Hmap & _).
    rewrite !Hmap. subst kids. rewrite Forall_forall in IH. rewrite (IH k (in_elt k pre post) Hnk Hk He). reflexivity.
Qed.

Lemma split_at_len {A} (a0 : list A) x post pos :
  length a0 = pos -> firstn (S pos) (a0 ++ x :: post) = a0 ++ [x] /\ skipn (S pos) (a0 ++ x :: post) = post.
Proof.
  intros <-. replace (a0 ++ x :: post) with ((a0 ++ [x]) ++ post) by (rewrite <- app_assoc; reflexivity).
  replace (S (length a0)) with (length (a0 ++ [x])) by (rewrite app_length; cbn; lia).
  split; [apply firstn_app_len|apply skipn_app_len].
Qed.

(* the extend branch on a well-formed heap *)
Lemma group_ext_tree h root t self sc scv toks sp a b pos start gc gcv gk gp :
  wf_tree h root t -> hget h self = Some (mkobj (KGrp sc scv toks) sp) ->
  py_index (length toks) a = Some pos -> nth_error toks pos = Some start -> a <> (-1)%Z ->
  hget h start = Some (mkobj (KGrp gc gcv gk) gp) ->
  exists ks A gks sub R,
    it_find self t = Some (IGrp self sc scv ks) /\ toks = map iid ks
    /\ ks = A ++ IGrp start gc gcv gks :: sub ++ R /\ length A = pos
    /\ sub = py_slice ks (a + 1) b /\ py_slice toks (a + 1) b = map iid sub
    /\ (forall g0 c, cls_eqb gc c || cls_eqb c CTokenList = true ->
          it_group_kids g0 c a b true ks = A ++ IGrp start gc (flat_map itext (gks ++ sub)) (gks ++ sub) :: R)
    /\ h_str (upd_kids (upd_kids h start (fun k => k ++ map iid sub)) self (fun k => py_slice_del k (a + 1) b)) start
       = Some (flat_map itext (gks ++ sub))
    /\ wf_tree (set_parents (set_cached (upd_kids (upd_kids h start (fun k => k ++ map iid sub)) self
                                          (fun k => py_slice_del k (a + 1) b)) start (flat_map itext (gks ++ sub)))
                 (map iid sub) (Some start))
         root
         (it_upd self (fun _ => A ++ IGrp start gc (flat_map itext (gks ++ sub)) (gks ++ sub) :: R) t).
Proof.
  intros W Hself Hidx Hnth Ha Hstart.
  destruct (tree_grp _ _ _ _ _ _ _ _ W Hself) as (ks & Hf & Htoks & Hrs & Hincl & Hnd).
  assert (Hlen : length toks = length ks) by (subst toks; apply map_length).
  assert (Hnth' : exists st, nth_error ks pos = Some st /\ iid st = start).
  { subst toks. rewrite nth_error_map in Hnth. destruct (nth_error ks pos) as [st|]; [|discriminate].
    injection Hnth as E. exists st. split; [reflexivity|exact E]. }
  destruct Hnth' as (st & Hst & Hid).
  destruct (nth_error_split' _ _ _ Hst) as [Hsplit HlenA].
  set (A := firstn pos ks) in *. set (post := skipn (S pos) ks) in *.
  pose proof Hrs as Hrs'. apply repr_grp in Hrs'. destruct Hrs' as [_ Hkids].
  assert (Hrst : repr h (Some self) st).
  { rewrite Forall_forall in Hkids. apply Hkids. eapply nth_error_In; exact Hst. }
  destruct st as [i ty v|i gc' gcv' gks]; cbn [iid] in Hid; subst i.
  { cbn [repr] in Hrst. congruence. }
  pose proof Hrst as Hrst'. apply repr_grp in Hrst'. destruct Hrst' as [Hst1 Hgks]. rewrite Hstart in Hst1.
  injection Hst1 as E1 E2 E3 E4. subst gc' gcv' gk gp.
  set (hi := py_bound (length ks) b).
  assert (Hlo : py_bound (length ks) (a + 1) = S pos) by (rewrite <- Hlen; apply py_bound_succ; assumption).
  set (m := hi - S pos). set (sub := firstn m post). set (R := skipn m post).
  assert (Hpost : post = sub ++ R) by (symmetry; apply firstn_skipn).
  assert (Hsl : py_slice ks (a + 1) b = sub) by (unfold py_slice; rewrite Hlo; reflexivity).
  assert (Hsubids : py_slice toks (a + 1) b = map iid sub).
  { rewrite <- Hsl. subst toks. unfold py_slice. rewrite map_length, map_slice_nat. reflexivity. }
  assert (Hks : ks = A ++ IGrp start gc gcv gks :: sub ++ R) by (rewrite <- Hpost; exact Hsplit).
  exists ks, A, gks, sub, R. split; [exact Hf|]. split; [exact Htoks|]. split; [exact Hks|].
  split; [exact HlenA|]. split; [symmetry; exact Hsl|]. split; [exact Hsubids|].
  split.
  { intros g0 c0 Hinst. unfold it_group_kids. rewrite <- Hlen, Hidx, Hst.
    replace (true && it_inst (IGrp start gc gcv gks) c0) with true by (symmetry; exact Hinst).
    rewrite Hsl. fold A post. set (G := IGrp start gc (flat_map itext (gks ++ sub)) (gks ++ sub)).
    assert (HlenL : length (A ++ G :: post) = length ks).
    { rewrite Hsplit at 1. rewrite !app_length. reflexivity. }
    unfold py_slice_assign. rewrite HlenL, Hlo. fold hi. unfold splice_nat. cbn [app].
    destruct (split_at_len A G post pos HlenA) as [H1 H2]. rewrite H1.
    replace (Nat.max (S pos) hi) with (m + S pos) by (unfold m; lia). rewrite skipn_add, H2.
    fold R. rewrite <- app_assoc. reflexivity. }
  (* the parts of the child list *)
  rewrite Hks in Hkids. apply Forall_app in Hkids. destruct Hkids as [HA Hkids].
  apply Forall_cons_iff in Hkids. destruct Hkids as [_ Hkids']. apply Forall_app in Hkids'. destruct Hkids' as [Hsub HR].
  pose proof Hnd as Hnd'. rewrite ids_grp in Hnd'.
  assert (Hflat : flat_map ids ks = flat_map ids A ++ (start :: flat_map ids gks) ++ flat_map ids sub ++ flat_map ids R).
  { rewrite Hks at 1. rewrite flat_map_app. cbn [flat_map ids]. rewrite flat_map_app. reflexivity. }
  rewrite Hflat in Hnd'.
  pose proof (nodup_parts _ _ _ _ _ Hnd') as (Hn2 & Hnsub & Hd1 & Hd2).
  assert (Hall : forall i, In i (flat_map ids A ++ (start :: flat_map ids gks) ++ flat_map ids sub ++ flat_map ids R) -> i <> self)
    by (intros i Hi; eapply NoDup_cons_neq; eassumption).
  assert (Hss : Nat.eqb start self = false).
  { apply Nat.eqb_neq. apply Hall. apply in_or_app. right. left. reflexivity. }
  assert (Hstart_sub : ~ In start (map iid sub)).
  { intros Hx. apply iid_in_flat in Hx. destruct (Hd1 start Hx) as [_ Hn]. apply Hn. left. reflexivity. }
  assert (Hself_sub : ~ In self (map iid sub)).
  { intros Hx. apply iid_in_flat in Hx. destruct (Hd1 self Hx) as [Hn _]. apply Hn. reflexivity. }
  set (F := fun k : list id => py_slice_del k (a + 1) b).
  assert (HF : F toks = map iid (A ++ IGrp start gc (flat_map itext (gks ++ sub)) (gks ++ sub) :: R)).
  { unfold F, py_slice_del, py_slice_assign. rewrite Hlen, Hlo. fold hi. unfold splice_nat. cbn [app].
    rewrite Htoks, firstn_map, skipn_map, <- map_app.
    assert (H1 : firstn (S pos) ks = A ++ [IGrp start gc gcv gks]).
    { rewrite Hsplit at 1. rewrite <- HlenA at 1. replace (S (length A)) with (length (A ++ [IGrp start gc gcv gks])) by (rewrite app_length; cbn; lia).
      replace (A ++ IGrp start gc gcv gks :: post) with ((A ++ [IGrp start gc gcv gks]) ++ post) by (rewrite <- app_assoc; reflexivity).
      apply firstn_app_len. }
    assert (H2 : skipn (Nat.max (S pos) hi) ks = R).
    { replace (Nat.max (S pos) hi) with (m + S pos) by (unfold m; lia). rewrite skipn_add. reflexivity. }
    rewrite H1, H2, <- app_assoc, !map_app. reflexivity. }
  assert (Hh2 : forall x, hget (upd_kids (upd_kids h start (fun k => k ++ map iid sub)) self F) x =
            if Nat.eqb start x then Some (mkobj (KGrp gc gcv (map iid gks ++ map iid sub)) (Some self))
            else if Nat.eqb self x then Some (mkobj (KGrp sc scv (F toks)) sp) else hget h x).
  { intros x. apply eb_h2_get; assumption. }
  assert (Hgks_ne : forall i, In i (flat_map ids gks) -> i <> start /\ i <> self /\ ~ In i (flat_map ids sub)).
  { intros i Hi. split; [eapply NoDup_cons_neq; eassumption|]. split.
    - apply Hall. apply in_or_app. right. right. apply in_or_app. left. exact Hi.
    - intros Hs. destruct (Hd1 i Hs) as [_ Hn]. apply Hn. right. exact Hi. }
  assert (Hsub_ne : forall i, In i (flat_map ids sub) -> i <> start /\ i <> self).
  { intros i Hi. destruct (Hd1 i Hi) as [H1 H2]. split; [intros ->; apply H2; left; reflexivity|exact H1]. }
  split.
  - apply (shape_str _ (IGrp start gc gcv (gks ++ sub))).
    + apply shape_grp. split; [exists (Some self); rewrite Hh2, Nat.eqb_refl, map_app; reflexivity|].
      apply Forall_app. split; rewrite Forall_forall in *; intros k Hk.
      * apply (shape_frame h); [|eapply repr_shape; apply Hgks, Hk]. intros i Hi. rewrite Hh2.
        assert (Hig : In i (flat_map ids gks)) by (apply in_flat_map; exists k; split; assumption).
        destruct (Hgks_ne i Hig) as (N1 & N2 & _).
        replace (Nat.eqb start i) with false by (symmetry; apply Nat.eqb_neq; congruence).
        replace (Nat.eqb self i) with false by (symmetry; apply Nat.eqb_neq; congruence). reflexivity.
      * apply (shape_frame h); [|eapply repr_shape; apply Hsub, Hk]. intros i Hi. rewrite Hh2.
        assert (Hig : In i (flat_map ids sub)) by (apply in_flat_map; exists k; split; assumption).
        destruct (Hsub_ne i Hig) as (N1 & N2).
        replace (Nat.eqb start i) with false by (symmetry; apply Nat.eqb_neq; congruence).
        replace (Nat.eqb self i) with false by (symmetry; apply Nat.eqb_neq; congruence). reflexivity.
    + rewrite ids_grp, flat_map_app. change (NoDup ((start :: flat_map ids gks) ++ flat_map ids sub)).
      apply NoDup_app_intro; [exact Hn2|exact Hnsub|]. intros x Hx1 Hx2. destruct (Hd1 x Hx2) as [_ Hn]. exact (Hn Hx1).
  - set (txt := flat_map itext (gks ++ sub)).
    set (h' := set_parents _ _ _).
    assert (Hget : forall x, hget h' x =
              if Nat.eqb start x then Some (mkobj (KGrp gc txt (map iid gks ++ map iid sub)) (Some self))
              else if Nat.eqb self x then Some (mkobj (KGrp sc scv (F toks)) sp)
              else if memb x (map iid sub) then reparent (Some start) (hget h x) else hget h x).
    { intros x. eapply eb_h4_get; eassumption. }
    apply (upd_wf_tree h h' root t self sc scv ks _ [] W Hf).
    + intros ps Hps. rewrite (repr_parent_unique _ _ _ _ Hps Hrs). cbv beta.
      apply (regroup_repr h h' self sp sc scv A sub R start gc txt gks); try assumption.
      * intros i Hi. apply in_app_or in Hi. destruct Hi as [Hi|Hi]; [|apply in_app_or in Hi; destruct Hi as [Hi|Hi]].
        -- destruct (Hd2 i (in_or_app _ _ i (or_introl Hi))) as (N1 & N2 & N3).
           split; [intros ->; apply N3; left; reflexivity|]. split; assumption.
        -- apply Hgks_ne, Hi.
        -- destruct (Hd2 i (in_or_app _ _ i (or_intror Hi))) as (N1 & N2 & N3).
           split; [intros ->; apply N3; left; reflexivity|]. split; assumption.
      * rewrite Hget, Nat.eqb_refl, map_app. reflexivity.
      * rewrite Hget, Hss, Nat.eqb_refl, HF. reflexivity.
      * intros x Hx. rewrite Hget. destruct (Hsub_ne x (iid_in_flat _ _ Hx)) as [N1 N2].
        replace (Nat.eqb start x) with false by (symmetry; apply Nat.eqb_neq; congruence).
        replace (Nat.eqb self x) with false by (symmetry; apply Nat.eqb_neq; congruence).
        rewrite (proj2 (memb_In x (map iid sub)) Hx). reflexivity.
      * intros x N1 N2 N3. rewrite Hget.
        replace (Nat.eqb start x) with false by (symmetry; apply Nat.eqb_neq; congruence).
        replace (Nat.eqb self x) with false by (symmetry; apply Nat.eqb_neq; congruence).
        rewrite (proj2 (memb_false x (map iid sub)) N3). reflexivity.
    + intros i Hi Hni. rewrite ids_grp, Hflat in Hni. rewrite Hget.
      replace (Nat.eqb start i) with false
        by (symmetry; apply Nat.eqb_neq; intros E; apply Hni; right; apply in_or_app; right; left; exact E).
      replace (Nat.eqb self i) with false by (symmetry; apply Nat.eqb_neq; intros E; apply Hni; left; exact E).
      replace (memb i (map iid sub)) with false; [reflexivity|]. symmetry. apply memb_false. intros Hm. apply Hni.
      right. apply in_or_app. right. apply in_or_app. right. apply in_or_app. left. apply iid_in_flat, Hm.
    + cbv beta. cbn [app]. rewrite Hflat, !flat_map_app. cbn [flat_map ids]. rewrite flat_map_app.
      cbn [app]. rewrite <- app_assoc. apply Permutation_refl.
    + intros i [].
    + constructor.
    + intros i Hi. left. rewrite Hget in Hi. destruct (Nat.eqb start i) eqn:E1; [apply Nat.eqb_eq in E1; subst i; congruence|].
      destruct (Nat.eqb self i) eqn:E2; [apply Nat.eqb_eq in E2; subst i; congruence|].
      destruct (memb i (map iid sub)); [|exact Hi]. destruct (hget h i); [discriminate|exact Hi].
Qed.

Lemma inst_shape h st c : shape h st -> h_isinstance h (iid st) c = it_inst st c.
Proof.
  destruct st as [i ty v|i c' cv kids]; intros H; unfold h_isinstance; cbn [iid].
  - destruct H as [p H]. rewrite H. reflexivity.
  - apply shape_grp in H. destruct H as [[p H] _]. rewrite H. reflexivity.
Qed.

Lemma find_first_skip {A B} (f : A -> option B) pre l :
  Forall (fun x => f x = None) pre -> find_first f (pre ++ l) = find_first f l.
Proof. induction 1 as [|x pre Hx _ IH]; [reflexivity|]. cbn [app find_first]. rewrite Hx. exact IH. Qed.

Lemma it_find_upd_self s f c cv ks t :
  NoDup (ids t) -> it_find s t = Some (IGrp s c cv ks) -> it_find s (it_upd s f t) = Some (IGrp s c cv (f ks)).
Proof.
  induction t as [i ty v|i c0 cv0 kids IH] using itree_ind'; intros Hn Hf.
  - rewrite it_find_leaf in Hf. destruct (Nat.eqb i s); discriminate.
  - rewrite it_upd_grp. destruct (Nat.eqb i s) eqn:E.
    + rewrite it_find_grp, E in Hf. injection Hf as -> -> -> ->. rewrite it_find_grp, Nat.eqb_refl. reflexivity.
    + destruct (find_split _ _ _ _ _ _ Hn E Hf) as (pre & k & post & Hkids & Hk & Hnk & Hmap & _ & Hpre).
      rewrite it_find_grp, E, Hmap, (find_first_skip _ pre _ Hpre). cbn [find_first].
      rewrite Forall_forall in IH. subst kids. rewrite (IH k (in_elt k pre post) Hnk Hk). reflexivity.
Qed.

(* ---- group_tokens on the decorated tree ------------------------------------------------------------ *)
(* The heap operation is the tree operation it_group_kids at the node `self`; the normal form of the
   new child list is  A ++ IGrp g gc (text) (old ++ moved) :: R  where the old child list was
   A ++ moved ++ R (new group: old = [], g fresh) or A ++ IGrp g gc _ old :: moved ++ R (extend). *)
Theorem h_group_tokens_tree h root t self c a b ext h' g :
  wf_tree h root t -> h_group_tokens h self c a b ext = Ok (h', g) ->
  (a <> (-1)%Z \/ h_extend_taken h self c a ext = false) ->
  exists sc scv ks A gc old moved R,
    it_find self t = Some (IGrp self sc scv ks)
    /\ py_index (length ks) a = Some (length A)
    /\ it_group_kids (fresh h) c a b ext ks = A ++ IGrp g gc (flat_map itext (old ++ moved)) (old ++ moved) :: R
    /\ ((h_extend_taken h self c a ext = false /\ old = [] /\ ks = A ++ moved ++ R /\ g = fresh h /\ gc = c
         /\ moved = py_slice ks a b)
        \/ (h_extend_taken h self c a ext = true /\ exists gcv, ks = A ++ IGrp g gc gcv old :: moved ++ R
            /\ moved = py_slice ks (a + 1) b))
    /\ wf_tree h' root (it_upd self (it_group_kids (fresh h) c a b ext) t).
Proof.
  intros W Hg Hpre. unfold h_group_tokens, h_group_tokens_gen in Hg.
  destruct (hget h self) as [[sk sp]|] eqn:Hself; [|discriminate]. cbn [okind_of] in Hg.
  destruct sk as [ty v|sc scv toks]; [discriminate|].
  destruct (py_index (length toks) a) as [pos|] eqn:Hidx; [|discriminate].
  destruct (nth_error toks pos) as [start|] eqn:Hnth; [|discriminate].
  assert (Htaken : h_extend_taken h self c a ext = ext && h_isinstance h start c).
  { unfold h_extend_taken. rewrite Hself, Hidx, Hnth. reflexivity. }
  pose proof W as (_ & _ & Hnt & _).
  destruct (ext && h_isinstance h start c) eqn:Hcond.
  - destruct Hpre as [Ha|Hx]; [|congruence].
    apply andb_true_iff in Hcond. destruct Hcond as [-> Hinst].
    unfold h_isinstance in Hinst. destruct (hget h start) as [[k gp]|] eqn:Hstart; [|discriminate].
    destruct k as [ty v|gc gcv gk]; [discriminate|]. cbn [okind_of kind_inst] in Hinst.
    destruct (group_ext_tree _ _ _ _ _ _ _ _ _ b _ _ _ _ _ _ W Hself Hidx Hnth Ha Hstart)
      as (ks & A & gks & sub & R & Hf & Htoks & Hks & HlenA & Hsub & Hsubids & Hnf & Hstr & Hwf).
    rewrite Hsubids, Hstr in Hg. injection Hg as <- <-.
    exists sc, scv, ks, A, gc, gks, sub, R. split; [exact Hf|].
    split; [rewrite HlenA, <- Hidx, Htoks, map_length; reflexivity|]. split; [apply Hnf, Hinst|].
    split; [right; split; [exact Htaken|]; exists gcv; split; assumption|].
    rewrite (it_upd_ext self _ (fun _ => A ++ IGrp start gc (flat_map itext (gks ++ sub)) (gks ++ sub) :: R) sc scv ks t Hnt Hf);
      [exact Hwf|apply Hnf, Hinst].
  - destruct (group_new_tree _ _ _ _ _ _ _ _ c a b W Hself) as (ks & Hf & Htoks & h1 & Hng & Hwf).
    rewrite Hng in Hg. injection Hg as <- <-.
    destruct (tree_grp _ _ _ _ _ _ _ _ W Hself) as (ks' & Hf' & _ & Hrs & _ & _).
    rewrite Hf in Hf'. injection Hf' as <-.
    assert (Hlen : length toks = length ks) by (subst toks; apply map_length).
    assert (Hst : exists st, nth_error ks pos = Some st /\ iid st = start).
    { subst toks. rewrite nth_error_map in Hnth. destruct (nth_error ks pos) as [st|]; [|discriminate].
      injection Hnth as E. exists st. split; [reflexivity|exact E]. }
    destruct Hst as (st & Hst & Hid).
    assert (Hshape : shape h st).
    { apply repr_grp in Hrs. destruct Hrs as [_ Hkids]. rewrite Forall_forall in Hkids.
      eapply repr_shape. apply Hkids. eapply nth_error_In; exact Hst. }
    assert (Hnf : it_group_kids (fresh h) c a b ext ks =
                  py_slice_assign ks a b [IGrp (fresh h) c (flat_map itext (py_slice ks a b)) (py_slice ks a b)]).
    { unfold it_group_kids. rewrite <- Hlen, Hidx, Hst. rewrite <- (inst_shape h st c Hshape), Hid, Hcond. reflexivity. }
    exists sc, scv, ks, (firstn (py_bound (length ks) a) ks), c, [], (py_slice ks a b),
           (skipn (Nat.max (py_bound (length ks) a) (py_bound (length ks) b)) ks).
    split; [exact Hf|].
    split; [rewrite <- Hlen, Hidx, firstn_length, (py_bound_index _ _ _ Hidx); f_equal;
            pose proof (py_index_lt _ _ _ Hidx); lia|].
    split; [rewrite Hnf; reflexivity|]. split.
    + left. split; [exact Htaken|]. split; [reflexivity|]. split; [apply slice_split|]. repeat split; reflexivity.
    + rewrite (it_upd_ext self (it_group_kids (fresh h) c a b ext)
                 (fun ks => py_slice_assign ks a b [IGrp (fresh h) c (flat_map itext (py_slice ks a b)) (py_slice ks a b)])
                 sc scv ks t Hnt Hf Hnf). exact Hwf.
Qed.

(* ---- the local invariants determine a decorated tree ----------------------------------------------- *)
Lemma chain_depth_unique h root : wf_heap h root ->
  forall n x m, chain n h x = Some root -> chain m h x = Some root -> n = m.
Proof.
  intros W. destruct (wf_root _ _ W) as [kr Hr].
  induction n as [|n IH]; intros x m H1 H2.
  - cbn [chain] in H1. injection H1 as ->. destruct m as [|m]; [reflexivity|].
    cbn [chain] in H2. rewrite Hr in H2. discriminate.
  - cbn [chain] in H1. destruct (hget h x) as [o|] eqn:Ex; [|discriminate].
    destruct (oparent o) as [p|] eqn:Ep; [|discriminate].
    destruct m as [|m].
    + cbn [chain] in H2. injection H2 as ->. rewrite Hr in Ex. injection Ex as <-. discriminate.
    + cbn [chain] in H2. rewrite Ex, Ep in H2. f_equal. eapply IH; eassumption.
Qed.

Lemma depth_bound h root : wf_heap h root ->
  exists H, forall i o, hget h i = Some o -> exists n, n <= H /\ chain n h i = Some root.
Proof.
  intros W.
  assert (Hl : forall l, (forall i, In i l -> hget h i <> None) ->
               exists H, forall i, In i l -> exists n, n <= H /\ chain n h i = Some root).
  { induction l as [|a l IH]; intros Hin.
    - exists 0. intros i [].
    - destruct IH as [H IH]; [intros i Hi; apply Hin; right; exact Hi|].
      destruct (hget h a) as [o|] eqn:Ea; [|exfalso; apply (Hin a); [left; reflexivity|exact Ea]].
      destruct (wf_reach _ _ W a o Ea) as [n Hn]. exists (Nat.max H n). intros i [<-|Hi].
      + exists n. split; [lia|exact Hn].
      + destruct (IH i Hi) as (k & Hk & Hc). exists k. split; [lia|exact Hc]. }
  destruct (Hl (map fst h)) as [H HH]; [intros i Hi; apply hget_dom, Hi|].
  exists H. intros i o Hi. apply HH. apply hget_dom. congruence.
Qed.

Lemma NoDup_flat_map_intro ks :
  NoDup (map iid ks) -> (forall k, In k ks -> NoDup (ids k)) ->
  (forall k1 k2 x, In k1 ks -> In k2 ks -> In x (ids k1) -> In x (ids k2) -> iid k1 = iid k2) ->
  NoDup (flat_map ids ks).
Proof.
  induction ks as [|a l IH]; cbn [map flat_map]; intros Hn Hk Hd; [constructor|].
  inversion Hn as [|? ? Ha Hn']; subst. apply NoDup_app_intro.
  - apply Hk. left. reflexivity.
  - apply IH; [exact Hn'|intros k Hin; apply Hk; right; exact Hin|].
    intros k1 k2 x H1 H2. apply Hd; right; assumption.
  - intros x Hx1 Hx2. apply in_flat_map in Hx2. destruct Hx2 as (k2 & Hk2 & Hx2).
    apply Ha. rewrite (Hd a k2 x (or_introl eq_refl) (or_intror Hk2) Hx1 Hx2). apply in_map, Hk2.
Qed.

Lemma chain_step h x o p n y : hget h x = Some o -> oparent o = Some p -> chain n h p = Some y -> chain (S n) h x = Some y.
Proof. intros H1 H2 H3. cbn [chain]. rewrite H1, H2. exact H3. Qed.

Lemma build_tree h root H : wf_heap h root ->
  (forall i o, hget h i = Some o -> exists n, n <= H /\ chain n h i = Some root) ->
  forall k i o n, hget h i = Some o -> chain n h i = Some root -> H - n <= k ->
  exists t, iid t = i /\ repr h (oparent o) t /\ NoDup (ids t)
            /\ (forall x, In x (ids t) -> exists m, chain m h x = Some i).
Proof.
  intros W HB. induction k as [|k IH]; intros i [[ty v|c cv kids] p] n Hi Hn Hk; cbn [oparent].
  1,3: exists (ILeaf i ty v); split; [reflexivity|]; split; [exact Hi|]; split;
       [constructor; [intros []|constructor]|intros x [<-|[]]; exists 0; reflexivity].
  - (* a group at the maximal depth has no children *)
    destruct kids as [|c0 kids].
    + exists (IGrp i c cv []). split; [reflexivity|]. split; [apply repr_grp; split; [exact Hi|constructor]|].
      split; [constructor; [intros []|constructor]|intros x [<-|[]]; exists 0; reflexivity].
    + exfalso. destruct (wf_child _ _ W i (c0 :: kids) c0 (ex_intro _ c (ex_intro _ cv (ex_intro _ p Hi))) (or_introl eq_refl)) as [k0 Hc0].
      destruct (HB _ _ Hc0) as (n0 & Hn0 & Hch0).
      pose proof (chain_step h c0 _ i n root Hc0 eq_refl Hn) as Hch1.
      pose proof (chain_depth_unique h root W _ _ _ Hch0 Hch1). lia.
  - (* build the children one by one *)
    assert (Hg : is_grp h i kids) by (exists c, cv, p; exact Hi).
    assert (Hkids : forall l, incl l kids -> NoDup l ->
              exists ks, map iid ks = l /\ Forall (repr h (Some i)) ks /\ Forall (fun t => NoDup (ids t)) ks
                         /\ Forall (fun t => forall x, In x (ids t) -> exists m, chain m h x = Some (iid t)) ks).
    { induction l as [|c0 l IHl]; intros Hincl Hnd.
      - exists []. repeat split; constructor.
      - inversion Hnd as [|? ? _ Hnd']; subst.
        destruct IHl as (ks & Hm & H1 & H2 & H3); [intros x Hx; apply Hincl; right; exact Hx|exact Hnd'|].
        destruct (wf_child _ _ W i kids c0 Hg (Hincl c0 (or_introl eq_refl))) as [k0 Hc0].
        pose proof (chain_step h c0 _ i n root Hc0 eq_refl Hn) as Hch1.
        destruct (HB _ _ Hc0) as (n0 & Hn0 & Hch0).
        pose proof (chain_depth_unique h root W _ _ _ Hch0 Hch1). subst n0.
        destruct (IH c0 _ (S n) Hc0 Hch1) as (t0 & Hid & Hr & Hn0' & Hx0); [lia|].
        exists (t0 :: ks). cbn [map oparent] in *. split; [rewrite Hid, Hm; reflexivity|].
        split; [constructor; assumption|]. split; [constructor; assumption|].
        constructor; [rewrite Hid; exact Hx0|exact H3]. }
    destruct (Hkids kids (incl_refl _) (wf_nodup _ _ W i kids Hg)) as (ks & Hm & H1 & H2 & H3).
    exists (IGrp i c cv ks). split; [reflexivity|]. split; [apply repr_grp; split; [rewrite Hm; exact Hi|exact H1]|].
    rewrite Forall_forall in H1, H2, H3.
    assert (Hdepth : forall k0 x, In k0 ks -> In x (ids k0) -> exists m, chain (m + S n) h x = Some root /\ chain m h x = Some (iid k0)).
    { intros k0 x Hk0 Hx. destruct (H3 k0 Hk0 x Hx) as [m Hm0]. exists m. split; [|exact Hm0].
      eapply chain_add; [exact Hm0|]. destruct (repr_root _ _ _ (H1 k0 Hk0)) as [kk Hkk].
      eapply chain_step; [exact Hkk|reflexivity|exact Hn]. }
    split.
    + rewrite ids_grp. constructor.
      * intros Hx. apply in_flat_map in Hx. destruct Hx as (k0 & Hk0 & Hx).
        destruct (Hdepth k0 i Hk0 Hx) as (m & Hm1 & _).
        pose proof (chain_depth_unique h root W _ _ _ Hm1 Hn). lia.
      * apply NoDup_flat_map_intro.
        -- rewrite Hm. apply (wf_nodup _ _ W i kids Hg).
        -- exact H2.
        -- intros k1 k2 x Hk1 Hk2 Hx1 Hx2.
           destruct (Hdepth k1 x Hk1 Hx1) as (m1 & Hd1 & Hc1). destruct (Hdepth k2 x Hk2 Hx2) as (m2 & Hd2 & Hc2).
           pose proof (chain_depth_unique h root W _ _ _ Hd1 Hd2) as E. assert (m1 = m2) by lia. subst m2. congruence.
    + intros x Hx. rewrite ids_grp in Hx. destruct Hx as [<-|Hx]; [exists 0; reflexivity|].
      apply in_flat_map in Hx. destruct Hx as (k0 & Hk0 & Hx). destruct (H3 k0 Hk0 x Hx) as [m Hm0].
      exists (m + 1). eapply chain_add; [exact Hm0|]. destruct (repr_root _ _ _ (H1 k0 Hk0)) as [kk Hkk].
      cbn [chain]. rewrite Hkk. reflexivity.
Qed.

Lemma repr_closed h t : forall q p kids x, repr h q t -> In p (ids t) -> is_grp h p kids -> In x kids -> In x (ids t).
Proof.
  induction t as [i ty v|i c cv ks IH] using itree_ind'; intros q p kids x Hr Hp (gc & gcv & gp & Hg) Hx.
  - destruct Hp as [<-|[]]. cbn [repr] in Hr. congruence.
  - pose proof Hr as Hr'. apply repr_grp in Hr'. destruct Hr' as [H1 H2]. rewrite ids_grp in *. destruct Hp as [<-|Hp].
    + rewrite Hg in H1. injection H1 as _ _ -> _. right. apply iid_in_flat, Hx.
    + right. apply in_flat_map in Hp. destruct Hp as (k & Hk & Hp). apply in_flat_map. exists k. split; [exact Hk|].
      rewrite Forall_forall in *. eapply (IH k Hk); [apply H2, Hk|exact Hp|exists gc, gcv, gp; exact Hg|exact Hx].
Qed.

Theorem wf_heap_tree h root : wf_heap h root -> exists t, wf_tree h root t.
Proof.
  intros W. destruct (depth_bound h root W) as [H HB]. destruct (wf_root _ _ W) as [kr Hr].
  destruct (build_tree h root H W HB H root _ 0 Hr eq_refl) as (t & Hid & Hrep & Hnd & _); [lia|].
  exists t. split; [exact Hid|]. split; [exact Hrep|]. split; [exact Hnd|].
  intros i Hi. destruct (hget h i) as [o|] eqn:Ei; [|congruence]. clear Hi.
  destruct (wf_reach _ _ W i o Ei) as [n Hn]. revert i o Ei Hn.
  induction n as [|n IH]; intros i o Ei Hn.
  - cbn [chain] in Hn. injection Hn as ->. rewrite <- Hid. apply iid_in_ids.
  - cbn [chain] in Hn. rewrite Ei in Hn. destruct o as [k [p|]]; cbn [oparent] in Hn; [|discriminate].
    destruct (wf_parent _ _ W i k p Ei) as (kids & Hg & Hin).
    destruct Hg as (gc & gcv & gp & Hg).
    eapply repr_closed; [exact Hrep|eapply IH; [exact Hg|exact Hn]|exists gc, gcv, gp; exact Hg|exact Hin].
Qed.

Theorem wf_heap_iff_tree h root : wf_heap h root <-> exists t, wf_tree h root t.
Proof. split; [apply wf_heap_tree|intros [t W]; eapply wf_tree_heap; exact W]. Qed.

(* ---- group_tokens on well-formed heaps: the user-facing statements ---------------------------------- *)
Lemma py_slice_map {A B} (f : A -> B) l a b : map f (py_slice l a b) = py_slice (map f l) a b.
Proof. unfold py_slice. rewrite map_length. apply map_slice_nat. Qed.

Lemma group_kids_leaves (B : Type) (f : itree -> list B) ks A g gc gcv txt old moved R :
  (forall i c cv kids, f (IGrp i c cv kids) = flat_map f kids) ->
  (old = [] /\ ks = A ++ moved ++ R) \/ ks = A ++ IGrp g gc gcv old :: moved ++ R ->
  flat_map f (A ++ IGrp g gc txt (old ++ moved) :: R) = flat_map f ks.
Proof.
  intros Hf [[-> ->]| ->]; rewrite !flat_map_app; cbn [flat_map app]; rewrite ?Hf, ?flat_map_app.
  - reflexivity.
  - rewrite <- app_assoc. reflexivity.
Qed.

Theorem h_group_tokens_wf h root self c a b ext h' g :
  wf_heap h root -> h_group_tokens h self c a b ext = Ok (h', g) ->
  (a <> (-1)%Z \/ h_extend_taken h self c a ext = false) ->
  (* (a)-(d) *)
  wf_heap h' root
  (* (e): no ancestor is refreshed, and none needs to be: the text below it is unchanged *)
  /\ (cached_ok_heap h -> cached_ok_heap h')
  (* the leaves under the root: same objects, same order *)
  /\ (exists ls, h_flatten h root = Some ls /\ h_flatten h' root = Some ls)
  /\ h_str h' root = h_str h root.
Proof.
  intros Wh Hg Hpre. destruct (wf_heap_tree _ _ Wh) as [t W].
  destruct (h_group_tokens_tree _ _ _ _ _ _ _ _ _ _ W Hg Hpre)
    as (sc & scv & ks & A & gc & old & moved & R & Hf & _ & Hnf & Hcase & W').
  pose proof W as (Hid & Hr & Hn & _). pose proof W' as (Hid' & Hr' & Hn' & _).
  assert (Hshape : (old = [] /\ ks = A ++ moved ++ R) \/ exists gcv, ks = A ++ IGrp g gc gcv old :: moved ++ R).
  { destruct Hcase as [(_ & H1 & H2 & _)|(_ & gcv & H1 & _)]; [left; split; assumption|right; exists gcv; exact H1]. }
  assert (Hflat : forall (B : Type) (f : itree -> list B),
            (forall i c cv kids, f (IGrp i c cv kids) = flat_map f kids) ->
            f (it_upd self (it_group_kids (fresh h) c a b ext) t) = f t).
  { intros B f Hfg. apply (upd_flat B f self _ sc scv ks t Hfg Hn Hf). rewrite Hnf.
    destruct Hshape as [H|[gcv H]]; [apply (group_kids_leaves B f ks A g gc [] _ old moved R Hfg); left; exact H
                                    |apply (group_kids_leaves B f ks A g gc gcv _ old moved R Hfg); right; exact H]. }
  split; [eapply wf_tree_heap; exact W'|]. split; [|split].
  - intros Hc. apply (tree_cached _ _ _ W'). apply (tree_cached _ _ _ W) in Hc.
    pose proof (it_find_cached _ _ _ Hc Hf) as Hcs. apply it_cached_ok_grp in Hcs. destruct Hcs as [_ Hck].
    apply (upd_cached self _ sc scv ks t Hn Hf); [rewrite Hnf| |exact Hc].
    + destruct Hshape as [H|[gcv H]]; [apply (group_kids_leaves _ itext ks A g gc [] _ old moved R); [reflexivity|left; exact H]
                                      |apply (group_kids_leaves _ itext ks A g gc gcv _ old moved R); [reflexivity|right; exact H]].
    + rewrite Hnf. destruct Hshape as [[-> ->]|[gcv ->]].
      * apply Forall_app in Hck. destruct Hck as [HA Hck]. apply Forall_app in Hck. destruct Hck as [Hm HR].
        apply Forall_app. split; [exact HA|]. constructor; [|exact HR].
        apply it_cached_ok_grp. split; [reflexivity|exact Hm].
      * apply Forall_app in Hck. destruct Hck as [HA Hck]. apply Forall_cons_iff in Hck. destruct Hck as [Hgo Hck].
        apply Forall_app in Hck. destruct Hck as [Hm HR]. apply it_cached_ok_grp in Hgo. destruct Hgo as [_ Hold].
        apply Forall_app. split; [exact HA|]. constructor; [|exact HR].
        apply it_cached_ok_grp. split; [reflexivity|apply Forall_app; split; assumption].
  - exists (ileaves t). rewrite <- Hid at 1. rewrite <- Hid'.
    rewrite (shape_flatten h t (repr_shape _ _ _ Hr) Hn), (shape_flatten h' _ (repr_shape _ _ _ Hr') Hn').
    rewrite (Hflat _ ileaves); [split; reflexivity|reflexivity].
  - rewrite <- Hid at 2. rewrite <- Hid'.
    rewrite (shape_str h t (repr_shape _ _ _ Hr) Hn), (shape_str h' _ (repr_shape _ _ _ Hr') Hn').
    rewrite (Hflat _ itext); reflexivity.
Qed.

(* the returned object: a child of self, with parent = self; its children are its old ones (extend) followed by
   exactly the moved slice, each of which now names it as parent; its cached value is its text *)
Theorem h_group_tokens_result h root self c a b ext h' g :
  wf_heap h root -> h_group_tokens h self c a b ext = Ok (h', g) ->
  (a <> (-1)%Z \/ h_extend_taken h self c a ext = false) ->
  exists toks toks' gc txt old moved,
    is_grp h self toks /\ is_grp h' self toks' /\ In g toks'
    /\ hget h' g = Some (mkobj (KGrp gc txt (old ++ moved)) (Some self))
    /\ h_str h' g = Some txt
    /\ (forall x, In x moved -> exists k, hget h' x = Some (mkobj k (Some g)))
    /\ ((h_extend_taken h self c a ext = false /\ old = [] /\ gc = c /\ hget h g = None /\ moved = py_slice toks a b)
        \/ (h_extend_taken h self c a ext = true /\ is_grp h g old /\ moved = py_slice toks (a + 1) b)).
Proof.
  intros Wh Hg Hpre. destruct (wf_heap_tree _ _ Wh) as [t W].
  destruct (h_group_tokens_tree _ _ _ _ _ _ _ _ _ _ W Hg Hpre)
    as (sc & scv & ks & A & gc & old & moved & R & Hf & _ & Hnf & Hcase & W').
  pose proof W as (Hid & Hr & Hn & _). pose proof W' as (Hid' & Hr' & Hn' & _).
  destruct (it_find_repr _ _ _ _ _ Hr Hf) as [ps Hrs].
  pose proof (it_find_upd_self self (it_group_kids (fresh h) c a b ext) sc scv ks t Hn Hf) as Hf'.
  rewrite Hnf in Hf'. set (G := IGrp g gc (flat_map itext (old ++ moved)) (old ++ moved)) in *.
  destruct (it_find_repr _ _ _ _ _ Hr' Hf') as [ps' Hrs'].
  pose proof (it_find_nodup _ _ _ Hn' Hf') as Hnd'.
  pose proof Hrs as Hrs0. apply repr_grp in Hrs0. destruct Hrs0 as [Hs1 Hs2].
  pose proof Hrs' as Hrs0'. apply repr_grp in Hrs0'. destruct Hrs0' as [Hs1' Hs2'].
  assert (HG : repr h' (Some self) G).
  { apply Forall_app in Hs2'. destruct Hs2' as [_ H]. apply Forall_cons_iff in H. apply H. }
  pose proof HG as HG0. apply repr_grp in HG0. destruct HG0 as [Hg1 Hg2].
  exists (map iid ks), (map iid (A ++ G :: R)), gc, (flat_map itext (old ++ moved)), (map iid old), (map iid moved).
  split; [exists sc, scv, ps; exact Hs1|]. split; [exists sc, scv, ps'; exact Hs1'|].
  split; [rewrite map_app; apply in_or_app; right; left; reflexivity|].
  split; [rewrite <- map_app; exact Hg1|]. split.
  { apply (shape_str h' G); [eapply repr_shape; exact HG|].
    rewrite ids_grp in Hnd'. inversion Hnd' as [|? ? _ Hnd'']; subst.
    eapply NoDup_flat_map_in; [exact Hnd''|apply in_elt]. }
  split.
  { intros x Hx. apply in_map_iff in Hx. destruct Hx as (k & <- & Hk). apply (repr_root h' (Some g) k).
    rewrite Forall_forall in Hg2. apply Hg2. apply in_or_app. right. exact Hk. }
  destruct Hcase as [(Ht & -> & Hks & -> & -> & Hm)|(Ht & gcv & Hks & Hm)].
  - left. split; [exact Ht|]. split; [reflexivity|]. split; [reflexivity|]. split; [apply fresh_none|].
    rewrite Hm. apply py_slice_map.
  - right. split; [exact Ht|]. split; [|rewrite Hm; apply py_slice_map].
    rewrite Hks in Hs2. apply Forall_app in Hs2. destruct Hs2 as [_ H]. apply Forall_cons_iff in H. destruct H as [H _].
    apply repr_grp in H. destruct H as [H _]. exists gc, gcv, (Some self). exact H.
Qed.

(* ---- refinement: the heap operation commutes with the pure Node.group_tokens ------------------------ *)
(* the object reached from i along a position path *)
Fixpoint h_at (h : heap) (i : id) (p : list nat) : option id :=
  match p with
  | [] => Some i
  | k :: p' =>
      match hget h i with
      | Some (mkobj (KGrp _ _ kids) _) =>
          match nth_error kids k with Some c => h_at h c p' | None => None end
      | _ => None
      end
  end.

Lemma it_path_grp s i c cv kids :
  it_path s (IGrp i c cv kids) =
    if Nat.eqb i s then Some []
    else match find_first_idx (it_path s) kids 0 with Some (k, p) => Some (k :: p) | None => None end.
Proof. reflexivity. Qed.

Lemma find_first_idx_skip {A B} (f : A -> option B) pre l : forall base,
  Forall (fun x => f x = None) pre -> find_first_idx f (pre ++ l) base = find_first_idx f l (base + length pre).
Proof.
  induction pre as [|x pre IH]; intros base H; cbn [app length find_first_idx].
  - rewrite Nat.add_0_r. reflexivity.
  - inversion H as [|? ? Hx Hr]; subst. rewrite Hx, IH by exact Hr. f_equal. lia.
Qed.

Lemma find_first_idx_none {A B} (f : A -> option B) l : forall base,
  Forall (fun x => f x = None) l -> find_first_idx f l base = None.
Proof.
  induction l as [|x l IH]; intros base H; cbn [find_first_idx]; [reflexivity|].
  inversion H as [|? ? Hx Hr]; subst. rewrite Hx. apply IH, Hr.
Qed.

Lemma it_path_none s t : it_find s t = None -> it_path s t = None.
Proof.
  induction t as [i ty v|i c cv kids IH] using itree_ind'.
  - rewrite it_find_leaf. cbn [it_path iid]. destruct (Nat.eqb i s); [discriminate|reflexivity].
  - rewrite it_find_grp, it_path_grp. destruct (Nat.eqb i s); [discriminate|]. intros H.
    apply find_first_none in H. rewrite find_first_idx_none; [reflexivity|].
    rewrite Forall_forall in *. intros x Hx. apply IH; [exact Hx|apply H, Hx].
Qed.

Lemma erase_upd s c cv ks t :
  NoDup (ids t) -> it_find s t = Some (IGrp s c cv ks) ->
  exists p, it_path s t = Some p
    /\ node_at p (erase t) = Some (Grp c cv (map erase ks))
    /\ (forall h q, repr h q t -> h_at h (iid t) p = Some s)
    /\ (forall f, erase (it_upd s f t) = upd_at p (fun _ => map erase (f ks)) (erase t)).
Proof.
  induction t as [i ty v|i c0 cv0 kids IH] using itree_ind'; intros Hn Hf.
  - rewrite it_find_leaf in Hf. destruct (Nat.eqb i s); discriminate.
  - destruct (Nat.eqb i s) eqn:E.
    + rewrite it_find_grp, E in Hf. injection Hf as -> -> -> ->. exists [].
      split; [rewrite it_path_grp, E; reflexivity|]. split; [reflexivity|]. split; [reflexivity|].
      intros f. rewrite it_upd_grp, E. reflexivity.
    + destruct (find_split _ _ _ _ _ _ Hn E Hf) as (pre & k & post & Hkids & Hk & Hnk & Hmap & _ & Hpre).
      subst kids. rewrite Forall_forall in IH.
      destruct (IH k (in_elt k pre post) Hnk Hk) as (p' & Hp1 & Hp2 & Hp3 & Hp4). clear IH.
      exists (length pre :: p').
      assert (Hnth : forall (B : Type) (g : itree -> B),
                nth_error (map g (pre ++ k :: post)) (length pre) = Some (g k)).
      { intros B g. rewrite map_app. cbn [map]. rewrite <- (map_length g pre). apply nth_error_app_len. }
      split; [|split; [|split]].
      * rewrite it_path_grp, E, find_first_idx_skip; [cbn [find_first_idx]; rewrite Hp1; reflexivity|].
        rewrite Forall_forall in *. intros x Hx. apply it_path_none, Hpre, Hx.
      * cbn [node_at erase nkids]. rewrite Hnth. exact Hp2.
      * intros h q Hr. apply repr_grp in Hr. destruct Hr as [H1 H2]. cbn [h_at iid]. rewrite H1, Hnth.
        apply (Hp3 h (Some i)). rewrite Forall_forall in H2. apply H2, in_elt.
      * intros f. rewrite it_upd_grp, E, Hmap. cbn [erase upd_at]. rewrite Hnth. f_equal.
        rewrite !map_app. cbn [map]. rewrite <- (map_length erase pre).
        destruct (split_at_len (map erase pre) (erase k) (map erase post) _ eq_refl) as [_ H2].
        rewrite H2, firstn_app_len, Hp4. reflexivity.
Qed.

Lemma firstn_clamp {A} (l : list A) n : firstn (Nat.min n (length l)) l = firstn n l.
Proof.
  destruct (Nat.le_gt_cases n (length l)); [rewrite Nat.min_l by lia; reflexivity|].
  rewrite Nat.min_r by lia. rewrite firstn_all, firstn_all2 by lia. reflexivity.
Qed.

Lemma skipn_clamp {A} (l : list A) n : skipn (Nat.min n (length l)) l = skipn n l.
Proof.
  destruct (Nat.le_gt_cases n (length l)); [rewrite Nat.min_l by lia; reflexivity|].
  rewrite Nat.min_r by lia. rewrite skipn_all, skipn_all2 by lia. reflexivity.
Qed.

Lemma slice_clamp {A} (l : list A) a b :
  a <= length l -> slice_nat l a (Nat.min b (length l)) = firstn (b - a) (skipn a l).
Proof.
  intros H. unfold slice_nat.
  replace (Nat.min b (length l) - a) with (Nat.min (b - a) (length (skipn a l))) by (rewrite skipn_length; lia).
  apply firstn_clamp.
Qed.

Lemma rest_clamp {A} (l : list A) a b :
  a <= length l -> skipn (Nat.max a (Nat.min b (length l))) l = skipn (Nat.max a b) l.
Proof.
  intros H. replace (Nat.max a (Nat.min b (length l))) with (Nat.min (Nat.max a b) (length l)) by lia.
  apply skipn_clamp.
Qed.

Lemma py_index_nat len n : n < len -> py_index len (Z.of_nat n) = Some n.
Proof.
  intros H. unfold py_index. destruct (Z.leb_spec 0 (Z.of_nat n)); [|lia].
  destruct (Z.ltb_spec (Z.of_nat n) (Z.of_nat len)); [|lia]. rewrite Nat2Z.id. reflexivity.
Qed.

Lemma py_bound_nat len n : py_bound len (Z.of_nat n) = Nat.min n len.
Proof. unfold py_bound. destruct (Z.ltb_spec (Z.of_nat n) 0); [lia|]. rewrite Nat2Z.id. reflexivity. Qed.

Lemma skipn_past {A} (a0 : list A) x post pos k :
  length a0 = pos -> S pos <= k -> skipn k (a0 ++ x :: post) = skipn (k - S pos) post.
Proof.
  intros Hl Hk. replace k with ((k - S pos) + S pos) at 1 by lia. rewrite skipn_add.
  destruct (split_at_len a0 x post pos Hl) as [_ H2]. rewrite H2. reflexivity.
Qed.

(* on non-negative indices the tree operation is the pure Node.group_tokens *)
Lemma group_tokens_erase g c start stop ext ks :
  start < length ks ->
  exists gn, group_tokens c start stop ext (map erase ks)
             = Ok (map erase (it_group_kids g c (Z.of_nat start) (Z.of_nat stop) ext ks), gn)
          /\ nth_error (map erase (it_group_kids g c (Z.of_nat start) (Z.of_nat stop) ext ks)) start = Some gn.
Proof.
  intros Hlt. unfold group_tokens, it_group_kids.
  rewrite (py_index_nat _ _ Hlt), nth_error_map.
  destruct (nth_error ks start) as [st|] eqn:Hst; [|apply nth_error_None in Hst; lia]. cbn [option_map].
  destruct (nth_error_split' _ _ _ Hst) as [Hsplit HlenA].
  change (inst (erase st) c) with (it_inst st c).
  destruct (ext && it_inst st c) eqn:Hc.
  - destruct st as [i ty v|s c' cv' gks]; [apply andb_true_iff in Hc; destruct Hc as [_ Hc]; discriminate|].
    cbn [erase].
    set (A := firstn start ks) in *. set (post := skipn (S start) ks) in *.
    assert (Hlo : py_bound (length ks) (Z.of_nat start + 1) = S start).
    { replace (Z.of_nat start + 1)%Z with (Z.of_nat (S start)) by lia. rewrite py_bound_nat. lia. }
    assert (Hsub : py_slice ks (Z.of_nat start + 1) (Z.of_nat stop) = firstn (stop - S start) post).
    { unfold py_slice. rewrite Hlo, py_bound_nat. apply slice_clamp. lia. }
    rewrite Hsub. set (sub := firstn (stop - S start) post).
    set (G := IGrp s c' (flat_map itext (gks ++ sub)) (gks ++ sub)).
    assert (HlenL : length (A ++ G :: post) = length ks) by (rewrite Hsplit at 1; rewrite !app_length; reflexivity).
    unfold py_slice_assign. rewrite HlenL, Hlo, py_bound_nat. unfold splice_nat. cbn [app].
    rewrite <- HlenL. rewrite rest_clamp by (rewrite HlenL; lia).
    destruct (split_at_len A G post start HlenA) as [H1 _]. rewrite H1.
    rewrite (skipn_past A G post start _ HlenA) by lia.
    assert (HG : erase G = mk_grp c' (map erase gks ++ firstn (stop - S start) (skipn (S start) (map erase ks)))).
    { unfold G, mk_grp. cbn [erase]. rewrite flat_map_itext_erase, map_app. unfold sub, post.
      rewrite skipn_map, firstn_map. reflexivity. }
    exists (erase G). split.
    + rewrite <- HG. f_equal. f_equal. rewrite <- app_assoc, !map_app. cbn [map app]. unfold A. rewrite firstn_map. f_equal. f_equal.
      rewrite Hsplit at 1. rewrite map_app. cbn [map].
      rewrite (skipn_past (map erase (firstn start ks)) _ _ start) by (rewrite ?map_length; fold A; lia).
      unfold post. rewrite skipn_map. reflexivity.
    + rewrite <- app_assoc, !map_app. cbn [map app]. rewrite <- (map_length erase A) in HlenA. rewrite <- HlenA.
      apply nth_error_app_len.
  - assert (Hlo : py_bound (length ks) (Z.of_nat start) = start) by (rewrite py_bound_nat; lia).
    unfold py_slice_assign, py_slice. rewrite Hlo, py_bound_nat, slice_clamp by lia. unfold splice_nat.
    rewrite rest_clamp by lia. cbn [app].
    set (sub := firstn (stop - start) (skipn start ks)).
    assert (HG : erase (IGrp g c (flat_map itext sub) sub) = mk_grp c (firstn (stop - start) (skipn start (map erase ks)))).
    { unfold mk_grp. cbn [erase]. rewrite flat_map_itext_erase. unfold sub. rewrite skipn_map, firstn_map. reflexivity. }
    exists (erase (IGrp g c (flat_map itext sub) sub)). split.
    + rewrite <- HG. rewrite !map_app. cbn [map]. rewrite firstn_map, skipn_map. reflexivity.
    + rewrite map_app. cbn [map]. set (L1 := map erase (firstn start ks)).
      assert (Hl : length L1 = start) by (unfold L1; rewrite map_length; exact HlenA).
      rewrite <- Hl. apply nth_error_app_len.
Qed.

Lemma py_index_nat_inv len n k : py_index len (Z.of_nat n) = Some k -> k = n /\ n < len.
Proof.
  unfold py_index. destruct (Z.leb_spec 0 (Z.of_nat n)); [|lia].
  destruct (Z.ltb_spec (Z.of_nat n) (Z.of_nat len)); [|discriminate]. intros E. injection E as <-. lia.
Qed.

Lemma upd_child_repr h' root s f c cv ks t A G R :
  wf_tree h' root (it_upd s f t) -> NoDup (ids t) -> it_find s t = Some (IGrp s c cv ks) ->
  f ks = A ++ G :: R -> repr h' (Some s) G /\ NoDup (ids G).
Proof.
  intros (_ & Hr' & Hn' & _) Hn Hf Hnf.
  pose proof (it_find_upd_self s f c cv ks t Hn Hf) as Hf'. rewrite Hnf in Hf'.
  destruct (it_find_repr _ _ _ _ _ Hr' Hf') as [ps' Hrs'].
  pose proof (it_find_nodup _ _ _ Hn' Hf') as Hnd'.
  apply repr_grp in Hrs'. destruct Hrs' as [_ Hs2']. split.
  - apply Forall_app in Hs2'. destruct Hs2' as [_ H]. apply Forall_cons_iff in H. apply H.
  - rewrite ids_grp in Hnd'. inversion Hnd' as [|? ? _ Hnd'']; subst.
    eapply NoDup_flat_map_in; [exact Hnd''|apply in_elt].
Qed.

(* abs of the new heap = the pure group_tokens applied to the children of the node at the position path of
   self in abs of the old heap (the cached value of that node and of its ancestors is left alone, as in the
   pure model); the returned object abstracts to the group the pure function returns *)
Theorem h_group_tokens_refines h root self c (start stop : nat) ext h' g n :
  wf_heap h root -> abs h root = Some n ->
  h_group_tokens h self c (Z.of_nat start) (Z.of_nat stop) ext = Ok (h', g) ->
  exists p sc scv kids kids' gn,
    h_at h root p = Some self
    /\ node_at p n = Some (Grp sc scv kids)
    /\ group_tokens c start stop ext kids = Ok (kids', gn)
    /\ abs h' root = Some (upd_at p (fun _ => kids') n)
    /\ abs h' g = Some gn.
Proof.
  intros Wh Habs Hg. destruct (wf_heap_tree _ _ Wh) as [t W].
  assert (Hneg : Z.of_nat start <> (-1)%Z) by lia.
  destruct (h_group_tokens_tree _ _ _ _ _ _ _ _ _ _ W Hg (or_introl Hneg))
    as (sc & scv & ks & A & gc & old & moved & R & Hf & Hidx & Hnf & _ & W').
  pose proof W as (Hid & Hr & Hn & _). pose proof W' as (Hid' & Hr' & Hn' & _).
  destruct (erase_upd self sc scv ks t Hn Hf) as (p & _ & Hp2 & Hp3 & Hp4).
  assert (En : n = erase t).
  { pose proof (shape_abs h t (repr_shape _ _ _ Hr) Hn) as H. rewrite Hid, Habs in H. congruence. }
  destruct (py_index_nat_inv _ _ _ Hidx) as [HlenA Hlt].
  destruct (group_tokens_erase (fresh h) c start stop ext ks Hlt) as (gn & Hpure & Hnth).
  exists p, sc, scv, (map erase ks), (map erase (it_group_kids (fresh h) c (Z.of_nat start) (Z.of_nat stop) ext ks)), gn.
  split; [rewrite <- Hid; apply (Hp3 h None Hr)|]. split; [rewrite En; exact Hp2|]. split; [exact Hpure|]. split.
  - pose proof (shape_abs h' _ (repr_shape _ _ _ Hr') Hn') as H. rewrite Hid' in H. rewrite H, Hp4, En. reflexivity.
  - destruct (upd_child_repr h' root self _ sc scv ks t A _ R W' Hn Hf Hnf) as [HG HnG].
    pose proof (shape_abs h' _ (repr_shape _ _ _ HG) HnG) as H. cbn [iid] in H. rewrite H. f_equal.
    rewrite Hnf, map_app in Hnth. cbn [map] in Hnth. rewrite <- HlenA, <- (map_length erase A), nth_error_app_len in Hnth.
    congruence.
Qed.

(* ---- insert_before / insert_after ------------------------------------------------------------------- *)
Lemma in_firstn {A} (l : list A) n x : In x (firstn n l) -> In x l.
Proof. intros H. rewrite <- (firstn_skipn n l). apply in_or_app. left. exact H. Qed.
Lemma in_skipn {A} (l : list A) n x : In x (skipn n l) -> In x l.
Proof. intros H. rewrite <- (firstn_skipn n l). apply in_or_app. right. exact H. Qed.

Lemma insert_at_tree h root t self sc scv toks sp tok ty v k h' :
  wf_tree h root t -> hget h self = Some (mkobj (KGrp sc scv toks) sp) -> hget h tok = None ->
  (forall x, hget h' x =
     if Nat.eqb self x then Some (mkobj (KGrp sc scv (firstn k toks ++ tok :: skipn k toks)) sp)
     else if Nat.eqb tok x then Some (mkobj (KLeaf ty v) (Some self)) else hget h x) ->
  wf_tree h' root (it_upd self (fun ks => firstn k ks ++ ILeaf tok ty v :: skipn k ks) t).
Proof.
  intros W Hself Htok Hget.
  destruct (tree_grp _ _ _ _ _ _ _ _ W Hself) as (ks & Hf & Htoks & Hrs & Hincl & Hnd).
  assert (Hst : Nat.eqb self tok = false).
  { apply Nat.eqb_neq. intros E. rewrite E, Htok in Hself. discriminate. }
  assert (Htt : forall i, In i (ids t) -> i <> tok).
  { intros i Hi ->. apply (tree_ids_in_heap _ _ _ _ W Hi). exact Htok. }
  apply (upd_wf_tree h h' root t self sc scv ks _ [tok] W Hf).
  - intros ps Hps. rewrite (repr_parent_unique _ _ _ _ Hps Hrs). cbv beta.
    pose proof Hrs as Hrs'. apply repr_grp in Hrs'. destruct Hrs' as [_ Hkids].
    assert (Hfr : forall l, Forall (repr h (Some self)) l -> incl l ks -> Forall (repr h' (Some self)) l).
    { intros l Hl Hin. rewrite Forall_forall in *. intros x Hx. apply (repr_frame h); [|apply Hl, Hx].
      intros i Hi. assert (Hik : In i (flat_map ids ks)) by (apply in_flat_map; exists x; split; [apply Hin, Hx|exact Hi]).
      rewrite Hget.
      replace (Nat.eqb self i) with false
        by (symmetry; apply Nat.eqb_neq; intros E; rewrite ids_grp in Hnd; inversion Hnd; subst; contradiction).
      replace (Nat.eqb tok i) with false
        by (symmetry; apply Nat.eqb_neq; intros E; apply (Htt i); [apply Hincl; rewrite ids_grp; right; exact Hik|congruence]).
      reflexivity. }
    apply repr_grp. split.
    + rewrite Hget, Nat.eqb_refl, Htoks, map_app, firstn_map, skipn_map. reflexivity.
    + apply Forall_app. split; [apply Hfr; [apply Forall_firstn, Hkids|intros x Hx; eapply in_firstn; exact Hx]|].
      constructor; [cbn [repr]; rewrite Hget, Hst, Nat.eqb_refl; reflexivity|].
      apply Hfr; [apply Forall_skipn, Hkids|intros x Hx; eapply in_skipn; exact Hx].
  - intros i Hi Hni. rewrite Hget.
    replace (Nat.eqb self i) with false by (symmetry; apply Nat.eqb_neq; intros E; apply Hni; rewrite ids_grp; left; exact E).
    replace (Nat.eqb tok i) with false by (symmetry; apply Nat.eqb_neq; intros E; apply (Htt i Hi); congruence).
    reflexivity.
  - cbv beta. rewrite <- (firstn_skipn k ks) at 3. rewrite !flat_map_app. cbn [flat_map ids app].
    apply Permutation_sym, Permutation_middle.
  - intros i [<-|[]]. exact Htok.
  - constructor; [intros []|constructor].
  - intros i Hi. rewrite Hget in Hi. destruct (Nat.eqb self i) eqn:E1; [apply Nat.eqb_eq in E1; subst i; left; congruence|].
    destruct (Nat.eqb tok i) eqn:E2; [right; left; apply Nat.eqb_eq, E2|left; exact Hi].
Qed.

Lemma h_where_group h self wh w :
  h_where h self wh = Ok w -> exists c cv toks p, hget h self = Some (mkobj (KGrp c cv toks) p).
Proof.
  unfold h_where, h_token_index, h_kids. destruct (hget h self) as [[k p]|]; [|destruct wh; discriminate].
  destruct k as [ty v|c cv toks]; cbn [okind_of]; [destruct wh; discriminate|]. intros _. exists c, cv, toks, p. reflexivity.
Qed.

Lemma insert_common h root self sc scv toks sp ty v k :
  wf_heap h root -> hget h self = Some (mkobj (KGrp sc scv toks) sp) ->
  let tok := fresh h in
  let h' := upd_kids (set_parent (hset h tok (mkobj (KLeaf ty v) None)) tok (Some self)) self
              (fun l => firstn k l ++ tok :: skipn k l) in
  wf_heap h' root /\ hget h' tok = Some (mkobj (KLeaf ty v) (Some self))
  /\ is_grp h' self (firstn k toks ++ tok :: skipn k toks).
Proof.
  intros Wh Hself tok h'. destruct (wf_heap_tree _ _ Wh) as [t W].
  assert (Htok : hget h tok = None) by apply fresh_none.
  assert (Hst : Nat.eqb self tok = false).
  { apply Nat.eqb_neq. intros E. rewrite E, Htok in Hself. discriminate. }
  assert (Hget : forall x, hget h' x =
     if Nat.eqb self x then Some (mkobj (KGrp sc scv (firstn k toks ++ tok :: skipn k toks)) sp)
     else if Nat.eqb tok x then Some (mkobj (KLeaf ty v) (Some self)) else hget h x).
  { intros x. unfold h'. rewrite upd_kids_get, set_parent_get, hget_hset. destruct (Nat.eqb self x) eqn:E1.
    - apply Nat.eqb_eq in E1. subst x. rewrite (Nat.eqb_sym tok self), Hst, Hself. reflexivity.
    - destruct (Nat.eqb tok x); reflexivity. }
  split; [eapply wf_tree_heap; eapply insert_at_tree; eassumption|]. split.
  - rewrite Hget, Hst, Nat.eqb_refl. reflexivity.
  - exists sc, scv, sp. rewrite Hget, Nat.eqb_refl. reflexivity.
Qed.

(* inserting a freshly created leaf keeps (a)-(d); the cached values of self and its ancestors are NOT
   refreshed by the code and become stale (see insert_before_cached_refuted) *)
Theorem h_insert_before_wf h root self wh ty v h' :
  wf_heap h root ->
  h_insert_before (fst (h_new_leaf h ty v)) self wh (snd (h_new_leaf h ty v)) = Ok h' ->
  wf_heap h' root
  /\ hget h' (fresh h) = Some (mkobj (KLeaf ty v) (Some self))
  /\ exists toks', is_grp h' self toks' /\ In (fresh h) toks'.
Proof.
  intros Wh. unfold h_new_leaf. cbn [fst snd]. unfold h_insert_before.
  destruct (h_where _ self wh) as [w|e] eqn:Hw; [|discriminate]. intros E. injection E as <-.
  destruct (h_where_group _ _ _ _ Hw) as (sc & scv & toks & sp & Hs0).
  rewrite hget_hset in Hs0. destruct (Nat.eqb (fresh h) self) eqn:Ef; [discriminate|].
  destruct (insert_common h root self sc scv toks sp ty v (py_bound (length toks) w) Wh Hs0) as (H1 & H2 & H3).
  assert (Heq : upd_kids (set_parent (hset h (fresh h) (mkobj (KLeaf ty v) None)) (fresh h) (Some self)) self
                  (fun k => py_insert k w (fresh h))
                = upd_kids (set_parent (hset h (fresh h) (mkobj (KLeaf ty v) None)) (fresh h) (Some self)) self
                    (fun l => firstn (py_bound (length toks) w) l ++ fresh h :: skipn (py_bound (length toks) w) l)).
  { unfold upd_kids. rewrite set_parent_get, hget_hset, Ef, Hs0. reflexivity. }
  rewrite Heq. split; [exact H1|]. split; [exact H2|]. eexists. split; [exact H3|].
  apply in_or_app. right. left. reflexivity.
Qed.

Theorem h_insert_after_wf h root self wh ty v skip_ws h' :
  wf_heap h root ->
  h_insert_after (fst (h_new_leaf h ty v)) self wh (snd (h_new_leaf h ty v)) skip_ws = Ok h' ->
  wf_heap h' root
  /\ hget h' (fresh h) = Some (mkobj (KLeaf ty v) (Some self))
  /\ exists toks', is_grp h' self toks' /\ In (fresh h) toks'.
Proof.
  intros Wh. unfold h_new_leaf. cbn [fst snd]. unfold h_insert_after.
  destruct (h_where _ self wh) as [w|e] eqn:Hw; [|discriminate].
  destruct (h_token_next _ self w skip_ws false false) as [nx|e] eqn:Hnx; [|discriminate].
  intros E. injection E as <-.
  destruct (h_where_group _ _ _ _ Hw) as (sc & scv & toks & sp & Hs0).
  rewrite hget_hset in Hs0. destruct (Nat.eqb (fresh h) self) eqn:Ef; [discriminate|].
  set (k := match nx with None => length toks | Some (nidx, _) => py_bound (length toks) nidx end).
  destruct (insert_common h root self sc scv toks sp ty v k Wh Hs0) as (H1 & H2 & H3).
  assert (Heq : upd_kids (set_parent (hset h (fresh h) (mkobj (KLeaf ty v) None)) (fresh h) (Some self)) self
                  (fun l => match nx with None => l ++ [fresh h] | Some (nidx, _) => py_insert l nidx (fresh h) end)
                = upd_kids (set_parent (hset h (fresh h) (mkobj (KLeaf ty v) None)) (fresh h) (Some self)) self
                    (fun l => firstn k l ++ fresh h :: skipn k l)).
  { unfold upd_kids. rewrite set_parent_get, hget_hset, Ef, Hs0. unfold k. destruct nx as [[nidx t0]|].
    - reflexivity.
    - rewrite firstn_all, skipn_all. reflexivity. }
  rewrite Heq. split; [exact H1|]. split; [exact H2|]. eexists. split; [exact H3|].
  apply in_or_app. right. left. reflexivity.
Qed.

(* ---- navigation helpers ------------------------------------------------------------------------------ *)
Lemma index_of_nth x l : forall k, index_of x l = Some k -> nth_error l k = Some x.
Proof.
  induction l as [|y r IH]; cbn [index_of]; intros k; [discriminate|].
  destruct (Nat.eqb y x) eqn:E.
  - intros H. injection H as <-. apply Nat.eqb_eq in E. subst. reflexivity.
  - destruct (index_of x r) as [k'|]; [|discriminate]. intros H. injection H as <-. cbn [nth_error]. apply IH. reflexivity.
Qed.

Lemma index_of_first x l : forall k j, index_of x l = Some k -> j < k -> nth_error l j <> Some x.
Proof.
  induction l as [|y r IH]; cbn [index_of]; intros k j; [discriminate|].
  destruct (Nat.eqb y x) eqn:E.
  - intros H. injection H as <-. lia.
  - destruct (index_of x r) as [k'|] eqn:E'; [|discriminate]. intros H Hj. injection H as <-.
    destruct j as [|j]; cbn [nth_error].
    + apply Nat.eqb_neq in E. congruence.
    + apply (IH k' j eq_refl). lia.
Qed.

Lemma index_of_none x l : index_of x l = None <-> ~ In x l.
Proof.
  induction l as [|y r IH]; cbn [index_of In]; [tauto|].
  destruct (Nat.eqb y x) eqn:E.
  - apply Nat.eqb_eq in E. split; [discriminate|intros H; exfalso; apply H; left; exact E].
  - apply Nat.eqb_neq in E. destruct (index_of x r) as [k|].
    + split; [discriminate|]. intros H. exfalso. apply H. right.
      destruct (in_dec Nat.eq_dec x r) as [Hin|Hnin]; [exact Hin|]. apply (proj2 IH) in Hnin. discriminate.
    + split; [|reflexivity]. intros _ [H|H]; [contradiction|]. apply (proj1 IH eq_refl), H.
Qed.

Lemma index_of_nodup x l k : NoDup l -> nth_error l k = Some x -> index_of x l = Some k.
Proof.
  intros Hn Hk. destruct (index_of x l) as [k'|] eqn:E.
  - f_equal. apply index_of_nth in E. eapply NoDup_nth_error; [exact Hn| |congruence].
    apply nth_error_Some. congruence.
  - apply index_of_none in E. exfalso. apply E. eapply nth_error_In; exact Hk.
Qed.

Lemma nth_error_skipn' {A} (l : list A) s k : nth_error (skipn s l) k = nth_error l (s + k).
Proof.
  revert l. induction s as [|s IH]; intros l; [reflexivity|].
  destruct l as [|x l]; [destruct k; reflexivity|]. cbn [skipn plus nth_error]. apply IH.
Qed.

(* token_index(token, start) with start >= 0: the position of the token at or after start, by identity;
   ValueError when there is none *)
Theorem h_token_index_spec h root g kids c (start : nat) :
  wf_heap h root -> is_grp h g kids ->
  (forall i, h_token_index h g c (Z.of_nat start) = Ok (Z.of_nat i) <-> (nth_error kids i = Some c /\ start <= i))
  /\ (h_token_index h g c (Z.of_nat start) = Err ValueError <-> ~ In c (skipn start kids))
  /\ (forall r, h_token_index h g c (Z.of_nat start) = Ok r -> (Z.of_nat start <= r)%Z).
Proof.
  intros W Hg. pose proof (wf_nodup _ _ W g kids Hg) as Hn. destruct Hg as (gc & cv & p & Hg).
  unfold h_token_index, h_kids. rewrite Hg. cbn [okind_of]. rewrite py_bound_nat, skipn_clamp.
  destruct (index_of c (skipn start kids)) as [k|] eqn:E.
  - split; [|split].
    + intros i. pose proof (index_of_nth _ _ _ E) as Hk. rewrite nth_error_skipn' in Hk. split.
      * intros H. injection H as H. assert (i = start + k) by lia. subst i. split; [exact Hk|lia].
      * intros [Hi Hle]. f_equal. assert (Hi' : nth_error (skipn start kids) (i - start) = Some c).
        { rewrite nth_error_skipn'. replace (start + (i - start)) with i by lia. exact Hi. }
        assert (Hns : NoDup (skipn start kids)).
        { rewrite <- (firstn_skipn start kids) in Hn. apply NoDup_app_inv in Hn. apply Hn. }
        rewrite (index_of_nodup _ _ _ Hns Hi') in E. injection E as <-. lia.
    + split; [discriminate|]. intros H. exfalso. apply H. apply index_of_nth in E. eapply nth_error_In; exact E.
    + intros r H. injection H as <-. lia.
  - split; [|split].
    + intros i. split; [discriminate|]. intros [Hi Hle]. exfalso. apply index_of_none in E. apply E.
      apply (nth_error_In _ (i - start)). rewrite nth_error_skipn'. replace (start + (i - start)) with i by lia. exact Hi.
    + split; [intros _; apply index_of_none, E|reflexivity].
    + discriminate.
Qed.

(* is_child_of(other): the parent field; on a well-formed heap exactly membership in other's child list *)
Theorem h_is_child_of_spec h root c other o :
  wf_heap h root -> hget h c = Some o ->
  exists b, h_is_child_of h c other = Ok b /\ (b = true <-> exists kids, is_grp h other kids /\ In c kids).
Proof.
  intros W Hc. unfold h_is_child_of. rewrite Hc. destruct o as [k [p|]]; cbn [oparent].
  - eexists. split; [reflexivity|]. split.
    + intros E. apply Nat.eqb_eq in E. subst p. apply (wf_parent _ _ W c k other Hc).
    + intros (kids & Hg & Hin). destruct (wf_child _ _ W other kids c Hg Hin) as [k' Hk']. apply Nat.eqb_eq. congruence.
  - exists false. split; [reflexivity|]. split; [discriminate|].
    intros (kids & Hg & Hin). destruct (wf_child _ _ W other kids c Hg Hin) as [k' Hk']. congruence.
Qed.

(* what the matcher of token_next / token_prev / token_first sees of an object *)
Definition h_node (h : heap) (t : id) : node :=
  match hget h t with Some o => shallow (okind_of o) | None => Leaf [] [] end.

(* first match at a position >= s / last match at a position < n *)
Definition next_spec (h : heap) (f : node -> bool) (kids : list id) (s : nat) (r : option (Z * id)) : Prop :=
  match r with
  | Some (j, t) =>
      exists jn, j = Z.of_nat jn /\ s <= jn /\ nth_error kids jn = Some t /\ f (h_node h t) = true
        /\ forall i t', s <= i < jn -> nth_error kids i = Some t' -> f (h_node h t') = false
  | None => forall i t', s <= i -> nth_error kids i = Some t' -> f (h_node h t') = false
  end.

Definition prev_spec (h : heap) (f : node -> bool) (kids : list id) (n : nat) (r : option (Z * id)) : Prop :=
  match r with
  | Some (j, t) =>
      exists jn, j = Z.of_nat jn /\ jn < n /\ nth_error kids jn = Some t /\ f (h_node h t) = true
        /\ forall i t', jn < i < n -> nth_error kids i = Some t' -> f (h_node h t') = false
  | None => forall i t', i < n -> nth_error kids i = Some t' -> f (h_node h t') = false
  end.

Lemma zrange_nil a b : (b <= a)%Z -> zrange a b = [].
Proof. intros H. unfold zrange. replace (Z.to_nat (b - a)) with 0 by lia. reflexivity. Qed.

Lemma zrange_cons a b : (a < b)%Z -> zrange a b = a :: zrange (a + 1) b.
Proof.
  intros H. unfold zrange. replace (Z.to_nat (b - a)) with (S (Z.to_nat (b - (a + 1)))) by lia.
  cbn [seq map]. f_equal; [lia|]. rewrite <- seq_shift, map_map. apply map_ext. intros k. lia.
Qed.

Lemma zrange_snoc n : zrange 0 (Z.of_nat (S n)) = zrange 0 (Z.of_nat n) ++ [Z.of_nat n].
Proof.
  unfold zrange. replace (Z.to_nat (Z.of_nat (S n) - 0)) with (S n) by lia.
  replace (Z.to_nat (Z.of_nat n - 0)) with n by lia. rewrite seq_S, map_app. reflexivity.
Qed.

Lemma tm_loop_fwd h f toks :
  (forall t, In t toks -> hget h t <> None) ->
  forall n s, s + n = length toks ->
  exists r, tm_loop h f toks (zrange (Z.of_nat s) (Z.of_nat (length toks))) = Ok r /\ next_spec h f toks s r.
Proof.
  intros Hin. induction n as [|n IH]; intros s Hs.
  - rewrite zrange_nil by lia. exists None. split; [reflexivity|]. intros i t' Hi Hn.
    assert (i < length toks) by (apply nth_error_Some; congruence). lia.
  - rewrite zrange_cons by lia. cbn [tm_loop]. rewrite py_index_nat by lia.
    destruct (nth_error toks s) as [t|] eqn:Et; [|apply nth_error_None in Et; lia].
    destruct (hget h t) as [o|] eqn:Eo; [|exfalso; apply (Hin t); [eapply nth_error_In; exact Et|exact Eo]].
    assert (Hnode : h_node h t = shallow (okind_of o)) by (unfold h_node; rewrite Eo; reflexivity).
    rewrite <- Hnode. destruct (f (h_node h t)) eqn:Ef.
    + exists (Some (Z.of_nat s, t)). split; [reflexivity|]. exists s.
      split; [reflexivity|]. split; [lia|]. split; [exact Et|]. split; [exact Ef|]. intros i t' Hi. lia.
    + replace (Z.of_nat s + 1)%Z with (Z.of_nat (S s)) by lia.
      destruct (IH (S s)) as (r & Hr & Hspec); [lia|]. exists r. split; [exact Hr|].
      destruct r as [[j t1]|]; cbn [next_spec] in *.
      * destruct Hspec as (jn & Hj & Hle & Hnth & Hf1 & Hbefore). exists jn.
        split; [exact Hj|]. split; [lia|]. split; [exact Hnth|]. split; [exact Hf1|].
        intros i t' Hi Hn. destruct (Nat.eq_dec i s) as [->|Hne]; [rewrite Et in Hn; injection Hn as <-; exact Ef|].
        apply (Hbefore i t'); [lia|exact Hn].
      * intros i t' Hi Hn. destruct (Nat.eq_dec i s) as [->|Hne]; [rewrite Et in Hn; injection Hn as <-; exact Ef|].
        apply (Hspec i t'); [lia|exact Hn].
Qed.

Lemma tm_loop_rev h f toks :
  (forall t, In t toks -> hget h t <> None) ->
  forall n, n <= length toks ->
  exists r, tm_loop h f toks (rev (zrange 0 (Z.of_nat n))) = Ok r /\ prev_spec h f toks n r.
Proof.
  intros Hin. induction n as [|n IH]; intros Hn.
  - exists None. split; [reflexivity|]. intros i t' Hi. lia.
  - rewrite zrange_snoc, rev_app_distr. cbn [rev app tm_loop]. rewrite py_index_nat by lia.
    destruct (nth_error toks n) as [t|] eqn:Et; [|apply nth_error_None in Et; lia].
    destruct (hget h t) as [o|] eqn:Eo; [|exfalso; apply (Hin t); [eapply nth_error_In; exact Et|exact Eo]].
    assert (Hnode : h_node h t = shallow (okind_of o)) by (unfold h_node; rewrite Eo; reflexivity).
    rewrite <- Hnode. destruct (f (h_node h t)) eqn:Ef.
    + exists (Some (Z.of_nat n, t)). split; [reflexivity|]. exists n.
      split; [reflexivity|]. split; [lia|]. split; [exact Et|]. split; [exact Ef|]. intros i t' Hi. lia.
    + destruct IH as (r & Hr & Hspec); [lia|]. exists r. split; [exact Hr|].
      destruct r as [[j t1]|]; cbn [prev_spec] in *.
      * destruct Hspec as (jn & Hj & Hle & Hnth & Hf1 & Hafter). exists jn.
        split; [exact Hj|]. split; [lia|]. split; [exact Hnth|]. split; [exact Hf1|].
        intros i t' Hi Hn'. destruct (Nat.eq_dec i n) as [->|Hne]; [rewrite Et in Hn'; injection Hn' as <-; exact Ef|].
        apply (Hafter i t'); [lia|exact Hn'].
      * intros i t' Hi Hn'. destruct (Nat.eq_dec i n) as [->|Hne]; [rewrite Et in Hn'; injection Hn' as <-; exact Ef|].
        apply (Hspec i t'); [lia|exact Hn'].
Qed.

Lemma wf_kids_in_heap h root g kids : wf_heap h root -> is_grp h g kids -> forall t, In t kids -> hget h t <> None.
Proof. intros W Hg t Ht. destruct (wf_child _ _ W g kids t Hg Ht) as [k Hk]. congruence. Qed.

(* token_next(idx) for idx >= -1: never raises; the first later sibling the matcher keeps *)
Theorem h_token_next_spec h root g kids idx sw scm :
  wf_heap h root -> is_grp h g kids -> (-1 <= idx)%Z ->
  exists r, h_token_next h g idx sw scm false = Ok r
            /\ next_spec h (skip_matcher sw scm) kids (Z.to_nat (idx + 1)) r.
Proof.
  intros W Hg Hidx. pose proof (wf_kids_in_heap _ _ _ _ W Hg) as Hin. destruct Hg as (gc & cv & p & Hg).
  unfold h_token_next, h_token_matching, h_kids. rewrite Hg. cbn [okind_of].
  set (s := Z.to_nat (idx + 1)). replace (idx + 1)%Z with (Z.of_nat s) by (unfold s; lia).
  destruct (Nat.le_gt_cases s (length kids)) as [Hle|Hgt].
  - apply (tm_loop_fwd h _ kids Hin (length kids - s) s). lia.
  - rewrite zrange_nil by lia. exists None. split; [reflexivity|]. intros i t' Hi Hn.
    assert (i < length kids) by (apply nth_error_Some; congruence). lia.
Qed.

(* token_prev(idx) for idx <= len: never raises; the last earlier sibling the matcher keeps (None for idx <= 0) *)
Theorem h_token_prev_spec h root g kids idx sw scm :
  wf_heap h root -> is_grp h g kids -> (idx <= Z.of_nat (length kids))%Z ->
  exists r, h_token_prev h g idx sw scm = Ok r
            /\ prev_spec h (skip_matcher sw scm) kids (Z.to_nat idx) r.
Proof.
  intros W Hg Hidx. pose proof (wf_kids_in_heap _ _ _ _ W Hg) as Hin. destruct Hg as (gc & cv & p & Hg).
  unfold h_token_prev, h_token_next, h_token_matching, h_kids. rewrite Hg. cbn [okind_of].
  rewrite Z.add_simpl_r.
  destruct (Z.leb_spec idx 0).
  - rewrite zrange_nil by lia. exists None. split; [reflexivity|]. replace (Z.to_nat idx) with 0 by lia.
    intros i t' Hi. lia.
  - remember (Z.to_nat idx) as n eqn:En. replace idx with (Z.of_nat n) by lia.
    apply (tm_loop_rev h _ kids Hin). lia.
Qed.

(* the deviation: beyond the end token_prev raises IndexError instead of clamping (tokens[idx - 1]) *)
Theorem h_token_prev_beyond h g c cv kids p idx sw scm :
  hget h g = Some (mkobj (KGrp c cv kids) p) -> (Z.of_nat (length kids) < idx)%Z ->
  h_token_prev h g idx sw scm = Err IndexError.
Proof.
  intros Hg Hidx. unfold h_token_prev, h_token_next, h_token_matching, h_kids. rewrite Hg. cbn [okind_of].
  rewrite Z.add_simpl_r. replace idx with (Z.of_nat (S (Z.to_nat (idx - 1)))) by lia.
  rewrite zrange_snoc, rev_app_distr. cbn [rev app tm_loop].
  unfold py_index. destruct (Z.leb_spec 0 (Z.of_nat (Z.to_nat (idx - 1)))); [|lia].
  destruct (Z.ltb_spec (Z.of_nat (Z.to_nat (idx - 1))) (Z.of_nat (length kids))); [lia|reflexivity].
Qed.

Theorem h_token_first_spec h root g kids sw scm :
  wf_heap h root -> is_grp h g kids ->
  exists r, h_token_first h g sw scm = Ok r /\
    match r with
    | Some t => exists jn, nth_error kids jn = Some t /\ skip_matcher sw scm (h_node h t) = true
                  /\ forall i t', i < jn -> nth_error kids i = Some t' -> skip_matcher sw scm (h_node h t') = false
    | None => forall i t', nth_error kids i = Some t' -> skip_matcher sw scm (h_node h t') = false
    end.
Proof.
  intros W Hg. destruct (h_token_next_spec h root g kids (-1) sw scm W Hg) as (r & Hr & Hspec); [lia|].
  unfold h_token_first. unfold h_token_next in Hr. change (-1 + 1)%Z with 0%Z in Hr. rewrite Hr.
  destruct r as [[j t]|]; cbn [next_spec] in Hspec.
  - exists (Some t). split; [reflexivity|]. destruct Hspec as (jn & _ & _ & H1 & H2 & H3). exists jn.
    split; [exact H1|]. split; [exact H2|]. intros i t' Hi. apply H3. cbn. lia.
  - exists None. split; [reflexivity|]. intros i t'. apply Hspec. cbn. lia.
Qed.

(* ---- ancestry ------------------------------------------------------------------------------------------ *)
(* a is a proper ancestor of c along the child lists *)
Inductive below (h : heap) : id -> id -> Prop :=
| below_child a c kids : is_grp h a kids -> In c kids -> below h a c
| below_step a b c kids : below h a b -> is_grp h b kids -> In c kids -> below h a c.

Lemma below_chain h root a c : wf_heap h root -> (below h a c <-> exists n, chain (S n) h c = Some a).
Proof.
  intros W. split.
  - induction 1 as [a c kids Hg Hin|a b c kids _ IH Hg Hin].
    + destruct (wf_child _ _ W a kids c Hg Hin) as [k Hk]. exists 0. cbn [chain]. rewrite Hk. reflexivity.
    + destruct IH as [n Hn]. destruct (wf_child _ _ W b kids c Hg Hin) as [k Hk]. exists (S n).
      eapply chain_step; [exact Hk|reflexivity|exact Hn].
  - intros [n Hn]. revert c Hn. induction n as [|n IH]; intros c Hn.
    + cbn [chain] in Hn. destruct (hget h c) as [[k [p|]]|] eqn:Ec; cbn [oparent] in Hn; try discriminate.
      injection Hn as ->. destruct (wf_parent _ _ W c k a Ec) as (kids & Hg & Hin). eapply below_child; eassumption.
    + change (chain (S (S n)) h c) with
        (match hget h c with Some o => match oparent o with Some p => chain (S n) h p | None => None end | None => None end) in Hn.
      destruct (hget h c) as [[k [p|]]|] eqn:Ec; cbn [oparent] in Hn; try discriminate.
      destruct (wf_parent _ _ W c k p Ec) as (kids & Hg & Hin). eapply below_step; [apply IH; exact Hn|exact Hg|exact Hin].
Qed.

Lemma height_kid k kids : In k kids -> height k <= list_max (map height kids).
Proof.
  intros H. assert (Hf : Forall (fun x => x <= list_max (map height kids)) (map height kids)) by (apply list_max_le; lia).
  rewrite Forall_forall in Hf. apply Hf, in_map, H.
Qed.

Lemma repr_chain_bound h t : forall p0 x, repr h p0 t -> In x (ids t) ->
  exists n, chain n h x = Some (iid t) /\ S n <= height t.
Proof.
  induction t as [i ty v|i c cv kids IH] using itree_ind'; intros p0 x Hr Hx.
  - destruct Hx as [<-|[]]. exists 0. split; [reflexivity|cbn; lia].
  - apply repr_grp in Hr. destruct Hr as [H1 H2]. rewrite ids_grp in Hx.
    destruct Hx as [<-|Hx]; [exists 0; split; [reflexivity|cbn [height]; lia]|].
    apply in_flat_map in Hx. destruct Hx as (k & Hk & Hxk). rewrite Forall_forall in *.
    destruct (IH k Hk (Some i) x (H2 k Hk) Hxk) as (n & Hn & Hb).
    destruct (repr_root _ _ _ (H2 k Hk)) as [kk Hkk].
    exists (n + 1). split.
    + eapply chain_add; [exact Hn|]. cbn [chain]. rewrite Hkk. reflexivity.
    + cbn [height]. pose proof (height_kid k kids Hk). lia.
Qed.

Lemma depth_lt_size h root x o n : wf_heap h root -> hget h x = Some o -> chain n h x = Some root -> n < length h.
Proof.
  intros W Hx Hn. destruct (wf_heap_tree _ _ W) as [t Wt]. pose proof Wt as (Hid & Hr & Hnd & Hdom).
  assert (Hin : In x (ids t)) by (apply Hdom; congruence).
  destruct (repr_chain_bound _ _ _ _ Hr Hin) as (m & Hm & Hb). rewrite Hid in Hm.
  rewrite (chain_depth_unique h root W _ _ _ Hn Hm).
  pose proof (shape_height h t (repr_shape _ _ _ Hr) Hnd). lia.
Qed.

Lemma anc_loop_spec h root test : wf_heap h root ->
  forall n x o fuel, hget h x = Some o -> chain n h x = Some root -> n < fuel ->
  exists b, anc_loop fuel h (oparent o) test = Ok b
            /\ (b = true <-> exists k a, chain (S k) h x = Some a /\ test a = true).
Proof.
  intros W. destruct (wf_root _ _ W) as [kr Hroot].
  induction n as [|n IH]; intros x o fuel Hx Hn Hf.
  - cbn [chain] in Hn. injection Hn as ->. rewrite Hroot in Hx. injection Hx as <-. cbn [oparent].
    exists false. split; [destruct fuel; reflexivity|]. split; [discriminate|].
    intros (k & a & Hk & _). cbn [chain] in Hk. rewrite Hroot in Hk. discriminate.
  - cbn [chain] in Hn. rewrite Hx in Hn. destruct o as [k [p|]]; cbn [oparent] in *; [|discriminate].
    destruct fuel as [|f]; [lia|]. cbn [anc_loop].
    destruct (test p) eqn:Et.
    + exists true. split; [reflexivity|]. split; [|reflexivity]. intros _. exists 0, p. split; [|exact Et].
      cbn [chain]. rewrite Hx. reflexivity.
    + destruct (wf_parent _ _ W x k p Hx) as (kids & (gc & gcv & gp & Hp) & _). rewrite Hp.
      destruct (IH p _ f Hp Hn) as (b & Hb & Hiff); [lia|]. exists b. split; [exact Hb|]. rewrite Hiff. split.
      * intros (k0 & a & Hk0 & Ha). exists (S k0), a. split; [|exact Ha].
        eapply chain_step; [exact Hx|reflexivity|exact Hk0].
      * intros (k0 & a & Hk0 & Ha). destruct k0 as [|k0].
        -- cbn [chain] in Hk0. rewrite Hx in Hk0. cbn [oparent] in Hk0. injection Hk0 as <-. congruence.
        -- exists k0, a. split; [|exact Ha].
           change (chain (S (S k0)) h x) with
             (match hget h x with Some o => match oparent o with Some q => chain (S k0) h q | None => None end | None => None end) in Hk0.
           rewrite Hx in Hk0. exact Hk0.
Qed.

(* has_ancestor(other): terminates on a well-formed heap; True exactly for the proper ancestors *)
Theorem h_has_ancestor_spec h root c a o :
  wf_heap h root -> hget h c = Some o ->
  exists b, h_has_ancestor h c a = Ok b /\ (b = true <-> below h a c).
Proof.
  intros W Hc. destruct (wf_reach _ _ W c o Hc) as [n Hn].
  pose proof (depth_lt_size _ _ _ _ _ W Hc Hn) as Hlt.
  destruct (anc_loop_spec h root (fun q => Nat.eqb q a) W n c o (S (length h)) Hc Hn) as (b & Hb & Hiff); [lia|].
  exists b. unfold h_has_ancestor. rewrite Hc. split; [exact Hb|]. rewrite Hiff, (below_chain h root a c W). split.
  - intros (k & a' & Hk & E). apply Nat.eqb_eq in E. subst a'. exists k. exact Hk.
  - intros (k & Hk). exists k, a. split; [exact Hk|apply Nat.eqb_refl].
Qed.

(* within(cls): True exactly when some proper ancestor is an instance of cls *)
Theorem h_within_spec h root c cls o :
  wf_heap h root -> hget h c = Some o ->
  exists b, h_within h c cls = Ok b /\ (b = true <-> exists a, below h a c /\ h_isinstance h a cls = true).
Proof.
  intros W Hc. destruct (wf_reach _ _ W c o Hc) as [n Hn].
  pose proof (depth_lt_size _ _ _ _ _ W Hc Hn) as Hlt.
  destruct (anc_loop_spec h root (fun q => h_isinstance h q cls) W n c o (S (length h)) Hc Hn) as (b & Hb & Hiff); [lia|].
  exists b. unfold h_within. rewrite Hc. split; [exact Hb|]. rewrite Hiff. split.
  - intros (k & a & Hk & E). exists a. split; [apply (below_chain h root a c W); exists k; exact Hk|exact E].
  - intros (a & Hbel & E). apply (below_chain h root a c W) in Hbel. destruct Hbel as [k Hk]. exists k, a. split; assumption.
Qed.

(* ---- get_token_at_offset ---------------------------------------------------------------------------------- *)
Definition leaves_len (h : heap) (ls : list id) : Z := Z.of_nat (length (flat_map (leaf_value h) ls)).

Lemma offset_loop_hit h ls : forall idx off,
  (idx <= off < idx + leaves_len h ls)%Z ->
  exists pre t post, ls = pre ++ t :: post /\ offset_loop h ls idx off = Some t
    /\ (idx + leaves_len h pre <= off < idx + leaves_len h pre + Z.of_nat (length (leaf_value h t)))%Z.
Proof.
  unfold leaves_len. induction ls as [|t r IH]; intros idx off H; cbn [flat_map length] in H; [lia|].
  cbn [offset_loop]. rewrite app_length in H.
  destruct (Z.ltb_spec off (idx + Z.of_nat (length (leaf_value h t)))) as [Hlt|Hge].
  - exists [], t, r. replace (idx <=? off)%Z with true by (symmetry; apply Z.leb_le; lia).
    split; [reflexivity|]. split; [reflexivity|]. cbn [flat_map length]. lia.
  - destruct (IH (idx + Z.of_nat (length (leaf_value h t)))%Z off) as (pre & t' & post & E & A & B); [lia|].
    exists (t :: pre), t', post. split; [rewrite E; reflexivity|]. rewrite andb_false_r. split; [exact A|].
    cbn [flat_map]. rewrite app_length. lia.
Qed.

Lemma offset_loop_miss h ls : forall idx off,
  (off < idx \/ idx + leaves_len h ls <= off)%Z -> offset_loop h ls idx off = None.
Proof.
  unfold leaves_len. induction ls as [|t r IH]; intros idx off H; [reflexivity|].
  cbn [offset_loop flat_map] in *. rewrite app_length in H.
  replace ((idx <=? off)%Z && (off <? idx + Z.of_nat (length (leaf_value h t)))%Z) with false.
  - apply IH. lia.
  - symmetry. apply andb_false_iff. destruct H as [H|H]; [left; apply Z.leb_gt; lia|right; apply Z.ltb_ge; lia].
Qed.

(* on a well-formed heap: the leaf covering the offset (offsets count code points of the leaves under g, left
   to right); None for a negative offset and from the end of the text on *)
Theorem h_get_token_at_offset_spec h root g kids off :
  wf_heap h root -> is_grp h g kids ->
  exists ls, h_flatten h g = Some ls /\ h_str h g = Some (flat_map (leaf_value h) ls)
    /\ h_get_token_at_offset h g off = Ok (offset_loop h ls 0 off)
    /\ ((0 <= off < leaves_len h ls)%Z ->
         exists pre t post, ls = pre ++ t :: post /\ offset_loop h ls 0 off = Some t
           /\ (leaves_len h pre <= off < leaves_len h pre + Z.of_nat (length (leaf_value h t)))%Z)
    /\ ((off < 0 \/ leaves_len h ls <= off)%Z -> offset_loop h ls 0 off = None).
Proof.
  intros W (gc & cv & p & Hg). destruct (wf_heap_tree _ _ W) as [t Wt].
  destruct (tree_grp _ _ _ _ _ _ _ _ Wt Hg) as (ks & _ & _ & Hrs & _ & Hnd).
  pose proof (shape_flatten h _ (repr_shape _ _ _ Hrs) Hnd) as Hfl. cbn [iid] in Hfl.
  exists (ileaves (IGrp g gc cv ks)). split; [exact Hfl|]. split; [unfold h_str; rewrite Hfl; reflexivity|]. split.
  - unfold h_get_token_at_offset, h_kids. rewrite Hg. cbn [okind_of]. rewrite Hfl. reflexivity.
  - split.
    + intros H. destruct (offset_loop_hit h (ileaves (IGrp g gc cv ks)) 0 off) as (pre & t0 & post & E & A & B); [lia|].
      exists pre, t0, post. split; [exact E|]. split; [exact A|]. lia.
    + intros H. apply offset_loop_miss. lia.
Qed.

(* ---- the invariants are not vacuous, and the statements of group_tokens that keep them are needed ------- *)
Definition ex_a : text := [97%N].
Definition ex_b : text := [98%N].
Definition ex_c : text := [99%N].
(* Statement "ab" [ Identifier "a" [a] ; b ]   objects: 0 root, 1 Identifier, 2 a, 3 b *)
Definition ex_tree1 : node :=
  Grp CStatement (ex_a ++ ex_b) [Grp CIdentifier ex_a [Leaf T_Name ex_a]; Leaf T_Name ex_b].
(* Statement "abc" [ a ; b ; Identifier "c" [c] ]   objects: 0 root, 1 a, 2 b, 3 Identifier, 4 c *)
Definition ex_tree2 : node :=
  Grp CStatement (ex_a ++ ex_b ++ ex_c) [Leaf T_Name ex_a; Leaf T_Name ex_b; Grp CIdentifier ex_c [Leaf T_Name ex_c]].

Definition heap_of_res (r : res (heap * id)) : heap := match r with Ok (h, _) => h | Err _ => [] end.

Lemma ex_tree1_wf : wf_heap (fst (of_node ex_tree1)) 0 /\ cached_ok_heap (fst (of_node ex_tree1)).
Proof.
  destruct (of_node_wf ex_tree1) as (W & _ & C). split; [exact W|]. apply C.
  apply cached_ok_grp. split; [reflexivity|]. constructor; [|constructor; [exact I|constructor]].
  apply cached_ok_grp. split; [reflexivity|]. constructor; [exact I|constructor].
Qed.

Lemma ex_tree2_wf : wf_heap (fst (of_node ex_tree2)) 0 /\ cached_ok_heap (fst (of_node ex_tree2)).
Proof.
  destruct (of_node_wf ex_tree2) as (W & _ & C). split; [exact W|]. apply C.
  apply cached_ok_grp. split; [reflexivity|]. constructor; [exact I|]. constructor; [exact I|]. constructor; [|constructor].
  apply cached_ok_grp. split; [reflexivity|]. constructor; [exact I|constructor].
Qed.

(* both branches of the real group_tokens succeed on the example (the hypotheses of h_group_tokens_wf are
   satisfiable), and the results are what the theorems say *)
Example ex_group_extend :
  exists h', h_group_tokens (fst (of_node ex_tree1)) 0 CIdentifier 0 2 true = Ok (h', 1)
    /\ h_extend_taken (fst (of_node ex_tree1)) 0 CIdentifier 0 true = true
    /\ abs h' 0 = Some (Grp CStatement (ex_a ++ ex_b) [Grp CIdentifier (ex_a ++ ex_b) [Leaf T_Name ex_a; Leaf T_Name ex_b]]).
Proof. eexists. split; [vm_compute; reflexivity|]. split; vm_compute; reflexivity. Qed.

Example ex_group_new :
  exists h', h_group_tokens (fst (of_node ex_tree1)) 0 CIdentifier 1 2 false = Ok (h', 4)
    /\ abs h' 0 = Some (Grp CStatement (ex_a ++ ex_b)
                          [Grp CIdentifier ex_a [Leaf T_Name ex_a]; Grp CIdentifier ex_b [Leaf T_Name ex_b]]).
Proof. eexists. split; vm_compute; reflexivity. Qed.

(* without the final `for token in subtokens: token.parent = grp` the extend branch leaves the moved child
   pointing at its old parent *)
Theorem noreparent_refuted :
  exists h root self c a b ext,
    wf_heap h root /\
    exists h' g, h_group_tokens_noreparent h self c a b ext = Ok (h', g) /\ ~ wf_heap h' root.
Proof.
  exists (fst (of_node ex_tree1)), 0, 0, CIdentifier, 0%Z, 2%Z, true. split; [apply ex_tree1_wf|].
  eexists. exists 1. split; [vm_compute; reflexivity|]. intros W.
  destruct (wf_child _ _ W 1 [2; 3] 3) as [k Hk].
  - eexists _, _, _. vm_compute. reflexivity.
  - right. left. reflexivity.
  - vm_compute in Hk. discriminate.
Qed.

(* without `grp.parent = self` the new group has no parent *)
Theorem nogrpparent_refuted :
  exists h root self c a b ext,
    wf_heap h root /\
    exists h' g, h_group_tokens_nogrpparent h self c a b ext = Ok (h', g) /\ ~ wf_heap h' root.
Proof.
  exists (fst (of_node ex_tree1)), 0, 0, CIdentifier, 1%Z, 2%Z, false. split; [apply ex_tree1_wf|].
  eexists. exists 4. split; [vm_compute; reflexivity|]. intros W.
  destruct (wf_child _ _ W 0 [1; 4] 4) as [k Hk].
  - eexists _, _, _. vm_compute. reflexivity.
  - right. left. reflexivity.
  - vm_compute in Hk. discriminate.
Qed.

(* start_idx = -1 with the extend branch: the slice self.tokens[start_idx + 1:end_idx] starts at 0, so the
   tokens BEFORE the group are appended after its children: the leaf order (the text) changes and the cached
   value of self goes stale; with end_idx = len the group is appended to itself (RecursionError in str) *)
Theorem extend_minus1_refuted :
  exists h root self c b,
    wf_heap h root /\ cached_ok_heap h /\
    (exists h' g, h_group_tokens h self c (-1) b true = Ok (h', g)
        /\ h_flatten h' root <> h_flatten h root /\ ~ cached_ok_heap h')
    /\ h_group_tokens h self c (-1) 3 true = Err RecursionError.
Proof.
  exists (fst (of_node ex_tree2)), 0, 0, CIdentifier, 2%Z.
  split; [apply ex_tree2_wf|]. split; [apply ex_tree2_wf|]. split; [|vm_compute; reflexivity].
  eexists. exists 3. split; [vm_compute; reflexivity|]. split; [vm_compute; discriminate|].
  intros C. assert (E : h_str (heap_of_res (h_group_tokens (fst (of_node ex_tree2)) 0 CIdentifier (-1) 2 true)) 0
                        = Some (ex_a ++ ex_b ++ ex_c)).
  { apply (C 0 CStatement (ex_a ++ ex_b ++ ex_c) [3] None). vm_compute. reflexivity. }
  vm_compute in E. discriminate.
Qed.

(* insert_before / insert_after keep the parent references right but refresh no cached value *)
Theorem insert_before_cached_refuted :
  exists h root self wh ty v,
    wf_heap h root /\ cached_ok_heap h /\
    exists h', h_insert_before (fst (h_new_leaf h ty v)) self wh (snd (h_new_leaf h ty v)) = Ok h'
               /\ wf_heap h' root /\ ~ cached_ok_heap h'.
Proof.
  exists (fst (of_node ex_tree1)), 0, 0, (inl 1%Z), T_Whitespace, [32%N].
  split; [apply ex_tree1_wf|]. split; [apply ex_tree1_wf|].
  destruct (h_insert_before (fst (h_new_leaf (fst (of_node ex_tree1)) T_Whitespace [32%N])) 0 (inl 1%Z)
              (snd (h_new_leaf (fst (of_node ex_tree1)) T_Whitespace [32%N]))) as [h'|e] eqn:E; [|vm_compute in E; discriminate].
  exists h'. split; [reflexivity|]. split.
  - eapply h_insert_before_wf; [apply ex_tree1_wf|exact E].
  - intros C. vm_compute in E. injection E as <-.
    assert (E2 : h_str [(0, mkobj (KGrp CStatement [97%N; 98%N] [1; 4; 3]) None); (1, mkobj (KGrp CIdentifier [97%N] [2]) (Some 0));
                        (2, mkobj (KLeaf [Name] [97%N]) (Some 1)); (3, mkobj (KLeaf [Name] [98%N]) (Some 0));
                        (4, mkobj (KLeaf [Text; Whitespace] [32%N]) (Some 0))] 0 = Some [97%N; 98%N]).
    { eapply C. vm_compute. reflexivity. }
    vm_compute in E2. discriminate.
Qed.

(* quirks of the literal index arithmetic, outside the range the specifications cover *)
Example token_next_negative_wraps :
  h_token_next (fst (of_node ex_tree2)) 0 (-3) false false false = Ok (Some ((-2)%Z, 2)).
Proof. vm_compute. reflexivity. Qed.

Example token_prev_beyond_raises :
  h_token_prev (fst (of_node ex_tree2)) 0 4 true false = Err IndexError
  /\ h_token_prev (fst (of_node ex_tree2)) 0 3 true false = Ok (Some (2%Z, 3))
  /\ h_token_prev (fst (of_node ex_tree2)) 0 0 true false = Ok None.
Proof. repeat split; vm_compute; reflexivity. Qed.

Example token_index_negative_start :
  h_token_index (fst (of_node ex_tree2)) 0 3 (-2) = Ok (-1)%Z
  /\ h_token_index (fst (of_node ex_tree2)) 0 3 (-9) = Ok (-7)%Z.
Proof. split; vm_compute; reflexivity. Qed.

(* an empty slice still creates (and inserts) an empty group: wf_heap says nothing about emptiness *)
Example empty_slice_creates_empty_group :
  exists h', h_group_tokens (fst (of_node ex_tree2)) 0 CParenthesis 1 0 false = Ok (h', 5)
    /\ abs h' 0 = Some (Grp CStatement (ex_a ++ ex_b ++ ex_c)
                          [Leaf T_Name ex_a; Grp CParenthesis [] []; Leaf T_Name ex_b; Grp CIdentifier ex_c [Leaf T_Name ex_c]]).
Proof. eexists. split; vm_compute; reflexivity. Qed.
