(* The regex model of SPLIT_REGEX.split computes the direct scanner of SerializerSpec.v. *)
From SqlModel Require Import Base PyStr Re MinWidth.
From SqlModel.Gen Require Import CaseTabs SplitRx.
From SqlModel.Filters Require Import Serializer SerializerSpec SerializerFacts.

(* the state after k characters *)
Fixpoint adv_st (k : nat) (p : option N) (t : text) : st :=
  match k, t with
  | S k', ch :: r => adv_st k' (Some ch) r
  | _, _ => mkSt p t
  end.

Lemma adv_st_rest k : forall p t, rest (adv_st k p t) = skipn k t.
Proof. induction k as [|k IH]; intros p [|ch r]; simpl; auto. Qed.

Section Generic.
Variable lo : N -> N.
Variables cr lf pl bs any : cset.

(* ---- quoted strings --------------------------------------------------------------------------- *)
Section Quoted.
Variables q nq : cset.
Hypothesis Hnq : forall ch, cmem ch nq = true -> cmem ch bs = false /\ cmem ch q = false.
Hypothesis Hbs : forall ch, cmem ch bs = true -> cmem ch q = false.

Definition qbody : re := Alt (Atom nq) (Seq (Atom bs) (Atom any)).
Definition qre : re := Seq (Atom q) (Seq (Rep true 0 None qbody) (Atom q)).

Lemma qstar : forall fuel t p count c, length t <= fuel ->
  flat_map (fun xc => ends lo (Atom q) (fst xc) (snd xc))
           (iter (ends lo qbody) true 0 None fuel count (mkSt p t) c)
  = match qscan bs any q nq t with Some k => [(adv_st k p t, c)] | None => [] end.
Proof.
  induction fuel as [|f IH]; intros t p count c Hlen.
  - destruct t as [|ch r]; [|simpl in Hlen; lia]. reflexivity.
  - cbn [iter Nat.leb]. rewrite flat_map_app. cbn [flat_map fst snd]. rewrite app_nil_r.
    destruct t as [|ch r].
    + reflexivity.
    + cbn [qbody ends rest qscan]. simpl in Hlen.
      destruct (cmem ch nq) eqn:E1.
      * destruct (Hnq ch E1) as [E2 E3]. rewrite E2, E3. cbn [flat_map app fst snd].
        rewrite !app_nil_r. rewrite IH by lia.
        destruct (qscan bs any q nq r); reflexivity.
      * destruct (cmem ch bs) eqn:E2.
        -- rewrite (Hbs ch E2). cbn [app flat_map fst snd rest ends].
           destruct r as [|d r'].
           ++ reflexivity.
           ++ destruct (cmem d any) eqn:E3; cbn [app flat_map fst snd]; [|reflexivity].
              rewrite !app_nil_r. simpl in Hlen. rewrite IH by lia.
              destruct (qscan bs any q nq r'); reflexivity.
        -- cbn [app flat_map]. destruct (cmem ch q); reflexivity.
Qed.

Lemma qre_ends p t c :
  ends lo qre (mkSt p t) c =
  match t with
  | ch :: r => if cmem ch q
               then match qscan bs any q nq r with Some k => [(adv_st (S k) p t, c)] | None => [] end
               else []
  | [] => []
  end.
Proof.
  unfold qre. cbn [ends rest]. destruct t as [|ch r]; [reflexivity|].
  destruct (cmem ch q); [|reflexivity]. cbn [flat_map fst snd]. rewrite app_nil_r.
  unfold rep_fuel. cbn [rest]. rewrite qstar by lia.
  destruct (qscan bs any q nq r); reflexivity.
Qed.

Lemma qscan_le : forall n t k, length t <= n -> qscan bs any q nq t = Some k -> 1 <= k <= length t.
Proof.
  induction n as [|n IH]; intros t k Hl H.
  - destruct t; [discriminate | simpl in Hl; lia].
  - destruct t as [|ch r]; [discriminate|]. cbn [qscan] in H. simpl in Hl.
    destruct (cmem ch nq).
    + destruct (qscan bs any q nq r) as [k'|] eqn:E; [|discriminate]. injection H as <-.
      apply IH in E; [|lia]. simpl. lia.
    + destruct (cmem ch bs).
      * destruct r as [|d r']; [discriminate|]. destruct (cmem d any); [|discriminate].
        destruct (qscan bs any q nq r') as [k'|] eqn:E; [|discriminate]. injection H as <-.
        simpl in Hl. apply IH in E; [|lia]. simpl. lia.
      * destruct (cmem ch q); [|discriminate]. injection H as <-. simpl. lia.
Qed.
End Quoted.

(* ---- plain runs --------------------------------------------------------------------------------- *)
Lemma run_le s t : run s t <= length t.
Proof. induction t as [|c r IH]; simpl; [lia|]. destruct (cmem c s); simpl; lia. Qed.

Lemma plain_iter : forall fuel t p count c, 1 <= count -> length t <= fuel ->
  exists tl, iter (ends lo (Atom pl)) true 1 None fuel count (mkSt p t) c = (adv_st (run pl t) p t, c) :: tl.
Proof.
  set (body := ends lo (Atom pl)).
  assert (Hbody : forall p ch r c, body (mkSt p (ch :: r)) c
                                   = if cmem ch pl then [(mkSt (Some ch) r, c)] else []) by reflexivity.
  assert (Hnil : forall p c, body (mkSt p []) c = []) by reflexivity.
  induction fuel as [|f IH]; intros t p count c Hc Hlen.
  - destruct t as [|ch r]; [|simpl in Hlen; lia]. cbn [iter].
    destruct (Nat.leb_spec 1 count); [|lia]. exists []. reflexivity.
  - cbn [iter]. destruct (Nat.leb_spec 1 count) as [_|]; [|lia].
    destruct t as [|ch r]; [rewrite Hnil; exists []; reflexivity|]. rewrite Hbody. cbn [run]. simpl in Hlen.
    destruct (cmem ch pl).
    + cbn [flat_map fst snd]. destruct (IH r (Some ch) (S count) c) as (tl & ->); [lia | lia|].
      rewrite app_nil_r. cbn [adv_st]. eexists. reflexivity.
    + exists []. reflexivity.
Qed.

Lemma plain_ends p t c :
  match t with
  | ch :: r => if cmem ch pl
               then exists tl, ends lo (Rep true 1 None (Atom pl)) (mkSt p t) c = (adv_st (S (run pl r)) p t, c) :: tl
               else ends lo (Rep true 1 None (Atom pl)) (mkSt p t) c = []
  | [] => ends lo (Rep true 1 None (Atom pl)) (mkSt p t) c = []
  end.
Proof.
  change (ends lo (Rep true 1 None (Atom pl)) (mkSt p t) c)
    with (iter (ends lo (Atom pl)) true 1 None (S (length t)) 0 (mkSt p t) c).
  set (body := ends lo (Atom pl)).
  assert (Hbody : forall p ch r c, body (mkSt p (ch :: r)) c
                                   = if cmem ch pl then [(mkSt (Some ch) r, c)] else []) by reflexivity.
  assert (Hnil : forall p c, body (mkSt p []) c = []) by reflexivity.
  cbn [iter Nat.leb]. destruct t as [|ch r]; [rewrite Hnil; reflexivity|].
  rewrite Hbody. destruct (cmem ch pl); [|reflexivity].
  cbn [flat_map fst snd]. destruct (plain_iter (length (ch :: r)) r (Some ch) 1 c) as (tl & E); [lia | simpl; lia|].
  fold body in E. rewrite E. rewrite !app_nil_r. cbn [adv_st]. eexists. reflexivity.
Qed.

(* ---- the whole pattern --------------------------------------------------------------------------- *)
Variables dq dnq sq snq : cset.
Hypothesis Hdnq : forall ch, cmem ch dnq = true -> cmem ch bs = false /\ cmem ch dq = false.
Hypothesis Hdbs : forall ch, cmem ch bs = true -> cmem ch dq = false.
Hypothesis Hsnq : forall ch, cmem ch snq = true -> cmem ch bs = false /\ cmem ch sq = false.
Hypothesis Hsbs : forall ch, cmem ch bs = true -> cmem ch sq = false.
(* the first characters of the four alternatives are pairwise exclusive *)
Hypothesis Hcr : forall ch, cmem ch cr = true -> cmem ch lf = false.
Hypothesis Hlf : forall ch, cmem ch lf = true -> cmem ch cr = false.
Hypothesis Hpl : forall ch, cmem ch pl = true -> cmem ch cr = false /\ cmem ch lf = false.
Hypothesis Hdq : forall ch, cmem ch dq = true -> cmem ch cr = false /\ cmem ch lf = false /\ cmem ch pl = false.
Hypothesis Hsq : forall ch, cmem ch sq = true ->
  cmem ch cr = false /\ cmem ch lf = false /\ cmem ch pl = false /\ cmem ch dq = false.

Definition rx_inner : re :=
  Alt (Alt (Seq (Atom cr) (Atom lf)) (Alt (Atom cr) (Atom lf)))
      (Alt (Rep true 1 None (Atom pl)) (Alt (qre dq dnq) (qre sq snq))).
Definition rx_generic : re := Group 1 rx_inner.

Lemma match_cap_group r x :
  match_cap lo (Group 1 r) x =
  match ends lo r x [] with
  | [] => None
  | (x', _) :: _ => let k := length (rest x) - length (rest x') in Some (k, Some (firstn k (rest x)))
  end.
Proof.
  unfold match_cap. cbn [ends]. destruct (ends lo r x []) as [|[x' c'] l]; [reflexivity|].
  cbn [map fst snd cap_get Nat.eqb]. reflexivity.
Qed.

Lemma adv_len k p t : k <= length t -> length t - length (rest (adv_st k p t)) = k.
Proof. intros H. rewrite adv_st_rest, skipn_length. lia. Qed.

Notation scan1g := (scan1 cr lf pl bs any dq dnq sq snq).

Lemma scan1_le t k : scan1g t = Some k -> 1 <= k <= length t.
Proof.
  unfold scan1. destruct t as [|a r]; [discriminate|].
  destruct (cmem a cr).
  { intros H; injection H as <-. destruct r as [|b r']; [simpl; lia|]. destruct (cmem b lf); simpl; lia. }
  destruct (cmem a lf); [intros H; injection H as <-; simpl; lia|].
  destruct (cmem a pl); [intros H; injection H as <-; pose proof (run_le pl r); simpl; lia|].
  destruct (cmem a dq).
  { destruct (qscan bs any dq dnq r) as [k'|] eqn:E; [|discriminate]. intros H; injection H as <-.
    apply (qscan_le dq dnq (length r)) in E; [simpl; lia | lia]. }
  destruct (cmem a sq); [|discriminate].
  destruct (qscan bs any sq snq r) as [k'|] eqn:E; [|discriminate]. intros H; injection H as <-.
  apply (qscan_le sq snq (length r)) in E; [simpl; lia | lia].
Qed.

Lemma ends_alt a b x c : ends lo (Alt a b) x c = ends lo a x c ++ ends lo b x c.
Proof. reflexivity. Qed.

(* head of the result list of the four alternatives *)
Lemma rx_inner_head p t :
  match scan1g t with
  | Some k => exists tl, ends lo rx_inner (mkSt p t) [] = (adv_st k p t, []) :: tl
  | None => ends lo rx_inner (mkSt p t) [] = []
  end.
Proof.
  pose proof (plain_ends p t []) as HP.
  unfold rx_inner. rewrite !ends_alt. rewrite !qre_ends by assumption.
  set (PLr := ends lo (Rep true 1 None (Atom pl)) (mkSt p t) []) in *.
  destruct t as [|a r]; [cbn [scan1 ends rest flat_map app]; rewrite HP; reflexivity|].
  cbn [scan1 ends rest flat_map fst snd].
  destruct (cmem a cr) eqn:Ecr.
  - (* CR, CR LF *)
    destruct r as [|b r']; cbn [flat_map app fst snd rest].
    + eexists. reflexivity.
    + destruct (cmem b lf); cbn [flat_map app adv_st fst snd rest]; eexists; reflexivity.
  - cbn [flat_map app]. destruct (cmem a lf) eqn:Elf.
    + eexists. reflexivity.
    + cbn [app]. destruct (cmem a pl) eqn:Epl.
      * destruct HP as (tl & ->). eexists. reflexivity.
      * rewrite HP. cbn [app]. destruct (cmem a dq) eqn:Edq.
        -- destruct (qscan bs any dq dnq r) as [k|]; cbn [option_map app].
           ++ eexists. reflexivity.
           ++ destruct (cmem a sq) eqn:Esq; [|reflexivity].
              destruct (Hsq a Esq) as (_ & _ & _ & Hd). congruence.
        -- cbn [app]. destruct (cmem a sq); [|reflexivity].
           destruct (qscan bs any sq snq r) as [k|]; cbn [option_map]; [eexists|]; reflexivity.
Qed.

Theorem match_cap_generic p t :
  match_cap lo rx_generic (mkSt p t) =
  match scan1g t with Some k => Some (k, Some (firstn k t)) | None => None end.
Proof.
  unfold rx_generic. rewrite match_cap_group. pose proof (rx_inner_head p t) as H.
  destruct (scan1g t) as [k|] eqn:E.
  - destruct H as (tl & ->). cbn [rest]. apply scan1_le in E. rewrite adv_len by lia. reflexivity.
  - rewrite H. reflexivity.
Qed.

Lemma re_split_go_generic : forall t p skip gap,
  re_split_go lo rx_generic p skip gap t
  = Ok (spec_split_go cr lf pl bs any dq dnq sq snq skip gap t).
Proof.
  induction t as [|ch tl IH]; intros p skip gap; [reflexivity|].
  cbn [re_split_go spec_split_go]. destruct skip as [|k]; [|apply IH].
  rewrite match_cap_generic.
  destruct (scan1g (ch :: tl)) as [[|n']|] eqn:E.
  - apply scan1_le in E. lia.
  - rewrite IH. reflexivity.
  - apply IH.
Qed.
End Generic.

(* ================================================================================================
   instantiation with the regenerated SPLIT_REGEX / LINE_MATCH
   ================================================================================================ *)
(* case analysis on the comparisons of the decision trees, pruning inconsistent branches at once *)
Ltac cset_tac :=
  intros ch; unfold sx_0, sx_1, sx_2, sx_3, sx_4, sx_5, sx_6, sx_7, sx_8; cbn [cmem];
  repeat match goal with
         | |- context [N.eqb ?a ?b] => destruct (N.eqb_spec a b); try (exfalso; lia)
         end;
  repeat match goal with
         | |- context [N.ltb ?a ?b] => destruct (N.ltb_spec a b); try (exfalso; lia)
         end;
  intros; repeat split; first [reflexivity | discriminate | (exfalso; lia)].

Lemma sx_dnq : forall ch, cmem ch sx_4 = true -> cmem ch sx_5 = false /\ cmem ch sx_3 = false.
Proof. cset_tac. Qed.
Lemma sx_dbs : forall ch, cmem ch sx_5 = true -> cmem ch sx_3 = false.
Proof. cset_tac. Qed.
Lemma sx_snq : forall ch, cmem ch sx_8 = true -> cmem ch sx_5 = false /\ cmem ch sx_7 = false.
Proof. cset_tac. Qed.
Lemma sx_sbs : forall ch, cmem ch sx_5 = true -> cmem ch sx_7 = false.
Proof. cset_tac. Qed.
Lemma sx_cr : forall ch, cmem ch sx_0 = true -> cmem ch sx_1 = false.
Proof. cset_tac. Qed.
Lemma sx_lf : forall ch, cmem ch sx_1 = true -> cmem ch sx_0 = false.
Proof. cset_tac. Qed.
Lemma sx_pl : forall ch, cmem ch sx_2 = true -> cmem ch sx_0 = false /\ cmem ch sx_1 = false.
Proof. cset_tac. Qed.
Lemma sx_dq : forall ch, cmem ch sx_3 = true ->
  cmem ch sx_0 = false /\ cmem ch sx_1 = false /\ cmem ch sx_2 = false.
Proof. cset_tac. Qed.
Lemma sx_sq : forall ch, cmem ch sx_7 = true ->
  cmem ch sx_0 = false /\ cmem ch sx_1 = false /\ cmem ch sx_2 = false /\ cmem ch sx_3 = false.
Proof. cset_tac. Qed.

(* which characters the generated atoms stand for *)
Lemma sx_chars ch :
  cmem ch sx_0 = N.eqb ch 13 /\ cmem ch sx_1 = N.eqb ch 10 /\ cmem ch sx_3 = N.eqb ch 34
  /\ cmem ch sx_7 = N.eqb ch 39 /\ cmem ch sx_5 = N.eqb ch 92
  /\ cmem ch sx_6 = (N.ltb ch 1114112 && negb (N.eqb ch 10))
  /\ cmem ch sx_2 = (N.ltb ch 1114112 && negb (N.eqb ch 13 || N.eqb ch 10 || N.eqb ch 39 || N.eqb ch 34))
  /\ cmem ch sx_4 = (N.ltb ch 1114112 && negb (N.eqb ch 34 || N.eqb ch 92))
  /\ cmem ch sx_8 = (N.ltb ch 1114112 && negb (N.eqb ch 39 || N.eqb ch 92)).
Proof. repeat split; revert ch; cset_tac. Qed.

Lemma split_regex_generic :
  split_regex = rx_generic sx_0 sx_1 sx_2 sx_5 sx_6 sx_3 sx_4 sx_7 sx_8.
Proof. reflexivity. Qed.

Definition cur_scan1 : text -> option nat := scan1 sx_0 sx_1 sx_2 sx_5 sx_6 sx_3 sx_4 sx_7 sx_8.
Definition cur_spec_split : text -> list (option text) := spec_split sx_0 sx_1 sx_2 sx_5 sx_6 sx_3 sx_4 sx_7 sx_8.
Definition cur_spec_lines (t : text) : list text := spec_lines sx_0 sx_1 (cur_spec_split t) [] [].
Definition cur_spec_serialize : text -> text :=
  spec_serialize sx_0 sx_1 sx_2 sx_5 sx_6 sx_3 sx_4 sx_7 sx_8 space_set.

(* SPLIT_REGEX.match at a position = the direct scanner *)
Theorem match_cap_spec : forall p t,
  match_cap lower split_regex (mkSt p t) =
  match cur_scan1 t with Some k => Some (k, Some (firstn k t)) | None => None end.
Proof.
  intros p t. rewrite split_regex_generic.
  apply match_cap_generic; auto using sx_dnq, sx_dbs, sx_snq, sx_sbs, sx_cr, sx_lf, sx_pl, sx_dq, sx_sq.
Qed.

Theorem re_split_spec : forall t, re_split lower split_regex t = Ok (cur_spec_split t).
Proof.
  intros t. unfold re_split. rewrite split_regex_generic.
  apply re_split_go_generic; auto using sx_dnq, sx_dbs, sx_snq, sx_sbs, sx_cr, sx_lf, sx_pl, sx_dq, sx_sq.
Qed.

Lemma line_match_spec : forall w, line_match lower w = is_nl_piece sx_0 sx_1 w.
Proof.
  intros w. unfold line_match, rmatch, line_match_regex. cbn [ends rest].
  destruct w as [|a r]; [reflexivity|]. cbn [is_nl_piece flat_map fst snd rest map app].
  destruct (cmem a sx_0) eqn:E0.
  - cbn [flat_map fst snd rest map app orb]. destruct r as [|b r']; cbn [app map]; [reflexivity|].
    destruct (cmem b sx_1); reflexivity.
  - cbn [flat_map app map orb]. destruct (cmem a sx_1); reflexivity.
Qed.

Lemma sun_loop_spec : forall ps done cur, sun_loop lower ps done cur = spec_lines sx_0 sx_1 ps done cur.
Proof.
  induction ps as [|p ps IH]; intros done cur; [reflexivity|].
  cbn [sun_loop spec_lines]. destruct p as [[|a r]|]; try apply IH.
  rewrite line_match_spec. destruct (is_nl_piece sx_0 sx_1 (a :: r)); apply IH.
Qed.

Theorem sun_spec : forall t, split_unquoted_newlines t = Ok (cur_spec_lines t).
Proof.
  intros t. unfold split_unquoted_newlines. rewrite re_split_spec. cbn [bind].
  rewrite sun_loop_spec. reflexivity.
Qed.

(* The serializer, characterised without regular expressions: scan the text left to right; CR LF, CR
   or LF outside a recognised '...' / "..." segment ends a line; a quote that cannot be closed is an
   ordinary character; every line is rstripped (str.isspace characters) and the lines are joined
   with LF. *)
Theorem serialize_spec : forall t, serialize t = Ok (cur_spec_serialize t).
Proof. intros t. unfold serialize. rewrite sun_spec. reflexivity. Qed.
Print Assumptions serialize_spec.
