(* Executable model of sqlparse.filters.aligned_indent.AlignedIndentFilter as run by
   sqlparse.format(sql, reindent_aligned=True): build_filter_stack switches on grouping and the
   statement filters [StripWhitespaceFilter; AlignedIndentFilter(char=' ')], format() appends
   SerializerUnicode and joins the per-statement strings.  Definitions only.

   The filter mutates the token lists in place and addresses tokens by OBJECT (list.index on
   identity); here children are addressed by position and the positions of earlier insertions are
   threaded ([cur_idx]).  `self.offset` / `self.indent` are restored by the context managers, so
   they are passed downwards ([aenv]).  Unlike ReindentFilter no text in front of a token is ever
   inspected. *)
From SqlModel Require Import Base PyStr Re Node Passes.
From SqlModel.Gen Require Import CaseTabs Rules.
From SqlModel.Filters Require Import RxStripWs RxSerial Reindent.
From Coq Require Import ZArith.
Local Open Scope Z_scope.

Record aenv := { a_off : Z; a_ind : Z }.
Definition a_with_off (e : aenv) (n : Z) : aenv := {| a_off := a_off e + n; a_ind := a_ind e |}.
Definition a_with_ind (e : aenv) (n : Z) : aenv := {| a_off := a_off e; a_ind := a_ind e + n |}.
Definition a_init : aenv := {| a_off := 0; a_ind := 0 |}.

(* char = options['indent_char'] = ' ' (no indent_tabs);  _max_kwd_len = len('select') *)
Definition achar : N := 32%N.
Definition max_kwd_len : Z := 6.

(* nl(offset):  n + char * (max_kwd_len + offset + indent * (2 + max_kwd_len) + self.offset);
   str * negative = '' *)
Definition anl (e : aenv) (offset : Z) : node :=
  Leaf T_Whitespace
       (10%N :: repeat achar (Z.to_nat (max_kwd_len + offset + a_ind e * (2 + max_kwd_len) + a_off e))).

(* ---- Token.match(T.Keyword, split_words, regex=True): pattern.search(normalized), IGNORECASE --- *)
(* f holds at some suffix *)
Fixpoint search_at (f : text -> bool) (t : text) : bool :=
  f t || match t with [] => false | _ :: t' => search_at f t' end.

(* `\b` after a word character: end of text or a non-word character *)
Definition word_end (r : text) : bool :=
  match r with [] => true | c :: _ => negb (cmem c word_set) end.

(* join_words = ((LEFT\s+|RIGHT\s+|FULL\s+)?(INNER\s+|OUTER\s+|STRAIGHT\s+)?|(CROSS\s+|NATURAL\s+)?)?JOIN\b
   under search(): every prefix group is optional, so it is found iff JOIN\b occurs somewhere *)
Definition join_at (t : text) : bool :=
  match prefix_ci s_JOIN t with Some r => word_end r | None => false end.

Definition s_GROUP := [71;82;79;85;80]%N.
Definition s_ORDER := [79;82;68;69;82]%N.
Definition s_BY := [66;89]%N.
Definition s_ON := [79;78]%N.
Definition s_SELECT := [83;69;76;69;67;84]%N.

Fixpoint drop_rspace (t : text) : text :=
  match t with
  | c :: t' => if cmem c regex_space_set then drop_rspace t' else t
  | [] => []
  end.

(* \s+BY\b   ('B' is no white space: the greedy \s+ never has to give back) *)
Definition by_tail (r : text) : bool :=
  match r with
  | c :: r' =>
      cmem c regex_space_set &&
      match prefix_ci s_BY (drop_rspace r') with Some r2 => word_end r2 | None => false end
  | [] => false
  end.

(* by_words = (GROUP|ORDER)\s+BY\b  at the start of [t] *)
Definition by_at (t : text) : bool :=
  match prefix_ci s_GROUP t with Some r => by_tail r | None => false end
  || match prefix_ci s_ORDER t with Some r => by_tail r | None => false end.

(* the split words that are plain literals *)
Definition a_plain_words : list text :=
  [s_FROM; s_ON; s_WHERE; s_AND; s_OR; s_HAVING; s_LIMIT; s_UNION; s_VALUES; s_SET; s_BETWEEN; s_EXCEPT].

Definition kw_leaf (n : node) : option text :=
  match n with
  | Leaf ty v => if ttype_eqb ty T_Keyword then Some (knorm v) else None
  | Grp _ _ _ => None
  end.

Definition join_match (n : node) : bool :=
  match kw_leaf n with Some u => search_at join_at u | None => false end.
Definition by_match (n : node) : bool :=
  match kw_leaf n with Some u => search_at by_at u | None => false end.

Definition asplit_match (n : node) : bool :=
  match kw_leaf n with
  | Some u => existsb (fun w => search_ci false w u) a_plain_words || search_at join_at u || search_at by_at u
  | None => false
  end.

(* _next_token(tlist, idx): [start] = idx + 1; generic in the split-word test [sm] *)
Section NextToken.
Variable sm : node -> bool.
Fixpoint gnext_token (fuel : nat) (l : list node) (start : nat) : res (option (nat * node)) :=
  match fuel with
  | O => Err Stuck
  | S f =>
      match find_from sm start l with
      | None => Ok None
      | Some (tidx, tok) =>
          if text_eqb (normalized tok) s_BETWEEN then
            r <- gnext_token f l (S tidx) ;;
            match r with
            | Some (tidx2, tok2) =>
                if text_eqb (normalized tok2) s_AND then gnext_token f l (S tidx2) else Ok r
            | None => Ok None
            end
          else Ok (Some (tidx, tok))
      end
  end.
End NextToken.

Definition anext_token := gnext_token asplit_match.

(* token.value.split()[0]: the first run of non-space characters (str.isspace).  A value matched by
   join_words / by_words contains a letter, so the IndexError of [][0] is unreachable. *)
Fixpoint take_word (t : text) : text :=
  match t with
  | c :: t' => if cmem c space_set then [] else c :: take_word t'
  | [] => []
  end.
Definition first_word (t : text) : text := take_word (lstrip space_set t).

(* the aligner of a split keyword *)
Definition token_indent (tok : node) : text :=
  if join_match tok || by_match tok then first_word (nvalue tok) else text_of tok.

(* _split_kwds *)
Fixpoint asplit_kwds_loop (fuel : nat) (e : aenv) (l : list node) (cur : option (nat * node))
  : res (list node) :=
  match cur with
  | None => Ok l
  | Some (tidx, tok) =>
      match fuel with
      | O => Err Stuck
      | S f =>
          let l2 := insert_at tidx (anl e (- Z.of_nat (length (token_indent tok)))) l in
          nx <- anext_token (S (length l2)) l2 (S (S tidx)) ;;
          asplit_kwds_loop f e l2 nx
      end
  end.

Definition asplit_kwds (e : aenv) (l : list node) : res (list node) :=
  first <- anext_token (S (length l)) l 0 ;;
  asplit_kwds_loop (S (length l)) e l first.

(* for sgroup in tlist.get_sublists(): offset 3 after GROUP BY / ORDER BY; self._process(sgroup).
   [all] is the list before the loop (processing a child keeps it a group, so token_prev and the
   by_words test see the same thing), [idx] the index of the head of [l] in it *)
Fixpoint aprocess_kids (rec : aenv -> node -> res node) (e : aenv) (all : list node) (idx : nat)
         (l : list node) : res (list node) :=
  match l with
  | [] => Ok []
  | k :: l' =>
      k' <- (if is_group k then
               let off := match token_prev true false idx all with
                          | Some (_, p) => if by_match p then 3 else 0
                          | None => 0
                          end in
               rec (a_with_off e off) k
             else Ok k) ;;
      r <- aprocess_kids rec e all (S idx) l' ;;
      Ok (k' :: r)
  end.

(* _process_default *)
Definition aprocess_default (rec : aenv -> node -> res node) (e : aenv) (l : list node)
  : res (list node) :=
  l1 <- asplit_kwds e l ;;
  aprocess_kids rec e l1 0 l1.

(* _process_statement: drop a leading whitespace token, then the body as a plain TokenList *)
Definition aprocess_statement (rec : aenv -> node -> res node) (e : aenv) (l : list node)
  : res (list node) :=
  let l1 := match l with
            | x :: l' => if is_ws x && (a_ind e =? 0) then l' else l
            | [] => l
            end in
  aprocess_default rec e l1.

(* _process_parenthesis: only sub-queries (a direct child DML SELECT) are touched at all *)
Definition aprocess_parenthesis (rec : aenv -> node -> res node) (e : aenv) (l : list node)
  : res (list node) :=
  match next_by_from [] [(T_DML, Some [s_SELECT])] TNone 0 l with
  | None => Ok l
  | Some _ =>
      let e1 := a_with_ind e 1 in
      let nlv := anl e1 (- 6) in
      (* tlist.insert_after(tlist[0], self.nl('SELECT')) *)
      let l1 := match token_next true false 0 l with
                | Some (nidx, _) => insert_at nidx nlv l
                | None => l ++ [nlv]
                end in
      l2 <- aprocess_default rec e1 l1 ;;
      (* tlist.insert_before(tlist[-1], self.nl()) *)
      Ok (insert_at (length l2 - 1) (anl e 1) l2)
  end.

(* _process_identifierlist, first part: a line break before every identifier but the first *)
Fixpoint aidl_insert (nlv : node) (seen : bool) (l : list node) : list node :=
  match l with
  | [] => []
  | x :: l' =>
      if is_identifier_item x then
        if seen then nlv :: x :: aidl_insert nlv true l' else x :: aidl_insert nlv true l'
      else x :: aidl_insert nlv seen l'
  end.

Definition aidl_pre (e : aenv) (l : list node) : res (list node) :=
  if existsb is_identifier_item l then Ok (aidl_insert (anl e 1) false l)
  else Err IndexError.                                   (* identifiers.pop(0) *)

(* ---- Case.get_cases(skip_ws=True) ----------------------------------------------------------- *)
Fixpoint aget_cases_loop (l : list node) (idx : nat) (mode : cmode) (ret : list case_t)
  : list case_t :=
  match l with
  | [] => ret
  | tok :: l' =>
      if kwm tok s_CASE then aget_cases_loop l' (S idx) mode ret else
      if tt_in tok T_Whitespace then aget_cases_loop l' (S idx) mode ret else
      let '(mode1, ret1) :=
        if kwm tok s_WHEN then (MCond, ret ++ [(Some [], [])])
        else if kwm tok s_THEN then (MValue, ret)
        else if kwm tok s_ELSE then (MValue, ret ++ [(None, [])])
        else if kwm tok s_END then (MNone, ret)
        else (mode, ret) in
      let ret2 := match mode1, ret1 with
                  | MNone, _ => ret1
                  | _, [] => [(Some [], [])]
                  | _, _ => ret1
                  end in
      let ret3 := match mode1 with
                  | MCond => upd_last (fun c => (match fst c with Some cs => Some (cs ++ [idx])
                                                              | None => None end, snd c)) ret2
                  | MValue => upd_last (fun c => (fst c, snd c ++ [idx])) ret2
                  | MNone => ret2
                  end in
      aget_cases_loop l' (S idx) mode1 ret3
  end.

Definition aget_cases (l : list node) : list case_t := aget_cases_loop l 0%nat MCond [].

(* len(str(tokens[i])) *)
Definition str_len (l : list node) (i : nat) : Z :=
  match nth_error l i with Some t => Z.of_nat (length (text_of t)) | None => 0 end.

(* len(' '.join(map(str, cond))) if cond else 0 *)
Definition cond_width (l : list node) (cond : option (list nat)) : Z :=
  match cond with
  | Some (c :: cs) => fold_left (fun acc i => acc + 1 + str_len l i) cs (str_len l c)
  | _ => 0
  end.

(* the loop over the WHEN / ELSE cases; [l0] is the list before any insertion (the widths and
   str(stmt) are those of the unchanged children), [first] <-> i = 0 *)
Fixpoint acase_loop (e : aenv) (l0 : list node) (maxw : Z) (first : bool) (cases : list case_t)
         (l : list node) (ins : list nat) : res (list node * list nat) :=
  match cases with
  | [] => Ok (l, ins)
  | (cond, value) :: cases' =>
      (* stmt = cond[0] if cond else value[0] *)
      match (match cond with Some (c :: _) => Some c | _ => hd_error value end) with
      | None => Err IndexError
      | Some s0 =>
          let '(l1, ins1) :=
            if first then (l, ins)
            else let i := cur_idx ins s0 in
                 (insert_at i (anl e (10 - str_len l0 s0)) l, ins ++ [i]) in
          let '(l2, ins2) :=
            match cond with
            | Some (c :: cs) =>
                let i := cur_idx ins1 (last cs c) in
                let ws := Leaf T_Whitespace (repeat achar (Z.to_nat (maxw - cond_width l0 cond))) in
                (* tlist.insert_after(cond[-1], ws)   (skip_ws=True) *)
                match token_next true false i l1 with
                | Some (nidx, _) => (insert_at nidx ws l1, ins1 ++ [nidx])
                | None => (l1 ++ [ws], ins1)
                end
            | _ => (l1, ins1)
            end in
          acase_loop e l0 maxw false cases' l2 ins2
      end
  end.

(* _process_case: the children of a Case are not processed any further *)
Definition aprocess_case (e : aenv) (l : list node) : res (list node) :=
  let cases := aget_cases l in
  let endt := next_by_from [] [(T_Keyword, Some [s_END])] TNone 0 l in
  let maxw := fold_left Z.max (map (fun c : case_t => cond_width l (fst c)) cases) 0 in
  '(l1, ins1) <- acase_loop e l maxw true cases l [] ;;
  match cases with
  | [] => Ok l1                                  (* the END case has i = 0: no line break *)
  | _ :: _ =>
      match endt with
      | Some (eidx, _) => Ok (insert_at (cur_idx ins1 eidx) (anl e (10 - str_len l eidx)) l1)
      | None => Ok l1                            (* if end_token is not None: cases.append(...)  -- fix of C07-AL-1;
                                                    before it: tlist.insert_before(None, ...) raised ValueError *)
      end
  end.

(* _process(tlist): dispatch on the lower-cased class name *)
Fixpoint aprocess (fuel : nat) (e : aenv) (n : node) : res node :=
  match fuel with
  | O => Err Stuck
  | S f =>
      match n with
      | Leaf _ _ => Err Stuck
      | Grp c v l =>
          l' <- match c with
                | CStatement => aprocess_statement (aprocess f) e l
                | CParenthesis => aprocess_parenthesis (aprocess f) e l
                | CIdentifierList => l1 <- aidl_pre e l ;; aprocess_default (aprocess f) e l1
                | CCase => aprocess_case e l
                | _ => aprocess_default (aprocess f) e l
                end ;;
          Ok (Grp c v l')
      end
  end.

(* AlignedIndentFilter.process(stmt) *)
Definition aligned_stmt (n : node) : res node := aprocess (S (depth n)) a_init n.

(* FilterStack.run with grouping, stmtprocess = [StripWhitespaceFilter, AlignedIndentFilter]:
   statement by statement *)
Fixpoint arun_stmts (grp : node -> res node) (stmts : list node) : res (list node) :=
  match stmts with
  | [] => Ok []
  | st :: rest =>
      g <- grp st ;;
      w <- stripws_stmt g ;;
      r <- aligned_stmt w ;;
      out <- arun_stmts grp rest ;;
      Ok (r :: out)
  end.
