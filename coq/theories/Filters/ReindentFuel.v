(* The fuel given to the loops of the reindent model always suffices: on rx_safe trees the walk
   returns Ok (never Stuck, never a Python exception). *)
From SqlModel Require Import Base PyStr Re Node Inv Passes.
From SqlModel.Gen Require Import CaseTabs.
From SqlModel.Filters Require Import RxStripWs RxSerial Reindent ReindentSafe ReindentSpec ReindentFacts ReindentOwnLine.
From Coq Require Import ZArith.

(* ---- _next_token ------------------------------------------------------------------------------ *)
Lemma next_token_fuel : forall fuel A Sx, length Sx < fuel ->
  exists r, next_token fuel (A ++ Sx) (length A) = Ok r.
Proof.
  induction fuel as [|f IH]; intros A Sx Hlen; [lia|].
  cbn [next_token]. rewrite find_from_app.
  pose proof (find_from_aux_decomp split_match Sx (length A)) as Hf.
  destruct (find_from_aux split_match Sx (length A)) as [[tidx tok1]|]; [|eauto].
  destruct Hf as [M1 [R1 [HS [Hi [HM1 Hx1]]]]].
  destruct (text_eqb (normalized tok1) s_BETWEEN); [|eauto].
  assert (HA1 : A ++ Sx = (A ++ M1 ++ [tok1]) ++ R1).
  { rewrite HS. rewrite <- !app_assoc. reflexivity. }
  assert (HL1 : length (A ++ M1 ++ [tok1]) = S tidx).
  { rewrite !app_length. cbn [length]. lia. }
  assert (HlenR1 : length R1 < f).
  { rewrite HS, app_length in Hlen. cbn [length] in Hlen. lia. }
  destruct (IH (A ++ M1 ++ [tok1]) R1 HlenR1) as [r2 E2].
  rewrite HA1, <- HL1, E2. cbn [bind].
  destruct r2 as [[tidx2 tok2]|]; [|eauto].
  destruct (text_eqb (normalized tok2) s_AND); [|eauto].
  apply next_token_spec in E2. destruct E2 as [M2 [R2 [HR1 [Hi2 _]]]].
  assert (HA2 : (A ++ M1 ++ [tok1]) ++ R1 = ((A ++ M1 ++ [tok1]) ++ M2 ++ [tok2]) ++ R2).
  { rewrite HR1. rewrite <- !app_assoc. reflexivity. }
  assert (HL2 : length ((A ++ M1 ++ [tok1]) ++ M2 ++ [tok2]) = S tidx2).
  { rewrite Hi2, (app_length (A ++ M1 ++ [tok1]) (M2 ++ [tok2])), (app_length M2 [tok2]). cbn [length]. lia. }
  rewrite HA2, <- HL2. apply IH.
  rewrite HR1, app_length in HlenR1. cbn [length] in HlenR1. lia.
Qed.

Lemma next_token_total l start :
  exists r, next_token (S (length l)) l start = Ok r /\
            match r with Some (i, _) => start <= i < length l | None => True end.
Proof.
  destruct (le_lt_dec start (length l)) as [Hle | Hgt].
  - assert (HA : length (firstn start l) = start) by (apply firstn_length_le; exact Hle).
    destruct (next_token_fuel (S (length l)) (firstn start l) (skipn start l)) as [r E].
    { rewrite skipn_length. lia. }
    pose proof (next_token_spec _ _ _ _ E) as Hspec. rewrite HA in Hspec.
    rewrite firstn_skipn, HA in E. exists r. split; [exact E|].
    destruct r as [[i tok]|]; [|exact I].
    destruct Hspec as [M [R [HS [Hi _]]]].
    assert (HL : length l = start + length (skipn start l)) by (rewrite skipn_length; lia).
    rewrite HS, app_length in HL. cbn [length] in HL. lia.
  - exists None. split; [|exact I]. cbn [next_token]. unfold find_from.
    rewrite skipn_all2 by lia. reflexivity.
Qed.

(* ---- the two splitting loops ------------------------------------------------------------------ *)
Lemma insert_at_length (x : node) i l : length (insert_at i x l) = S (length l).
Proof.
  unfold insert_at. rewrite app_length. cbn [length].
  rewrite <- (firstn_skipn i l) at 3. rewrite app_length. lia.
Qed.

Lemma remove_at_length : forall (l : list node) i, i < length l -> length (remove_at i l) = length l - 1.
Proof.
  induction l as [|y l IH]; intros i Hi; [cbn in Hi; lia|].
  destruct i as [|i]; cbn [remove_at length]; [lia|].
  cbn [length] in Hi. rewrite IH by lia. lia.
Qed.

Lemma token_prev_bound sw sc tidx l pidx p :
  token_prev sw sc tidx l = Some (pidx, p) -> pidx < tidx /\ pidx < length l.
Proof.
  intros H. pose proof (token_prev_nth _ _ _ _ _ _ H) as Hn.
  unfold token_prev, find_before in H. apply find_last_aux_nth in H.
  destruct H as [H | [_ H]]; [discriminate|]. rewrite Nat.sub_0_r in H.
  assert (H1 : pidx < length (firstn tidx l)) by (apply nth_error_Some; rewrite H; discriminate).
  rewrite firstn_length in H1. split; [lia|]. apply nth_error_Some. rewrite Hn. discriminate.
Qed.

(* the deletion step keeps  length - index  *)
Lemma del_step_measure (l : list node) tidx sw sc l1 tidx1 : tidx <= length l ->
  match token_prev sw sc tidx l with
  | Some (pidx, p) => if is_ws p then (remove_at pidx l, tidx - 1) else (l, tidx)
  | None => (l, tidx)
  end = (l1, tidx1) ->
  length l1 + tidx = length l + tidx1 /\ tidx1 <= length l1.
Proof.
  intros Hle H. destruct (token_prev sw sc tidx l) as [[pidx p]|] eqn:E.
  - apply token_prev_bound in E. destruct E as [E1 E2].
    destruct (is_ws p); injection H as <- <-; [|lia].
    rewrite remove_at_length by exact E2. lia.
  - injection H as <- <-. lia.
Qed.

Lemma split_kwds_loop_total v : forall fuel l cur,
  match cur with Some (tidx, _) => tidx < length l /\ length l - tidx <= fuel | None => True end ->
  exists r, split_kwds_loop fuel (Leaf T_Whitespace v) l cur = Ok r.
Proof.
  induction fuel as [|f IH]; intros l cur Hc.
  - destruct cur as [[tidx tk]|]; [lia | cbn; eauto].
  - destruct cur as [[tidx tk]|]; [|cbn; eauto]. destruct Hc as [Hlt Hm].
    cbn [split_kwds_loop].
    destruct (match token_prev false false tidx l with
              | Some (pidx, p) => if is_ws p then (remove_at pidx l, (tidx - 1)%nat) else (l, tidx)
              | None => (l, tidx) end) as [l1 tidx1] eqn:E1.
    apply del_step_measure in E1; [|lia]. destruct E1 as [Hq1 Hb1].
    destruct (if match token_prev false false tidx l with
                 | Some (_, p) => ends_nl (text_of p) | None => false end
              then (l1, tidx1) else (insert_at tidx1 (Leaf T_Whitespace v) l1, S tidx1)) as [l2 tidx2] eqn:E2.
    assert (Hq2 : length l2 + tidx = length l + tidx2 /\ tidx2 <= length l2).
    { destruct (match token_prev false false tidx l with
                | Some (_, p) => ends_nl (text_of p) | None => false end);
        injection E2 as <- <-; [split; assumption|]. rewrite insert_at_length. lia. }
    destruct Hq2 as [Hq2 Hb2].
    destruct (next_token_total l2 (S tidx2)) as [nx [-> Hnx]]. cbn [bind].
    apply IH. destruct nx as [[i tok]|]; [|exact I]. lia.
Qed.

Lemma split_kwds_total o e l : exists r, split_kwds o e l = Ok r.
Proof.
  unfold split_kwds. destruct (next_token_total l 0) as [first [-> Hf]]. cbn [bind].
  apply split_kwds_loop_total. destruct first as [[i tok]|]; [|exact I]. lia.
Qed.

Lemma find_from_bound f start (l : list node) i x :
  find_from f start l = Some (i, x) -> start <= i < length l.
Proof.
  unfold find_from. intros H.
  pose proof (find_from_aux_decomp f (skipn start l) start) as Hd. rewrite H in Hd.
  destruct Hd as [M [R [HS [Hi _]]]].
  assert (HL : length (skipn start l) = length M + S (length R)) by (rewrite HS, app_length; reflexivity).
  rewrite skipn_length in HL. lia.
Qed.

Lemma split_statements_loop_total v : forall fuel l cur,
  match cur with Some (tidx, _) => tidx < length l /\ length l - tidx <= fuel | None => True end ->
  exists r, split_statements_loop fuel (Leaf T_Whitespace v) l cur = Ok r.
Proof.
  induction fuel as [|f IH]; intros l cur Hc.
  - destruct cur as [[tidx tk]|]; [lia | cbn; eauto].
  - destruct cur as [[tidx tk]|]; [|cbn; eauto]. destruct Hc as [Hlt Hm].
    cbn [split_statements_loop].
    destruct (match token_prev false false tidx l with
              | Some (pidx, p) => if is_ws p then (remove_at pidx l, (tidx - 1)%nat) else (l, tidx)
              | None => (l, tidx) end) as [l1 tidx1] eqn:E1.
    apply del_step_measure in E1; [|lia]. destruct E1 as [Hq1 Hb1].
    destruct (match token_prev false false tidx l with
              | Some _ => (insert_at tidx1 (Leaf T_Whitespace v) l1, S tidx1)
              | None => (l1, tidx1) end) as [l2 tidx2] eqn:E2.
    assert (Hq2 : length l2 + tidx = length l + tidx2 /\ tidx2 <= length l2).
    { destruct (token_prev false false tidx l);
        injection E2 as <- <-; [rewrite insert_at_length; lia | split; assumption]. }
    destruct Hq2 as [Hq2 Hb2].
    apply IH. destruct (find_from is_dml_ddl (S tidx2) l2) as [[i tok]|] eqn:Ef; [|exact I].
    apply find_from_bound in Ef. lia.
Qed.

Lemma split_statements_total o e l : exists r, split_statements o e l = Ok r.
Proof.
  unfold split_statements. apply split_statements_loop_total.
  destruct (find_from is_dml_ddl 0 l) as [[i tok]|] eqn:Ef; [|exact I].
  apply find_from_bound in Ef. lia.
Qed.

(* ---- _process_identifierlist ------------------------------------------------------------------ *)
Lemma cur_idx_le : forall ins i, cur_idx ins i <= i + length ins.
Proof.
  unfold cur_idx. induction ins as [|p ins IH]; intros i; cbn [fold_left length]; [lia|].
  destruct (Nat.leb p i); [specialize (IH (S i)) | specialize (IH i)]; lia.
Qed.

Lemma nth_error_lt_some (l : list node) i : i < length l -> exists x, nth_error l i = Some x.
Proof.
  intros H. destruct (nth_error l i) as [x|] eqn:E; [eauto|].
  apply nth_error_None in E. lia.
Qed.

Lemma idl_wrap_a_total o e : forall ids l ins position,
  Forall (fun i0 => i0 + length ins < length l) ids ->
  exists r, idl_wrap_a o e l ins ids position = Ok r.
Proof.
  induction ids as [|i0 ids IH]; intros l ins position HF; cbn [idl_wrap_a]; [eauto|].
  inversion HF as [|? ? Hi0 HF']; subst.
  destruct (nth_error_lt_some l (cur_idx ins i0)) as [tok ->]; [pose proof (cur_idx_le ins i0); lia|].
  destruct (position + vlen tok + 1 >? o_wrap o - e_off e)%Z; [|apply IH; exact HF'].
  destruct (o_comma_first o).
  - destruct (token_prev true false (cur_idx ins i0) l) as [[cidx c]|]; [|apply IH; exact HF'].
    destruct (nth_error (insert_at cidx (nl o e (-2)) l) (S (S cidx))) as [ws|].
    + destruct (negb (tt_is ws T_Whitespace)).
      * destruct (token_next true false (S cidx) (insert_at cidx (nl o e (-2)) l)) as [[nidx nx]|].
        -- apply IH. eapply Forall_impl; [|exact HF']. intros a Ha. cbn beta in *.
           rewrite !insert_at_length, !app_length. cbn [length]. lia.
        -- apply IH. eapply Forall_impl; [|exact HF']. intros a Ha. cbn beta in *.
           rewrite !app_length, insert_at_length. cbn [length]. lia.
      * apply IH. eapply Forall_impl; [|exact HF']. intros a Ha. cbn beta in *.
        rewrite insert_at_length, app_length. cbn [length]. lia.
    + apply IH. eapply Forall_impl; [|exact HF']. intros a Ha. cbn beta in *.
      rewrite insert_at_length, app_length. cbn [length]. lia.
  - apply IH. eapply Forall_impl; [|exact HF']. intros a Ha. cbn beta in *.
    rewrite insert_at_length, app_length. cbn [length]. lia.
Qed.

Lemma idl_wrap_b_total o e : forall ids l ins position,
  Forall (fun i0 => i0 + length ins < length l) ids ->
  exists r, idl_wrap_b o e l ins ids position = Ok r.
Proof.
  induction ids as [|i0 ids IH]; intros l ins position HF; cbn [idl_wrap_b]; [eauto|].
  inversion HF as [|? ? Hi0 HF']; subst.
  destruct (nth_error_lt_some l (cur_idx ins i0)) as [tok ->]; [pose proof (cur_idx_le ins i0); lia|].
  destruct ((o_wrap o >? 0)%Z && (position + vlen tok + 1 >? o_wrap o - e_off e)%Z); [|apply IH; exact HF'].
  apply IH. eapply Forall_impl; [|exact HF']. intros a Ha. cbn beta in *.
  rewrite insert_at_length, app_length. cbn [length]. lia.
Qed.

Lemma token_next_tf_next (l : list node) k nx :
  nth_error l (S k) = Some nx -> is_ws nx = false -> token_next true false k l = Some (S k, nx).
Proof.
  intros Hn Hw. unfold token_next, find_from. rewrite (nth_error_split_skipn _ _ _ Hn).
  cbn [find_from_aux]. unfold skip_matcher. rewrite Hw. reflexivity.
Qed.

Lemma nth_error_insert_at (x : node) i l : i <= length l -> nth_error (insert_at i x l) i = Some x.
Proof.
  intros H. unfold insert_at. rewrite nth_error_app2; rewrite firstn_length_le by exact H; [|lia].
  rewrite Nat.sub_diag. reflexivity.
Qed.

Definition phi (l : list node) (k : nat) : nat :=
  match nth_error l k with
  | None => 0
  | Some tok => 2 * (length l - k) - (if text_eqb (nvalue tok) s_comma then 0 else 1)
  end.

Lemma phi_next (l : list node) k : k < length l -> phi l (S k) <= 2 * (length l - k) - 2.
Proof.
  intros H. unfold phi. destruct (nth_error l (S k)) as [t|]; [|lia].
  destruct (text_eqb (nvalue t) s_comma); lia.
Qed.

Lemma ensure_ws_total : forall fuel k l ins, last_not_comma l = true -> phi l k < fuel ->
  exists l' ins', ensure_ws fuel k l ins = Ok (l', ins') /\ length l + length ins' <= length l' + length ins.
Proof.
  induction fuel as [|f IH]; intros k l ins Hl Hphi; [lia|]. cbn [ensure_ws].
  destruct (nth_error l k) as [tok|] eqn:Ek; [|exists l, ins; split; [reflexivity | lia]].
  assert (Hk : k < length l) by (apply nth_error_Some; rewrite Ek; discriminate).
  unfold phi in Hphi. rewrite Ek in Hphi.
  destruct (text_eqb (nvalue tok) s_comma) eqn:Ec.
  2:{ apply IH; [exact Hl|]. pose proof (phi_next l k Hk). lia. }
  destruct (nth_error l (S k)) as [nx|] eqn:En.
  2:{ exfalso. unfold last_not_comma in Hl. rewrite (nth_error_last _ _ _ sp Ek En), Ec in Hl. discriminate. }
  destruct (is_ws nx) eqn:Ew.
  { apply IH; [exact Hl|]. pose proof (phi_next l k Hk). lia. }
  rewrite (token_next_tf_next _ _ _ En Ew).
  assert (HSk : S k <= length l) by lia.
  destruct (IH (S k) (insert_at (S k) sp l) (ins ++ [S k])) as [l' [ins' [E Hlen]]].
  - apply last_not_comma_insert_sp; exact Hl.
  - unfold phi. rewrite (nth_error_insert_at sp (S k) l HSk), insert_at_length. cbn [nvalue sp text_eqb s_comma N.eqb].
    cbn. lia.
  - exists l', ins'. split; [exact E|]. rewrite insert_at_length, app_length in Hlen. cbn [length] in Hlen. lia.
Qed.

Lemma indices_where_bound f : forall (l : list node) base,
  Forall (fun i => base <= i < base + length l) (indices_where f l base).
Proof.
  induction l as [|x l IH]; intros base; cbn [indices_where]; [constructor|].
  assert (H : Forall (fun i => base <= i < base + length (x :: l)) (indices_where f l (S base))).
  { eapply Forall_impl; [|apply IH]. intros a Ha. cbn [length] in *. cbn beta in *. lia. }
  destruct (f x); [constructor; [cbn [length]; lia | exact H] | exact H].
Qed.

Lemma okish_ok {A} (Q : A -> Prop) (m : res A) r : okish Q m -> m = Ok r -> Q r.
Proof. intros H ->. exact H. Qed.

Lemma process_identifierlist_total o e inFV pre lf l : idl_safe inFV l = true ->
  exists r, process_identifierlist o e inFV pre lf l = Ok r /\ wsedit l r.
Proof.
  intros Hs.
  assert (Hex : exists r, process_identifierlist o e inFV pre lf l = Ok r).
  { unfold idl_safe in Hs. unfold process_identifierlist.
    pose proof (indices_where_bound is_identifier_item l 0) as Hb.
    destruct (indices_where is_identifier_item l 0) as [|i rest]; [discriminate|].
    destruct (nth_error l i) as [tok|]; [|discriminate].
    apply andb_true_iff in Hs. destruct Hs as [Hleaf Hfv].
    destruct (has_leaf_first_leaf _ Hleaf) as [x ->]. cbn [bind].
    assert (Hgen : forall ids num_offset, Forall (fun i0 => i0 < length l) ids ->
              (inFV = true -> ids <> [] /\ last_not_comma l = true) ->
              exists r,
                (if negb inFV then idl_wrap_a o (with_off e num_offset) l [] ids 0
                 else bind (ensure_ws (S (2 * length l)) 0 l [])
                        (fun '(l1, ins1) =>
                           let end_at := (e_off e + sum_vlen1 l ids)%Z in
                           let adjusted := match lf with
                                           | Some fv => if ((o_wrap o >? 0) && (end_at >? o_wrap o - e_off e))%Z
                                                        then (- Z.of_nat (length fv) - 1)%Z else 0%Z
                                           | None => 0%Z end in
                           let e' := with_ind (with_off e adjusted) 1 in
                           bind (if (adjusted <? 0)%Z
                                 then match ids with
                                      | [] => Err IndexError
                                      | i0 :: _ => let i := cur_idx ins1 i0 in
                                                   Ok (insert_at i (nl o e' 0) l1, ins1 ++ [i])
                                      end
                                 else Ok (l1, ins1))
                                (fun '(l2, ins2) => idl_wrap_b o e' l2 ins2 ids 0))) = Ok r).
    { intros ids num_offset Hids Hfvs. destruct inFV; cbn [negb].
      2:{ apply idl_wrap_a_total. eapply Forall_impl; [|exact Hids]. intros a Ha. cbn beta in *. cbn [length]. lia. }
      destruct (Hfvs eq_refl) as [Hne Hlast].
      destruct (ensure_ws_total (S (2 * length l)) 0 l [] Hlast) as [l1 [ins1 [-> Hlen]]].
      { unfold phi. destruct (nth_error l 0) as [t|]; [|lia]. destruct (text_eqb (nvalue t) s_comma); lia. }
      cbn [bind]. cbv zeta. cbn [length] in Hlen.
      match goal with |- exists r, bind (if ?c then _ else _) _ = _ => destruct c end.
      - destruct ids as [|i0 ids']; [exfalso; apply Hne; reflexivity|]. cbn [bind].
        apply idl_wrap_b_total. eapply Forall_impl; [|exact Hids]. intros a Ha. cbn beta in *.
        rewrite insert_at_length, app_length. cbn [length]. lia.
      - cbn [bind]. apply idl_wrap_b_total. eapply Forall_impl; [|exact Hids]. intros a Ha. cbn beta in *. lia. }
    assert (Hb' : Forall (fun i0 => i0 < length l) (i :: rest)).
    { eapply Forall_impl; [|exact Hb]. intros a Ha. cbn beta in *. lia. }
    destruct (o_columns o); cbn [bind].
    - apply Hgen; [exact Hb'|]. intros Hf. rewrite Hf in Hfv. cbn in Hfv. apply andb_true_iff in Hfv.
      split; [discriminate | tauto].
    - apply Hgen; [inversion Hb'; assumption|]. intros Hf. rewrite Hf in Hfv. cbn in Hfv.
      apply andb_true_iff in Hfv. destruct Hfv as [Hr Hl]. split; [|exact Hl].
      destruct rest; [discriminate | discriminate]. }
  destruct Hex as [r Hr]. exists r. split; [exact Hr|].
  eapply okish_ok; [apply process_identifierlist_okish; exact Hs | exact Hr].
Qed.

(* ---- _process_case / _process_values ---------------------------------------------------------- *)
Lemma case_loop_total o e l0 : forall cases l ins,
  forallb (fun cv : case_t => match fst cv with
                              | None => negb (is_nil (snd cv))
                              | Some cs => negb (is_nil cs) end) cases = true ->
  exists r, case_loop o e l0 cases l ins = Ok r.
Proof.
  induction cases as [|[cond value] cases IH]; intros l ins Hs; cbn [case_loop]; [eauto|].
  cbn [forallb fst snd] in Hs. apply andb_true_iff in Hs. destruct Hs as [Hc Hs].
  match goal with |- exists r, (if ?c then _ else _) = _ => destruct c end; [|apply IH; exact Hs].
  destruct cond as [cs|].
  - destruct cs as [|i0 rest]; [discriminate|]. apply IH; exact Hs.
  - destruct value as [|i0 rest]; [discriminate|]. apply IH; exact Hs.
Qed.

Lemma offset_of_child_total o e pre l i : i < length l -> Forall (fun k => has_leaf k = true) l ->
  exists z, offset_of_child o e pre l i = Ok z.
Proof.
  intros Hi HF. unfold offset_of_child. destruct (nth_error_lt_some l i Hi) as [tok E]. rewrite E.
  assert (Hl : has_leaf tok = true).
  { rewrite Forall_forall in HF. apply HF. eapply nth_error_In; exact E. }
  destruct (has_leaf_first_leaf _ Hl) as [x ->]. cbn [bind]. eauto.
Qed.

Fixpoint cnt (f : node -> bool) (l : list node) : nat :=
  match l with [] => 0 | x :: l' => (if f x then 1 else 0) + cnt f l' end.

Lemma cnt_app f a b : cnt f (a ++ b) = cnt f a + cnt f b.
Proof. induction a as [|x a IH]; [reflexivity|]. cbn [app cnt]. rewrite IH. lia. Qed.

Lemma cnt_le_length f l : cnt f l <= length l.
Proof. induction l as [|x l IH]; [cbn; lia|]. cbn [cnt length]. destruct (f x); lia. Qed.

Lemma cnt_insert_at f x i l : f x = false -> cnt f (insert_at i x l) = cnt f l.
Proof.
  intros Hx. unfold insert_at. rewrite cnt_app. cbn [cnt]. rewrite Hx.
  rewrite <- (firstn_skipn i l) at 3. rewrite cnt_app. lia.
Qed.

Lemma insert_at_cons (x y : node) j l : insert_at (S j) x (y :: l) = y :: insert_at j x l.
Proof. reflexivity. Qed.

Lemma skipn_insert_at (x : node) : forall k j l, k <= j -> j <= length l ->
  skipn k (insert_at j x l) = insert_at (j - k) x (skipn k l).
Proof.
  induction k as [|k IH]; intros j l Hkj Hjl.
  - rewrite Nat.sub_0_r. reflexivity.
  - destruct j as [|j]; [lia|]. destruct l as [|y l]; [cbn [length] in Hjl; lia|].
    rewrite insert_at_cons. cbn [skipn]. cbn [length] in Hjl. rewrite IH by lia. reflexivity.
Qed.

Lemma cnt_skipn_insert f x k j l : f x = false -> k <= j -> j <= length l ->
  cnt f (skipn k (insert_at j x l)) = cnt f (skipn k l).
Proof. intros Hx Hkj Hjl. rewrite skipn_insert_at by assumption. apply cnt_insert_at; exact Hx. Qed.

Lemma find_from_cnt f start (l : list node) i x :
  find_from f start l = Some (i, x) -> i < length l /\ cnt f (skipn (S i) l) < cnt f (skipn start l).
Proof.
  intros H. pose proof (find_from_bound _ _ _ _ _ H) as Hb. split; [lia|].
  unfold find_from in H. pose proof (find_from_aux_decomp f (skipn start l) start) as Hd. rewrite H in Hd.
  destruct Hd as [M [R [HS [Hi [_ Hx]]]]].
  replace (S i) with ((S (length M)) + start) by lia. rewrite skipn_add, HS.
  replace (M ++ x :: R) with ((M ++ [x]) ++ R) by (rewrite <- app_assoc; reflexivity).
  replace (S (length M)) with (length (M ++ [x])) by (rewrite app_length; cbn [length]; lia).
  rewrite skipn_app_exact. rewrite !cnt_app. cbn [cnt]. rewrite Hx. lia.
Qed.

Lemma token_next_bound sw sc k (l : list node) i x : token_next sw sc k l = Some (i, x) -> S k <= i < length l.
Proof. unfold token_next. apply find_from_bound. Qed.

Lemma values_loop_total o e pre first_idx : forall fuel l cur,
  Forall (fun k => has_leaf k = true) l -> first_idx < length l ->
  match cur with
  | Some (tidx, _) => tidx < length l /\ cnt is_paren (skipn (S tidx) l) < fuel
  | None => True
  end ->
  exists r, values_loop fuel o e pre first_idx l cur = Ok r.
Proof.
  induction fuel as [|f IH]; intros l cur HF Hfi Hc.
  - destruct cur as [[tidx tk]|]; [lia | cbn; eauto].
  - destruct cur as [[tidx tk]|]; [|cbn; eauto]. destruct Hc as [Hlt Hm]. cbn [values_loop].
    assert (Hstep : exists l',
              match next_by_from [] [(T_Punctuation, Some [s_comma])] TNone (S tidx) l with
              | Some (ptidx, _) =>
                  if o_comma_first o
                  then bind (offset_of_child o e pre l first_idx) (fun off => Ok (insert_at ptidx (nl o e (off + -2)) l))
                  else bind (offset_of_child o e pre l tidx)
                         (fun off => match token_next true false ptidx l with
                                     | Some (nidx, _) => Ok (insert_at nidx (nl o e off) l)
                                     | None => Ok (l ++ [nl o e off])
                                     end)
              | None => Ok l
              end = Ok l' /\ Forall (fun k => has_leaf k = true) l' /\ length l <= length l' /\
              cnt is_paren (skipn (S tidx) l') = cnt is_paren (skipn (S tidx) l)).
    { destruct (next_by_from [] [(T_Punctuation, Some [s_comma])] TNone (S tidx) l) as [[ptidx pt]|] eqn:Ep;
        [|exists l; repeat split; [exact HF | lia]].
      unfold next_by_from in Ep. apply find_from_bound in Ep.
      destruct (o_comma_first o).
      - destruct (offset_of_child_total o e pre l first_idx Hfi HF) as [off ->]. cbn [bind].
        eexists. split; [reflexivity|]. split; [apply Forall_insert_at; [exact HF | reflexivity]|].
        split; [rewrite insert_at_length; lia|]. apply cnt_skipn_insert; [reflexivity | lia | lia].
      - destruct (offset_of_child_total o e pre l tidx Hlt HF) as [off ->]. cbn [bind].
        destruct (token_next true false ptidx l) as [[nidx nx]|] eqn:En.
        + apply token_next_bound in En.
          eexists. split; [reflexivity|]. split; [apply Forall_insert_at; [exact HF | reflexivity]|].
          split; [rewrite insert_at_length; lia|]. apply cnt_skipn_insert; [reflexivity | lia | lia].
        + eexists. split; [reflexivity|]. rewrite <- insert_at_end.
          split; [apply Forall_insert_at; [exact HF | reflexivity]|].
          split; [rewrite insert_at_length; lia|]. apply cnt_skipn_insert; [reflexivity | lia | lia]. }
    destruct Hstep as [l' [-> [HF' [Hlen Hcnt]]]]. cbn [bind].
    apply IH; [exact HF' | lia |].
    destruct (find_from is_paren (S tidx) l') as [[i tok]|] eqn:Ef; [|exact I].
    apply find_from_cnt in Ef. lia.
Qed.

Lemma process_values_total o e pre l : forallb has_leaf l = true ->
  exists r, process_values o e pre l = Ok r.
Proof.
  intros Hs. unfold process_values.
  assert (HF : Forall (fun k => has_leaf k = true) (nl o e 0 :: l)).
  { constructor; [reflexivity|]. apply Forall_forall. intros x Hx.
    rewrite forallb_forall in Hs. apply Hs; exact Hx. }
  destruct (find_from is_paren 0 (nl o e 0 :: l)) as [[tidx tok]|] eqn:Ef; [|eauto].
  pose proof (find_from_bound _ _ _ _ _ Ef) as Hb.
  apply values_loop_total; [exact HF | lia |]. split; [lia|].
  pose proof (cnt_le_length is_paren (skipn (S tidx) (nl o e 0 :: l))) as Hc.
  rewrite skipn_length in Hc. lia.
Qed.

(* ---- the walk --------------------------------------------------------------------------------- *)
Lemma depth_kids c v l f : depth (Grp c v l) <= S f -> Forall (fun k => depth k <= f) l.
Proof.
  cbn [depth]. intros H. apply le_S_n in H.
  induction l as [|k l IH]; [constructor|]. cbn [fold_right] in H.
  constructor; [lia | apply IH; lia].
Qed.

Lemma process_kids_total (rec : text -> option text -> node -> res (option text * node)) (P : node -> Prop) :
  (forall pre lf k, P k -> is_group k = true -> exists r, rec pre lf k = Ok r) ->
  forall l pre lf done_rev, Forall P l -> exists r, process_kids rec pre lf done_rev l = Ok r.
Proof.
  intros Hrec. induction l as [|k l IH]; intros pre lf done_rev HF; cbn [process_kids]; [eauto|].
  inversion HF as [|? ? Hk Hl]; subst.
  destruct (is_group k) eqn:Eg; [|apply IH; exact Hl].
  destruct (Hrec pre lf k Hk Eg) as [[lf1 k1] ->]. cbn [bind]. apply IH; exact Hl.
Qed.

(* reindent_total (tree level, full): on an rx_safe group the walk returns Ok *)
Theorem rprocess_total : forall fuel o e inF inV pre lf n,
  is_group n = true -> rx_safe inF inV n = true -> depth n <= fuel ->
  exists r, rprocess fuel o e inF inV pre lf n = Ok r.
Proof.
  induction fuel as [|f IH]; intros o e inF inV pre lf n Hg Hs Hd.
  - destruct n; [discriminate | cbn [depth] in Hd; lia].
  - destruct n as [ty v | c v l]; [discriminate|]. cbn [rprocess].
    cbn [rx_safe] in Hs. apply andb_true_iff in Hs. destruct Hs as [Hloc Hkids].
    set (inF' := inF || cls_eqb c CFunction) in *. set (inV' := inV || cls_eqb c CValues) in *.
    set (rec := (fun e' a b pre' lf'0 k => rprocess f o e' (a || cls_eqb c CFunction) (b || cls_eqb c CValues) pre' lf'0 k) : rec_t).
    set (P := fun k => rx_safe inF' inV' k = true /\ depth k <= f).
    assert (HF : Forall P l).
    { pose proof (depth_kids _ _ _ _ Hd) as Hdk. rewrite Forall_forall in Hdk |- *. intros x Hx.
      rewrite forallb_forall in Hkids. split; [apply Hkids; exact Hx | apply Hdk; exact Hx]. }
    assert (Hws : forall w, P (Leaf T_Whitespace w)) by (intros w; split; [reflexivity | cbn; lia]).
    assert (Hdef : forall e1 lf1 stmts l1, wsedit l l1 ->
              exists r, process_default rec o e1 inF inV pre lf1 stmts l1 = Ok r).
    { intros e1 lf1 stmts l1 Hw. unfold process_default.
      assert (H2 : exists l2, (if stmts then split_statements o e1 l1 else Ok l1) = Ok l2 /\ wsedit l1 l2).
      { destruct stmts; [|exists l1; split; [reflexivity | apply we_refl]].
        destruct (split_statements_total o e1 l1) as [l2 E]. exists l2. split; [exact E|].
        eapply okish_ok; [apply split_statements_okish | exact E]. }
      destruct H2 as [l2 [-> Hw2]]. cbn [bind].
      destruct (split_kwds_total o e1 l2) as [l3 E3]. rewrite E3. cbn [bind].
      assert (Hw3 : wsedit l2 l3) by (eapply okish_ok; [apply split_kwds_okish | exact E3]).
      eapply process_kids_total with (P := P).
      - intros p1 lf2 k [Hk1 Hk2] Hgk. apply IH; assumption.
      - eapply wsedit_Forall; [exact Hws | | exact HF].
        eapply wsedit_trans; [exact Hw | eapply wsedit_trans; eauto]. }
    assert (Hfin : forall m : res (option text * list node),
              (exists r, m = Ok r) ->
              exists r, bind m (fun '(lf', l') => Ok (lf', Grp c v l')) = Ok r).
    { intros m [[lf1 l1] ->]. cbn [bind]. eauto. }
    apply Hfin.
    destruct c; try (apply Hdef; apply we_refl).
    + (* IdentifierList *)
      destruct (process_identifierlist_total o e (inF || inV) pre lf l Hloc) as [l1 [-> H1]]. cbn [bind].
      apply Hdef; exact H1.
    + (* Parenthesis *)
      unfold process_parenthesis.
      destruct (next_by_from [] (m_open CParenthesis) TNone 0 l) as [[fidx ft]|] eqn:Ef; [|eauto].
      unfold next_by_from, find_from in Ef. cbn [skipn] in Ef. apply find_from_aux_spec in Ef.
      destruct Ef as [_ [Hn Hm]]. rewrite Nat.sub_0_r in Hn.
      assert (Hleaf : has_leaf ft = true).
      { unfold imt in Hm. cbn [inst_any existsb tmatch m_open] in Hm.
        rewrite !orb_false_r in Hm. cbn [orb] in Hm. eapply match_pat_leaf; exact Hm. }
      destruct (has_leaf_first_leaf _ Hleaf) as [x Hx].
      unfold offset_of_child.
      destruct (match find_from is_dml_ddl 0 l with Some _ => true | None => false end).
      * cbn [nth_error]. rewrite Hn, Hx. cbn [bind]. apply Hdef. apply we_cons, we_refl.
      * rewrite Hn, Hx. cbn [bind]. apply Hdef. apply we_refl.
    + (* Where *)
      unfold process_where.
      destruct (next_by_from [] [(T_Keyword, Some [s_WHERE])] TNone 0 l) as [[tidx tk]|]; [|eauto].
      apply Hdef. apply we_ins, we_refl.
    + (* Case *)
      unfold process_case. unfold local_safe, case_safe in Hloc.
      destruct (get_cases l) as [|[cond vs] rest]; [discriminate|].
      destruct cond as [[|c0 cs]|]; try discriminate.
      destruct (nth_error l c0) as [ctok|] eqn:Ec; [|discriminate].
      destruct (nth_error l 0) as [t0|] eqn:E0; [|rewrite andb_false_r in Hloc; discriminate].
      apply andb_true_iff in Hloc. destruct Hloc as [Hloc Hrest].
      apply andb_true_iff in Hloc. destruct Hloc as [Hc Ht0].
      destruct (has_leaf_first_leaf _ Hc) as [x Hx]. destruct (has_leaf_first_leaf _ Ht0) as [x0 Hx0].
      rewrite Hx. cbn [bind]. unfold offset_of_child. rewrite E0, Hx0. cbn [bind]. rewrite Ec, Hx. cbn [bind].
      match goal with |- exists r, bind (case_loop ?a ?b ?c0 ?d ?e0 ?g) _ = _ =>
        destruct (case_loop_total a b c0 d e0 g Hrest) as [l1 E1];
        pose proof (okish_ok _ _ _ (case_loop_okish a b c0 d e0 g Hrest) E1) as H1; rewrite E1 end.
      cbn [bind].
      match goal with |- exists r, bind (process_default ?r0 ?a ?b ?c0 ?d ?e0 ?g ?h ?i) _ = _ =>
        destruct (Hdef b g h i H1) as [[lf2 l2] ->] end.
      cbn [bind].
      destruct (next_by_from [] (m_close CCase) TNone 0 l2) as [[end_idx et]|]; [|eauto].
      destruct (negb (o_compact o)); eauto.
    + (* Function *)
      unfold process_function. destruct l as [|fh lt]; [discriminate|]. apply Hdef, we_refl.
    + (* Values *)
      destruct (process_values_total o e pre l Hloc) as [l1 ->]. cbn [bind]. eauto.
Qed.
Print Assumptions rprocess_total.

(* reindent_total: ReindentFilter.process(stmt) returns normally on an rx_safe statement *)
Theorem reindent_stmt_total o s n :
  is_group n = true -> rx_safe false false n = true -> exists r, reindent_stmt o s n = Ok r.
Proof.
  intros Hg Hs. unfold reindent_stmt.
  destruct (rprocess_total (S (depth n)) o (init_env o) false false [] (r_lf s) n Hg Hs) as [[lf1 n1] ->]; [lia|].
  cbn [bind]. eauto.
Qed.
Print Assumptions reindent_stmt_total.
