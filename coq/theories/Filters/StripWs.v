(* Model of sqlparse.filters.others.StripWhitespaceFilter and StripTrailingSemicolonFilter.
   Definitions only (proofs: StripWsFacts.v).

   Python objects are mutated in place; a token object occurs at most once in a tree, so the
   in-place edits are modelled by rebuilding the tree.  What the filter does NOT touch stays as it
   was: in particular the cached `value` of every group (computed when the group was created)
   becomes stale, and `token.value = ''` leaves an empty whitespace-typed leaf IN the tree
   (only `normalized`, which the model derives from the value, is not tracked separately: for a
   whitespace leaf Python keeps the old `normalized`; nothing in this slice reads it).

   IndexError sites are modelled as [Err IndexError]:
     tlist.tokens[1], tlist.tokens[-2], tlist.tokens[-2].tokens[-1]  in _stripws_parenthesis. *)
From SqlModel Require Import Base PyStr Node Passes.

(* token.value = v   (only ever executed on whitespace leaves) *)
Definition set_value (n : node) (v : text) : node :=
  match n with
  | Leaf ty _ => Leaf ty v
  | Grp c _ kids => Grp c v kids
  end.

Definition s_space : text := [32]%N.

(* ---- _stripws_default ---------------------------------------------------------------------
     last_was_ws = False; is_first_char = True
     for token in tlist.tokens:
         if token.is_whitespace: token.value = '' if last_was_ws or is_first_char else ' '
         last_was_ws = token.is_whitespace; is_first_char = False                              *)
Fixpoint sw_default_go (last_was_ws is_first_char : bool) (l : list node) : list node :=
  match l with
  | [] => []
  | t :: l' =>
      (if is_ws t then set_value t (if last_was_ws || is_first_char then [] else s_space) else t)
        :: sw_default_go (is_ws t) false l'
  end.
Definition sw_default (l : list node) : list node := sw_default_go false true l.

(* ---- _stripws_identifierlist --------------------------------------------------------------
     last_nl = None
     for token in list(tlist.tokens):                       # snapshot
         if last_nl and token.ttype is T.Punctuation and token.value == ',':
             tlist.tokens.remove(last_nl)                   # by identity: its position
         last_nl = token if token.is_whitespace else None
     return self._stripws_default(tlist)
   A Token has neither __bool__ nor __len__, so `if last_nl` only tests `is not None`.
   The whitespace token immediately before a comma (in the snapshot) is removed -- only that one. *)
Definition is_comma (n : node) : bool := tt_is n T_Punctuation && text_eqb (nvalue n) s_comma.

Fixpoint sw_idlist_rm (l : list node) : list node :=
  match l with
  | [] => []
  | a :: l' =>
      match l' with
      | b :: _ => if is_ws a && is_comma b then sw_idlist_rm l' else a :: sw_idlist_rm l'
      | [] => [a]
      end
  end.

(* ---- _stripws_parenthesis -----------------------------------------------------------------
     while tlist.tokens[1].is_whitespace:  tlist.tokens.pop(1)
     while tlist.tokens[-2].is_whitespace: tlist.tokens.pop(-2)
     if tlist.tokens[-2].is_group:
         while tlist.tokens[-2].tokens[-1].is_whitespace: tlist.tokens[-2].tokens.pop(-1)
     self._stripws_default(tlist)                                                              *)
(* `while l[0].is_whitespace: l.pop(0)` on the part of the list the loop can reach; running off the
   end is the IndexError of the subscript *)
Fixpoint drop_ws_front (l : list node) : res (list node) :=
  match l with
  | [] => Err IndexError
  | t :: r => if is_ws t then drop_ws_front r else Ok l
  end.

(* while tokens[1].is_whitespace: tokens.pop(1) *)
Definition sw_pop1 (l : list node) : res (list node) :=
  match l with
  | [] => Err IndexError
  | k0 :: rest => r <- drop_ws_front rest ;; Ok (k0 :: r)
  end.

(* while tokens[-2].is_whitespace: tokens.pop(-2) *)
Definition sw_popm2 (l : list node) : res (list node) :=
  match rev l with
  | [] => Err IndexError
  | last :: init_rev => r <- drop_ws_front init_rev ;; Ok (rev r ++ [last])
  end.

(* while g.tokens[-1].is_whitespace: g.tokens.pop(-1) *)
Definition sw_pop_last_ws (kids : list node) : res (list node) :=
  r <- drop_ws_front (rev kids) ;; Ok (rev r).

(* if tokens[-2].is_group: strip the trailing whitespace children of that group *)
Definition sw_inner (l : list node) : res (list node) :=
  match rev l with
  | last :: g :: init_rev =>
      match g with
      | Grp c v kids => kids' <- sw_pop_last_ws kids ;; Ok (rev init_rev ++ [Grp c v kids'; last])
      | Leaf _ _ => Ok l
      end
  | _ => Err IndexError                        (* tokens[-2]; unreachable after sw_popm2 *)
  end.

Definition sw_paren_body (l : list node) : res (list node) :=
  l1 <- sw_pop1 l ;; l2 <- sw_popm2 l1 ;; l3 <- sw_inner l2 ;; Ok (sw_default l3).

(* if len(tlist.tokens) < 2: return self._stripws_default(tlist)
   (a later grouping pass wrapped the whole parenthesis: `(as)`; fix of finding C07-RX-1) *)
Definition sw_paren (l : list node) : res (list node) :=
  match l with
  | [] | [_] => Ok (sw_default l)
  | _ :: _ :: _ => sw_paren_body l
  end.

(* ---- _stripws: getattr(self, '_stripws_' + type(tlist).__name__.lower(), self._stripws_default) *)
Definition sw_dispatch (c : cls) (l : list node) : res (list node) :=
  match c with
  | CIdentifierList => Ok (sw_default (sw_idlist_rm l))
  | CParenthesis => sw_paren l
  | _ => Ok (sw_default l)
  end.

(* ---- process(stmt, depth): children first (get_sublists: the group children, in order), then
   _stripws on the list itself.  The depth-0 pop is in [stripws]. *)
Fixpoint sw_process (n : node) : res node :=
  match n with
  | Leaf _ _ => Ok n                            (* never called on a leaf *)
  | Grp c v kids =>
      kids1 <- mapM (fun k => if is_group k then sw_process k else Ok k) kids ;;
      kids2 <- sw_dispatch c kids1 ;;
      Ok (Grp c v kids2)
  end.

(* if depth == 0 and stmt.tokens and stmt.tokens[-1].is_whitespace: stmt.tokens.pop(-1) *)
Definition pop_last_if_ws (l : list node) : list node :=
  match rev l with
  | t :: r => if is_ws t then rev r else l
  | [] => l
  end.

Definition stripws (stmt : node) : res node :=
  match stmt with
  | Leaf _ _ => Err AttributeError              (* a Token has no get_sublists *)
  | Grp _ _ _ =>
      n1 <- sw_process stmt ;;
      match n1 with
      | Grp c v kids => Ok (Grp c v (pop_last_if_ws kids))
      | Leaf _ _ => Ok n1
      end
  end.

(* ---- StripTrailingSemicolonFilter.process --------------------------------------------------
     while stmt.tokens and (stmt.tokens[-1].is_whitespace or stmt.tokens[-1].value == ';'):
         stmt.tokens.pop()                                                                     *)
Fixpoint drop_ws_semi (l : list node) : list node :=
  match l with
  | [] => []
  | t :: r => if is_ws t || text_eqb (nvalue t) s_semi then drop_ws_semi r else l
  end.

Definition strip_trailing_semicolon (stmt : node) : res node :=
  match stmt with
  | Leaf _ _ => Err AttributeError
  | Grp c v kids => Ok (Grp c v (rev (drop_ws_semi (rev kids))))
  end.

(* ---- well-formedness under which the filter cannot raise ---------------------------------- *)
Definition has_non_ws (l : list node) : bool := existsb (fun k => negb (is_ws k)) l.

(* a Parenthesis has at least two children, the first and the last not whitespace *)
Definition paren_shape (l : list node) : bool :=
  match l with
  | k0 :: rest => negb (is_ws k0) && match rev rest with last :: _ => negb (is_ws last) | [] => false end
  | [] => false
  end.

(* every group has a non-whitespace child; every Parenthesis has the shape above *)
Fixpoint sw_wf (n : node) : bool :=
  match n with
  | Leaf _ _ => true
  | Grp c _ kids =>
      has_non_ws kids
      && (match c with CParenthesis => paren_shape kids | _ => true end)
      && forallb sw_wf kids
  end.

(* ---- the normal form the filter establishes (under sw_wf) ----------------------------------- *)
(* a whitespace child has value '' when it is first or follows a whitespace child, ' ' otherwise *)
Fixpoint dnf_go (last_was_ws is_first_char : bool) (l : list node) : bool :=
  match l with
  | [] => true
  | t :: r =>
      (if is_ws t then text_eqb (nvalue t) (if last_was_ws || is_first_char then [] else s_space) else true)
      && dnf_go (is_ws t) false r
  end.
Definition dnf (l : list node) : bool := dnf_go false true l.

Definition last_non_ws (l : list node) : bool :=
  match rev l with x :: _ => negb (is_ws x) | [] => false end.
Definition grp_last_ok (g : node) : bool :=
  match g with Grp _ _ gk => last_non_ws gk | Leaf _ _ => true end.
(* the first two children are not whitespace *)
Definition front2 (l : list node) : bool :=
  match l with k0 :: k1 :: _ => negb (is_ws k0) && negb (is_ws k1) | _ => false end.
(* the last two children are not whitespace; if the last but one is a group, its last child is not
   whitespace either *)
Definition back2 (l : list node) : bool :=
  match rev l with
  | last :: g :: _ => negb (is_ws last) && negb (is_ws g) && grp_last_ok g
  | _ => false
  end.
Definition paren_nf (l : list node) : bool := front2 l && back2 l.

Fixpoint sw_nf (n : node) : bool :=
  match n with
  | Leaf _ _ => true
  | Grp c _ kids =>
      dnf kids && (match c with CParenthesis => paren_nf kids | _ => true end) && forallb sw_nf kids
  end.

(* the flattened view: every whitespace-typed leaf has value '' or ' ', and a whitespace-typed leaf
   that directly follows a whitespace-typed leaf (or is the very first leaf) has value '' *)
Fixpoint flat_nf_go (prev_ws : bool) (l : list (list tcomp * list N)) : bool :=
  match l with
  | [] => true
  | (ty, v) :: r =>
      (if tin ty T_Whitespace
       then (if prev_ws then text_eqb v [] else text_eqb v [] || text_eqb v s_space)
       else true)
      && flat_nf_go (tin ty T_Whitespace) r
  end.

(* no group starts or ends with a whitespace child, and no group is empty *)
Fixpoint edge_ok (n : node) : bool :=
  match n with
  | Leaf _ _ => true
  | Grp _ _ kids =>
      match kids with k0 :: _ => negb (is_ws k0) | [] => false end
      && last_non_ws kids && forallb edge_ok kids
  end.
