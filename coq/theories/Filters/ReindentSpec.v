(* Declarative specification of which keywords _split_kwds puts on their own line.
   Definitions only. *)
From SqlModel Require Import Base PyStr Node Inv Passes.
From SqlModel.Filters Require Import RxStripWs RxSerial Reindent.

(* significant leaves: the leaves (type, value) whose type is not in Token.Text.Whitespace *)
Definition is_ws_tok (tk : tok) : bool := tin (fst tk) T_Whitespace.
Definition sigtoks (l : list tok) : list tok := filter (fun tk => negb (is_ws_tok tk)) l.
Definition sig (n : node) : list tok := sigtoks (leaves n).
Definition sigl (l : list node) : list tok := sigtoks (leaves_list l).

Definition is_between (n : node) : bool := text_eqb (normalized n) s_BETWEEN.
Definition is_and (n : node) : bool := text_eqb (normalized n) s_AND.

(* One step of the selection automaton.  The state is the number of BETWEENs still waiting for
   their AND.  A token matched by the split-word test is selected (gets its own line) unless it is
   a BETWEEN (opens a pair) or the AND closing an open BETWEEN; any other matched token also
   forgets the open BETWEENs. *)
Definition sel_step (d : nat) (x : node) : bool * nat :=
  if split_match x then
    if is_between x then (false, S d)
    else if is_and x && negb (Nat.eqb d 0) then (false, (d - 1)%nat)
    else (true, 0%nat)
  else (false, d).

Fixpoint sel (d : nat) (l : list node) : list bool :=
  match l with
  | [] => []
  | x :: l' => fst (sel_step d x) :: sel (snd (sel_step d x)) l'
  end.

Fixpoint st_after (d : nat) (l : list node) : nat :=
  match l with
  | [] => d
  | x :: l' => st_after (snd (sel_step d x)) l'
  end.

(* child i has a predecessor, and the predecessor is the inserted nl() token or its text ends in
   '\n' / '\r' *)
Definition prev_ok (nlv : node) (l : list node) (i : nat) : Prop :=
  exists p, (1 <= i)%nat /\ nth_error l (i - 1) = Some p /\ (p = nlv \/ ends_nl (text_of p) = true).

(* no whitespace child whose text ends in a newline stands immediately before a token matched by
   the split-word test (true of a whitespace-stripped list; see own_line_refuted for why needed) *)
Definition no_nl_ws_before_kw (l : list node) : Prop :=
  forall X p k Y, l = X ++ p :: k :: Y -> is_ws p = true -> split_match k = true ->
                  ends_nl (text_of p) = false.

(* boolean form of no_nl_ws_before_kw *)
Fixpoint nnwb (l : list node) : bool :=
  match l with
  | p :: l' =>
      match l' with
      | k :: _ => negb (is_ws p && split_match k && ends_nl (text_of p)) && nnwb l'
      | [] => true
      end
  | [] => true
  end.
