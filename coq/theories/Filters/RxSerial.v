(* Model of sqlparse.filters.others.SerializerUnicode + utils.split_unquoted_newlines.
   Definitions only. *)
From SqlModel Require Import Base PyStr Node.
From SqlModel.Gen Require Import CaseTabs.

(* the rest after the closing quote of  q(?:[^q\\]|\\.)*q   ([t] starts after the opening quote;
   `.` does not match a line feed) *)
Fixpoint quoted_end (q : N) (t : text) : option text :=
  match t with
  | [] => None
  | c :: t' =>
      if N.eqb c q then Some t'
      else if N.eqb c 92 then
        match t' with
        | d :: t'' => if N.eqb d 10 then None else quoted_end q t''
        | [] => None
        end
      else quoted_end q t'
  end.

(* SPLIT_REGEX.split + the reassembly loop: [cur] is the current output line (reversed),
   [acc] the finished lines (reversed) *)
Fixpoint sun_loop (fuel : nat) (t : text) (cur : text) (acc : list text) : list text :=
  match fuel with
  | O => rev (rev cur :: acc)
  | S f =>
      match t with
      | [] => rev (rev cur :: acc)
      | c :: t' =>
          if N.eqb c 13 then
            match t' with
            | d :: t'' => if N.eqb d 10 then sun_loop f t'' [] (rev cur :: acc)
                          else sun_loop f t' [] (rev cur :: acc)
            | [] => sun_loop f t' [] (rev cur :: acc)
            end
          else if N.eqb c 10 then sun_loop f t' [] (rev cur :: acc)
          else if N.eqb c 34 || N.eqb c 39 then
            match quoted_end c t' with
            | Some r =>
                let used := firstn (length t - length r) t in
                sun_loop f r (rev used ++ cur) acc
            | None => sun_loop f t' (c :: cur) acc
            end
          else sun_loop f t' (c :: cur) acc
      end
  end.

Definition split_unquoted_newlines (t : text) : list text := sun_loop (S (length t)) t [] [].

Fixpoint join_nl (l : list text) : text :=
  match l with
  | [] => []
  | [x] => x
  | x :: l' => x ++ 10%N :: join_nl l'
  end.

Definition serialize (n : node) : text :=
  join_nl (map (rstrip space_set) (split_unquoted_newlines (text_of n))).
