(* Instance-level facts: the aligned-indent pipeline over the current tables (witnesses, examples).
   Every vm_compute below is on a closed term. *)
From SqlModel Require Import Base PyStr Node Inv Passes.
From SqlModel.Inst Require Import Cur.
From SqlModel.Filters Require Import RxStripWs RxSerial Reindent ReindentSafe ReindentInst
     Aligned AlignedSpec AlignedInst AlignedFacts.
From Coq Require Import ZArith.

(* "case\nwhere end" *)
Definition t_case_where_end : text := [99;97;115;101;10;119;104;101;114;101;32;101;110;100]%N.
(* "case,end" *)
Definition t_case_comma_end : text := [99;97;115;101;44;101;110;100]%N.
(* "case::end" *)
Definition t_case_cast_end : text := [99;97;115;101;58;58;101;110;100]%N.
(* "(as)" *)
Definition t_paren_as : text := [40;97;115;41]%N.

(* Until the fixes of findings C07-AL-1 and C07-RX-1 these four inputs were the refutation of totality
   (aligned_total_refuted): format(t, reindent_aligned=True) raised
   - ValueError ("None is not in list", aligned_indent.py -> TokenList.token_index) when the END of a Case is not a
     direct child of the Case group: a later grouping pass (group_where, group_identifier_list, group_typecasts,
     group_as ...) has moved it into a sub-group, so token_next_by(m=(Keyword,'END')) is None and
     insert_before(None, ...) looked None up;
   - IndexError in StripWhitespaceFilter._stripws_parenthesis on `(as)`.
   AlignedIndentFilter._process_case now aligns the END only when it has one, and _stripws_parenthesis leaves a
   Parenthesis with fewer than two tokens to the default rule.  The real library agrees on all four inputs. *)
Theorem aligned_case_end_fixed :
  cur_aligned t_case_where_end = Ok [99;97;115;101;32;119;104;101;114;101;32;101;110;100]%N /\
  cur_aligned t_case_comma_end = Ok t_case_comma_end /\
  cur_aligned t_case_cast_end = Ok t_case_cast_end /\
  cur_aligned t_paren_as = Ok t_paren_as.
Proof.
  split; [vm_compute; reflexivity|]. split; [vm_compute; reflexivity|].
  split; vm_compute; reflexivity.
Qed.
Print Assumptions aligned_case_end_fixed.

(* the trees that used to crash: the END keyword sits inside the Where / IdentifierList / Identifier *)
Example case_where_end_tree :
  cur_parse t_case_where_end =
  Ok [Grp CStatement t_case_where_end
        [Grp CCase t_case_where_end
           [Leaf T_Keyword [99;97;115;101]%N; Leaf T_Newline [10%N];
            Grp CWhere [119;104;101;114;101;32;101;110;100]%N
              [Leaf T_Keyword [119;104;101;114;101]%N; Leaf T_Whitespace [32%N]; Leaf T_Keyword [101;110;100]%N]]]].
Proof. vm_compute. reflexivity. Qed.

Example case_comma_end_tree :
  cur_parse t_case_comma_end =
  Ok [Grp CStatement t_case_comma_end
        [Grp CCase t_case_comma_end
           [Grp CIdentifierList t_case_comma_end
              [Leaf T_Keyword [99;97;115;101]%N; Leaf T_Punctuation [44%N]; Leaf T_Keyword [101;110;100]%N]]]].
Proof. vm_compute. reflexivity. Qed.

(* ... and al_safe, which was false on exactly these (the stripws'd statements), holds *)
Example alsafe_witnesses :
  cur_alsafe t_case_where_end = Ok [true] /\ cur_alsafe t_case_comma_end = Ok [true] /\
  cur_alsafe t_case_cast_end = Ok [true].
Proof. split; [vm_compute; reflexivity|]. split; vm_compute; reflexivity. Qed.

(* "select a, case when x then 1 else 2 end from t where b between 1 and 2 and c in (select d from u)" *)
Definition t_aexample : text :=
  [115;101;108;101;99;116;32;97;44;32;99;97;115;101;32;119;104;101;110;32;120;32;116;104;101;110;32;49;32;101;108;115;101;
   32;50;32;101;110;100;32;102;114;111;109;32;116;32;119;104;101;114;101;32;98;32;98;101;116;119;101;101;110;32;49;32;97;
   110;100;32;50;32;97;110;100;32;99;32;105;110;32;40;115;101;108;101;99;116;32;100;32;102;114;111;109;32;117;41]%N.

(* the hypotheses of aligned_total_partial / aligned_sigleaves hold on a non-trivial input: the
   statement is al_safe after grouping and whitespace stripping, and the pipeline returns the string
   the real library returns *)
Example aligned_example :
  cur_alsafe t_aexample = Ok [true] /\
  cur_aligned t_aexample =
  Ok [115;101;108;101;99;116;32;97;44;10;
      32;32;32;32;32;32;32;99;97;115;101;32;119;104;101;110;32;120;32;116;104;101;110;32;49;10;
      32;32;32;32;32;32;32;32;32;32;32;32;101;108;115;101;32;50;10;
      32;32;32;32;32;32;32;32;32;32;32;32;32;101;110;100;10;
      32;32;102;114;111;109;32;116;10;
      32;119;104;101;114;101;32;98;32;98;101;116;119;101;101;110;32;49;32;97;110;100;32;50;10;
      32;32;32;97;110;100;32;99;32;105;110;32;40;10;
      32;32;32;32;32;32;32;32;115;101;108;101;99;116;32;100;10;
      32;32;32;32;32;32;32;32;32;32;102;114;111;109;32;117;10;
      32;32;32;32;32;32;32;41]%N.
Proof. split; vm_compute; reflexivity. Qed.

(* cur_aligned_total_partial: over the current tables, format(t, reindent_aligned=True) returns a
   string whenever lexing/splitting, grouping and StripWhitespaceFilter succeed and every
   whitespace-stripped statement is a group satisfying al_safe -- a closed boolean computation *)
Theorem cur_aligned_total_partial t : cur_al_ok t = Ok true -> exists out, cur_aligned t = Ok out.
Proof.
  unfold cur_al_ok, cur_stripws_trees, cur_aligned, cur_aligned_trees.
  destruct (cur_split_stream t) as [stmts|]; cbn [bind]; [|discriminate].
  destruct (mapM (fun s => g <- group (statement_of s) ;; stripws_stmt g) stmts) as [ws|] eqn:Ew;
    cbn [bind]; [|discriminate].
  intros H. injection H as H.
  destruct (arun_stmts_total group (map statement_of stmts) ws) as [outs Ho].
  - rewrite mapM_map. exact Ew.
  - apply Forall_forall. intros w Hw. rewrite forallb_forall in H. specialize (H w Hw).
    unfold al_ok in H. apply andb_true_iff in H. exact H.
  - rewrite Ho. cbn [bind]. eexists. reflexivity.
Qed.
Print Assumptions cur_aligned_total_partial.

Example cur_aligned_total_example : cur_al_ok t_aexample = Ok true.
Proof. vm_compute. reflexivity. Qed.
