(* _split_kwds of the aligned-indent model against its fuel-free description:
     asplit_kwds e l = Ok (asplit_spec e 0 l)
   (total, exact), and the own-line property of the selected keywords. *)
From SqlModel Require Import Base PyStr Re Node Inv Passes.
From SqlModel.Gen Require Import CaseTabs.
From SqlModel.Filters Require Import RxStripWs RxSerial Reindent ReindentSafe ReindentSpec ReindentFacts
     ReindentOwnLine Aligned AlignedSpec.
From Coq Require Import ZArith Lia.

(* ---- the automaton, generic in the split-word test ------------------------------------------- *)
Section GSel.
Variable sm : node -> bool.

Lemma gsel_length : forall l d, length ((gsel sm) d l) = length l.
Proof. induction l as [|x l IH]; intros d; cbn [gsel length]; [reflexivity | rewrite IH; reflexivity]. Qed.

Lemma gsel_app : forall X Y d, (gsel sm) d (X ++ Y) = (gsel sm) d X ++ (gsel sm) ((gst_after sm) d X) Y.
Proof.
  induction X as [|x X IH]; intros Y d; [reflexivity|].
  cbn [app gsel gst_after]. rewrite IH. reflexivity.
Qed.

Lemma gst_after_app : forall X Y d, (gst_after sm) d (X ++ Y) = (gst_after sm) ((gst_after sm) d X) Y.
Proof. induction X as [|x X IH]; intros Y d; [reflexivity|]. cbn [app gst_after]. apply IH. Qed.

Lemma gsel_step_nonmatch d x : sm x = false -> (gsel_step sm) d x = (false, d).
Proof. unfold gsel_step. intros ->. reflexivity. Qed.

Lemma gsel_nonmatch : forall M d, Forall (fun y => sm y = false) M ->
  (gsel sm) d M = repeat false (length M) /\ (gst_after sm) d M = d.
Proof.
  induction M as [|x M IH]; intros d HF; [split; reflexivity|].
  inversion HF as [|? ? Hx HM]; subst. cbn [gsel gst_after length repeat].
  rewrite (gsel_step_nonmatch d x Hx). cbn [fst snd]. destruct (IH d HM) as [-> ->]. split; reflexivity.
Qed.


Definition gnt_some_spec (start : nat) (Sx : list node) (i : nat) (tok : node) : Prop :=
  exists M R, Sx = M ++ tok :: R /\ i = start + length M /\ sm tok = true /\
              is_between tok = false /\
              forall d, (gsel sm) d M = repeat false (length M) /\ (is_and tok = true -> (gst_after sm) d M = d).

Lemma gnext_token_spec : forall fuel A Sx r,
  (gnext_token sm) fuel (A ++ Sx) (length A) = Ok r ->
  match r with
  | Some (i, tok) => gnt_some_spec (length A) Sx i tok
  | None => forall d, (gsel sm) d Sx = repeat false (length Sx)
  end.
Proof.
  induction fuel as [|f IH]; intros A Sx r H; cbn [gnext_token] in H; [discriminate|].
  rewrite find_from_app in H.
  pose proof (find_from_aux_decomp sm Sx (length A)) as Hf.
  destruct (find_from_aux sm Sx (length A)) as [[tidx tok1]|].
  2:{ injection H as <-. intros d. apply gsel_nonmatch; exact Hf. }
  destruct Hf as [M1 [R1 [HS [Hi [HM1 Hx1]]]]].
  destruct (text_eqb (normalized tok1) s_BETWEEN) eqn:Eb.
  2:{ injection H as <-. exists M1, R1. repeat split; try assumption.
      - apply gsel_nonmatch; exact HM1.
      - intros _. apply gsel_nonmatch; exact HM1. }
  (* BETWEEN *)
  assert (Hstep1 : forall d, (gsel_step sm) d tok1 = (false, S d)).
  { intros d. unfold gsel_step, is_between. rewrite Hx1, Eb. reflexivity. }
  assert (HA1 : A ++ Sx = (A ++ M1 ++ [tok1]) ++ R1).
  { rewrite HS. rewrite <- !app_assoc. reflexivity. }
  assert (HL1 : length (A ++ M1 ++ [tok1]) = S tidx).
  { rewrite !app_length. cbn [length]. lia. }
  destruct ((gnext_token sm) f (A ++ Sx) (S tidx)) as [r2|] eqn:E2; cbn [bind] in H; [|discriminate].
  rewrite HA1, <- HL1 in E2. apply IH in E2.
  destruct r2 as [[tidx2 tok2]|].
  2:{ injection H as <-. intros d. rewrite HS, gsel_app. cbn [gsel]. rewrite Hstep1. cbn [fst snd].
      destruct (gsel_nonmatch M1 d HM1) as [-> ->]. rewrite E2.
      rewrite app_length. cbn [length]. rewrite <- repeat_app_false. reflexivity. }
  destruct E2 as [M2 [R2 [HR1 [Hi2 [Hx2 [Hnb2 Hsel2]]]]]].
  destruct (text_eqb (normalized tok2) s_AND) eqn:Ea.
  2:{ injection H as <-. exists (M1 ++ tok1 :: M2), R2. split; [rewrite HS, HR1, <- app_assoc; reflexivity|].
      split; [rewrite app_length; cbn [length]; rewrite HL1 in Hi2; lia|].
      split; [exact Hx2|]. split; [exact Hnb2|]. intros d. split.
      - rewrite gsel_app. cbn [gsel]. rewrite Hstep1. cbn [fst snd].
        destruct (gsel_nonmatch M1 d HM1) as [-> ->]. destruct (Hsel2 (S d)) as [-> _].
        rewrite app_length. cbn [length repeat]. rewrite <- repeat_app_false. reflexivity.
      - unfold is_and. rewrite Ea. discriminate. }
  (* tok2 = AND closes the BETWEEN *)
  assert (Hstep2 : forall d, (gsel_step sm) (S d) tok2 = (false, d)).
  { intros d. unfold gsel_step, is_and. rewrite Hx2, Hnb2, Ea. cbn [Nat.eqb negb andb].
    f_equal. lia. }
  assert (HA2 : A ++ Sx = (A ++ M1 ++ tok1 :: M2 ++ [tok2]) ++ R2).
  { rewrite HS, HR1. rewrite <- !app_assoc. cbn [app]. rewrite <- !app_assoc. reflexivity. }
  assert (HL2 : length (A ++ M1 ++ tok1 :: M2 ++ [tok2]) = S tidx2).
  { rewrite HL1 in Hi2. rewrite !app_length. cbn [length]. rewrite app_length. cbn [length]. lia. }
  rewrite HA2, <- HL2 in H. apply IH in H.
  assert (Hpre : forall d, (gsel sm) d (M1 ++ tok1 :: M2 ++ [tok2]) = repeat false (length (M1 ++ tok1 :: M2 ++ [tok2]))
                           /\ (gst_after sm) d (M1 ++ tok1 :: M2 ++ [tok2]) = d).
  { intros d. rewrite gsel_app, gst_after_app. cbn [gsel gst_after]. rewrite Hstep1. cbn [fst snd].
    destruct (gsel_nonmatch M1 d HM1) as [-> ->].
    rewrite gsel_app, gst_after_app. cbn [gsel gst_after].
    destruct (Hsel2 (S d)) as [-> Hst]. unfold is_and in Hst. rewrite (Hst Ea), Hstep2. cbn [fst snd].
    split; [|reflexivity].
    rewrite !app_length. cbn [length]. rewrite app_length. cbn [length].
    change (false :: repeat false (length M2) ++ [false]) with (repeat false 1 ++ repeat false (length M2) ++ repeat false 1).
    rewrite !repeat_app_false. reflexivity. }
  assert (HSP : Sx = (M1 ++ tok1 :: M2 ++ [tok2]) ++ R2).
  { rewrite HS, HR1. rewrite <- !app_assoc. cbn [app]. rewrite <- !app_assoc. reflexivity. }
  assert (HLP : length A + length (M1 ++ tok1 :: M2 ++ [tok2]) = S tidx2).
  { rewrite <- HL2. rewrite (app_length A). reflexivity. }
  rewrite (app_length A) in H.
  set (P := M1 ++ tok1 :: M2 ++ [tok2]) in *.
  destruct r as [[i3 tok3]|].
  - destruct H as [M3 [R3 [HR2 [Hi3 [Hx3 [Hnb3 Hsel3]]]]]].
    exists (P ++ M3), R3.
    split; [rewrite HSP, HR2, <- app_assoc; reflexivity|].
    split; [rewrite (app_length P M3); lia|].
    split; [exact Hx3|]. split; [exact Hnb3|]. intros d.
    rewrite (gsel_app P M3), (gst_after_app P M3).
    destruct (Hpre d) as [-> ->]. destruct (Hsel3 d) as [-> Hst3].
    split; [rewrite (app_length P M3), <- repeat_app_false; reflexivity | exact Hst3].
  - intros d. rewrite HSP. rewrite (gsel_app P R2). destruct (Hpre d) as [-> ->]. rewrite H.
    rewrite (app_length P R2), <- repeat_app_false. reflexivity.
Qed.

(* _next_token never runs out of fuel *)
Lemma gnext_token_total : forall fuel l start, length l - start < fuel ->
  exists r, gnext_token sm fuel l start = Ok r.
Proof.
  induction fuel as [|f IH]; intros l start Hf; [lia|]. cbn [gnext_token].
  destruct (find_from sm start l) as [[tidx tok]|] eqn:Ef; [|eexists; reflexivity].
  assert (Hb : start <= tidx < length l).
  { unfold find_from in Ef. pose proof (find_from_aux_decomp sm (skipn start l) start) as Hd.
    rewrite Ef in Hd. destruct Hd as [M [R [HS [Hi _]]]].
    assert (HL : length (skipn start l) = length M + S (length R)).
    { rewrite HS, app_length. reflexivity. }
    rewrite skipn_length in HL. lia. }
  destruct (text_eqb (normalized tok) s_BETWEEN); [|eexists; reflexivity].
  destruct (IH l (S tidx)) as [r Hr]; [lia|]. rewrite Hr. cbn [bind].
  destruct r as [[tidx2 tok2]|]; [|eexists; reflexivity].
  destruct (text_eqb (normalized tok2) s_AND); [|eexists; reflexivity].
  assert (Hb2 : S tidx <= tidx2 < length l).
  { pose proof (gnext_token_spec f (firstn (S tidx) l) (skipn (S tidx) l) (Some (tidx2, tok2))) as Hs.
    rewrite firstn_skipn in Hs. rewrite firstn_length, Nat.min_l in Hs by lia.
    specialize (Hs Hr). destruct Hs as [M [R [HS [Hi _]]]].
    assert (HL : length (skipn (S tidx) l) = length M + S (length R)).
    { rewrite HS, app_length. reflexivity. }
    rewrite skipn_length in HL. lia. }
  apply IH. lia.
Qed.
End GSel.

(* ---- _split_kwds ----------------------------------------------------------------------------- *)
Lemma asel_step_ws_leaf d v : asel_step d (Leaf T_Whitespace v) = (false, d).
Proof. reflexivity. Qed.

Lemma asplit_spec_nonsel e : forall M d Y, gsel asplit_match d M = repeat false (length M) ->
  asplit_spec e d (M ++ Y) = M ++ asplit_spec e (gst_after asplit_match d M) Y.
Proof.
  induction M as [|x M IH]; intros d Y H; [reflexivity|].
  cbn [gsel length repeat] in H. injection H as Hx HM.
  cbn [app asplit_spec gst_after]. unfold asel_step. rewrite Hx. f_equal. apply IH. exact HM.
Qed.

(* a token returned by _next_token is selected by the automaton started in state 0 *)
Lemma selected_step M tok : asplit_match tok = true -> is_between tok = false ->
  (is_and tok = true -> gst_after asplit_match 0 M = 0) ->
  asel_step (gst_after asplit_match 0 M) tok = (true, 0).
Proof.
  intros Hm Hb Ha. unfold asel_step, gsel_step. rewrite Hm, Hb.
  destruct (is_and tok); [rewrite (Ha eq_refl); reflexivity | reflexivity].
Qed.

Lemma asplit_loop_spec e : forall fuel A Sx cur,
  length Sx < fuel ->
  match cur with
  | Some (i, tok) => gnt_some_spec asplit_match (length A) Sx i tok
  | None => forall d, gsel asplit_match d Sx = repeat false (length Sx)
  end ->
  asplit_kwds_loop fuel e (A ++ Sx) cur = Ok (A ++ asplit_spec e 0 Sx).
Proof.
  induction fuel as [|f IH]; intros A Sx cur Hf Hc.
  - lia.
  - destruct cur as [[i tok]|].
    + destruct Hc as [M [R [HS [Hi [Hm [Hb Hsel]]]]]].
      cbn [asplit_kwds_loop]. fold (anl_for e tok).
      assert (El2 : insert_at i (anl_for e tok) (A ++ Sx) = (A ++ M ++ [anl_for e tok; tok]) ++ R).
      { rewrite HS, Hi, <- app_length, app_assoc, insert_at_app. rewrite <- !app_assoc. reflexivity. }
      rewrite El2.
      assert (EL : S (S i) = length (A ++ M ++ [anl_for e tok; tok])).
      { rewrite !app_length. cbn [length]. lia. }
      rewrite EL.
      destruct (gnext_token_total asplit_match
                  (S (length ((A ++ M ++ [anl_for e tok; tok]) ++ R)))
                  ((A ++ M ++ [anl_for e tok; tok]) ++ R)
                  (length (A ++ M ++ [anl_for e tok; tok]))) as [nx Hnx]; [lia|].
      unfold anext_token. rewrite Hnx. cbn [bind].
      apply gnext_token_spec in Hnx.
      rewrite (IH (A ++ M ++ [anl_for e tok; tok]) R nx).
      * f_equal. rewrite HS. destruct (Hsel 0%nat) as [HselM HstM].
        rewrite (asplit_spec_nonsel e M 0 (tok :: R) HselM).
        cbn [asplit_spec]. rewrite (selected_step M tok Hm Hb HstM). cbn [fst snd].
        rewrite <- !app_assoc. reflexivity.
      * assert (HL : length Sx = length M + S (length R)) by (rewrite HS, app_length; reflexivity). lia.
      * exact Hnx.
    + cbn [asplit_kwds_loop]. f_equal. f_equal.
      pose proof (asplit_spec_nonsel e Sx 0 [] (Hc 0%nat)) as H. rewrite app_nil_r in H.
      rewrite H. cbn [asplit_spec]. rewrite app_nil_r. reflexivity.
Qed.

(* asplit_kwds_spec: _split_kwds is total and computes exactly the fuel-free description *)
Theorem asplit_kwds_spec e l : asplit_kwds e l = Ok (asplit_spec e 0 l).
Proof.
  unfold asplit_kwds.
  destruct (gnext_token_total asplit_match (S (length l)) l 0) as [first Hfirst]; [lia|].
  unfold anext_token. rewrite Hfirst. cbn [bind].
  change l with ([] ++ l) in Hfirst. change 0%nat with (length (@nil node)) in Hfirst.
  apply gnext_token_spec in Hfirst.
  apply (asplit_loop_spec e (S (length l)) [] l first); [lia | exact Hfirst].
Qed.
Print Assumptions asplit_kwds_spec.

(* ---- structural facts about the description ------------------------------------------------ *)
Lemma anl_for_ws e x : exists v, anl_for e x = Leaf T_Whitespace v.
Proof. eexists. reflexivity. Qed.

Lemma asplit_spec_sigl e : forall l d, sigl (asplit_spec e d l) = sigl l.
Proof.
  induction l as [|x l IH]; intros d; [reflexivity|]. cbn [asplit_spec].
  destruct (fst (asel_step d x)).
  - rewrite sigl_cons. change (sig (anl_for e x)) with (@nil tok). cbn [app].
    rewrite !sigl_cons, IH. reflexivity.
  - rewrite !sigl_cons, IH. reflexivity.
Qed.

Lemma asplit_spec_In e k : forall l d, In k (asplit_spec e d l) ->
  In k l \/ exists v, k = Leaf T_Whitespace v.
Proof.
  induction l as [|x l IH]; intros d H; [destruct H|]. cbn [asplit_spec] in H.
  destruct (fst (asel_step d x)).
  - destruct H as [H | [H | H]].
    + right. subst k. apply anl_for_ws.
    + left. left. exact H.
    + destruct (IH _ H) as [H1 | H1]; [left; right; exact H1 | right; exact H1].
  - destruct H as [H | H].
    + left. left. exact H.
    + destruct (IH _ H) as [H1 | H1]; [left; right; exact H1 | right; exact H1].
Qed.

Lemma asplit_spec_forallb e (f : node -> bool) : (forall v, f (Leaf T_Whitespace v) = true) ->
  forall l d, forallb f (asplit_spec e d l) = forallb f l.
Proof.
  intros Hf. induction l as [|x l IH]; intros d; [reflexivity|]. cbn [asplit_spec].
  destruct (fst (asel_step d x)).
  - cbn [forallb]. destruct (anl_for_ws e x) as [v ->]. rewrite Hf, IH. reflexivity.
  - cbn [forallb]. rewrite IH. reflexivity.
Qed.

(* ---- own line -------------------------------------------------------------------------------- *)
Lemma asplit_spec_own_line e : forall l d prev, own_line_P e d prev (asplit_spec e d l).
Proof.
  induction l as [|x l IH]; intros d prev; [exact I|]. cbn [asplit_spec].
  destruct (fst (asel_step d x)) eqn:Es.
  - cbn [own_line_P]. destruct (anl_for_ws e x) as [v Ev]. rewrite Ev at 1 2.
    rewrite asel_step_ws_leaf. cbn [fst snd]. split; [discriminate|].
    split; [intros _; reflexivity | apply IH].
  - cbn [own_line_P]. rewrite Es. split; [discriminate | apply IH].
Qed.

Lemma own_line_P_nth e : forall r d prev, own_line_P e d prev r ->
  forall i tok, nth_error r i = Some tok -> nth i (gsel asplit_match d r) false = true ->
  match i with O => prev | S j => nth_error r j end = Some (anl_for e tok).
Proof.
  induction r as [|x r IH]; intros d prev H i tok Hn Hs; [destruct i; discriminate|].
  cbn [own_line_P] in H. destruct H as [H0 Hr].
  destruct i as [|i].
  - cbn in Hn. injection Hn as <-. cbn [gsel nth] in Hs. apply H0. exact Hs.
  - cbn [nth_error] in Hn. cbn [gsel nth] in Hs.
    specialize (IH _ _ Hr i tok Hn Hs). destruct i as [|j]; exact IH.
Qed.

(* aligned_own_line: after _split_kwds, every child selected by the split-word automaton (a Keyword
   leaf containing one of the split words, other than a BETWEEN and the AND that closes it) has a
   predecessor, and the predecessor is the line-break token nl(<aligner>) made for it:
   '\n' followed by blanks.  No hypothesis on the list (contrast reindent_own_line_partial). *)
Theorem aligned_own_line e l r : asplit_kwds e l = Ok r ->
  forall i tok, nth_error r i = Some tok -> nth i (asel 0 r) false = true ->
  exists j, i = S j /\ nth_error r j = Some (anl_for e tok).
Proof.
  rewrite asplit_kwds_spec. intros H. injection H as <-. intros i tok Hn Hs.
  pose proof (own_line_P_nth e _ 0%nat None (asplit_spec_own_line e l 0%nat None) i tok Hn Hs) as H.
  destruct i as [|j]; [discriminate|]. exists j. split; [reflexivity | exact H].
Qed.
Print Assumptions aligned_own_line.

(* the same at the text level: the text of the list in front of a selected keyword ends in a line
   feed followed by blanks only *)
Lemma firstn_S_nth {A} : forall (l : list A) j x, nth_error l j = Some x -> firstn (S j) l = firstn j l ++ [x].
Proof.
  induction l as [|y l IH]; intros j x H; [destruct j; discriminate|].
  destruct j as [|j]; cbn in H.
  - injection H as ->. reflexivity.
  - cbn [firstn app]. f_equal. apply IH. exact H.
Qed.

Theorem aligned_own_line_text e l r : asplit_kwds e l = Ok r ->
  forall i tok, nth_error r i = Some tok -> nth i (asel 0 r) false = true ->
  exists pre k, text_of_list (firstn i r) = pre ++ 10%N :: repeat 32%N k.
Proof.
  intros H i tok Hn Hs. destruct (aligned_own_line e l r H i tok Hn Hs) as [j [-> Hj]].
  rewrite (firstn_S_nth r j _ Hj). unfold text_of_list. rewrite flat_map_app. cbn [flat_map].
  rewrite app_nil_r. eexists. eexists. unfold anl_for, anl. cbn [text_of]. reflexivity.
Qed.
Print Assumptions aligned_own_line_text.

(* which tokens of the OUTPUT are selected: exactly the selected tokens of the input (each now
   behind its line break) *)
Fixpoint expand_sel (bs : list bool) : list bool :=
  match bs with
  | [] => []
  | b :: bs' => if b then false :: true :: expand_sel bs' else false :: expand_sel bs'
  end.

Lemma asel_asplit_spec e : forall l d,
  gsel asplit_match d (asplit_spec e d l) = expand_sel (gsel asplit_match d l).
Proof.
  induction l as [|x l IH]; intros d; [reflexivity|]. cbn [asplit_spec gsel expand_sel].
  fold (asel_step d x). destruct (fst (asel_step d x)) eqn:Es.
  - cbn [gsel]. destruct (anl_for_ws e x) as [v ->]. fold (asel_step d (Leaf T_Whitespace v)).
    rewrite asel_step_ws_leaf. cbn [fst snd]. fold (asel_step d x). rewrite Es, IH. reflexivity.
  - cbn [gsel]. fold (asel_step d x). rewrite Es, IH. reflexivity.
Qed.

(* the hypotheses are satisfiable:  a from t left join u on x and y between 1 and 2 or z group by c
   (children of a whitespace-stripped statement) *)
Definition kwl (s : list N) : node := Leaf T_Keyword s.
Definition nml (s : list N) : node := Leaf T_Name s.
Definition aex_list : list node :=
  [nml [97]; sp; kwl [102;114;111;109]; sp; nml [116]; sp; kwl [108;101;102;116;32;106;111;105;110]; sp; nml [117]; sp;
   kwl [111;110]; sp; nml [120]; sp; kwl [97;110;100]; sp; nml [121]; sp;
   kwl [98;101;116;119;101;101;110]; sp; nml [49]; sp; kwl [97;110;100]; sp; nml [50]; sp; kwl [111;114]; sp; nml [122]; sp;
   kwl [103;114;111;117;112;32;32;98;121]; sp; nml [99]]%N.

Example aligned_own_line_example :
  exists r, asplit_kwds a_init aex_list = Ok r /\
    asel 0 aex_list = [false; false; true; false; false; false; true; false; false; false; true; false; false; false;
                       true; false; false; false; false; false; false; false; false; false; false; false;
                       true; false; false; false; true; false; false] /\
    text_of_list r =
      [97;32; 10;32;32; 102;114;111;109; 32;116;32; 10;32;32; 108;101;102;116;32;106;111;105;110; 32;117;32;
       10;32;32;32;32; 111;110; 32;120;32; 10;32;32;32; 97;110;100; 32;121;32;
       98;101;116;119;101;101;110;32;49;32;97;110;100;32;50;32; 10;32;32;32;32; 111;114; 32;122;32;
       10;32; 103;114;111;117;112;32;32;98;121; 32;99]%N.
Proof. eexists. split; [vm_compute; reflexivity|]. split; vm_compute; reflexivity. Qed.
