(* Model of sqlparse/filters/others.py: StripCommentsFilter, as run by
   sqlparse.format(sql, strip_comments=True) on every grouped statement.
   Definitions only (proofs: StripCommentsFacts.v). *)
From SqlModel Require Import Base PyStr Node.

(* ---- re.search(r'([\r\n]+) *$', value) ---------------------------------------------------
   `$` (no MULTILINE) matches at the end of the string or just before a final '\n'.
   A match is  RUN BLANKS  with RUN a non-empty run of \r/\n, BLANKS a run of U+0020, ending
     (A) at the end of the string, or
     (B) just before the final character when that is '\n'.
   Matches of kind (B) with at least one blank start further left than the kind-(A) match of the same
   string (whose run is the final "\n" alone), so re.search (leftmost) returns them; a kind-(B) match
   without blank is a backtracked prefix of the greedy kind-(A) match from the same start, which is
   preferred.  Everything is computed on the reversed text. *)
Definition is_blank (c : N) : bool := N.eqb c 32.
Definition is_crlf (c : N) : bool := N.eqb c 13 || N.eqb c 10.

Fixpoint span (f : N -> bool) (l : text) : text * text :=
  match l with
  | c :: l' => if f c then let '(a, b) := span f l' in (c :: a, b) else ([], l)
  | [] => ([], [])
  end.

(* kind (A) on the reversed text: blanks, then the run *)
Definition nl_search_end (r : text) : option text :=
  let '(_, r2) := span is_blank r in
  let '(run, _) := span is_crlf r2 in
  match run with [] => None | _ :: _ => Some (rev run) end.

(* group 1 of the match, None when there is no match *)
Definition nl_search (v : text) : option text :=
  let r := rev v in
  match r with
  | c :: r1 =>
      if N.eqb c 10 then
        let '(bl, r2) := span is_blank r1 in
        let '(run, _) := span is_crlf r2 in
        match bl, run with
        | _ :: _, _ :: _ => Some (rev run)          (* kind (B): RUN BLANKS+ before the final \n *)
        | _, _ => nl_search_end r
        end
      else nl_search_end r
  | [] => None
  end.

(* _get_insert_token(token): token.value is the CACHED value for a group *)
Definition s_blank : text := [32]%N.
Definition insert_token (token : node) : node :=
  match nl_search (nvalue token) with
  | Some s => Leaf T_Newline s            (* T.Whitespace.Newline is T.Text.Whitespace.Newline *)
  | None => Leaf T_Whitespace s_blank
  end.

Definition sql_hints : list ttype := [T_CMultilineHint; T_CSingleHint].

(* imt(tk, i=sql.Comment, t=T.Comment) *)
Definition is_comment (n : node) : bool := imt (Some n) [CComment] [] (TOne T_Comment).

(* get_next_comment(idx): token_next_by(i=sql.Comment, t=T.Comment, idx=idx) searches from idx+1;
   [start] is that first index *)
Definition get_next_comment (start : nat) (l : list node) : option (nat * node) :=
  next_by_from [CComment] [] (TOne T_Comment) start l.

(* the is_sql_hint test *)
Definition is_hint (token : node) : bool :=
  tt_among token sql_hints
  || (inst token CComment &&
      match nkids token with
      | k :: _ => tt_among k sql_hints
      | [] => false
      end).

Definition p_lparen : pat := (T_Punctuation, Some [[40]%N]).
Definition p_rparen : pat := (T_Punctuation, Some [[41]%N]).

Definition opt_is (f : node -> bool) (o : option (nat * node)) : bool :=
  match o with Some (_, n) => f n | None => false end.
Definition opt_none {A} (o : option A) : bool := match o with None => true | Some _ => false end.

(* one pass of the body of `while token:` for a non-hint comment at tidx *)
Definition sc_edit (tidx : nat) (token : node) (l : list node) : list node :=
  let prev_ := token_prev false false tidx l in
  let next_ := token_next false false tidx l in
  if opt_none prev_ || opt_none next_
     || opt_is is_ws prev_ || opt_is (fun p => match_pat p p_lparen) prev_
     || opt_is is_ws next_ || opt_is (fun p => match_pat p p_rparen) next_
  then
    if negb (opt_none prev_) && negb (opt_is (fun p => match_pat p p_lparen) prev_)
    then remove_at (S tidx) (insert_at tidx (insert_token token) l)   (* insert, then remove(token) *)
    else remove_at tidx l
  else set_nth tidx (insert_token token) l.

(* the while loop; [cur] is (tidx, token) *)
Fixpoint sc_loop (fuel : nat) (l : list node) (cur : option (nat * node)) : res (list node) :=
  match cur with
  | None => Ok l
  | Some (tidx, token) =>
      match fuel with
      | O => Err Stuck
      | S fuel' =>
          if is_hint token then sc_loop fuel' l (get_next_comment (S tidx) l)
          else
            let l' := sc_edit tidx token l in
            sc_loop fuel' l' (get_next_comment (S tidx) l')
      end
  end.

(* StripCommentsFilter._process(tlist) on tlist.tokens *)
Definition sc_process (l : list node) : res (list node) :=
  sc_loop (S (length l)) l (get_next_comment 0 l).

(* StripCommentsFilter.process(stmt): all group children first (Comment groups included), then the
   list itself; the cached value of the group is not refreshed *)
Fixpoint strip_comments (n : node) : res node :=
  match n with
  | Leaf _ _ => Ok n
  | Grp c v kids =>
      kids1 <- mapM strip_comments kids ;;
      kids2 <- sc_process kids1 ;;
      Ok (Grp c v kids2)
  end.

Definition strip_comments_all (stmts : list node) : res (list node) := mapM strip_comments stmts.

(* ---- specification-level reformulation of _process (proved equal in StripCommentsFacts.v) ----
   Scanning left to right with [prev] = the token now standing before the position (None at the
   start) and [skip] = "the token here is not examined" (the search resumes at tidx+1 after a removal
   without insertion, which steps over the token that moved to tidx). *)
Definition opens (prev : option node) : bool :=
  match prev with None => true | Some p => match_pat p p_lparen end.

Fixpoint sc_spec (prev : option node) (skip : bool) (l : list node) : list node :=
  match l with
  | [] => []
  | x :: rest =>
      if skip || negb (is_comment x) || is_hint x then x :: sc_spec (Some x) false rest
      else if opens prev then sc_spec prev true rest
      else insert_token x :: sc_spec (Some (insert_token x)) false rest
  end.

(* ---- observations used by the theorems ----------------------------------------------------- *)
Definition leaf_is_comment (n : node) : bool := tt_in n T_Comment.
Definition leaf_is_hint (n : node) : bool := tt_among n sql_hints.

(* in every token list of the tree, a non-hint comment child stands first or directly after a "(" *)
Fixpoint residue_ok_list (prev : option node) (l : list node) : bool :=
  match l with
  | [] => true
  | x :: rest => (negb (is_comment x) || is_hint x || opens prev) && residue_ok_list (Some x) rest
  end.
Fixpoint residue_ok (n : node) : bool :=
  match n with
  | Leaf _ _ => true
  | Grp _ _ kids => residue_ok_list None kids && forallb residue_ok kids
  end.

(* no token list of the tree has a child that is a non-hint comment *)
Definition clean_kid (k : node) : bool := negb (is_comment k) || is_hint k.
Fixpoint no_plain_comment (n : node) : bool :=
  match n with
  | Leaf _ _ => true
  | Grp _ _ kids => forallb clean_kid kids && forallb no_plain_comment kids
  end.

(* no token list of the tree has two adjacent comment children *)
Fixpoint no_adjacent_list (l : list node) : bool :=
  match l with
  | x :: (y :: _) as rest => negb (is_comment x && is_comment y) && no_adjacent_list rest
  | _ => true
  end.
Fixpoint no_adjacent_comments (n : node) : bool :=
  match n with
  | Leaf _ _ => true
  | Grp _ _ kids => no_adjacent_list kids && forallb no_adjacent_comments kids
  end.

(* the leaves below Comment groups are comments or whitespace (what group_comments/align_comments build) *)
Definition trivia_leaf (n : node) : bool := leaf_is_comment n || is_ws n.
Fixpoint comments_pure (n : node) : bool :=
  match n with
  | Leaf _ _ => true
  | Grp c _ kids =>
      (if cls_eqb c CComment then forallb trivia_leaf (flatten_list kids) else true)
      && forallb comments_pure kids
  end.

(* every Comment group containing a hint leaf starts with a hint leaf *)
Fixpoint hint_led (n : node) : bool :=
  match n with
  | Leaf _ _ => true
  | Grp c _ kids =>
      (if cls_eqb c CComment && existsb leaf_is_hint (flatten_list kids)
       then match kids with k :: _ => leaf_is_hint k | [] => false end else true)
      && forallb hint_led kids
  end.

(* significant leaves: neither whitespace nor comment *)
Definition significant (n : node) : bool := negb (is_ws n) && negb (leaf_is_comment n).
Definition sig_leaves (n : node) : list node := filter significant (flatten n).
Definition hint_leaves (n : node) : list node := filter leaf_is_hint (flatten n).
Definition plain_comment_leaves (n : node) : list node :=
  filter (fun x => leaf_is_comment x && negb (leaf_is_hint x)) (flatten n).
