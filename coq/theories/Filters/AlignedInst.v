(* format(sql, reindent_aligned=True) over the current tables *)
From SqlModel Require Import Base Node Passes.
From SqlModel.Inst Require Import Cur.
From SqlModel.Filters Require Import RxStripWs RxSerial Reindent ReindentSafe ReindentInst Aligned AlignedSpec.

Definition cur_aligned_trees (t : text) : res (list node) :=
  stmts <- cur_split_stream t ;;
  arun_stmts group (map statement_of stmts).

(* the final string of sqlparse.format(t, reindent_aligned=True) *)
Definition cur_aligned (t : text) : res text :=
  trees <- cur_aligned_trees t ;; Ok (serialize_all trees).

(* al_safe of every statement after grouping + StripWhitespaceFilter (statistics; by
   aligned_stmt_rspec the filter raises on a statement iff this is false) *)
Definition cur_alsafe (t : text) : res (list bool) :=
  trees <- cur_stripws_trees t ;; Ok (map al_safe trees).

(* every whitespace-stripped statement is a group satisfying al_safe *)
Definition al_ok (w : node) : bool := is_group w && al_safe w.
Definition cur_al_ok (t : text) : res bool :=
  trees <- cur_stripws_trees t ;; Ok (forallb al_ok trees).
