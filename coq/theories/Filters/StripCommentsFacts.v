(* Facts about the model of StripCommentsFilter (Filters/StripComments.v). *)
From SqlModel Require Import Base PyStr Node Inv StripComments.
From SqlModel.Inst Require Import Cur.

(* ================================================================================================
   1. list plumbing
   ================================================================================================ *)
Definition last_opt (l : list node) : option node :=
  match rev l with x :: _ => Some x | [] => None end.

Lemma last_opt_snoc l x : last_opt (l ++ [x]) = Some x.
Proof. unfold last_opt. rewrite rev_app_distr. reflexivity. Qed.

Lemma find_from_aux_shift f l base :
  find_from_aux f l (S base) =
  match find_from_aux f l base with Some (i, x) => Some (S i, x) | None => None end.
Proof.
  revert base; induction l as [|y l IH]; intros base; cbn [find_from_aux]; [reflexivity|].
  destruct (f y); [reflexivity | apply IH].
Qed.

Lemma find_from_app f pre rest :
  find_from f (length pre) (pre ++ rest) = find_from_aux f rest (length pre).
Proof.
  unfold find_from. replace (skipn (length pre) (pre ++ rest)) with rest; [reflexivity|].
  rewrite skipn_app, skipn_all, Nat.sub_diag. reflexivity.
Qed.

Lemma find_from_beyond f n l : length l <= n -> find_from f n l = None.
Proof. intros H. unfold find_from. rewrite skipn_all2 by exact H. reflexivity. Qed.

Lemma find_last_true (f : node -> bool) (Hf : forall n, f n = true) (l : list node) base best :
  find_last_aux f l base best =
  match rev l with x :: _ => Some (base + length l - 1, x) | [] => best end.
Proof.
  revert base best; induction l as [|y l IH]; intros base best; cbn [find_last_aux]; [reflexivity|].
  rewrite IH, Hf. cbn [rev length]. destruct (rev l) as [|z r] eqn:E.
  - cbn [app]. assert (l = []) as -> by (destruct l as [|a l']; [reflexivity|];
      apply (f_equal (@length node)) in E; cbn [rev] in E; rewrite app_length in E; cbn in E; lia).
    cbn [length]. f_equal. f_equal. lia.
  - cbn [app]. f_equal. f_equal. lia.
Qed.

Lemma skip_matcher_ff n : skip_matcher false false n = true.
Proof. reflexivity. Qed.

Lemma token_prev_ff pre rest :
  token_prev false false (length pre) (pre ++ rest) =
  match last_opt pre with Some p => Some (length pre - 1, p) | None => None end.
Proof.
  unfold token_prev, find_before.
  replace (firstn (length pre) (pre ++ rest)) with pre
    by (rewrite firstn_app, firstn_all, Nat.sub_diag; cbn [firstn]; rewrite app_nil_r; reflexivity).
  rewrite (find_last_true _ skip_matcher_ff pre 0 None). unfold last_opt. destruct (rev pre); reflexivity.
Qed.

Lemma token_next_ff pre x rest :
  token_next false false (length pre) (pre ++ x :: rest) =
  match rest with y :: _ => Some (S (length pre), y) | [] => None end.
Proof.
  unfold token_next.
  replace (S (length pre)) with (length (pre ++ [x])) by (rewrite app_length; cbn; lia).
  replace (pre ++ x :: rest) with ((pre ++ [x]) ++ rest) by (rewrite <- app_assoc; reflexivity).
  rewrite find_from_app. destruct rest as [|y rest']; reflexivity.
Qed.

Lemma remove_at_app pre x rest : remove_at (length pre) (pre ++ x :: rest) = pre ++ rest.
Proof. induction pre as [|a pre IH]; cbn [length app remove_at]; [reflexivity | rewrite IH; reflexivity]. Qed.

Lemma set_nth_app pre x y rest : set_nth (length pre) y (pre ++ x :: rest) = pre ++ y :: rest.
Proof. induction pre as [|a pre IH]; cbn [length app set_nth]; [reflexivity | rewrite IH; reflexivity]. Qed.

Lemma insert_at_app pre y rest : insert_at (length pre) y (pre ++ rest) = pre ++ y :: rest.
Proof.
  unfold insert_at. rewrite firstn_app, firstn_all, Nat.sub_diag, skipn_app, skipn_all, Nat.sub_diag.
  cbn [firstn skipn app]. rewrite app_nil_r. reflexivity.
Qed.

(* ================================================================================================
   2. the body of the loop: `next_` and the whitespace tests are irrelevant
   ================================================================================================ *)
Lemma sc_edit_spec pre x rest :
  sc_edit (length pre) x (pre ++ x :: rest) =
  if opens (last_opt pre) then pre ++ rest else pre ++ insert_token x :: rest.
Proof.
  unfold sc_edit. rewrite token_prev_ff, token_next_ff.
  destruct (last_opt pre) as [p|] eqn:Ep; cbn [opt_none opt_is opens orb negb andb].
  - destruct (match_pat p p_lparen) eqn:Em.
    + rewrite !orb_true_r. cbn [orb andb negb]. rewrite ?orb_true_r. cbn [andb].
      replace (is_ws p || true) with true by (destruct (is_ws p); reflexivity).
      cbn [orb]. apply remove_at_app.
    + cbn [negb andb].
      match goal with |- (if ?c then _ else _) = _ => destruct c end.
      * rewrite insert_at_app.
        replace (S (length pre)) with (length (pre ++ [insert_token x])) by (rewrite app_length; cbn; lia).
        replace (pre ++ insert_token x :: x :: rest) with ((pre ++ [insert_token x]) ++ x :: rest)
          by (rewrite <- app_assoc; reflexivity).
        rewrite remove_at_app, <- app_assoc. reflexivity.
      * apply set_nth_app.
  - apply remove_at_app.
Qed.

(* ================================================================================================
   3. the while loop is the left-to-right scan sc_spec
   ================================================================================================ *)
Definition b2n (b : bool) : nat := if b then 1 else 0.

Lemma get_next_comment_cons pre x rest :
  get_next_comment (length pre) (pre ++ x :: rest) =
  if is_comment x then Some (length pre, x) else get_next_comment (S (length pre)) (pre ++ x :: rest).
Proof.
  unfold get_next_comment, next_by_from. rewrite find_from_app. cbn [find_from_aux].
  fold (is_comment x). destruct (is_comment x); [reflexivity|].
  replace (S (length pre)) with (length (pre ++ [x])) by (rewrite app_length; cbn; lia).
  replace (pre ++ x :: rest) with ((pre ++ [x]) ++ rest) by (rewrite <- app_assoc; reflexivity).
  rewrite find_from_app. reflexivity.
Qed.

Lemma snoc_len (pre : list node) x : S (length pre) = length (pre ++ [x]).
Proof. rewrite app_length; cbn; lia. Qed.

Lemma snoc_app (pre : list node) x rest : pre ++ x :: rest = (pre ++ [x]) ++ rest.
Proof. rewrite <- app_assoc; reflexivity. Qed.

Lemma sc_loop_spec : forall rest pre skip fuel,
  length rest < fuel ->
  sc_loop fuel (pre ++ rest) (get_next_comment (length pre + b2n skip) (pre ++ rest))
  = Ok (pre ++ sc_spec (last_opt pre) skip rest).
Proof.
  induction rest as [|x rest IH]; intros pre skip fuel Hf.
  - cbn [sc_spec]. rewrite !app_nil_r. unfold get_next_comment, next_by_from.
    rewrite find_from_beyond by lia. destruct fuel; reflexivity.
  - cbn [sc_spec]. destruct skip.
    + cbn [b2n orb]. replace (length pre + 1) with (S (length pre)) by lia.
      rewrite (snoc_len pre x), (snoc_app pre x rest).
      replace (length (pre ++ [x])) with (length (pre ++ [x]) + b2n false) by (cbn [b2n]; lia).
      rewrite IH by (cbn [length] in Hf; lia). rewrite last_opt_snoc, <- app_assoc. reflexivity.
    + cbn [b2n orb]. rewrite Nat.add_0_r, get_next_comment_cons.
      destruct (is_comment x) eqn:Ec; cbn [negb].
      * destruct fuel as [|fuel]; [lia|]. cbn [sc_loop length] in *.
        destruct (is_hint x) eqn:Eh.
        -- rewrite (snoc_len pre x), (snoc_app pre x rest).
           replace (length (pre ++ [x])) with (length (pre ++ [x]) + b2n false) by (cbn [b2n]; lia).
           rewrite IH by lia. rewrite last_opt_snoc, <- app_assoc. reflexivity.
        -- rewrite sc_edit_spec. destruct (opens (last_opt pre)) eqn:Eo.
           ++ replace (S (length pre)) with (length pre + b2n true) by (cbn [b2n]; lia).
              apply IH. lia.
           ++ rewrite (snoc_len pre (insert_token x)), (snoc_app pre (insert_token x) rest).
              replace (length (pre ++ [insert_token x]))
                with (length (pre ++ [insert_token x]) + b2n false) by (cbn [b2n]; lia).
              rewrite IH by lia. rewrite last_opt_snoc, <- app_assoc. reflexivity.
      * rewrite (snoc_len pre x), (snoc_app pre x rest).
        replace (length (pre ++ [x])) with (length (pre ++ [x]) + b2n false) by (cbn [b2n]; lia).
        rewrite IH by (cbn [length] in Hf; lia). rewrite last_opt_snoc, <- app_assoc. reflexivity.
Qed.

(* _process never fails and computes the scan *)
Theorem sc_process_spec l : sc_process l = Ok (sc_spec None false l).
Proof.
  unfold sc_process. exact (sc_loop_spec l [] false (S (length l)) (Nat.lt_succ_diag_r _)).
Qed.

(* the whole filter as a pure function *)
Fixpoint sc_pure (n : node) : node :=
  match n with
  | Leaf _ _ => n
  | Grp c v kids => Grp c v (sc_spec None false (map sc_pure kids))
  end.

Lemma mapM_pure (f : node -> res node) (g : node -> node) l :
  Forall (fun x => f x = Ok (g x)) l -> mapM f l = Ok (map g l).
Proof.
  induction 1 as [|x l Hx _ IH]; [reflexivity|]. cbn [mapM map]. rewrite Hx, IH. reflexivity.
Qed.

Theorem strip_comments_pure n : strip_comments n = Ok (sc_pure n).
Proof.
  induction n as [ty v | c v kids IH] using node_ind'; [reflexivity|].
  cbn [strip_comments sc_pure]. rewrite (mapM_pure strip_comments sc_pure kids IH). cbn [bind].
  rewrite sc_process_spec. reflexivity.
Qed.

(* totality: the fuel S(len tokens) always suffices -- each round moves the cursor right *)
Theorem sc_total : forall n, exists n', strip_comments n = Ok n'.
Proof. intros n. exists (sc_pure n). apply strip_comments_pure. Qed.
Print Assumptions sc_total.

Theorem sc_all_total : forall stmts, strip_comments_all stmts = Ok (map sc_pure stmts).
Proof.
  intros stmts. unfold strip_comments_all. apply mapM_pure.
  apply Forall_forall. intros x _. apply strip_comments_pure.
Qed.

(* ================================================================================================
   4. the inserted token
   ================================================================================================ *)
Lemma span_spec f l : forall a b, span f l = (a, b) -> l = a ++ b /\ forallb f a = true.
Proof.
  induction l as [|c l IH]; intros a b H; cbn [span] in H.
  - injection H as <- <-. split; reflexivity.
  - destruct (f c) eqn:Ef.
    + destruct (span f l) as [a' b'] eqn:E. injection H as <- <-.
      destruct (IH a' b' eq_refl) as [-> Hall]. split; [reflexivity|]. cbn [forallb]. rewrite Ef. exact Hall.
    + injection H as <- <-. split; reflexivity.
Qed.

Lemma forallb_rev (f : N -> bool) l : forallb f l = true -> forallb f (rev l) = true.
Proof.
  intros H. apply forallb_forall. intros x Hx. apply in_rev in Hx.
  rewrite forallb_forall in H. apply H. exact Hx.
Qed.

Definition crlf_run (s : text) : Prop := s <> [] /\ forallb is_crlf s = true.

Lemma rev_run_ok (run : text) : run <> [] -> forallb is_crlf run = true -> crlf_run (rev run).
Proof.
  intros Hn Hall. split; [|apply forallb_rev; exact Hall].
  intros E. apply Hn. apply (f_equal (@rev N)) in E. rewrite rev_involutive in E. exact E.
Qed.

Lemma nl_search_end_shape r s : nl_search_end r = Some s -> crlf_run s.
Proof.
  unfold nl_search_end. destruct (span is_blank r) as [bl r2]. destruct (span is_crlf r2) as [run r3] eqn:E.
  apply span_spec in E. destruct E as [_ Hall]. destruct run as [|c run]; [discriminate|].
  intros H; injection H as <-. apply (rev_run_ok (c :: run)); [discriminate | exact Hall].
Qed.

Lemma nl_search_shape v s : nl_search v = Some s -> crlf_run s.
Proof.
  unfold nl_search. destruct (rev v) as [|c r1]; [discriminate|].
  destruct (N.eqb c 10); [|apply nl_search_end_shape].
  destruct (span is_blank r1) as [bl r2]. destruct (span is_crlf r2) as [run r3] eqn:E.
  apply span_spec in E. destruct E as [_ Hall].
  destruct bl as [|b bl]; [apply nl_search_end_shape|].
  destruct run as [|d run]; [apply nl_search_end_shape|].
  intros H; injection H as <-. apply (rev_run_ok (d :: run)); [discriminate | exact Hall].
Qed.

(* what _get_insert_token builds: one blank, or a Newline token holding a non-empty run of CR/LF *)
Definition inserted (w : node) : Prop :=
  w = Leaf T_Whitespace s_blank \/ exists s, w = Leaf T_Newline s /\ crlf_run s.

Lemma insert_token_inserted x : inserted (insert_token x).
Proof.
  unfold insert_token. destruct (nl_search (nvalue x)) as [s|] eqn:E; [right | left; reflexivity].
  exists s. split; [reflexivity | apply nl_search_shape with (v := nvalue x); exact E].
Qed.

Lemma inserted_facts w : inserted w ->
  is_ws w = true /\ is_comment w = false /\ is_group w = false /\ nvalue w <> [] /\ flatten w = [w].
Proof.
  intros [-> | (s & -> & Hn & _)]; repeat split; try reflexivity; try discriminate. exact Hn.
Qed.

Lemma ins_not_comment x : is_comment (insert_token x) = false.
Proof. apply (inserted_facts _ (insert_token_inserted x)). Qed.
Lemma ins_ws x : is_ws (insert_token x) = true.
Proof. apply (inserted_facts _ (insert_token_inserted x)). Qed.
Lemma ins_flatten x : flatten (insert_token x) = [insert_token x].
Proof. apply (inserted_facts _ (insert_token_inserted x)). Qed.
Lemma ins_is_leaf x : exists ty v, insert_token x = Leaf ty v.
Proof. unfold insert_token. destruct (nl_search (nvalue x)); eauto. Qed.

(* ================================================================================================
   5. basic facts about the tests
   ================================================================================================ *)
Lemma is_comment_leaf ty v : is_comment (Leaf ty v) = tin ty T_Comment.
Proof. reflexivity. Qed.
Lemma is_comment_grp c v k : is_comment (Grp c v k) = cls_eqb c CComment.
Proof. destruct c; reflexivity. Qed.
Lemma is_hint_leaf ty v : is_hint (Leaf ty v) = leaf_is_hint (Leaf ty v).
Proof. unfold is_hint, leaf_is_hint. cbn [inst andb]. apply orb_false_r. Qed.
Lemma is_comment_pure k : is_comment (sc_pure k) = is_comment k.
Proof. destruct k as [ty v | c v kids]; [reflexivity|]. cbn [sc_pure]. rewrite !is_comment_grp. reflexivity. Qed.

Lemma hint_is_comment ty v : leaf_is_hint (Leaf ty v) = true -> tin ty T_Comment = true.
Proof.
  unfold leaf_is_hint, tt_among, sql_hints. cbn [existsb]. rewrite orb_false_r, orb_true_iff, !ttype_eqb_eq.
  intros [-> | ->]; reflexivity.
Qed.

Lemma spec_In l : forall p s y, In y (sc_spec p s l) -> In y l \/ exists x, In x l /\ y = insert_token x.
Proof.
  induction l as [|x l IH]; intros p s y H; cbn [sc_spec] in H; [contradiction|].
  destruct (s || negb (is_comment x) || is_hint x).
  - destruct H as [<- | H]; [left; left; reflexivity|].
    destruct (IH _ _ _ H) as [Hin | (z & Hz & ->)]; [left; right; exact Hin | right; exists z; split; [right; exact Hz | reflexivity]].
  - destruct (opens p).
    + destruct (IH _ _ _ H) as [Hin | (z & Hz & ->)]; [left; right; exact Hin | right; exists z; split; [right; exact Hz | reflexivity]].
    + destruct H as [<- | H]; [right; exists x; split; [left; reflexivity | reflexivity]|].
      destruct (IH _ _ _ H) as [Hin | (z & Hz & ->)]; [left; right; exact Hin | right; exists z; split; [right; exact Hz | reflexivity]].
Qed.

(* a property of nodes that holds of all processed children and of leaves holds of the scan's output *)
Lemma spec_forallb (P : node -> bool) kids :
  (forall ty v, P (Leaf ty v) = true) ->
  Forall (fun k => P (sc_pure k) = true) kids ->
  forall p s, forallb P (sc_spec p s (map sc_pure kids)) = true.
Proof.
  intros HL HK p s. apply forallb_forall. intros y Hy.
  apply spec_In in Hy. destruct Hy as [Hin | (z & _ & ->)].
  - apply in_map_iff in Hin. destruct Hin as (k & <- & Hk). rewrite Forall_forall in HK. apply HK, Hk.
  - destruct (ins_is_leaf z) as (ty & v & ->). apply HL.
Qed.

(* ================================================================================================
   6. which comments can survive
   ================================================================================================ *)
Lemma spec_residue l : forall p s, (s = true -> opens p = true) -> residue_ok_list p (sc_spec p s l) = true.
Proof.
  induction l as [|x l IH]; intros p s Hs; cbn [sc_spec]; [reflexivity|].
  destruct s; cbn [orb].
  - cbn [residue_ok_list]. rewrite (Hs eq_refl), !orb_true_r. cbn [andb]. apply IH. discriminate.
  - destruct (is_comment x) eqn:Ec; cbn [negb orb].
    + destruct (is_hint x) eqn:Eh.
      * cbn [residue_ok_list]. rewrite Eh, orb_true_r. cbn [orb andb]. apply IH. discriminate.
      * destruct (opens p) eqn:Eo.
        -- apply IH. intros _. exact Eo.
        -- cbn [residue_ok_list]. rewrite ins_not_comment. cbn [negb orb andb]. apply IH. discriminate.
    + cbn [residue_ok_list]. rewrite Ec. cbn [negb orb andb]. apply IH. discriminate.
Qed.

Lemma sc_residue_pure n : residue_ok (sc_pure n) = true.
Proof.
  induction n as [ty v | c v kids IH] using node_ind'; [reflexivity|].
  cbn [sc_pure residue_ok]. apply andb_true_iff. split.
  - apply spec_residue. discriminate.
  - apply spec_forallb; [reflexivity | exact IH].
Qed.

(* TRUE form of "no comment is left": in every token list of the result, a non-hint comment child
   (a Comment group or a T.Comment token) stands first or directly after a "(" punctuation token *)
Theorem sc_residue : forall n n', strip_comments n = Ok n' -> residue_ok n' = true.
Proof. intros n n' H. rewrite strip_comments_pure in H. injection H as <-. apply sc_residue_pure. Qed.
Print Assumptions sc_residue.

Lemma no_adjacent_tail x l : no_adjacent_list (x :: l) = true -> no_adjacent_list l = true.
Proof. destruct l as [|y l]; [reflexivity|]. cbn [no_adjacent_list]. intros H. apply andb_true_iff in H. apply H. Qed.

Lemma no_adjacent_head x y l : no_adjacent_list (x :: y :: l) = true -> is_comment x = true -> is_comment y = false.
Proof.
  cbn [no_adjacent_list]. intros H Hx. apply andb_true_iff in H. destruct H as [H _].
  rewrite Hx in H. destruct (is_comment y); [discriminate | reflexivity].
Qed.

Lemma no_adjacent_map l : no_adjacent_list (map sc_pure l) = no_adjacent_list l.
Proof.
  destruct l as [|x l]; [reflexivity|]. revert x.
  induction l as [|y l IH]; intros x; [reflexivity|].
  change (negb (is_comment (sc_pure x) && is_comment (sc_pure y)) && no_adjacent_list (map sc_pure (y :: l))
          = negb (is_comment x && is_comment y) && no_adjacent_list (y :: l)).
  rewrite !is_comment_pure, IH. reflexivity.
Qed.

Lemma spec_clean l : forall p s,
  no_adjacent_list l = true ->
  (s = true -> match l with x :: _ => is_comment x = false | [] => True end) ->
  forallb clean_kid (sc_spec p s l) = true.
Proof.
  induction l as [|x l IH]; intros p s Hadj Hs; cbn [sc_spec]; [reflexivity|].
  pose proof (no_adjacent_tail _ _ Hadj) as Htl.
  destruct s; cbn [orb].
  - cbn [forallb]. unfold clean_kid at 1. rewrite (Hs eq_refl). cbn [negb orb andb]. apply IH; [exact Htl | discriminate].
  - destruct (is_comment x) eqn:Ec; cbn [negb orb].
    + destruct (is_hint x) eqn:Eh.
      * cbn [forallb]. unfold clean_kid at 1. rewrite Eh, orb_true_r. cbn [andb]. apply IH; [exact Htl | discriminate].
      * destruct (opens p).
        -- apply IH; [exact Htl|]. intros _. destruct l as [|y l]; [exact I|]. apply (no_adjacent_head _ _ _ Hadj Ec).
        -- cbn [forallb]. unfold clean_kid at 1. rewrite ins_not_comment. cbn [negb orb andb]. apply IH; [exact Htl | discriminate].
    + cbn [forallb]. unfold clean_kid at 1. rewrite Ec. cbn [negb orb andb]. apply IH; [exact Htl | discriminate].
Qed.

Lemma sc_no_comments_pure n : no_adjacent_comments n = true -> no_plain_comment (sc_pure n) = true.
Proof.
  induction n as [ty v | c v kids IH] using node_ind'; [reflexivity|].
  cbn [no_adjacent_comments sc_pure no_plain_comment]. intros H. apply andb_true_iff in H. destruct H as [Ha Hk].
  apply andb_true_iff. split.
  - apply spec_clean; [rewrite no_adjacent_map; exact Ha | discriminate].
  - apply spec_forallb; [reflexivity|].
    rewrite forallb_forall in Hk. rewrite Forall_forall in IH |- *. intros k Hin. apply IH; [exact Hin | apply Hk, Hin].
Qed.

(* sc_no_comments under the hypothesis that no token list has two adjacent comment children *)
Theorem sc_no_comments_partial : forall n n',
  no_adjacent_comments n = true -> strip_comments n = Ok n' -> no_plain_comment n' = true.
Proof. intros n n' Ha H. rewrite strip_comments_pure in H. injection H as <-. apply sc_no_comments_pure, Ha. Qed.
Print Assumptions sc_no_comments_partial.

(* no child that is a plain comment => no leaf that is a plain comment *)
Lemma no_plain_comment_leaves n : no_plain_comment n = true -> is_comment n = false \/ is_hint n = true ->
  Forall (fun x => leaf_is_comment x = true -> leaf_is_hint x = true) (flatten n).
Proof.
  induction n as [ty v | c v kids IH] using node_ind'; intros Hn Htop.
  - cbn [flatten]. constructor; [|constructor]. intros Hc. rewrite is_comment_leaf, is_hint_leaf in Htop.
    unfold leaf_is_comment, tt_in in Hc. destruct Htop as [Ht | Ht]; [congruence | exact Ht].
  - cbn [no_plain_comment] in Hn. apply andb_true_iff in Hn. destruct Hn as [Hc Hk].
    cbn [flatten]. rewrite forallb_forall in Hc, Hk. rewrite Forall_forall in IH.
    apply Forall_forall. intros x Hx. apply in_flat_map in Hx. destruct Hx as (k & Hkin & Hx).
    specialize (IH k Hkin (Hk k Hkin)). rewrite Forall_forall in IH. apply IH; [|exact Hx].
    specialize (Hc k Hkin). unfold clean_kid in Hc. apply orb_true_iff in Hc.
    destruct Hc as [Hc | Hc]; [left; destruct (is_comment k); [discriminate | reflexivity] | right; exact Hc].
Qed.

(* leaf-level corollary for a statement: every comment leaf that is left is a hint *)
Theorem sc_no_comment_leaves_partial : forall c v kids n',
  no_adjacent_comments (Grp c v kids) = true -> cls_eqb c CComment = false ->
  strip_comments (Grp c v kids) = Ok n' ->
  Forall (fun x => leaf_is_comment x = true -> leaf_is_hint x = true) (flatten n').
Proof.
  intros c v kids n' Ha Hc H. pose proof (sc_no_comments_partial _ _ Ha H) as Hp.
  rewrite strip_comments_pure in H. injection H as <-.
  apply no_plain_comment_leaves; [exact Hp|]. left. cbn [sc_pure]. rewrite is_comment_grp. exact Hc.
Qed.
Print Assumptions sc_no_comment_leaves_partial.

(* ================================================================================================
   7. the leaves that are kept
   ================================================================================================ *)
Lemma flatten_list_cons x l : flatten_list (x :: l) = flatten x ++ flatten_list l.
Proof. reflexivity. Qed.

(* a filter on leaves that rejects the inserted tokens and everything below the non-hint comment
   children sees the same leaves before and after the scan *)
Lemma spec_filter (f : node -> bool) l :
  (forall x, f (insert_token x) = false) ->
  (forall x, In x l -> is_comment x = true -> is_hint x = false -> filter f (flatten x) = []) ->
  forall p s, filter f (flatten_list (sc_spec p s l)) = filter f (flatten_list l).
Proof.
  intros Hins. induction l as [|x l IH]; intros Hl p s; cbn [sc_spec]; [reflexivity|].
  assert (Hl' : forall z, In z l -> is_comment z = true -> is_hint z = false -> filter f (flatten z) = [])
    by (intros z Hz; apply Hl; right; exact Hz).
  destruct (s || negb (is_comment x) || is_hint x) eqn:E.
  - rewrite !flatten_list_cons, !filter_app, IH by exact Hl'. reflexivity.
  - apply orb_false_iff in E. destruct E as [E Eh]. apply orb_false_iff in E. destruct E as [_ Ec].
    apply negb_false_iff in Ec.
    assert (Hx : filter f (flatten x) = []) by (apply Hl; [left; reflexivity | exact Ec | exact Eh]).
    destruct (opens p).
    + rewrite flatten_list_cons, filter_app, Hx, IH by exact Hl'. reflexivity.
    + rewrite !flatten_list_cons, !filter_app, Hx, ins_flatten, IH by exact Hl'.
      cbn [filter]. rewrite Hins. reflexivity.
Qed.

Lemma filter_flatten_map (f : node -> bool) kids :
  Forall (fun k => filter f (flatten (sc_pure k)) = filter f (flatten k)) kids ->
  filter f (flatten_list (map sc_pure kids)) = filter f (flatten_list kids).
Proof.
  induction 1 as [|k kids Hk _ IH]; [reflexivity|].
  cbn [map]. rewrite !flatten_list_cons, !filter_app, Hk, IH. reflexivity.
Qed.

Lemma trivia_not_significant l : forallb trivia_leaf l = true -> filter significant l = [].
Proof.
  induction l as [|x l IH]; [reflexivity|]. cbn [forallb filter]. intros H. apply andb_true_iff in H.
  destruct H as [Hx Hl]. rewrite (IH Hl). unfold trivia_leaf in Hx. unfold significant.
  destruct (is_ws x); destruct (leaf_is_comment x); try reflexivity. discriminate.
Qed.

Lemma pure_comment_nosig k : comments_pure k = true -> is_comment k = true -> sig_leaves k = [].
Proof.
  destruct k as [ty v | c v kids]; intros Hp Hc.
  - rewrite is_comment_leaf in Hc. unfold sig_leaves. cbn [flatten filter]. unfold significant, leaf_is_comment, tt_in.
    rewrite Hc, andb_false_r. reflexivity.
  - rewrite is_comment_grp in Hc. cbn [comments_pure] in Hp. rewrite Hc in Hp. apply andb_true_iff in Hp.
    destruct Hp as [Hp _]. unfold sig_leaves. cbn [flatten]. apply trivia_not_significant. exact Hp.
Qed.

Lemma ins_not_significant x : significant (insert_token x) = false.
Proof. unfold significant. rewrite ins_ws. reflexivity. Qed.

Lemma sc_sig_pure n : comments_pure n = true -> sig_leaves (sc_pure n) = sig_leaves n.
Proof.
  induction n as [ty v | c v kids IH] using node_ind'; [reflexivity|].
  intros Hp. assert (Hk : forall k, In k kids -> comments_pure k = true).
  { cbn [comments_pure] in Hp. apply andb_true_iff in Hp. destruct Hp as [_ Hp].
    rewrite forallb_forall in Hp. exact Hp. }
  rewrite Forall_forall in IH.
  unfold sig_leaves. cbn [sc_pure flatten].
  change (flat_map flatten ?l) with (flatten_list l).
  rewrite spec_filter.
  - apply filter_flatten_map. apply Forall_forall. intros k Hin. apply (IH k Hin (Hk k Hin)).
  - apply ins_not_significant.
  - intros x Hx Hc _. apply in_map_iff in Hx. destruct Hx as (k & <- & Hin).
    fold (sig_leaves (sc_pure k)). rewrite (IH k Hin (Hk k Hin)).
    apply pure_comment_nosig; [apply Hk, Hin | rewrite <- is_comment_pure; exact Hc].
Qed.

(* sc_noncomment_leaves: when the leaves below Comment groups are comments/whitespace (what the
   grouping builds), the significant leaves -- neither whitespace nor comment -- are exactly those
   of the input: same nodes (type and value), same order *)
Theorem sc_noncomment_leaves : forall n n',
  comments_pure n = true -> strip_comments n = Ok n' -> sig_leaves n' = sig_leaves n.
Proof. intros n n' Hp H. rewrite strip_comments_pure in H. injection H as <-. apply sc_sig_pure, Hp. Qed.
Print Assumptions sc_noncomment_leaves.

(* the hypothesis is needed: a Comment group holding a Name loses it *)
Example sc_noncomment_leaves_needs_pure :
  let n := Grp CStatement [] [Leaf T_Name [97]%N; Grp CComment [] [Leaf T_Name [98]%N]] in
  exists n', strip_comments n = Ok n' /\ sig_leaves n = [Leaf T_Name [97]%N; Leaf T_Name [98]%N]
             /\ sig_leaves n' = [Leaf T_Name [97]%N].
Proof. eexists. split; [vm_compute; reflexivity | split; reflexivity]. Qed.

(* without any hypothesis: the non-whitespace leaves of the result are a subsequence of the input's *)
Inductive subseq {A} : list A -> list A -> Prop :=
| sub_nil : subseq [] []
| sub_keep x a b : subseq a b -> subseq (x :: a) (x :: b)
| sub_drop x a b : subseq a b -> subseq a (x :: b).

Lemma subseq_refl {A} (l : list A) : subseq l l.
Proof. induction l; constructor; assumption. Qed.
Lemma subseq_nil_l {A} (l : list A) : subseq [] l.
Proof. induction l; constructor; assumption. Qed.
Lemma subseq_app {A} (a a' b b' : list A) : subseq a a' -> subseq b b' -> subseq (a ++ b) (a' ++ b').
Proof. induction 1; intros Hb; cbn [app]; try constructor; auto. Qed.
Lemma subseq_trans {A} (a b c : list A) : subseq a b -> subseq b c -> subseq a c.
Proof.
  intros Hab Hbc. revert a Hab. induction Hbc as [|x b c Hbc IH|x b c Hbc IH]; intros a Hab.
  - exact Hab.
  - inversion Hab as [|y a' b' Ha'|y a' b' Ha']; subst; [apply sub_keep | apply sub_drop]; apply IH; assumption.
  - apply sub_drop, IH, Hab.
Qed.

Definition nonws_leaves_list (l : list node) : list node := filter (fun x => negb (is_ws x)) (flatten_list l).

Lemma spec_subseq l : forall p s, subseq (nonws_leaves_list (sc_spec p s l)) (nonws_leaves_list l).
Proof.
  unfold nonws_leaves_list.
  induction l as [|x l IH]; intros p s; cbn [sc_spec]; [constructor|].
  destruct (s || negb (is_comment x) || is_hint x).
  - rewrite !flatten_list_cons, !filter_app. apply subseq_app; [apply subseq_refl | apply IH].
  - destruct (opens p).
    + rewrite flatten_list_cons, filter_app.
      change (filter (fun x0 => negb (is_ws x0)) (flatten_list (sc_spec p true l)))
        with ([] ++ filter (fun x0 => negb (is_ws x0)) (flatten_list (sc_spec p true l))).
      apply subseq_app; [apply subseq_nil_l | apply IH].
    + rewrite !flatten_list_cons, !filter_app, ins_flatten. cbn [filter]. rewrite ins_ws. cbn [negb].
      apply subseq_app; [apply subseq_nil_l | apply IH].
Qed.

Lemma sc_subseq_pure n :
  subseq (filter (fun x => negb (is_ws x)) (flatten (sc_pure n))) (filter (fun x => negb (is_ws x)) (flatten n)).
Proof.
  induction n as [ty v | c v kids IH] using node_ind'; [apply subseq_refl|].
  cbn [sc_pure flatten]. change (flat_map flatten ?l) with (flatten_list l).
  eapply subseq_trans; [apply spec_subseq|]. unfold nonws_leaves_list.
  induction IH as [|k kids Hk _ IHk]; [constructor|].
  cbn [map]. rewrite !flatten_list_cons, !filter_app. apply subseq_app; assumption.
Qed.

(* for ALL trees: nothing but whitespace is ever added, nothing is reordered or altered *)
Theorem sc_leaves_subseq : forall n n', strip_comments n = Ok n' ->
  subseq (filter (fun x => negb (is_ws x)) (flatten n')) (filter (fun x => negb (is_ws x)) (flatten n)).
Proof. intros n n' H. rewrite strip_comments_pure in H. injection H as <-. apply sc_subseq_pure. Qed.
Print Assumptions sc_leaves_subseq.

(* ================================================================================================
   8. hints
   ================================================================================================ *)
Lemma ins_not_hint x : leaf_is_hint (insert_token x) = false.
Proof. unfold insert_token. destruct (nl_search (nvalue x)); reflexivity. Qed.

Lemma existsb_false_filter (f : node -> bool) l : existsb f l = false -> filter f l = [].
Proof.
  induction l as [|x l IH]; [reflexivity|]. cbn [existsb filter]. intros H. apply orb_false_iff in H.
  destruct H as [Hx Hl]. rewrite Hx. apply IH, Hl.
Qed.

Lemma sc_hints_pure n : hint_led n = true -> hint_leaves (sc_pure n) = hint_leaves n.
Proof.
  induction n as [ty v | c v kids IH] using node_ind'; [reflexivity|].
  intros Hp. assert (Hk : forall k, In k kids -> hint_led k = true).
  { cbn [hint_led] in Hp. apply andb_true_iff in Hp. destruct Hp as [_ Hp].
    rewrite forallb_forall in Hp. exact Hp. }
  rewrite Forall_forall in IH.
  unfold hint_leaves. cbn [sc_pure flatten].
  change (flat_map flatten ?l) with (flatten_list l).
  rewrite spec_filter.
  - apply filter_flatten_map. apply Forall_forall. intros k Hin. apply (IH k Hin (Hk k Hin)).
  - apply ins_not_hint.
  - intros x Hx Hc Hh. apply in_map_iff in Hx. destruct Hx as (k & <- & Hin).
    fold (hint_leaves (sc_pure k)). rewrite (IH k Hin (Hk k Hin)).
    pose proof (Hk k Hin) as Hled. clear IH Hk Hp Hin.
    destruct k as [ty' v' | c' v' kids'].
    + cbn [sc_pure] in Hh. rewrite is_hint_leaf in Hh. unfold hint_leaves. cbn [flatten filter]. rewrite Hh. reflexivity.
    + rewrite is_comment_pure, is_comment_grp in Hc. cbn [hint_led] in Hled. rewrite Hc in Hled. cbn [andb] in Hled.
      destruct (existsb leaf_is_hint (flatten_list kids')) eqn:Ex.
      * exfalso. apply andb_true_iff in Hled. destruct Hled as [Hhd _].
        destruct kids' as [|h rest]; [discriminate|].
        destruct h as [ty0 v0 | c0 v0 k0]; [|discriminate].
        cbn [sc_pure map sc_spec orb] in Hh.
        assert (Eh : is_hint (Leaf ty0 v0) = true) by (rewrite is_hint_leaf; exact Hhd).
        rewrite Eh, orb_true_r in Hh. unfold is_hint in Hh. cbn [nkids] in Hh.
        unfold leaf_is_hint in Hhd. rewrite Hhd, andb_true_r in Hh.
        assert (Ei : inst (Grp c' v' (Leaf ty0 v0 :: sc_spec (Some (Leaf ty0 v0)) false (map sc_pure rest))) CComment = true)
          by (cbn [inst]; rewrite Hc; reflexivity).
        rewrite Ei, orb_true_r in Hh. discriminate.
      * unfold hint_leaves. cbn [flatten]. apply existsb_false_filter. exact Ex.
Qed.

(* hints survive when every Comment group that contains a hint starts with one *)
Theorem sc_hints_preserved : forall n n',
  hint_led n = true -> strip_comments n = Ok n' -> hint_leaves n' = hint_leaves n.
Proof. intros n n' Hp H. rewrite strip_comments_pure in H. injection H as <-. apply sc_hints_pure, Hp. Qed.
Print Assumptions sc_hints_preserved.

(* ================================================================================================
   9. separation
   ================================================================================================ *)
Definition adjacent (u v : node) (l : list node) : Prop := exists l1 l2, l = l1 ++ u :: v :: l2.
Definition ocons (p : option node) (l : list node) : list node := match p with Some x => x :: l | None => l end.

Lemma adjacent_cons a u v l : adjacent u v l -> adjacent u v (a :: l).
Proof. intros (l1 & l2 & ->). exists (a :: l1), l2. reflexivity. Qed.
Lemma adjacent_head a b l : adjacent a b (a :: b :: l).
Proof. exists [], l. reflexivity. Qed.
Lemma adjacent_cons_inv a u v l :
  adjacent u v (a :: l) -> (u = a /\ exists l', l = v :: l') \/ adjacent u v l.
Proof.
  intros (l1 & l2 & E). destruct l1 as [|b l1]; cbn [app] in E.
  - injection E as -> ->. left. split; [reflexivity | eauto].
  - injection E as -> ->. right. exists l1, l2. reflexivity.
Qed.
Lemma adjacent_ocons p u v l : adjacent u v l -> adjacent u v (ocons p l).
Proof. destruct p; [apply adjacent_cons | auto]. Qed.

Definition sep_ok (u v : node) : Prop := inserted u \/ inserted v \/ match_pat u p_lparen = true.

Lemma spec_adj l : forall p s u v,
  (s = true -> opens p = true) ->
  adjacent u v (ocons p (sc_spec p s l)) -> adjacent u v (ocons p l) \/ sep_ok u v.
Proof.
  induction l as [|x l IH]; intros p s u v Hs H; cbn [sc_spec] in H; [left; exact H|].
  destruct (s || negb (is_comment x) || is_hint x) eqn:E.
  - (* x kept *)
    assert (Hx : adjacent u v (x :: sc_spec (Some x) false l) -> adjacent u v (ocons p (x :: l)) \/ sep_ok u v).
    { intros H'. destruct (IH (Some x) false u v (fun e => ltac:(discriminate)) H') as [Ha | Ha]; [left | right; exact Ha].
      apply adjacent_ocons. exact Ha. }
    destruct p as [a|]; cbn [ocons] in *; [|apply Hx, H].
    apply adjacent_cons_inv in H. destruct H as [[-> (l' & El)] | H].
    + injection El as <- _. left. apply adjacent_head.
    + destruct (Hx H) as [Ha | Ha]; [left; exact Ha | right; exact Ha].
  - assert (Es : s = false) by (destruct s; [discriminate | reflexivity]). subst s. clear Hs.
    destruct (opens p) eqn:Eo.
    + (* x removed, the next token is stepped over *)
      destruct (IH p true u v (fun _ => Eo) H) as [Ha | Ha]; [|right; exact Ha].
      destruct p as [a|]; cbn [ocons] in *.
      * apply adjacent_cons_inv in Ha. destruct Ha as [[-> _] | Ha].
        -- right. right. right. exact Eo.
        -- left. apply adjacent_cons, adjacent_cons, Ha.
      * left. apply adjacent_cons, Ha.
    + (* x replaced by the inserted token *)
      set (w := insert_token x) in *.
      assert (Hw : adjacent u v (w :: sc_spec (Some w) false l) -> adjacent u v (ocons p (x :: l)) \/ sep_ok u v).
      { intros H'. destruct (IH (Some w) false u v (fun e => ltac:(discriminate)) H') as [Ha | Ha]; [|right; exact Ha].
        cbn [ocons] in Ha. apply adjacent_cons_inv in Ha. destruct Ha as [[-> _] | Ha].
        - right. left. apply insert_token_inserted.
        - left. apply adjacent_ocons, adjacent_cons, Ha. }
      destruct p as [a|]; cbn [ocons] in *; [|apply Hw, H].
      apply adjacent_cons_inv in H. destruct H as [[-> (l' & El)] | H].
      * injection El as <- _. right. right. left. apply insert_token_inserted.
      * apply Hw, H.
Qed.

(* sc_separated, for the token list of ANY group: two children that are neighbours after _process
   were neighbours before, or one of them is a token the filter inserted (one blank, or a Newline
   token with a non-empty run of CR/LF), or the left one is the "(" the code special-cases.
   So a comment between two tokens is never dropped without a replacement, except after "(" and at
   the very start of the list (where there is no left neighbour IN THIS LIST). *)
Theorem sc_separated : forall l l' u v,
  sc_process l = Ok l' -> adjacent u v l' ->
  adjacent u v l \/ inserted u \/ inserted v \/ match_pat u p_lparen = true.
Proof.
  intros l l' u v H Ha. rewrite sc_process_spec in H. injection H as <-.
  apply (spec_adj l None false u v (fun e => ltac:(discriminate)) Ha).
Qed.
Print Assumptions sc_separated.

(* how the filter acts on a group: the children are processed, then the list *)
Theorem strip_comments_grp : forall c v kids n',
  strip_comments (Grp c v kids) = Ok n' ->
  exists kids1 kids2, Forall2 (fun k k1 => strip_comments k = Ok k1) kids kids1
    /\ sc_process kids1 = Ok kids2 /\ n' = Grp c v kids2.
Proof.
  intros c v kids n' H. rewrite strip_comments_pure in H. injection H as <-.
  exists (map sc_pure kids), (sc_spec None false (map sc_pure kids)). split; [|split].
  - induction kids as [|k kids IH]; constructor; [apply strip_comments_pure | exact IH].
  - apply sc_process_spec.
  - reflexivity.
Qed.

Lemma spec_app pre : forall p s rest,
  exists p' s', sc_spec p s (pre ++ rest) = sc_spec p s pre ++ sc_spec p' s' rest.
Proof.
  induction pre as [|x pre IH]; intros p s rest; [exists p, s; reflexivity|].
  cbn [app sc_spec]. destruct (s || negb (is_comment x) || is_hint x).
  - destruct (IH (Some x) false rest) as (p' & s' & ->). exists p', s'. reflexivity.
  - destruct (opens p).
    + apply IH.
    + destruct (IH (Some (insert_token x)) false rest) as (p' & s' & ->). exists p', s'. reflexivity.
Qed.

(* a comment between two tokens a and b of the same list (a not a comment and not "("; e.g. the line
   comment of `a -- c\n b`) is replaced by the inserted token: a and b are never glued *)
Theorem sc_not_glued : forall pre a c b post,
  is_comment a = false -> match_pat a p_lparen = false ->
  is_comment c = true -> is_hint c = false -> is_comment b = false ->
  exists pre' post',
    sc_process (pre ++ a :: c :: b :: post) = Ok (pre' ++ a :: insert_token c :: b :: post')
    /\ inserted (insert_token c).
Proof.
  intros pre a c b post Ha Hp Hc Hh Hb. rewrite sc_process_spec.
  destruct (spec_app pre None false (a :: c :: b :: post)) as (p' & s' & ->).
  exists (sc_spec None false pre), (sc_spec (Some b) false post). split; [|apply insert_token_inserted].
  cbn [sc_spec opens]. rewrite Ha, Hc, Hh, Hp, Hb. cbn [negb orb]. rewrite !orb_true_r. reflexivity.
Qed.
Print Assumptions sc_not_glued.

(* ================================================================================================
   10. idempotence
   ================================================================================================ *)
Lemma spec_id l : forall p, forallb clean_kid l = true -> sc_spec p false l = l.
Proof.
  induction l as [|x l IH]; intros p H; [reflexivity|]. cbn [forallb] in H. apply andb_true_iff in H.
  destruct H as [Hx Hl]. cbn [sc_spec orb]. unfold clean_kid in Hx. rewrite Hx, IH by exact Hl. reflexivity.
Qed.

Lemma sc_idem_pure n : no_plain_comment n = true -> sc_pure n = n.
Proof.
  induction n as [ty v | c v kids IH] using node_ind'; [reflexivity|].
  cbn [no_plain_comment sc_pure]. intros H. apply andb_true_iff in H. destruct H as [Hc Hk].
  assert (Em : map sc_pure kids = kids).
  { rewrite forallb_forall in Hk. clear Hc. induction IH as [|k kids Hk1 _ IHk]; [reflexivity|].
    cbn [map]. rewrite Hk1 by (apply Hk; left; reflexivity). rewrite IHk; [reflexivity|].
    intros z Hz. apply Hk. right. exact Hz. }
  rewrite Em, spec_id by exact Hc. reflexivity.
Qed.

(* the filter changes nothing on a tree none of whose token lists has a non-hint comment child *)
Theorem sc_fixpoint : forall n, no_plain_comment n = true -> strip_comments n = Ok n.
Proof. intros n H. rewrite strip_comments_pure, (sc_idem_pure n H). reflexivity. Qed.

(* sc_idem_partial: a second run changes nothing when the first run left no non-hint comment child *)
Theorem sc_idem_partial : forall n n',
  strip_comments n = Ok n' -> no_plain_comment n' = true -> strip_comments n' = Ok n'.
Proof. intros n n' _ H. apply sc_fixpoint, H. Qed.

(* ... in particular when no token list of the input has two adjacent comment children *)
Theorem sc_idem_no_adjacent : forall n n',
  no_adjacent_comments n = true -> strip_comments n = Ok n' -> strip_comments n' = Ok n'.
Proof. intros n n' Ha H. apply sc_fixpoint. apply (sc_no_comments_partial n n' Ha H). Qed.
Print Assumptions sc_idem_no_adjacent.

(* ================================================================================================
   11. concrete texts (through cur_parse): refutations of the unrestricted statements, and
       satisfiability of the hypotheses of the theorems above
   ================================================================================================ *)
Definition sc_run (t : text) : res (list node) := stmts <- cur_parse t ;; strip_comments_all stmts.
(* '/* a *//* b */' *)
Definition t_two_comments : text := [47; 42; 32; 97; 32; 42; 47; 47; 42; 32; 98; 32; 42; 47]%N.
(* '/* b */' *)
Definition t_comment_b : text := [47; 42; 32; 98; 32; 42; 47]%N.
(* 'select /* c */ /*+ h */ 1' *)
Definition t_hint_after_comment : text := [115; 101; 108; 101; 99; 116; 32; 47; 42; 32; 99; 32; 42; 47; 32; 47; 42; 43; 32; 104; 32; 42; 47; 32; 49]%N.
(* '/*+ h */' *)
Definition t_hint : text := [47; 42; 43; 32; 104; 32; 42; 47]%N.
(* 'select f/**/AS c from t' *)
Definition t_fuse : text := [115; 101; 108; 101; 99; 116; 32; 102; 47; 42; 42; 47; 65; 83; 32; 99; 32; 102; 114; 111; 109; 32; 116]%N.
(* 'select fAS c from t' *)
Definition t_fuse_out : text := [115; 101; 108; 101; 99; 116; 32; 102; 65; 83; 32; 99; 32; 102; 114; 111; 109; 32; 116]%N.
(* 'a -- c\n b' *)
Definition t_line : text := [97; 32; 45; 45; 32; 99; 10; 32; 98]%N.
(* 'a \n b' *)
Definition t_line_out : text := [97; 32; 10; 32; 98]%N.
(* 'select a, -- c\n b /*+ h */ from (/* x */ select 1) t' *)
Definition t_good : text := [115; 101; 108; 101; 99; 116; 32; 97; 44; 32; 45; 45; 32; 99; 10; 32; 98; 32; 47; 42; 43; 32; 104; 32; 42; 47; 32; 102; 114; 111; 109; 32; 40; 47; 42; 32; 120; 32; 42; 47; 32; 115; 101; 108; 101; 99; 116; 32; 49; 41; 32; 116]%N.
(* 'select a, \n b /*+ h */ from ( select 1) t' *)
Definition t_good_out : text := [115; 101; 108; 101; 99; 116; 32; 97; 44; 32; 10; 32; 98; 32; 47; 42; 43; 32; 104; 32; 42; 47; 32; 102; 114; 111; 109; 32; 40; 32; 115; 101; 108; 101; 99; 116; 32; 49; 41; 32; 116]%N.

(* sc_no_comments is FALSE: `/* a *//* b */` keeps `/* b */` (the first comment is removed without
   insertion since it has no predecessor; the search resumes at tidx+1 and steps over the second) *)
Theorem sc_no_comments_refuted :
  exists stmts stmts', cur_parse t_two_comments = Ok stmts /\ strip_comments_all stmts = Ok stmts'
    /\ flat_map plain_comment_leaves stmts' = [Leaf T_CMultiline t_comment_b]
    /\ text_of_list stmts' = t_comment_b.
Proof. eexists. eexists. split; [vm_compute; reflexivity|]. split; [vm_compute; reflexivity|]. split; vm_compute; reflexivity. Qed.
Print Assumptions sc_no_comments_refuted.

(* sc_idem is FALSE on the same text: the second run removes `/* b */` *)
Theorem sc_idem_refuted :
  exists stmts s1 s2, cur_parse t_two_comments = Ok stmts /\ strip_comments_all stmts = Ok s1
    /\ strip_comments_all s1 = Ok s2 /\ text_of_list s1 = t_comment_b /\ text_of_list s2 = [] /\ s1 <> s2.
Proof.
  eexists. eexists. eexists. split; [vm_compute; reflexivity|]. split; [vm_compute; reflexivity|].
  split; [vm_compute; reflexivity|]. split; [vm_compute; reflexivity|]. split; [vm_compute; reflexivity|].
  intros E. apply (f_equal text_of_list) in E. vm_compute in E. discriminate.
Qed.
Print Assumptions sc_idem_refuted.

(* hints are NOT always kept: a hint that follows a comment (align_comments puts it into the same
   Comment group, which does not start with the hint) is removed with it *)
Theorem sc_hints_refuted :
  exists stmts stmts', cur_parse t_hint_after_comment = Ok stmts /\ strip_comments_all stmts = Ok stmts'
    /\ flat_map hint_leaves stmts = [Leaf T_CMultilineHint t_hint]
    /\ flat_map hint_leaves stmts' = []
    /\ forallb hint_led stmts = false.
Proof. eexists. eexists. split; [vm_compute; reflexivity|]. split; [vm_compute; reflexivity|]. repeat split; vm_compute; reflexivity. Qed.
Print Assumptions sc_hints_refuted.

(* leaf-level separation is FALSE: a comment that is the FIRST child of a nested group (here the
   Identifier `/**/AS c` inside `f/**/AS c`) has no predecessor in that list and is removed without
   replacement although the leaf `f` precedes it in the enclosing list: `f` and `AS` are fused *)
Theorem sc_fuse_refuted :
  exists stmts stmts', cur_parse t_fuse = Ok stmts /\ strip_comments_all stmts = Ok stmts'
    /\ text_of_list stmts' = t_fuse_out
    /\ forallb comments_pure stmts = true /\ forallb no_adjacent_comments stmts = true.
Proof. eexists. eexists. split; [vm_compute; reflexivity|]. split; [vm_compute; reflexivity|]. repeat split; vm_compute; reflexivity. Qed.
Print Assumptions sc_fuse_refuted.

(* the line comment of `a -- c\n b` leaves its line break *)
Example sc_line_comment_example :
  exists stmts', sc_run t_line = Ok stmts' /\ text_of_list stmts' = t_line_out.
Proof. eexists. split; vm_compute; reflexivity. Qed.

(* the hypotheses of sc_no_comments_partial, sc_noncomment_leaves, sc_hints_preserved and
   sc_idem_no_adjacent hold of the parse of a text with comments in a list, a hint, a comment after "(" *)
Example sc_hypotheses_satisfiable :
  exists stmts stmts', cur_parse t_good = Ok stmts /\ strip_comments_all stmts = Ok stmts'
    /\ forallb no_adjacent_comments stmts = true /\ forallb comments_pure stmts = true
    /\ forallb hint_led stmts = true
    /\ text_of_list stmts' = t_good_out
    /\ flat_map plain_comment_leaves stmts <> [] /\ flat_map plain_comment_leaves stmts' = []
    /\ strip_comments_all stmts' = Ok stmts'.
Proof.
  eexists. eexists. split; [vm_compute; reflexivity|]. split; [vm_compute; reflexivity|].
  repeat split; try (vm_compute; reflexivity). vm_compute. discriminate.
Qed.
