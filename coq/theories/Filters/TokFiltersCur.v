(* The token filters composed with the current lexer (definitions only; used by the driver). *)
From Coq Require Import ZArith.
From SqlModel Require Import Base PyStr TokFilters.
From SqlModel.Inst Require Import Cur.

(* lexer.tokenize(text) piped through the preprocess filters selected by the options *)
Definition cur_preprocess (kw idc : option conv) (tr : option (Z * text)) (t : text) : res (list tok) :=
  toks <- cur_lex t ;; preprocess kw idc tr toks.

Definition cur_conv (c : conv) (t : text) : text := conv_fn c t.
