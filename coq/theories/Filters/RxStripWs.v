(* Model of sqlparse.filters.others.StripWhitespaceFilter (the filter `reindent=True` switches on
   before ReindentFilter).  Definitions only.  (Rx = written for the reindent slice; meant to be
   swappable with the project-wide model of the same filter.) *)
From SqlModel Require Import Base PyStr Node Passes.

(* token.value = v   (only ever applied to whitespace leaves) *)
Definition set_value (n : node) (v : text) : node :=
  match n with Leaf ty _ => Leaf ty v | Grp c _ k => Grp c v k end.

(* _stripws_default *)
Fixpoint sw_default (l : list node) (last_ws first : bool) : list node :=
  match l with
  | [] => []
  | t :: l' =>
      (if is_ws t then set_value t (if last_ws || first then [] else [32%N]) else t)
        :: sw_default l' (is_ws t) false
  end.

Definition is_comma_punct (n : node) : bool :=
  match n with Leaf ty v => ttype_eqb ty T_Punctuation && text_eqb v s_comma | Grp _ _ _ => false end.

(* _stripws_identifierlist, first part: over a snapshot, remove the whitespace token that
   immediately precedes a ',' punctuation *)
Fixpoint sw_idl (l : list node) : list node :=
  match l with
  | a :: l' =>
      match l' with
      | b :: _ => if is_ws a && is_comma_punct b then sw_idl l' else a :: sw_idl l'
      | [] => l
      end
  | [] => []
  end.

(* while tokens[1].is_whitespace: tokens.pop(1)      ([a] is tokens[0], [l] is tokens[1:]) *)
Fixpoint sw_pop1 (a : node) (l : list node) : res (list node) :=
  match l with
  | [] => Err IndexError
  | b :: rest => if is_ws b then sw_pop1 a rest else Ok (a :: l)
  end.

(* while tokens[-1].is_whitespace: tokens.pop(-1)   on the reversed list *)
Fixpoint sw_rstrip_rev (rl : list node) : res (list node) :=
  match rl with
  | [] => Err IndexError
  | x :: r => if is_ws x then sw_rstrip_rev r else Ok rl
  end.

(* first: if len(tlist.tokens) < 2: return self._stripws_default(tlist)   (fix of finding C07-RX-1) *)
Definition sw_parenthesis (l : list node) : res (list node) :=
  match l with
  | [] | [_] => Ok (sw_default l false true)
  | a :: l1 =>
      l2 <- sw_pop1 a l1 ;;
      match rev l2 with
      | [] => Err IndexError
      | z :: r =>
          r2 <- sw_pop1 z r ;;              (* r2 = z :: y :: ...   (reversed) *)
          match r2 with
          | z' :: (Grp c v kids) :: r3 =>
              kr <- sw_rstrip_rev (rev kids) ;;
              Ok (sw_default (rev (z' :: Grp c v (rev kr) :: r3)) false true)
          | _ => Ok (sw_default (rev r2) false true)
          end
      end
  end.

Definition sw_dispatch (c : cls) (l : list node) : res (list node) :=
  match c with
  | CIdentifierList => Ok (sw_default (sw_idl l) false true)
  | CParenthesis => sw_parenthesis l
  | _ => Ok (sw_default l false true)
  end.

(* process(stmt, depth>0): sublists first, then the list itself *)
Fixpoint stripws (n : node) : res node :=
  match n with
  | Leaf _ _ => Ok n
  | Grp c v kids =>
      kids1 <- mapM stripws kids ;;
      kids2 <- sw_dispatch c kids1 ;;
      Ok (Grp c v kids2)
  end.

Definition drop_last_ws (l : list node) : list node :=
  match rev l with
  | x :: r => if is_ws x then rev r else l
  | [] => l
  end.

(* process(stmt)  (depth = 0) *)
Definition stripws_stmt (n : node) : res node :=
  n' <- stripws n ;;
  match n' with
  | Grp c v kids => Ok (Grp c v (drop_last_ws kids))
  | Leaf _ _ => Ok n'
  end.
