(* Theorems about option validation and the filter stack (C07, option part).
   Definitions: Filters/OptDefs.v (hand-written semantics of Python option values),
   Gen/OptTab.v (REGENERATED translation of validate_options / build_filter_stack / format).
   The proofs below are re-checked against the regenerated file on every run; they walk over the
   generated terms with tactics that only look at the SHAPE of the monadic code (bind / if / let /
   try / raise / int / comparison), not at the option names or their order. *)
From Coq Require Import ZArith Lia String.
From SqlModel Require Import Base PyStr OptDefs.
From SqlModel.Gen Require Import CaseTabs OptTab.
Local Open Scope Z_scope.

(* ---- the code-point constants of OptDefs are the strings they claim to be ------------------ *)
Fixpoint text_of_string (s : string) : text :=
  match s with
  | String.EmptyString => []
  | String.String a r => Ascii.N_of_ascii a :: text_of_string r
  end.
Notation tx := text_of_string.

Example option_names_spelled :
  o_keyword_case = tx "keyword_case" /\ o_identifier_case = tx "identifier_case" /\
  o_output_format = tx "output_format" /\ o_strip_comments = tx "strip_comments" /\
  o_use_space_around_operators = tx "use_space_around_operators" /\
  o_strip_whitespace = tx "strip_whitespace" /\ o_truncate_strings = tx "truncate_strings" /\
  o_truncate_char = tx "truncate_char" /\ o_indent_columns = tx "indent_columns" /\
  o_reindent = tx "reindent" /\ o_reindent_aligned = tx "reindent_aligned" /\
  o_indent_after_first = tx "indent_after_first" /\ o_indent_tabs = tx "indent_tabs" /\
  o_indent_char = tx "indent_char" /\ o_indent_width = tx "indent_width" /\
  o_wrap_after = tx "wrap_after" /\ o_comma_first = tx "comma_first" /\ o_compact = tx "compact" /\
  o_right_margin = tx "right_margin" /\ o_upper = tx "upper" /\ o_lower = tx "lower" /\
  o_capitalize = tx "capitalize" /\ o_sql = tx "sql" /\ o_python = tx "python" /\ o_php = tx "php".
Proof. repeat split; reflexivity. Qed.

(* ---- monad ------------------------------------------------------------------------------------ *)
Lemma obind_ok {A B} (m : ores A) (f : A -> ores B) b :
  obind m f = OOk b -> exists a, m = OOk a /\ f a = OOk b.
Proof. destruct m as [a|e]; simpl; [eauto | discriminate]. Qed.

(* ---- dictionaries ----------------------------------------------------------------------------- *)
Lemma text_eqb_refl k : text_eqb k k = true.
Proof. apply text_eqb_eq; reflexivity. Qed.

Lemma ofind_oset o k v k' :
  ofind (oset o k v) k' = if text_eqb k k' then Some v else ofind o k'.
Proof.
  induction o as [|[k1 v1] r IH]; cbn [oset ofind].
  - destruct (text_eqb k k'); reflexivity.
  - destruct (text_eqb k1 k) eqn:E1; cbn [ofind].
    + apply text_eqb_eq in E1; subst k1. destruct (text_eqb k k'); reflexivity.
    + rewrite IH. destruct (text_eqb k1 k') eqn:E2; [|reflexivity].
      apply text_eqb_eq in E2; subst k'.
      destruct (text_eqb k k1) eqn:E3; [|reflexivity].
      apply text_eqb_eq in E3; subst k1. rewrite text_eqb_refl in E1; discriminate.
Qed.

Lemma oget_oset o k v k' d :
  oget (oset o k v) k' d = if text_eqb k k' then v else oget o k' d.
Proof. unfold oget. rewrite ofind_oset. destruct (text_eqb k k'); reflexivity. Qed.

Lemma oidx_oset o k v k' :
  oidx (oset o k v) k' = if text_eqb k k' then OOk v else oidx o k'.
Proof. unfold oidx. rewrite ofind_oset. destruct (text_eqb k k'); reflexivity. Qed.

(* ---- the digit limit ---------------------------------------------------------------------------- *)
Lemma huge_spec cfg z :
  huge cfg z = true <-> 0 < ic_maxdig cfg /\ 10 ^ ic_maxdig cfg <= Z.abs z.
Proof.
  unfold huge. generalize (ic_maxdig cfg) as lim. generalize (Z.abs_nonneg z). generalize (Z.abs z) as a.
  intros a Ha lim. cbv zeta.
  destruct (Z.ltb 0 lim) eqn:E0.
  2:{ apply Z.ltb_ge in E0. split; [discriminate | lia]. }
  apply Z.ltb_lt in E0.
  assert (P8 : 2 ^ (3 * lim) <= 10 ^ lim).
  { rewrite Z.pow_mul_r by lia. apply Z.pow_le_mono_l. cbn; lia. }
  assert (P16 : 10 ^ lim <= 2 ^ (4 * lim)).
  { rewrite Z.pow_mul_r by lia. apply Z.pow_le_mono_l. cbn; lia. }
  assert (P0 : 0 < 2 ^ (3 * lim)) by (apply Z.pow_pos_nonneg; lia).
  destruct (Z.ltb (Z.log2 a) (3 * lim)) eqn:E1.
  - apply Z.ltb_lt in E1. split; [discriminate|]. intros [_ H]. exfalso.
    assert (Hl : Z.log2 (2 ^ (3 * lim)) <= Z.log2 a) by (apply Z.log2_le_mono; lia).
    rewrite Z.log2_pow2 in Hl by lia. lia.
  - apply Z.ltb_ge in E1.
    destruct (Z.leb (4 * lim) (Z.log2 a)) eqn:E2.
    + apply Z.leb_le in E2. split; [intros _; split; [lia|] | reflexivity].
      assert (Hp : 0 < a).
      { destruct (Z.eq_dec a 0) as [E|E]; [|lia]. rewrite E in E2. change (Z.log2 0) with 0 in E2. lia. }
      pose proof (Z.log2_spec a Hp) as [L _].
      assert (2 ^ (4 * lim) <= 2 ^ Z.log2 a) by (apply Z.pow_le_mono_r; lia). lia.
    + rewrite Z.leb_le. split; [intros H; split; [lia | exact H] | intros [_ H]; exact H].
Qed.

Lemma not_huge_lt cfg z : Z.abs z < 10 ^ ic_maxdig cfg -> huge cfg z = false.
Proof.
  intros H. destruct (huge cfg z) eqn:E; [|reflexivity].
  apply huge_spec in E. lia.
Qed.

Lemma small_not_huge cfg z : Z.abs z < 10 -> huge cfg z = false.
Proof.
  intros H. destruct (huge cfg z) eqn:E; [|reflexivity].
  apply huge_spec in E. destruct E as [E0 E1].
  assert (10 ^ 1 <= 10 ^ ic_maxdig cfg) by (apply Z.pow_le_mono_r; lia).
  change (10 ^ 1) with 10 in *. lia.
Qed.

(* ---- int(str) never produces an int that repr() refuses ---------------------------------------- *)
Lemma digit_of_range cfg c d : digit_of cfg c = Some d -> 0 <= d <= 9.
Proof.
  unfold digit_of. destruct (ufind c (ic_digit cfg)) as [[|x l]|]; try discriminate.
  destruct (N.leb x 9) eqn:E; [|discriminate]. intros H; injection H as <-.
  apply N.leb_le in E. lia.
Qed.

Lemma scan_digits_bound cfg s : forall acc n prev z m rest,
  0 <= n -> 0 <= acc < 10 ^ n ->
  scan_digits cfg s acc n prev = Some (z, m, rest) -> 0 <= z < 10 ^ m /\ n <= m.
Proof.
  induction s as [|c r IH]; intros acc n prev z m rest Hn Hacc; cbn [scan_digits].
  - destruct prev; try discriminate. intros H; injection H as <- <- <-. split; [exact Hacc | lia].
  - destruct (digit_of cfg c) as [d|] eqn:Ed.
    + intros H. apply digit_of_range in Ed.
      apply IH in H; [destruct H as [H1 H2]; split; [exact H1 | lia] | lia |].
      rewrite Z.pow_add_r by lia. change (10 ^ 1) with 10.
      generalize dependent (10 ^ n). intros p Hp. lia.
    + destruct (N.eqb c 95).
      * destruct prev; try discriminate. intros H. apply IH in H; [exact H | lia | exact Hacc].
      * destruct prev; try discriminate. intros H; injection H as <- <- <-. split; [exact Hacc | lia].
Qed.

Lemma int_of_str_not_huge cfg s z : int_of_str cfg s = Some z -> huge cfg z = false.
Proof.
  unfold int_of_str.
  destruct (match lstrip (ic_space cfg) s with
            | 43%N :: r => (false, r) | 45%N :: r => (true, r) | _ => (false, lstrip (ic_space cfg) s)
            end) as [neg s2].
  destruct (scan_digits cfg s2 0 0 SStart) as [[[v n] rest]|] eqn:Es; [|discriminate].
  apply scan_digits_bound in Es; [|lia|change (10 ^ 0) with 1; lia].
  destruct Es as [Hv Hn].
  destruct (all_space (ic_space cfg) rest && (Z.leb (ic_maxdig cfg) 0 || Z.leb n (ic_maxdig cfg))) eqn:Ec;
    [|discriminate].
  intros H; injection H as <-.
  apply andb_true_iff in Ec. destruct Ec as [_ Ec]. apply orb_true_iff in Ec.
  destruct (huge cfg (if neg then - v else v)) eqn:Eh; [|reflexivity].
  apply huge_spec in Eh. destruct Eh as [E0 E1]. exfalso.
  destruct Ec as [Ec|Ec]; [apply Z.leb_le in Ec; lia|]. apply Z.leb_le in Ec.
  assert (10 ^ n <= 10 ^ ic_maxdig cfg) by (apply Z.pow_le_mono_r; lia).
  destruct neg; lia.
Qed.

(* ---- tame values --------------------------------------------------------------------------------- *)
Lemma tame_ofind cfg o k v : tame_opts cfg o = true -> ofind o k = Some v -> tame_val cfg v = true.
Proof.
  induction o as [|[k1 v1] r IH]; cbn [ofind tame_opts forallb snd]; [discriminate|].
  intros H. apply andb_true_iff in H. destruct H as [H1 H2].
  destruct (text_eqb k1 k); [intros E; injection E as <-; exact H1 | apply IH; exact H2].
Qed.

Lemma tame_oget cfg o k d :
  tame_opts cfg o = true -> tame_val cfg d = true -> tame_val cfg (oget o k d) = true.
Proof.
  intros Ho Hd. unfold oget. destruct (ofind o k) eqn:E; [eapply tame_ofind; eauto | exact Hd].
Qed.

Lemma tame_oset cfg o k v :
  tame_opts cfg o = true -> tame_val cfg v = true -> tame_opts cfg (oset o k v) = true.
Proof.
  intros Ho Hv. induction o as [|[k1 v1] r IH]; cbn [oset tame_opts forallb snd] in *.
  - rewrite Hv; reflexivity.
  - apply andb_true_iff in Ho. destruct Ho as [H1 H2].
    destruct (text_eqb k1 k); cbn [forallb snd].
    + rewrite Hv; exact H2.
    + rewrite H1. apply IH; exact H2.
Qed.

Lemma tame_repr cfg v : tame_val cfg v = true -> repr_raises cfg v = false.
Proof.
  destruct v; cbn [tame_val repr_raises]; try reflexivity. intros H. apply negb_true_iff in H; exact H.
Qed.

Lemma tame_reprs cfg args :
  Forall (fun v => tame_val cfg v = true) args -> existsb (repr_raises cfg) args = false.
Proof.
  induction 1 as [|v l Hv _ IH]; cbn [existsb]; [reflexivity|]. rewrite (tame_repr _ _ Hv). exact IH.
Qed.

Lemma py_int_tame cfg v : tame_val cfg v = true ->
  match py_int cfg v with
  | OOk r => exists z, r = PInt z /\ tame_val cfg r = true
  | OErr e => e = Exn ValueError \/ e = Exn TypeError
  end.
Proof.
  destruct v as [|b|z|z|fl|neg| |s|t]; cbn [py_int tame_val]; intros H; try (right; reflexivity);
    try (left; reflexivity); try discriminate.
  - exists (if b then 1 else 0). split; [reflexivity|]. cbn [tame_val].
    rewrite small_not_huge; [reflexivity | destruct b; cbn; lia].
  - eauto.
  - eauto.
  - apply andb_true_iff in H. destruct H as [H1 H2].
    eexists; split; [reflexivity|]. cbn [tame_val]. destruct (Z.ltb fl 0); assumption.
  - destruct (int_of_str cfg s) as [z|] eqn:E; [|left; reflexivity].
    exists z. split; [reflexivity|]. cbn [tame_val]. rewrite (int_of_str_not_huge _ _ _ E). reflexivity.
Qed.

Lemma py_int_any cfg v :
  match py_int cfg v with
  | OOk r => exists z, r = PInt z
  | OErr e => e = Exn ValueError \/ e = Exn TypeError \/ e = OverflowError
  end.
Proof.
  destruct v as [|b|z|z|fl|neg| |s|t]; cbn [py_int]; eauto.
  destruct (int_of_str cfg s); eauto.
Qed.

(* ---- a weakest-precondition calculus for the generated monadic code -------------------------- *)
(* okE E P m : m returns a value satisfying P, or raises an exception of the set E *)
Definition okE {A} (E : pyexn -> Prop) (P : A -> Prop) (m : ores A) : Prop :=
  match m with OOk a => P a | OErr e => E e end.

Lemma okE_bind {A B} (E : pyexn -> Prop) (P : B -> Prop) (m : ores A) (f : A -> ores B) :
  okE E (fun a => okE E P (f a)) m -> okE E P (obind m f).
Proof. destruct m; exact (fun H => H). Qed.

Lemma okE_cut {A B} (E : pyexn -> Prop) (Q : A -> Prop) (P : B -> Prop) (m : ores A) (f : A -> ores B) :
  okE E Q m -> (forall a, Q a -> okE E P (f a)) -> okE E P (obind m f).
Proof. destruct m; cbn; auto. Qed.

Lemma okE_ret {A} (E : pyexn -> Prop) (P : A -> Prop) a : P a -> okE E P (OOk a).
Proof. exact (fun H => H). Qed.

Lemma okE_try {A} (E : pyexn -> Prop) (P : A -> Prop) (m : ores A) hs h :
  okE (fun e => E e \/ existsb (isa e) hs = true) P m -> okE E P h -> okE E P (otry m hs h).
Proof.
  destruct m as [a|e]; cbn [okE otry]; [auto|]. intros [H|H] Hh; [|rewrite H; exact Hh].
  destruct (existsb (isa e) hs); [exact Hh | exact H].
Qed.

Lemma okE_let_any {A B} (E : pyexn -> Prop) (P : B -> Prop) (e : A) (b : A -> ores B) :
  (forall x, okE E P (b x)) -> okE E P (let x := e in b x).
Proof. intros H; exact (H e). Qed.

Lemma okE_raise_tame {A} cfg (E : pyexn -> Prop) (P : A -> Prop) e args :
  Forall (fun v => tame_val cfg v = true) args -> E e -> okE E P (raise_py cfg e args).
Proof. intros Ht He. unfold raise_py. rewrite (tame_reprs _ _ Ht). exact He. Qed.

Lemma okE_raise_any {A} cfg (E : pyexn -> Prop) (P : A -> Prop) e args :
  E (Exn ValueError) -> E e -> okE E P (raise_py cfg e args).
Proof. intros Hv He. unfold raise_py. destruct (existsb (repr_raises cfg) args); assumption. Qed.

Lemma okE_int_tame cfg (E : pyexn -> Prop) (P : pval -> Prop) v :
  tame_val cfg v = true -> E (Exn ValueError) -> E (Exn TypeError) ->
  (forall z, tame_val cfg (PInt z) = true -> P (PInt z)) -> okE E P (py_int cfg v).
Proof.
  intros Hv E1 E2 HP. pose proof (py_int_tame cfg v Hv) as H.
  destruct (py_int cfg v) as [r|e]; cbn [okE].
  - destruct H as (z & -> & Hz). exact (HP z Hz).
  - destruct H as [-> | ->]; assumption.
Qed.

Lemma okE_int_any cfg (E : pyexn -> Prop) (P : pval -> Prop) v :
  E (Exn ValueError) -> E (Exn TypeError) -> E OverflowError ->
  (forall z, P (PInt z)) -> okE E P (py_int cfg v).
Proof.
  intros E1 E2 E3 HP. pose proof (py_int_any cfg v) as H.
  destruct (py_int cfg v) as [r|e]; cbn [okE].
  - destruct H as (z & ->). exact (HP z).
  - destruct H as [-> | [-> | ->]]; assumption.
Qed.

(* what "tame" means at each type that flows through the generated code *)
Class Tame (A : Type) := tameP : A -> Prop.
#[global] Instance Tame_pval : Tame pval := fun v => tame_val icfg v = true.
#[global] Instance Tame_opts : Tame opts := fun o => tame_opts icfg o = true.
#[global] Instance Tame_unit : Tame unit := fun _ => True.
#[global] Instance Tame_bool : Tame bool := fun _ => True.
#[global] Instance Tame_fstack : Tame fstack := fun _ => True.
#[global] Instance Tame_ofilter : Tame (option filter_id) := fun _ => True.
#[global] Instance Tame_prod A B (TA : Tame A) (TB : Tame B) : Tame (A * B) :=
  fun p => tameP (fst p) /\ tameP (snd p).

Lemma okE_let_tame {A B} {T : Tame A} (E : pyexn -> Prop) (P : B -> Prop) (e : A) (b : A -> ores B) :
  tameP e -> (forall x, tameP x -> okE E P (b x)) -> okE E P (let x := e in b x).
Proof. intros He H; exact (H e He). Qed.

Ltac solve_E := cbv beta; first [ reflexivity | left; solve_E | right; solve_E ].

Ltac unfold_tame :=
  unfold tameP, Tame_prod, Tame_pval, Tame_opts, Tame_unit, Tame_bool, Tame_fstack, Tame_ofilter in *;
  cbn [fst snd] in *.

Ltac solve_tame :=
  unfold_tame;
  repeat match goal with
         | H : _ /\ _ |- _ => destruct H
         end;
  repeat match goal with
         | |- _ /\ _ => split
         | |- True => exact I
         | |- Forall _ [] => constructor
         | |- Forall _ (_ :: _) => constructor
         | |- tame_val _ (oget _ _ _) = true => apply tame_oget
         | |- tame_opts _ (oset _ _ _) = true => apply tame_oset
         | |- _ => assumption
         | |- tame_val _ _ = true => reflexivity
         end.

(* destruct pairs bound by a pattern *)
Ltac split_pairs :=
  repeat match goal with
         | p : (_ * _)%type |- _ => destruct p
         end; cbn [fst snd] in *.

(* `mode` is tame or any *)
Ltac ok_let mode :=
  lazymatch goal with
  | |- okE ?E ?P (let x := ?e in @?b x) =>
      lazymatch mode with
      | true => apply (okE_let_tame E P e b); [solve_tame | intros ? ?]
      | false => apply (okE_let_any E P e b); intros ?
      end
  end.

Ltac ok_cut mode :=
  lazymatch mode with
  | true => eapply (okE_cut _ tameP)
  | false => eapply (okE_cut _ (fun _ => True))
  end.

Ltac ok_go mode :=
  cbv beta;
  lazymatch goal with
  | |- okE _ _ (obind (if _ then _ else _) _) =>
      first [ solve [ ok_cut mode; [ ok_go mode | intros ? ?; split_pairs; ok_go mode ] ]
            | apply okE_bind; ok_go mode ]
  | |- okE _ _ (obind _ _) => apply okE_bind; ok_go mode
  | |- okE _ _ (if ?c then _ else _) => destruct c; ok_go mode
  | |- okE _ _ (let x := _ in _) => ok_let mode; ok_go mode
  | |- okE _ _ (match ?p with pair _ _ => _ end) => destruct p; ok_go mode
  | |- okE _ _ (OOk _) => apply okE_ret; ok_go mode
  | |- okE _ _ (otry _ _ _) => apply okE_try; ok_go mode
  | |- okE _ _ (raise_sql _ _) => unfold raise_sql; ok_go mode
  | |- okE _ _ (raise_py _ _ _) =>
      lazymatch mode with
      | true => apply okE_raise_tame; [solve_tame | solve_E]
      | false => apply okE_raise_any; solve_E
      end
  | |- okE _ _ (py_int _ _) =>
      lazymatch mode with
      | true => apply okE_int_tame; [solve_tame | solve_E | solve_E | intros ? ?; ok_go mode]
      | false => apply okE_int_any; [solve_E | solve_E | solve_E | intros ?; ok_go mode]
      end
  | |- okE _ _ (py_le (PInt _) _) => cbn [py_le num_of]; ok_go mode
  | |- okE _ _ (py_lt (PInt _) _) => cbn [py_lt num_of]; ok_go mode
  | |- okE _ _ (py_ge (PInt _) _) => cbn [py_ge py_lt num_of obind]; ok_go mode
  | |- okE _ _ (py_gt (PInt _) _) => cbn [py_gt py_le num_of obind]; ok_go mode
  | |- okE _ _ _ => fail "ok_go: unexpected term"
  | |- True => exact I
  | |- _ => solve_tame
  end.

(* ---- C07, option part -------------------------------------------------------------------------- *)
Definition only_sql : pyexn -> Prop := fun e => e = Exn SQLParseError.
Definition sql_overflow_value : pyexn -> Prop :=
  fun e => e = Exn SQLParseError \/ e = OverflowError \/ e = Exn ValueError.

Lemma validate_options_tame o :
  tame_opts icfg o = true -> okE only_sql (fun _ => True) (validate_options o).
Proof.
  intros Ho. change (tameP o) in Ho. unfold validate_options, only_sql. ok_go true.
Qed.

Theorem C07_options_partial : forall o, tame_opts icfg o = true ->
  (exists o', validate_options o = OOk o') \/ validate_options o = SQLErr.
Proof.
  intros o Ho. pose proof (validate_options_tame o Ho) as H. unfold okE, only_sql in H.
  destruct (validate_options o) as [o'|e]; [left; eauto | right; rewrite H; reflexivity].
Qed.
Print Assumptions C07_options_partial.

(* for ALL dictionaries (any keys, any values): the only classes that can escape *)
Theorem C07_options_exn : forall o,
  (exists o', validate_options o = OOk o') \/ validate_options o = SQLErr \/
  validate_options o = OErr OverflowError \/ validate_options o = OErr (Exn ValueError).
Proof.
  intros o.
  assert (H : okE sql_overflow_value (fun _ => True) (validate_options o)).
  { unfold validate_options, sql_overflow_value. ok_go false. }
  unfold okE, sql_overflow_value in H.
  destruct (validate_options o) as [o'|e]; [left; eauto | right].
  destruct H as [-> | [-> | ->]]; auto.
Qed.
Print Assumptions C07_options_exn.

(* C07_options at full strength (forall o, Ok or SQLParseError) is FALSE of the model and of the code *)
(* (an infinite float used to escape as OverflowError -- finding C07-OPT-1, repaired in the library by the commit
   "fix: reject infinite option values with SQLParseError": it is rejected with SQLParseError now) *)
Theorem C07_options_inf_rejected : validate_options [(o_indent_width, PFloatInf false)] = SQLErr.
Proof. vm_compute. reflexivity. Qed.

Theorem C07_options_refuted_repr : exists o, validate_options o = OErr (Exn ValueError).
Proof. exists [(o_keyword_case, PInt (10 ^ 4300))]. vm_compute. reflexivity. Qed.

Example C07_options_partial_nontrivial :
  tame_opts icfg [(o_indent_width, PStr [32; 52; 32]%N); (o_reindent, PInt 1)] = true /\
  (exists o', validate_options [(o_indent_width, PStr [32; 52; 32]%N); (o_reindent, PInt 1)] = OOk o') /\
  tame_opts icfg [(o_indent_width, PStr [120]%N)] = true /\
  validate_options [(o_indent_width, PStr [120]%N)] = SQLErr.
Proof. repeat split; try (eexists; vm_compute; reflexivity); vm_compute; reflexivity. Qed.

(* ---- validated dictionaries are well typed ---------------------------------------------------- *)
Lemma raise_not_ok {A} cfg e args (a : A) : raise_py cfg e args = OOk a -> False.
Proof. unfold raise_py. destruct (existsb (repr_raises cfg) args); discriminate. Qed.

Lemma otry_ok_inv {A} (m : ores A) hs h a : otry m hs h = OOk a -> m = OOk a \/ h = OOk a.
Proof. destruct m as [x|e]; cbn [otry]; [auto|]. destruct (existsb (isa e) hs); [auto | discriminate]. Qed.

Lemma py_int_ok_inv cfg v r : py_int cfg v = OOk r -> exists z, r = PInt z.
Proof. intros H. pose proof (py_int_any cfg v) as H1. rewrite H in H1. exact H1. Qed.

Lemma let_inv {A B} (e : A) (b : A -> B) (r : B) : (let x := e in b x) = r -> exists x, x = e /\ b x = r.
Proof. intros H. exists e. split; [reflexivity | exact H]. Qed.

Lemma if_raise_inv {A} cfg e args (c : bool) (B : ores A) a :
  (if c then raise_py cfg e args else B) = OOk a -> c = false /\ B = OOk a.
Proof. destruct c; [intros H; destruct (raise_not_ok _ _ _ _ H) | auto]. Qed.

Lemma if_raise_inv_r {A} cfg e args (c : bool) (B : ores A) a :
  (if c then B else raise_py cfg e args) = OOk a -> c = true /\ B = OOk a.
Proof. destruct c; [auto | intros H; destruct (raise_not_ok _ _ _ _ H)]. Qed.

Lemma if_merge {A} (c : bool) (x y a : A) : (if c then OOk x else OOk y) = OOk a -> a = if c then x else y.
Proof. destruct c; intros H; injection H as <-; reflexivity. Qed.

(* symbolic dictionaries: explicit updates and conditionals over a base *)
Inductive sdict := SBase (o : opts) | SSet (d : sdict) (k : text) (v : pval) | SIf (c : bool) (a b : sdict).
Fixpoint sden (d : sdict) : opts :=
  match d with SBase o => o | SSet d k v => oset (sden d) k v | SIf c a b => if c then sden a else sden b end.
Fixpoint sfind (d : sdict) (K : text) : option pval :=
  match d with
  | SBase o => ofind o K
  | SSet d k v => if text_eqb k K then Some v else sfind d K
  | SIf c a b => if c then sfind a K else sfind b K
  end.
Fixpoint sget (d : sdict) (K : text) (dft : pval) : pval :=
  match d with
  | SBase o => oget o K dft
  | SSet d k v => if text_eqb k K then v else sget d K dft
  | SIf c a b => if c then sget a K dft else sget b K dft
  end.
Fixpoint spresent (d : sdict) (K : text) (p : pval -> bool) : bool :=
  match d with
  | SBase o => present o K p
  | SSet d k v => if text_eqb k K then p v else spresent d K p
  | SIf c a b => if c then spresent a K p else spresent b K p
  end.
Lemma sfind_ok d K : ofind (sden d) K = sfind d K.
Proof.
  induction d as [o|d IH k v|c a IHa b IHb]; cbn [sden sfind]; [reflexivity| |destruct c; assumption].
  rewrite ofind_oset, IH. reflexivity.
Qed.
Lemma sget_ok d K dft : oget (sden d) K dft = sget d K dft.
Proof.
  induction d as [o|d IH k v|c a IHa b IHb]; cbn [sden sget]; [reflexivity| |destruct c; assumption].
  rewrite oget_oset, IH. reflexivity.
Qed.
Lemma spresent_ok d K p : present (sden d) K p = spresent d K p.
Proof.
  induction d as [o|d IH k v|c a IHa b IHb]; cbn [sden spresent]; [reflexivity| |destruct c; assumption].
  unfold present in *. rewrite ofind_oset. destruct (text_eqb k K); [reflexivity | exact IH].
Qed.
Lemma if_same {A} (c : bool) (x : A) : (if c then x else x) = x.
Proof. destruct c; reflexivity. Qed.

Ltac reify D :=
  lazymatch D with
  | oset ?d ?k ?v => let r := reify d in constr:(SSet r k v)
  | if ?c then ?a else ?b => let ra := reify a in let rb := reify b in constr:(SIf c ra rb)
  | _ => constr:(SBase D)
  end.
Ltac compound D := lazymatch D with oset _ _ _ => idtac | if _ then _ else _ => idtac end.

Ltac eval_eqbs_in H :=
  repeat match type of H with
         | context [text_eqb ?a ?b] =>
             let r := eval vm_compute in (text_eqb a b) in
             lazymatch r with true => idtac | false => idtac end;
             change (text_eqb a b) with r in H
         end;
  cbv iota in H.
Ltac eval_eqbs :=
  repeat match goal with
         | |- context [text_eqb ?a ?b] =>
             let r := eval vm_compute in (text_eqb a b) in
             lazymatch r with true => idtac | false => idtac end;
             change (text_eqb a b) with r
         end;
  cbv iota.

Ltac norm_in H :=
  repeat match type of H with
         | context [oget ?D ?K ?d] => compound D; let r := reify D in
             rewrite (sget_ok r K d : oget D K d = sget r K d) in H; cbv [sget] in H; eval_eqbs_in H
         | context [ofind ?D ?K] => compound D; let r := reify D in
             rewrite (sfind_ok r K : ofind D K = sfind r K) in H; cbv [sfind] in H; eval_eqbs_in H
         | context [present ?D ?K ?p] => compound D; let r := reify D in
             rewrite (spresent_ok r K p : present D K p = spresent r K p) in H; cbv [spresent] in H; eval_eqbs_in H
         end;
  rewrite ?if_same in H.
Ltac norm_goal :=
  repeat match goal with
         | |- context [oget ?D ?K ?d] => compound D; let r := reify D in
             rewrite (sget_ok r K d : oget D K d = sget r K d); cbv [sget]; eval_eqbs
         | |- context [ofind ?D ?K] => compound D; let r := reify D in
             rewrite (sfind_ok r K : ofind D K = sfind r K); cbv [sfind]; eval_eqbs
         | |- context [present ?D ?K ?p] => compound D; let r := reify D in
             rewrite (spresent_ok r K p : present D K p = spresent r K p); cbv [spresent]; eval_eqbs
         end;
  rewrite ?if_same.

Ltac inv H :=
  lazymatch type of H with
  | obind ?m ?f = OOk _ =>
      let a := fresh "a" in let Ha := fresh "Ha" in
      apply obind_ok in H; destruct H as (a & Ha & H); cbv beta in H;
      inv Ha; inv H
  | (let x := ?e in @?b x) = OOk ?r =>
      let x' := fresh "x" in let Hx := fresh "Hx" in let H' := fresh "Hk" in
      destruct (let_inv e b (OOk r) H) as (x' & Hx & H'); clear H; cbv beta in H';
      norm_in Hx; subst x'; inv H'
  | (if ?c then _ else _) = OOk _ =>
      let E := fresh "E" in
      first [ apply if_raise_inv in H; destruct H as [E H]; inv H
            | apply if_raise_inv_r in H; destruct H as [E H]; inv H
            | apply if_merge in H; inv H
            | destruct c eqn:E; inv H ]
  | raise_py _ _ _ = OOk _ => exfalso; exact (raise_not_ok _ _ _ _ H)
  | otry _ _ _ = OOk _ => apply otry_ok_inv in H; destruct H as [H|H]; inv H
  | py_int _ _ = OOk ?r =>
      tryif is_var r then
        (let z := fresh "z" in let Hz := fresh "Hz" in
         destruct (py_int_ok_inv _ _ _ H) as (z & Hz); subst r)
      else idtac
  | py_le (PInt _) _ = OOk _ => cbn [py_le num_of] in H; inv H
  | py_lt (PInt _) _ = OOk _ => cbn [py_lt num_of] in H; inv H
  | py_ge (PInt _) _ = OOk _ => cbn [py_ge py_lt num_of obind] in H; inv H
  | py_gt (PInt _) _ = OOk _ => cbn [py_gt py_le num_of obind] in H; inv H
  | (match ?p with pair _ _ => _ end) = OOk _ => destruct p; inv H
  | OOk ?x = OOk ?y =>
      injection H as H;
      first [ is_var y; subst y | is_var x; subst x | idtac ]
  | ?a = (if _ then _ else _) => tryif is_var a then subst a else idtac
  | _ => idtac
  end.


Ltac is_lit K := lazymatch K with nil => idtac | cons _ _ => idtac end.
(* lookups in the base dictionary: unfold oget/present, make keys literal *)
Ltac lits :=
  unfold oget, present, oidx in *;
  repeat match goal with
         | |- context [ofind ?o ?K] => tryif is_lit K then fail else
             (let K' := eval vm_compute in K in change (ofind o K) with (ofind o K') in *)
         | H : context [ofind ?o ?K] |- _ => tryif is_lit K then fail else
             (let K' := eval vm_compute in K in change (ofind o K) with (ofind o K') in *)
         end.
Ltac zprops :=
  repeat match goal with
         | H : (_ <=? _) = true |- _ => apply Z.leb_le in H
         | H : (_ <=? _) = false |- _ => apply Z.leb_gt in H
         | H : (_ <? _) = true |- _ => apply Z.ltb_lt in H
         | H : (_ <? _) = false |- _ => apply Z.ltb_ge in H
         end.
Ltac ev := cbn [boolish case_ok format_ok py_in existsb py_eq num_of orb andb implb' pval_is is_none is_str int_ge Bool.eqb negb py_truthy] in *.
Ltac has_if c := lazymatch c with context [if _ then _ else _] => idtac end.
Ltac is_bool_lit c := lazymatch c with true => idtac | false => idtac end.
(* case analysis on the innermost conditions first *)
Ltac split_ifs ev :=
  repeat match goal with
         | |- context [if ?c then _ else _] =>
             tryif has_if c then fail else (destruct c eqn:?; ev)
         | |- context [implb' ?c _] =>
             tryif is_bool_lit c then fail else (destruct c eqn:?; ev)
         end.
Ltac none_vars :=
  repeat match goal with
         | H : is_none ?v = true |- _ => is_var v; destruct v; try discriminate H
         end.
Ltac evg := cbn [boolish case_ok format_ok py_in existsb py_eq num_of orb andb implb' pval_is is_none is_str int_ge Bool.eqb negb py_truthy].
Ltac cases ev :=
  lits;
  repeat match goal with |- context [ofind ?o ?K] => destruct (ofind o K) eqn:? end;
  none_vars; ev; split_ifs ev;
  first [ assumption | reflexivity | congruence ].
Ltac close :=
  first
    [ assumption
    | reflexivity
    | solve [ ev; zprops; rewrite ?andb_true_r; rewrite ?Z.leb_le; lia ]
    | solve [ apply andb_true_iff; split; [zprops; apply Z.leb_le; lia | assumption] ]
    | solve [ repeat match goal with H : _ = _ |- _ => clear H end; cases evg ]
    | solve [ cases ev ] ].


Theorem validated_well_typed : forall o o', validate_options o = OOk o' -> Valid o'.
Proof.
  intros o o' H. cbv beta delta [validate_options raise_sql] in H.
  inv H.
  all: repeat match goal with
       | E : negb _ = false |- _ => apply negb_false_iff in E
       | E : negb _ = true |- _ => apply negb_true_iff in E
       end.
  all: constructor; norm_goal.
  all: close.
Qed.
Print Assumptions validated_well_typed.

Example validated_well_typed_nontrivial :
  exists o', validate_options [(o_indent_columns, PFloatInt 1); (o_truncate_strings, PStr [49; 95; 50]%N)] = OOk o'
             /\ oget o' o_reindent PNone = PBool true /\ oget o' o_truncate_strings PNone = PInt 12.
Proof. eexists. split; [vm_compute; reflexivity | split; vm_compute; reflexivity]. Qed.

(* derived options, as the source implements them *)
Corollary derived_options : forall o o', validate_options o = OOk o' ->
  (py_truthy (oget o' o_indent_columns PNone) = true -> oget o' o_reindent PNone = PBool true) /\
  (py_truthy (oget o' o_reindent PNone) = true -> oget o' o_strip_whitespace PNone = PBool true) /\
  (py_truthy (oget o' o_reindent_aligned PNone) = true -> oget o' o_strip_whitespace PNone = PBool true).
Proof.
  intros o o' H. apply validated_well_typed in H.
  pose proof (v_columns_reindent _ H) as H1. pose proof (v_reindent_strip _ H) as H2.
  pose proof (v_aligned_strip _ H) as H3.
  assert (P : forall a, pval_is a (PBool true) = true -> a = PBool true).
  { intros a. destruct a as [|x| | | | | | |]; cbn; try discriminate. destruct x; [reflexivity | discriminate]. }
  repeat split; intros T; [rewrite T in H1 | rewrite T in H2 | rewrite T in H3]; cbn [implb'] in *;
    apply P; assumption.
Qed.

(* ---- format: validation comes first ------------------------------------------------------------- *)
Theorem C07_options_first : forall A (run : fstack -> A -> ores text) o (sql : A) e,
  validate_options o = OErr e -> format_model run o sql = OErr e.
Proof. intros A run o sql e H. unfold format_model, format_stack_of. rewrite H. reflexivity. Qed.
Print Assumptions C07_options_first.

Corollary C07_options_first_sql : forall A (run : fstack -> A -> ores text) o (sql : A),
  validate_options o = SQLErr -> format_model run o sql = SQLErr.
Proof. intros. apply C07_options_first. assumption. Qed.
