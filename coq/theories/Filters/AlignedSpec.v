(* Declarative counterparts of pieces of the aligned-indent model: the selection automaton of
   _next_token, a fuel-free description of _split_kwds, the safety predicate that characterises
   the trees on which AlignedIndentFilter raises no exception.  Definitions only. *)
From SqlModel Require Import Base PyStr Node Inv Passes.
From SqlModel.Filters Require Import RxStripWs RxSerial Reindent ReindentSafe ReindentSpec Aligned.
From Coq Require Import ZArith.

(* ---- which matched keywords _next_token returns ---------------------------------------------- *)
(* The state is the number of BETWEENs still waiting for their AND.  A token matched by the
   split-word test [sm] is selected unless it is a BETWEEN (opens a pair) or the AND closing an
   open BETWEEN; any other matched token also forgets the open BETWEENs.  (ReindentSpec.sel is the
   instance sm = Reindent.split_match.) *)
Section Sel.
Variable sm : node -> bool.

Definition gsel_step (d : nat) (x : node) : bool * nat :=
  if sm x then
    if is_between x then (false, S d)
    else if is_and x && negb (Nat.eqb d 0) then (false, (d - 1)%nat)
    else (true, 0%nat)
  else (false, d).

Fixpoint gsel (d : nat) (l : list node) : list bool :=
  match l with
  | [] => []
  | x :: l' => fst (gsel_step d x) :: gsel (snd (gsel_step d x)) l'
  end.

Fixpoint gst_after (d : nat) (l : list node) : nat :=
  match l with
  | [] => d
  | x :: l' => gst_after (snd (gsel_step d x)) l'
  end.
End Sel.

Definition asel_step := gsel_step asplit_match.
Definition asel := gsel asplit_match.

(* the line break _split_kwds puts in front of a selected keyword *)
Definition anl_for (e : aenv) (tok : node) : node :=
  anl e (- Z.of_nat (length (token_indent tok))).

(* _split_kwds without fuel, indices or mutation *)
Fixpoint asplit_spec (e : aenv) (d : nat) (l : list node) : list node :=
  match l with
  | [] => []
  | x :: l' =>
      if fst (asel_step d x)
      then anl_for e x :: x :: asplit_spec e (snd (asel_step d x)) l'
      else x :: asplit_spec e (snd (asel_step d x)) l'
  end.

(* own line: every selected keyword of [r] directly follows its own line-break token
   ([prev] = the token in front of [r]) *)
Fixpoint own_line_P (e : aenv) (d : nat) (prev : option node) (r : list node) : Prop :=
  match r with
  | [] => True
  | x :: r' =>
      (fst (asel_step d x) = true -> prev = Some (anl_for e x))
      /\ own_line_P e (snd (asel_step d x)) (Some x) r'
  end.

(* ---- the safety predicate --------------------------------------------------------------------- *)
(* a Parenthesis is a sub-query: a direct child DML SELECT *)
Definition has_select (l : list node) : bool :=
  match next_by_from [] [(T_DML, Some [s_SELECT])] TNone 0 l with Some _ => true | None => false end.

(* direct child Keyword END *)
Definition has_end (l : list node) : bool :=
  match next_by_from [] [(T_Keyword, Some [s_END])] TNone 0 l with Some _ => true | None => false end.

(* stmt = cond[0] if cond else value[0] exists *)
Definition case_has_stmt (cv : case_t) : bool :=
  match fst cv with
  | Some (_ :: _) => true
  | _ => negb (is_nil (snd cv))
  end.

(* Case: every case has a first token.  (Until the fix of finding C07-AL-1 also: unless there is no case at all the
   END keyword is a direct child of the Case -- it is not when a later grouping pass has moved it into a sub-group:
   Where, Identifier `x as end`, `x::end`, IdentifierList `a, end` ...; the filter now leaves such an END alone.) *)
Definition acase_safe (l : list node) : bool :=
  forallb case_has_stmt (aget_cases l).

(* exactly the groups the walk visits are inspected: nothing below a Case, nothing below a
   Parenthesis that is no sub-query *)
Fixpoint al_safe (n : node) : bool :=
  match n with
  | Leaf _ _ => true
  | Grp c _ l =>
      match c with
      | CCase => acase_safe l
      | CParenthesis => negb (has_select l) || forallb al_safe l
      | CIdentifierList => existsb is_identifier_item l && forallb al_safe l
      | _ => forallb al_safe l
      end
  end.

(* a Python exception of the two classes this filter can raise *)
Definition pyexn (x : exn) : Prop := x = ValueError \/ x = IndexError.

(* the outcome [m] is described by the boolean [b]: Ok iff b, and otherwise a Python exception
   (never the model's own Stuck) *)
Definition rspec {A} (m : res A) (b : bool) : Prop :=
  match m with
  | Ok _ => b = true
  | Err x => b = false /\ pyexn x
  end.
