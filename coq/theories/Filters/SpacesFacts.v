(* Facts about the model of SpacesAroundOperatorsFilter (Filters/Spaces.v). *)
From SqlModel Require Import Base PyStr Node Inv SplitDefs.
From SqlModel.Filters Require Import Spaces StripWsFacts.

(* ---- searching ------------------------------------------------------------------------------ *)
Lemma find_from_aux_none f l base :
  forallb (fun x => negb (f x)) l = true -> find_from_aux f l base = None.
Proof.
  revert base; induction l as [|x l IH]; intros base H; simpl in *; [reflexivity|].
  apply andb_true_iff in H. destruct H as [Hx Hl]. apply negb_true_iff in Hx. rewrite Hx. apply IH, Hl.
Qed.

Lemma find_from_aux_some f pre x post base :
  forallb (fun y => negb (f y)) pre = true -> f x = true ->
  find_from_aux f (pre ++ x :: post) base = Some (base + length pre, x).
Proof.
  revert base; induction pre as [|y pre IH]; intros base Hp Hx; simpl in *.
  - rewrite Hx, Nat.add_0_r. reflexivity.
  - apply andb_true_iff in Hp. destruct Hp as [Hy Hp]. apply negb_true_iff in Hy. rewrite Hy.
    rewrite IH by assumption. f_equal. f_equal. lia.
Qed.

Lemma skipn_length_app {A} (a b : list A) : skipn (length a) (a ++ b) = b.
Proof. induction a; simpl; auto. Qed.

Lemma firstn_length_app {A} (a b : list A) : firstn (length a) (a ++ b) = a.
Proof. induction a; simpl; f_equal; auto. Qed.

Lemma find_from_app f (done rest : list node) :
  find_from f (length done) (done ++ rest) = find_from_aux f rest (length done).
Proof. unfold find_from. rewrite skipn_length_app. reflexivity. Qed.

Lemma find_last_aux_all l : forall base best,
  find_last_aux (fun _ => true) l base best =
  match rev l with [] => best | p :: _ => Some (base + length l - 1, p) end.
Proof.
  induction l as [|x l IH]; intros base best; simpl; [reflexivity|].
  rewrite IH. destruct (rev l) as [|p r] eqn:E; simpl.
  - assert (l = []) by (rewrite <- (rev_involutive l), E; reflexivity). subst l. simpl.
    f_equal. f_equal. lia.
  - f_equal. f_equal. lia.
Qed.

Lemma insert_at_app (a b : list node) x k : insert_at (length a + k) x (a ++ b) = a ++ insert_at k x b.
Proof.
  unfold insert_at. induction a as [|y a IH]; simpl; [reflexivity|]. f_equal. exact IH.
Qed.

(* ---- predicates on tokens -------------------------------------------------------------------- *)
Lemma imt_sp n : imt (Some n) [] [] sp_ttypes = is_sp_op n.
Proof. reflexivity. Qed.

Lemma is_ws_not_op t : is_ws t = true -> is_sp_op t = false.
Proof.
  destruct t as [ty v|c v k]; simpl; [|reflexivity]. intros H.
  destruct ty as [|a ty']; simpl in *; [discriminate|].
  destruct a; simpl in *; try discriminate; reflexivity.
Qed.

Lemma op_not_W t : is_sp_op t = true -> is_ws t = false.
Proof.
  intros H. destruct (is_ws t) eqn:E; [|reflexivity]. rewrite (is_ws_not_op t E) in H. discriminate.
Qed.

Lemma W_is_ws t : is_ws t = true -> is_ws t = true.
Proof. auto. Qed.

Lemma skip_ff n : skip_matcher false false n = true.
Proof. reflexivity. Qed.
Lemma skip_tf n : skip_matcher true false n = negb (is_ws n).
Proof. unfold skip_matcher. simpl. rewrite orb_false_r. reflexivity. Qed.

(* ---- insert_after ---------------------------------------------------------------------------- *)
(* where insert_after puts the blank: before the first non-whitespace token of what follows the
   operator, or at the end *)
Fixpoint place_sp (l : list node) : list node :=
  match l with
  | [] => [sp_token]
  | t :: r => if is_ws t then t :: place_sp r else sp_token :: l
  end.

Lemma find_nonws_spec post : forall base,
  match find_from_aux (skip_matcher true false) post base with
  | None => place_sp post = post ++ [sp_token]
  | Some (i, _) => exists k, i = base + k /\ insert_at k sp_token post = place_sp post
  end.
Proof.
  induction post as [|t r IH]; intros base; simpl; [reflexivity|].
  rewrite skip_tf. destruct (is_ws t) eqn:E; simpl.
  - specialize (IH (S base)). destruct (find_from_aux _ r (S base)) as [[i y]|].
    + destruct IH as (k & -> & Hk). exists (S k). split; [lia|].
      unfold insert_at in *. simpl. rewrite Hk. reflexivity.
    + rewrite IH. reflexivity.
  - exists 0. split; [lia | reflexivity].
Qed.

Lemma insert_after_spec D op post :
  insert_after (length D) sp_token (D ++ op :: post) = D ++ op :: place_sp post.
Proof.
  unfold insert_after, token_next.
  replace (S (length D)) with (length (D ++ [op])) by (rewrite app_length; simpl; lia).
  replace (D ++ op :: post) with ((D ++ [op]) ++ post) by (rewrite <- app_assoc; reflexivity).
  rewrite find_from_app.
  pose proof (find_nonws_spec post (length (D ++ [op]))) as H.
  destruct (find_from_aux _ post _) as [[i y]|].
  - destruct H as (k & -> & Hk). rewrite insert_at_app, Hk, <- app_assoc. reflexivity.
  - rewrite H, <- !app_assoc. reflexivity.
Qed.

(* ---- one iteration --------------------------------------------------------------------------- *)
Definition pok (done : list node) : bool :=
  match rev done with [] => true | p :: _ => is_ws p end.

Lemma sp_prev_part D op P :
  match token_prev false false (length D) (D ++ op :: P) with
  | Some (_, prev_) =>
      if negb (is_ws prev_)
      then (insert_before (length D) sp_token (D ++ op :: P), S (length D)) else (D ++ op :: P, length D)
  | None => (D ++ op :: P, length D)
  end = if pok D then (D ++ op :: P, length D) else (D ++ sp_token :: op :: P, S (length D)).
Proof.
  unfold token_prev, find_before. rewrite firstn_length_app, find_last_aux_all.
  unfold pok. destruct (rev D) as [|p r]; [reflexivity|].
  destruct (is_ws p); simpl; [reflexivity|].
  unfold insert_before. rewrite <- (Nat.add_0_r (length D)) at 1. rewrite insert_at_app. reflexivity.
Qed.

Lemma sp_step_spec D op post :
  sp_step (length D) (D ++ op :: post) =
  let after := match post with x :: _ => negb (is_ws x) | [] => false end in
  let post1 := if after then place_sp post else post in
  if pok D then (D ++ op :: post1, length D) else (D ++ sp_token :: op :: post1, S (length D)).
Proof.
  unfold sp_step.
  assert (Hn : token_next false false (length D) (D ++ op :: post) =
               match post with [] => None | x :: _ => Some (S (length D), x) end).
  { unfold token_next.
    replace (S (length D)) with (length (D ++ [op])) by (rewrite app_length; simpl; lia).
    replace (D ++ op :: post) with ((D ++ [op]) ++ post) by (rewrite <- app_assoc; reflexivity).
    rewrite find_from_app. destruct post; reflexivity. }
  rewrite Hn. clear Hn.
  destruct post as [|x post']; cbv zeta.
  - apply sp_prev_part.
  - destruct (negb (is_ws x)).
    + rewrite insert_after_spec. apply sp_prev_part.
    + apply sp_prev_part.
Qed.

(* ---- the single pass -------------------------------------------------------------------------- *)
Definition count_ops (l : list node) : nat := length (filter is_sp_op l).

Lemma split_first_op rest :
  forallb (fun y => negb (is_sp_op y)) rest = true \/
  exists skipped op post, rest = skipped ++ op :: post
    /\ forallb (fun y => negb (is_sp_op y)) skipped = true /\ is_sp_op op = true.
Proof.
  induction rest as [|t r IH]; [left; reflexivity|].
  destruct (is_sp_op t) eqn:E.
  - right. exists [], t, r. auto.
  - destruct IH as [IH|(sk & op & post & -> & Hs & Hop)].
    + left. simpl. rewrite E, IH. reflexivity.
    + right. exists (t :: sk), op, post. simpl. rewrite E, Hs. auto.
Qed.

(* over a stretch without operators and with nothing pending, the pass is the identity *)
Definition pok_after (p : bool) (l : list node) : bool :=
  match rev l with [] => p | x :: _ => is_ws x end.

Lemma pok_after_cons p t l : pok_after p (t :: l) = pok_after (is_ws t) l.
Proof.
  unfold pok_after. simpl. destruct (rev l) as [|x r] eqn:E; simpl; reflexivity.
Qed.

Lemma sp_pass_skip skipped : forall p r,
  forallb (fun y => negb (is_sp_op y)) skipped = true ->
  sp_pass p false (skipped ++ r) = skipped ++ sp_pass (pok_after p skipped) false r.
Proof.
  induction skipped as [|t l IH]; intros p r H; [reflexivity|].
  simpl in H. apply andb_true_iff in H. destruct H as [Ht Hl]. apply negb_true_iff in Ht.
  cbn [app sp_pass]. rewrite Ht. cbn [andb app]. rewrite IH by exact Hl.
  rewrite pok_after_cons. reflexivity.
Qed.

Lemma pok_app done skipped : pok (done ++ skipped) = pok_after (pok done) skipped.
Proof.
  unfold pok, pok_after. rewrite rev_app_distr. destruct (rev skipped); reflexivity.
Qed.

Lemma pok_snoc D x : pok (D ++ [x]) = is_ws x.
Proof. unfold pok. rewrite rev_app_distr. reflexivity. Qed.

Lemma sp_pass_nop_nil p : sp_pass p false [] = [].
Proof. reflexivity. Qed.

(* placing the blank eagerly (as insert_after does) or carrying it as pending is the same *)
Lemma sp_pass_place post : forall p, sp_pass p true post = sp_pass p false (place_sp post).
Proof.
  induction post as [|t r IH]; intros p; [reflexivity|].
  cbn [place_sp]. destruct (is_ws t) eqn:E.
  - cbn [sp_pass]. rewrite E. cbn [negb andb app]. rewrite (is_ws_not_op t E). rewrite IH. reflexivity.
  - cbn [sp_pass]. rewrite E. cbn [negb andb app]. cbn [is_ws sp_token tt_in tin tcomp_eqb andb negb].
    reflexivity.
Qed.

Lemma count_ops_app a b : count_ops (a ++ b) = count_ops a + count_ops b.
Proof. unfold count_ops. rewrite filter_app, app_length. reflexivity. Qed.

Lemma count_ops_place post : count_ops (place_sp post) = count_ops post.
Proof.
  induction post as [|t r IH]; [reflexivity|]. cbn [place_sp].
  destruct (is_ws t) eqn:E; [|reflexivity].
  unfold count_ops in *. simpl. rewrite (is_ws_not_op t E). exact IH.
Qed.

Lemma sp_loop_eq : forall fuel done rest,
  count_ops rest < fuel ->
  sp_loop fuel (length done) (done ++ rest) = Ok (done ++ sp_pass (pok done) false rest).
Proof.
  induction fuel as [|f IH]; intros done rest Hc; [lia|].
  cbn [sp_loop]. unfold next_by_from. rewrite find_from_app.
  destruct (split_first_op rest) as [Hno|(sk & op & post & -> & Hsk & Hop)].
  - rewrite find_from_aux_none by exact Hno.
    rewrite <- (app_nil_r rest) at 2. rewrite sp_pass_skip by exact Hno. cbn [sp_pass].
    rewrite app_nil_r. reflexivity.
  - rewrite find_from_aux_some by assumption.
    replace (done ++ sk ++ op :: post) with ((done ++ sk) ++ op :: post) by (rewrite <- app_assoc; reflexivity).
    replace (length done + length sk) with (length (done ++ sk)) by (rewrite app_length; reflexivity).
    set (D := done ++ sk).
    rewrite sp_step_spec. cbv zeta.
    set (after := match post with x :: _ => negb (is_ws x) | [] => false end).
    set (post1 := if after then place_sp post else post).
    assert (Hc1 : count_ops post1 < f).
    { assert (count_ops post1 = count_ops post).
      { unfold post1. destruct after; [apply count_ops_place | reflexivity]. }
      rewrite count_ops_app in Hc. unfold count_ops in Hc at 2. simpl in Hc. rewrite Hop in Hc.
      simpl in Hc. fold (count_ops post) in Hc. lia. }
    assert (Hpass : sp_pass false after post = sp_pass false false post1).
    { unfold post1. destruct after; [apply sp_pass_place | reflexivity]. }
    rewrite sp_pass_skip by exact Hsk. rewrite <- pok_app. fold D.
    cbn [sp_pass]. cbn [andb app]. rewrite Hop. fold after.
    destruct (pok D) eqn:Ep.
    + replace (D ++ op :: post1) with ((D ++ [op]) ++ post1) by (rewrite <- app_assoc; reflexivity).
      replace (S (length D)) with (length (D ++ [op])) by (rewrite app_length; simpl; lia).
      rewrite IH by exact Hc1. rewrite pok_snoc, (op_not_W op Hop), Hpass.
      unfold D. rewrite <- !app_assoc. reflexivity.
    + replace (D ++ sp_token :: op :: post1) with ((D ++ [sp_token; op]) ++ post1)
        by (rewrite <- app_assoc; reflexivity).
      replace (S (S (length D))) with (length (D ++ [sp_token; op])) by (rewrite app_length; simpl; lia).
      rewrite IH by exact Hc1.
      replace (D ++ [sp_token; op]) with ((D ++ [sp_token]) ++ [op]) by (rewrite <- app_assoc; reflexivity).
      rewrite pok_snoc, (op_not_W op Hop), Hpass.
      unfold D. rewrite <- !app_assoc. reflexivity.
Qed.

Lemma count_ops_le l : count_ops l <= length l.
Proof.
  unfold count_ops. induction l as [|x l IH]; simpl; [lia|]. destruct (is_sp_op x); simpl; lia.
Qed.

(* the index-shuffling loop of the filter computes the single left-to-right pass; in particular
   the fuel never runs out *)
Theorem sp_list_eq l : sp_list l = Ok (sp_fun l).
Proof.
  unfold sp_list, sp_fun. pose proof (sp_loop_eq (S (length l)) [] l) as H.
  simpl in H. apply H. pose proof (count_ops_le l). lia.
Qed.

(* ================================================================================================
   totality
   ================================================================================================ *)
Lemma sp_process_total : forall n, exists n', sp_process n = Ok n'.
Proof.
  induction n as [ty v | c v kids IH] using node_ind'.
  - eexists; reflexivity.
  - cbn [sp_process].
    destruct (mapM_total (fun k => if is_group k then sp_process k else Ok k) kids) as (kids1 & E).
    { eapply Forall_impl; [|exact IH]. intros k [k' Hk]. cbv beta.
      destruct (is_group k); eauto. }
    rewrite E. simpl. rewrite sp_list_eq. simpl. eexists; reflexivity.
Qed.

(* the filter never raises (no IndexError site; the while loop terminates) *)
Theorem spaces_total : forall n, is_group n = true -> exists n', spaces n = Ok n'.
Proof. intros [ty v|c v kids] H; [discriminate|]. apply sp_process_total. Qed.
Print Assumptions spaces_total.

(* ================================================================================================
   leaves: only blanks of type Whitespace are inserted
   ================================================================================================ *)
Definition sp_tok : tok := (T_Whitespace, [32]%N).

Inductive sp_ins : list tok -> list tok -> Prop :=
| si_nil : sp_ins [] []
| si_keep x a b : sp_ins a b -> sp_ins (x :: a) (x :: b)
| si_ins a b : sp_ins a b -> sp_ins a (sp_tok :: b).

Lemma sp_ins_refl a : sp_ins a a.
Proof. induction a; constructor; auto. Qed.

Lemma sp_ins_app a a' b b' : sp_ins a a' -> sp_ins b b' -> sp_ins (a ++ b) (a' ++ b').
Proof. induction 1; intros Hb; simpl; try constructor; auto. Qed.

Lemma sp_ins_trans a b c : sp_ins a b -> sp_ins b c -> sp_ins a c.
Proof.
  intros H1 H2. revert a H1. induction H2 as [|x b c Hbc IH|b c Hbc IH]; intros a H1.
  - exact H1.
  - inversion H1 as [|? a' ? Ha|a' ? Ha]; subst.
    + apply si_keep, IH, Ha.
    + apply si_ins, IH, Ha.
  - apply si_ins, IH, H1.
Qed.

Lemma sp_ins_nw a b : sp_ins a b -> nw_leaves b = nw_leaves a.
Proof.
  induction 1 as [|x a b _ IH|a b _ IH]; simpl; [reflexivity | rewrite IH; reflexivity | exact IH].
Qed.

(* removing the inserted blanks is not needed to compare texts: deleting blanks from b gives a *)
Lemma sp_ins_all a b : sp_ins a b -> forall x, In x a -> In x b.
Proof.
  induction 1 as [|y a b _ IH|a b _ IH]; intros x Hx; simpl in *; [contradiction| |right; auto].
  destruct Hx as [->|Hx]; auto.
Qed.

Lemma sp_pass_ins : forall l p q, sp_ins (leaves_list l) (leaves_list (sp_pass p q l)).
Proof.
  induction l as [|t r IH]; intros p q.
  - destruct q; simpl; repeat constructor.
  - cbn [sp_pass].
    assert (Hrec : forall X, sp_ins (leaves_list r) (leaves_list X) ->
                             sp_ins (leaves_list (t :: r)) (leaves_list (t :: X))).
    { intros X HX. rewrite !leaves_list_cons. apply sp_ins_app; [apply sp_ins_refl | exact HX]. }
    assert (Hsp : forall A B, sp_ins A (leaves_list B) -> sp_ins A (leaves_list (sp_token :: B))).
    { intros A B H. rewrite leaves_list_cons. simpl. apply si_ins, H. }
    destruct (q && negb (is_ws t)); cbn [app];
      destruct (is_sp_op t); try (apply Hsp); try destruct p; cbn [app];
      repeat first [apply Hsp | apply Hrec | apply IH].
Qed.

Lemma sp_process_ins : forall n n', sp_process n = Ok n' -> sp_ins (leaves n) (leaves n').
Proof.
  induction n as [ty v | c v kids IH] using node_ind'; intros n' H; cbn [sp_process] in H.
  - injection H as <-. apply sp_ins_refl.
  - destruct (mapM _ kids) as [kids1|] eqn:E1; [|discriminate]. simpl in H.
    rewrite sp_list_eq in H. simpl in H. injection H as <-.
    change (sp_ins (leaves_list kids) (leaves_list (sp_fun kids1))).
    eapply sp_ins_trans; [|apply sp_pass_ins].
    assert (HF : Forall2 (fun k k' => sp_ins (leaves k) (leaves k')) kids kids1).
    { eapply mapM_rel; [|exact E1]. eapply Forall_impl; [|exact IH]. intros k Hk k' Hk'.
      cbv beta in Hk'. destruct (is_group k); [auto|]. injection Hk' as <-. apply sp_ins_refl. }
    clear -HF. induction HF as [|x y l l' Hxy _ IHF]; [constructor|].
    rewrite !leaves_list_cons. apply sp_ins_app; assumption.
Qed.

(* The leaves of the result are the leaves of the input, all of them, in order, with tokens
   (Whitespace, ' ') inserted. *)
Theorem spaces_leaves : forall n n', spaces n = Ok n' -> sp_ins (leaves n) (leaves n').
Proof. intros [ty v|c v kids] n' H; [discriminate|]. apply sp_process_ins, H. Qed.

Corollary spaces_nonws_leaves : forall n n', spaces n = Ok n' ->
  nw_leaves (leaves n') = nw_leaves (leaves n).
Proof. intros n n' H. apply sp_ins_nw, spaces_leaves, H. Qed.
Print Assumptions spaces_leaves.

(* ================================================================================================
   normal form
   ================================================================================================ *)
Lemma head_ws l p pending :
  (pending = true \/ match l with [] => True | x :: _ => is_ws x = true end) ->
  match sp_pass p pending l with [] => true | h :: _ => is_ws h end = true.
Proof.
  intros H. destruct l as [|t r].
  - destruct pending; reflexivity.
  - cbn [sp_pass]. destruct (pending && negb (is_ws t)) eqn:Epl; [reflexivity|]. cbn [app].
    assert (Ht : is_ws t = true).
    { destruct H as [->|H]; [|exact H]. simpl in Epl. apply negb_false_iff in Epl. exact Epl. }
    rewrite (is_ws_not_op t Ht). exact Ht.
Qed.

Lemma head_after r p :
  match sp_pass p (match r with x :: _ => negb (is_ws x) | [] => false end) r with
  | [] => true | h :: _ => is_ws h end = true.
Proof.
  apply head_ws. destruct r as [|x r']; [right; exact I|].
  destruct (is_ws x) eqn:E; [right; reflexivity | left; reflexivity].
Qed.

Lemma ops_ok_pass : forall l p pending, ops_ok p (sp_pass p pending l) = true.
Proof.
  induction l as [|t r IH]; intros p pending.
  - destruct pending; reflexivity.
  - cbn [sp_pass].
    assert (Hop : is_sp_op t = true -> forall after',
              after' = match r with x :: _ => negb (is_ws x) | [] => false end ->
              ops_ok true (t :: sp_pass false after' r) = true).
    { intros Ho after' ->. cbn [ops_ok]. rewrite Ho, (op_not_W t Ho), IH. cbn [andb].
      rewrite andb_true_r. apply head_after. }
    assert (Hnop : is_sp_op t = false -> forall q pend, ops_ok q (t :: sp_pass (is_ws t) pend r) = true).
    { intros Ho q pend. cbn [ops_ok]. rewrite Ho, IH. reflexivity. }
    assert (Hsp : forall X, ops_ok true X = true -> forall q, ops_ok q (sp_token :: X) = true).
    { intros X HX q. cbn [ops_ok]. exact HX. }
    destruct (pending && negb (is_ws t)); cbn [app]; destruct (is_sp_op t) eqn:Eo.
    + apply Hsp. apply Hop; reflexivity.
    + apply Hsp. apply Hnop; reflexivity.
    + destruct p; cbn [app]; [apply Hop; reflexivity | apply Hsp, Hop; reflexivity].
    + apply Hnop; reflexivity.
Qed.

Lemma sp_pass_Forall (P : node -> Prop) : P sp_token -> forall l p q, Forall P l -> Forall P (sp_pass p q l).
Proof.
  intros Hs. induction l as [|t r IH]; intros p q H.
  - destruct q; simpl; repeat constructor; exact Hs.
  - inversion H as [|? ? Ht Hr]; subst. cbn [sp_pass].
    destruct (q && negb (is_ws t)); cbn [app]; destruct (is_sp_op t); try destruct p; cbn [app];
      repeat first [apply Forall_cons | apply IH | assumption].
Qed.

Lemma sp_process_nf : forall n n', sp_process n = Ok n' -> sp_nf n' = true.
Proof.
  induction n as [ty v | c v kids IH] using node_ind'; intros n' H; cbn [sp_process] in H.
  - injection H as <-. reflexivity.
  - destruct (mapM _ kids) as [kids1|] eqn:E1; [|discriminate]. simpl in H.
    rewrite sp_list_eq in H. simpl in H. injection H as <-.
    cbn [sp_nf]. unfold sp_fun. rewrite ops_ok_pass. cbn [andb].
    apply forallb_forall. apply Forall_forall. apply sp_pass_Forall; [reflexivity|].
    assert (HF : Forall2 (fun _ k' => sp_nf k' = true) kids kids1).
    { eapply mapM_rel; [|exact E1]. eapply Forall_impl; [|exact IH]. intros k Hk k' Hk'.
      cbv beta in Hk'. destruct k as [ty0 v0|c0 v0 kk]; simpl in Hk'; [injection Hk' as <-; reflexivity | auto]. }
    clear -HF. induction HF; constructor; auto.
Qed.

(* In every group of the result, every child of type exactly Operator or Operator.Comparison is the
   first child or preceded by a child of type exactly Whitespace, and is the last child or followed
   by a whitespace-typed child (Whitespace or Newline). *)
Theorem spaces_nf : forall n n', spaces n = Ok n' -> sp_nf n' = true.
Proof. intros [ty v|c v kids] n' H; [discriminate|]. eapply sp_process_nf, H. Qed.
Print Assumptions spaces_nf.

(* ================================================================================================
   idempotence (tree level).  Holds since the filter tests `is_whitespace` (a Newline next to an operator counts as
   white space): before that `fix:` commit in /repo every run inserted another blank after `=` in `a =<LF>b`.
   ================================================================================================ *)
Lemma sp_pass_fixed : forall l p, ops_ok p l = true -> sp_pass p false l = l.
Proof.
  induction l as [|t r IH]; intros p H; [reflexivity|].
  cbn [sp_pass ops_ok andb app] in *. apply andb_true_iff in H. destruct H as [H1 H2].
  destruct (is_sp_op t) eqn:Eo.
  - apply andb_true_iff in H1. destruct H1 as [Hp Hn]. rewrite Hp.
    rewrite (op_not_W t Eo) in H2.
    assert (Ea : match r with x :: _ => negb (is_ws x) | [] => false end = false).
    { destruct r as [|x r']; [reflexivity|]. rewrite Hn. reflexivity. }
    rewrite Ea. cbn [app]. f_equal. apply IH, H2.
  - f_equal. apply IH, H2.
Qed.

Theorem sp_fun_idem l : sp_fun (sp_fun l) = sp_fun l.
Proof. unfold sp_fun. apply sp_pass_fixed, ops_ok_pass. Qed.

Lemma sp_process_fixed : forall n, sp_nf n = true -> sp_process n = Ok n.
Proof.
  induction n as [ty v | c v kids IH] using node_ind'; intros H; [reflexivity|].
  cbn [sp_nf] in H. apply andb_true_iff in H. destruct H as [H1 H2].
  cbn [sp_process].
  assert (E : mapM (fun k => if is_group k then sp_process k else Ok k) kids = Ok kids).
  { clear H1. induction kids as [|k kids IHk]; [reflexivity|].
    cbn [forallb] in H2. apply andb_true_iff in H2. destruct H2 as [Hk Hr].
    inversion IH as [|? ? IHk0 IHr]; subst. cbn [mapM].
    assert (Ek : (if is_group k then sp_process k else Ok k) = Ok k)
      by (destruct (is_group k); [apply IHk0, Hk | reflexivity]).
    rewrite Ek. cbn [bind]. rewrite (IHk IHr Hr). reflexivity. }
  rewrite E. cbn [bind]. rewrite sp_list_eq. cbn [bind]. unfold sp_fun. rewrite (sp_pass_fixed _ _ H1). reflexivity.
Qed.

(* running the filter on its own result changes nothing *)
Theorem spaces_idem : forall n n', spaces n = Ok n' -> spaces n' = Ok n'.
Proof.
  intros n n' H. pose proof (spaces_nf n n' H) as Hnf.
  destruct n as [ty v|c v kids]; [discriminate|]. cbn [spaces] in H.
  destruct n' as [ty' v'|c' v' kids'].
  - cbn [sp_process] in H. destruct (mapM _ kids) as [k1|]; cbn [bind] in H; [|discriminate].
    destruct (sp_list k1); cbn [bind] in H; discriminate.
  - cbn [spaces]. apply sp_process_fixed, Hnf.
Qed.
Print Assumptions spaces_idem.
