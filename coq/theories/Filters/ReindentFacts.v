(* Facts about the reindent model (Filters/Reindent.v) and the two filters around it. *)
From SqlModel Require Import Base PyStr Re Node Inv Passes.
From SqlModel.Gen Require Import CaseTabs.
From SqlModel.Filters Require Import RxStripWs RxSerial Reindent ReindentSafe ReindentSpec.
From Coq Require Import ZArith.

(* ================================================================================================
   significant leaves: the leaves whose type is not in Token.Text.Whitespace
   ================================================================================================ *)
(* is_ws_tok, sigtoks, sig, sigl are defined in ReindentSpec.v *)

Lemma sigtoks_app a b : sigtoks (a ++ b) = sigtoks a ++ sigtoks b.
Proof. apply filter_app. Qed.

Lemma sigl_nil : sigl [] = []. Proof. reflexivity. Qed.
Lemma sigl_cons x l : sigl (x :: l) = sig x ++ sigl l.
Proof. unfold sigl, sig. rewrite leaves_list_cons, sigtoks_app. reflexivity. Qed.
Lemma sigl_app a b : sigl (a ++ b) = sigl a ++ sigl b.
Proof. unfold sigl. rewrite leaves_list_app, sigtoks_app. reflexivity. Qed.
Lemma sig_grp c v kids : sig (Grp c v kids) = sigl kids.
Proof. reflexivity. Qed.

Lemma is_ws_sig n : is_ws n = true -> sig n = [].
Proof.
  destruct n as [ty v | c v k]; [|discriminate].
  unfold is_ws, tt_in, sig. cbn [leaves sigtoks filter]. unfold is_ws_tok. cbn [fst]. intros ->. reflexivity.
Qed.

Lemma sig_ws_leaf v : sig (Leaf T_Whitespace v) = [].
Proof. reflexivity. Qed.

Lemma sigl_all_ws l : Forall (fun x => sig x = []) l -> sigl l = [].
Proof.
  induction 1 as [|x l Hx _ IH]; [reflexivity|]. rewrite sigl_cons, Hx, IH. reflexivity.
Qed.

Lemma sigl_insert_at i x l : sig x = [] -> sigl (insert_at i x l) = sigl l.
Proof.
  intros Hx. unfold insert_at. rewrite sigl_app, sigl_cons, Hx. cbn [app].
  rewrite <- sigl_app, firstn_skipn. reflexivity.
Qed.

Lemma sigl_remove_at : forall l i p, nth_error l i = Some p -> sig p = [] -> sigl (remove_at i l) = sigl l.
Proof.
  induction l as [|y l IH]; intros i p Hn Hp.
  - destruct i; discriminate.
  - destruct i as [|i]; cbn [remove_at].
    + cbn in Hn. injection Hn as ->. rewrite sigl_cons, Hp. reflexivity.
    + cbn in Hn. rewrite !sigl_cons. f_equal. eapply IH; eauto.
Qed.

Lemma sigl_snoc l x : sig x = [] -> sigl (l ++ [x]) = sigl l.
Proof. intros Hx. rewrite sigl_app, sigl_cons, Hx. cbn. rewrite app_nil_r. reflexivity. Qed.

Lemma sig_nl o e x : sig (nl o e x) = [].
Proof. reflexivity. Qed.
Lemma sig_sp : sig sp = [].
Proof. reflexivity. Qed.

(* ---- searching ----------------------------------------------------------------------------- *)
Lemma find_last_aux_nth f : forall l base best i p,
  find_last_aux f l base best = Some (i, p) ->
  best = Some (i, p) \/ (base <= i /\ nth_error l (i - base) = Some p).
Proof.
  induction l as [|x l IH]; intros base best i p H; cbn [find_last_aux] in H.
  - left; exact H.
  - apply IH in H. destruct H as [H | [Hle Hn]].
    + destruct (f x).
      * injection H as <- <-. right. split; [lia|]. rewrite Nat.sub_diag. reflexivity.
      * left; exact H.
    + right. split; [lia|]. replace (i - base) with (S (i - S base)) by lia. exact Hn.
Qed.

Lemma nth_error_firstn_some {A} : forall (l : list A) n j x,
  nth_error (firstn n l) j = Some x -> nth_error l j = Some x.
Proof.
  induction l as [|y l IH]; intros n j x H.
  - rewrite firstn_nil in H. destruct j; discriminate.
  - destruct n; [destruct j; discriminate|]. destruct j; cbn in *; [exact H|]. eapply IH; eauto.
Qed.

Lemma token_prev_nth sw sc idx l pidx p :
  token_prev sw sc idx l = Some (pidx, p) -> nth_error l pidx = Some p.
Proof.
  unfold token_prev, find_before. intros H. apply find_last_aux_nth in H.
  destruct H as [H | [_ H]]; [discriminate|].
  rewrite Nat.sub_0_r in H. eapply nth_error_firstn_some; eauto.
Qed.

(* ================================================================================================
   StripWhitespaceFilter preserves the significant leaves
   ================================================================================================ *)
Lemma sig_set_value_ws n v : is_ws n = true -> sig (set_value n v) = [].
Proof.
  destruct n as [ty w | c w k]; [|discriminate]. intros H. apply is_ws_sig. exact H.
Qed.

Lemma sw_default_sigl : forall l a b, sigl (sw_default l a b) = sigl l.
Proof.
  induction l as [|t l IH]; intros a b; [reflexivity|].
  cbn [sw_default]. rewrite !sigl_cons, IH. f_equal.
  destruct (is_ws t) eqn:E; [|reflexivity].
  rewrite sig_set_value_ws by exact E. symmetry. apply is_ws_sig; exact E.
Qed.

Lemma sw_idl_sigl : forall l, sigl (sw_idl l) = sigl l.
Proof.
  induction l as [|a l IH]; [reflexivity|].
  cbn [sw_idl]. destruct l as [|b l']; [reflexivity|].
  destruct (is_ws a && is_comma_punct b) eqn:E.
  - rewrite IH. rewrite (sigl_cons a). apply andb_true_iff in E. destruct E as [E _].
    rewrite (is_ws_sig _ E). reflexivity.
  - rewrite !(sigl_cons a). rewrite IH. reflexivity.
Qed.

Lemma sw_pop1_sigl a : forall l r, sw_pop1 a l = Ok r -> sigl r = sigl (a :: l).
Proof.
  induction l as [|b l IH]; intros r H; cbn [sw_pop1] in H; [discriminate|].
  destruct (is_ws b) eqn:E.
  - rewrite (IH _ H). rewrite !sigl_cons, (is_ws_sig _ E). reflexivity.
  - injection H as <-. reflexivity.
Qed.

(* significant leaves of a reversed list, as a multiset-free statement: we only need that
   stripping whitespace elements from the front of the reversed list keeps sigl of the un-reversed *)
Lemma sw_rstrip_rev_sigl : forall rl r, sw_rstrip_rev rl = Ok r -> sigl (rev r) = sigl (rev rl).
Proof.
  induction rl as [|x rl IH]; intros r H; cbn [sw_rstrip_rev] in H; [discriminate|].
  destruct (is_ws x) eqn:E.
  - rewrite (IH _ H). cbn [rev]. rewrite sigl_snoc; [reflexivity|apply is_ws_sig; exact E].
  - injection H as <-. reflexivity.
Qed.

Lemma sw_pop1_rev_sigl z : forall r r2, sw_pop1 z r = Ok r2 -> sigl (rev r2) = sigl (rev (z :: r)).
Proof.
  induction r as [|b r IH]; intros r2 H; cbn [sw_pop1] in H; [discriminate|].
  destruct (is_ws b) eqn:E.
  - rewrite (IH _ H). cbn [rev]. rewrite !sigl_app. f_equal.
    rewrite (sigl_cons b), (is_ws_sig _ E). cbn [app]. rewrite sigl_nil, app_nil_r. reflexivity.
  - injection H as <-. reflexivity.
Qed.

Lemma ok_inj_res {A} (x y : A) : Ok x = Ok y -> x = y.
Proof. intros H; injection H as ->; reflexivity. Qed.

Lemma sw_parenthesis_sigl l r : sw_parenthesis l = Ok r -> sigl r = sigl l.
Proof.
  unfold sw_parenthesis. destruct l as [|a l1]; [intros H; injection H as <-; reflexivity|].
  destruct l1 as [|b0 l1']; [intros H; apply ok_inj_res in H; rewrite <- H; apply sw_default_sigl|].
  remember (b0 :: l1') as l1 eqn:El1.
  destruct (sw_pop1 a l1) as [l2|] eqn:E1; cbn [bind]; [|discriminate].
  pose proof (sw_pop1_sigl _ _ _ E1) as H1.
  destruct (rev l2) as [|z r0] eqn:Er; [discriminate|].
  destruct (sw_pop1 z r0) as [r2|] eqn:E2; cbn [bind]; [|discriminate].
  pose proof (sw_pop1_rev_sigl _ _ _ E2) as H2.
  rewrite <- Er, rev_involutive in H2.
  assert (Hd : forall q, Ok (sw_default (rev r2) false true) = Ok q -> sigl q = sigl (a :: l1)).
  { intros q Hq. injection Hq as <-. rewrite sw_default_sigl, H2, H1. reflexivity. }
  destruct r2 as [|z' r2']; [intros Hq; apply Hd; exact Hq|].
  destruct r2' as [|g r3]; [intros Hq; apply Hd; exact Hq|].
  destruct g as [ty v | c v kids]; [intros Hq; apply Hd; exact Hq|].
  destruct (sw_rstrip_rev (rev kids)) as [kr|] eqn:E3; cbn [bind]; [|discriminate].
  intros Hq. injection Hq as <-. rewrite sw_default_sigl.
  rewrite <- H1, <- H2. cbn [rev]. rewrite !sigl_app, !sigl_cons. f_equal. f_equal. f_equal.
  rewrite !sig_grp. apply sw_rstrip_rev_sigl in E3. rewrite rev_involutive in E3. exact E3.
Qed.

Lemma sw_dispatch_sigl c l r : sw_dispatch c l = Ok r -> sigl r = sigl l.
Proof.
  destruct c; cbn [sw_dispatch]; intros H;
    try (injection H as <-; rewrite sw_default_sigl; reflexivity).
  - injection H as <-. rewrite sw_default_sigl, sw_idl_sigl. reflexivity.
  - apply sw_parenthesis_sigl; exact H.
Qed.

Lemma mapM_sigl (f : node -> res node) :
  forall l l', (Forall (fun k => forall k', f k = Ok k' -> sig k' = sig k) l) ->
  mapM f l = Ok l' -> sigl l' = sigl l.
Proof.
  induction l as [|x l IH]; intros l' HF H; cbn [mapM] in H.
  - injection H as <-. reflexivity.
  - inversion HF as [|? ? Hx HF']; subst.
    destruct (f x) as [y|] eqn:Ey; cbn [bind] in H; [|discriminate].
    destruct (mapM f l) as [r|] eqn:Er; cbn [bind] in H; [|discriminate].
    injection H as <-. rewrite !sigl_cons, (Hx _ eq_refl), (IH _ HF' eq_refl). reflexivity.
Qed.

Theorem stripws_sig : forall n n', stripws n = Ok n' -> sig n' = sig n.
Proof.
  induction n as [ty v | c v kids IH] using node_ind'; intros n' H.
  - injection H as <-. reflexivity.
  - cbn [stripws] in H.
    destruct (mapM stripws kids) as [k1|] eqn:E1; cbn [bind] in H; [|discriminate].
    destruct (sw_dispatch c k1) as [k2|] eqn:E2; cbn [bind] in H; [|discriminate].
    injection H as <-. rewrite !sig_grp.
    rewrite (sw_dispatch_sigl _ _ _ E2). eapply mapM_sigl; [|exact E1]. exact IH.
Qed.

Lemma drop_last_ws_sigl l : sigl (drop_last_ws l) = sigl l.
Proof.
  unfold drop_last_ws. destruct (rev l) as [|x r] eqn:E; [reflexivity|].
  destruct (is_ws x) eqn:Ex; [|reflexivity].
  rewrite <- (rev_involutive l), E. cbn [rev]. rewrite sigl_snoc; [reflexivity|apply is_ws_sig; exact Ex].
Qed.

Theorem stripws_stmt_sig n n' : stripws_stmt n = Ok n' -> sig n' = sig n.
Proof.
  unfold stripws_stmt. destruct (stripws n) as [m|] eqn:E; cbn [bind]; [|discriminate].
  apply stripws_sig in E. destruct m as [ty v | c v kids]; intros H; injection H as <-.
  - exact E.
  - rewrite sig_grp, drop_last_ws_sigl. exact E.
Qed.

(* ================================================================================================
   ReindentFilter preserves the significant leaves
   ================================================================================================ *)
Lemma del_prev_ws_sigl (l : list node) (tidx : nat) (prev_ : option (nat * node)) sw sc :
  prev_ = token_prev sw sc tidx l ->
  sigl (fst (match prev_ with
             | Some (pidx, p) => if is_ws p then (remove_at pidx l, (tidx - 1)%nat) else (l, tidx)
             | None => (l, tidx)
             end)) = sigl l.
Proof.
  intros ->. destruct (token_prev sw sc tidx l) as [[pidx p]|] eqn:E; [|reflexivity].
  destruct (is_ws p) eqn:Ep; [|reflexivity]. cbn [fst].
  eapply sigl_remove_at; [eapply token_prev_nth; exact E | apply is_ws_sig; exact Ep].
Qed.

Lemma split_kwds_loop_sigl nlv : sig nlv = [] -> forall fuel l cur r,
  split_kwds_loop fuel nlv l cur = Ok r -> sigl r = sigl l.
Proof.
  intros Hnl. induction fuel as [|f IH]; intros l cur r H.
  - destruct cur as [[tidx tk]|]; cbn [split_kwds_loop] in H; [discriminate|].
    injection H as <-. reflexivity.
  - destruct cur as [[tidx tk]|]; cbn [split_kwds_loop] in H; [|injection H as <-; reflexivity].
    pose proof (del_prev_ws_sigl l tidx _ false false eq_refl) as Hd.
    destruct (match token_prev false false tidx l with
              | Some (pidx, p) => if is_ws p then (remove_at pidx l, (tidx - 1)%nat) else (l, tidx)
              | None => (l, tidx) end) as [l1 tidx1] eqn:E1.
    cbn [fst] in Hd.
    destruct (if match token_prev false false tidx l with
                 | Some (_, p) => ends_nl (text_of p) | None => false end
              then (l1, tidx1) else (insert_at tidx1 nlv l1, S tidx1)) as [l2 tidx2] eqn:E2.
    assert (H2 : sigl l2 = sigl l).
    { destruct (match token_prev false false tidx l with
                | Some (_, p) => ends_nl (text_of p) | None => false end);
        injection E2 as <- <-; [exact Hd | rewrite sigl_insert_at by exact Hnl; exact Hd]. }
    destruct (next_token (S (length l2)) l2 (S tidx2)) as [nx|] eqn:En; cbn [bind] in H; [|discriminate].
    rewrite (IH _ _ _ H). exact H2.
Qed.

Lemma split_kwds_sigl o e l r : split_kwds o e l = Ok r -> sigl r = sigl l.
Proof.
  unfold split_kwds. destruct (next_token (S (length l)) l 0) as [first|]; cbn [bind]; [|discriminate].
  apply split_kwds_loop_sigl. apply sig_nl.
Qed.

Lemma split_statements_loop_sigl nlv : sig nlv = [] -> forall fuel l cur r,
  split_statements_loop fuel nlv l cur = Ok r -> sigl r = sigl l.
Proof.
  intros Hnl. induction fuel as [|f IH]; intros l cur r H.
  - destruct cur as [[tidx tk]|]; cbn [split_statements_loop] in H; [discriminate|].
    injection H as <-. reflexivity.
  - destruct cur as [[tidx tk]|]; cbn [split_statements_loop] in H; [|injection H as <-; reflexivity].
    pose proof (del_prev_ws_sigl l tidx _ false false eq_refl) as Hd.
    destruct (match token_prev false false tidx l with
              | Some (pidx, p) => if is_ws p then (remove_at pidx l, (tidx - 1)%nat) else (l, tidx)
              | None => (l, tidx) end) as [l1 tidx1] eqn:E1.
    cbn [fst] in Hd.
    destruct (match token_prev false false tidx l with
              | Some _ => (insert_at tidx1 nlv l1, S tidx1)
              | None => (l1, tidx1) end) as [l2 tidx2] eqn:E2.
    assert (H2 : sigl l2 = sigl l).
    { destruct (token_prev false false tidx l);
        injection E2 as <- <-; [rewrite sigl_insert_at by exact Hnl; exact Hd | exact Hd]. }
    rewrite (IH _ _ _ H). exact H2.
Qed.

Lemma split_statements_sigl o e l r : split_statements o e l = Ok r -> sigl r = sigl l.
Proof. apply split_statements_loop_sigl. apply sig_nl. Qed.

Lemma idl_wrap_a_sigl o e : forall ids l ins position r,
  idl_wrap_a o e l ins ids position = Ok r -> sigl r = sigl l.
Proof.
  induction ids as [|i0 ids IH]; intros l ins position r H; cbn [idl_wrap_a] in H.
  - injection H as <-. reflexivity.
  - destruct (nth_error l (cur_idx ins i0)) as [tok|]; [|discriminate].
    destruct (position + vlen tok + 1 >? o_wrap o - e_off e)%Z; [|eapply IH; exact H].
    destruct (o_comma_first o).
    + destruct (token_prev true false (cur_idx ins i0) l) as [[cidx c]|]; [|eapply IH; exact H].
      set (l1 := insert_at cidx (nl o e (-2)) l) in *.
      assert (H1 : sigl l1 = sigl l) by (apply sigl_insert_at, sig_nl).
      destruct (nth_error l1 (S (S cidx))) as [ws|].
      * destruct (negb (tt_is ws T_Whitespace)).
        -- destruct (token_next true false (S cidx) l1) as [[nidx nx]|].
           ++ rewrite (IH _ _ _ _ H). rewrite sigl_insert_at by apply sig_sp. exact H1.
           ++ rewrite (IH _ _ _ _ H). rewrite sigl_snoc by apply sig_sp. exact H1.
        -- rewrite (IH _ _ _ _ H). exact H1.
      * rewrite (IH _ _ _ _ H). exact H1.
    + rewrite (IH _ _ _ _ H). apply sigl_insert_at, sig_nl.
Qed.

Lemma ensure_ws_sigl : forall fuel k l ins l' ins',
  ensure_ws fuel k l ins = Ok (l', ins') -> sigl l' = sigl l.
Proof.
  induction fuel as [|f IH]; intros k l ins l' ins' H; cbn [ensure_ws] in H; [discriminate|].
  destruct (nth_error l k) as [tok|]; [|injection H as <- <-; reflexivity].
  destruct (text_eqb (nvalue tok) s_comma); [|eapply IH; exact H].
  destruct (nth_error l (S k)) as [nx|]; [|discriminate].
  destruct (is_ws nx); [eapply IH; exact H|].
  destruct (token_next true false k l) as [[nidx n2]|].
  - rewrite (IH _ _ _ _ _ H). apply sigl_insert_at, sig_sp.
  - rewrite (IH _ _ _ _ _ H). apply sigl_snoc, sig_sp.
Qed.

Lemma idl_wrap_b_sigl o e : forall ids l ins position r,
  idl_wrap_b o e l ins ids position = Ok r -> sigl r = sigl l.
Proof.
  induction ids as [|i0 ids IH]; intros l ins position r H; cbn [idl_wrap_b] in H.
  - injection H as <-. reflexivity.
  - destruct (nth_error l (cur_idx ins i0)) as [tok|]; [|discriminate].
    destruct ((o_wrap o >? 0)%Z && (position + vlen tok + 1 >? o_wrap o - e_off e)%Z).
    + rewrite (IH _ _ _ _ H). apply sigl_insert_at, sig_nl.
    + eapply IH; exact H.
Qed.

Lemma process_identifierlist_sigl o e inFV pre lf l r :
  process_identifierlist o e inFV pre lf l = Ok r -> sigl r = sigl l.
Proof.
  unfold process_identifierlist.
  match goal with |- bind ?m _ = _ -> _ => destruct m as [[ids num_offset]|] end; cbn [bind]; [|discriminate].
  destruct (negb inFV); [apply idl_wrap_a_sigl|].
  destruct (ensure_ws (S (2 * length l)) 0 l []) as [[l1 ins1]|] eqn:E1; cbn [bind]; [|discriminate].
  apply ensure_ws_sigl in E1.
  match goal with |- bind ?m _ = _ -> _ => destruct m as [[l2 ins2]|] eqn:E2 end; cbn [bind]; [|discriminate].
  intros H. apply idl_wrap_b_sigl in H. rewrite H.
  match type of E2 with (if ?c then _ else _) = _ => destruct c end.
  - destruct ids as [|i0 ids']; [discriminate|]. injection E2 as <- <-.
    rewrite sigl_insert_at by apply sig_nl. exact E1.
  - injection E2 as <- <-. exact E1.
Qed.

Lemma case_loop_sigl o e l0 : forall cases l ins r,
  case_loop o e l0 cases l ins = Ok r -> sigl r = sigl l.
Proof.
  induction cases as [|[cond value] cases IH]; intros l ins r H; cbn [case_loop] in H.
  - injection H as <-. reflexivity.
  - match type of H with (if ?c then _ else _) = _ => destruct c end; [|eapply IH; exact H].
    destruct (match cond with None => value | Some cs => cs end) as [|i0 rest]; [discriminate|].
    rewrite (IH _ _ _ H). apply sigl_insert_at, sig_nl.
Qed.

Lemma values_loop_sigl o e pre first_idx : forall fuel l cur r,
  values_loop fuel o e pre first_idx l cur = Ok r -> sigl r = sigl l.
Proof.
  induction fuel as [|f IH]; intros l cur r H.
  - destruct cur as [[tidx tk]|]; cbn [values_loop] in H; [discriminate|]. injection H as <-. reflexivity.
  - destruct cur as [[tidx tk]|]; cbn [values_loop] in H; [|injection H as <-; reflexivity].
    match type of H with bind ?m _ = _ => destruct m as [l'|] eqn:E end; cbn [bind] in H; [|discriminate].
    rewrite (IH _ _ _ H).
    destruct (next_by_from [] [(T_Punctuation, Some [s_comma])] TNone (S tidx) l) as [[ptidx pt]|];
      [|injection E as <-; reflexivity].
    destruct (o_comma_first o).
    + destruct (offset_of_child o e pre l first_idx) as [off|]; cbn [bind] in E; [|discriminate].
      injection E as <-. apply sigl_insert_at, sig_nl.
    + destruct (offset_of_child o e pre l tidx) as [off|]; cbn [bind] in E; [|discriminate].
      destruct (token_next true false ptidx l) as [[nidx nx]|]; injection E as <-.
      * apply sigl_insert_at, sig_nl.
      * apply sigl_snoc, sig_nl.
Qed.

Lemma process_values_sigl o e pre l r : process_values o e pre l = Ok r -> sigl r = sigl l.
Proof.
  unfold process_values.
  destruct (find_from is_paren 0 (nl o e 0 :: l)) as [[tidx tok]|].
  - intros H. apply values_loop_sigl in H. rewrite H, sigl_cons, sig_nl. reflexivity.
  - intros H. injection H as <-. rewrite sigl_cons, sig_nl. reflexivity.
Qed.

(* the recursive call preserves the significant leaves of a child *)
Definition rec_sig (rec : rec_t) : Prop :=
  forall e inF inV pre lf k lf' k', rec e inF inV pre lf k = Ok (lf', k') -> sig k' = sig k.

Lemma process_kids_sigl (rec : text -> option text -> node -> res (option text * node)) :
  (forall pre lf k lf' k', rec pre lf k = Ok (lf', k') -> sig k' = sig k) ->
  forall l pre lf done_rev lf' r,
  process_kids rec pre lf done_rev l = Ok (lf', r) -> sigl r = sigl (rev done_rev) ++ sigl l.
Proof.
  intros Hrec. induction l as [|k l IH]; intros pre lf done_rev lf' r H; cbn [process_kids] in H.
  - injection H as <- <-. rewrite sigl_nil, app_nil_r. reflexivity.
  - destruct (is_group k).
    + destruct (rec pre lf k) as [[lf1 k1]|] eqn:Ek; cbn [bind] in H; [|discriminate].
      rewrite (IH _ _ _ _ _ H). cbn [rev]. rewrite sigl_app, !sigl_cons, sigl_nil, app_nil_r, <- app_assoc.
      rewrite (Hrec _ _ _ _ _ Ek). reflexivity.
    + rewrite (IH _ _ _ _ _ H). cbn [rev]. rewrite sigl_app, !sigl_cons, sigl_nil, app_nil_r, <- app_assoc.
      reflexivity.
Qed.

Lemma process_default_sigl rec o e inF inV pre lf stmts l lf' r : rec_sig rec ->
  process_default rec o e inF inV pre lf stmts l = Ok (lf', r) -> sigl r = sigl l.
Proof.
  intros Hrec. unfold process_default.
  destruct (if stmts then split_statements o e l else Ok l) as [l1|] eqn:E1; cbn [bind]; [|discriminate].
  destruct (split_kwds o e l1) as [l2|] eqn:E2; cbn [bind]; [|discriminate].
  intros H. apply process_kids_sigl in H; [|intros; eapply Hrec; eauto].
  rewrite H. cbn [rev]. rewrite sigl_nil. cbn [app].
  rewrite (split_kwds_sigl _ _ _ _ E2).
  destruct stmts; [eapply split_statements_sigl; exact E1 | injection E1 as <-; reflexivity].
Qed.

Theorem rprocess_sig : forall fuel o e inF inV pre lf n lf' n',
  rprocess fuel o e inF inV pre lf n = Ok (lf', n') -> sig n' = sig n.
Proof.
  induction fuel as [|f IH]; intros o e inF inV pre lf n lf' n' H; cbn [rprocess] in H; [discriminate|].
  destruct n as [ty v | c v l]; [discriminate|].
  set (rec := (fun e' inF' inV' pre' lf'0 k =>
                 rprocess f o e' (inF' || cls_eqb c CFunction) (inV' || cls_eqb c CValues) pre' lf'0 k) : rec_t) in *.
  assert (Hrec : rec_sig rec) by (intros e1 a b p1 l1 k l2 k2 Hk; eapply IH; exact Hk).
  match type of H with bind ?m _ = _ => destruct m as [[lf1 l1]|] eqn:E end; cbn [bind] in H; [|discriminate].
  injection H as <- <-. rewrite !sig_grp.
  destruct c;
    try (eapply process_default_sigl; [exact Hrec | exact E]).
  - (* IdentifierList *)
    destruct (process_identifierlist o e (inF || inV) pre lf l) as [l0|] eqn:E0; cbn [bind] in E; [|discriminate].
    rewrite (process_default_sigl _ _ _ _ _ _ _ _ _ _ _ Hrec E).
    eapply process_identifierlist_sigl; exact E0.
  - (* Parenthesis *)
    unfold process_parenthesis in E.
    destruct (next_by_from [] (m_open CParenthesis) TNone 0 l) as [[fidx ft]|];
      [|injection E as <- <-; reflexivity].
    match type of E with bind ?m _ = _ => destruct m as [off|] end; cbn [bind] in E; [|discriminate].
    rewrite (process_default_sigl _ _ _ _ _ _ _ _ _ _ _ Hrec E).
    destruct (match find_from is_dml_ddl 0 l with Some _ => true | None => false end);
      [rewrite sigl_cons, sig_nl|]; reflexivity.
  - (* Where *)
    unfold process_where in E.
    destruct (next_by_from [] [(T_Keyword, Some [s_WHERE])] TNone 0 l) as [[tidx tk]|];
      [|injection E as <- <-; reflexivity].
    rewrite (process_default_sigl _ _ _ _ _ _ _ _ _ _ _ Hrec E). apply sigl_insert_at, sig_nl.
  - (* Case *)
    unfold process_case in E.
    destruct (get_cases l) as [|[cond vs] rest]; [discriminate|].
    destruct cond as [[|c0 cs]|]; try discriminate.
    destruct (nth_error l c0) as [ctok|]; [|discriminate].
    destruct (first_leaf ctok); cbn [bind] in E; [|discriminate].
    destruct (offset_of_child o e pre l 0) as [off0|]; cbn [bind] in E; [|discriminate].
    match type of E with bind ?m _ = _ => destruct m as [off1|] end; cbn [bind] in E; [|discriminate].
    match type of E with bind ?m _ = _ => destruct m as [lc|] eqn:Ec end; cbn [bind] in E; [|discriminate].
    match type of E with bind ?m _ = _ => destruct m as [[lf2 l2]|] eqn:Ed end; cbn [bind] in E; [|discriminate].
    apply case_loop_sigl in Ec. apply (process_default_sigl _ _ _ _ _ _ _ _ _ _ _ Hrec) in Ed.
    destruct (next_by_from [] (m_close CCase) TNone 0 l2) as [[end_idx et]|].
    + destruct (negb (o_compact o)); injection E as <- <-.
      * rewrite sigl_insert_at by apply sig_nl. congruence.
      * congruence.
    + injection E as <- <-. congruence.
  - (* Function *)
    unfold process_function in E. destruct l as [|fh lt]; [discriminate|].
    eapply process_default_sigl; [exact Hrec | exact E].
  - (* Values *)
    destruct (process_values o e pre l) as [l0|] eqn:E0; cbn [bind] in E; [|discriminate].
    injection E as <- <-. eapply process_values_sigl; exact E0.
Qed.

Theorem reindent_stmt_sig o s n s' n' : reindent_stmt o s n = Ok (s', n') -> sig n' = sig n.
Proof.
  unfold reindent_stmt.
  destruct (rprocess (S (depth n)) o (init_env o) false false [] (r_lf s) n) as [[lf1 n1]|] eqn:E;
    cbn [bind]; [|discriminate].
  apply rprocess_sig in E. intros H. injection H as _ <-.
  destruct (r_last s) as [lt|]; [|exact E].
  destruct n1 as [ty v | c v l]; [exact E|].
  rewrite sig_grp, sigl_cons. rewrite sig_ws_leaf. exact E.
Qed.

(* reindent_sigleaves: the whole statement pipeline of format(reindent=True) --
   group, StripWhitespaceFilter, ReindentFilter -- returns, for every statement, a tree with exactly
   the significant (non-whitespace-typed) leaves, types and values, of the grouped statement *)
Theorem reindent_sigleaves (grp : node -> res node) o : forall stmts s outs,
  run_stmts grp o s stmts = Ok outs ->
  exists gs, mapM grp stmts = Ok gs /\ Forall2 (fun g r => sig r = sig g) gs outs.
Proof.
  induction stmts as [|st rest IH]; intros s outs H; cbn [run_stmts] in H.
  - injection H as <-. exists []. split; [reflexivity|constructor].
  - destruct (grp st) as [g|] eqn:Eg; cbn [bind] in H; [|discriminate].
    destruct (stripws_stmt g) as [w|] eqn:Ew; cbn [bind] in H; [|discriminate].
    destruct (reindent_stmt o s w) as [[s1 r]|] eqn:Er; cbn [bind] in H; [|discriminate].
    destruct (run_stmts grp o s1 rest) as [out|] eqn:Eo; cbn [bind] in H; [|discriminate].
    injection H as <-. destruct (IH _ _ Eo) as [gs [Hg HF]].
    exists (g :: gs). split.
    + cbn [mapM]. rewrite Eg, Hg. reflexivity.
    + constructor; [|exact HF].
      rewrite (reindent_stmt_sig _ _ _ _ _ Er). apply stripws_stmt_sig; exact Ew.
Qed.
Print Assumptions reindent_sigleaves.

(* ================================================================================================
   Which exceptions can the reindent model raise?
   ================================================================================================ *)
(* the only edits ReindentFilter performs on a token list *)
Inductive wsedit : list node -> list node -> Prop :=
| we_refl l : wsedit l l
| we_ins l l' i v : wsedit l l' -> wsedit l (insert_at i (Leaf T_Whitespace v) l')
| we_del l l' i p : wsedit l l' -> nth_error l' i = Some p -> is_ws p = true -> wsedit l (remove_at i l').

Lemma wsedit_trans a b c : wsedit a b -> wsedit b c -> wsedit a c.
Proof.
  intros Hab Hbc. induction Hbc as [| l l' i v _ IH | l l' i p _ IH Hn Hp].
  - exact Hab.
  - apply we_ins. apply IH; exact Hab.
  - eapply we_del; [apply IH; exact Hab | exact Hn | exact Hp].
Qed.

Lemma insert_at_0 x (l : list node) : insert_at 0 x l = x :: l.
Proof. reflexivity. Qed.

Lemma insert_at_end x (l : list node) : insert_at (length l) x l = l ++ [x].
Proof. unfold insert_at. rewrite firstn_all, skipn_all. reflexivity. Qed.

Lemma we_cons l l' v : wsedit l l' -> wsedit l (Leaf T_Whitespace v :: l').
Proof. intros H. rewrite <- insert_at_0. apply we_ins; exact H. Qed.

Lemma we_snoc l l' v : wsedit l l' -> wsedit l (l' ++ [Leaf T_Whitespace v]).
Proof. intros H. rewrite <- insert_at_end. apply we_ins; exact H. Qed.

Lemma Forall_insert_at (P : node -> Prop) i x l : Forall P l -> P x -> Forall P (insert_at i x l).
Proof.
  intros Hl Hx. unfold insert_at. apply Forall_app. split; [apply Forall_firstn; exact Hl|].
  constructor; [exact Hx | apply Forall_skipn; exact Hl].
Qed.

Lemma Forall_remove_at (P : node -> Prop) : forall l i, Forall P l -> Forall P (remove_at i l).
Proof.
  induction l as [|y l IH]; intros i H; [destruct i; exact H|].
  inversion H as [|? ? Hy Hl]; subst. destruct i; cbn [remove_at]; [exact Hl|].
  constructor; [exact Hy | apply IH; exact Hl].
Qed.

Lemma wsedit_Forall (P : node -> Prop) l l' :
  (forall v, P (Leaf T_Whitespace v)) -> wsedit l l' -> Forall P l -> Forall P l'.
Proof.
  intros Hws H Hl. induction H as [| l l' i v _ IH | l l' i p _ IH Hn Hp].
  - exact Hl.
  - apply Forall_insert_at; [apply IH; exact Hl | apply Hws].
  - apply Forall_remove_at. apply IH; exact Hl.
Qed.

(* outcome: a value satisfying Q, or the model's own Stuck -- never a Python exception *)
Definition okish {A} (Q : A -> Prop) (m : res A) : Prop :=
  match m with Ok a => Q a | Err x => x = Stuck end.

Lemma okish_bind {A B} (Q : A -> Prop) (R : B -> Prop) (m : res A) (f : A -> res B) :
  okish Q m -> (forall a, Q a -> okish R (f a)) -> okish R (bind m f).
Proof. destruct m as [a|x]; cbn [okish bind]; intros H Hf; [apply Hf; exact H | exact H]. Qed.

Lemma okish_weaken {A} (Q R : A -> Prop) (m : res A) : (forall a, Q a -> R a) -> okish Q m -> okish R m.
Proof. destruct m; cbn [okish]; auto. Qed.

Lemma next_token_okish : forall fuel l start, okish (fun _ => True) (next_token fuel l start).
Proof.
  induction fuel as [|f IH]; intros l start; cbn [next_token]; [reflexivity|].
  destruct (find_from split_match start l) as [[tidx tok]|]; [|exact I].
  destruct (text_eqb (normalized tok) s_BETWEEN); [|exact I].
  eapply okish_bind; [apply IH|]. intros r _. destruct r as [[tidx2 tok2]|]; [|exact I].
  destruct (text_eqb (normalized tok2) s_AND); [apply IH | exact I].
Qed.

Lemma del_prev_ws_wsedit (l : list node) (tidx : nat) sw sc :
  wsedit l (fst (match token_prev sw sc tidx l with
                 | Some (pidx, p) => if is_ws p then (remove_at pidx l, (tidx - 1)%nat) else (l, tidx)
                 | None => (l, tidx)
                 end)).
Proof.
  destruct (token_prev sw sc tidx l) as [[pidx p]|] eqn:E; [|apply we_refl].
  destruct (is_ws p) eqn:Ep; [|apply we_refl]. cbn [fst].
  eapply we_del; [apply we_refl | eapply token_prev_nth; exact E | exact Ep].
Qed.

Lemma split_kwds_loop_okish v : forall fuel l cur,
  okish (wsedit l) (split_kwds_loop fuel (Leaf T_Whitespace v) l cur).
Proof.
  induction fuel as [|f IH]; intros l cur.
  - destruct cur as [[tidx tk]|]; cbn [split_kwds_loop okish]; [reflexivity | apply we_refl].
  - destruct cur as [[tidx tk]|]; cbn [split_kwds_loop]; [|apply we_refl].
    pose proof (del_prev_ws_wsedit l tidx false false) as Hd.
    destruct (match token_prev false false tidx l with
              | Some (pidx, p) => if is_ws p then (remove_at pidx l, (tidx - 1)%nat) else (l, tidx)
              | None => (l, tidx) end) as [l1 tidx1].
    cbn [fst] in Hd.
    destruct (if match token_prev false false tidx l with
                 | Some (_, p) => ends_nl (text_of p) | None => false end
              then (l1, tidx1) else (insert_at tidx1 (Leaf T_Whitespace v) l1, S tidx1)) as [l2 tidx2] eqn:E2.
    assert (H2 : wsedit l l2).
    { destruct (match token_prev false false tidx l with
                | Some (_, p) => ends_nl (text_of p) | None => false end);
        injection E2 as <- <-; [exact Hd | apply we_ins; exact Hd]. }
    eapply okish_bind; [apply next_token_okish|]. intros nx _.
    eapply okish_weaken; [|apply IH]. intros r Hr. eapply wsedit_trans; eauto.
Qed.

Lemma split_kwds_okish o e l : okish (wsedit l) (split_kwds o e l).
Proof.
  unfold split_kwds. eapply okish_bind; [apply next_token_okish|]. intros first _.
  apply split_kwds_loop_okish.
Qed.

Lemma split_statements_loop_okish v : forall fuel l cur,
  okish (wsedit l) (split_statements_loop fuel (Leaf T_Whitespace v) l cur).
Proof.
  induction fuel as [|f IH]; intros l cur.
  - destruct cur as [[tidx tk]|]; cbn [split_statements_loop okish]; [reflexivity | apply we_refl].
  - destruct cur as [[tidx tk]|]; cbn [split_statements_loop]; [|apply we_refl].
    pose proof (del_prev_ws_wsedit l tidx false false) as Hd.
    destruct (match token_prev false false tidx l with
              | Some (pidx, p) => if is_ws p then (remove_at pidx l, (tidx - 1)%nat) else (l, tidx)
              | None => (l, tidx) end) as [l1 tidx1].
    cbn [fst] in Hd.
    destruct (match token_prev false false tidx l with
              | Some _ => (insert_at tidx1 (Leaf T_Whitespace v) l1, S tidx1)
              | None => (l1, tidx1) end) as [l2 tidx2] eqn:E2.
    assert (H2 : wsedit l l2).
    { destruct (token_prev false false tidx l);
        injection E2 as <- <-; [apply we_ins; exact Hd | exact Hd]. }
    eapply okish_weaken; [|apply IH]. intros r Hr. eapply wsedit_trans; eauto.
Qed.

Lemma split_statements_okish o e l : okish (wsedit l) (split_statements o e l).
Proof. apply split_statements_loop_okish. Qed.

Lemma idl_wrap_a_okish o e : forall ids l ins position, okish (wsedit l) (idl_wrap_a o e l ins ids position).
Proof.
  induction ids as [|i0 ids IH]; intros l ins position; cbn [idl_wrap_a]; [apply we_refl|].
  destruct (nth_error l (cur_idx ins i0)) as [tok|]; [|reflexivity].
  destruct (position + vlen tok + 1 >? o_wrap o - e_off e)%Z; [|apply IH].
  destruct (o_comma_first o).
  - destruct (token_prev true false (cur_idx ins i0) l) as [[cidx c]|]; [|apply IH].
    assert (H1 : wsedit l (insert_at cidx (nl o e (-2)) l)) by (apply we_ins, we_refl).
    destruct (nth_error (insert_at cidx (nl o e (-2)) l) (S (S cidx))) as [ws|].
    + destruct (negb (tt_is ws T_Whitespace)).
      * destruct (token_next true false (S cidx) (insert_at cidx (nl o e (-2)) l)) as [[nidx nx]|].
        -- eapply okish_weaken; [|apply IH]. intros r Hr. eapply wsedit_trans; [|exact Hr].
           apply we_ins; exact H1.
        -- eapply okish_weaken; [|apply IH]. intros r Hr. eapply wsedit_trans; [|exact Hr].
           apply we_snoc; exact H1.
      * eapply okish_weaken; [|apply IH]. intros r Hr. eapply wsedit_trans; eauto.
    + eapply okish_weaken; [|apply IH]. intros r Hr. eapply wsedit_trans; eauto.
  - eapply okish_weaken; [|apply IH]. intros r Hr. eapply wsedit_trans; [|exact Hr]. apply we_ins, we_refl.
Qed.

Lemma idl_wrap_b_okish o e : forall ids l ins position, okish (wsedit l) (idl_wrap_b o e l ins ids position).
Proof.
  induction ids as [|i0 ids IH]; intros l ins position; cbn [idl_wrap_b]; [apply we_refl|].
  destruct (nth_error l (cur_idx ins i0)) as [tok|]; [|reflexivity].
  destruct ((o_wrap o >? 0)%Z && (position + vlen tok + 1 >? o_wrap o - e_off e)%Z); [|apply IH].
  eapply okish_weaken; [|apply IH]. intros r Hr. eapply wsedit_trans; [|exact Hr]. apply we_ins, we_refl.
Qed.

(* ---- the ',' loop ---------------------------------------------------------------------------- *)
Lemma nth_error_last (l : list node) : forall k tok d,
  nth_error l k = Some tok -> nth_error l (S k) = None -> last l d = tok.
Proof.
  induction l as [|x l IH]; intros k tok d Hk Hn; [destruct k; discriminate|].
  destruct k as [|k].
  - cbn in Hk. injection Hk as ->. destruct l; [reflexivity|discriminate].
  - cbn in Hk, Hn. destruct l as [|y l']; [destruct k; discriminate|].
    change (last (x :: y :: l') d) with (last (y :: l') d). eapply IH; eauto.
Qed.

Lemma last_app_ne (a b : list node) d : b <> [] -> last (a ++ b) d = last b d.
Proof.
  intros Hb. induction a as [|x a IH]; [reflexivity|].
  cbn [app]. destruct (a ++ b) eqn:E.
  - destruct a; [cbn in E; contradiction | discriminate].
  - rewrite <- E. cbn [last]. rewrite E in *. exact IH.
Qed.

Lemma last_skipn (l : list node) : forall i d, skipn i l <> [] -> last (skipn i l) d = last l d.
Proof.
  intros i d H. rewrite <- (firstn_skipn i l) at 2. symmetry. apply last_app_ne. exact H.
Qed.

Lemma last_insert_sp i (l : list node) :
  last (insert_at i sp l) sp = sp \/ last (insert_at i sp l) sp = last l sp.
Proof.
  unfold insert_at. rewrite last_app_ne by discriminate.
  destruct (skipn i l) as [|y r] eqn:E; [left; reflexivity|].
  right. change (last (sp :: y :: r) sp) with (last (y :: r) sp). rewrite <- E.
  apply last_skipn. rewrite E. discriminate.
Qed.

Lemma last_not_comma_insert_sp i l : last_not_comma l = true -> last_not_comma (insert_at i sp l) = true.
Proof.
  unfold last_not_comma. intros H. destruct (last_insert_sp i l) as [-> | ->]; [reflexivity | exact H].
Qed.

Lemma last_not_comma_snoc_sp l : last_not_comma (l ++ [sp]) = true.
Proof. unfold last_not_comma. rewrite last_app_ne by discriminate. reflexivity. Qed.

Lemma ensure_ws_okish : forall fuel k l ins, last_not_comma l = true ->
  okish (fun r => wsedit l (fst r)) (ensure_ws fuel k l ins).
Proof.
  induction fuel as [|f IH]; intros k l ins Hl; cbn [ensure_ws]; [reflexivity|].
  destruct (nth_error l k) as [tok|] eqn:Ek; [|apply we_refl].
  destruct (text_eqb (nvalue tok) s_comma) eqn:Ec; [|apply IH; exact Hl].
  destruct (nth_error l (S k)) as [nx|] eqn:En.
  - destruct (is_ws nx); [apply IH; exact Hl|].
    destruct (token_next true false k l) as [[nidx n2]|].
    + eapply okish_weaken; [|apply IH; apply last_not_comma_insert_sp; exact Hl].
      intros r Hr. eapply wsedit_trans; [|exact Hr]. apply we_ins, we_refl.
    + eapply okish_weaken; [|apply IH; apply last_not_comma_snoc_sp].
      intros r Hr. eapply wsedit_trans; [|exact Hr]. apply we_snoc, we_refl.
  - exfalso. unfold last_not_comma in Hl. rewrite (nth_error_last _ _ _ sp Ek En), Ec in Hl. discriminate.
Qed.

Lemma has_leaf_first_leaf n : has_leaf n = true -> exists x, first_leaf n = Ok x.
Proof. unfold has_leaf, first_leaf. destruct (flatten n) as [|x r]; [discriminate|]. eauto. Qed.

Lemma process_identifierlist_okish o e inFV pre lf l : idl_safe inFV l = true ->
  okish (wsedit l) (process_identifierlist o e inFV pre lf l).
Proof.
  unfold idl_safe, process_identifierlist. intros Hs.
  destruct (indices_where is_identifier_item l 0) as [|i rest]; [discriminate|].
  destruct (nth_error l i) as [tok|]; [|discriminate].
  apply andb_true_iff in Hs. destruct Hs as [Hleaf Hfv].
  destruct (has_leaf_first_leaf _ Hleaf) as [x ->]. cbn [bind].
  assert (Hgen : forall ids num_offset, (inFV = true -> ids <> [] \/ True) ->
            (inFV = true -> last_not_comma l = true) ->
            (inFV = true -> o_columns o = false -> ids = rest) ->
            (ids = [] -> inFV = true -> False) ->
            okish (wsedit l)
              (if negb inFV then idl_wrap_a o (with_off e num_offset) l [] ids 0
               else bind (ensure_ws (S (2 * length l)) 0 l [])
                      (fun '(l1, ins1) =>
                         let end_at := (e_off e + sum_vlen1 l ids)%Z in
                         let adjusted := match lf with
                                         | Some fv => if ((o_wrap o >? 0) && (end_at >? o_wrap o - e_off e))%Z
                                                      then (- Z.of_nat (length fv) - 1)%Z else 0%Z
                                         | None => 0%Z end in
                         let e' := with_ind (with_off e adjusted) 1 in
                         bind (if (adjusted <? 0)%Z
                               then match ids with
                                    | [] => Err IndexError
                                    | i0 :: _ => let i := cur_idx ins1 i0 in
                                                 Ok (insert_at i (nl o e' 0) l1, ins1 ++ [i])
                                    end
                               else Ok (l1, ins1))
                              (fun '(l2, ins2) => idl_wrap_b o e' l2 ins2 ids 0)))).
  { intros ids num_offset _ Hlast _ Hne. destruct inFV; cbn [negb]; [|apply idl_wrap_a_okish].
    eapply okish_bind; [apply ensure_ws_okish; apply Hlast; reflexivity|].
    intros [l1 ins1] H1. cbn [fst] in H1. cbv zeta.
    eapply okish_bind with (Q := fun r => wsedit l (fst r)).
    - match goal with |- okish _ (if ?c then _ else _) => destruct c end; [|exact H1].
      destruct ids as [|i0 ids']; [exfalso; apply Hne; reflexivity|]. cbn [okish fst].
      apply we_ins; exact H1.
    - intros [l2 ins2] H2. cbn [fst] in H2. eapply okish_weaken; [|apply idl_wrap_b_okish].
      intros r Hr. eapply wsedit_trans; eauto. }
  destruct (o_columns o); cbn [bind].
  - apply Hgen; auto.
    + intros Hf. rewrite Hf in Hfv. cbn in Hfv. apply andb_true_iff in Hfv. tauto.
    + discriminate.
    + discriminate.
  - apply Hgen; auto.
    + intros Hf. rewrite Hf in Hfv. cbn in Hfv. apply andb_true_iff in Hfv. tauto.
    + intros Hr Hf. rewrite Hf, Hr in Hfv. cbn in Hfv. discriminate.
Qed.

Lemma case_loop_okish o e l0 : forall cases l ins,
  forallb (fun cv : case_t => match fst cv with
                              | None => negb (is_nil (snd cv))
                              | Some cs => negb (is_nil cs) end) cases = true ->
  okish (wsedit l) (case_loop o e l0 cases l ins).
Proof.
  induction cases as [|[cond value] cases IH]; intros l ins Hs; cbn [case_loop]; [apply we_refl|].
  cbn [forallb fst snd] in Hs. apply andb_true_iff in Hs. destruct Hs as [Hc Hs].
  match goal with |- okish _ (if ?c then _ else _) => destruct c end; [|apply IH; exact Hs].
  destruct cond as [cs|].
  - destruct cs as [|i0 rest]; [discriminate|].
    eapply okish_weaken; [|apply IH; exact Hs]. intros r Hr. eapply wsedit_trans; [|exact Hr].
    apply we_ins, we_refl.
  - destruct value as [|i0 rest]; [discriminate|].
    eapply okish_weaken; [|apply IH; exact Hs]. intros r Hr. eapply wsedit_trans; [|exact Hr].
    apply we_ins, we_refl.
Qed.

Lemma offset_of_child_okish o e pre l i : Forall (fun k => has_leaf k = true) l ->
  okish (fun _ => True) (offset_of_child o e pre l i).
Proof.
  intros HF. unfold offset_of_child. destruct (nth_error l i) as [tok|] eqn:E; [|reflexivity].
  assert (Hl : has_leaf tok = true).
  { rewrite Forall_forall in HF. apply HF. eapply nth_error_In; exact E. }
  destruct (has_leaf_first_leaf _ Hl) as [x ->]. exact I.
Qed.

Lemma values_loop_okish o e pre first_idx : forall fuel l cur,
  Forall (fun k => has_leaf k = true) l ->
  okish (wsedit l) (values_loop fuel o e pre first_idx l cur).
Proof.
  induction fuel as [|f IH]; intros l cur HF.
  - destruct cur as [[tidx tk]|]; cbn [values_loop okish]; [reflexivity | apply we_refl].
  - destruct cur as [[tidx tk]|]; cbn [values_loop]; [|apply we_refl].
    eapply okish_bind with (Q := fun l' => wsedit l l' /\ Forall (fun k => has_leaf k = true) l').
    + destruct (next_by_from [] [(T_Punctuation, Some [s_comma])] TNone (S tidx) l) as [[ptidx pt]|];
        [|split; [apply we_refl | exact HF]].
      destruct (o_comma_first o).
      * eapply okish_bind; [apply offset_of_child_okish; exact HF|]. intros off _. cbn [okish].
        split; [apply we_ins, we_refl | apply Forall_insert_at; [exact HF | reflexivity]].
      * eapply okish_bind; [apply offset_of_child_okish; exact HF|]. intros off _.
        destruct (token_next true false ptidx l) as [[nidx nx]|]; cbn [okish].
        -- split; [apply we_ins, we_refl | apply Forall_insert_at; [exact HF | reflexivity]].
        -- split; [apply we_snoc, we_refl|]. apply Forall_app. split; [exact HF|].
           constructor; [reflexivity|constructor].
    + intros l' [Hw HF']. eapply okish_weaken; [|apply IH; exact HF'].
      intros r Hr. eapply wsedit_trans; eauto.
Qed.

Lemma process_values_okish o e pre l : forallb has_leaf l = true ->
  okish (wsedit l) (process_values o e pre l).
Proof.
  intros Hs. unfold process_values.
  assert (HF : Forall (fun k => has_leaf k = true) (nl o e 0 :: l)).
  { constructor; [reflexivity|]. apply Forall_forall. intros x Hx.
    rewrite forallb_forall in Hs. apply Hs; exact Hx. }
  destruct (find_from is_paren 0 (nl o e 0 :: l)) as [[tidx tok]|].
  - eapply okish_weaken; [|apply values_loop_okish; exact HF].
    intros r Hr. eapply wsedit_trans; [|exact Hr]. apply we_cons, we_refl.
  - cbn [okish]. apply we_cons, we_refl.
Qed.

(* ---- the walk -------------------------------------------------------------------------------- *)
Lemma process_kids_okish (rec : text -> option text -> node -> res (option text * node)) (P : node -> Prop) :
  (forall pre lf k, P k -> okish (fun _ => True) (rec pre lf k)) ->
  forall l pre lf done_rev, Forall P l ->
  okish (fun _ => True) (process_kids rec pre lf done_rev l).
Proof.
  intros Hrec. induction l as [|k l IH]; intros pre lf done_rev HF; cbn [process_kids]; [exact I|].
  inversion HF as [|? ? Hk Hl]; subst.
  destruct (is_group k); [|apply IH; exact Hl].
  eapply okish_bind; [apply Hrec; exact Hk|]. intros [lf1 k1] _. apply IH; exact Hl.
Qed.

Lemma find_from_aux_spec f : forall l base i x,
  find_from_aux f l base = Some (i, x) -> base <= i /\ nth_error l (i - base) = Some x /\ f x = true.
Proof.
  induction l as [|y l IH]; intros base i x H; cbn [find_from_aux] in H; [discriminate|].
  destruct (f y) eqn:Ey.
  - injection H as <- <-. rewrite Nat.sub_diag. auto.
  - apply IH in H. destruct H as [Hle [Hn Hf]]. split; [lia|]. split; [|exact Hf].
    replace (i - base) with (S (i - S base)) by lia. exact Hn.
Qed.

Lemma match_pat_leaf n p : match_pat n p = true -> has_leaf n = true.
Proof. destruct n; [reflexivity | discriminate]. Qed.

(* reindent_total_partial (tree level): on an rx_safe tree the walk returns normally, or the model
   gives up (Stuck: fuel); it never raises IndexError/StopIteration/TypeError/AttributeError/... *)
Theorem rprocess_total_partial : forall fuel o e inF inV pre lf n,
  rx_safe inF inV n = true -> okish (fun _ => True) (rprocess fuel o e inF inV pre lf n).
Proof.
  induction fuel as [|f IH]; intros o e inF inV pre lf n Hs; cbn [rprocess]; [reflexivity|].
  destruct n as [ty v | c v l]; [reflexivity|].
  cbn [rx_safe] in Hs. apply andb_true_iff in Hs. destruct Hs as [Hloc Hkids].
  set (inF' := inF || cls_eqb c CFunction) in *. set (inV' := inV || cls_eqb c CValues) in *.
  set (rec := (fun e' a b pre' lf'0 k => rprocess f o e' (a || cls_eqb c CFunction) (b || cls_eqb c CValues) pre' lf'0 k) : rec_t).
  assert (HF : Forall (fun k => rx_safe inF' inV' k = true) l).
  { apply Forall_forall. intros x Hx. rewrite forallb_forall in Hkids. apply Hkids; exact Hx. }
  (* the recursive call, as seen from process_default (which passes inF inV unchanged) *)
  assert (Hrec : forall e1 p1 lf1 k, rx_safe inF' inV' k = true ->
                 okish (fun _ => True) (rec e1 inF inV p1 lf1 k)).
  { intros e1 p1 lf1 k Hk. apply IH; exact Hk. }
  assert (Hdef : forall e1 lf1 stmts l1, wsedit l l1 ->
            okish (fun _ => True) (process_default rec o e1 inF inV pre lf1 stmts l1)).
  { intros e1 lf1 stmts l1 Hw. unfold process_default.
    eapply okish_bind with (Q := wsedit l1).
    - destruct stmts; [apply split_statements_okish | apply we_refl].
    - intros l2 H2. eapply okish_bind; [apply split_kwds_okish|]. intros l3 H3.
      eapply process_kids_okish with (P := fun k => rx_safe inF' inV' k = true).
      + intros p1 lf2 k Hk. apply Hrec; exact Hk.
      + eapply wsedit_Forall; [| eapply wsedit_trans; [exact Hw | eapply wsedit_trans; eauto] | exact HF].
        reflexivity. }
  eapply okish_bind with (Q := fun _ => True); [|intros [lf1 l1] _; exact I].
  destruct c; try (apply Hdef; apply we_refl).
  - (* IdentifierList *)
    eapply okish_bind; [apply process_identifierlist_okish; exact Hloc|].
    intros l1 H1. apply Hdef; exact H1.
  - (* Parenthesis *)
    unfold process_parenthesis.
    destruct (next_by_from [] (m_open CParenthesis) TNone 0 l) as [[fidx ft]|] eqn:Ef; [|exact I].
    unfold next_by_from, find_from in Ef. cbn [skipn] in Ef. apply find_from_aux_spec in Ef.
    destruct Ef as [_ [Hn Hm]]. rewrite Nat.sub_0_r in Hn.
    assert (Hleaf : has_leaf ft = true).
    { unfold imt in Hm. cbn [inst_any existsb tmatch m_open] in Hm.
      rewrite !orb_false_r in Hm. cbn [orb] in Hm. eapply match_pat_leaf; exact Hm. }
    destruct (has_leaf_first_leaf _ Hleaf) as [x Hx].
    eapply okish_bind with (Q := fun _ => True).
    + unfold offset_of_child.
      destruct (match find_from is_dml_ddl 0 l with Some _ => true | None => false end).
      * cbn [nth_error]. rewrite Hn, Hx. exact I.
      * rewrite Hn, Hx. exact I.
    + intros off _. apply Hdef.
      destruct (match find_from is_dml_ddl 0 l with Some _ => true | None => false end);
        [apply we_cons, we_refl | apply we_refl].
  - (* Where *)
    unfold process_where.
    destruct (next_by_from [] [(T_Keyword, Some [s_WHERE])] TNone 0 l) as [[tidx tk]|]; [|exact I].
    apply Hdef. apply we_ins, we_refl.
  - (* Case *)
    unfold process_case. unfold local_safe, case_safe in Hloc.
    destruct (get_cases l) as [|[cond vs] rest]; [discriminate|].
    destruct cond as [[|c0 cs]|]; try discriminate.
    destruct (nth_error l c0) as [ctok|] eqn:Ec; [|discriminate].
    destruct (nth_error l 0) as [t0|] eqn:E0; [|rewrite andb_false_r in Hloc; discriminate].
    apply andb_true_iff in Hloc. destruct Hloc as [Hloc Hrest].
    apply andb_true_iff in Hloc. destruct Hloc as [Hc Ht0].
    destruct (has_leaf_first_leaf _ Hc) as [x Hx]. destruct (has_leaf_first_leaf _ Ht0) as [x0 Hx0].
    rewrite Hx. cbn [bind]. unfold offset_of_child. rewrite E0, Hx0. cbn [bind]. rewrite Ec, Hx. cbn [bind].
    eapply okish_bind; [apply case_loop_okish; exact Hrest|]. intros l1 H1.
    eapply okish_bind; [apply Hdef; exact H1|]. intros [lf2 l2] _.
    destruct (next_by_from [] (m_close CCase) TNone 0 l2) as [[end_idx et]|]; [|exact I].
    destruct (negb (o_compact o)); exact I.
  - (* Function *)
    unfold process_function. destruct l as [|fh lt]; [discriminate|]. apply Hdef, we_refl.
  - (* Values *)
    eapply okish_bind; [apply process_values_okish; exact Hloc|]. intros l1 _. exact I.
Qed.
Print Assumptions rprocess_total_partial.
