(* A decidable, option-independent condition on (grouped, whitespace-stripped) trees under which the
   reindent model raises no Python exception.  Definitions only. *)
From SqlModel Require Import Base PyStr Node Passes.
From SqlModel.Filters Require Import RxStripWs RxSerial Reindent.

(* next(token.flatten()) succeeds *)
Definition has_leaf (n : node) : bool := match flatten n with [] => false | _ :: _ => true end.

Definition is_nil {A} (l : list A) : bool := match l with [] => true | _ => false end.

(* the last child does not have the value ',' *)
Definition last_not_comma (l : list node) : bool := negb (text_eqb (nvalue (last l sp)) s_comma).

(* IdentifierList: there is a first identifier with a first leaf; inside a Function/Values there are
   at least two identifiers and the list does not end in a ',' *)
Definition idl_safe (inFV : bool) (l : list node) : bool :=
  match indices_where is_identifier_item l 0 with
  | [] => false
  | i :: rest =>
      match nth_error l i with Some tok => has_leaf tok | None => false end
      && (negb inFV || (negb (is_nil rest) && last_not_comma l))
  end.

(* Case: get_cases() starts with a WHEN-less or WHEN case whose first token has a first leaf, the
   first child has a first leaf, and no later case is empty *)
Definition case_safe (l : list node) : bool :=
  match get_cases l with
  | (Some (c0 :: _), _) :: rest =>
      match nth_error l c0 with Some t => has_leaf t | None => false end
      && match nth_error l 0 with Some t => has_leaf t | None => false end
      && forallb (fun cv : case_t => match fst cv with
                                     | None => negb (is_nil (snd cv))
                                     | Some cs => negb (is_nil cs)
                                     end) rest
  | _ => false
  end.

Definition local_safe (c : cls) (inFV : bool) (l : list node) : bool :=
  match c with
  | CFunction => negb (is_nil l)
  | CIdentifierList => idl_safe inFV l
  | CCase => case_safe l
  | CValues => forallb has_leaf l
  | _ => true
  end.

Fixpoint rx_safe (inF inV : bool) (n : node) : bool :=
  match n with
  | Leaf _ _ => true
  | Grp c _ l =>
      local_safe c (inF || inV) l
      && forallb (rx_safe (inF || cls_eqb c CFunction) (inV || cls_eqb c CValues)) l
  end.
