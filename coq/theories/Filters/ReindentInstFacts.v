(* Instance-level facts: the reindent pipeline over the current tables (witnesses and examples). *)
From SqlModel Require Import Base PyStr Node Inv Passes.
From SqlModel.Inst Require Import Cur.
From SqlModel.Filters Require Import RxStripWs RxSerial Reindent ReindentSafe ReindentInst ReindentFacts.
From Coq Require Import ZArith.

Definition dflt_opts : ropts :=
  {| o_width := 2; o_tab := false; o_wrap := 0; o_comma_first := false; o_after_first := false;
     o_columns := false; o_compact := false |}.

(* "(as)" *)
Definition t_paren_as : text := [40; 97; 115; 41]%N.
(* "(::)" *)
Definition t_paren_cast : text := [40; 58; 58; 41]%N.

(* Until the fix of finding C07-RX-1 these were the refutation of totality (reindent_total_refuted):
   format('(as)', reindent=True) raised IndexError in StripWhitespaceFilter._stripws_parenthesis (group_as has wrapped
   '(', 'as', ')' into one Identifier, so the Parenthesis has a single child and tokens[1] does not exist).  With the
   guard `if len(tlist.tokens) < 2` the filter returns; the real library agrees. *)
Theorem reindent_paren_as_fixed :
  cur_reindent dflt_opts t_paren_as = Ok t_paren_as /\
  cur_reindent dflt_opts t_paren_cast = Ok t_paren_cast.
Proof. split; vm_compute; reflexivity. Qed.
Print Assumptions reindent_paren_as_fixed.

(* the tree that used to crash: Statement(Parenthesis(Identifier('(' 'as' ')'))) *)
Example paren_as_tree :
  cur_parse t_paren_as =
  Ok [Grp CStatement t_paren_as
        [Grp CParenthesis t_paren_as
           [Grp CIdentifier t_paren_as
              [Leaf T_Punctuation [40%N]; Leaf T_Keyword [97; 115]%N; Leaf T_Punctuation [41%N]]]]].
Proof. vm_compute. reflexivity. Qed.

(* "select f(a,b), case when a then b else c end from t where x between 1 and 2 and y;select 2" *)
Definition t_example : text :=
  [115;101;108;101;99;116;32;102;40;97;44;98;41;44;32;99;97;115;101;32;119;104;101;110;32;97;32;116;104;101;110;32;98;32;
   101;108;115;101;32;99;32;101;110;100;32;102;114;111;109;32;116;32;119;104;101;114;101;32;120;32;98;101;116;119;101;101;110;
   32;49;32;97;110;100;32;50;32;97;110;100;32;121;59;115;101;108;101;99;116;32;50]%N.

(* the hypotheses of rprocess_total_partial / reindent_sigleaves hold on a non-trivial input:
   both statements are rx_safe after grouping and whitespace stripping, and the pipeline returns *)
Example reindent_example :
  cur_rxsafe t_example = Ok [true; true] /\
  exists out, cur_reindent dflt_opts t_example = Ok out /\
  out = [115;101;108;101;99;116;32;102;40;97;44;32;98;41;44;10;
         32;32;32;32;32;32;32;99;97;115;101;10;
         32;32;32;32;32;32;32;32;32;32;32;119;104;101;110;32;97;32;116;104;101;110;32;98;10;
         32;32;32;32;32;32;32;32;32;32;32;101;108;115;101;32;99;10;
         32;32;32;32;32;32;32;101;110;100;10;
         102;114;111;109;32;116;10;
         119;104;101;114;101;32;120;32;98;101;116;119;101;101;110;32;49;32;97;110;100;32;50;10;
         32;32;97;110;100;32;121;59;10;10;
         115;101;108;101;99;116;32;50]%N.
Proof. split; [vm_compute; reflexivity|]. eexists. split; vm_compute; reflexivity. Qed.
