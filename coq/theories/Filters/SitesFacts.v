(* C06, layer 1: any run of allowed edits preserves the sequence of non-whitespace leaves.
   PROOFS for Filters/Sites.v.  See the META-ARGUMENT in Sites.v for what links these theorems
   to the Python filters (trusted: translator classification + run-time instrumentation). *)
From Coq Require Import String Relations.
From SqlModel Require Import Base PyStr Node Inv Sites.
From SqlModel.Gen Require Import CaseTabs.

(* ---- sigleaves over lists ------------------------------------------------------------------ *)
Lemma sigleaves_list_app a b : sigleaves_list (a ++ b) = sigleaves_list a ++ sigleaves_list b.
Proof. apply flat_map_app. Qed.

Lemma sigleaves_list_cons k l : sigleaves_list (k :: l) = sigleaves k ++ sigleaves_list l.
Proof. reflexivity. Qed.

Lemma sigleaves_grp c v kids : sigleaves (Grp c v kids) = sigleaves_list kids.
Proof. reflexivity. Qed.

Lemma sigleaves_ws_leaf ty v : ws_ty ty = true -> sigleaves (Leaf ty v) = [].
Proof. intros H. cbn [sigleaves]. rewrite H. reflexivity. Qed.

Lemma sigleaves_sig_leaf ty v : ws_ty ty = false -> sigleaves (Leaf ty v) = [(ty, v)].
Proof. intros H. cbn [sigleaves]. rewrite H. reflexivity. Qed.

(* sigleaves is the filter of the leaves *)
Lemma sigleaves_filter n :
  sigleaves n = filter (fun t => negb (ws_ty (fst t))) (leaves n).
Proof.
  induction n as [ty v | c v kids IH] using node_ind'.
  - cbn [sigleaves leaves filter fst]. destruct (ws_ty ty); reflexivity.
  - change (flat_map sigleaves kids =
            filter (fun t => negb (ws_ty (fst t))) (flat_map leaves kids)).
    induction IH as [|k kids Hk _ IHk]; [reflexivity|].
    cbn [flat_map]. rewrite filter_app, Hk, IHk. reflexivity.
Qed.

(* ---- per-edit lemma -------------------------------------------------------------------------- *)
Lemma edit_sigleaves l l' : edit l l' -> sigleaves_list l' = sigleaves_list l.
Proof.
  intros E. destruct E as [l1 l2 ty v Hty Hv | l1 l2 ty v Hty | l1 l2 ty v v' Hty
                          | l1 mid l2 c cached | l1 mid l2 c cached].
  - rewrite !sigleaves_list_app, sigleaves_list_cons, (sigleaves_ws_leaf _ _ Hty). reflexivity.
  - rewrite !sigleaves_list_app, sigleaves_list_cons, (sigleaves_ws_leaf _ _ Hty). reflexivity.
  - rewrite !sigleaves_list_app, !sigleaves_list_cons,
      (sigleaves_ws_leaf _ v Hty), (sigleaves_ws_leaf _ v' Hty). reflexivity.
  - rewrite !sigleaves_list_app, sigleaves_list_cons, sigleaves_grp. reflexivity.
  - rewrite !sigleaves_list_app, sigleaves_list_cons, sigleaves_grp. reflexivity.
Qed.

(* ---- per-step lemma (induction over the derivation: the step may be arbitrarily deep) ------- *)
Lemma site_step_sigleaves t t' : site_step t t' -> sigleaves t' = sigleaves t.
Proof.
  intros S. induction S as [c v c' v' kids kids' E | c v c' v' kids | c v l1 k k' l2 S IH].
  - rewrite !sigleaves_grp. apply edit_sigleaves; exact E.
  - reflexivity.
  - rewrite !sigleaves_grp, !sigleaves_list_app, !sigleaves_list_cons, IH. reflexivity.
Qed.

(* ---- the main theorem: unbounded runs ------------------------------------------------------- *)
Theorem C06_leaves_preserved t t' : any_run t t' -> sigleaves t' = sigleaves t.
Proof.
  intros R. induction R as [t u S | t | t u w _ IH1 _ IH2].
  - apply site_step_sigleaves; exact S.
  - reflexivity.
  - rewrite IH2. exact IH1.
Qed.
Print Assumptions C06_leaves_preserved.

Corollary C06_sigtext_preserved t t' : any_run t t' -> sigtext t' = sigtext t.
Proof. intros R. unfold sigtext. rewrite (C06_leaves_preserved _ _ R). reflexivity. Qed.

Corollary C06_nsig_preserved t t' : any_run t t' -> nsig t' = nsig t.
Proof. intros R. unfold nsig. rewrite (C06_leaves_preserved _ _ R). reflexivity. Qed.

(* a script: the statements are processed one after the other, each by its own run *)
Theorem C06_leaves_preserved_list l l' :
  any_run_list l l' -> sigleaves_list l' = sigleaves_list l.
Proof.
  intros R. induction R as [|t t' l l' Rt _ IH]; [reflexivity|].
  rewrite !sigleaves_list_cons, IH, (C06_leaves_preserved _ _ Rt). reflexivity.
Qed.
Print Assumptions C06_leaves_preserved_list.

(* nothing dropped, added, reordered among the leaves themselves: the leaf sequence of the result
   is the leaf sequence of the input up to whitespace-typed leaves *)
Corollary C06_leaves_filter t t' :
  any_run t t' ->
  filter (fun x => negb (ws_ty (fst x))) (leaves t') =
  filter (fun x => negb (ws_ty (fst x))) (leaves t).
Proof. intros R. rewrite <- !sigleaves_filter. apply C06_leaves_preserved; exact R. Qed.

(* ---- runs compose and lift into contexts (for anyone who later models a concrete filter) --- *)
Lemma any_run_step t u : site_step t u -> any_run t u.
Proof. intros S. apply rt_step; exact S. Qed.

Lemma any_run_trans t u w : any_run t u -> any_run u w -> any_run t w.
Proof. intros A B. eapply rt_trans; eauto. Qed.

Lemma any_run_in_ctx c v l1 l2 k k' :
  any_run k k' -> any_run (Grp c v (l1 ++ k :: l2)) (Grp c v (l1 ++ k' :: l2)).
Proof.
  intros R. induction R as [t u S | t | t u w _ IH1 _ IH2].
  - apply rt_step. apply S_in; exact S.
  - apply rt_refl.
  - eapply rt_trans; eauto.
Qed.

Lemma any_run_edit c v kids kids' : edit kids kids' -> any_run (Grp c v kids) (Grp c v kids').
Proof. intros E. apply rt_step. apply S_edit; exact E. Qed.

(* edits by position, the form in which TokenList.insert_before / `del tokens[i]` / `.value =`
   apply them (insert_at / remove_at / set_nth of Tree/Node.v) *)
Lemma firstn_skipn_nth (i : nat) (l : list node) x :
  nth_error l i = Some x -> l = firstn i l ++ x :: skipn (S i) l.
Proof.
  revert l. induction i as [|i IH]; intros [|y l] H; cbn in H; try discriminate.
  - injection H as ->. reflexivity.
  - cbn [firstn skipn app]. f_equal. apply IH; exact H.
Qed.

Lemma remove_at_split (i : nat) (l : list node) x :
  nth_error l i = Some x -> remove_at i l = firstn i l ++ skipn (S i) l.
Proof.
  revert l. induction i as [|i IH]; intros [|y l] H; cbn in H; try discriminate.
  - reflexivity.
  - cbn [remove_at firstn skipn app]. f_equal. apply IH; exact H.
Qed.

Lemma set_nth_split (i : nat) (l : list node) x y :
  nth_error l i = Some x -> set_nth i y l = firstn i l ++ y :: skipn (S i) l.
Proof.
  revert l. induction i as [|i IH]; intros [|z l] H; cbn in H; try discriminate.
  - reflexivity.
  - cbn [set_nth firstn skipn app]. f_equal. apply IH; exact H.
Qed.

Lemma edit_insert_at i ty v l :
  ws_ty ty = true -> ws_text v = true -> edit l (insert_at i (Leaf ty v) l).
Proof.
  intros Hty Hv. unfold insert_at.
  rewrite <- (firstn_skipn i l) at 1. apply E_ins; assumption.
Qed.

Lemma edit_remove_at i ty v l :
  nth_error l i = Some (Leaf ty v) -> ws_ty ty = true -> edit l (remove_at i l).
Proof.
  intros Hn Hty. rewrite (remove_at_split _ _ _ Hn).
  rewrite (firstn_skipn_nth _ _ _ Hn) at 1. apply E_del; exact Hty.
Qed.

Lemma edit_set_value i ty v v' l :
  nth_error l i = Some (Leaf ty v) -> ws_ty ty = true -> edit l (set_nth i (Leaf ty v') l).
Proof.
  intros Hn Hty. rewrite (set_nth_split _ _ _ (Leaf ty v') Hn).
  rewrite (firstn_skipn_nth _ _ _ Hn) at 1. apply E_set; exact Hty.
Qed.

Lemma skipn_add (a b : nat) (l : list node) : skipn a (skipn b l) = skipn (b + a) l.
Proof.
  revert l. induction b as [|b IH]; intros l; [reflexivity|].
  destruct l as [|x l]; [destruct a; reflexivity|]. cbn [skipn Nat.add]. apply IH.
Qed.

(* group_tokens of Tree/Node.v (the non-extending case) is a GroupTokens edit *)
Lemma edit_group_slice c start stop l :
  start <= stop -> stop <= length l ->
  edit l (firstn start l ++ mk_grp c (firstn (stop - start) (skipn start l)) :: skipn stop l).
Proof.
  intros H1 H2.
  assert (E : l = firstn start l ++ firstn (stop - start) (skipn start l) ++ skipn stop l).
  { rewrite <- (firstn_skipn start l) at 1. f_equal.
    rewrite <- (firstn_skipn (stop - start) (skipn start l)) at 1. f_equal.
    rewrite skipn_add. f_equal. lia. }
  rewrite E at 1. unfold mk_grp. apply E_group.
Qed.

(* ---- the hypotheses are satisfiable / the relation is not vacuous --------------------------- *)
Definition ex_tree : node :=
  Grp CStatement []
    [Leaf T_DML [115;101;108;101;99;116]%N; Leaf T_Whitespace [32;32]%N;
     Grp CIdentifier [] [Leaf T_Name [97]%N];
     Leaf T_Newline [10]%N; Leaf T_Keyword [102;114;111;109]%N; Leaf T_Whitespace [32]%N;
     Leaf T_Name [116]%N].

(* strip the double blank to one blank, delete the newline and put "\n  " before FROM,
   and insert a blank inside the identifier group *)
Definition ex_tree' : node :=
  Grp CStatement []
    [Leaf T_DML [115;101;108;101;99;116]%N; Leaf T_Whitespace [32]%N;
     Grp CIdentifier [] [Leaf T_Name [97]%N; Leaf T_Whitespace [32]%N];
     Leaf T_Whitespace [10;32;32]%N; Leaf T_Keyword [102;114;111;109]%N; Leaf T_Whitespace [32]%N;
     Leaf T_Name [116]%N].

Example ex_run : any_run ex_tree ex_tree'.
Proof.
  unfold ex_tree, ex_tree'.
  eapply any_run_trans.
  { apply any_run_edit.
    apply (edit_set_value 1 T_Whitespace [32;32]%N [32]%N); reflexivity. }
  cbn [set_nth].
  eapply any_run_trans.
  { apply any_run_edit. apply (edit_remove_at 3 T_Newline [10]%N); reflexivity. }
  cbn [remove_at].
  eapply any_run_trans.
  { apply any_run_edit. apply (edit_insert_at 3 T_Whitespace [10;32;32]%N); reflexivity. }
  unfold insert_at. cbn [firstn skipn app].
  apply (any_run_in_ctx CStatement []
           [Leaf T_DML [115;101;108;101;99;116]%N; Leaf T_Whitespace [32]%N]).
  apply any_run_edit.
  apply (edit_insert_at 1 T_Whitespace [32]%N [Leaf T_Name [97]%N]); reflexivity.
Qed.

Example ex_sig : sigleaves ex_tree' = sigleaves ex_tree.
Proof. apply C06_leaves_preserved. exact ex_run. Qed.

Example ex_sig_value :
  sigleaves ex_tree =
  [(T_DML, [115;101;108;101;99;116]%N); (T_Name, [97]%N); (T_Keyword, [102;114;111;109]%N);
   (T_Name, [116]%N)].
Proof. vm_compute. reflexivity. Qed.

(* the theorem has teeth: dropping, adding, retyping or changing a significant leaf is not a run *)
Example ex_not_run_drop :
  ~ any_run ex_tree (Grp CStatement [] [Leaf T_DML [115;101;108;101;99;116]%N]).
Proof. intros R. apply C06_leaves_preserved in R. vm_compute in R. discriminate R. Qed.

Example ex_not_run_change :
  ~ any_run (Grp CStatement [] [Leaf T_Name [97]%N]) (Grp CStatement [] [Leaf T_Name [98]%N]).
Proof. intros R. apply C06_leaves_preserved in R. vm_compute in R. discriminate R. Qed.

(* LIMIT of layer 1 (why the text-level property needs more): deleting the only whitespace
   between two words IS a run - the leaves are preserved but the texts would fuse on re-lexing *)
Example ex_fuse_is_a_run :
  any_run (Grp CStatement [] [Leaf T_Name [97]%N; Leaf T_Whitespace [32]%N; Leaf T_Name [98]%N])
          (Grp CStatement [] [Leaf T_Name [97]%N; Leaf T_Name [98]%N]).
Proof. apply any_run_edit. apply (edit_remove_at 1 T_Whitespace [32]%N); reflexivity. Qed.
