(* Facts about the aligned-indent model (Filters/Aligned.v): the significant leaves are preserved;
   the exact set of trees on which AlignedIndentFilter raises (and what it raises). *)
From SqlModel Require Import Base PyStr Re Node Inv Passes.
From SqlModel.Gen Require Import CaseTabs.
From SqlModel.Filters Require Import RxStripWs RxSerial Reindent ReindentSafe ReindentSpec ReindentFacts
     ReindentOwnLine ReindentFuel Aligned AlignedSpec AlignedSplit.
From Coq Require Import ZArith Lia.

(* ================================================================================================
   significant leaves (ReindentSpec.sig: the leaves whose type is not in Token.Text.Whitespace)
   ================================================================================================ *)
Lemma sig_anl e x : sig (anl e x) = [].
Proof. reflexivity. Qed.

Lemma asplit_kwds_sigl e l r : asplit_kwds e l = Ok r -> sigl r = sigl l.
Proof. rewrite asplit_kwds_spec. intros H. injection H as <-. apply asplit_spec_sigl. Qed.

Lemma aprocess_kids_sigl (rec : aenv -> node -> res node) :
  (forall e k k', rec e k = Ok k' -> sig k' = sig k) ->
  forall e all l idx r, aprocess_kids rec e all idx l = Ok r -> sigl r = sigl l.
Proof.
  intros Hrec e all. induction l as [|k l IH]; intros idx r H; cbn [aprocess_kids] in H.
  - injection H as <-. reflexivity.
  - destruct (is_group k).
    + destruct (rec _ k) as [k'|] eqn:Ek; cbn [bind] in H; [|discriminate].
      destruct (aprocess_kids rec e all (S idx) l) as [r0|] eqn:Er; cbn [bind] in H; [|discriminate].
      injection H as <-. rewrite !sigl_cons, (Hrec _ _ _ Ek), (IH _ _ Er). reflexivity.
    + cbn [bind] in H.
      destruct (aprocess_kids rec e all (S idx) l) as [r0|] eqn:Er; cbn [bind] in H; [|discriminate].
      injection H as <-. rewrite !sigl_cons, (IH _ _ Er). reflexivity.
Qed.

Lemma aprocess_default_sigl (rec : aenv -> node -> res node) :
  (forall e k k', rec e k = Ok k' -> sig k' = sig k) ->
  forall e l r, aprocess_default rec e l = Ok r -> sigl r = sigl l.
Proof.
  intros Hrec e l r H. unfold aprocess_default in H.
  destruct (asplit_kwds e l) as [l1|] eqn:E1; cbn [bind] in H; [|discriminate].
  rewrite (aprocess_kids_sigl rec Hrec _ _ _ _ _ H). eapply asplit_kwds_sigl; exact E1.
Qed.

Lemma aidl_insert_sigl nlv : sig nlv = [] -> forall l seen, sigl (aidl_insert nlv seen l) = sigl l.
Proof.
  intros Hn. induction l as [|x l IH]; intros seen; [reflexivity|]. cbn [aidl_insert].
  destruct (is_identifier_item x).
  - destruct seen.
    + rewrite sigl_cons, Hn. cbn [app]. rewrite !sigl_cons, IH. reflexivity.
    + rewrite !sigl_cons, IH. reflexivity.
  - rewrite !sigl_cons, IH. reflexivity.
Qed.

Lemma acase_loop_sigl e l0 maxw : forall cases first l ins l' ins',
  acase_loop e l0 maxw first cases l ins = Ok (l', ins') -> sigl l' = sigl l.
Proof.
  induction cases as [|[cond value] cases IH]; intros first l ins l' ins' H; cbn [acase_loop] in H.
  - injection H as <- _. reflexivity.
  - destruct (match cond with Some (c :: _) => Some c | _ => hd_error value end) as [s0|]; [|discriminate].
    destruct (if first then (l, ins) else _) as [l1 ins1] eqn:E1.
    assert (H1 : sigl l1 = sigl l).
    { destruct first; injection E1 as <- _; [reflexivity | apply sigl_insert_at; reflexivity]. }
    destruct (match cond with Some (c :: cs) => _ | _ => (l1, ins1) end) as [l2 ins2] eqn:E2.
    assert (H2 : sigl l2 = sigl l1).
    { destruct cond as [[|c cs]|]; try (injection E2 as <- _; reflexivity).
      destruct (token_next true false (cur_idx ins1 (last cs c)) l1) as [[nidx nx]|];
        injection E2 as <- _; [apply sigl_insert_at; reflexivity | apply sigl_snoc; reflexivity]. }
    rewrite (IH _ _ _ _ _ H), H2, H1. reflexivity.
Qed.

Lemma aprocess_case_sigl e l r : aprocess_case e l = Ok r -> sigl r = sigl l.
Proof.
  unfold aprocess_case. intros H.
  destruct (acase_loop e l _ true (aget_cases l) l []) as [[l1 ins1]|] eqn:E; cbn [bind] in H; [|discriminate].
  apply acase_loop_sigl in E.
  destruct (aget_cases l) as [|c0 cs]; [injection H as <-; exact E|].
  destruct (next_by_from [] [(T_Keyword, Some [s_END])] TNone 0 l) as [[eidx et]|]; [|injection H as <-; exact E].
  injection H as <-. rewrite sigl_insert_at; [exact E | reflexivity].
Qed.

Theorem aprocess_sig : forall fuel e n n', aprocess fuel e n = Ok n' -> sig n' = sig n.
Proof.
  induction fuel as [|f IH]; intros e n n' H; cbn [aprocess] in H; [discriminate|].
  destruct n as [ty v | c v l]; [discriminate|].
  assert (Hrec : forall e0 k k', aprocess f e0 k = Ok k' -> sig k' = sig k) by (intros; eapply IH; eauto).
  assert (Hdef : forall e0 l0 r, aprocess_default (aprocess f) e0 l0 = Ok r -> sigl r = sigl l0)
    by (apply aprocess_default_sigl; exact Hrec).
  match type of H with bind ?m _ = _ => destruct m as [l'|] eqn:E end; cbn [bind] in H; [|discriminate].
  injection H as <-. rewrite !sig_grp.
  destruct c; try (apply Hdef in E; exact E).
  - (* Statement *)
    unfold aprocess_statement in E. apply Hdef in E. rewrite E.
    destruct l as [|x l0]; [reflexivity|].
    destruct (is_ws x) eqn:Ew; cbn [andb]; [|reflexivity].
    destruct (a_ind e =? 0)%Z; [|reflexivity].
    rewrite sigl_cons, (is_ws_sig _ Ew). reflexivity.
  - (* IdentifierList *)
    destruct (aidl_pre e l) as [l1|] eqn:E1; cbn [bind] in E; [|discriminate].
    apply Hdef in E. rewrite E. unfold aidl_pre in E1.
    destruct (existsb is_identifier_item l); [|discriminate]. injection E1 as <-.
    apply aidl_insert_sigl. reflexivity.
  - (* Parenthesis *)
    unfold aprocess_parenthesis in E.
    destruct (next_by_from [] [(T_DML, Some [s_SELECT])] TNone 0 l) as [p|]; [|injection E as <-; reflexivity].
    match type of E with bind ?m _ = _ => destruct m as [l2|] eqn:E2 end; cbn [bind] in E; [|discriminate].
    injection E as <-. apply Hdef in E2. rewrite sigl_insert_at by reflexivity. rewrite E2.
    destruct (token_next true false 0 l) as [[nidx nx]|];
      [apply sigl_insert_at; reflexivity | apply sigl_snoc; reflexivity].
  - (* Case *)
    apply aprocess_case_sigl in E. exact E.
Qed.

Theorem aligned_stmt_sig n n' : aligned_stmt n = Ok n' -> sig n' = sig n.
Proof. apply aprocess_sig. Qed.

(* aligned_sigleaves: the whole statement pipeline of format(reindent_aligned=True) -- group,
   StripWhitespaceFilter, AlignedIndentFilter -- returns, for every statement, a tree with exactly
   the significant (non-whitespace-typed) leaves, types and values and order, of the grouped
   statement *)
Theorem aligned_sigleaves (grp : node -> res node) : forall stmts outs,
  arun_stmts grp stmts = Ok outs ->
  exists gs, mapM grp stmts = Ok gs /\ Forall2 (fun g r => sig r = sig g) gs outs.
Proof.
  induction stmts as [|st rest IH]; intros outs H; cbn [arun_stmts] in H.
  - injection H as <-. exists []. split; [reflexivity|constructor].
  - destruct (grp st) as [g|] eqn:Eg; cbn [bind] in H; [|discriminate].
    destruct (stripws_stmt g) as [w|] eqn:Ew; cbn [bind] in H; [|discriminate].
    destruct (aligned_stmt w) as [r|] eqn:Er; cbn [bind] in H; [|discriminate].
    destruct (arun_stmts grp rest) as [out|] eqn:Eo; cbn [bind] in H; [|discriminate].
    injection H as <-. destruct (IH _ eq_refl) as [gs [Hg HF]].
    exists (g :: gs). split.
    + cbn [mapM]. rewrite Eg, Hg. reflexivity.
    + constructor; [|exact HF].
      rewrite (aligned_stmt_sig _ _ Er). apply stripws_stmt_sig; exact Ew.
Qed.
Print Assumptions aligned_sigleaves.

(* ================================================================================================
   Which exceptions does AlignedIndentFilter raise, and on which trees?
   rspec m b (AlignedSpec.v):  m = Ok _ and b = true,  or  m = Err x, b = false and x is ValueError
   or IndexError -- in particular never the model's own Stuck.
   ================================================================================================ *)
Lemma rspec_bind {A B} (m : res A) (f : A -> res B) b1 b2 :
  rspec m b1 -> (forall a, m = Ok a -> rspec (f a) b2) -> rspec (bind m f) (b1 && b2).
Proof.
  destruct m as [a|x]; cbn [rspec bind]; intros H1 H2.
  - rewrite H1. cbn [andb]. apply H2. reflexivity.
  - destruct H1 as [-> Hx]. split; [reflexivity | exact Hx].
Qed.

Lemma rspec_map {A B} (m : res A) (g : A -> B) b : rspec m b -> rspec (bind m (fun a => Ok (g a))) b.
Proof. destruct m as [a|x]; cbn [rspec bind]; auto. Qed.

Lemma al_safe_nongroup k : is_group k = false -> al_safe k = true.
Proof. destruct k; [reflexivity | discriminate]. Qed.

Lemma aprocess_kids_rspec (rec : aenv -> node -> res node) e all : forall l idx,
  (forall k, In k l -> is_group k = true -> forall e', rspec (rec e' k) (al_safe k)) ->
  rspec (aprocess_kids rec e all idx l) (forallb al_safe l).
Proof.
  induction l as [|k l IH]; intros idx H; cbn [aprocess_kids forallb]; [reflexivity|].
  assert (Hl : rspec (aprocess_kids rec e all (S idx) l) (forallb al_safe l)).
  { apply IH. intros k0 Hk0. apply H. right. exact Hk0. }
  destruct (is_group k) eqn:Eg.
  - apply rspec_bind; [apply H; [left; reflexivity | exact Eg]|].
    intros k' _. rewrite <- (andb_true_r (forallb al_safe l)).
    apply rspec_bind; [exact Hl|]. intros r _. reflexivity.
  - rewrite (al_safe_nongroup k Eg). cbn [bind andb].
    rewrite <- (andb_true_r (forallb al_safe l)).
    apply rspec_bind; [exact Hl|]. intros r _. reflexivity.
Qed.

Lemma aprocess_default_rspec (rec : aenv -> node -> res node) e l :
  (forall k, In k l -> is_group k = true -> forall e', rspec (rec e' k) (al_safe k)) ->
  rspec (aprocess_default rec e l) (forallb al_safe l).
Proof.
  intros H. unfold aprocess_default. rewrite asplit_kwds_spec. cbn [bind].
  rewrite <- (asplit_spec_forallb e al_safe (fun v => eq_refl) l 0).
  apply aprocess_kids_rspec. intros k Hk Hg.
  destruct (asplit_spec_In e k l 0 Hk) as [Hin | [v ->]]; [apply H; assumption | discriminate].
Qed.

(* inserting a whitespace leaf changes neither the group children nor their safety *)
Lemma In_insert_at (x k : node) i l : In k (insert_at i x l) -> k = x \/ In k l.
Proof.
  unfold insert_at. intros H. apply in_app_or in H. destruct H as [H | [H | H]].
  - right. rewrite <- (firstn_skipn i l). apply in_or_app. left. exact H.
  - left. symmetry. exact H.
  - right. rewrite <- (firstn_skipn i l). apply in_or_app. right. exact H.
Qed.

Lemma forallb_insert_at (f : node -> bool) i x l : f x = true ->
  forallb f (insert_at i x l) = forallb f l.
Proof.
  intros Hx. unfold insert_at. rewrite forallb_app. cbn [forallb]. rewrite Hx. cbn [andb].
  rewrite <- forallb_app, firstn_skipn. reflexivity.
Qed.

Lemma aidl_insert_In nlv k : forall l seen, In k (aidl_insert nlv seen l) -> k = nlv \/ In k l.
Proof.
  induction l as [|x l IH]; intros seen H; [destruct H|]. cbn [aidl_insert] in H.
  destruct (is_identifier_item x).
  - destruct seen.
    + destruct H as [H | [H | H]]; [left; symmetry; exact H | right; left; exact H |].
      destruct (IH _ H) as [H1 | H1]; [left; exact H1 | right; right; exact H1].
    + destruct H as [H | H]; [right; left; exact H|].
      destruct (IH _ H) as [H1 | H1]; [left; exact H1 | right; right; exact H1].
  - destruct H as [H | H]; [right; left; exact H|].
    destruct (IH _ H) as [H1 | H1]; [left; exact H1 | right; right; exact H1].
Qed.

Lemma aidl_insert_forallb (f : node -> bool) nlv : f nlv = true ->
  forall l seen, forallb f (aidl_insert nlv seen l) = forallb f l.
Proof.
  intros Hn. induction l as [|x l IH]; intros seen; [reflexivity|]. cbn [aidl_insert].
  destruct (is_identifier_item x).
  - destruct seen; cbn [forallb]; rewrite ?Hn, IH; reflexivity.
  - cbn [forallb]. rewrite IH. reflexivity.
Qed.

(* ---- Case ------------------------------------------------------------------------------------ *)
Lemma acase_loop_rspec e l0 maxw : forall cases first l ins,
  rspec (acase_loop e l0 maxw first cases l ins) (forallb case_has_stmt cases).
Proof.
  induction cases as [|[cond value] cases IH]; intros first l ins; cbn [acase_loop forallb]; [reflexivity|].
  unfold case_has_stmt at 1. cbn [fst snd].
  destruct (match cond with Some (c :: _) => Some c | _ => hd_error value end) as [s0|] eqn:Es.
  - assert (Hb : match cond with Some (_ :: _) => true | _ => negb (is_nil value) end = true).
    { destruct cond as [[|c cs]|]; try reflexivity; destruct value; try discriminate; reflexivity. }
    rewrite Hb. cbn [andb].
    destruct (if first then (l, ins) else _) as [l1 ins1].
    destruct (match cond with Some (c :: cs) => _ | _ => (l1, ins1) end) as [l2 ins2].
    apply IH.
  - assert (Hb : match cond with Some (_ :: _) => true | _ => negb (is_nil value) end = false).
    { destruct cond as [[|c cs]|]; try discriminate; destruct value; try discriminate; reflexivity. }
    rewrite Hb. split; [reflexivity | right; reflexivity].
Qed.

Lemma aprocess_case_rspec e l : rspec (aprocess_case e l) (acase_safe l).
Proof.
  unfold aprocess_case, acase_safe, has_end.
  pose proof (acase_loop_rspec e l
                (fold_left Z.max (map (fun c : case_t => cond_width l (fst c)) (aget_cases l)) 0%Z)
                (aget_cases l) true l []) as H.
  destruct (acase_loop e l _ true (aget_cases l) l []) as [[l1 ins1]|x]; cbn [rspec bind] in *.
  - rewrite H.
    destruct (aget_cases l) as [|c0 cs]; [reflexivity|].
    destruct (next_by_from [] [(T_Keyword, Some [s_END])] TNone 0 l) as [[eidx et]|]; reflexivity.
  - destruct H as [-> Hx]. split; [reflexivity | exact Hx].
Qed.

(* ---- the walk -------------------------------------------------------------------------------- *)
(* aprocess_rspec: with enough fuel (S (depth n) is what aligned_stmt gives) the walk over a group
   returns normally iff al_safe holds, and otherwise raises ValueError or IndexError *)
Theorem aprocess_rspec : forall fuel e n, depth n <= fuel -> is_group n = true ->
  rspec (aprocess fuel e n) (al_safe n).
Proof.
  induction fuel as [|f IH]; intros e n Hd Hg.
  - destruct n as [ty v | c v l]; [discriminate|]. cbn [depth] in Hd. lia.
  - destruct n as [ty v | c v l]; [discriminate|]. cbn [aprocess].
    assert (Hkids : forall k, In k l -> is_group k = true -> forall e', rspec (aprocess f e' k) (al_safe k)).
    { intros k Hk Hgk e'. apply IH; [|exact Hgk].
      pose proof (depth_kids c v l f Hd) as HF. rewrite Forall_forall in HF. apply HF. exact Hk. }
    assert (Hdef : forall e0 l0, (forall k, In k l0 -> is_group k = true -> In k l) ->
                   rspec (aprocess_default (aprocess f) e0 l0) (forallb al_safe l0)).
    { intros e0 l0 Hsub. apply aprocess_default_rspec. intros k Hk Hgk. apply Hkids; [apply Hsub; assumption | exact Hgk]. }
    apply rspec_map.
    destruct c; cbn [al_safe]; try (apply Hdef; intros k Hk _; exact Hk).
    + (* Statement *)
      unfold aprocess_statement. destruct l as [|x l0]; [apply Hdef; intros k Hk _; exact Hk|].
      destruct (is_ws x && (a_ind e =? 0)%Z) eqn:Ew.
      * apply andb_true_iff in Ew. destruct Ew as [Ew _].
        assert (Hx : al_safe x = true) by (destruct x; [reflexivity | discriminate]).
        cbn [forallb]. rewrite Hx. cbn [andb]. apply Hdef. intros k Hk _. right. exact Hk.
      * apply Hdef. intros k Hk _. exact Hk.
    + (* IdentifierList *)
      unfold aidl_pre. destruct (existsb is_identifier_item l); cbn [bind andb].
      * rewrite <- (aidl_insert_forallb al_safe (anl e 1) eq_refl l false).
        apply Hdef. intros k Hk Hgk. destruct (aidl_insert_In _ _ _ _ Hk) as [-> | Hin]; [discriminate | exact Hin].
      * split; [reflexivity | right; reflexivity].
    + (* Parenthesis *)
      unfold aprocess_parenthesis, has_select.
      destruct (next_by_from [] [(T_DML, Some [s_SELECT])] TNone 0 l) as [p|]; [|reflexivity].
      cbn [negb orb]. apply rspec_map.
      destruct (token_next true false 0 l) as [[nidx nx]|].
      * rewrite <- (forallb_insert_at al_safe nidx (anl (a_with_ind e 1) (-6)) l eq_refl).
        apply Hdef. intros k Hk Hgk. destruct (In_insert_at _ _ _ _ Hk) as [-> | Hin]; [discriminate | exact Hin].
      * assert (Ef : forallb al_safe (l ++ [anl (a_with_ind e 1) (-6)]) = forallb al_safe l).
        { rewrite forallb_app. cbn [forallb]. rewrite andb_true_r. reflexivity. }
        rewrite <- Ef. apply Hdef. intros k Hk Hgk. apply in_app_or in Hk.
        destruct Hk as [Hin | [<- | []]]; [exact Hin | discriminate].
    + (* Case *)
      apply aprocess_case_rspec.
Qed.
Print Assumptions aprocess_rspec.

(* AlignedIndentFilter.process(stmt) on a group: returns iff al_safe, else ValueError/IndexError *)
Theorem aligned_stmt_rspec n : is_group n = true -> rspec (aligned_stmt n) (al_safe n).
Proof. intros Hg. unfold aligned_stmt. apply aprocess_rspec; [lia | exact Hg]. Qed.

Corollary aligned_stmt_total n : is_group n = true -> al_safe n = true -> exists r, aligned_stmt n = Ok r.
Proof.
  intros Hg Hs. pose proof (aligned_stmt_rspec n Hg) as H.
  destruct (aligned_stmt n) as [r|x]; [exists r; reflexivity|]. cbn [rspec] in H. destruct H as [H _]. congruence.
Qed.

Corollary aligned_stmt_raises n : is_group n = true -> al_safe n = false ->
  aligned_stmt n = Err ValueError \/ aligned_stmt n = Err IndexError.
Proof.
  intros Hg Hs. pose proof (aligned_stmt_rspec n Hg) as H.
  destruct (aligned_stmt n) as [r|x]; cbn [rspec] in H; [congruence|].
  destruct H as [_ [-> | ->]]; [left | right]; reflexivity.
Qed.

Corollary aligned_stmt_never_stuck n : is_group n = true -> aligned_stmt n <> Err Stuck.
Proof.
  intros Hg H. pose proof (aligned_stmt_rspec n Hg) as Hr. rewrite H in Hr.
  destruct Hr as [_ [Hx | Hx]]; discriminate.
Qed.

(* aligned_total_partial: the statement pipeline of format(reindent_aligned=True) returns normally
   whenever grouping and StripWhitespaceFilter do and every whitespace-stripped statement is a
   group satisfying the decidable predicate al_safe.  ("partial": totality itself is false, see
   aligned_total_refuted in AlignedInstFacts.v; the two premises about grouping and
   StripWhitespaceFilter are not discharged here.) *)
Theorem aligned_total_partial (grp : node -> res node) : forall stmts gs ws,
  mapM grp stmts = Ok gs -> mapM stripws_stmt gs = Ok ws ->
  Forall (fun w => is_group w = true /\ al_safe w = true) ws ->
  exists outs, arun_stmts grp stmts = Ok outs /\ length outs = length stmts.
Proof.
  induction stmts as [|st rest IH]; intros gs ws Hg Hw HF; cbn [arun_stmts].
  - exists []. split; reflexivity.
  - cbn [mapM] in Hg. destruct (grp st) as [g|] eqn:Eg; cbn [bind] in Hg; [|discriminate].
    destruct (mapM grp rest) as [gs'|] eqn:Egs; cbn [bind] in Hg; [|discriminate]. injection Hg as <-.
    cbn [mapM] in Hw. destruct (stripws_stmt g) as [w|] eqn:Ew; cbn [bind] in Hw; [|discriminate].
    destruct (mapM stripws_stmt gs') as [ws'|] eqn:Ews; cbn [bind] in Hw; [|discriminate]. injection Hw as <-.
    inversion HF as [|? ? [Hgw Hsw] HF']; subst.
    cbn [bind]. rewrite Ew. cbn [bind]. destruct (aligned_stmt_total w Hgw Hsw) as [r Hr]. rewrite Hr. cbn [bind].
    destruct (IH gs' ws' eq_refl Ews HF') as [outs [Ho HL]]. rewrite Ho. cbn [bind].
    exists (r :: outs). split; [reflexivity | cbn [length]; rewrite HL; reflexivity].
Qed.
Print Assumptions aligned_total_partial.

(* conversely: the first statement that is not al_safe makes the pipeline raise *)
Theorem aligned_unsafe_raises (grp : node -> res node) st rest g w :
  grp st = Ok g -> stripws_stmt g = Ok w -> is_group w = true -> al_safe w = false ->
  arun_stmts grp (st :: rest) = Err ValueError \/ arun_stmts grp (st :: rest) = Err IndexError.
Proof.
  intros Eg Ew Hg Hs. cbn [arun_stmts]. rewrite Eg. cbn [bind]. rewrite Ew. cbn [bind].
  destruct (aligned_stmt_raises w Hg Hs) as [-> | ->]; [left | right]; reflexivity.
Qed.
Print Assumptions aligned_stmt_rspec.
Print Assumptions aligned_unsafe_raises.

(* the same with grouping and whitespace stripping composed per statement (the shape of
   ReindentInst.cur_stripws_trees) *)
Lemma arun_stmts_total (grp : node -> res node) : forall stmts ws,
  mapM (fun st => g <- grp st ;; stripws_stmt g) stmts = Ok ws ->
  Forall (fun w => is_group w = true /\ al_safe w = true) ws ->
  exists outs, arun_stmts grp stmts = Ok outs.
Proof.
  induction stmts as [|st rest IH]; intros ws Hw HF; cbn [arun_stmts].
  - exists []. reflexivity.
  - cbn [mapM] in Hw. destruct (grp st) as [g|] eqn:Eg; cbn [bind] in Hw; [|discriminate].
    destruct (stripws_stmt g) as [w|] eqn:Ew; cbn [bind] in Hw; [|discriminate].
    destruct (mapM (fun st0 => g0 <- grp st0 ;; stripws_stmt g0) rest) as [ws'|] eqn:Ews; cbn [bind] in Hw; [|discriminate].
    injection Hw as <-. inversion HF as [|? ? [Hgw Hsw] HF']; subst.
    cbn [bind]. rewrite Ew. cbn [bind].
    destruct (aligned_stmt_total w Hgw Hsw) as [r Hr]. rewrite Hr. cbn [bind].
    destruct (IH ws' eq_refl HF') as [outs Ho]. rewrite Ho. cbn [bind].
    exists (r :: outs). reflexivity.
Qed.

Lemma mapM_map {A B C} (f : B -> res C) (h : A -> B) : forall l, mapM f (map h l) = mapM (fun x => f (h x)) l.
Proof. induction l as [|x l IH]; [reflexivity|]. cbn [map mapM]. rewrite IH. reflexivity. Qed.
