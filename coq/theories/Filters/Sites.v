(* C06, layer 1: the layout filters as runs of whitespace-only edits.

   DEFINITIONS ONLY (no proofs in this file).

   The layout filters of sqlparse (ReindentFilter, AlignedIndentFilter, StripWhitespaceFilter,
   SpacesAroundOperatorsFilter) are not modelled statement by statement.  Instead

   (1) tools/regen/gen_sites.py inventories, from the Python AST, EVERY statement of those classes
       that can change a token tree or a token (the "mutation sites") and classifies each one by
       its syntactic form and its dominating guard into a [kind] below; the inventory is emitted as
       Gen/SiteInv.v ([layout_sites]).  Anything the translator cannot classify is [Unknown].
   (2) [ws_only_site] decides, inside Coq, that a classified site is one of the allowed edits:
       it inserts a token constructed with a whitespace token type and a value expression built
       only from whitespace constants / whitespace-valued filter fields; or deletes an element
       under a guard `X.is_whitespace` that is syntactically paired with the deleted element; or
       assigns a whitespace string to `.value` of a token guarded by `.is_whitespace`; or is a
       pure regrouping / aliasing.
   (3) [site_step] is the abstract small-step semantics of "one instance of an allowed edit,
       anywhere in the tree"; [any_run] its reflexive-transitive closure.  Filters/SitesFacts.v
       proves that any run preserves the sequence of non-whitespace leaves ([sigleaves]).

   META-ARGUMENT (the TRUSTED part, NOT proved in Coq).  "Every execution of the layout filter
   stack on a statement tree t, whatever its control flow, offsets and wrapping heuristics, and
   also when it is cut short by an exception, is a finite run  any_run t t'."  This rests on:
     - the translator's inventory being complete (every tree/token mutation in the four classes
       is a listed site; the helpers of sqlparse/sql.py and sqlparse/utils.py it relies on are
       pinned by hash and were audited by hand) and on its classification of constructor
       expressions, guards and guard/target pairings being right;
     - Inst/C06.v: [forallb ws_only_site layout_sites = true], no [Unknown] site, the filter
       fields used in value expressions ([self.n], [self.char]) only take whitespace values, and
       build_filter_stack installs no other statement filter for the layout options
       (re-checked by vm_compute over the regenerated inventory on every run);
     - the run-time instrumentation self-test (tools/props/C06_sites.py): during format() over
       thousands of generated scripts x random layout option sets every observed mutation of a
       tree happens at an inventoried source line, is of the inventoried kind, and concretely is
       an instance of a constructor of [edit] below.
   The soundness of reading the real Python filters as runs of these steps is an argument about
   Python semantics and is not formalised. *)
From Coq Require Import String Relations.
From SqlModel Require Import Base PyStr Node.
From SqlModel.Gen Require Import CaseTabs.

(* ---- the value expression of a constructed / assigned token value ------------------------ *)
Inductive vexp :=
| VStr (s : text)                         (* a string constant *)
| VField (name : string) (vals : list text)
    (* self.<name> of the filter object; vals = every value the field can take under format()
       (derived by the translator from __init__ and build_filter_stack/validate_options) *)
| VRep (v : vexp)                         (* v * <anything>   (str * int, or TypeError) *)
| VCat (a b : vexp)                       (* a + b *)
| VAlt (a b : vexp)                       (* a if <anything> else b *)
| VOpaque (src : string).                 (* not recognised *)

Fixpoint vexp_ws (e : vexp) : bool :=
  match e with
  | VStr s => all_space space_set s
  | VField _ vals => forallb (all_space space_set) vals
  | VRep v => vexp_ws v
  | VCat a b => vexp_ws a && vexp_ws b
  | VAlt a b => vexp_ws a && vexp_ws b
  | VOpaque _ => false
  end.

(* ---- how a guard `X.is_whitespace` is tied to the element that is deleted / assigned ----- *)
Inductive pairing :=
| PairIdxTok
    (* i, t = R.token_prev/token_next/token_next_by(...)   [t is R.tokens[i]]
       ...no mutation, no re-assignment of i, t, R...
       if ... and t.is_whitespace ...:  del R.tokens[i]        (first statement of the body) *)
| PairSubscript
    (* while/if ... R[k].is_whitespace ...:  R.pop(k) | del R[k]   (first statement of the body;
       R an expression ending in `.tokens`, k an integer constant) *)
| PairCondAssign
    (* every assignment of v is `v = None` or `v = t if t.is_whitespace else None`;
       if v and ...:  R.tokens.remove(v)       (list.remove by identity: Token has no __eq__) *)
| PairSame
    (* if ... t.is_whitespace ...:  t.value = E     (first statement of the body) *)
| PairNone.

Definition pairing_ok (p : pairing) : bool :=
  match p with PairNone => false | _ => true end.

(* ---- the kinds of mutation sites ---------------------------------------------------------- *)
Inductive kind :=
| InsWs (ty : ttype) (v : vexp)           (* insert a freshly constructed sql.Token(ty, v) *)
| DelWsGuarded (p : pairing)              (* delete one element guarded by is_whitespace *)
| SetWsValue (p : pairing) (v : vexp)     (* tok.value = v under guard tok.is_whitespace *)
| Rewrap                                  (* sql.TokenList(X.tokens): a new list object aliasing
                                             the same children; re-parents, no text change *)
| GroupTokens                             (* pure regrouping of a contiguous slice *)
| Unknown (why : string).

Record site := mk_site {
  s_file : string;      (* path below /repo *)
  s_line : N;           (* first line of the mutating expression/statement *)
  s_end : N;            (* last line *)
  s_fn : string;        (* Class.method *)
  s_kind : kind;
  s_src : string        (* source text (sanitised) *)
}.

Definition kind_ws_only (k : kind) : bool :=
  match k with
  | InsWs ty v => tin ty T_Whitespace && vexp_ws v
  | DelWsGuarded p => pairing_ok p
  | SetWsValue p v => pairing_ok p && vexp_ws v
  | Rewrap => true
  | GroupTokens => true
  | Unknown _ => false
  end.

Definition ws_only_site (s : site) : bool := kind_ws_only (s_kind s).

Definition is_unknown (s : site) : bool :=
  match s_kind s with Unknown _ => true | _ => false end.

(* ---- facts about the filter stack emitted next to the inventory -------------------------- *)
(* a field of a filter class with every value it can take under format() *)
Record field_fact := mk_field_fact {
  ff_class : string;
  ff_field : string;
  ff_vals : list text
}.

Definition field_fact_ws (f : field_fact) : bool := forallb (all_space space_set) (ff_vals f).

Definition str_mem (s : string) (l : list string) : bool :=
  existsb (String.eqb s) l.

Definition str_incl (a b : list string) : bool := forallb (fun s => str_mem s b) a.

(* ---- the abstract semantics: one allowed edit anywhere in the tree ----------------------- *)
Definition ws_ty (ty : ttype) : bool := tin ty T_Whitespace.
Definition ws_text (v : text) : bool := all_space space_set v.

(* one edit of the children list of one group *)
Inductive edit : list node -> list node -> Prop :=
| E_ins l1 l2 ty v :            (* InsWs: a whitespace-typed leaf with an all-whitespace value *)
    ws_ty ty = true -> ws_text v = true ->
    edit (l1 ++ l2) (l1 ++ Leaf ty v :: l2)
| E_del l1 l2 ty v :            (* DelWsGuarded: delete a whitespace-typed leaf *)
    ws_ty ty = true ->
    edit (l1 ++ Leaf ty v :: l2) (l1 ++ l2)
| E_set l1 l2 ty v v' :         (* SetWsValue: replace the value of a whitespace-typed leaf
                                   (by ANY text: more than the sites do) *)
    ws_ty ty = true ->
    edit (l1 ++ Leaf ty v :: l2) (l1 ++ Leaf ty v' :: l2)
| E_group l1 mid l2 c cached :  (* GroupTokens: a contiguous slice becomes a new group *)
    edit (l1 ++ mid ++ l2) (l1 ++ Grp c cached mid :: l2)
| E_splice l1 mid l2 c cached : (* the inverse: a group is replaced by its children *)
    edit (l1 ++ Grp c cached mid :: l2) (l1 ++ mid ++ l2).

(* one step: an edit of the children of some group of the tree; the class and the cached value
   of that group may change too (Rewrap / stale caches: the filters never refresh `value`) *)
Inductive site_step : node -> node -> Prop :=
| S_edit c v c' v' kids kids' :
    edit kids kids' -> site_step (Grp c v kids) (Grp c' v' kids')
| S_relabel c v c' v' kids :
    site_step (Grp c v kids) (Grp c' v' kids)
| S_in c v l1 k k' l2 :
    site_step k k' -> site_step (Grp c v (l1 ++ k :: l2)) (Grp c v (l1 ++ k' :: l2)).

(* any number of steps *)
Definition any_run : node -> node -> Prop := clos_refl_trans node site_step.

(* the same for the list of statements of a script *)
Definition any_run_list (l l' : list node) : Prop := Forall2 any_run l l'.

(* ---- the observable: the non-whitespace-typed leaves, in order --------------------------- *)
Fixpoint sigleaves (n : node) : list tok :=
  match n with
  | Leaf ty v => if ws_ty ty then [] else [(ty, v)]
  | Grp _ _ kids => flat_map sigleaves kids
  end.
Definition sigleaves_list (l : list node) : list tok := flat_map sigleaves l.

(* the text carried by the significant leaves *)
Definition sigtext (n : node) : text := flat_map snd (sigleaves n).

(* number of leaves that are not whitespace-typed *)
Definition nsig (n : node) : nat := length (sigleaves n).
