(* Executable model of sqlparse.filters.reindent.ReindentFilter as run by
   sqlparse.format(sql, reindent=True, indent_width=, indent_tabs=, indent_after_first=,
                   indent_columns=, wrap_after=, comma_first=, compact=).
   Definitions only.

   The Python filter mutates the tree while walking it and finds "the column of this token" by
   flattening the whole current statement up to the token OBJECT.  All such queries are about a
   direct child of the list being processed, and the walk is pre-order, so the text in front of
   a child is [pre] (text of the statement in front of the list, threaded by the walk) followed by
   the text of the earlier children.  `self.offset` / `self.indent` are restored by the context
   managers, so they are passed downwards ([env]); `self._last_func` is threaded. *)
From SqlModel Require Import Base PyStr Re Node Passes.
From SqlModel.Gen Require Import CaseTabs.
From SqlModel.Filters Require Import RxStripWs RxSerial.
From Coq Require Import ZArith.
Local Open Scope Z_scope.

Record ropts := {
  o_width : Z;            (* indent_width >= 1 *)
  o_tab : bool;           (* indent_tabs: char = '\t' *)
  o_wrap : Z;             (* wrap_after >= 0 *)
  o_comma_first : bool;
  o_after_first : bool;   (* indent_after_first: initial indent 1 *)
  o_columns : bool;       (* indent_columns *)
  o_compact : bool
}.

Record env := { e_off : Z; e_ind : Z }.
Definition with_off (e : env) (n : Z) : env := {| e_off := e_off e + n; e_ind := e_ind e |}.
Definition with_ind (e : env) (n : Z) : env := {| e_off := e_off e; e_ind := e_ind e + n |}.

Definition leading_ws (o : ropts) (e : env) : Z := e_off e + e_ind e * o_width o.
Definition ichar (o : ropts) : N := if o_tab o then 9%N else 32%N.

(* len((raw or '\n').splitlines()[-1]) : str.splitlines line boundaries *)
Definition is_linebreak (c : N) : bool :=
  N.eqb c 10 || N.eqb c 13 || N.eqb c 11 || N.eqb c 12 || N.eqb c 28 || N.eqb c 29 || N.eqb c 30
  || N.eqb c 133 || N.eqb c 8232 || N.eqb c 8233.

(* cur: length of the line being read; last: length of the last finished line;
   fresh: no character since the last boundary; cr: previous character was '\r' *)
Fixpoint last_line_len (t : text) (cur last : nat) (fresh cr : bool) : nat :=
  match t with
  | [] => if fresh then last else cur
  | c :: t' =>
      if cr && N.eqb c 10 then last_line_len t' cur last fresh false
      else if is_linebreak c then last_line_len t' 0%nat cur true (N.eqb c 13)
      else last_line_len t' (S cur) last false false
  end.

(* _get_offset(token) where [raw] is the text of the statement in front of the token *)
Definition get_offset (o : ropts) (e : env) (raw : text) : Z :=
  Z.of_nat (last_line_len raw 0 0 true false) - Z.max 0 (leading_ws o e).

(* nl(offset) *)
Definition nl (o : ropts) (e : env) (extra : Z) : node :=
  Leaf T_Whitespace (10%N :: repeat (ichar o) (Z.to_nat (Z.max 0 (leading_ws o e + extra)))).
Definition sp : node := Leaf T_Whitespace [32%N].

(* ---- the split-word test: Token.match(T.Keyword, split_words, regex=True) ------------------- *)
(* one pattern character under re.IGNORECASE (pattern characters are ASCII upper-case letters,
   ' ' and '_'): _sre lower-cases the subject character; 'i' and 's' have the extra
   equivalents U+0131 and U+017F *)
Definition ci_eq (p c : N) : bool :=
  let lp := lower p in let lc := lower c in
  N.eqb lc lp || (N.eqb lp 105 && N.eqb lc 305) || (N.eqb lp 115 && N.eqb lc 383).

Fixpoint prefix_ci (w t : text) : option text :=
  match w with
  | [] => Some t
  | p :: w' => match t with c :: t' => if ci_eq p c then prefix_ci w' t' else None | [] => None end
  end.

(* re.search(word [+ '$'], t) *)
Fixpoint search_ci (dollar : bool) (w t : text) : bool :=
  (match prefix_ci w t with
   | Some r => if dollar then at_end r else true
   | None => false
   end)
  || match t with [] => false | _ :: t' => search_ci dollar w t' end.

Definition s_FROM := [70;82;79;77]%N.
Definition s_STRAIGHT_JOIN := [83;84;82;65;73;71;72;84;95;74;79;73;78]%N.
Definition s_JOIN := [74;79;73;78]%N.
Definition s_AND := [65;78;68]%N.
Definition s_OR := [79;82]%N.
Definition s_SET := [83;69;84]%N.
Definition s_BETWEEN := [66;69;84;87;69;69;78]%N.
Definition s_WHEN := [87;72;69;78]%N.
Definition s_THEN := [84;72;69;78]%N.
Definition s_ELSE := [69;76;83;69]%N.

Definition split_words : list (bool * text) :=
  [(false, s_FROM); (true, s_STRAIGHT_JOIN); (true, s_JOIN); (false, s_AND); (false, s_OR);
   (false, s_GROUP_BY); (false, s_ORDER_BY); (false, s_UNION); (false, s_VALUES); (false, s_SET);
   (false, s_BETWEEN); (false, s_EXCEPT); (false, s_HAVING); (false, s_LIMIT)].

Definition split_match (n : node) : bool :=
  match n with
  | Leaf ty v =>
      ttype_eqb ty T_Keyword &&
      existsb (fun dw => search_ci (fst dw) (snd dw) (knorm v)) split_words
  | Grp _ _ _ => false
  end.

(* _next_token(tlist, idx): [start] = idx + 1 *)
Fixpoint next_token (fuel : nat) (l : list node) (start : nat) : res (option (nat * node)) :=
  match fuel with
  | O => Err Stuck
  | S f =>
      match find_from split_match start l with
      | None => Ok None
      | Some (tidx, tok) =>
          if text_eqb (normalized tok) s_BETWEEN then
            r <- next_token f l (S tidx) ;;
            match r with
            | Some (tidx2, tok2) =>
                if text_eqb (normalized tok2) s_AND then next_token f l (S tidx2) else Ok r
            | None => Ok None
            end
          else Ok (Some (tidx, tok))
      end
  end.

Definition ends_nl (t : text) : bool :=
  match rev t with c :: _ => N.eqb c 10 || N.eqb c 13 | [] => false end.

(* _split_kwds *)
Fixpoint split_kwds_loop (fuel : nat) (nlv : node) (l : list node) (cur : option (nat * node))
  : res (list node) :=
  match cur with
  | None => Ok l
  | Some (tidx, _) =>
      match fuel with
      | O => Err Stuck
      | S f =>
          let prev_ := token_prev false false tidx l in
          (* str(prev_): 'None' when there is none *)
          let unl := match prev_ with Some (_, p) => ends_nl (text_of p) | None => false end in
          let '(l1, tidx1) := match prev_ with
                              | Some (pidx, p) => if is_ws p then (remove_at pidx l, (tidx - 1)%nat)
                                                  else (l, tidx)
                              | None => (l, tidx)
                              end in
          let '(l2, tidx2) := if unl then (l1, tidx1) else (insert_at tidx1 nlv l1, S tidx1) in
          nx <- next_token (S (length l2)) l2 (S tidx2) ;;
          split_kwds_loop f nlv l2 nx
      end
  end.

Definition split_kwds (o : ropts) (e : env) (l : list node) : res (list node) :=
  first <- next_token (S (length l)) l 0 ;;
  split_kwds_loop (S (length l)) (nl o e 0) l first.

(* _split_statements *)
Definition is_dml_ddl (n : node) : bool := tt_among n [T_DML; T_DDL].

Fixpoint split_statements_loop (fuel : nat) (nlv : node) (l : list node) (cur : option (nat * node))
  : res (list node) :=
  match cur with
  | None => Ok l
  | Some (tidx, _) =>
      match fuel with
      | O => Err Stuck
      | S f =>
          let prev_ := token_prev false false tidx l in
          let '(l1, tidx1) := match prev_ with
                              | Some (pidx, p) => if is_ws p then (remove_at pidx l, (tidx - 1)%nat)
                                                  else (l, tidx)
                              | None => (l, tidx)
                              end in
          let '(l2, tidx2) := match prev_ with
                              | Some _ => (insert_at tidx1 nlv l1, S tidx1)
                              | None => (l1, tidx1)
                              end in
          split_statements_loop f nlv l2 (find_from is_dml_ddl (S tidx2) l2)
      end
  end.

Definition split_statements (o : ropts) (e : env) (l : list node) : res (list node) :=
  split_statements_loop (S (length l)) (nl o e 0) l (find_from is_dml_ddl 0 l).

(* ---- object identity under insertions ------------------------------------------------------- *)
(* current index of the child that was at index [i] before the insertions at positions [ins]
   (in chronological order) *)
Definition cur_idx (ins : list nat) (i : nat) : nat :=
  fold_left (fun i p => if Nat.leb p i then S i else i) ins i.

(* next(token.flatten()) *)
Definition first_leaf (n : node) : res node :=
  match flatten n with x :: _ => Ok x | [] => Err StopIteration end.

(* raw text in front of child [i] of the list *)
Definition raw_before (pre : text) (l : list node) (i : nat) : text :=
  pre ++ text_of_list (firstn i l).

(* _get_offset(child i): a group must have a first leaf *)
Definition offset_of_child (o : ropts) (e : env) (pre : text) (l : list node) (i : nat) : res Z :=
  match nth_error l i with
  | None => Err Stuck
  | Some tok => _ <- first_leaf tok ;; Ok (get_offset o e (raw_before pre l i))
  end.

Definition vlen (n : node) : Z := Z.of_nat (length (nvalue n)).

(* ---- _process_identifierlist ---------------------------------------------------------------- *)
Definition is_identifier_item (n : node) : bool :=
  negb (is_ws n || match_pat n (T_Punctuation, Some [s_comma])).

Fixpoint indices_where (f : node -> bool) (l : list node) (base : nat) : list nat :=
  match l with
  | [] => []
  | x :: l' => if f x then base :: indices_where f l' (S base) else indices_where f l' (S base)
  end.

(* the wrapping loop outside functions; ids are ORIGINAL indices *)
Fixpoint idl_wrap_a (o : ropts) (e : env) (l : list node) (ins : list nat) (ids : list nat)
         (position : Z) : res (list node) :=
  match ids with
  | [] => Ok l
  | i0 :: ids' =>
      let i := cur_idx ins i0 in
      match nth_error l i with
      | None => Err Stuck
      | Some tok =>
          let position := position + vlen tok + 1 in
          if position >? o_wrap o - e_off e then
            if o_comma_first o then
              match token_prev true false i l with
              | None => idl_wrap_a o e l ins ids' position
              | Some (cidx, _) =>
                  let l1 := insert_at cidx (nl o e (-2)) l in
                  let ins1 := ins ++ [cidx] in
                  (* the "comma" is now at cidx+1 *)
                  match nth_error l1 (S (S cidx)) with
                  | Some ws =>
                      if negb (tt_is ws T_Whitespace) then
                        match token_next true false (S cidx) l1 with
                        | Some (nidx, _) => idl_wrap_a o e (insert_at nidx sp l1) (ins1 ++ [nidx]) ids' 0
                        | None => idl_wrap_a o e (l1 ++ [sp]) ins1 ids' 0
                        end
                      else idl_wrap_a o e l1 ins1 ids' 0
                  | None => idl_wrap_a o e l1 ins1 ids' 0
                  end
              end
            else idl_wrap_a o e (insert_at i (nl o e 0) l) (ins ++ [i]) ids' 0
          else idl_wrap_a o e l ins ids' position
      end
  end.

(* `for token in tlist:` ensure a whitespace after each ','  (live iteration) *)
Fixpoint ensure_ws (fuel : nat) (k : nat) (l : list node) (ins : list nat)
  : res (list node * list nat) :=
  match fuel with
  | O => Err Stuck
  | S f =>
      match nth_error l k with
      | None => Ok (l, ins)
      | Some tok =>
          if text_eqb (nvalue tok) s_comma then
            match nth_error l (S k) with
            | None => Err AttributeError
            | Some nx =>
                if is_ws nx then ensure_ws f (S k) l ins
                else match token_next true false k l with
                     | Some (nidx, _) => ensure_ws f (S k) (insert_at nidx sp l) (ins ++ [nidx])
                     | None => ensure_ws f (S k) (l ++ [sp]) ins
                     end
            end
          else ensure_ws f (S k) l ins
      end
  end.

(* the wrapping loop inside functions / VALUES *)
Fixpoint idl_wrap_b (o : ropts) (e : env) (l : list node) (ins : list nat) (ids : list nat)
         (position : Z) : res (list node) :=
  match ids with
  | [] => Ok l
  | i0 :: ids' =>
      let i := cur_idx ins i0 in
      match nth_error l i with
      | None => Err Stuck
      | Some tok =>
          let position := position + vlen tok + 1 in
          if (o_wrap o >? 0) && (position >? o_wrap o - e_off e)
          then idl_wrap_b o e (insert_at i (nl o e 0) l) (ins ++ [i]) ids' 0
          else idl_wrap_b o e l ins ids' position
      end
  end.

Definition sum_vlen1 (l : list node) (ids : list nat) : Z :=
  fold_left (fun acc i => match nth_error l i with Some t => acc + vlen t + 1 | None => acc end) ids 0.

Definition process_identifierlist (o : ropts) (e : env) (inFV : bool) (pre : text)
           (lf : option text) (l : list node) : res (list node) :=
  let ids0 := indices_where is_identifier_item l 0 in
  '(ids, num_offset) <-
     match ids0 with
     | [] => Err IndexError
     | i :: rest =>
         match nth_error l i with
         | None => Err Stuck
         | Some tok =>
             _ <- first_leaf tok ;;
             if o_columns o then Ok (ids0, if o_tab o then 1 else o_width o)
             else Ok (rest, if o_tab o then 1 else get_offset o e (raw_before pre l i))
         end
     end ;;
  if negb inFV then idl_wrap_a o (with_off e num_offset) l [] ids 0
  else
    '(l1, ins1) <- ensure_ws (S (2 * length l)) 0 l [] ;;
    let end_at := e_off e + sum_vlen1 l ids in
    let adjusted :=
      match lf with
      | Some fv => if (o_wrap o >? 0) && (end_at >? o_wrap o - e_off e)
                   then - Z.of_nat (length fv) - 1 else 0
      | None => 0
      end in
    let e' := with_ind (with_off e adjusted) 1 in
    '(l2, ins2) <-
       (if adjusted <? 0 then
          match ids with
          | [] => Err IndexError
          | i0 :: _ => let i := cur_idx ins1 i0 in Ok (insert_at i (nl o e' 0) l1, ins1 ++ [i])
          end
        else Ok (l1, ins1)) ;;
    idl_wrap_b o e' l2 ins2 ids 0.

(* ---- Case.get_cases() ----------------------------------------------------------------------- *)
Inductive cmode := MCond | MValue | MNone.
(* a case: (cond, value) as index lists; cond = None for ELSE *)
Definition case_t := (option (list nat) * list nat)%type.

Definition kwm (n : node) (w : text) : bool := match_pat n (T_Keyword, Some [w]).

Fixpoint upd_last (f : case_t -> case_t) (l : list case_t) : list case_t :=
  match l with
  | [] => []
  | [x] => [f x]
  | x :: l' => x :: upd_last f l'
  end.

Fixpoint get_cases_loop (l : list node) (idx : nat) (mode : cmode) (ret : list case_t)
  : list case_t :=
  match l with
  | [] => ret
  | tok :: l' =>
      if kwm tok s_CASE then get_cases_loop l' (S idx) mode ret else
      let '(mode1, ret1) :=
        if kwm tok s_WHEN then (MCond, ret ++ [(Some [], [])])
        else if kwm tok s_THEN then (MValue, ret)
        else if kwm tok s_ELSE then (MValue, ret ++ [(None, [])])
        else if kwm tok s_END then (MNone, ret)
        else (mode, ret) in
      let ret2 := match mode1, ret1 with
                  | MNone, _ => ret1
                  | _, [] => [(Some [], [])]
                  | _, _ => ret1
                  end in
      let ret3 := match mode1 with
                  | MCond => upd_last (fun c => (match fst c with Some cs => Some (cs ++ [idx])
                                                              | None => None end, snd c)) ret2
                  | MValue => upd_last (fun c => (fst c, snd c ++ [idx])) ret2
                  | MNone => ret2
                  end in
      get_cases_loop l' (S idx) mode1 ret3
  end.

Definition get_cases (l : list node) : list case_t := get_cases_loop l 0 MCond [].

Definition text_of_idxs (l : list node) (ids : list nat) : text :=
  flat_map (fun i => match nth_error l i with Some t => text_of t | None => [] end) ids.

(* the loop over the remaining cases; [l0] the list before any insertion, [shift] insertions so far *)
Fixpoint case_loop (o : ropts) (e : env) (l0 : list node) (cases : list case_t) (l : list node)
         (ins : list nat) : res (list node) :=
  match cases with
  | [] => Ok l
  | (cond, value) :: cases' =>
      let str_cond := match cond with Some cs => text_of_idxs l0 cs | None => [] end in
      let str_value := text_of_idxs l0 value in
      let end_pos := e_off e + 1 + Z.of_nat (length str_cond) + Z.of_nat (length str_value) in
      if negb (o_compact o) && (end_pos >? o_wrap o) then
        match (match cond with None => value | Some cs => cs end) with
        | [] => Err IndexError
        | i0 :: _ =>
            let i := cur_idx ins i0 in
            case_loop o e l0 cases' (insert_at i (nl o e 0) l) (ins ++ [i])
        end
      else case_loop o e l0 cases' l ins
  end.

(* ---- _process_values ------------------------------------------------------------------------ *)
Definition is_paren (n : node) : bool := inst n CParenthesis.

Fixpoint values_loop (fuel : nat) (o : ropts) (e : env) (pre : text) (first_idx : nat)
         (l : list node) (cur : option (nat * node)) : res (list node) :=
  match cur with
  | None => Ok l
  | Some (tidx, _) =>
      match fuel with
      | O => Err Stuck
      | S f =>
          l' <- match next_by_from [] [(T_Punctuation, Some [s_comma])] TNone (S tidx) l with
                | Some (ptidx, _) =>
                    if o_comma_first o then
                      off <- offset_of_child o e pre l first_idx ;;
                      Ok (insert_at ptidx (nl o e (off + -2)) l)
                    else
                      off <- offset_of_child o e pre l tidx ;;
                      (* insert_after(ptoken, ..., skip_ws=True) *)
                      match token_next true false ptidx l with
                      | Some (nidx, _) => Ok (insert_at nidx (nl o e off) l)
                      | None => Ok (l ++ [nl o e off])
                      end
                | None => Ok l
                end ;;
          values_loop f o e pre first_idx l' (find_from is_paren (S tidx) l')
      end
  end.

Definition process_values (o : ropts) (e : env) (pre : text) (l : list node) : res (list node) :=
  let l1 := nl o e 0 :: l in
  match find_from is_paren 0 l1 with
  | None => Ok l1
  | Some (tidx, tok) => values_loop (S (length l1)) o e pre tidx l1 (Some (tidx, tok))
  end.

(* ---- the walk ------------------------------------------------------------------------------- *)
(* the recursive call on a child:  env, within-Function, within-Values, text in front, last_func *)
Definition rec_t := env -> bool -> bool -> text -> option text -> node -> res (option text * node).

(* for sgroup in tlist.get_sublists(): self._process(sgroup) *)
Fixpoint process_kids (rec : text -> option text -> node -> res (option text * node))
         (pre : text) (lf : option text) (done_rev : list node) (l : list node)
  : res (option text * list node) :=
  match l with
  | [] => Ok (lf, rev done_rev)
  | k :: l' =>
      if is_group k then
        '(lf', k') <- rec pre lf k ;;
        process_kids rec (pre ++ text_of k') lf' (k' :: done_rev) l'
      else process_kids rec (pre ++ text_of k) lf (k :: done_rev) l'
  end.

(* _process_default(tlist, stmts) *)
Definition process_default (rec : rec_t) (o : ropts) (e : env) (inF inV : bool) (pre : text)
           (lf : option text) (stmts : bool) (l : list node) : res (option text * list node) :=
  l1 <- (if stmts then split_statements o e l else Ok l) ;;
  l2 <- split_kwds o e l1 ;;
  process_kids (rec e inF inV) pre lf [] l2.

Definition process_where (rec : rec_t) o e inF inV pre lf (l : list node) :=
  match next_by_from [] [(T_Keyword, Some [s_WHERE])] TNone 0 l with
  | None => Ok (lf, l)
  | Some (tidx, _) =>
      process_default rec o (with_ind e 1) inF inV pre lf true (insert_at tidx (nl o e 0) l)
  end.

Definition process_parenthesis (rec : rec_t) o e inF inV pre lf (l : list node) :=
  let dml := match find_from is_dml_ddl 0 l with Some _ => true | None => false end in
  match next_by_from [] (m_open CParenthesis) TNone 0 l with
  | None => Ok (lf, l)
  | Some (fidx, _) =>
      let e1 := with_ind e (if dml then 1 else 0) in
      let l1 := if dml then nl o e1 0 :: l else l in
      let fidx1 := if dml then S fidx else fidx in
      off <- offset_of_child o e1 pre l1 fidx1 ;;
      process_default rec o (with_off e1 (off + 1)) inF inV pre lf (negb dml) l1
  end.

Definition process_function (rec : rec_t) o e inF inV pre (lf : option text) (l : list node) :=
  match l with
  | [] => Err IndexError
  | f :: _ => process_default rec o e inF inV pre (Some (nvalue f)) true l
  end.

Definition process_case (rec : rec_t) o e inF inV pre lf (l : list node) :=
  match get_cases l with
  | [] => Err StopIteration
  | (cond, _) :: rest =>
      match cond with
      | None => Err TypeError
      | Some [] => Err IndexError
      | Some (c0 :: _) =>
          match nth_error l c0 with
          | None => Err Stuck
          | Some ctok =>
              _ <- first_leaf ctok ;;
              off0 <- offset_of_child o e pre l 0 ;;
              let e1 := with_off e off0 in
              off1 <- offset_of_child o e1 pre l c0 ;;
              let e2 := with_off e1 off1 in
              l1 <- case_loop o e2 l rest l [] ;;
              '(lf', l2) <- process_default rec o (with_off e2 5) inF inV pre lf true l1 ;;
              match next_by_from [] (m_close CCase) TNone 0 l2 with
              | Some (end_idx, _) =>
                  if negb (o_compact o) then Ok (lf', insert_at end_idx (nl o e1 0) l2)
                  else Ok (lf', l2)
              | None => Ok (lf', l2)
              end
          end
      end
  end.

(* _process(tlist): dispatch on the lower-cased class name *)
Fixpoint rprocess (fuel : nat) (o : ropts) (e : env) (inF inV : bool) (pre : text)
         (lf : option text) (n : node) : res (option text * node) :=
  match fuel with
  | O => Err Stuck
  | S f =>
      match n with
      | Leaf _ _ => Err Stuck
      | Grp c v l =>
          let rec : rec_t := fun e' inF' inV' pre' lf' k =>
                       rprocess f o e' (inF' || cls_eqb c CFunction) (inV' || cls_eqb c CValues)
                                pre' lf' k in
          '(lf', l') <-
             match c with
             | CWhere => process_where rec o e inF inV pre lf l
             | CParenthesis => process_parenthesis rec o e inF inV pre lf l
             | CFunction => process_function rec o e inF inV pre lf l
             | CIdentifierList =>
                 l1 <- process_identifierlist o e (inF || inV) pre lf l ;;
                 process_default rec o e inF inV pre lf true l1
             | CCase => process_case rec o e inF inV pre lf l
             | CValues => l1 <- process_values o e pre l ;; Ok (lf, l1)
             | _ => process_default rec o e inF inV pre lf true l
             end ;;
          Ok (lf', Grp c v l')
      end
  end.

Fixpoint depth (n : node) : nat :=
  match n with
  | Leaf _ _ => 0%nat
  | Grp _ _ kids => S (fold_right (fun k acc => Nat.max (depth k) acc) 0%nat kids)
  end.

(* ---- ReindentFilter.process(stmt) and the whole format() pipeline --------------------------- *)
Record rstate := { r_lf : option text; r_last : option text (* str(self._last_stmt) *) }.

Definition init_env (o : ropts) : env := {| e_off := 0; e_ind := if o_after_first o then 1 else 0 |}.
Definition init_rstate : rstate := {| r_lf := None; r_last := None |}.

Definition ends_with_lf (t : text) : bool :=
  match rev t with c :: _ => N.eqb c 10 | [] => false end.

Definition reindent_stmt (o : ropts) (s : rstate) (n : node) : res (rstate * node) :=
  '(lf', n1) <- rprocess (S (depth n)) o (init_env o) false false [] (r_lf s) n ;;
  let n2 := match r_last s, n1 with
            | Some lt, Grp c v l =>
                Grp c v (Leaf T_Whitespace (if ends_with_lf lt then [10%N] else [10%N; 10%N]) :: l)
            | _, _ => n1
            end in
  Ok ({| r_lf := lf'; r_last := Some (text_of n2) |}, n2).

(* FilterStack.run with grouping, stmtprocess = [StripWhitespaceFilter, ReindentFilter]:
   statement by statement (an exception in statement k is raised before statement k+1 is grouped) *)
Fixpoint run_stmts (grp : node -> res node) (o : ropts) (s : rstate) (stmts : list node)
  : res (list node) :=
  match stmts with
  | [] => Ok []
  | st :: rest =>
      g <- grp st ;;
      w <- stripws_stmt g ;;
      '(s', r) <- reindent_stmt o s w ;;
      out <- run_stmts grp o s' rest ;;
      Ok (r :: out)
  end.

(* ''.join(SerializerUnicode.process(stmt) for stmt in ...) *)
Definition serialize_all (l : list node) : text := flat_map serialize l.
