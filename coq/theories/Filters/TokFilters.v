(* Model of the three token-stream filters of sqlparse/filters/tokens.py
     KeywordCaseFilter, IdentifierCaseFilter, TruncateStringFilter
   as sqlparse.format() installs them (formatter.build_filter_stack: `preprocess` filters, applied to the
   (ttype, value) stream between the lexer and the statement splitter), together with Python's
   str.lower / str.capitalize (str.upper is PyStr.py_upper).  Definitions only; facts in TokFiltersFacts.v. *)
From Coq Require Import ZArith.
From SqlModel Require Import Base PyStr.
From SqlModel.Gen Require Import CaseTabs CaseTabs2.

(* ------------------------------------------------------------------------------------------------ *)
(* str.lower() and str.capitalize() (CPython >= 3.8: Objects/unicodeobject.c do_lower, do_capitalize,
   lower_ucs4, handle_capital_sigma), parametric in the interpreter's tables.                          *)
Section Case.
Variable ltab : umap.   (* str.lower() of a single character, where it differs *)
Variable ttab : umap.   (* str.title() of a single character, where it differs *)
Variable ci : cset.     (* case-ignorable characters *)
Variable cni : cset.    (* characters that are cased and not case-ignorable *)

Definition SIGMA : N := 931.         (* U+03A3 *)
Definition FINAL_SIGMA : N := 962.   (* U+03C2 *)
Definition SMALL_SIGMA : N := 963.   (* U+03C3 *)

Definition low1 (c : N) : text := match ufind c ltab with Some v => v | None => [c] end.
Definition tit1 (c : N) : text := match ufind c ttab with Some v => v | None => [c] end.

(* second half of handle_capital_sigma: skip case-ignorable characters; final iff the end of the string
   or a character that is not cased is reached *)
Fixpoint sigma_after (t : text) : bool :=
  match t with
  | [] => true
  | c :: t' => if cmem c ci then sigma_after t' else negb (cmem c cni)
  end.

(* first half, computed incrementally while scanning left to right: [st] = "going left from here,
   skipping case-ignorable characters, a cased character is found" *)
Definition next_state (st : bool) (c : N) : bool := if cmem c ci then st else cmem c cni.

Fixpoint lower_go (st : bool) (t : text) : text :=
  match t with
  | [] => []
  | c :: t' =>
      (if N.eqb c SIGMA then [if st && sigma_after t' then FINAL_SIGMA else SMALL_SIGMA] else low1 c)
      ++ lower_go (next_state st c) t'
  end.

Definition py_lower (t : text) : text := lower_go false t.

(* title-case of the first character, lower-casing of the rest in the context of the whole string *)
Definition py_capitalize (t : text) : text :=
  match t with
  | [] => []
  | c :: t' => tit1 c ++ lower_go (next_state false c) t'
  end.
End Case.

(* the `case` option of the two case filters: format() accepts exactly these three (validate_options),
   None means 'upper' (`case = case or 'upper'`; the filter is not installed at all for None) *)
Inductive conv := CUpper | CLower | CCapitalize.

Definition cur_lower : text -> text := py_lower full_lower_tab case_ignorable_set cased_ni_set.
Definition cur_capitalize : text -> text := py_capitalize full_lower_tab title_tab case_ignorable_set cased_ni_set.

(* getattr(str, case) *)
Definition conv_fn (c : conv) : text -> text :=
  match c with
  | CUpper => upper
  | CLower => cur_lower
  | CCapitalize => cur_capitalize
  end.

(* ------------------------------------------------------------------------------------------------ *)
(* _CaseFilter.process with ttype = T.Keyword:
     for ttype, value in stream:
         if ttype in self.ttype: value = self.convert(value)      # _TokenType.__contains__: prefix test
         yield ttype, value                                                                            *)
Fixpoint kwcase (cv : text -> text) (toks : list tok) : list tok :=
  match toks with
  | [] => []
  | (ty, v) :: r => (ty, if tin ty T_Keyword then cv v else v) :: kwcase cv r
  end.

(* IdentifierCaseFilter: ttype = T.Name, T.String.Symbol is a plain TUPLE, so `ttype in self.ttype`
   is tuple membership, i.e. equality with one of the two types (Name.Builtin, Name.Placeholder are
   not converted).
     for ttype, value in stream:
         if ttype in self.ttype and value.strip()[0] != <DQUOTE>: value = self.convert(value)
         yield ttype, value
   value.strip()[0] raises IndexError when the value is empty or all whitespace.                       *)
Definition id_target (ty : ttype) : bool := ttype_eqb ty T_Name || ttype_eqb ty T_Symbol.

Definition DQUOTE : N := 34.
Definition SQUOTE : N := 39.

Definition idcase_val (sp : cset) (cv : text -> text) (v : text) : res text :=
  match strip sp v with
  | [] => Err IndexError
  | c :: _ => Ok (if N.eqb c DQUOTE then v else cv v)
  end.

Fixpoint idcase_gen (sp : cset) (cv : text -> text) (toks : list tok) : res (list tok) :=
  match toks with
  | [] => Ok []
  | (ty, v) :: r =>
      v' <- (if id_target ty then idcase_val sp cv v else Ok v) ;;
      r' <- idcase_gen sp cv r ;;
      Ok ((ty, v') :: r')
  end.

Definition idcase : (text -> text) -> list tok -> res (list tok) := idcase_gen space_set.

(* TruncateStringFilter(width, char).process:
     if ttype != T.Literal.String.Single: yield unchanged         # tuple inequality: the exact type
     if value[:2] == <two single quotes>: inner = value[2:-2]; quote = <two single quotes>
     else:                                inner = value[1:-1]; quote = <one single quote>
     if len(inner) > self.width: value = ''.join((quote, inner[:self.width], self.char, quote))
   width is a Python int (format() only lets values > 1 through, the filter class accepts any).       *)

(* value[a:-b] for a >= 0, b > 0 *)
Definition py_mid (a b : nat) (v : text) : text := skipn a (firstn (length v - b) v).

(* t[:w] for an arbitrary int w *)
Definition py_prefix (w : Z) (t : text) : text :=
  if (0 <=? w)%Z then firstn (Z.to_nat w) t else firstn (length t - Z.to_nat (- w)) t.

Definition trunc_quote (v : text) : text :=
  if text_eqb (firstn 2 v) [SQUOTE; SQUOTE] then [SQUOTE; SQUOTE] else [SQUOTE].
Definition trunc_inner (v : text) : text :=
  if text_eqb (firstn 2 v) [SQUOTE; SQUOTE] then py_mid 2 2 v else py_mid 1 1 v.

Definition trunc_val (w : Z) (ch : text) (v : text) : text :=
  if (w <? Z.of_nat (length (trunc_inner v)))%Z
  then trunc_quote v ++ py_prefix w (trunc_inner v) ++ ch ++ trunc_quote v
  else v.

Fixpoint truncate (w : Z) (ch : text) (toks : list tok) : list tok :=
  match toks with
  | [] => []
  | (ty, v) :: r => (ty, if ttype_eqb ty T_Single then trunc_val w ch v else v) :: truncate w ch r
  end.

(* ------------------------------------------------------------------------------------------------ *)
(* build_filter_stack: the preprocess part selected by keyword_case / identifier_case /
   truncate_strings (+ truncate_char), applied in that order *)
Definition preprocess (kw idc : option conv) (tr : option (Z * text)) (toks : list tok) : res (list tok) :=
  let t1 := match kw with Some c => kwcase (conv_fn c) toks | None => toks end in
  t2 <- (match idc with Some c => idcase (conv_fn c) t1 | None => Ok t1 end) ;;
  Ok (match tr with Some (w, ch) => truncate w ch t2 | None => t2 end).

(* ------------------------------------------------------------------------------------------------ *)
(* specification-side functions used by the facts *)
Definition kw_edit (cv : text -> text) (t : tok) : tok :=
  let '(ty, v) := t in if tin ty T_Keyword then (ty, cv v) else (ty, v).

(* the condition under which IdentifierCaseFilter converts a value *)
Definition id_converts (sp : cset) (ty : ttype) (v : text) : bool :=
  id_target ty && negb (match strip sp v with c :: _ => N.eqb c DQUOTE | [] => false end).
Definition id_edit (sp : cset) (cv : text -> text) (t : tok) : tok :=
  let '(ty, v) := t in if id_converts sp ty v then (ty, cv v) else (ty, v).
(* no Name / Symbol token with an empty or all-whitespace value *)
Definition id_safe (sp : cset) (toks : list tok) : bool :=
  forallb (fun t : tok => let '(ty, v) := t in negb (id_target ty && all_space sp v)) toks.

Definition tr_edit (w : Z) (ch : text) (t : tok) : tok :=
  let '(ty, v) := t in
  if ttype_eqb ty T_Single && (w <? Z.of_nat (length (trunc_inner v)))%Z
  then (ty, trunc_quote v ++ py_prefix w (trunc_inner v) ++ ch ++ trunc_quote v)
  else (ty, v).

(* every String.Single value begins with a single quote (what the lexer produces) *)
Definition singles_quoted (toks : list tok) : bool :=
  forallb (fun t : tok => let '(ty, v) := t in
             negb (ttype_eqb ty T_Single) || match v with c :: _ => N.eqb c SQUOTE | [] => false end) toks.

(* ---- boolean checks of the generated tables (evaluated by vm_compute in the facts file) ---------- *)
Fixpoint umap_all (P : N -> list N -> bool) (m : umap) : bool :=
  match m with
  | ULeaf => true
  | UNode l k v r => umap_all P l && P k v && umap_all P r
  end.

Definition unmapped (m : umap) (c : N) : bool := match ufind c m with None => true | Some _ => false end.
Definition lowfix (ltab : umap) (c : N) : bool := negb (N.eqb c SIGMA) && unmapped ltab c.

(* every image of the table consists of characters the table leaves alone *)
Definition images_fixed (m : umap) : bool := umap_all (fun _ v => forallb (unmapped m) v) m.
Definition lower_images_fixed (ltab : umap) : bool :=
  umap_all (fun _ v => forallb (lowfix ltab) v) ltab && lowfix ltab FINAL_SIGMA && lowfix ltab SMALL_SIGMA.
(* head of title(c) is its own title-case and the tail is fixed by lower-casing *)
Definition cap_good (ltab ttab : umap) (v : text) : bool :=
  match v with
  | h :: tl => unmapped ttab h && forallb (lowfix ltab) tl
  | [] => false
  end.
Definition title_images_good (ltab ttab : umap) (bad : list N) : bool :=
  umap_all (fun k v => cap_good ltab ttab v || existsb (N.eqb k) bad) ttab.
(* case mappings neither touch nor produce whitespace, and no image is empty *)
Definition nospace_tab (sp : cset) (m : umap) : bool :=
  umap_all (fun k v => negb (cmem k sp) && match v with [] => false | _ => forallb (fun c => negb (cmem c sp)) v end) m.
(* single-character images ("simple" characters) *)
Definition len1 (m : umap) (c : N) : bool := match ufind c m with Some [_] | None => true | _ => false end.
Definition simple_char (c : N) : bool :=
  len1 upper_tab c && len1 full_lower_tab c && len1 title_tab c.
Definition ascii (c : N) : bool := N.ltb c 128.
Definition ascii_fold (c : N) : N := if N.leb 65 c && N.leb c 90 then (c + 32)%N else c.
