(* Facts about the model of StripWhitespaceFilter (Filters/StripWs.v). *)
From SqlModel Require Import Base PyStr Node Inv Passes SplitDefs.
From SqlModel.Filters Require Import StripWs.

(* ---- generic helpers ----------------------------------------------------------------------- *)
Lemma mapM_rel (R : node -> node -> Prop) (f : node -> res node) (l l' : list node) :
  Forall (fun k => forall k', f k = Ok k' -> R k k') l ->
  mapM f l = Ok l' -> Forall2 R l l'.
Proof.
  revert l'; induction l as [|k l IH]; intros l' Hf H; simpl in H.
  - injection H as <-. constructor.
  - inversion Hf as [|? ? Hk Hl]; subst.
    destruct (f k) as [k'|] eqn:E; [|discriminate]. simpl in H.
    destruct (mapM f l) as [r|] eqn:E2; [|discriminate]. simpl in H. injection H as <-.
    constructor; auto.
Qed.

Lemma mapM_total (f : node -> res node) (l : list node) :
  Forall (fun k => exists k', f k = Ok k') l -> exists l', mapM f l = Ok l'.
Proof.
  induction 1 as [|k l [k' Hk] _ [l' IH]]; simpl.
  - eexists; reflexivity.
  - rewrite Hk, IH. simpl. eexists; reflexivity.
Qed.

Lemma is_ws_leaf n : is_ws n = true -> exists ty v, n = Leaf ty v /\ tin ty T_Whitespace = true.
Proof. destruct n as [ty v|c v k]; simpl; [eauto | discriminate]. Qed.

Lemma is_ws_set_value n v : is_ws (set_value n v) = is_ws n.
Proof. destruct n; reflexivity. Qed.

(* ---- the edit relation on leaf sequences --------------------------------------------------- *)
(* b is obtained from a by: keeping a leaf, replacing the value of a whitespace-typed leaf by ''
   or ' ', or removing a whitespace-typed leaf *)
Inductive ws_edit : list tok -> list tok -> Prop :=
| we_nil : ws_edit [] []
| we_keep x a b : ws_edit a b -> ws_edit (x :: a) (x :: b)
| we_set ty v v' a b : tin ty T_Whitespace = true -> (v' = [] \/ v' = s_space) -> ws_edit a b ->
                       ws_edit ((ty, v) :: a) ((ty, v') :: b)
| we_drop x a b : is_ws_tok x = true -> ws_edit a b -> ws_edit (x :: a) b.

Lemma ws_edit_refl a : ws_edit a a.
Proof. induction a; constructor; auto. Qed.

Lemma ws_edit_app a a' b b' : ws_edit a a' -> ws_edit b b' -> ws_edit (a ++ b) (a' ++ b').
Proof. induction 1; intros Hb; simpl; try constructor; auto. Qed.

Lemma ws_edit_trans a b c : ws_edit a b -> ws_edit b c -> ws_edit a c.
Proof.
  intros H; revert c. induction H as [|x a b Hab IH|ty v v' a b Ht Hv Hab IH|x a b Hx Hab IH]; intros c Hc.
  - exact Hc.
  - inversion Hc as [|? ? c' Hc'|ty' v0 v'' ? c' Ht' Hv' Hc'|? ? ? Hx' Hc']; subst.
    + apply we_keep; auto.
    + apply we_set; auto.
    + apply we_drop; auto.
  - inversion Hc as [|? ? c' Hc'|ty' v0 v'' ? c' Ht' Hv' Hc'|? ? ? Hx' Hc']; subst.
    + apply we_set; auto.
    + apply we_set; auto.
    + apply we_drop; auto.
  - apply we_drop; auto.
Qed.

(* consequences: the non-whitespace leaves are the same, in the same order *)
Definition nw_leaves (l : list tok) : list tok := filter (fun tk => negb (is_ws_tok tk)) l.

Lemma ws_edit_nw a b : ws_edit a b -> nw_leaves b = nw_leaves a.
Proof.
  induction 1 as [|x a b _ IH|ty v v' a b Ht _ _ IH|x a b Hx _ IH]; simpl.
  - reflexivity.
  - rewrite IH. reflexivity.
  - unfold is_ws_tok; simpl. rewrite Ht. simpl. exact IH.
  - rewrite Hx. simpl. exact IH.
Qed.

Lemma ws_edit_drop_all w a : forallb is_ws_tok w = true -> ws_edit (w ++ a) a.
Proof.
  induction w as [|x w IH]; simpl; intros H; [apply ws_edit_refl|].
  apply andb_true_iff in H. destruct H as [Hx Hw]. apply we_drop; auto.
Qed.

Lemma leaves_list_all_ws w : forallb is_ws w = true -> forallb is_ws_tok (leaves_list w) = true.
Proof.
  induction w as [|x w IH]; simpl; intros H; [reflexivity|].
  apply andb_true_iff in H. destruct H as [Hx Hw].
  apply is_ws_leaf in Hx. destruct Hx as (ty & v & -> & Ht). simpl.
  unfold is_ws_tok at 1; simpl. rewrite Ht. simpl. apply IH, Hw.
Qed.

Definition ledit (l l' : list node) : Prop := ws_edit (leaves_list l) (leaves_list l').

Lemma ledit_refl l : ledit l l. Proof. apply ws_edit_refl. Qed.
Lemma ledit_trans a b c : ledit a b -> ledit b c -> ledit a c. Proof. apply ws_edit_trans. Qed.
Lemma ledit_app a a' b b' : ledit a a' -> ledit b b' -> ledit (a ++ b) (a' ++ b').
Proof. unfold ledit. rewrite !leaves_list_app. apply ws_edit_app. Qed.
Lemma ledit_drop w a b : forallb is_ws w = true -> ledit a b -> ledit (w ++ a) b.
Proof.
  intros Hw Hab. unfold ledit. rewrite leaves_list_app.
  eapply ws_edit_trans; [apply ws_edit_drop_all, leaves_list_all_ws, Hw | exact Hab].
Qed.
Lemma ledit_Forall2 l l' : Forall2 (fun k k' => ws_edit (leaves k) (leaves k')) l l' -> ledit l l'.
Proof.
  induction 1 as [|x y l l' Hxy _ IH]; [constructor|].
  unfold ledit, leaves_list in *. simpl. apply ws_edit_app; assumption.
Qed.

(* ---- _stripws_default ----------------------------------------------------------------------- *)
Lemma sw_default_go_edit a b l : ledit l (sw_default_go a b l).
Proof.
  revert a b; induction l as [|t l IH]; intros a b; simpl; [constructor|].
  change (t :: l) with ([t] ++ l).
  match goal with |- ledit _ (?x :: ?r) => change (x :: r) with ([x] ++ r) end.
  apply ledit_app; [|apply IH].
  destruct (is_ws t) eqn:E; [|apply ledit_refl].
  apply is_ws_leaf in E. destruct E as (ty & v & -> & Ht). unfold ledit; simpl.
  apply we_set; [exact Ht | destruct (a || b); auto | constructor].
Qed.

Lemma sw_default_go_is_ws a b l : map is_ws (sw_default_go a b l) = map is_ws l.
Proof.
  revert a b; induction l as [|t l IH]; intros a b; simpl; [reflexivity|].
  rewrite IH. f_equal. destruct (is_ws t) eqn:E; [rewrite is_ws_set_value|]; exact E.
Qed.

Lemma sw_default_go_idem a b l : sw_default_go a b (sw_default_go a b l) = sw_default_go a b l.
Proof.
  revert a b; induction l as [|t l IH]; intros a b; simpl; [reflexivity|].
  destruct (is_ws t) eqn:E.
  - rewrite is_ws_set_value, E. rewrite IH. f_equal.
    destruct t; simpl; reflexivity.
  - rewrite E, IH. reflexivity.
Qed.

(* ---- _stripws_identifierlist ---------------------------------------------------------------- *)
Lemma sw_idlist_rm_edit l : ledit l (sw_idlist_rm l).
Proof.
  induction l as [|a l IH]; [constructor|].
  cbn [sw_idlist_rm]. destruct l as [|b l'].
  - apply ledit_refl.
  - destruct (is_ws a && is_comma b) eqn:E.
    + apply andb_true_iff in E. destruct E as [Ea _].
      change (a :: b :: l') with ([a] ++ (b :: l')). apply ledit_drop; [simpl; rewrite Ea; reflexivity | exact IH].
    + change (a :: b :: l') with ([a] ++ (b :: l')).
      change (a :: sw_idlist_rm (b :: l')) with ([a] ++ sw_idlist_rm (b :: l')).
      apply ledit_app; [apply ledit_refl | exact IH].
Qed.

(* only whitespace children are removed *)
Lemma sw_idlist_rm_has_non_ws l : has_non_ws l = true -> has_non_ws (sw_idlist_rm l) = true.
Proof.
  induction l as [|a l IH]; [discriminate|].
  cbn [sw_idlist_rm]. destruct l as [|b l']; [auto|].
  intros H. destruct (is_ws a && is_comma b) eqn:E.
  - apply andb_true_iff in E. destruct E as [Ea _]. apply IH.
    unfold has_non_ws in H. simpl in H. rewrite Ea in H. simpl in H. exact H.
  - unfold has_non_ws in *. cbn [existsb] in *. apply orb_true_iff in H. apply orb_true_iff.
    destruct H as [H|H]; [left; exact H | right; apply IH, H].
Qed.

Lemma sw_idlist_rm_Forall (P : node -> Prop) l : Forall P l -> Forall P (sw_idlist_rm l).
Proof.
  induction l as [|a l IH]; intros H; [constructor|].
  cbn [sw_idlist_rm]. destruct l as [|b l']; [exact H|].
  inversion H as [|? ? Ha Hl]; subst.
  destruct (is_ws a && is_comma b); [apply IH, Hl | constructor; [exact Ha | apply IH, Hl]].
Qed.

(* ---- the pop loops -------------------------------------------------------------------------- *)
Lemma drop_ws_front_spec l r :
  drop_ws_front l = Ok r ->
  exists w x r', l = w ++ r /\ forallb is_ws w = true /\ r = x :: r' /\ is_ws x = false.
Proof.
  revert r; induction l as [|t l IH]; intros r H; simpl in H; [discriminate|].
  destruct (is_ws t) eqn:E.
  - apply IH in H. destruct H as (w & x & r' & -> & Hw & -> & Hx).
    exists (t :: w), x, r'. simpl. rewrite E, Hw. auto.
  - injection H as <-. exists [], t, l. auto.
Qed.

Lemma drop_ws_front_total l : has_non_ws l = true -> exists r, drop_ws_front l = Ok r.
Proof.
  induction l as [|t l IH]; [discriminate|]. unfold has_non_ws. simpl.
  destruct (is_ws t) eqn:E; simpl; [apply IH | eauto].
Qed.

Lemma drop_ws_front_err l : has_non_ws l = false -> drop_ws_front l = Err IndexError.
Proof.
  induction l as [|t l IH]; [reflexivity|]. unfold has_non_ws. simpl.
  destruct (is_ws t) eqn:E; simpl; [apply IH | discriminate].
Qed.

Lemma has_non_ws_app a b : has_non_ws (a ++ b) = has_non_ws a || has_non_ws b.
Proof. apply existsb_app. Qed.

Lemma has_non_ws_rev a : has_non_ws (rev a) = has_non_ws a.
Proof.
  induction a as [|x a IH]; [reflexivity|]. simpl. rewrite has_non_ws_app, IH.
  unfold has_non_ws at 2 3. simpl. rewrite orb_false_r. apply orb_comm.
Qed.

Lemma forallb_is_ws_rev w : forallb is_ws (rev w) = forallb is_ws w.
Proof.
  induction w as [|x w IH]; [reflexivity|]. simpl. rewrite forallb_app, IH. simpl.
  rewrite andb_true_r. apply andb_comm.
Qed.

Lemma sw_pop1_spec l l1 :
  sw_pop1 l = Ok l1 ->
  exists k0 w x r, l = k0 :: w ++ x :: r /\ forallb is_ws w = true /\ is_ws x = false /\ l1 = k0 :: x :: r.
Proof.
  unfold sw_pop1. destruct l as [|k0 rest]; [discriminate|].
  destruct (drop_ws_front rest) as [r|] eqn:E; [|discriminate]. simpl. intros H; injection H as <-.
  apply drop_ws_front_spec in E. destruct E as (w & x & r' & -> & Hw & -> & Hx).
  exists k0, w, x, r'. auto.
Qed.

Lemma sw_popm2_spec l l2 :
  sw_popm2 l = Ok l2 ->
  exists init y w last, l = init ++ y :: w ++ [last] /\ forallb is_ws w = true /\ is_ws y = false
                        /\ l2 = init ++ [y; last].
Proof.
  unfold sw_popm2. destruct (rev l) as [|last ir] eqn:El; [discriminate|].
  destruct (drop_ws_front ir) as [r|] eqn:E; [|discriminate]. simpl. intros H; injection H as <-.
  apply drop_ws_front_spec in E. destruct E as (w & x & r' & -> & Hw & -> & Hx).
  exists (rev r'), x, (rev w), last.
  assert (Hl : l = rev (last :: w ++ x :: r')) by (rewrite <- El, rev_involutive; reflexivity).
  split.
  - rewrite Hl. simpl. rewrite rev_app_distr. simpl. rewrite <- !app_assoc. reflexivity.
  - split; [rewrite forallb_is_ws_rev; exact Hw|]. split; [exact Hx|].
    simpl. rewrite <- app_assoc. reflexivity.
Qed.

Lemma sw_pop_last_ws_spec kids kids' :
  sw_pop_last_ws kids = Ok kids' ->
  exists pre z w, kids = pre ++ z :: w /\ forallb is_ws w = true /\ is_ws z = false /\ kids' = pre ++ [z].
Proof.
  unfold sw_pop_last_ws. destruct (drop_ws_front (rev kids)) as [r|] eqn:E; [|discriminate].
  simpl. intros H; injection H as <-.
  apply drop_ws_front_spec in E. destruct E as (w & x & r' & Hk & Hw & -> & Hx).
  exists (rev r'), x, (rev w).
  assert (Hl : kids = rev (w ++ x :: r')) by (rewrite <- Hk, rev_involutive; reflexivity).
  split; [rewrite Hl, rev_app_distr; simpl; rewrite <- app_assoc; reflexivity|].
  split; [rewrite forallb_is_ws_rev; exact Hw|]. split; [exact Hx | reflexivity].
Qed.

Lemma sw_inner_spec l l3 :
  sw_inner l = Ok l3 ->
  exists init g last, l = init ++ [g; last] /\
    ((is_group g = false /\ l3 = l) \/
     (exists c v kids kids', g = Grp c v kids /\ sw_pop_last_ws kids = Ok kids'
                             /\ l3 = init ++ [Grp c v kids'; last])).
Proof.
  unfold sw_inner. destruct (rev l) as [|last [|g ir]] eqn:El; try discriminate.
  assert (Hl : l = rev ir ++ [g; last]).
  { rewrite <- (rev_involutive l), El. simpl. rewrite <- app_assoc. reflexivity. }
  destruct g as [ty v|c v kids].
  - intros H; injection H as <-. exists (rev ir), (Leaf ty v), last. split; [exact Hl|]. left. auto.
  - destruct (sw_pop_last_ws kids) as [kids'|] eqn:E; [|discriminate]. simpl.
    intros H; injection H as <-. exists (rev ir), (Grp c v kids), last. split; [exact Hl|].
    right. exists c, v, kids, kids'. auto.
Qed.

Lemma sw_pop_last_ws_edit kids kids' : sw_pop_last_ws kids = Ok kids' -> ledit kids kids'.
Proof.
  intros H. apply sw_pop_last_ws_spec in H. destruct H as (pre & z & w & -> & Hw & _ & ->).
  apply ledit_app; [apply ledit_refl|].
  change (z :: w) with ([z] ++ w). rewrite <- (app_nil_r [z]) at 2.
  apply ledit_app; [apply ledit_refl|]. rewrite <- (app_nil_r w). apply ledit_drop; [exact Hw | constructor].
Qed.

Lemma sw_paren_body_edit l out : sw_paren_body l = Ok out -> ledit l out.
Proof.
  unfold sw_paren_body.
  destruct (sw_pop1 l) as [l1|] eqn:E1; [|discriminate]. simpl.
  destruct (sw_popm2 l1) as [l2|] eqn:E2; [|discriminate]. simpl.
  destruct (sw_inner l2) as [l3|] eqn:E3; [|discriminate]. simpl.
  intros H; injection H as <-.
  eapply ledit_trans; [|apply sw_default_go_edit].
  assert (H1 : ledit l l1).
  { apply sw_pop1_spec in E1. destruct E1 as (k0 & w & x & r & -> & Hw & _ & ->).
    change (k0 :: w ++ x :: r) with ([k0] ++ (w ++ x :: r)).
    change (k0 :: x :: r) with ([k0] ++ x :: r).
    apply ledit_app; [apply ledit_refl|]. apply ledit_drop; [exact Hw | apply ledit_refl]. }
  assert (H2 : ledit l1 l2).
  { apply sw_popm2_spec in E2. destruct E2 as (init & y & w & last & -> & Hw & _ & ->).
    apply ledit_app; [apply ledit_refl|].
    change (y :: w ++ [last]) with ([y] ++ (w ++ [last])). change [y; last] with ([y] ++ [last]).
    apply ledit_app; [apply ledit_refl|]. apply ledit_drop; [exact Hw | apply ledit_refl]. }
  assert (H3 : ledit l2 l3).
  { apply sw_inner_spec in E3. destruct E3 as (init & g & last & -> & [[_ ->]|(c & v & kids & kids' & -> & Hk & ->)]).
    - apply ledit_refl.
    - apply ledit_app; [apply ledit_refl|].
      change [Grp c v kids; last] with ([Grp c v kids] ++ [last]).
      change [Grp c v kids'; last] with ([Grp c v kids'] ++ [last]).
      apply ledit_app; [|apply ledit_refl].
      apply sw_pop_last_ws_edit in Hk. unfold ledit in *. simpl. rewrite !app_nil_r. exact Hk. }
  eapply ledit_trans; [exact H1|]. eapply ledit_trans; [exact H2 | exact H3].
Qed.

Lemma sw_paren_edit l out : sw_paren l = Ok out -> ledit l out.
Proof.
  unfold sw_paren. destruct l as [|a [|b r]]; try apply sw_paren_body_edit;
    intros H; injection H as <-; apply sw_default_go_edit.
Qed.

Lemma sw_dispatch_edit c l out : sw_dispatch c l = Ok out -> ledit l out.
Proof.
  destruct c; simpl; intros H;
    try (injection H as <-; apply sw_default_go_edit).
  - injection H as <-. eapply ledit_trans; [apply sw_idlist_rm_edit | apply sw_default_go_edit].
  - apply sw_paren_edit, H.
Qed.

(* ---- stripws_leaves ------------------------------------------------------------------------- *)
Lemma sw_process_edit : forall n n', sw_process n = Ok n' -> ws_edit (leaves n) (leaves n').
Proof.
  induction n as [ty v | c v kids IH] using node_ind'; intros n' H; cbn [sw_process] in H.
  - injection H as <-. apply ws_edit_refl.
  - destruct (mapM _ kids) as [kids1|] eqn:E1; [|discriminate]. simpl in H.
    destruct (sw_dispatch c kids1) as [kids2|] eqn:E2; [|discriminate]. simpl in H. injection H as <-.
    change (ledit kids kids2). eapply ledit_trans; [|eapply sw_dispatch_edit; exact E2].
    apply ledit_Forall2. eapply mapM_rel; [|exact E1].
    eapply Forall_impl; [|exact IH]. intros k Hk k' Hk'. cbv beta in Hk'.
    destruct (is_group k); [auto|]. injection Hk' as <-. apply ws_edit_refl.
Qed.

Lemma pop_last_if_ws_edit l : ledit l (pop_last_if_ws l).
Proof.
  unfold pop_last_if_ws. destruct (rev l) as [|t r] eqn:E; [apply ledit_refl|].
  destruct (is_ws t) eqn:Et; [|apply ledit_refl].
  assert (Hl : l = rev r ++ [t]) by (rewrite <- (rev_involutive l), E; reflexivity).
  rewrite Hl at 1. rewrite <- (app_nil_r (rev r)) at 2.
  apply ledit_app; [apply ledit_refl|]. rewrite <- (app_nil_r [t]).
  apply ledit_drop; [simpl; rewrite Et; reflexivity | constructor].
Qed.

(* The leaves of the result are the leaves of the input where whitespace-typed leaves had their value
   replaced by '' or ' ' or were removed; every other leaf is unchanged and in place. *)
Theorem stripws_leaves : forall n n', stripws n = Ok n' -> ws_edit (leaves n) (leaves n').
Proof.
  intros n n' H. unfold stripws in H. destruct n as [ty v|c v kids]; [discriminate|].
  destruct (sw_process (Grp c v kids)) as [n1|] eqn:E; [|discriminate]. simpl in H.
  apply sw_process_edit in E.
  destruct n1 as [ty1 v1|c1 v1 kids1]; injection H as <-; [exact E|].
  eapply ws_edit_trans; [exact E|]. apply pop_last_if_ws_edit.
Qed.

(* nothing dropped, added or reordered among the non-whitespace tokens *)
Corollary stripws_nonws_leaves : forall n n', stripws n = Ok n' ->
  nw_leaves (leaves n') = nw_leaves (leaves n).
Proof. intros n n' H. apply ws_edit_nw, stripws_leaves, H. Qed.
Print Assumptions stripws_leaves.

(* ================================================================================================
   totality and the normal form, under sw_wf
   ================================================================================================ *)
Lemma dnf_go_default a b l : dnf_go a b (sw_default_go a b l) = true.
Proof.
  revert a b; induction l as [|t l IH]; intros a b; simpl; [reflexivity|].
  destruct (is_ws t) eqn:E.
  - rewrite is_ws_set_value, E, IH, andb_true_r.
    destruct t; simpl; apply text_eqb_eq; reflexivity.
  - rewrite E, IH. reflexivity.
Qed.

Lemma dnf_go_app a b l1 l2 : dnf_go a b (l1 ++ l2) = true -> dnf_go a b l1 = true.
Proof.
  revert a b; induction l1 as [|t l IH]; intros a b; simpl; [reflexivity|].
  intros H. apply andb_true_iff in H. destruct H as [H1 H2]. rewrite H1. simpl. eapply IH, H2.
Qed.

Lemma sw_default_go_app a b l1 l2 :
  exists a' b', sw_default_go a b (l1 ++ l2) = sw_default_go a b l1 ++ sw_default_go a' b' l2.
Proof.
  revert a b; induction l1 as [|t l IH]; intros a b; simpl; [eauto|].
  destruct (IH (is_ws t) false) as (a' & b' & E). exists a', b'. rewrite E. reflexivity.
Qed.

Lemma sw_default_go_Forall (P : node -> Prop) a b l :
  (forall ty v, P (Leaf ty v)) -> Forall P l -> Forall P (sw_default_go a b l).
Proof.
  intros HL. revert a b; induction l as [|t l IH]; intros a b H; simpl; [constructor|].
  inversion H as [|? ? Ht Hl]; subst. constructor; [|apply IH, Hl].
  destruct (is_ws t) eqn:E; [|exact Ht].
  apply is_ws_leaf in E. destruct E as (ty & v & -> & _). apply HL.
Qed.

Lemma has_non_ws_map a b : map is_ws a = map is_ws b -> has_non_ws a = has_non_ws b.
Proof.
  revert b; induction a as [|x a IH]; intros [|y b] H; simpl in H; try discriminate; [reflexivity|].
  injection H as Hx Hab. unfold has_non_ws in *. simpl. rewrite Hx, (IH b Hab). reflexivity.
Qed.

Lemma paren_shape_map a b : map is_ws a = map is_ws b -> paren_shape a = paren_shape b.
Proof.
  intros H. destruct a as [|x a], b as [|y b]; simpl in H; try discriminate; [reflexivity|].
  injection H as Hx Hab. unfold paren_shape. rewrite Hx. f_equal.
  assert (Hr : map is_ws (rev a) = map is_ws (rev b)) by (rewrite !map_rev, Hab; reflexivity).
  destruct (rev a) as [|p ra], (rev b) as [|q rb]; simpl in Hr; try discriminate; [reflexivity|].
  injection Hr as Hp _. rewrite Hp. reflexivity.
Qed.

Lemma suffix_last {A} (w s a : list A) (z : A) : w ++ s = a ++ [z] -> s <> [] -> exists s', s = s' ++ [z].
Proof.
  intros H Hs. destruct (exists_last Hs) as (s' & z' & ->). exists s'.
  rewrite app_assoc in H. apply app_inj_tail in H. destruct H as [_ ->]. reflexivity.
Qed.

Lemma last_non_ws_snoc pre z : last_non_ws (pre ++ [z]) = negb (is_ws z).
Proof. unfold last_non_ws. rewrite rev_app_distr. reflexivity. Qed.

Lemma last_non_ws_split l : last_non_ws l = true -> exists pre z, l = pre ++ [z] /\ is_ws z = false.
Proof.
  unfold last_non_ws. destruct (rev l) as [|x r] eqn:E; [discriminate|]. intros H.
  exists (rev r), x. split; [rewrite <- (rev_involutive l), E; reflexivity|].
  destruct (is_ws x); [discriminate | reflexivity].
Qed.

(* what the induction carries for every (processed) node *)
Definition swP (k : node) : Prop :=
  sw_nf k = true /\ (is_group k = true -> has_non_ws (nkids k) = true).

Lemma swP_leaf ty v : swP (Leaf ty v).
Proof. split; [reflexivity | discriminate]. Qed.

Lemma forallb_swP l : Forall swP l -> forallb sw_nf l = true.
Proof. induction 1 as [|k l [Hk _] _ IH]; simpl; [reflexivity|]. rewrite Hk, IH. reflexivity. Qed.

(* trimming the trailing whitespace children of a processed group keeps it in normal form *)
Lemma swP_trim c v gk pre z w :
  swP (Grp c v gk) -> gk = pre ++ z :: w -> forallb is_ws w = true -> is_ws z = false ->
  swP (Grp c v (pre ++ [z])) /\ last_non_ws (pre ++ [z]) = true.
Proof.
  intros [Hnf _] -> Hw Hz. split; [|rewrite last_non_ws_snoc, Hz; reflexivity].
  cbn [sw_nf] in Hnf. apply andb_true_iff in Hnf. destruct Hnf as [Hnf Hall].
  apply andb_true_iff in Hnf. destruct Hnf as [Hd Hp].
  assert (Hw0 : c = CParenthesis -> w = []).
  { intros ->. unfold paren_nf in Hp. apply andb_true_iff in Hp. destruct Hp as [_ Hb].
    unfold back2 in Hb. destruct w as [|w0 w'] using rev_ind; [reflexivity|].
    rewrite app_comm_cons, app_assoc, rev_app_distr in Hb. simpl in Hb.
    rewrite forallb_app in Hw. apply andb_true_iff in Hw. destruct Hw as [_ Hw]. simpl in Hw.
    rewrite andb_true_r in Hw. rewrite Hw in Hb.
    destruct (rev (pre ++ z :: w')); simpl in Hb; discriminate. }
  split.
  - cbn [sw_nf]. apply andb_true_iff. split; [apply andb_true_iff; split|].
    + unfold dnf in *. change (z :: w) with ([z] ++ w) in Hd. rewrite app_assoc in Hd.
      eapply dnf_go_app, Hd.
    + destruct c; try reflexivity. rewrite (Hw0 eq_refl) in Hp. exact Hp.
    + change (z :: w) with ([z] ++ w) in Hall. rewrite app_assoc, forallb_app in Hall.
      apply andb_true_iff in Hall. apply Hall.
  - intros _. cbn [nkids]. rewrite has_non_ws_app. unfold has_non_ws at 2. simpl. rewrite Hz.
    apply orb_true_r.
Qed.

Lemma sw_paren_wf l :
  paren_shape l = true -> Forall swP l ->
  exists out, sw_paren l = Ok out /\ paren_nf out = true /\ dnf out = true /\ Forall swP out
              /\ has_non_ws out = true.
Proof.
  intros Hs HP. destruct l as [|k0 rest]; [discriminate|].
  unfold paren_shape in Hs. apply andb_true_iff in Hs. destruct Hs as [Hk0 Hlast].
  apply negb_true_iff in Hk0.
  destruct (rev rest) as [|lst rr] eqn:Er; [discriminate|]. apply negb_true_iff in Hlast.
  assert (Hrest : rest = rev rr ++ [lst]) by (rewrite <- (rev_involutive rest), Er; reflexivity).
  (* pop(1) loop *)
  assert (Hnw : has_non_ws rest = true).
  { rewrite Hrest, has_non_ws_app. unfold has_non_ws at 2. simpl. rewrite Hlast. apply orb_true_r. }
  destruct (drop_ws_front_total rest Hnw) as (r & E1).
  destruct (drop_ws_front_spec _ _ E1) as (w & x & r' & Hsplit & Hw & -> & Hx).
  assert (Hs' : exists s', x :: r' = s' ++ [lst]).
  { eapply suffix_last; [rewrite <- Hsplit; exact Hrest | discriminate]. }
  destruct Hs' as (s' & Hs').
  (* pop(-2) loop *)
  assert (E2 : exists l2, sw_popm2 (k0 :: x :: r') = Ok l2).
  { unfold sw_popm2. rewrite Hs'. cbn [rev]. rewrite rev_app_distr. cbn [rev app].
    destruct (drop_ws_front_total (rev s' ++ [k0])) as (r2 & E2).
    - rewrite has_non_ws_app. unfold has_non_ws at 2. simpl. rewrite Hk0. apply orb_true_r.
    - rewrite E2. simpl. eauto. }
  destruct E2 as (l2 & E2).
  destruct (sw_popm2_spec _ _ E2) as (init & y & w2 & lst2 & Hl1 & Hw2 & Hy & ->).
  assert (Hlst2 : lst2 = lst).
  { rewrite Hs' in Hl1. rewrite app_comm_cons in Hl1.
    change (init ++ y :: w2 ++ [lst2]) with (init ++ (y :: w2) ++ [lst2]) in Hl1.
    rewrite app_assoc in Hl1. apply app_inj_tail in Hl1. symmetry. apply Hl1. }
  subst lst2.
  (* everything in sight satisfies swP *)
  assert (HPl1 : Forall swP (k0 :: x :: r')).
  { inversion HP as [|? ? Pk0 Prest]; subst. constructor; [exact Pk0|].
    rewrite Hsplit in Prest. apply Forall_app in Prest. apply Prest. }
  assert (HPinit : Forall swP init /\ swP y /\ swP lst).
  { rewrite Hl1 in HPl1. apply Forall_app in HPl1. destruct HPl1 as [Hi Hr].
    inversion Hr as [|? ? Py Hr']; subst. apply Forall_app in Hr'. destruct Hr' as [_ Hl].
    inversion Hl; subst. auto. }
  destruct HPinit as (HPi & HPy & HPlst).
  (* the nested loop *)
  assert (E3 : exists y', sw_inner (init ++ [y; lst]) = Ok (init ++ [y'; lst])
                          /\ is_ws y' = false /\ swP y' /\ grp_last_ok y' = true).
  { unfold sw_inner. rewrite rev_app_distr. cbn [rev app].
    destruct y as [ty v|c v gk].
    - exists (Leaf ty v). auto.
    - destruct HPy as [Hnf Hh]. specialize (Hh eq_refl). cbn [nkids] in Hh.
      destruct (drop_ws_front_total (rev gk)) as (r3 & E3); [rewrite has_non_ws_rev; exact Hh|].
      assert (E3' : sw_pop_last_ws gk = Ok (rev r3)) by (unfold sw_pop_last_ws; rewrite E3; reflexivity).
      rewrite E3'. simpl. rewrite rev_involutive.
      destruct (sw_pop_last_ws_spec _ _ E3') as (pre & z & w3 & Hgk & Hw3 & Hz & Hr3).
      exists (Grp c v (rev r3)). split; [reflexivity|]. split; [reflexivity|].
      rewrite Hr3.
      assert (HPg : swP (Grp c v gk)) by (split; [exact Hnf | intros _; exact Hh]).
      destruct (swP_trim c v gk pre z w3 HPg Hgk Hw3 Hz) as [HP' Hl'].
      split; [exact HP' | exact Hl']. }
  destruct E3 as (y' & E3 & Hy' & HPy' & Hgl).
  exists (sw_default (init ++ [y'; lst])). split.
  { assert (Hb : sw_paren (k0 :: rest) = sw_paren_body (k0 :: rest))
      by (destruct rest; [discriminate | reflexivity]).
    rewrite Hb. unfold sw_paren_body, sw_pop1. rewrite E1. simpl. rewrite E2. simpl. rewrite E3. reflexivity. }
  split; [|split; [apply dnf_go_default|split]].
  - (* paren_nf *)
    unfold paren_nf. apply andb_true_iff. split.
    + (* front2 *)
      unfold sw_default.
      destruct init as [|i0 [|i1 init']]; simpl in Hl1.
      * injection Hl1 as <- _. cbn [app sw_default_go]. rewrite Hy', Hlast. cbn [front2].
        rewrite Hy', Hlast. reflexivity.
      * injection Hl1 as <- _. cbn [app sw_default_go]. rewrite Hk0, Hy'. cbn [front2].
        rewrite Hk0, Hy'. reflexivity.
      * injection Hl1 as <- <- _. cbn [app sw_default_go]. rewrite Hk0, Hx. cbn [front2].
        rewrite Hk0, Hx. reflexivity.
    + (* back2 *)
      unfold sw_default. destruct (sw_default_go_app false true init [y'; lst]) as (a' & b' & ->).
      cbn [sw_default_go]. rewrite Hy', Hlast. unfold back2. rewrite rev_app_distr. cbn [rev app].
      rewrite Hy', Hlast, Hgl. reflexivity.
  - apply sw_default_go_Forall; [apply swP_leaf|].
    apply Forall_app. split; [exact HPi|]. constructor; [exact HPy'|]. constructor; [exact HPlst | constructor].
  - rewrite (has_non_ws_map _ (init ++ [y'; lst])) by apply sw_default_go_is_ws.
    rewrite has_non_ws_app. unfold has_non_ws at 2. simpl. rewrite Hy'. apply orb_true_r.
Qed.

Lemma sw_dispatch_wf c l :
  has_non_ws l = true -> (c = CParenthesis -> paren_shape l = true) -> Forall swP l ->
  exists out, sw_dispatch c l = Ok out /\ swP (Grp c [] out).
Proof.
  intros Hh Hs HP.
  assert (Hdef : forall l0, has_non_ws l0 = true -> Forall swP l0 -> c <> CParenthesis ->
                            swP (Grp c [] (sw_default l0))).
  { intros l0 Hh0 HP0 Hc. split.
    - cbn [sw_nf]. unfold dnf, sw_default. rewrite dnf_go_default.
      rewrite forallb_swP by (apply sw_default_go_Forall; [apply swP_leaf | exact HP0]).
      destruct c; try reflexivity. contradiction.
    - intros _. cbn [nkids]. rewrite (has_non_ws_map _ l0) by apply sw_default_go_is_ws. exact Hh0. }
  destruct c; try (eexists; split; [reflexivity | apply Hdef; [assumption | assumption | discriminate]]).
  - (* IdentifierList *)
    eexists; split; [reflexivity|]. apply Hdef; [|apply sw_idlist_rm_Forall; exact HP | discriminate].
    apply sw_idlist_rm_has_non_ws, Hh.
  - (* Parenthesis *)
    destruct (sw_paren_wf l (Hs eq_refl) HP) as (out & E & Hp & Hd & HPo & Hho).
    exists out. split; [exact E|]. split; [|intros _; exact Hho].
    cbn [sw_nf]. rewrite Hd, Hp, (forallb_swP _ HPo). reflexivity.
Qed.

Lemma swP_cached c v v' kids : swP (Grp c v kids) -> swP (Grp c v' kids).
Proof. intros H; exact H. Qed.

Lemma sw_process_wf : forall n, sw_wf n = true ->
  exists n', sw_process n = Ok n' /\ swP n' /\ is_ws n' = is_ws n /\ is_group n' = is_group n.
Proof.
  induction n as [ty v | c v kids IH] using node_ind'; intros Hwf.
  - exists (Leaf ty v). split; [reflexivity|]. split; [apply swP_leaf | auto].
  - cbn [sw_wf] in Hwf. apply andb_true_iff in Hwf. destruct Hwf as [Hwf Hkids].
    apply andb_true_iff in Hwf. destruct Hwf as [Hh Hshape].
    set (f := fun k => if is_group k then sw_process k else Ok k).
    assert (Hf : Forall (fun k => exists k', f k = Ok k' /\ swP k' /\ is_ws k' = is_ws k) kids).
    { rewrite forallb_forall in Hkids. rewrite Forall_forall in *. intros k Hin.
      destruct (IH k Hin (Hkids k Hin)) as (k' & E & HP & Hw & _). unfold f.
      destruct k as [ty0 v0|c0 v0 kk]; simpl.
      - exists (Leaf ty0 v0). split; [reflexivity|]. split; [apply swP_leaf | reflexivity].
      - exists k'. auto. }
    assert (Hm : exists kids1, mapM f kids = Ok kids1 /\ Forall swP kids1 /\ map is_ws kids1 = map is_ws kids).
    { clear -Hf. induction Hf as [|k l (k' & E & HP & Hw) _ (l1 & E1 & HP1 & Hw1)]; simpl.
      - exists []. auto.
      - rewrite E, E1. simpl. exists (k' :: l1). split; [reflexivity|].
        split; [constructor; assumption | simpl; congruence]. }
    destruct Hm as (kids1 & E1 & HP1 & Hmap).
    destruct (sw_dispatch_wf c kids1) as (out & E2 & HPo).
    + rewrite (has_non_ws_map _ kids Hmap). exact Hh.
    + intros ->. rewrite (paren_shape_map _ kids Hmap). exact Hshape.
    + exact HP1.
    + exists (Grp c v out). cbn [sw_process]. fold f. rewrite E1. simpl. rewrite E2. simpl.
      split; [reflexivity|]. split; [exact HPo | auto].
Qed.

Lemma pop_last_if_ws_prefix l : exists w, l = pop_last_if_ws l ++ w.
Proof.
  unfold pop_last_if_ws. destruct (rev l) as [|t r] eqn:E; [exists []; rewrite app_nil_r; reflexivity|].
  destruct (is_ws t); [|exists []; rewrite app_nil_r; reflexivity].
  exists [t]. rewrite <- (rev_involutive l), E. reflexivity.
Qed.

(* Totality: a well-formed statement is processed without an exception, and the result is in the
   normal form sw_nf: in every group the whitespace children carry '' / ' ' as _stripws_default
   assigns them, and every Parenthesis has non-whitespace children at positions 0, 1, -2, -1 (and a
   group at -2 does not end in whitespace). *)
Theorem stripws_total : forall n, is_group n = true -> sw_wf n = true ->
  exists n', stripws n = Ok n' /\ sw_nf n' = true.
Proof.
  intros n Hg Hwf. destruct n as [ty v|c v kids]; [discriminate|].
  destruct (sw_process_wf _ Hwf) as (n1 & E & [Hnf _] & _ & Hg1).
  unfold stripws. rewrite E. simpl. destruct n1 as [ty1 v1|c1 v1 kids1]; [discriminate|].
  eexists; split; [reflexivity|].
  cbn [sw_nf] in *. apply andb_true_iff in Hnf. destruct Hnf as [Hnf Hall].
  apply andb_true_iff in Hnf. destruct Hnf as [Hd Hp].
  destruct (pop_last_if_ws_prefix kids1) as (w & Hw).
  assert (Hpar : c1 = CParenthesis -> pop_last_if_ws kids1 = kids1).
  { intros ->. unfold paren_nf in Hp. apply andb_true_iff in Hp. destruct Hp as [_ Hb].
    unfold back2 in Hb. unfold pop_last_if_ws. destruct (rev kids1) as [|t [|g r]]; try discriminate.
    apply andb_true_iff in Hb. destruct Hb as [Hb _]. apply andb_true_iff in Hb. destruct Hb as [Hb _].
    apply negb_true_iff in Hb. rewrite Hb. reflexivity. }
  apply andb_true_iff. split; [apply andb_true_iff; split|].
  - unfold dnf in *. rewrite Hw in Hd. eapply dnf_go_app, Hd.
  - destruct c1; try reflexivity. rewrite (Hpar eq_refl). exact Hp.
  - rewrite Hw, forallb_app in Hall. apply andb_true_iff in Hall. apply Hall.
Qed.
Print Assumptions stripws_total.

(* ================================================================================================
   the flattened normal form, for trees in which no group starts or ends with whitespace (edge_ok)
   ================================================================================================ *)
Definition first_non_ws (l : list node) : bool :=
  match l with k0 :: _ => negb (is_ws k0) | [] => false end.

Lemma edge_ok_grp c v kids :
  edge_ok (Grp c v kids) = first_non_ws kids && last_non_ws kids && forallb edge_ok kids.
Proof. reflexivity. Qed.

Lemma first_non_ws_map a b : map is_ws a = map is_ws b -> first_non_ws a = first_non_ws b.
Proof. destruct a, b; simpl; intros H; try discriminate; [reflexivity|]. injection H as -> _. reflexivity. Qed.

Lemma last_non_ws_map a b : map is_ws a = map is_ws b -> last_non_ws a = last_non_ws b.
Proof.
  intros H. assert (Hr : map is_ws (rev a) = map is_ws (rev b)) by (rewrite !map_rev, H; reflexivity).
  unfold last_non_ws. destruct (rev a), (rev b); simpl in Hr; try discriminate; [reflexivity|].
  injection Hr as -> _. reflexivity.
Qed.

Lemma sw_idlist_rm_first l : first_non_ws l = true -> first_non_ws (sw_idlist_rm l) = true.
Proof.
  destruct l as [|a l]; [discriminate|]. cbn [sw_idlist_rm first_non_ws]. intros Ha.
  destruct l as [|b l']; [exact Ha|]. apply negb_true_iff in Ha. rewrite Ha. exact (eq_sym (eq_sym (f_equal negb Ha))).
Qed.

Lemma sw_idlist_rm_last l : last_non_ws l = true -> last_non_ws (sw_idlist_rm l) = true.
Proof.
  induction l as [|a l IH]; [discriminate|]. cbn [sw_idlist_rm]. destruct l as [|b l']; [auto|].
  intros H.
  assert (Hl : last_non_ws (b :: l') = true).
  { unfold last_non_ws in *. cbn [rev] in *. destruct (rev l' ++ [b]) eqn:E; [destruct (rev l'); discriminate|].
    exact H. }
  specialize (IH Hl). destruct (is_ws a && is_comma b); [exact IH|].
  unfold last_non_ws in *. cbn [rev]. destruct (rev (sw_idlist_rm (b :: l'))); [discriminate | exact IH].
Qed.

Lemma edge_ok_set_value n v : is_ws n = true -> edge_ok (set_value n v) = true.
Proof. intros H. apply is_ws_leaf in H. destruct H as (ty & v0 & -> & _). reflexivity. Qed.

Lemma sw_default_go_edge a b l : forallb edge_ok l = true -> forallb edge_ok (sw_default_go a b l) = true.
Proof.
  revert a b; induction l as [|t l IH]; intros a b H; simpl in *; [reflexivity|].
  apply andb_true_iff in H. destruct H as [Ht Hl]. rewrite IH by exact Hl. rewrite andb_true_r.
  destruct (is_ws t) eqn:E; [apply edge_ok_set_value, E | exact Ht].
Qed.

Lemma forallb_app_l {A} (f : A -> bool) a b : forallb f (a ++ b) = true -> forallb f a = true.
Proof. rewrite forallb_app. intros H. apply andb_true_iff in H. apply H. Qed.
Lemma forallb_app_r {A} (f : A -> bool) a b : forallb f (a ++ b) = true -> forallb f b = true.
Proof. rewrite forallb_app. intros H. apply andb_true_iff in H. apply H. Qed.

Lemma sw_paren_body_edge l out :
  sw_paren_body l = Ok out -> first_non_ws l = true -> last_non_ws l = true -> forallb edge_ok l = true ->
  first_non_ws out = true /\ last_non_ws out = true /\ forallb edge_ok out = true.
Proof.
  unfold sw_paren_body.
  destruct (sw_pop1 l) as [l1|] eqn:E1; [|discriminate]. simpl.
  destruct (sw_popm2 l1) as [l2|] eqn:E2; [|discriminate]. simpl.
  destruct (sw_inner l2) as [l3|] eqn:E3; [|discriminate]. simpl.
  intros H Hf Hl He; injection H as <-.
  apply sw_pop1_spec in E1. destruct E1 as (k0 & w & x & r & -> & Hw & Hx & ->).
  apply sw_popm2_spec in E2. destruct E2 as (init & y & w2 & last & Hl1 & Hw2 & Hy & ->).
  cbn [first_non_ws] in Hf.
  (* the last element *)
  assert (Hlast : is_ws last = false).
  { assert (last_non_ws (k0 :: x :: r) = true).
    { unfold last_non_ws in *. cbn [rev] in *. rewrite rev_app_distr in Hl. cbn [rev] in Hl.
      rewrite <- !app_assoc in Hl. cbn [app] in Hl.
      destruct (rev r) as [|z zr]; cbn [app] in *; exact Hl. }
    rewrite Hl1 in H. unfold last_non_ws in H.
    replace (init ++ y :: w2 ++ [last]) with ((init ++ y :: w2) ++ [last]) in H
      by (rewrite <- app_assoc; reflexivity).
    rewrite rev_app_distr in H. cbn [rev app] in H. apply negb_true_iff in H. exact H. }
  assert (He1 : forallb edge_ok (k0 :: x :: r) = true).
  { cbn [forallb] in *. apply andb_true_iff in He. destruct He as [Hk0 He].
    apply forallb_app_r in He. rewrite Hk0. exact He. }
  rewrite Hl1 in He1.
  assert (Hei : forallb edge_ok init = true) by (eapply forallb_app_l, He1).
  assert (Hey : edge_ok y = true /\ edge_ok last = true).
  { apply forallb_app_r in He1. cbn [forallb] in He1. apply andb_true_iff in He1. destruct He1 as [Hy1 He1].
    apply forallb_app_r in He1. cbn [forallb] in He1. rewrite andb_true_r in He1. auto. }
  destruct Hey as [Hey Hel].
  (* the nested loop *)
  assert (H3 : exists y', l3 = init ++ [y'; last] /\ is_ws y' = false /\ edge_ok y' = true).
  { apply sw_inner_spec in E3. destruct E3 as (init' & g & last' & Hl2 & Hcase).
    assert (Heq : init' = init /\ g = y /\ last' = last).
    { change [y; last] with ([y] ++ [last]) in Hl2. change [g; last'] with ([g] ++ [last']) in Hl2.
      rewrite !app_assoc in Hl2. apply app_inj_tail in Hl2. destruct Hl2 as [Hl2 ->].
      apply app_inj_tail in Hl2. destruct Hl2 as [-> ->]. auto. }
    destruct Heq as (-> & -> & ->).
    destruct Hcase as [[_ ->]|(c & v & kids & kids' & -> & Hk & ->)].
    - exists y. auto.
    - exists (Grp c v kids'). split; [reflexivity|]. split; [reflexivity|].
      apply sw_pop_last_ws_spec in Hk. destruct Hk as (pre & z & w3 & -> & Hw3 & Hz & ->).
      rewrite edge_ok_grp in *. apply andb_true_iff in Hey. destruct Hey as [Hey Hall].
      apply andb_true_iff in Hey. destruct Hey as [Hfirst _].
      rewrite last_non_ws_snoc, Hz. cbn [negb]. rewrite andb_true_r.
      apply andb_true_iff. split.
      + destruct pre; cbn [app first_non_ws] in *; exact Hfirst.
      + change (z :: w3) with ([z] ++ w3) in Hall. rewrite app_assoc in Hall. eapply forallb_app_l, Hall. }
  destruct H3 as (y' & -> & Hy' & Hey').
  set (l3 := init ++ [y'; last]).
  assert (Hmap : map is_ws (sw_default l3) = map is_ws l3) by apply sw_default_go_is_ws.
  split; [|split].
  - rewrite (first_non_ws_map _ _ Hmap). unfold l3.
    destruct init as [|i0 init']; cbn [app first_non_ws]; [rewrite Hy'; reflexivity|].
    cbn [app] in Hl1. injection Hl1 as <- _. exact Hf.
  - rewrite (last_non_ws_map _ _ Hmap). unfold l3.
    replace (init ++ [y'; last]) with ((init ++ [y']) ++ [last]) by (rewrite <- app_assoc; reflexivity).
    rewrite last_non_ws_snoc, Hlast. reflexivity.
  - apply sw_default_go_edge. unfold l3. rewrite forallb_app, Hei. cbn [forallb]. rewrite Hey', Hel. reflexivity.
Qed.

Lemma sw_process_edge : forall n n', sw_process n = Ok n' -> edge_ok n = true ->
  edge_ok n' = true /\ is_ws n' = is_ws n.
Proof.
  induction n as [ty v | c v kids IH] using node_ind'; intros n' H He; cbn [sw_process] in H.
  - injection H as <-. auto.
  - destruct (mapM _ kids) as [kids1|] eqn:E1; [|discriminate]. simpl in H.
    destruct (sw_dispatch c kids1) as [kids2|] eqn:E2; [|discriminate]. simpl in H. injection H as <-.
    split; [|reflexivity]. rewrite edge_ok_grp in *.
    apply andb_true_iff in He. destruct He as [He Hall]. apply andb_true_iff in He. destruct He as [Hf Hl].
    assert (HF : Forall2 (fun k k' => edge_ok k' = true /\ is_ws k' = is_ws k) kids kids1).
    { eapply mapM_rel with (R := fun k k' => edge_ok k = true -> edge_ok k' = true /\ is_ws k' = is_ws k) in E1.
      - rewrite forallb_forall in Hall. clear -E1 Hall.
        induction E1 as [|k k' l l' Hk _ IHl]; constructor.
        + apply Hk, Hall. left; reflexivity.
        + apply IHl. intros x Hx. apply Hall. right; exact Hx.
      - eapply Forall_impl; [|exact IH]. intros k Hk k' Hk' Hek. cbv beta in Hk'.
        destruct (is_group k); [apply Hk; assumption|]. injection Hk' as <-. auto. }
    assert (Hmap : map is_ws kids1 = map is_ws kids).
    { clear -HF. induction HF as [|k k' l l' [_ Hk] _ IHl]; simpl; congruence. }
    assert (Hall1 : forallb edge_ok kids1 = true).
    { clear -HF. induction HF as [|k k' l l' [Hk _] _ IHl]; simpl; [reflexivity|]. rewrite Hk, IHl. reflexivity. }
    rewrite <- (first_non_ws_map _ _ Hmap) in Hf. rewrite <- (last_non_ws_map _ _ Hmap) in Hl.
    assert (Hdef : forall l0, first_non_ws l0 = true -> last_non_ws l0 = true -> forallb edge_ok l0 = true ->
                   first_non_ws (sw_default l0) && last_non_ws (sw_default l0)
                   && forallb edge_ok (sw_default l0) = true).
    { intros l0 H1 H2 H3.
      rewrite (first_non_ws_map _ l0), (last_non_ws_map _ l0) by apply sw_default_go_is_ws.
      rewrite H1, H2. apply sw_default_go_edge, H3. }
    destruct c; simpl in E2; try (injection E2 as <-; apply Hdef; assumption).
    + injection E2 as <-. apply Hdef; [apply sw_idlist_rm_first, Hf | apply sw_idlist_rm_last, Hl|].
      apply forallb_forall. apply Forall_forall. apply sw_idlist_rm_Forall.
      apply Forall_forall. apply forallb_forall. exact Hall1.
    + unfold sw_paren in E2. destruct kids1 as [|a0 [|b0 r0]];
        [injection E2 as <-; apply Hdef; assumption | injection E2 as <-; apply Hdef; assumption|].
      destruct (sw_paren_body_edge _ _ E2 Hf Hl Hall1) as (H1 & H2 & H3). rewrite H1, H2, H3. reflexivity.
Qed.

(* first / last leaf of an edge_ok group are not whitespace *)
Definition last_ws_tok (p : bool) (l : list tok) : bool :=
  match rev l with [] => p | tk :: _ => is_ws_tok tk end.

Lemma flat_nf_go_app p a b :
  flat_nf_go p (a ++ b) = flat_nf_go p a && flat_nf_go (last_ws_tok p a) b.
Proof.
  revert p; induction a as [|[ty v] a IH]; intros p; [reflexivity|].
  cbn [app flat_nf_go]. rewrite IH, andb_assoc. f_equal. f_equal.
  unfold last_ws_tok. cbn [rev]. destruct (rev a) as [|tk r]; reflexivity.
Qed.

Lemma edge_leaves : forall n, is_group n = true -> edge_ok n = true ->
  (exists ty v r, leaves n = (ty, v) :: r /\ tin ty T_Whitespace = false)
  /\ (forall p, last_ws_tok p (leaves n) = false).
Proof.
  induction n as [ty v | c v kids IH] using node_ind'; intros Hg He; [discriminate|].
  rewrite edge_ok_grp in He. apply andb_true_iff in He. destruct He as [He Hall].
  apply andb_true_iff in He. destruct He as [Hf Hl].
  rewrite forallb_forall in Hall. rewrite Forall_forall in IH.
  split.
  - destruct kids as [|k0 kids']; [discriminate|]. cbn [first_non_ws] in Hf. apply negb_true_iff in Hf.
    destruct k0 as [ty0 v0|c0 v0 kk].
    + exists ty0, v0, (leaves_list kids'). split; [reflexivity | exact Hf].
    + destruct (IH (Grp c0 v0 kk)) as [(ty1 & v1 & r1 & E & Ht) _]; [left; reflexivity | reflexivity | apply Hall; left; reflexivity|].
      exists ty1, v1, (r1 ++ leaves_list kids'). split; [|exact Ht].
      change (leaves (Grp c v (Grp c0 v0 kk :: kids'))) with (leaves (Grp c0 v0 kk) ++ leaves_list kids').
      rewrite E. reflexivity.
  - intros p. apply last_non_ws_split in Hl. destruct Hl as (pre & z & -> & Hz).
    change (leaves (Grp c v (pre ++ [z]))) with (leaves_list (pre ++ [z])).
    rewrite leaves_list_app. unfold leaves_list at 2. cbn [flat_map]. rewrite app_nil_r.
    destruct z as [tyz vz|cz vz kz].
    + unfold last_ws_tok. rewrite rev_app_distr. simpl. exact Hz.
    + destruct (IH (Grp cz vz kz)) as [(ty1 & v1 & r1 & E & _) Hlast];
        [apply in_or_app; right; left; reflexivity | reflexivity | apply Hall, in_or_app; right; left; reflexivity|].
      unfold last_ws_tok in *. rewrite rev_app_distr.
      specialize (Hlast p). destruct (rev (leaves (Grp cz vz kz))) as [|tk r] eqn:Er.
      * exfalso. rewrite E in Er. simpl in Er. destruct (rev r1); discriminate.
      * exact Hlast.
Qed.

Lemma flat_nf_go_nonws_start p q ty v r :
  tin ty T_Whitespace = false -> flat_nf_go p ((ty, v) :: r) = flat_nf_go q ((ty, v) :: r).
Proof. intros H. cbn [flat_nf_go]. rewrite H. reflexivity. Qed.

(* all-dnf: every group's children are as _stripws_default leaves them *)
Fixpoint all_dnf (n : node) : bool :=
  match n with Leaf _ _ => true | Grp _ _ kids => dnf kids && forallb all_dnf kids end.

Lemma sw_nf_all_dnf : forall n, sw_nf n = true -> all_dnf n = true.
Proof.
  induction n as [ty v | c v kids IH] using node_ind'; intros H; [reflexivity|].
  cbn [sw_nf all_dnf] in *. apply andb_true_iff in H. destruct H as [H Hall].
  apply andb_true_iff in H. destruct H as [Hd _]. rewrite Hd. cbn [andb].
  rewrite forallb_forall in *. rewrite Forall_forall in IH. intros x Hx. apply IH; auto.
Qed.

Lemma flat_of_dnf : forall n, all_dnf n = true -> edge_ok n = true ->
  forall p, is_group n = true -> flat_nf_go p (leaves n) = true.
Proof.
  induction n as [ty v | c v kids IH] using node_ind'; intros Hd He p Hg; [discriminate|].
  cbn [all_dnf] in Hd. apply andb_true_iff in Hd. destruct Hd as [Hdk Hdall].
  rewrite edge_ok_grp in He. apply andb_true_iff in He. destruct He as [He Heall].
  apply andb_true_iff in He. destruct He as [Hf _].
  change (leaves (Grp c v kids)) with (leaves_list kids).
  (* generalise over the scan state; the first child is not whitespace, so p does not matter *)
  assert (Hgen : forall l a b q, Forall (fun n => all_dnf n = true -> edge_ok n = true ->
                                     forall p, is_group n = true -> flat_nf_go p (leaves n) = true) l ->
                 forallb all_dnf l = true -> forallb edge_ok l = true -> dnf_go a b l = true ->
                 (match l with k :: _ => is_ws k = false | [] => True end \/ q = (a || b)) ->
                 flat_nf_go q (leaves_list l) = true).
  { clear. induction l as [|t l IHl]; intros a b q HIH Hda Hea Hdnf Hstart; [reflexivity|].
    inversion HIH as [|? ? Ht HIHl]; subst.
    cbn [forallb] in Hda, Hea. apply andb_true_iff in Hda. destruct Hda as [Hdt Hdl].
    apply andb_true_iff in Hea. destruct Hea as [Het Hel].
    cbn [dnf_go] in Hdnf. apply andb_true_iff in Hdnf. destruct Hdnf as [Hv Hdnf].
    rewrite leaves_list_cons.
    destruct t as [ty v|c v kk].
    - cbn [leaves app flat_nf_go]. cbn [is_ws tt_in] in *.
      destruct (tin ty T_Whitespace) eqn:Ew.
      + destruct Hstart as [Hs|Hs]; [discriminate|]. subst q.
        apply andb_true_iff. split.
        * cbn [nvalue] in Hv. destruct (a || b); [exact Hv|].
          apply text_eqb_eq in Hv. subst v. reflexivity.
        * eapply (IHl true false); auto.
      + cbn [andb]. eapply (IHl false false); auto; try (intros; discriminate).
    - destruct (edge_leaves (Grp c v kk) eq_refl Het) as [(ty1 & v1 & r1 & E & Hnw) Hlast].
      rewrite flat_nf_go_app. apply andb_true_iff. split.
      + apply Ht; auto.
      + rewrite Hlast. eapply (IHl false false); auto; try (intros; discriminate). }
  apply (Hgen kids false true p); auto.
  left. destruct kids as [|k0 kids']; [exact I|]. cbn [first_non_ws] in Hf. apply negb_true_iff in Hf. exact Hf.
Qed.

(* In a tree where no group starts or ends with a whitespace token, the result, read as a flat token
   sequence, has: every whitespace-typed leaf carries '' or ' '; a whitespace-typed leaf directly
   after another one carries ''.  So every maximal run of whitespace tokens renders as at most one
   blank, and (the statement starts with a non-whitespace token) there is no leading blank. *)
Theorem stripws_flat_nf : forall n n', is_group n = true -> sw_wf n = true -> edge_ok n = true ->
  stripws n = Ok n' -> flat_nf_go true (leaves n') = true /\ edge_ok n' = true.
Proof.
  intros n n' Hg Hwf He H.
  destruct (stripws_total n Hg Hwf) as (n2 & E & Hnf). rewrite H in E. injection E as <-.
  unfold stripws in H. destruct n as [ty v|c v kids]; [discriminate|].
  destruct (sw_process (Grp c v kids)) as [n1|] eqn:E1; [|discriminate]. simpl in H.
  destruct (sw_process_edge _ _ E1 He) as [He1 _].
  destruct n1 as [ty1 v1|c1 v1 kids1].
  { exfalso. cbn [sw_process] in E1. destruct (mapM _ kids) as [k1|]; [|discriminate]. simpl in E1.
    destruct (sw_dispatch c k1); discriminate. }
  injection H as <-.
  assert (Hpop : pop_last_if_ws kids1 = kids1).
  { rewrite edge_ok_grp in He1. apply andb_true_iff in He1. destruct He1 as [He1 _].
    apply andb_true_iff in He1. destruct He1 as [_ Hl]. unfold pop_last_if_ws, last_non_ws in *.
    destruct (rev kids1) as [|t r]; [reflexivity|]. apply negb_true_iff in Hl. rewrite Hl. reflexivity. }
  rewrite Hpop in *. split; [|exact He1].
  apply flat_of_dnf; [apply sw_nf_all_dnf, Hnf | exact He1 | reflexivity].
Qed.
Print Assumptions stripws_flat_nf.

(* ================================================================================================
   StripTrailingSemicolonFilter
   ================================================================================================ *)
Definition ws_or_semi (t : node) : bool := is_ws t || text_eqb (nvalue t) s_semi.

Lemma drop_ws_semi_spec l :
  exists w, l = w ++ drop_ws_semi l /\ forallb ws_or_semi w = true
            /\ match drop_ws_semi l with x :: _ => ws_or_semi x = false | [] => True end.
Proof.
  induction l as [|t r (w & E & Hw & Hh)]; [exists []; repeat split|]. cbn [drop_ws_semi]. fold (ws_or_semi t).
  destruct (ws_or_semi t) eqn:Et.
  - exists (t :: w). cbn [app forallb]. rewrite Et, Hw, <- E. auto.
  - exists []. cbn [app]. rewrite Et. auto.
Qed.

Lemma forallb_rev' {A} (f : A -> bool) l : forallb f (rev l) = forallb f l.
Proof.
  induction l as [|x l IH]; [reflexivity|]. simpl. rewrite forallb_app, IH. simpl.
  rewrite andb_true_r. apply andb_comm.
Qed.

(* the filter is total on statements; it removes a suffix made of whitespace tokens and tokens whose
   value is ';' and stops at the first token that is neither; applying it twice changes nothing *)
Theorem strip_trailing_semicolon_spec : forall c v kids,
  exists kept dropped,
    strip_trailing_semicolon (Grp c v kids) = Ok (Grp c v kept)
    /\ kids = kept ++ dropped /\ forallb ws_or_semi dropped = true
    /\ match rev kept with x :: _ => ws_or_semi x = false | [] => True end
    /\ strip_trailing_semicolon (Grp c v kept) = Ok (Grp c v kept).
Proof.
  intros c v kids. destruct (drop_ws_semi_spec (rev kids)) as (w & E & Hw & Hh).
  exists (rev (drop_ws_semi (rev kids))), (rev w). split; [reflexivity|].
  split; [rewrite <- rev_app_distr, <- E, rev_involutive; reflexivity|].
  split; [rewrite forallb_rev'; exact Hw|]. rewrite rev_involutive. split; [exact Hh|].
  cbn [strip_trailing_semicolon]. rewrite rev_involutive.
  destruct (drop_ws_semi (rev kids)) as [|x r] eqn:Ed; [reflexivity|].
  cbn [drop_ws_semi]. fold (ws_or_semi x). rewrite Hh. reflexivity.
Qed.
Print Assumptions strip_trailing_semicolon_spec.
